package cli

// polysim is built as a test binary (go test -c) so that engines can enter testing/synctest
// bubbles (fake clock). TestSim is the only entry point; flags select what it does.

import (
	"flag"
	"fmt"
	"os"
	"runtime/pprof"
	"strconv"
	"testing"

	"polysim/kernel"
)

var (
	fProp     = flag.String("prop", "", "property id")
	fTier     = flag.String("tier", "quick", "quick|thorough")
	fSeed     = flag.String("seed", "", "VERIF_SEED (default env VERIF_SEED or 1)")
	fWorkers  = flag.Int("workers", 0, "worker processes (default NumCPU)")
	fWorker   = flag.Bool("worker", false, "internal: worker mode")
	fFrom     = flag.Int("from", 0, "internal")
	fTo       = flag.Int("to", 0, "internal")
	fDeadline = flag.Int("deadline", 0, "internal: wall cap seconds")
	fReplay   = flag.String("replay", "", "replay file")
	fVerbose  = flag.Bool("verbose", false, "print every trace line")
	fDir      = flag.String("verifdir", "/verif", "verif dir")
	fRuns     = flag.Int("runs", 0, "override number of runs")
	fSelftest = flag.Bool("selftest", false, "determinism self-test")
	fList     = flag.Bool("list", false, "list checks")
)

// Main is the body of TestSim in every polysim command.
func Main(t *testing.T) {
	kernel.T = t
	seed := uint64(1)
	s := *fSeed
	if s == "" {
		s = os.Getenv("VERIF_SEED")
	}
	if s != "" {
		if v, err := strconv.ParseUint(s, 10, 64); err == nil {
			seed = v
		} else if v, err := strconv.ParseInt(s, 10, 64); err == nil {
			seed = uint64(v)
		}
	}
	o := &kernel.Options{Prop: *fProp, Tier: *fTier, Seed: seed, Workers: *fWorkers, Worker: *fWorker, From: *fFrom, To: *fTo,
		Replay: *fReplay, Verbose: *fVerbose, VerifDir: *fDir, Runs: *fRuns, Selftest: *fSelftest, DeadlineS: *fDeadline}
	code := 0
	if pf := os.Getenv("POLYSIM_CPUPROF"); pf != "" {
		if f, err := os.Create(pf); err == nil {
			pprof.StartCPUProfile(f)
			defer func() { pprof.StopCPUProfile(); f.Close() }()
		}
	}
	stop := func() {
		if os.Getenv("POLYSIM_CPUPROF") != "" {
			pprof.StopCPUProfile()
		}
	}
	switch {
	case *fList:
		for _, id := range kernel.IDs() {
			fmt.Println(id)
		}
	case o.Replay != "":
		code = kernel.RunReplay(o)
	case o.Worker:
		code = kernel.RunWorker(o)
	case o.Selftest:
		code = kernel.RunSelftest(o)
	default:
		code = kernel.RunParent(o)
	}
	kernel.Cleanup()
	stop()
	os.Exit(code)
}
