package chain

import (
	"encoding/hex"
	"fmt"
	"sort"

	"github.com/ontio/ontology-crypto/keypair"
	"github.com/polynetwork/poly/account"
	"github.com/polynetwork/poly/common"
	"github.com/polynetwork/poly/common/config"
	"github.com/polynetwork/poly/consensus/vbft"
	vconfig "github.com/polynetwork/poly/consensus/vbft/config"
	"github.com/polynetwork/poly/core/signature"
	"github.com/polynetwork/poly/core/store"
	"github.com/polynetwork/poly/core/types"
)

// BlockSpec says how the producer stub should assemble the next block. Zero value = honest.
type BlockSpec struct {
	Txs        []*types.Transaction
	Nonce      uint64
	TimeDelta  uint32             // seconds after the previous block (0 => 1)
	Signers    []*account.Account // nil => honest quorum: all members of the set in force
	SkipConfig bool               // do not announce a pending chain-config change
}

// PendingConfig returns the chain configuration block `h` (= current+1) has to announce, or
// nil. It mirrors makeProposal: a config is announced when the governance view in committed
// state is ahead of the view of the configuration in force (checkUpdateChainConfig), or when
// the epoch timed out (checkNeedUpdateChainConfig), in which case a commitDpos system
// transaction is added and the announced view is one higher.
func (n *Node) PendingConfig(vs *ValidatorSet) (cfg *vconfig.ChainConfig, sysTx *types.Transaction, err error) {
	n.Use()
	blkNum := n.Height() + 1
	gv, err := vbft.GetGovernanceView(nil)
	if err != nil {
		return nil, nil, err
	}
	timeout := (blkNum - vs.LastConfigNum) >= vs.Cfg.MaxBlockChangeView
	force := gv.View > vs.Cfg.View
	if !timeout && !force {
		return nil, nil, nil
	}
	vc, err := vbft.GetVbftConfigInfo(nil)
	if err != nil {
		return nil, nil, err
	}
	peers, err := vbft.GetPeersConfig(nil)
	if err != nil {
		return nil, nil, err
	}
	// GetPeersConfig iterates a Go map; sort so that the stub is deterministic.
	sort.Slice(peers, func(i, j int) bool { return peers[i].Index < peers[j].Index })
	cfg, err = vconfig.GenesisChainConfig(vc, peers, blkNum)
	if err != nil {
		return nil, nil, err
	}
	cfg.View = gv.View
	if timeout {
		sysTx = n.W.NewTx(NodeManager, "commitDpos", nil, uint32(blkNum))
		cfg.View++
	}
	return cfg, sysTx, nil
}

// BuildBlock assembles block current+1 on node n exactly as VBFT's constructBlock /
// constructProposalMsg do (header fields, consensus payload, cross-state root of the previous
// block, block root), and seals it with spec.Signers.
func (n *Node) BuildBlock(spec *BlockSpec) (*types.Block, error) {
	n.Use()
	l := n.L
	h := l.GetCurrentBlockHeight() + 1
	prev, err := l.GetHeaderByHeight(h - 1)
	if err != nil || prev == nil {
		return nil, fmt.Errorf("no prev header: %v", err)
	}
	vs, err := n.CurrentSet()
	if err != nil {
		return nil, err
	}
	txs := append([]*types.Transaction{}, spec.Txs...)
	var newCfg *vconfig.ChainConfig
	if !spec.SkipConfig {
		cfg, sysTx, err := n.PendingConfig(vs)
		if err != nil {
			return nil, err
		}
		newCfg = cfg
		if sysTx != nil {
			txs = append([]*types.Transaction{sysTx}, txs...)
		}
	}
	lastCfg := vs.LastConfigNum
	nextBookkeeper := common.ADDRESS_EMPTY
	if newCfg != nil {
		var bks []keypair.PublicKey
		for _, p := range newCfg.Peers {
			pkb, _ := hex.DecodeString(p.ID)
			pk, err := keypair.DeserializePublicKey(pkb)
			if err != nil {
				return nil, err
			}
			bks = append(bks, pk)
		}
		nextBookkeeper, err = types.AddressFromBookkeepers(bks)
		if err != nil {
			return nil, err
		}
		lastCfg = h
	}
	proposer := uint32(0)
	if len(vs.Cfg.Peers) > 0 {
		proposer = vs.Cfg.Peers[int(spec.Nonce%uint64(len(vs.Cfg.Peers)))].Index
	}
	info := &vconfig.VbftBlockInfo{Proposer: proposer, VrfValue: []byte{byte(h), 1}, VrfProof: []byte{byte(h), 2},
		LastConfigBlockNum: lastCfg, NewChainConfig: newCfg}
	payload := mustJSON(info)
	var txHashes []common.Uint256
	for _, t := range txs {
		txHashes = append(txHashes, t.Hash())
	}
	crossRoot, err := l.GetCrossStateRoot(h - 1)
	if err != nil {
		return nil, err
	}
	td := spec.TimeDelta
	if td == 0 {
		td = 1
	}
	hdr := &types.Header{
		Version:          types.CURR_HEADER_VERSION,
		ChainID:          config.GetChainIdByNetId(config.DefConfig.P2PNode.NetworkId),
		PrevBlockHash:    prev.Hash(),
		TransactionsRoot: common.ComputeMerkleRoot(txHashes),
		CrossStateRoot:   crossRoot,
		BlockRoot:        l.GetBlockRootWithPreBlockHashes(h, []common.Uint256{prev.Hash()}),
		Timestamp:        prev.Timestamp + td,
		Height:           h,
		NextBookkeeper:   nextBookkeeper,
		ConsensusData:    spec.Nonce,
		ConsensusPayload: payload,
	}
	blk := &types.Block{Header: hdr, Transactions: txs}
	signers := spec.Signers
	if signers == nil {
		for _, id := range vs.Peers {
			if a := n.W.ByPub(id); a != nil {
				signers = append(signers, a)
			}
		}
	}
	if err := Seal(blk, signers); err != nil {
		return nil, err
	}
	return blk, nil
}

// Seal replaces the block's bookkeepers/signatures with those of signers.
func Seal(blk *types.Block, signers []*account.Account) error {
	hash := blk.Hash()
	blk.Header.Bookkeepers = nil
	blk.Header.SigData = nil
	for _, a := range signers {
		sig, err := signature.Sign(a, hash[:])
		if err != nil {
			return err
		}
		blk.Header.Bookkeepers = append(blk.Header.Bookkeepers, a.PublicKey)
		blk.Header.SigData = append(blk.Header.SigData, sig)
	}
	return nil
}

// Produce executes and commits blk on the producing node through the consensus path
// (ExecuteBlock + SubmitBlock) and returns the execution result.
func (n *Node) Produce(blk *types.Block) (store.ExecuteResult, error) {
	n.Use()
	res, err := n.L.ExecuteBlock(blk)
	if err != nil {
		return res, err
	}
	return res, n.L.SubmitBlock(blk, res)
}

// Sync applies blk on a follower through the sync path (AddBlock with the producer's state root).
func (n *Node) Sync(blk *types.Block, stateRoot common.Uint256) error {
	n.Use()
	return n.L.AddBlock(blk, stateRoot)
}
