// Package chain is the E1 library: deterministic key material, custom genesis, simulated
// nodes holding real poly ledgers on per-run directories, a block-producer stub that
// assembles and seals blocks exactly as VBFT's constructBlock/constructProposalMsg do, and
// native-contract transaction builders.
package chain

import (
	"crypto/ecdsa"
	"crypto/elliptic"
	"crypto/sha256"
	"encoding/binary"
	"encoding/hex"
	"math/big"

	"github.com/ontio/ontology-crypto/ec"
	"github.com/ontio/ontology-crypto/keypair"
	s "github.com/ontio/ontology-crypto/signature"
	"github.com/polynetwork/poly/account"
	"github.com/polynetwork/poly/core/types"
)

// NewAccount derives a P-256 account from (seed,label): no crypto/rand involved.
func NewAccount(seed uint64, label string) *account.Account {
	c := elliptic.P256()
	b := binary.LittleEndian.AppendUint64(nil, seed)
	b = append(b, "key:"...)
	b = append(b, label...)
	h := sha256.Sum256(b)
	d := new(big.Int).SetBytes(h[:])
	n1 := new(big.Int).Sub(c.Params().N, big.NewInt(1))
	d.Mod(d, n1)
	d.Add(d, big.NewInt(1))
	x, y := c.ScalarBaseMult(d.Bytes())
	pri := &ec.PrivateKey{Algorithm: ec.ECDSA, PrivateKey: &ecdsa.PrivateKey{D: d, PublicKey: ecdsa.PublicKey{Curve: c, X: x, Y: y}}}
	pub := &ec.PublicKey{Algorithm: ec.ECDSA, PublicKey: &pri.PublicKey}
	return &account.Account{PrivateKey: pri, PublicKey: pub, Address: types.AddressFromPubKey(pub), SigScheme: s.SHA256withECDSA}
}

// PubHex is the node id / peer pubkey string used by governance and VBFT.
func PubHex(a *account.Account) string {
	return hex.EncodeToString(keypair.SerializePublicKey(a.PublicKey))
}
