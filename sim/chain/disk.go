package chain

import (
	"crypto/sha256"
	"fmt"
	"io"
	"os"
	"path/filepath"
	"sort"

	"github.com/syndtr/goleveldb/leveldb"
	"github.com/syndtr/goleveldb/leveldb/opt"
)

// CopyDir copies a closed node's durable directory.
func CopyDir(src, dst string) error {
	return filepath.Walk(src, func(p string, info os.FileInfo, err error) error {
		if err != nil {
			return err
		}
		rel, _ := filepath.Rel(src, p)
		t := filepath.Join(dst, rel)
		if info.IsDir() {
			return os.MkdirAll(t, 0o755)
		}
		if info.Name() == "LOCK" {
			return nil
		}
		in, err := os.Open(p)
		if err != nil {
			return err
		}
		defer in.Close()
		out, err := os.Create(t)
		if err != nil {
			return err
		}
		defer out.Close()
		_, err = io.Copy(out, in)
		return err
	})
}

// DumpDB reads the full key/value content of a closed LevelDB directory (read-only).
func DumpDB(dir string) (map[string][]byte, error) {
	db, err := leveldb.OpenFile(dir, &opt.Options{ReadOnly: true, ErrorIfMissing: true})
	if err != nil {
		return nil, err
	}
	defer db.Close()
	out := map[string][]byte{}
	it := db.NewIterator(nil, nil)
	for it.Next() {
		out[string(it.Key())] = append([]byte{}, it.Value()...)
	}
	it.Release()
	return out, it.Error()
}

// Durable is the durable content of a closed node: its three databases.
type Durable struct {
	Block, State, Event map[string][]byte
}

func (n *Node) DumpDurable() (*Durable, error) {
	if n.L != nil {
		return nil, fmt.Errorf("node must be closed")
	}
	d := &Durable{}
	var err error
	if d.Block, err = DumpDB(n.Dir + "/block"); err != nil {
		return nil, err
	}
	if d.State, err = DumpDB(n.Dir + "/states"); err != nil {
		return nil, err
	}
	if d.Event, err = DumpDB(n.Dir + "/ledgerevent"); err != nil {
		return nil, err
	}
	return d, nil
}

func digestMap(m map[string][]byte) string {
	keys := make([]string, 0, len(m))
	for k := range m {
		keys = append(keys, k)
	}
	sort.Strings(keys)
	h := sha256.New()
	for _, k := range keys {
		fmt.Fprintf(h, "%d:%s=%d:", len(k), k, len(m[k]))
		h.Write(m[k])
	}
	return fmt.Sprintf("%x", h.Sum(nil)[:8])
}

func (d *Durable) Digest() string {
	return digestMap(d.Block) + "/" + digestMap(d.State) + "/" + digestMap(d.Event)
}

// DiffMaps describes the first few differences between two key/value maps.
func DiffMaps(name string, a, b map[string][]byte) []string {
	var out []string
	keys := map[string]bool{}
	for k := range a {
		keys[k] = true
	}
	for k := range b {
		keys[k] = true
	}
	ks := make([]string, 0, len(keys))
	for k := range keys {
		ks = append(ks, k)
	}
	sort.Strings(ks)
	for _, k := range ks {
		va, oka := a[k]
		vb, okb := b[k]
		switch {
		case oka && !okb:
			out = append(out, fmt.Sprintf("%s key %x only in first (%d bytes)", name, k, len(va)))
		case !oka && okb:
			out = append(out, fmt.Sprintf("%s key %x only in second (%d bytes)", name, k, len(vb)))
		case string(va) != string(vb):
			out = append(out, fmt.Sprintf("%s key %x differs (%x... vs %x...)", name, k, head(va), head(vb)))
		}
		if len(out) >= 6 {
			break
		}
	}
	return out
}

func head(b []byte) []byte {
	if len(b) > 12 {
		return b[:12]
	}
	return b
}

func (d *Durable) Diff(o *Durable) []string {
	out := DiffMaps("block", d.Block, o.Block)
	out = append(out, DiffMaps("state", d.State, o.State)...)
	out = append(out, DiffMaps("event", d.Event, o.Event)...)
	return out
}

// NodeAt registers a node over an existing (possibly empty) directory without opening it.
func (w *World) NodeAt(name, dir string) *Node {
	n := &Node{W: w, Name: name, Dir: dir}
	w.nodes = append(w.nodes, n)
	return n
}

// Forget closes and removes a scratch node.
func (w *World) Forget(n *Node) {
	n.Close()
	os.RemoveAll(n.Dir)
	for i, x := range w.nodes {
		if x == n {
			w.nodes = append(w.nodes[:i], w.nodes[i+1:]...)
			break
		}
	}
}
