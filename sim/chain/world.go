package chain

import (
	"encoding/json"
	"fmt"
	"os"
	"sort"

	"github.com/ontio/ontology-crypto/keypair"
	"github.com/polynetwork/poly/account"
	"github.com/polynetwork/poly/common"
	"github.com/polynetwork/poly/common/config"
	"github.com/polynetwork/poly/common/log"
	vconfig "github.com/polynetwork/poly/consensus/vbft/config"
	"github.com/polynetwork/poly/core/genesis"
	"github.com/polynetwork/poly/core/ledger"
	"github.com/polynetwork/poly/core/types"
	_ "github.com/polynetwork/poly/native/service"

	"polysim/kernel"
)

const vrfHex = "1c9810aa9822e511d5804a9c4db9dd08497c31087b0daafa34d768a3253441fa20515e2f30f81741102af0ca3cefc4818fef16adb825fbaa8cad78647f3afb590e"

// World is the shared, process-global part of one simulated run: configuration singletons,
// genesis, key registry.
type World struct {
	Seed       uint64
	Run        *kernel.Run
	NetworkID  uint32
	ChainID    uint64
	Genesis    *types.Block
	Bookkeeper []keypair.PublicKey
	InitVals   []*account.Account
	accounts   map[string]*account.Account // by pubkey hex
	byAddr     map[common.Address]*account.Account
	Root       string
	nodes      []*Node
	MaxView    uint32
}

func init() {
	log.InitLog(log.MaxLevelLog) // silence poly logging (no writers => discard)
}

// NewWorld builds a custom genesis with n generated validators. networkID selects poly's
// network-dependent gates (1 = main net); maxBlockChangeView is the governance epoch length.
func NewWorld(run *kernel.Run, n int, networkID uint32, maxBlockChangeView uint32) (*World, error) {
	w := &World{Seed: run.Plan.Seed, Run: run, NetworkID: networkID, accounts: map[string]*account.Account{}, byAddr: map[common.Address]*account.Account{}, MaxView: maxBlockChangeView}
	w.Root = kernel.TempDir("world")
	for i := 0; i < n; i++ {
		w.InitVals = append(w.InitVals, w.Account(fmt.Sprintf("val%d", i)))
	}
	peers := make([]*config.VBFTPeerInfo, 0, n)
	for i, a := range w.InitVals {
		peers = append(peers, &config.VBFTPeerInfo{Index: uint32(i + 1), PeerPubkey: PubHex(a), Address: a.Address.ToBase58()})
	}
	cfg := config.DefConfig
	cfg.P2PNode.NetworkId = networkID
	// node-local setting that must not influence execution results; varied per run (swarm)
	cfg.Common.EnableEventLog = run.Plan.C("eventlog", 1) != 0
	cfg.Genesis = &config.GenesisConfig{
		ConsensusType: config.CONSENSUS_TYPE_VBFT,
		VBFT: &config.VBFTConfig{BlockMsgDelay: 10000, HashMsgDelay: 10000, PeerHandshakeTimeout: 10,
			MaxBlockChangeView: maxBlockChangeView, VrfValue: vrfHex, VrfProof: vrfHex, Peers: peers},
		DBFT: &config.DBFTConfig{}, SOLO: &config.SOLOConfig{},
	}
	w.ChainID = config.GetChainIdByNetId(networkID)
	bk, err := cfg.GetBookkeepers()
	if err != nil {
		return nil, err
	}
	w.Bookkeeper = bk
	gb, err := genesis.BuildGenesisBlock(bk, cfg.Genesis)
	if err != nil {
		return nil, err
	}
	w.Genesis = gb
	return w, nil
}

// Account returns the deterministic account for a label (created on first use).
func (w *World) Account(label string) *account.Account {
	a := NewAccount(w.Seed, label)
	w.accounts[PubHex(a)] = a
	w.byAddr[a.Address] = a
	return a
}

func (w *World) ByPub(pubhex string) *account.Account { return w.accounts[pubhex] }

// Close closes all nodes and removes the run's directories.
func (w *World) Close() {
	for _, n := range w.nodes {
		n.Close()
	}
	ledger.DefLedger = nil
	os.RemoveAll(w.Root)
}

// Node is one simulated poly node: a durable directory plus (while up) a real ledger.
type Node struct {
	W    *World
	Name string
	Dir  string
	L    *ledger.Ledger
}

func (w *World) NewNode(name string) (*Node, error) {
	n := &Node{W: w, Name: name, Dir: w.Root + "/" + name}
	w.nodes = append(w.nodes, n)
	return n, n.Open()
}

// Open (re)starts the node from its durable directory.
func (n *Node) Open() error {
	if n.L != nil {
		return nil
	}
	l, err := ledger.NewLedger(n.Dir)
	if err != nil {
		return err
	}
	// side_chain_manager serialisation reads ledger.DefLedger; it must never be nil while
	// contracts execute. Point it at the node being operated.
	ledger.DefLedger = l
	// n.L is set before Init so that a simulated crash (sentinel panic) inside
	// initialisation/recovery leaves the handles reachable for Close.
	n.L = l
	if err := l.Init(n.W.Bookkeeper, n.W.Genesis); err != nil {
		l.Close()
		n.L = nil
		return err
	}
	return nil
}

// Close drops every in-memory object; only the directory survives. (LevelDB has journaled
// every completed batch commit; nothing poly buffers is flushed by closing.)
func (n *Node) Close() {
	if n.L != nil {
		n.L.Close()
		n.L = nil
	}
}

func (n *Node) Use() { ledger.DefLedger = n.L }

func (n *Node) Height() uint32 { return n.L.GetCurrentBlockHeight() }

// ValidatorSet is the consensus set in force after the ledger's current block, derived from
// headers exactly as InitLedgerStoreWithGenesisBlock does.
type ValidatorSet struct {
	Cfg           *vconfig.ChainConfig
	ConfigBlock   uint32 // height of the block that carried Cfg
	Peers         []string
	LastConfigNum uint32 // value to put in the next block's LastConfigBlockNum
}

func (n *Node) CurrentSet() (*ValidatorSet, error) {
	h := n.L.GetCurrentBlockHeight()
	hdr, err := n.L.GetHeaderByHeight(h)
	if err != nil || hdr == nil {
		return nil, fmt.Errorf("no header at %d: %v", h, err)
	}
	info, err := vconfig.VbftBlock(hdr)
	if err != nil {
		return nil, err
	}
	vs := &ValidatorSet{}
	if info.NewChainConfig != nil {
		vs.Cfg, vs.ConfigBlock, vs.LastConfigNum = info.NewChainConfig, h, h
	} else {
		ch, err := n.L.GetHeaderByHeight(info.LastConfigBlockNum)
		if err != nil || ch == nil {
			return nil, fmt.Errorf("no config header at %d: %v", info.LastConfigBlockNum, err)
		}
		ci, err := vconfig.VbftBlock(ch)
		if err != nil {
			return nil, err
		}
		if ci.NewChainConfig == nil {
			return nil, fmt.Errorf("config block %d has no config", info.LastConfigBlockNum)
		}
		vs.Cfg, vs.ConfigBlock, vs.LastConfigNum = ci.NewChainConfig, info.LastConfigBlockNum, info.LastConfigBlockNum
	}
	for _, p := range vs.Cfg.Peers {
		vs.Peers = append(vs.Peers, p.ID)
	}
	sort.Strings(vs.Peers)
	return vs, nil
}

func mustJSON(v interface{}) []byte {
	b, err := json.Marshal(v)
	if err != nil {
		panic(err)
	}
	return b
}
