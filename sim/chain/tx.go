package chain

import (
	"github.com/ontio/ontology-crypto/keypair"
	"github.com/polynetwork/poly/account"
	"github.com/polynetwork/poly/common"
	"github.com/polynetwork/poly/core/payload"
	"github.com/polynetwork/poly/core/signature"
	"github.com/polynetwork/poly/core/types"
	"github.com/polynetwork/poly/native/service/utils"
	"github.com/polynetwork/poly/native/states"
)

var (
	NodeManager      = utils.NodeManagerContractAddress
	SideChainManager = utils.SideChainManagerContractAddress
	RelayerManager   = utils.RelayerManagerContractAddress
	CrossChain       = utils.CrossChainManagerContractAddress
	HeaderSync       = utils.HeaderSyncContractAddress
	SigManager       = utils.SignatureManagerContractAddress
	Neo3State        = utils.Neo3StateManagerContractAddress
	Replenish        = utils.ReplenishContractAddress
)

// Ser is anything with poly's sink serialisation.
type Ser interface {
	Serialization(sink *common.ZeroCopySink)
}

type serE interface {
	Serialization(sink *common.ZeroCopySink) error
}

// Args serialises a parameter struct with poly's own Serialization method.
func Args(p interface{}) []byte {
	sink := common.NewZeroCopySink(nil)
	switch v := p.(type) {
	case Ser:
		v.Serialization(sink)
	case serE:
		if err := v.Serialization(sink); err != nil {
			panic(err)
		}
	default:
		panic("Args: not serialisable")
	}
	return sink.Bytes()
}

// NewTx builds an unsigned native-contract invocation and round-trips it through the wire
// form (as the RPC layer does), so that Raw and the hash are set.
func (w *World) NewTx(contract common.Address, method string, args []byte, nonce uint32) *types.Transaction {
	ip := &states.ContractInvokeParam{Address: contract, Method: method, Args: args}
	code := common.NewZeroCopySink(nil)
	ip.Serialization(code)
	tx := &types.Transaction{Version: types.CURR_TX_VERSION, TxType: types.Invoke, Nonce: nonce, ChainID: w.ChainID,
		Payload: &payload.InvokeCode{Code: code.Bytes()}}
	return Rewire(tx)
}

// Rewire serialises and re-parses a transaction.
func Rewire(tx *types.Transaction) *types.Transaction {
	sink := common.NewZeroCopySink(nil)
	if err := tx.Serialization(sink); err != nil {
		panic(err)
	}
	out, err := types.TransactionFromRawBytes(sink.Bytes())
	if err != nil {
		panic(err)
	}
	return out
}

// SignTx adds a single-key signature entry per signer.
func SignTx(tx *types.Transaction, signers ...*account.Account) *types.Transaction {
	h := tx.Hash()
	for _, a := range signers {
		sig, err := signature.Sign(a, h[:])
		if err != nil {
			panic(err)
		}
		tx.Sigs = append(tx.Sigs, types.Sig{PubKeys: []keypair.PublicKey{a.PublicKey}, M: 1, SigData: [][]byte{sig}})
	}
	return Rewire(tx)
}

// MultiSignTx adds one m-of-n signature entry over pubs signed by the given members.
func MultiSignTx(tx *types.Transaction, m int, pubs []keypair.PublicKey, signers ...*account.Account) *types.Transaction {
	h := tx.Hash()
	var sigs [][]byte
	for _, a := range signers {
		sig, err := signature.Sign(a, h[:])
		if err != nil {
			panic(err)
		}
		sigs = append(sigs, sig)
	}
	tx.Sigs = append(tx.Sigs, types.Sig{PubKeys: pubs, M: uint16(m), SigData: sigs})
	return Rewire(tx)
}

// OperatorSign signs as the consensus operator multi-address of the given validator accounts
// (the address GetCurConOperator derives: m = n-(n-1)/3 of the consensus public keys).
func OperatorSign(tx *types.Transaction, vals []*account.Account) *types.Transaction {
	if len(vals) == 1 {
		return SignTx(tx, vals[0])
	}
	var pubs []keypair.PublicKey
	for _, a := range vals {
		pubs = append(pubs, a.PublicKey)
	}
	m := len(vals) - (len(vals)-1)/3
	return MultiSignTx(tx, m, pubs, vals[:m]...)
}
