package kernel

import (
	"crypto/sha256"
	"encoding/hex"
	"fmt"
	"os"
	"sort"
)

// Step is one planned action. Its meaning is engine-defined; arguments are integers (and an
// optional string) so that plans can be shrunk and stay executable: engines resolve an
// argument that selects "one of the currently enabled things" as value mod |enabled|.
type Step struct {
	Op string  `json:"op"`
	A  []int64 `json:"a,omitempty"`
	S  string  `json:"s,omitempty"`
}

func (s Step) Arg(i int) int64 {
	if i < len(s.A) {
		return s.A[i]
	}
	return 0
}

func (s Step) String() string {
	if s.S != "" {
		return fmt.Sprintf("%s%v%q", s.Op, s.A, s.S)
	}
	return fmt.Sprintf("%s%v", s.Op, s.A)
}

// Plan is a complete, replayable description of one simulated run.
type Plan struct {
	Property string           `json:"property"`
	Seed     uint64           `json:"seed"` // per-run seed: key material and in-run "pick" choices derive from it
	Cfg      map[string]int64 `json:"cfg,omitempty"`
	Steps    []Step           `json:"steps"`
}

func (p *Plan) C(key string, def int64) int64 {
	if v, ok := p.Cfg[key]; ok {
		return v
	}
	return def
}

func (p *Plan) Clone() *Plan {
	q := &Plan{Property: p.Property, Seed: p.Seed, Cfg: map[string]int64{}}
	for k, v := range p.Cfg {
		q.Cfg[k] = v
	}
	q.Steps = make([]Step, len(p.Steps))
	for i, s := range p.Steps {
		q.Steps[i] = Step{Op: s.Op, A: append([]int64(nil), s.A...), S: s.S}
	}
	return q
}

// Violation is a failed invariant. Key is a stable class name: it identifies "the same
// violation" during minimisation and is what known_findings.json matches on.
type Violation struct {
	Property string `json:"property"`
	Key      string `json:"key"`
	Msg      string `json:"msg"`
	Step     int    `json:"step"`
}

// Run is the context of one execution of a plan.
type Run struct {
	Plan       *Plan
	StepNo     int
	Faults     map[string]int
	Probes     map[string]int
	Violations []Violation
	SimTimeMs  int64 // simulated time covered, as accounted by the engine
	Steps      int   // executed steps/events
	states     map[[8]byte]struct{}
	trace      []byte // running sha256 chain of log lines
	tail       []string
	nontrivial bool
	sig        []byte
	Sample     interface{} // optional human-readable rendering of the case for evidence
	Verbose    bool
}

func NewRun(p *Plan) *Run {
	return &Run{Plan: p, Faults: map[string]int{}, Probes: map[string]int{}, states: map[[8]byte]struct{}{}}
}

// Logf appends an event to the trace (hash chain + tail). It must never consume randomness.
func (r *Run) Logf(format string, a ...interface{}) {
	line := fmt.Sprintf(format, a...)
	h := sha256.New()
	h.Write(r.trace)
	h.Write([]byte(line))
	r.trace = h.Sum(nil)
	if r.Verbose {
		fmt.Printf("  [%d] %s\n", r.StepNo, line)
	}
	r.tail = append(r.tail, fmt.Sprintf("[%d] %s", r.StepNo, line))
	if len(r.tail) > 60 {
		r.tail = r.tail[len(r.tail)-60:]
	}
}

func (r *Run) TraceHash() string { return hex.EncodeToString(r.trace) }
func (r *Run) Tail() []string    { return r.tail }

func (r *Run) Fault(kind string) { r.Faults[kind]++ }
func (r *Run) Probe(name string) { r.Probes[name]++ }

// State records an observable-state digest (distinct-state reach measure).
func (r *Run) State(b []byte) {
	h := sha256.Sum256(b)
	var k [8]byte
	copy(k[:], h[:8])
	r.states[k] = struct{}{}
}

func (r *Run) StateKeys() [][8]byte {
	out := make([][8]byte, 0, len(r.states))
	for k := range r.states {
		out = append(out, k)
	}
	sort.Slice(out, func(i, j int) bool { return string(out[i][:]) < string(out[j][:]) })
	return out
}

// Nontrivial marks the run as non-trivial by the engine's stated rule; sig is what makes two
// such runs "distinct" (normally a digest of what actually happened, not of the seed).
func (r *Run) Nontrivial(sig []byte) { r.nontrivial = true; r.sig = append(r.sig, sig...) }

func (r *Run) IsNontrivial() bool { return r.nontrivial }
func (r *Run) Sig() [8]byte {
	h := sha256.Sum256(r.sig)
	var k [8]byte
	copy(k[:], h[:8])
	return k
}

// Fail records a violation of property prop.
func (r *Run) Fail(prop, key, format string, a ...interface{}) {
	msg := fmt.Sprintf(format, a...)
	r.Logf("VIOLATION %s %s: %s", prop, key, msg)
	r.Violations = append(r.Violations, Violation{Property: prop, Key: key, Msg: msg, Step: r.StepNo})
	if ReplayTarget != nil && ReplayTarget.Property == prop && ReplayTarget.Key == key {
		// replay mode: the recorded violation shows again. Report at once: what the damaged code
		// does afterwards (a later fatal error, a hang) must not hide it.
		fmt.Printf("REPLAY reproduced property=%s key=%s step=%d (reported at the moment of the violation)\n  %s\n", prop, key, r.StepNo, msg)
		os.Stdout.Sync()
		os.Exit(1)
	}
}

// ReplayTarget is set by RunReplay for checks whose replays are reported at the moment the
// recorded violation shows again.
var ReplayTarget *Violation

func (r *Run) Failed() bool { return len(r.Violations) > 0 }

// FirstFor returns the first violation of the given property (or nil).
func (r *Run) FirstFor(prop string) *Violation {
	for i := range r.Violations {
		if r.Violations[i].Property == prop {
			return &r.Violations[i]
		}
	}
	return nil
}
