package kernel

import (
	"fmt"
	"strings"
	"testing"
	"testing/synctest"
	"time"
)

// InBubble runs f inside a testing/synctest bubble: time.Now() inside f (and inside every
// goroutine started from it, including poly's and goleveldb's) reads a fake clock that starts
// at 2000-01-01 00:00:00 UTC and only moves when every goroutine of the bubble is durably
// blocked (time.Sleep jumps it). Create everything (ledgers, files, goroutines) inside f and
// close it before returning. A panic raised by f is re-raised to the caller.
func InBubble(f func()) {
	if T == nil {
		panic("kernel.T not set")
	}
	var inner interface{}
	func() {
		defer func() {
			// goleveldb keeps helper goroutines parked after Close; the bubble then ends with
			// a "deadlock: main bubble goroutine has exited but blocked goroutines remain" panic.
			if e := recover(); e != nil {
				if s := fmt.Sprint(e); !strings.Contains(s, "deadlock") {
					inner = e
				}
			}
		}()
		T.Run("bubble", func(t *testing.T) {
			synctest.Test(t, func(t *testing.T) {
				// let parked helper goroutines that wake on timers finish, also when f panicked
				// (otherwise synctest's own "deadlock" panic would replace f's panic)
				defer time.Sleep(40 * time.Second)
				defer func() {
					if e := recover(); e != nil {
						inner = e
					}
				}()
				f()
			})
		})
	}()
	if inner != nil {
		panic(inner)
	}
}

// Advance moves the bubble's fake clock forward by d (call only inside InBubble).
func Advance(d time.Duration) { time.Sleep(d) }
