package kernel

import (
	"crypto/sha256"
	"fmt"
	"os"
	"path/filepath"
	"sync/atomic"
)

func sha(b []byte) []byte { h := sha256.Sum256(b); return h[:] }

var workRoot string
var dirCtr uint64

// WorkRoot returns a per-process scratch root on tmpfs (fallback: <verif>/.work), created lazily
// and removed by Cleanup.
func WorkRoot() string {
	if workRoot != "" {
		return workRoot
	}
	base := "/dev/shm"
	if st, err := os.Stat(base); err != nil || !st.IsDir() {
		base = os.TempDir()
	}
	workRoot = filepath.Join(base, fmt.Sprintf("polysim-%d", os.Getpid()))
	os.MkdirAll(workRoot, 0o755)
	return workRoot
}

// TempDir returns a fresh directory under the work root.
func TempDir(label string) string {
	n := atomic.AddUint64(&dirCtr, 1)
	d := filepath.Join(WorkRoot(), fmt.Sprintf("%s-%d", label, n))
	os.MkdirAll(d, 0o755)
	return d
}

func Cleanup() {
	if workRoot != "" {
		os.RemoveAll(workRoot)
	}
}
