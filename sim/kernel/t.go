package kernel

import "testing"

// T is the *testing.T of the hosting test (needed for testing/synctest bubbles).
var T *testing.T
