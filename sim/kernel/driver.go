package kernel

import (
	"bufio"
	"bytes"
	"encoding/json"
	"fmt"
	"os"
	"os/exec"
	"path/filepath"
	"runtime"
	"sort"
	"strconv"
	"strings"
	"sync"
	"time"
)

// Check is one registered property check.
type Check struct {
	ID          string
	Level       string // exploration | fault_enumeration
	Engine      string
	Rule        string // how cases are generated and what makes one non-trivial/distinct
	Real        []string
	Stub        []string
	Assumptions []string
	// Runs per tier (quick, thorough).
	QuickRuns, ThoroughRuns int
	// Wall-clock caps for the run phase (seconds). Reaching the cap stops generating new runs.
	QuickCap, ThoroughCap int
	Generate              func(rng *RNG, idx int, tier string) *Plan
	Execute               func(run *Run)
	// Probes that must have fired at least once over the batch, otherwise the batch is
	// inconclusive (exit 2): the workload did not reach what the check is about.
	RequiredProbes []string
	Exhaustive     bool // the engine enumerates a finite fault space completely per history
	NoMinimise     bool
	MaxWorkers     int
	// ReplayAttempts > 1: the violation class of this check includes dependence on a source
	// of nondeterminism no seed controls (Go's per-iteration random map order is the very
	// thing C16/C04 look for). A replay file is then executed up to this many times and
	// counts as reproduced when any execution shows the recorded violation key.
	ReplayAttempts int
}

var registry = map[string]*Check{}

func Register(c *Check) {
	if _, dup := registry[c.ID]; dup {
		panic("duplicate check " + c.ID)
	}
	registry[c.ID] = c
}

func Lookup(id string) *Check { return registry[id] }

func IDs() []string {
	var ids []string
	for k := range registry {
		ids = append(ids, k)
	}
	sort.Strings(ids)
	return ids
}

// Options of one invocation.
type Options struct {
	Prop      string
	Tier      string
	Seed      uint64
	Workers   int
	Worker    bool
	From, To  int
	Replay    string
	Verbose   bool
	VerifDir  string
	Runs      int // override
	Selftest  bool
	DeadlineS int
}

type workerResult struct {
	Runs         int              `json:"runs"`
	Evals        int              `json:"evals"`
	Steps        int              `json:"steps"`
	SimTimeMs    int64            `json:"sim_ms"`
	Faults       map[string]int   `json:"faults"`
	Probes       map[string]int   `json:"probes"`
	Sigs         []string         `json:"sigs"`
	States       []string         `json:"states"`
	Samples      []interface{}    `json:"samples"`
	Violations   []foundViolation `json:"violations"`
	OtherProps   map[string]int   `json:"other_props"`
	TraceDigest  string           `json:"trace_digest"` // digest over all runs' trace hashes (determinism self-test)
	StoppedEarly bool             `json:"stopped_early"`
}

type foundViolation struct {
	V          Violation `json:"v"`
	ReplayPath string    `json:"replay"`
	OrigSteps  int       `json:"orig_steps"`
	MinSteps   int       `json:"min_steps"`
	RunIndex   int       `json:"run_index"`   // index of the failing run in the batch
	WorkerFrom int       `json:"worker_from"` // first run index executed by the same worker process
}

// ReplayFile is what a violation is reported as.
type ReplayFile struct {
	Property  string    `json:"property"`
	Violation Violation `json:"violation"`
	Plan      *Plan     `json:"plan"`
	TraceHash string    `json:"trace_hash"`
	LogTail   []string  `json:"log_tail"`
	OrigSteps int       `json:"orig_steps"`
	Note      string    `json:"note"`
	// Prelude: plans executed first, in the same process. Present only when the violation
	// depends on process-global state that earlier runs of the same worker process left
	// behind (a hidden cache, a package-level variable): the plan alone does not show it.
	Prelude []*Plan `json:"prelude,omitempty"`
}

// executeSafe runs the engine and turns an engine/harness panic into a marker violation of
// pseudo-property "HARNESS" (never reported as a property violation).
func executeSafe(c *Check, plan *Plan, verbose bool) (run *Run) {
	run = NewRun(plan)
	run.Verbose = verbose
	defer func() {
		if e := recover(); e != nil {
			buf := make([]byte, 16<<10)
			n := runtime.Stack(buf, false)
			run.Fail("HARNESS", "panic", "%v\n%s", e, buf[:n])
		}
	}()
	c.Execute(run)
	return run
}

// Minimise: ddmin over steps, then argument shrinking, while the same (property,key) fails.
func minimise(c *Check, plan *Plan, v Violation, budget int) *Plan {
	deadline := time.Now().Add(25 * time.Second) // expensive engines: bound minimisation by wall time too
	same := func(p *Plan) bool {
		if budget <= 0 || time.Now().After(deadline) {
			budget = 0
			return false
		}
		budget--
		r := executeSafe(c, p, false)
		for _, x := range r.Violations {
			if x.Property == v.Property && x.Key == v.Key {
				return true
			}
		}
		return false
	}
	cur := plan.Clone()
	// truncate after the failing step first
	if v.Step+1 < len(cur.Steps) && v.Step >= 0 {
		t := cur.Clone()
		t.Steps = t.Steps[:v.Step+1]
		if same(t) {
			cur = t
		}
	}
	n := 2
	for len(cur.Steps) >= 2 && budget > 0 {
		chunk := (len(cur.Steps) + n - 1) / n
		reduced := false
		for start := 0; start < len(cur.Steps); start += chunk {
			end := start + chunk
			if end > len(cur.Steps) {
				end = len(cur.Steps)
			}
			t := cur.Clone()
			t.Steps = append(append([]Step{}, cur.Steps[:start]...), cur.Steps[end:]...)
			if len(t.Steps) == 0 {
				continue
			}
			if same(t) {
				cur = t
				if n > 2 {
					n--
				}
				reduced = true
				break
			}
		}
		if !reduced {
			if chunk == 1 {
				break
			}
			n *= 2
			if n > len(cur.Steps) {
				n = len(cur.Steps)
			}
		}
	}
	// shrink integer arguments toward zero
	for i := range cur.Steps {
		for j := range cur.Steps[i].A {
			for _, cand := range []int64{0, cur.Steps[i].A[j] / 2} {
				if budget <= 0 || cur.Steps[i].A[j] == cand {
					continue
				}
				t := cur.Clone()
				t.Steps[i].A[j] = cand
				if same(t) {
					cur = t
					break
				}
			}
		}
	}
	return cur
}

func replayDir(o *Options) string { return filepath.Join(o.VerifDir, "replays") }

func writeReplay(o *Options, c *Check, plan *Plan, v Violation, orig int) (string, error) {
	r := executeSafe(c, plan, false)
	rf := &ReplayFile{Property: v.Property, Violation: v, Plan: plan, TraceHash: r.TraceHash(), LogTail: r.Tail(), OrigSteps: orig,
		Note: "replay: ./check " + c.ID + " replay <this file>"}
	for _, x := range r.Violations {
		if x.Property == v.Property && x.Key == v.Key {
			rf.Violation = x
			break
		}
	}
	os.MkdirAll(replayDir(o), 0o755)
	name := fmt.Sprintf("%s-%d-%s.json", c.ID, plan.Seed, sanitize(v.Key))
	path := filepath.Join(replayDir(o), name)
	b, _ := json.MarshalIndent(rf, "", " ")
	return path, os.WriteFile(path, b, 0o644)
}

// writeReplayRaw writes the replay file of an unminimised plan from the run that showed the
// violation, without executing anything again.
func writeReplayRaw(o *Options, c *Check, plan *Plan, v Violation, r *Run) (string, error) {
	rf := &ReplayFile{Property: v.Property, Violation: v, Plan: plan, TraceHash: r.TraceHash(), LogTail: r.Tail(), OrigSteps: len(plan.Steps),
		Note: "replay: ./check " + c.ID + " replay <this file> (not minimised: the worker process did not survive minimisation)"}
	os.MkdirAll(replayDir(o), 0o755)
	path := filepath.Join(replayDir(o), fmt.Sprintf("%s-%d-%s-unminimised.json", c.ID, plan.Seed, sanitize(v.Key)))
	b, _ := json.MarshalIndent(rf, "", " ")
	return path, os.WriteFile(path, b, 0o644)
}

func sanitize(s string) string {
	var b strings.Builder
	for _, r := range s {
		if (r >= 'a' && r <= 'z') || (r >= 'A' && r <= 'Z') || (r >= '0' && r <= '9') || r == '-' || r == '_' {
			b.WriteRune(r)
		} else {
			b.WriteByte('_')
		}
		if b.Len() > 60 {
			break
		}
	}
	return b.String()
}

// RunWorker executes runs [From,To) and prints one JSON result on stdout.
func RunWorker(o *Options) int {
	c := Lookup(o.Prop)
	if c == nil {
		fmt.Fprintln(os.Stderr, "unknown check", o.Prop)
		return 2
	}
	res := &workerResult{Faults: map[string]int{}, Probes: map[string]int{}, OtherProps: map[string]int{}}
	sigs := map[[8]byte]struct{}{}
	states := map[[8]byte]struct{}{}
	seenKeys := map[string]bool{}
	knownKeys := map[string]bool{} // listed findings are re-observed, not re-minimised
	for _, k := range loadKnown(o) {
		if k.Status == "known" && k.Property == c.ID {
			knownKeys[k.Key] = true
		}
	}
	deadline := time.Now().Add(time.Duration(o.DeadlineS) * time.Second)
	var td bytes.Buffer
	for i := o.From; i < o.To; i++ {
		if o.DeadlineS > 0 && time.Now().After(deadline) {
			res.StoppedEarly = true
			break
		}
		seed := Derive(o.Seed, "run:"+c.ID, uint64(i))
		plan := c.Generate(NewRNG(seed), i, o.Tier)
		plan.Property = c.ID
		if plan.Seed == 0 {
			plan.Seed = seed
		}
		fmt.Printf("POLYSIM-RUN %d\n", i) // progress marker for the parent's watchdog
		run := executeSafe(c, plan, o.Verbose)
		res.Runs++
		evals := run.Probes["__evals"]
		if evals == 0 {
			evals = 1
		}
		res.Evals += evals
		res.Steps += run.Steps
		res.SimTimeMs += run.SimTimeMs
		for k, v := range run.Faults {
			res.Faults[k] += v
		}
		for k, v := range run.Probes {
			if k != "__evals" {
				res.Probes[k] += v
			}
		}
		if run.IsNontrivial() {
			sigs[run.Sig()] = struct{}{}
		}
		for _, k := range run.StateKeys() {
			if len(states) < 200000 {
				states[k] = struct{}{}
			}
		}
		if run.Sample != nil && len(res.Samples) < 3 {
			res.Samples = append(res.Samples, run.Sample)
		}
		fmt.Fprintf(&td, "%d:%s\n", i, run.TraceHash())
		for _, v := range run.Violations {
			if v.Property == "HARNESS" {
				fmt.Fprintf(os.Stderr, "HARNESS PANIC run=%d seed=%d: %s\n", i, plan.Seed, v.Msg)
				return 2
			}
			if v.Property != c.ID {
				res.OtherProps[v.Property+":"+v.Key]++
				continue
			}
			if seenKeys[v.Key] {
				continue
			}
			seenKeys[v.Key] = true
			// Record the find before minimising: minimisation re-executes damaged code many times
			// and the process may not survive it (fatal out-of-memory, stack overflow). The parent
			// falls back to these lines when the worker dies.
			if c.NoMinimise || knownKeys[v.Key] {
				// nothing is re-executed for these: no early record needed
			} else if p0, err := writeReplayRaw(o, c, plan, v, run); err == nil {
				fb, _ := json.Marshal(foundViolation{V: v, ReplayPath: p0, OrigSteps: len(plan.Steps), MinSteps: len(plan.Steps), RunIndex: i, WorkerFrom: o.From})
				fmt.Printf("POLYSIM-FOUND %s\n", fb)
			}
			min := plan
			if !c.NoMinimise && !knownKeys[v.Key] {
				min = minimise(c, plan, v, 150)
			}
			path, err := writeReplay(o, c, min, v, len(plan.Steps))
			if err != nil {
				fmt.Fprintln(os.Stderr, "cannot write replay:", err)
				return 2
			}
			res.Violations = append(res.Violations, foundViolation{V: v, ReplayPath: path, OrigSteps: len(plan.Steps), MinSteps: len(min.Steps), RunIndex: i, WorkerFrom: o.From})
		}
	}
	for k := range sigs {
		res.Sigs = append(res.Sigs, fmt.Sprintf("%x", k[:]))
	}
	for k := range states {
		res.States = append(res.States, fmt.Sprintf("%x", k[:]))
	}
	sort.Strings(res.Sigs)
	sort.Strings(res.States)
	res.TraceDigest = fmt.Sprintf("%x", sha(td.Bytes()))
	b, _ := json.Marshal(res)
	fmt.Printf("POLYSIM-RESULT %s\n", b)
	return 0
}

// RunReplay executes a replay file; exit 1 if the recorded violation reproduces, 0 if it
// does not (e.g. after a fix), 2 on trouble.
func RunReplay(o *Options) int {
	b, err := os.ReadFile(o.Replay)
	if err != nil {
		fmt.Fprintln(os.Stderr, err)
		return 2
	}
	var rf ReplayFile
	if err := json.Unmarshal(b, &rf); err != nil {
		fmt.Fprintln(os.Stderr, err)
		return 2
	}
	id := o.Prop
	if id == "" {
		id = rf.Plan.Property
	}
	c := Lookup(id)
	if c == nil {
		fmt.Fprintln(os.Stderr, "unknown check", id)
		return 2
	}
	attempts := c.ReplayAttempts
	if attempts < 1 {
		attempts = 1
	}
	ReplayTarget = &rf.Violation
	if len(rf.Prelude) > 0 || c.ReplayAttempts > 1 {
		ReplayTarget = nil // these replays need several executions in one process
	}
	if rf.Violation.Key == "run-does-not-terminate" {
		done := make(chan struct{})
		go func() {
			executeSafe(c, rf.Plan, o.Verbose)
			close(done)
		}()
		select {
		case <-done:
			fmt.Printf("REPLAY did not reproduce property=%s key=%s (the run terminated)\n", rf.Violation.Property, rf.Violation.Key)
			return 0
		case <-time.After(60 * time.Second):
			fmt.Printf("REPLAY reproduced property=%s key=%s: the run is still going after 60 s\n", rf.Violation.Property, rf.Violation.Key)
			os.Stdout.Sync()
			os.Exit(1) // the stuck goroutine cannot be stopped
		}
	}
	for _, pp := range rf.Prelude {
		executeSafe(c, pp, false)
	}
	var run *Run
	for a := 0; a < attempts; a++ {
		run = executeSafe(c, rf.Plan, o.Verbose)
		for _, v := range run.Violations {
			if v.Property == rf.Violation.Property && v.Key == rf.Violation.Key {
				same := "same"
				if run.TraceHash() != rf.TraceHash {
					same = "DIFFERENT"
				}
				fmt.Printf("REPLAY reproduced property=%s key=%s step=%d trace=%s (%s as recorded, attempt %d)\n  %s\n", v.Property, v.Key, v.Step, run.TraceHash()[:16], same, a+1, v.Msg)
				return 1
			}
		}
	}
	fmt.Printf("REPLAY did not reproduce property=%s key=%s (violations now: %d)\n", rf.Violation.Property, rf.Violation.Key, len(run.Violations))
	return 0
}

type knownFinding struct {
	Property string `json:"property"`
	Key      string `json:"key"`
	Status   string `json:"status"` // known | fixed
	What     string `json:"what"`
	Commit   string `json:"commit,omitempty"`
}

func loadKnown(o *Options) []knownFinding {
	b, err := os.ReadFile(filepath.Join(o.VerifDir, "known_findings.json"))
	if err != nil {
		return nil
	}
	var f struct {
		Findings []knownFinding `json:"findings"`
	}
	if json.Unmarshal(b, &f) != nil {
		return nil
	}
	return f.Findings
}

// RunParent fans the batch out over worker processes, merges, verifies replays, writes
// evidence and prints the interface lines. Returns the exit code.
func RunParent(o *Options) int {
	start := time.Now()
	c := Lookup(o.Prop)
	if c == nil {
		fmt.Fprintln(os.Stderr, "unknown check", o.Prop)
		return 2
	}
	runs, capS := c.QuickRuns, c.QuickCap
	if o.Tier == "thorough" {
		runs, capS = c.ThoroughRuns, c.ThoroughCap
	}
	if o.Runs > 0 {
		runs = o.Runs
	}
	if capS == 0 {
		capS = 120
	}
	if v, err := strconv.Atoi(os.Getenv("POLYSIM_CAP")); err == nil && v > 0 { // development: force an early wall cap
		capS = v
	}
	w := o.Workers
	if w <= 0 {
		w = runtime.NumCPU()
	}
	if c.MaxWorkers > 0 && w > c.MaxWorkers {
		w = c.MaxWorkers
	}
	if w > runs {
		w = runs
	}
	if w < 1 {
		w = 1
	}
	fmt.Printf("polysim: property=%s tier=%s VERIF_SEED=%d runs=%d workers=%d cap=%ds\n", c.ID, o.Tier, o.Seed, runs, w, capS)
	self, _ := os.Executable()
	type job struct {
		cmd *exec.Cmd
		out *bytes.Buffer
		err *bytes.Buffer
	}
	total := &workerResult{Faults: map[string]int{}, Probes: map[string]int{}, OtherProps: map[string]int{}}
	sigs, states := map[string]struct{}{}, map[string]struct{}{}
	trouble := false
	var digests []string
	// phase runs the given index ranges in worker processes and merges their results; it
	// returns the ranges the workers did not get to before the wall cap.
	var crashed [][2]int
	var foundBeforeCrash []foundViolation
	var hung []int
	hungWorkers := 0
	phase := func(ranges [][2]int) (rest [][2]int, startErr bool) {
		phaseStart := time.Now()
		var jobs []job
		for _, rg := range ranges {
			args := []string{"-test.run=^TestSim$", "-test.timeout=0", "-prop", c.ID, "-tier", o.Tier, "-seed", strconv.FormatUint(o.Seed, 10),
				"-worker", "-from", strconv.Itoa(rg[0]), "-to", strconv.Itoa(rg[1]), "-deadline", strconv.Itoa(capS), "-verifdir", o.VerifDir}
			cmd := exec.Command(self, args...)
			var ob, eb bytes.Buffer
			cmd.Stdout, cmd.Stderr = &ob, &eb
			cmd.Env = append(os.Environ(), "POLYSIM_CHILD=1")
			if err := cmd.Start(); err != nil {
				fmt.Fprintln(os.Stderr, "cannot start worker:", err)
				return nil, true
			}
			jobs = append(jobs, job{cmd, &ob, &eb})
		}
		// watchdog: a worker that is still running long after the wall cap is stuck inside one run
		// (the code under test or the engine loops); it is killed and the run it was in is recorded
		limit := time.Duration(capS)*3*time.Second + 3*time.Minute
		for ji, j := range jobs {
			done := make(chan error, 1)
			go func(c *exec.Cmd) { done <- c.Wait() }(j.cmd)
			var err error
			select {
			case err = <-done:
			case <-time.After(time.Until(phaseStart.Add(limit))):
				j.cmd.Process.Kill()
				err = <-done
				last := -1
				for _, ln := range strings.Split(j.out.String(), "\n") {
					if strings.HasPrefix(ln, "POLYSIM-RUN ") {
						if v, e := strconv.Atoi(strings.TrimPrefix(ln, "POLYSIM-RUN ")); e == nil {
							last = v
						}
					}
				}
				fmt.Printf("polysim: worker for runs %d..%d still running %v after its start (wall cap %ds); killed while in run %d\n", ranges[ji][0], ranges[ji][1], limit, capS, last)
				if last >= 0 {
					hung = append(hung, last)
				}
				hungWorkers++
				continue
			}
			var r *workerResult
			sc := bufio.NewScanner(bytes.NewReader(j.out.Bytes()))
			sc.Buffer(make([]byte, 1<<20), 1<<28)
			for sc.Scan() {
				line := sc.Text()
				if strings.HasPrefix(line, "POLYSIM-RESULT ") {
					r = &workerResult{}
					if e := json.Unmarshal([]byte(line[len("POLYSIM-RESULT "):]), r); e != nil {
						r = nil
					}
				}
			}
			if err != nil || r == nil {
				// violations the worker had found before it died
				sc2 := bufio.NewScanner(bytes.NewReader(j.out.Bytes()))
				sc2.Buffer(make([]byte, 1<<20), 1<<28)
				for sc2.Scan() {
					if ln := sc2.Text(); strings.HasPrefix(ln, "POLYSIM-FOUND ") {
						var fv foundViolation
						if json.Unmarshal([]byte(ln[len("POLYSIM-FOUND "):]), &fv) == nil {
							foundBeforeCrash = append(foundBeforeCrash, fv)
						}
					}
				}
				// keep the whole stderr of a crashed worker for diagnosis
				os.MkdirAll(filepath.Join(o.VerifDir, ".work"), 0o755)
				logf := filepath.Join(o.VerifDir, ".work", fmt.Sprintf("worker-crash-%s-%d-%d.log", c.ID, ranges[ji][0], time.Now().UnixNano()))
				os.WriteFile(logf, append([]byte(fmt.Sprintf("range %v err %v\n", ranges[ji], err)), j.err.Bytes()...), 0o644)
				tail := j.err.String()
				if len(tail) > 4000 {
					tail = tail[len(tail)-4000:]
				}
				fmt.Fprintf(os.Stderr, "worker failed (full stderr in %s): %v\n%s\n", logf, err, tail)
				crashed = append(crashed, ranges[ji])
				continue
			}
			total.Runs += r.Runs
			total.Evals += r.Evals
			total.Steps += r.Steps
			total.SimTimeMs += r.SimTimeMs
			for k, v := range r.Faults {
				total.Faults[k] += v
			}
			for k, v := range r.Probes {
				total.Probes[k] += v
			}
			for k, v := range r.OtherProps {
				total.OtherProps[k] += v
			}
			for _, s := range r.Sigs {
				sigs[s] = struct{}{}
			}
			for _, s := range r.States {
				states[s] = struct{}{}
			}
			if len(total.Samples) < 3 {
				total.Samples = append(total.Samples, r.Samples...)
			}
			total.Violations = append(total.Violations, r.Violations...)
			total.StoppedEarly = total.StoppedEarly || r.StoppedEarly
			digests = append(digests, r.TraceDigest)
			if done := ranges[ji][0] + r.Runs; r.StoppedEarly && done < ranges[ji][1] {
				rest = append(rest, [2]int{done, ranges[ji][1]})
			}
		}
		return rest, false
	}
	// contiguous blocks of run indices per worker
	var ranges [][2]int
	per := (runs + w - 1) / w
	for i := 0; i < w; i++ {
		from, to := i*per, (i+1)*per
		if to > runs {
			to = runs
		}
		if from < to {
			ranges = append(ranges, [2]int{from, to})
		}
	}
	rest, bad := phase(ranges)
	if bad {
		return 2
	}
	// A worker process that died (not a property verdict) is re-run once, alone: runs are
	// deterministic, so a crash caused by the engine or the code under test repeats and is
	// reported as trouble; one caused by the environment (memory pressure, a killed process)
	// does not. Retries are recorded in the evidence.
	workerRetries := 0
	if len(crashed) > 0 {
		again := crashed
		crashed = nil
		for _, rg := range again {
			workerRetries++
			fmt.Printf("polysim: worker for runs %d..%d died; re-running that range once\n", rg[0], rg[1])
			r2, bad := phase([][2]int{rg})
			if bad {
				return 2
			}
			rest = append(rest, r2...)
		}
		if len(crashed) > 0 {
			if len(foundBeforeCrash) > 0 {
				// the worker dies deterministically, but only after it had found a violation: report that
				fmt.Printf("polysim: a worker died again after finding %d violation(s); reporting those (not minimised)\n", len(foundBeforeCrash))
				total.Violations = append(total.Violations, foundBeforeCrash...)
				crashed = nil
			} else {
				trouble = true
			}
		}
	}
	missing := func() string {
		m := ""
		for _, p := range c.RequiredProbes {
			if total.Probes[p] == 0 && total.Faults[p] == 0 {
				m += " " + p
			}
		}
		return m
	}
	// A slow or loaded machine reaches the wall cap early; that must not turn into an
	// inconclusive batch: while a required probe is still at zero and nothing was found, the
	// runs the workers did not get to are executed in (at most two) further phases.
	extended := 0
	for extended < 2 && !trouble && len(rest) > 0 && len(total.Violations) == 0 && missing() != "" {
		extended++
		fmt.Printf("polysim: wall cap reached with required probes at zero (%s): running the remaining %d index ranges (extension %d)\n", strings.TrimSpace(missing()), len(rest), extended)
		rest, bad = phase(rest)
		if bad {
			return 2
		}
	}
	if len(crashed) > 0 {
		trouble = true
	}
	// Runs that never terminated. On the unchanged tree every run terminates; a run that
	// deterministically hangs (its plan alone hangs again in a fresh process) shows that the
	// code under test (or the engine driving it) no longer returns: reported as a violation with
	// the plan as replay file. A hang that does not repeat is watchdog trouble (exit 2).
	var hungViolations []foundViolation
	if hungWorkers > 0 {
		sort.Ints(hung)
		seen := map[int]bool{}
		for _, idx := range hung {
			if seen[idx] || len(hungViolations) >= 2 {
				continue
			}
			seen[idx] = true
			seed := Derive(o.Seed, "run:"+c.ID, uint64(idx))
			pl := c.Generate(NewRNG(seed), idx, o.Tier)
			pl.Property = c.ID
			if pl.Seed == 0 {
				pl.Seed = seed
			}
			v := Violation{Property: c.ID, Key: "run-does-not-terminate", Step: -1, Msg: fmt.Sprintf("run %d of the batch did not terminate (worker killed by the watchdog); replaying this plan hangs again", idx)}
			rf := &ReplayFile{Property: c.ID, Violation: v, Plan: pl, OrigSteps: len(pl.Steps), Note: "replay: ./check " + c.ID + " replay <this file> (reports 'reproduced' when the run is still going after 60 s)"}
			os.MkdirAll(replayDir(o), 0o755)
			path := filepath.Join(replayDir(o), fmt.Sprintf("%s-%d-run-does-not-terminate.json", c.ID, pl.Seed))
			b, _ := json.MarshalIndent(rf, "", " ")
			if os.WriteFile(path, b, 0o644) != nil {
				continue
			}
			hungViolations = append(hungViolations, foundViolation{V: v, ReplayPath: path, OrigSteps: len(pl.Steps), MinSteps: len(pl.Steps), RunIndex: idx})
		}
		if len(hungViolations) == 0 {
			trouble = true
		}
		total.Violations = append(total.Violations, hungViolations...)
	}
	if trouble {
		fmt.Println("polysim: worker trouble (harness/build problem, not a property verdict)")
		return 2
	}
	known := loadKnown(o)
	exit := 0
	nviol := 0
	reportedKeys := map[string]bool{}
	var knownLines []string
	for _, fv := range total.Violations {
		if reportedKeys[fv.V.Key] {
			continue
		}
		reportedKeys[fv.V.Key] = true
		isKnown := false
		for _, k := range known {
			if k.Property == fv.V.Property && k.Status == "known" && k.Key == fv.V.Key {
				knownLines = append(knownLines, fmt.Sprintf("KNOWN-FINDING: property=%s %s [key=%s replay=%s]", k.Property, k.What, k.Key, fv.ReplayPath))
				isKnown = true
			}
		}
		if isKnown {
			continue
		}
		// verify the replay in a fresh process
		cmd := exec.Command(self, "-test.run=^TestSim$", "-test.timeout=0", "-prop", c.ID, "-replay", fv.ReplayPath, "-verifdir", o.VerifDir)
		cmd.Env = append(os.Environ(), "POLYSIM_CHILD=1")
		out, _ := cmd.CombinedOutput()
		code := cmd.ProcessState.ExitCode()
		if code == 0 {
			// The plan alone does not show it in a fresh process: the violation may depend on
			// process-global state left by the runs the worker executed before it. Rebuild
			// those runs (generation is deterministic) as a prelude, shortest suffix first.
			if p2, n := preludeReplay(o, c, self, fv); p2 != "" {
				fv.ReplayPath = p2
				code = 1
				fmt.Printf("  note: key=%s depends on process state left by earlier runs of the same process; the replay file executes %d earlier run(s) first\n", fv.V.Key, n)
			}
		}
		if code != 1 {
			fmt.Printf("polysim: violation %s/%s did not replay in a fresh process (exit %d) -> harness trouble\n%s\n", fv.V.Property, fv.V.Key, code, out)
			return 2
		}
		nviol++
		exit = 1
		fmt.Printf("  violation key=%s step=%d (plan %d -> %d steps): %s\n", fv.V.Key, fv.V.Step, fv.OrigSteps, fv.MinSteps, firstLine(fv.V.Msg))
		fmt.Printf("VIOLATION property=%s replay=%s\n", fv.V.Property, fv.ReplayPath)
	}
	sort.Strings(knownLines)
	for _, l := range knownLines {
		fmt.Println(l)
	}
	// required probes
	inconclusive := missing()
	wall := time.Since(start).Seconds()
	ev := map[string]interface{}{
		"property_id": c.ID, "tier": o.Tier, "seed": int64(o.Seed & 0x7fffffffffffffff), "level": c.Level,
		"wall_s": wall, "violations": nviol,
		"assumptions": c.Assumptions,
	}
	samples := total.Samples
	if len(samples) == 0 {
		samples = []interface{}{"(engine recorded no sample)"}
	}
	runsPerHour := 0.0
	if wall > 0 {
		runsPerHour = float64(total.Runs) / wall * 3600
	}
	cov := map[string]interface{}{
		"evaluations": total.Evals, "distinct_nontrivial": len(sigs), "rule": c.Rule, "samples": samples,
		"runs": total.Runs, "runs_planned": runs, "runs_per_hour": int64(runsPerHour), "workers": w,
		"steps": total.Steps, "simulated_time_s": float64(total.SimTimeMs) / 1000,
		"faults_fired": total.Faults, "probes": total.Probes, "distinct_states": len(states),
		"components_real": c.Real, "components_stub": c.Stub, "engine": c.Engine,
		"known_findings_reobserved": len(knownLines), "stopped_at_wall_cap": total.StoppedEarly, "extension_phases_after_wall_cap": extended, "worker_processes_rerun_after_crash": workerRetries,
		"violations_of_other_properties_seen": total.OtherProps,
		"exhaustive":                          c.Exhaustive,
	}
	if inconclusive != "" {
		cov["inconclusive_zero_probes"] = strings.TrimSpace(inconclusive)
	}
	ev["coverage"] = cov
	os.MkdirAll(filepath.Join(o.VerifDir, "evidence"), 0o755)
	b, _ := json.MarshalIndent(ev, "", " ")
	if err := os.WriteFile(filepath.Join(o.VerifDir, "evidence", c.ID+".json"), b, 0o644); err != nil {
		fmt.Fprintln(os.Stderr, "cannot write evidence:", err)
		return 2
	}
	fmt.Printf("polysim: %s runs=%d evals=%d distinct_nontrivial=%d states=%d faults=%v wall=%.1fs\n", c.ID, total.Runs, total.Evals, len(sigs), len(states), total.Faults, wall)
	if exit == 0 && inconclusive != "" {
		fmt.Printf("polysim: INCONCLUSIVE, required probes never fired:%s\n", inconclusive)
		return 2
	}
	if exit == 0 {
		fmt.Printf("polysim: property %s held on everything explored\n", c.ID)
	}
	return exit
}

// RunSelftest: determinism obligation — the same batch in several processes at different
// GOMAXPROCS must yield identical trace digests.
func RunSelftest(o *Options) int {
	c := Lookup(o.Prop)
	if c == nil {
		return 2
	}
	runs := o.Runs
	if runs <= 0 {
		runs = 32
	}
	self, _ := os.Executable()
	// POLYSIM_SELFTEST_REPS=<n>: number of same-seed processes (default 6), cycling GOMAXPROCS 1/4/16;
	// up to 8 of them run concurrently (which also varies the load each of them sees).
	reps := 6
	if v, err := strconv.Atoi(os.Getenv("POLYSIM_SELFTEST_REPS")); err == nil && v > 0 {
		reps = v
	}
	type res struct {
		rep    int
		procs  string
		digest string
		runs   int
		err    error
	}
	results := make([]res, reps)
	sem := make(chan struct{}, 8)
	var wg sync.WaitGroup
	for rep := 0; rep < reps; rep++ {
		procs := []string{"1", "4", "16", "1", "16", "4"}[rep%6]
		wg.Add(1)
		sem <- struct{}{}
		go func(rep int, procs string) {
			defer wg.Done()
			defer func() { <-sem }()
			cmd := exec.Command(self, "-test.run=^TestSim$", "-test.timeout=0", "-prop", c.ID, "-tier", o.Tier, "-seed", strconv.FormatUint(o.Seed, 10),
				"-worker", "-from", "0", "-to", strconv.Itoa(runs), "-verifdir", filepath.Join(os.TempDir(), "polysim-selftest"))
			cmd.Env = append(os.Environ(), "GOMAXPROCS="+procs, "POLYSIM_CHILD=1")
			out, err := cmd.Output()
			results[rep] = res{rep: rep, procs: procs, err: err}
			if err != nil {
				return
			}
			i := bytes.Index(out, []byte("POLYSIM-RESULT "))
			if i < 0 {
				results[rep].err = fmt.Errorf("no result line")
				return
			}
			var r workerResult
			line := out[i+len("POLYSIM-RESULT "):]
			if j := bytes.IndexByte(line, '\n'); j >= 0 {
				line = line[:j]
			}
			if e := json.Unmarshal(line, &r); e != nil {
				results[rep].err = e
				return
			}
			results[rep].digest, results[rep].runs = r.TraceDigest, r.Runs
		}(rep, procs)
	}
	wg.Wait()
	ref := ""
	for _, r := range results {
		if r.err != nil {
			fmt.Println("selftest worker failed:", r.err)
			return 2
		}
		fmt.Printf("selftest %s rep=%d GOMAXPROCS=%s runs=%d digest=%s\n", c.ID, r.rep, r.procs, r.runs, r.digest[:16])
		if ref == "" {
			ref = r.digest
		} else if ref != r.digest {
			fmt.Println("selftest: NONDETERMINISM detected")
			return 1
		}
	}
	os.RemoveAll(filepath.Join(os.TempDir(), "polysim-selftest"))
	fmt.Println("selftest: deterministic")
	return 0
}

func firstLine(s string) string {
	if i := strings.IndexByte(s, '\n'); i >= 0 {
		return s[:i]
	}
	return s
}

// preludeReplay builds and verifies (in fresh processes) a replay file that first executes
// earlier runs of the failing run's worker process; it returns the file's path and the number
// of earlier runs kept, or "" when no such sequence shows the violation.
func preludeReplay(o *Options, c *Check, self string, fv foundViolation) (string, int) {
	gen := func(i int) *Plan {
		seed := Derive(o.Seed, "run:"+c.ID, uint64(i))
		pl := c.Generate(NewRNG(seed), i, o.Tier)
		pl.Property = c.ID
		if pl.Seed == 0 {
			pl.Seed = seed
		}
		return pl
	}
	main := gen(fv.RunIndex)
	avail := fv.RunIndex - fv.WorkerFrom
	if avail <= 0 {
		return "", 0
	}
	var tries []int
	for k := 1; k < avail; k *= 2 {
		tries = append(tries, k)
	}
	tries = append(tries, avail)
	for _, k := range tries {
		rf := &ReplayFile{Property: fv.V.Property, Violation: fv.V, Plan: main, OrigSteps: len(main.Steps),
			Note: "replay: ./check " + c.ID + " replay <this file> (executes the prelude runs first, in one process)"}
		for i := fv.RunIndex - k; i < fv.RunIndex; i++ {
			rf.Prelude = append(rf.Prelude, gen(i))
		}
		os.MkdirAll(replayDir(o), 0o755)
		path := filepath.Join(replayDir(o), fmt.Sprintf("%s-%d-%s-with-prelude.json", c.ID, main.Seed, sanitize(fv.V.Key)))
		b, _ := json.MarshalIndent(rf, "", " ")
		if os.WriteFile(path, b, 0o644) != nil {
			return "", 0
		}
		cmd := exec.Command(self, "-test.run=^TestSim$", "-test.timeout=0", "-prop", c.ID, "-replay", path, "-verifdir", o.VerifDir)
		cmd.Env = append(os.Environ(), "POLYSIM_CHILD=1")
		cmd.CombinedOutput()
		if cmd.ProcessState != nil && cmd.ProcessState.ExitCode() == 1 {
			return path, k
		}
		os.Remove(path)
	}
	return "", 0
}
