// Package kernel is the deterministic-simulation kernel shared by all polysim engines:
// one PRNG per run derived from VERIF_SEED, explicit plans (lists of steps) that are
// generated first and executed afterwards, per-run traces, fault/probe counters, ddmin
// minimisation, replay files and evidence writing.
package kernel

import (
	"crypto/sha256"
	"encoding/binary"
)

// RNG is xoshiro256**; every random choice in the simulator is drawn from one of these.
type RNG struct{ s [4]uint64 }

func splitmix(x *uint64) uint64 {
	*x += 0x9e3779b97f4a7c15
	z := *x
	z = (z ^ (z >> 30)) * 0xbf58476d1ce4e5b9
	z = (z ^ (z >> 27)) * 0x94d049bb133111eb
	return z ^ (z >> 31)
}

func NewRNG(seed uint64) *RNG {
	r := &RNG{}
	x := seed
	for i := range r.s {
		r.s[i] = splitmix(&x)
	}
	return r
}

func rotl(x uint64, k uint) uint64 { return (x << k) | (x >> (64 - k)) }

func (r *RNG) Uint64() uint64 {
	res := rotl(r.s[1]*5, 7) * 9
	t := r.s[1] << 17
	r.s[2] ^= r.s[0]
	r.s[3] ^= r.s[1]
	r.s[1] ^= r.s[2]
	r.s[0] ^= r.s[3]
	r.s[2] ^= t
	r.s[3] = rotl(r.s[3], 45)
	return res
}

// Intn returns a value in [0,n). n<=0 yields 0.
func (r *RNG) Intn(n int) int {
	if n <= 1 {
		return 0
	}
	return int(r.Uint64() % uint64(n))
}

func (r *RNG) Int63() int64 { return int64(r.Uint64() >> 1) }

// Range returns a value in [lo,hi].
func (r *RNG) Range(lo, hi int) int {
	if hi <= lo {
		return lo
	}
	return lo + r.Intn(hi-lo+1)
}

func (r *RNG) Float() float64 { return float64(r.Uint64()>>11) / float64(1<<53) }

func (r *RNG) Chance(p float64) bool { return r.Float() < p }

func (r *RNG) Bytes(n int) []byte {
	b := make([]byte, n)
	for i := 0; i < n; i += 8 {
		var t [8]byte
		binary.LittleEndian.PutUint64(t[:], r.Uint64())
		copy(b[i:], t[:])
	}
	return b
}

// Perm returns a permutation of 0..n-1.
func (r *RNG) Perm(n int) []int {
	p := make([]int, n)
	for i := range p {
		p[i] = i
	}
	for i := n - 1; i > 0; i-- {
		j := r.Intn(i + 1)
		p[i], p[j] = p[j], p[i]
	}
	return p
}

// Fork derives an independent stream from a label without consuming from r's own
// sequence position in a label-dependent way (one draw).
func (r *RNG) Fork(label string) *RNG {
	h := sha256.Sum256(append(binary.LittleEndian.AppendUint64(nil, r.Uint64()), label...))
	return NewRNG(binary.LittleEndian.Uint64(h[:8]))
}

// Derive maps (base seed, label, index) to a seed; used for per-run seeds and key material.
func Derive(seed uint64, label string, idx uint64) uint64 {
	b := binary.LittleEndian.AppendUint64(nil, seed)
	b = append(b, label...)
	b = binary.LittleEndian.AppendUint64(b, idx)
	h := sha256.Sum256(b)
	return binary.LittleEndian.Uint64(h[:8])
}
