// Package engines links every engine into the polysim binary.
package engines

import (
	_ "polysim/engines/e1"
	"polysim/engines/lc"
	_ "polysim/engines/storage"
	_ "polysim/engines/wallet"
)

func init() { lc.Finalize() }
