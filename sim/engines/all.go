// Package engines links every engine into the polysim binary.
package engines

import (
	_ "polysim/engines/e1"
	"polysim/engines/lc"
)

func init() { lc.Finalize() }
