// Package engines links every engine into the polysim binary.
package engines

import (
	_ "polysim/engines/btcsel"
	_ "polysim/engines/e1"
	"polysim/engines/lc"
	_ "polysim/engines/lceth"
	_ "polysim/engines/lcont"
	_ "polysim/engines/lcposa"
	_ "polysim/engines/lctm"
	_ "polysim/engines/pool"
	_ "polysim/engines/storage"
	_ "polysim/engines/vbftround"
	_ "polysim/engines/wallet"
	_ "polysim/engines/wire"
)

func init() { lc.Finalize() }
