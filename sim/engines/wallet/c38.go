package wallet

// C38 — recent-block duplicate detection is exact.
//
// Three clauses of the property text, each with its own oracle:
//  (1) Verify(tx, start) reports a duplicate exactly for transactions contained in a tracked
//      block at height >= start;
//  (2) the tracker holds exactly the most recent contiguous blocks, at most `capacity` of them,
//      and ignores every non-contiguous block (gap, repeat, older, below the window);
//  (3) a transaction that is in the ledger fails stateful validation (real stateful validator
//      actor against ledger.DefLedger pointed at a real node), also right after a clean restart
//      and after a crash inside the block commit followed by recovery.
//
// The reference model is a deque of tx-hash sets written from that text (winModel below); it
// never looks at the implementation's fields.

import (
	"crypto/sha256"
	"encoding/binary"
	"fmt"
	"math"
	"os"
	"sync/atomic"
	"time"

	"github.com/ontio/ontology-eventbus/actor"
	"github.com/polynetwork/poly/common"
	"github.com/polynetwork/poly/core/store/ledgerstore"
	"github.com/polynetwork/poly/core/types"
	perrors "github.com/polynetwork/poly/errors"
	"github.com/polynetwork/poly/native/service/governance/node_manager"
	"github.com/polynetwork/poly/native/service/governance/relayer_manager"
	"github.com/polynetwork/poly/validator/increment"
	"github.com/polynetwork/poly/validator/stateful"
	vatypes "github.com/polynetwork/poly/validator/types"

	"polysim/chain"
	"polysim/kernel"
)

// ---------------------------------------------------------------------------------------------
// reference model: sliding window of contiguous tx sets

type winModel struct {
	cap  int
	base uint32
	sets []map[common.Uint256]bool
}

func (m *winModel) empty() bool { return len(m.sets) == 0 }
func (m *winModel) end() uint32 { return m.base + uint32(len(m.sets)) }

// add returns (accepted, evicted set or nil, relation of h to the window before the call).
func (m *winModel) add(h uint32, txs []common.Uint256) (bool, map[common.Uint256]bool, string) {
	set := map[common.Uint256]bool{}
	for _, t := range txs {
		set[t] = true
	}
	if m.empty() {
		m.base = h
		m.sets = []map[common.Uint256]bool{set}
		return true, nil, "first"
	}
	switch {
	case h == m.end():
		m.sets = append(m.sets, set)
		var ev map[common.Uint256]bool
		if len(m.sets) > m.cap {
			ev = m.sets[0]
			m.sets = m.sets[1:]
			m.base++
		}
		return true, ev, "next"
	case h > m.end():
		return false, nil, "gap"
	case h == m.end()-1:
		return false, nil, "repeat"
	case h >= m.base:
		return false, nil, "older"
	default:
		return false, nil, "below"
	}
}

// dupAtOrAbove: is tx contained in a tracked block at height >= start?
func (m *winModel) dupAtOrAbove(tx common.Uint256, start uint32) bool {
	for i, s := range m.sets {
		if m.base+uint32(i) >= start && s[tx] {
			return true
		}
	}
	return false
}

// heights at which tx is tracked (ascending).
func (m *winModel) heightsOf(tx common.Uint256) []uint32 {
	var out []uint32
	for i, s := range m.sets {
		if s[tx] {
			out = append(out, m.base+uint32(i))
		}
	}
	return out
}

func (m *winModel) clear() { m.sets = nil; m.base = 0 }

// ---------------------------------------------------------------------------------------------
// stateful validator handle (the real actor spawned by stateful.NewValidator)

type capture struct{ ch chan interface{} }

func (c *capture) SendUserMessage(pid *actor.PID, message interface{}) {
	if env, ok := message.(*actor.MessageEnvelope); ok {
		message = env.Message
	}
	select {
	case c.ch <- message:
	default:
	}
}
func (c *capture) SendSystemMessage(pid *actor.PID, message interface{}) {}
func (c *capture) Stop(pid *actor.PID)                                   {}

var svCtr uint64

type svHandle struct {
	pid    *actor.PID
	capPID *actor.PID
}

func newStateful() (*svHandle, error) {
	n := atomic.AddUint64(&svCtr, 1)
	v, err := stateful.NewValidator(fmt.Sprintf("c38-stateful-%d-%d", os.Getpid(), n))
	if err != nil {
		return nil, err
	}
	c := &capture{ch: make(chan interface{}, 4)}
	capPID, ok := actor.ProcessRegistry.Add(c, fmt.Sprintf("c38-pool-%d-%d", os.Getpid(), n))
	if !ok {
		return nil, fmt.Errorf("cannot register capture process")
	}
	v.Register(capPID) // the validator announces its PID to the "pool"
	select {
	case m := <-c.ch:
		reg, ok := m.(*vatypes.RegisterValidator)
		if !ok || reg.Sender == nil {
			return nil, fmt.Errorf("unexpected registration message %T", m)
		}
		if reg.Type != vatypes.Stateful {
			return nil, fmt.Errorf("validator registered with type %v", reg.Type)
		}
		return &svHandle{pid: reg.Sender, capPID: capPID}, nil
	default:
		return nil, fmt.Errorf("validator did not register")
	}
}

// check sends one CheckTx and waits for the response (one request in flight at a time, so the
// actor's goroutine never runs concurrently with the simulation).
func (s *svHandle) check(tx *types.Transaction) (*vatypes.CheckResponse, error) {
	res, err := s.pid.RequestFuture(&vatypes.CheckTx{WorkerId: 1, Tx: tx}, 30*time.Second).Result()
	if err != nil {
		return nil, err
	}
	r, ok := res.(*vatypes.CheckResponse)
	if !ok {
		return nil, fmt.Errorf("unexpected response %T", res)
	}
	return r, nil
}

func (s *svHandle) stop() {
	s.pid.Tell(&vatypes.UnRegisterAck{}) // the actor stops itself on this message
	actor.ProcessRegistry.Remove(s.capPID)
}

// ---------------------------------------------------------------------------------------------
// crash plumbing (same hook as C12)

type crashSentinel struct{ point string }

var c38CrashPoints = []string{"submit.begin", "submit.afterBlockBatch", "submit.afterStateBatch", "submit.beforeBlockCommit",
	"submit.afterBlockCommit", "submit.afterEventCommit", "submit.afterStateCommit"}

func crashingAt(point string, f func() error) (crashed bool, err error) {
	ledgerstore.CrashPointHook = func(name string) {
		if name == point {
			ledgerstore.CrashPointHook = nil
			panic(crashSentinel{point})
		}
	}
	defer func() {
		ledgerstore.CrashPointHook = nil
		if e := recover(); e != nil {
			if _, ok := e.(crashSentinel); ok {
				crashed = true
				return
			}
			panic(e)
		}
	}()
	err = f()
	return false, err
}

// ---------------------------------------------------------------------------------------------

func init() {
	kernel.Register(&kernel.Check{
		ID: "C38", Level: "exploration", Engine: "E6 wallet package: increment-validator stream + stateful validator on a real node",
		Rule: "case = seeded stream of 30-80 (thorough: 60-300) steps against one IncrementValidator of capacity 1..20 and one real node: real committed blocks " +
			"(0-3 signed native transactions each) fed or withheld, synthetic blocks at chosen heights (next, gap, repeat of the tip, older inside the window, below the window, far future, zero) " +
			"carrying arbitrary pool transactions, re-feeds of earlier real blocks, Clean, the consensus caller's resync rule, node restart, crash inside the block commit; after every step " +
			"BlockRange and Verify(tx,start) for every pool transaction x every start height in {0, base-2 .. end+1, 2^31, 2^32-1} are compared with a deque model, and the stateful validator is asked about " +
			"every pool transaction after every ledger change. evaluations = (tx,start) pairs + stateful answers compared; a run is non-trivial when it evicted a block, ignored a non-contiguous block, " +
			"had duplicate and non-duplicate answers and a stateful duplicate after a restart; distinct by the digest of feed outcomes and window ranges",
		Real: []string{"validator/increment IncrementValidator (AddBlock, Verify, BlockRange, Clean)", "validator/stateful validator actor (spawned by NewValidator, default mailbox) answering CheckTx",
			"core/ledger + ledgerstore on goleveldb files (tmpfs), native runtime executing the blocks' transactions", "core/types transactions and blocks, real P-256 signatures"},
		Stub: []string{"VBFT server / solo service (the callers of the increment validator): their resync rule `ledgerHeight+1 != end => Clean` is mirrored by a plan step", "transaction pool actor (a capture process receives the validator's registration; requests use RequestFuture)", "block producer stub seals real blocks"},
		Assumptions: []string{"Verify(tx,start) with start below the tracked range is a refusal (error) in the implementation; the property does not cover it, so only the safety direction is asserted there: a tracked transaction must not be reported clean",
			"stateful clause asserted one-directionally as stated: committed => ErrCode != ErrNoError; answers for never-committed transactions are logged, not asserted",
			"heights stay below 2^32-10^5 so that uint32 wrap-around of the window end is never reached",
			"crash model of C12: sentinel panic at a named persistence point, file handles closed, reopen"},
		QuickRuns: 640, ThoroughRuns: 40000, QuickCap: 40, ThoroughCap: 700,
		RequiredProbes: []string{"evicted_tx_not_duplicate", "dup_at_exact_start", "tracked_only_below_start_not_dup", "ignored_block_tx_not_duplicate",
			"ignored:gap", "ignored:repeat", "ignored:older", "ignored:below", "refused_below_base", "stateful_dup_after_restart", "stateful_dup_after_crash", "window_at_capacity"},
		Generate: genC38,
		Execute:  execC38,
	})
}

func st(op string, a ...int64) kernel.Step { return kernel.Step{Op: op, A: a} }

func genC38(rng *kernel.RNG, idx int, tier string) *kernel.Plan {
	caps := []int64{1, 1, 2, 2, 3, 3, 4, 5, 6, 8, 12, 20}
	cfg := map[string]int64{"cap": caps[rng.Intn(len(caps))], "pool": int64(12 + rng.Intn(24)), "nval": int64(4 + rng.Intn(3))}
	nsteps := 30 + rng.Intn(51)
	if tier == "thorough" {
		nsteps = 60 + rng.Intn(241)
	}
	type wop struct {
		op string
		w  int
	}
	ops := []wop{{"real", 9}, {"withhold", 2}, {"next", 7}, {"gap", 2}, {"repeat", 2}, {"older", 2}, {"below", 1}, {"far", 1}, {"zero", 1},
		{"refeed", 2}, {"clean", 1}, {"resync", 3}, {"restart", 1}, {"crash", 1}, {"query", 3}}
	// swarm: switch fault kinds off entirely in some runs, emphasise one in others
	for i := range ops {
		switch ops[i].op {
		case "real", "next", "query":
		default:
			if rng.Chance(0.2) {
				ops[i].w = 0
			} else if rng.Chance(0.1) {
				ops[i].w *= 4
			}
		}
	}
	total := 0
	for _, o := range ops {
		total += o.w
	}
	var steps []kernel.Step
	for len(steps) < nsteps {
		r := rng.Intn(total)
		var op string
		for _, o := range ops {
			if r < o.w {
				op = o.op
				break
			}
			r -= o.w
		}
		ntx := int64(rng.Intn(4))
		switch op {
		case "real":
			steps = append(steps, st("real", ntx, rng.Int63()%1000, 0))
		case "withhold":
			steps = append(steps, st("real", ntx, rng.Int63()%1000, 1))
		case "next", "gap", "repeat", "older", "below", "far", "zero":
			mode := map[string]int64{"next": 0, "gap": 1, "repeat": 2, "older": 3, "below": 4, "far": 5, "zero": 6}[op]
			steps = append(steps, st("synth", mode, int64(rng.Intn(6)), ntx, int64(rng.Intn(64)), int64(1+rng.Intn(7))))
		case "refeed":
			steps = append(steps, st("refeed", int64(rng.Intn(64))))
		case "clean", "resync", "restart":
			steps = append(steps, st(op))
		case "crash":
			steps = append(steps, st("crash", int64(rng.Intn(len(c38CrashPoints))), ntx, rng.Int63()%1000))
		case "query":
			steps = append(steps, st("query", int64(rng.Intn(64)), int64(rng.Intn(8)), int64(rng.Intn(5))))
		}
	}
	return &kernel.Plan{Cfg: cfg, Steps: steps}
}

type c38sim struct {
	run       *kernel.Run
	w         *chain.World
	node      *chain.Node
	pool      []*types.Transaction
	committed []bool
	next      int // next pool tx not yet put into a real block
	real      []*types.Block
	iv        *increment.IncrementValidator
	m         *winModel
	sv        *svHandle
	evicted   map[common.Uint256]bool // was in an evicted block at some time
	ignored   map[common.Uint256]bool // was in an ignored (non-contiguous) block at some time
	lastH     uint32
	sig       []byte
	evals     int
	sawEvict, sawIgnore, sawDup, sawNotDup, sawStatefulAfterRestart bool
	sinceRestart                                                    string // "", "restart", "crash": set until the next stateful sweep
}

func abs64(v int64) int64 {
	if v < 0 {
		if v == math.MinInt64 {
			return 0
		}
		return -v
	}
	return v
}

func (s *c38sim) buildPool(n int) {
	w := s.w
	for i := 0; i < n; i++ {
		u := w.Account(fmt.Sprintf("user%d", i%5))
		var tx *types.Transaction
		switch i % 3 {
		case 0:
			tx = w.NewTx(chain.RelayerManager, relayer_manager.REGISTER_RELAYER,
				chain.Args(&relayer_manager.RelayerListParam{AddressList: []common.Address{w.Account(fmt.Sprintf("rel%d", i)).Address}, Address: u.Address}), uint32(i+1))
		case 1:
			tx = w.NewTx(chain.NodeManager, node_manager.REGISTER_CANDIDATE,
				chain.Args(&node_manager.RegisterPeerParam{PeerPubkey: chain.PubHex(w.Account(fmt.Sprintf("cand%d", i))), Address: u.Address}), uint32(i+1))
		default:
			tx = w.NewTx(chain.NodeManager, "noSuchMethod", []byte{byte(i)}, uint32(i+1)) // fails in execution, is committed all the same
		}
		s.pool = append(s.pool, chain.SignTx(tx, u))
	}
	s.committed = make([]bool, n)
}

func hashesOf(txs []*types.Transaction) []common.Uint256 {
	var out []common.Uint256
	for _, t := range txs {
		out = append(out, t.Hash())
	}
	return out
}

// guard turns a panic inside poly code into a violation.
func (s *c38sim) guard(what string, f func()) (ok bool) {
	defer func() {
		if e := recover(); e != nil {
			if _, isCrash := e.(crashSentinel); isCrash {
				panic(e)
			}
			s.run.Fail("C38", "panic", "%s panicked: %v", what, e)
			ok = false
		}
	}()
	f()
	return true
}

// feed gives blk to the tracker and to the model.
func (s *c38sim) feed(blk *types.Block, label string) {
	h := blk.Header.Height
	accepted, ev, rel := s.m.add(h, hashesOf(blk.Transactions))
	if !s.guard("AddBlock", func() { s.iv.AddBlock(blk) }) {
		return
	}
	if accepted {
		if ev != nil {
			s.sawEvict = true
			s.run.Probe("eviction")
			for k := range ev {
				s.evicted[k] = true
			}
		}
		if len(s.m.sets) == s.m.cap {
			s.run.Probe("window_at_capacity")
		}
	} else {
		s.sawIgnore = true
		s.run.Fault("ignored:" + rel)
		for _, t := range blk.Transactions {
			s.ignored[t.Hash()] = true
		}
	}
	s.lastH = h
	s.run.Logf("feed %s h=%d ntx=%d -> model %s accepted=%v evict=%v window=[%d,%d)", label, h, len(blk.Transactions), rel, accepted, ev != nil, s.m.base, s.m.end())
	s.sig = append(s.sig, []byte(fmt.Sprintf("%s/%v/%d;", rel, ev != nil, len(s.m.sets)))...)
}

// sweep compares BlockRange and every (tx, start) answer with the model.
func (s *c38sim) sweep() {
	run := s.run
	var bs, be uint32
	if !s.guard("BlockRange", func() { bs, be = s.iv.BlockRange() }) {
		return
	}
	if s.m.empty() {
		if bs != be {
			run.Fail("C38", "range-not-empty", "tracker reports range [%d,%d) but no block is tracked per the model", bs, be)
			return
		}
	} else if bs != s.m.base || be != s.m.end() {
		run.Fail("C38", "range-mismatch", "tracker reports range [%d,%d), model (capacity %d) tracks [%d,%d)", bs, be, s.m.cap, s.m.base, s.m.end())
		return
	}
	starts := []uint32{0, 1 << 31, math.MaxUint32}
	if s.m.empty() {
		starts = append(starts, 1, s.lastH, s.lastH+1)
	} else {
		lo := s.m.base
		if lo >= 2 {
			lo -= 2
		} else {
			lo = 0
		}
		for h := lo; h <= s.m.end()+1; h++ {
			starts = append(starts, h)
		}
	}
	dig := sha256.New()
	for ti, tx := range s.pool {
		hash := tx.Hash()
		hs := s.m.heightsOf(hash)
		for _, start := range starts {
			var err error
			if !s.guard("Verify", func() { err = s.iv.Verify(tx, start) }) {
				return
			}
			got := err != nil
			want := s.m.dupAtOrAbove(hash, start)
			s.evals++
			if got {
				dig.Write([]byte{1})
			} else {
				dig.Write([]byte{0})
			}
			if !s.m.empty() && start < s.m.base {
				// below the tracked range: outside the property; safety direction only
				if want && !got {
					run.Fail("C38", "missed-duplicate-below-base", "tx#%d is tracked at heights %v, Verify(start=%d) below window [%d,%d) reported it clean", ti, hs, start, s.m.base, s.m.end())
					return
				}
				if got && !want {
					run.Probe("refused_below_base")
				}
				continue
			}
			if want && !got {
				run.Fail("C38", "missed-duplicate", "tx#%d is in tracked block(s) %v, Verify(start=%d) with window [%d,%d) reported it clean", ti, hs, start, s.m.base, s.m.end())
				return
			}
			if !want && got {
				run.Fail("C38", "false-duplicate", "tx#%d is tracked only at heights %v (evicted before: %v, only in ignored block: %v), Verify(start=%d) with window [%d,%d) reported: %v",
					ti, hs, s.evicted[hash], s.ignored[hash], start, s.m.base, s.m.end(), err)
				return
			}
			if want {
				s.sawDup = true
				run.Probe("dup_found")
				if len(hs) > 0 && hs[len(hs)-1] == start {
					run.Probe("dup_at_exact_start")
				}
			} else {
				s.sawNotDup = true
				if len(hs) > 0 {
					run.Probe("tracked_only_below_start_not_dup")
				} else if s.evicted[hash] {
					run.Probe("evicted_tx_not_duplicate")
				} else if s.ignored[hash] {
					run.Probe("ignored_block_tx_not_duplicate")
				}
			}
		}
	}
	sum := dig.Sum(nil)
	run.Logf("sweep range=[%d,%d) starts=%d answers=%x", bs, be, len(starts), sum[:6])
	st := append(binary.LittleEndian.AppendUint32(nil, s.m.base), byte(len(s.m.sets)))
	run.State(append(st, sum[:8]...))
}

// statefulSweep asks the real stateful validator about every pool transaction.
func (s *c38sim) statefulSweep(why string) {
	run := s.run
	s.node.Use()
	h := s.node.Height()
	dups, clean := 0, 0
	for i, tx := range s.pool {
		resp, err := s.sv.check(tx)
		if err != nil {
			run.Fail("C38", "stateful-no-answer", "stateful validator did not answer for tx#%d: %v", i, err)
			return
		}
		s.evals++
		if resp.Hash != tx.Hash() || resp.Type != vatypes.Stateful {
			run.Fail("C38", "stateful-wrong-answer", "stateful validator answered for another transaction / type %v (tx#%d)", resp.Type, i)
			return
		}
		if s.committed[i] {
			if resp.ErrCode == perrors.ErrNoError {
				run.Fail("C38", "committed-tx-passes-stateful", "tx#%d is committed in the ledger (height %d, %s) but stateful validation returned no error", i, h, why)
				return
			}
			in, err := s.node.L.IsContainTransaction(tx.Hash())
			if err != nil || !in {
				run.Fail("C38", "committed-tx-not-in-ledger", "tx#%d was committed but the ledger does not contain it (%s): %v", i, why, err)
				return
			}
			dups++
		} else if resp.ErrCode == perrors.ErrNoError {
			clean++
		}
		if resp.Height != h {
			run.Probe("stateful_height_differs") // informational: answered at another height than the ledger tip
		}
	}
	if dups > 0 {
		run.Probe("stateful_dup")
		switch s.sinceRestart {
		case "restart":
			run.Probe("stateful_dup_after_restart")
			s.sawStatefulAfterRestart = true
		case "crash":
			run.Probe("stateful_dup_after_crash")
		}
	}
	if clean > 0 {
		run.Probe("stateful_fresh_tx_passes")
	}
	s.sinceRestart = ""
	run.Logf("stateful sweep (%s) height=%d committed_rejected=%d uncommitted_clean=%d of %d", why, h, dups, clean, len(s.pool))
}

func (s *c38sim) takeTxs(n int) ([]*types.Transaction, []int) {
	var txs []*types.Transaction
	var idx []int
	for i := 0; i < n && s.next < len(s.pool); i++ {
		txs = append(txs, s.pool[s.next])
		idx = append(idx, s.next)
		s.next++
	}
	return txs, idx
}

func execC38(run *kernel.Run) {
	p := run.Plan
	capacity := int(p.C("cap", 3))
	if capacity < 1 {
		capacity = 1
	}
	if capacity > 64 {
		capacity = 64
	}
	nval := int(p.C("nval", 4))
	if nval < 4 {
		nval = 4
	}
	if nval > 7 {
		nval = 7
	}
	npool := int(p.C("pool", 16))
	if npool < 4 {
		npool = 4
	}
	if npool > 64 {
		npool = 64
	}
	w, err := chain.NewWorld(run, nval, 1, 10000)
	if err != nil {
		panic(err)
	}
	defer w.Close()
	node, err := w.NewNode("p")
	if err != nil {
		panic(err)
	}
	s := &c38sim{run: run, w: w, node: node, iv: increment.NewIncrementValidator(capacity), m: &winModel{cap: capacity},
		evicted: map[common.Uint256]bool{}, ignored: map[common.Uint256]bool{}}
	s.buildPool(npool)
	s.sv, err = newStateful()
	if err != nil {
		panic(err)
	}
	defer s.sv.stop()
	run.Logf("capacity=%d pool=%d validators=%d", capacity, npool, nval)
	s.sweep()
	for i, stp := range p.Steps {
		if run.Failed() {
			break
		}
		run.StepNo = i
		run.Steps++
		a := func(k int) int64 { return abs64(stp.Arg(k)) }
		switch stp.Op {
		case "real", "crash":
			ntx := int(a(0) % 4)
			nonce := uint64(a(1))
			crashPoint := ""
			if stp.Op == "crash" {
				crashPoint = c38CrashPoints[int(a(0)%int64(len(c38CrashPoints)))]
				ntx = int(a(1) % 4)
				nonce = uint64(a(2))
			}
			txs, idx := s.takeTxs(ntx)
			blk, err := node.BuildBlock(&chain.BlockSpec{Txs: txs, Nonce: nonce})
			if err != nil {
				panic(fmt.Sprintf("cannot build block: %v", err))
			}
			h := blk.Header.Height
			if crashPoint == "" {
				if _, err := node.Produce(blk); err != nil {
					panic(fmt.Sprintf("producer rejected its own block %d: %v", h, err))
				}
			} else {
				crashed, err := crashingAt(crashPoint, func() error { _, e := node.Produce(blk); return e })
				if !crashed {
					panic(fmt.Sprintf("crash point %s not reached: %v", crashPoint, err))
				}
				run.Fault("crash:" + crashPoint)
				node.Close()
				s.iv = increment.NewIncrementValidator(capacity) // the tracker is process memory
				s.m.clear()
				if err := node.Open(); err != nil {
					run.Fail("C12", "restart-failed", "restart after crash@%s in block %d failed: %v", crashPoint, h, err)
					return
				}
				s.sinceRestart = "crash"
				if node.Height() == h {
					run.Probe("crash_block_survived")
				} else if node.Height() == h-1 {
					run.Probe("crash_block_lost")
					if _, err := node.Produce(blk); err != nil {
						run.Fail("C12", "next-block-rejected", "block %d rejected after crash@%s and recovery: %v", h, crashPoint, err)
						return
					}
				} else {
					run.Fail("C12", "recovered-height-wrong", "after crash@%s in block %d the ledger is at height %d", crashPoint, h, node.Height())
					return
				}
			}
			for _, k := range idx {
				s.committed[k] = true
			}
			s.real = append(s.real, blk)
			run.Logf("real block h=%d ntx=%d crash=%q ledger=%d", h, len(txs), crashPoint, node.Height())
			if stp.Op == "real" && a(2)%2 == 1 {
				run.Fault("withheld_block")
				run.Logf("block %d withheld from the tracker", h)
			} else {
				s.feed(blk, "real")
			}
			s.statefulSweep(stp.Op)
		case "synth":
			mode := a(0) % 7
			delta := uint32(a(1) % 6)
			var h uint32
			base, end := s.m.base, s.m.end()
			if s.m.empty() {
				base, end = s.lastH, s.lastH+1
			}
			switch mode {
			case 0:
				h = end
			case 1:
				h = end + 1 + delta
			case 2:
				if end > 0 {
					h = end - 1
				}
			case 3:
				span := end - base
				if span > 0 {
					h = base + delta%span
				} else {
					h = base
				}
			case 4:
				if base > delta {
					h = base - 1 - delta
				} else {
					h = 0
				}
			case 5:
				h = math.MaxUint32 - 100000 - delta*1000
			case 6:
				h = 0
			}
			ntx := int(a(2) % 4)
			var txs []*types.Transaction
			for j := 0; j < ntx; j++ {
				txs = append(txs, s.pool[int((a(3)+int64(j)*(1+a(4)%7))%int64(len(s.pool)))])
			}
			s.feed(&types.Block{Header: &types.Header{Height: h}, Transactions: txs}, fmt.Sprintf("synth/%d", mode))
		case "refeed":
			if len(s.real) == 0 {
				run.Logf("refeed: no real block yet")
				break
			}
			s.feed(s.real[int(a(0)%int64(len(s.real)))], "refeed")
		case "clean":
			if s.guard("Clean", func() { s.iv.Clean() }) {
				s.m.clear()
				run.Fault("clean")
				run.Logf("clean")
			}
		case "resync":
			// what vbft's validHeight()/solo's makeBlock do before using the tracker
			var bs, be uint32
			if !s.guard("BlockRange", func() { bs, be = s.iv.BlockRange() }) {
				break
			}
			lh := node.Height()
			if lh+1 != be {
				s.iv.Clean()
				s.m.clear()
				run.Probe("resync_cleaned")
			} else {
				run.Probe("resync_in_step")
			}
			run.Logf("resync ledger=%d tracker=[%d,%d)", lh, bs, be)
		case "restart":
			node.Close()
			s.iv = increment.NewIncrementValidator(capacity)
			s.m.clear()
			if err := node.Open(); err != nil {
				run.Fail("C12", "restart-failed", "clean restart at height %d failed: %v", len(s.real), err)
				return
			}
			run.Fault("restart")
			s.sinceRestart = "restart"
			run.Logf("restart ledger=%d", node.Height())
			s.statefulSweep("restart")
		case "query":
			tx := s.pool[int(a(0)%int64(len(s.pool)))]
			var start uint32
			switch a(1) % 8 {
			case 0:
				start = s.m.base
			case 1:
				start = s.m.end()
			case 2:
				if s.m.end() > 0 {
					start = s.m.end() - 1
				}
			case 3:
				start = s.m.base + uint32(a(2))
			case 4:
				if s.m.base > uint32(a(2)) {
					start = s.m.base - uint32(a(2)) - 1
				}
			case 5:
				start = 0
			case 6:
				start = math.MaxUint32
			case 7:
				start = s.m.end() + uint32(a(2))
			}
			var err error
			if !s.guard("Verify", func() { err = s.iv.Verify(tx, start) }) {
				break
			}
			run.Logf("query tx#%d start=%d window=[%d,%d) tracked_at=%v -> rejected=%v", a(0)%int64(len(s.pool)), start, s.m.base, s.m.end(), s.m.heightsOf(tx.Hash()), err != nil)
		default:
			run.Logf("unknown op %s ignored", stp.Op)
		}
		if run.Failed() {
			break
		}
		s.sweep()
	}
	run.Probes["__evals"] = s.evals
	if s.sawEvict && s.sawIgnore && s.sawDup && s.sawNotDup && s.sawStatefulAfterRestart {
		run.Nontrivial(s.sig)
	}
	steps := len(p.Steps)
	show := p.Steps
	if len(show) > 25 {
		show = show[:25]
	}
	var ps []string
	for _, x := range show {
		ps = append(ps, x.String())
	}
	run.Sample = map[string]interface{}{"capacity": capacity, "pool": npool, "steps": steps, "real_blocks": len(s.real), "first_steps": ps}
}
