package wallet

// C43 — wallet accounts round-trip and are password-protected.
//
// Workload: sequences of account operations against account.ClientImpl on a real wallet file
// (kernel.TempDir), with "process restart" (drop the client, account.Open the file again) as a
// generated operation between any two operations, and always once more at the end.
// Model: ordinal -> {address, key pair, current password, password history, label, default?,
// signature scheme, live?}. The model follows the outcome of an operation where the property
// does not dictate it (a creation may be refused) and is strict where it does: what was saved
// decrypts with its password to the same key pair and address — also after reopening — and with
// no other sampled password; an operation given a wrong password fails and changes nothing.
//
// Determinism: poly draws keys and salts from crypto/rand, so addresses, keys and ciphertexts
// differ between two executions of one plan. Nothing logged or compared depends on them: the
// trace names accounts by creation ordinal.

import (
	"bytes"
	"crypto/ecdsa"
	"crypto/sha256"
	"encoding/base64"
	"encoding/binary"
	"encoding/hex"
	"fmt"
	"math/big"
	"os"
	"strings"
	"time"
	"unicode/utf8"

	"github.com/ontio/ontology-crypto/ec"
	"github.com/ontio/ontology-crypto/keypair"
	sig "github.com/ontio/ontology-crypto/signature"
	"github.com/polynetwork/poly/account"
	"github.com/polynetwork/poly/common"
	"github.com/polynetwork/poly/core/types"
	"golang.org/x/crypto/ed25519"

	"polysim/kernel"
)

type keyKind struct {
	name   string
	typ    keypair.KeyType
	curve  byte
	family string // suffix of the signature schemes that belong to this key type
}

var keyKinds = []keyKind{
	{"ECDSA/P-224", keypair.PK_ECDSA, keypair.P224, "ECDSA"},
	{"ECDSA/P-256", keypair.PK_ECDSA, keypair.P256, "ECDSA"},
	{"ECDSA/P-384", keypair.PK_ECDSA, keypair.P384, "ECDSA"},
	{"ECDSA/P-521", keypair.PK_ECDSA, keypair.P521, "ECDSA"},
	{"ECDSA/secp256k1", keypair.PK_ECDSA, keypair.SECP256K1, "ECDSA"},
	{"SM2/sm2p256v1", keypair.PK_SM2, keypair.SM2P256V1, "SM2"},
	{"EdDSA/ed25519", keypair.PK_EDDSA, keypair.ED25519, "EDDSA"},
}

var allSchemes = []sig.SignatureScheme{sig.SHA224withECDSA, sig.SHA256withECDSA, sig.SHA384withECDSA, sig.SHA512withECDSA,
	sig.SHA3_224withECDSA, sig.SHA3_256withECDSA, sig.SHA3_384withECDSA, sig.SHA3_512withECDSA, sig.RIPEMD160withECDSA, sig.SM3withSM2, sig.SHA512withEDDSA}

func schemeFits(k keyKind, s sig.SignatureScheme) bool {
	return strings.HasSuffix(strings.ToUpper(s.Name()), k.family)
}

// labels: valid UTF-8 except the last one; JSON must carry all of them.
var labelTable = []string{"", "a", "a_1", "A", " a", "a ", "acct-1", "acct-2", "acct-2_1", "wallet \"quoted\" \\ back", "<tag>&amp;", "line\nbreak\ttab", "nul\x00inside",
	"é", "日本語ラベル", "😀", strings.Repeat("long-label-", 40), "bad-utf8-\xff\xfe"}

func labelOf(i int64) string { return labelTable[int(abs64(i)%int64(len(labelTable)))] }

var pwLens = []int{0, 1, 2, 3, 8, 15, 16, 31, 32, 33, 63, 64, 65, 100, 255, 1024, 5000}

// pwBytes: passwords of one family are prefixes of one byte stream, so that plans contain
// passwords sharing prefixes; variants flip one bit or map to printable text.
func pwBytes(seed uint64, fam, lenIdx, variant int64) []byte {
	n := pwLens[int(abs64(lenIdx)%int64(len(pwLens)))]
	b := kernel.NewRNG(kernel.Derive(seed, "pwfam", uint64(abs64(fam)%3))).Bytes(n)
	switch abs64(variant) % 4 {
	case 1:
		if n > 0 {
			b[n-1] ^= 1
		}
	case 2:
		for i := range b {
			b[i] = b[i]%94 + 33
		}
	case 3:
		for i := range b {
			b[i] = b[i]%26 + 'a'
		}
	}
	return b
}

// hmacNorm: scrypt keys PBKDF2-HMAC-SHA256 with the password; HMAC pads keys shorter than its
// 64-byte block with zeros and replaces longer ones by their SHA-256 digest. Two passwords with
// the same normal form are the same password for every scrypt-based scheme (standard
// behaviour of the trusted dependency, stated as an assumption), so they are never sampled as
// "another password".
func hmacNorm(p []byte) [64]byte {
	var k [64]byte
	if len(p) > 64 {
		h := sha256.Sum256(p)
		copy(k[:], h[:])
	} else {
		copy(k[:], p)
	}
	return k
}

func b58(a common.Address) string { return a.ToBase58() }

func samePassword(a, b []byte) bool { return hmacNorm(a) == hmacNorm(b) }

// safeTag is pwTag for sampled passwords: the one candidate derived from the (random) address
// must not leave a trace-visible digest.
func safeTag(name string, p []byte) string {
	if strings.HasPrefix(name, "address") {
		return fmt.Sprintf("len%d", len(p))
	}
	return pwTag(p)
}

func pwTag(p []byte) string {
	h := sha256.Sum256(p)
	return fmt.Sprintf("len%d/%x", len(p), h[:3])
}

// detKey derives an importable private key from (seed, kind, id) without crypto/rand.
func detKey(seed uint64, k keyKind, id int64) keypair.PrivateKey {
	b := binary.LittleEndian.AppendUint64(nil, seed)
	b = append(b, "c43-import:"...)
	b = append(b, k.name...)
	b = binary.LittleEndian.AppendUint64(b, uint64(id))
	h := sha256.Sum256(b)
	if k.typ == keypair.PK_EDDSA {
		return ed25519.NewKeyFromSeed(h[:])
	}
	c, err := keypair.GetCurve(k.curve)
	if err != nil {
		panic(err)
	}
	d := new(big.Int).SetBytes(h[:])
	if id%3 == 2 {
		d.Rsh(d, 24) // scalar with leading zero bytes
	}
	n1 := new(big.Int).Sub(c.Params().N, big.NewInt(1))
	d.Mod(d, n1)
	d.Add(d, big.NewInt(1))
	x, y := c.ScalarBaseMult(d.Bytes())
	alg := ec.ECDSA
	if k.typ == keypair.PK_SM2 {
		alg = ec.SM2
	}
	return &ec.PrivateKey{Algorithm: alg, PrivateKey: &ecdsa.PrivateKey{D: d, PublicKey: ecdsa.PublicKey{Curve: c, X: x, Y: y}}}
}

// secretOf: the bytes that must never appear in the wallet file.
func secretOf(pri keypair.PrivateKey) []byte {
	switch t := pri.(type) {
	case *ec.PrivateKey:
		size := (t.Params().BitSize + 7) >> 3
		out := make([]byte, size)
		t.D.FillBytes(out)
		return out
	case ed25519.PrivateKey:
		return append([]byte{}, t[:32]...)
	}
	return nil
}

type macc struct {
	ord      int
	kind     string
	addr     string // base58; never logged
	priv     []byte // keypair.SerializePrivateKey
	pub      string // hex of the serialized public key
	secret   []byte
	pw       []byte
	history  [][]byte // earlier passwords, oldest first
	label    string
	def      bool
	scheme   string
	live     bool
	imported bool
	// unlock window (process memory of the wallet client): opened by a successful UnLockAccount at
	// fake time unlockAt for unlockFor; closed by LockAccount, deletion, restart or expiry
	unlocked  bool
	unlockAt  time.Duration
	unlockFor time.Duration
}

type c43sim struct {
	run                                                     *kernel.Run
	path                                                    string
	cli                                                     account.Client
	accs                                                    []*macc // by ordinal
	scrypt                                                  int     // scrypt evaluations so far
	budget                                                  int
	sig                                                     []byte
	created, restartsWithAccounts, mutations, wrongRejected int
	mutatedSinceRestart                                     bool
	restartAfterMutation                                    bool
	now                                                     time.Duration // fake time elapsed in the bubble (sum of executed "tick" steps)
}

// isUnlocked: the account was unlocked with its password and the window is still open.
func (s *c43sim) isUnlocked(m *macc) bool {
	return m.live && m.unlocked && s.now-m.unlockAt < m.unlockFor
}

// wrongCall is noted before every password-taking call that is given a wrong password.
func (s *c43sim) wrongCall(m *macc) {
	if s.isUnlocked(m) {
		s.run.Probe("wrong_password_call_while_unlocked")
	}
}

func (s *c43sim) snap() []byte {
	b, err := os.ReadFile(s.path)
	if err != nil {
		return nil
	}
	return b
}

// unchanged: a refused operation must leave the wallet file byte-identical.
func (s *c43sim) unchanged(before []byte, why, what string) bool {
	if after := s.snap(); !bytes.Equal(before, after) {
		s.fail("refused-operation-changed-file", "%s: %s was given a wrong password, yet the wallet file changed (%d -> %d bytes)", why, what, len(before), len(after))
		return false
	}
	return true
}

func (s *c43sim) live() []*macc {
	var out []*macc
	for _, a := range s.accs {
		if a.live {
			out = append(out, a)
		}
	}
	return out
}

func (s *c43sim) pick(sel int64) *macc {
	l := s.live()
	if len(l) == 0 {
		return nil
	}
	return l[int(abs64(sel)%int64(len(l)))]
}

func (s *c43sim) fail(key, format string, a ...interface{}) {
	s.run.Fail("C43", key, format, a...)
}

// guard turns a panic inside poly into a violation.
func (s *c43sim) guard(what string, f func()) (ok bool) {
	defer func() {
		if e := recover(); e != nil {
			s.fail("panic", "%s panicked: %v", what, e)
			ok = false
		}
	}()
	f()
	return true
}

func (s *c43sim) open(why string) bool {
	var cli account.Client
	var err error
	if !s.guard("account.Open", func() { cli, err = account.Open(s.path) }) {
		return false
	}
	if err != nil {
		s.fail("reopen-failed", "%s: opening the wallet file failed (%d live accounts in the model): %v", why, len(s.live()), scrub(err, s))
		return false
	}
	s.cli = cli
	return true
}

// scrub removes addresses from error texts before they reach the trace.
func scrub(err error, s *c43sim) string {
	if err == nil {
		return "<nil>"
	}
	msg := err.Error()
	for _, a := range s.accs {
		msg = strings.ReplaceAll(msg, a.addr, fmt.Sprintf("<addr#%d>", a.ord))
	}
	msg = strings.ReplaceAll(msg, s.path, "<wallet>")
	return msg
}

// sameKey compares a decrypted account with the model.
func (s *c43sim) sameKey(m *macc, got *account.Account) string {
	if got == nil {
		return "no account returned"
	}
	if b58(got.Address) != m.addr {
		return "address differs"
	}
	if !bytes.Equal(keypair.SerializePrivateKey(got.PrivateKey), m.priv) {
		return "private key differs"
	}
	if hex.EncodeToString(keypair.SerializePublicKey(got.PublicKey)) != m.pub {
		return "public key differs"
	}
	if b58(types.AddressFromPubKey(got.PublicKey)) != m.addr {
		return "address does not belong to the public key"
	}
	if got.SigScheme.Name() != m.scheme {
		return fmt.Sprintf("signature scheme %s, expected %s", got.SigScheme.Name(), m.scheme)
	}
	return ""
}

// indexOf finds the 1-based position of an address in the wallet's index order.
func (s *c43sim) indexOf(addr string) int {
	n := s.cli.GetAccountNum()
	for i := 1; i <= n+1; i++ {
		if md := s.cli.GetAccountMetadataByIndex(i); md != nil && md.Address == addr {
			return i
		}
	}
	return 0
}

// decrypt asks the wallet for the account through one of its lookup paths.
func (s *c43sim) decrypt(m *macc, via int64, pw []byte) (acc *account.Account, err error, path string) {
	s.scrypt++
	switch abs64(via) % 4 {
	case 1:
		if m.label != "" && utf8.ValidString(m.label) {
			acc, err = s.cli.GetAccountByLabel(m.label, pw)
			return acc, err, "label"
		}
	case 2:
		if i := s.indexOf(m.addr); i > 0 {
			acc, err = s.cli.GetAccountByIndex(i, pw)
			return acc, err, "index"
		}
	case 3:
		if m.def {
			acc, err = s.cli.GetDefaultAccount(pw)
			return acc, err, "default"
		}
	}
	acc, err = s.cli.GetAccountByAddress(m.addr, pw)
	return acc, err, "address"
}

// otherPasswords lists sampled passwords that are not the account's password.
func (s *c43sim) otherPasswords(m *macc) (names []string, pws [][]byte) {
	add := func(name string, p []byte) {
		if samePassword(p, m.pw) {
			return
		}
		for _, q := range pws {
			if bytes.Equal(p, q) {
				return
			}
		}
		names = append(names, name)
		pws = append(pws, p)
	}
	// most recent old passwords first: they are the ones most likely to be accepted wrongly
	for i := len(m.history) - 1; i >= 0 && i >= len(m.history)-3; i-- {
		add("previous password", m.history[i])
	}
	p := m.pw
	add("empty", nil)
	if len(p) > 0 {
		add("one byte shorter", append([]byte{}, p[:len(p)-1]...))
		q := append([]byte{}, p...)
		q[len(q)-1] ^= 1
		add("last bit flipped", q)
		q = append([]byte{}, p...)
		q[0] ^= 0x80
		add("first bit flipped", q)
		q = append([]byte{}, p...)
		q[len(q)/2] ^= 0x20
		add("middle case bit flipped", q)
	}
	add("one byte longer", append(append([]byte{}, p...), 0x01))
	add("doubled", append(append([]byte{}, p...), p...))
	for _, o := range s.accs {
		if o != m {
			add(fmt.Sprintf("password of account #%d", o.ord), o.pw)
		}
	}
	add("label as password", []byte(m.label))
	add("address as password", []byte(m.addr))
	return
}

// verify: the account decrypts with its password to the model's key pair (through lookup path
// `via`) and with none of nWrong other sampled passwords; the most recent previous password, if
// there is one, is always the first of them.
func (s *c43sim) verify(m *macc, why string, via int64, nWrong int, rng *kernel.RNG) bool {
	var acc *account.Account
	var err error
	var path string
	if !s.guard("GetAccount", func() { acc, err, path = s.decrypt(m, via, m.pw) }) {
		return false
	}
	if err != nil || acc == nil {
		switch {
		case len(m.pw) == 0:
			s.fail("empty-password-bricks-account", "%s: account #%d (%s) was given the empty password by a successful operation and can no longer be decrypted by %s: %v", why, m.ord, m.kind, path, scrub(err, s))
		case !m.imported && len(m.history) == 0 && s.run.Plan.C("lowsec", 0) != 0:
			s.fail("new-account-ignores-wallet-scrypt", "%s: account #%d (%s) created by NewAccount in a wallet with non-default scrypt parameters does not decrypt with its password (%s) by %s: %v", why, m.ord, m.kind, pwTag(m.pw), path, scrub(err, s))
		default:
			s.fail("current-password-rejected", "%s: account #%d (%s, imported=%v, %d password changes) does not decrypt with its current password (%s) by %s: acc=%v err=%v", why, m.ord, m.kind, m.imported, len(m.history), pwTag(m.pw), path, acc != nil, scrub(err, s))
		}
		return false
	}
	if d := s.sameKey(m, acc); d != "" {
		s.fail("wrong-key-returned", "%s: account #%d (%s) decrypted by %s with its password: %s", why, m.ord, m.kind, path, d)
		return false
	}
	s.run.Probe("decrypt_ok_via_" + path)
	names, pws := s.otherPasswords(m)
	tried := 0
	for k := 0; k < len(pws) && tried < nWrong; k++ {
		// the first candidate (most recent old password, if any) is always tried; the rest are sampled
		j := 0
		if k > 0 {
			j = rng.Intn(len(pws))
		}
		if s.scrypt >= s.budget+s.budget/4 {
			s.run.Probe("budget_exhausted_probe_skipped")
			break
		}
		tried++
		s.wrongCall(m)
		var a2 *account.Account
		var e2 error
		var p2 string
		if !s.guard("GetAccount(wrong password)", func() { a2, e2, p2 = s.decrypt(m, int64(rng.Intn(8)), pws[j]) }) {
			return false
		}
		if e2 == nil || a2 != nil {
			s.fail("other-password-accepted", "%s: account #%d (%s) with password %s was opened by %s with another password (%s, %s)", why, m.ord, m.kind, pwTag(m.pw), p2, names[j], safeTag(names[j], pws[j]))
			return false
		}
		s.wrongRejected++
		s.run.Probe("wrong_password_rejected")
		if strings.HasPrefix(names[j], "previous") {
			s.run.Probe("old_password_rejected")
		}
	}
	return true
}

// cheap compares everything that needs no key derivation with the model.
func (s *c43sim) cheap(why string) bool {
	ok := true
	good := s.guard("metadata reads", func() { ok = s.cheapInner(why) })
	return good && ok
}

func (s *c43sim) cheapInner(why string) bool {
	live := s.live()
	if n := s.cli.GetAccountNum(); n != len(live) {
		s.fail("account-count-mismatch", "%s: wallet reports %d accounts, model has %d live", why, n, len(live))
		return false
	}
	ndef := 0
	for _, m := range s.accs {
		md := s.cli.GetAccountMetadataByAddress(m.addr)
		if !m.live {
			stillLive := false
			for _, o := range live {
				stillLive = stillLive || o.addr == m.addr // same key imported again later
			}
			if stillLive {
				continue
			}
			if md != nil {
				s.fail("deleted-account-present", "%s: account #%d was deleted but the wallet still lists it", why, m.ord)
				return false
			}
			continue
		}
		if md == nil {
			s.fail("account-lost", "%s: live account #%d (%s) is not in the wallet", why, m.ord, m.kind)
			return false
		}
		if md.PubKey != m.pub {
			s.fail("metadata-mismatch", "%s: account #%d lists another public key", why, m.ord)
			return false
		}
		if md.Label != m.label {
			if utf8.ValidString(m.label) || md.Label != jsonCoerce(m.label) {
				s.fail("label-mismatch", "%s: account #%d has label %q, model %q", why, m.ord, md.Label, m.label)
				return false
			}
			s.run.Probe("invalid_utf8_label_rewritten_on_reload")
		}
		if md.IsDefault != m.def {
			s.fail("default-mismatch", "%s: account #%d default=%v, model %v", why, m.ord, md.IsDefault, m.def)
			return false
		}
		if md.SigSch != m.scheme {
			s.fail("scheme-mismatch", "%s: account #%d lists scheme %s, model %s", why, m.ord, md.SigSch, m.scheme)
			return false
		}
		if md.IsDefault {
			ndef++
		}
		if m.label != "" && utf8.ValidString(m.label) {
			if ml := s.cli.GetAccountMetadataByLabel(m.label); ml == nil || ml.Address != m.addr {
				s.fail("label-lookup-mismatch", "%s: label %q of account #%d resolves to %v", why, m.label, m.ord, ml != nil)
				return false
			}
		}
	}
	if ndef > 1 {
		s.fail("default-mismatch", "%s: %d default accounts", why, ndef)
		return false
	}
	dm := s.cli.GetDefaultAccountMetadata()
	for _, m := range live {
		if m.def && (dm == nil || dm.Address != m.addr) {
			s.fail("default-mismatch", "%s: default account is not account #%d", why, m.ord)
			return false
		}
	}
	// the key is handed out without a password only inside an unlock window opened with the password
	for _, m := range s.accs {
		u := s.cli.GetUnlockAccount(m.addr)
		if u == nil {
			continue
		}
		if !s.isUnlocked(m) {
			still := false
			for _, o := range live {
				still = still || (o != m && o.addr == m.addr && s.isUnlocked(o))
			}
			if !still {
				s.fail("key-handed-out-without-unlock", "%s: GetUnlockAccount returns the key of account #%d (live=%v) although no unlock window is open (unlocked=%v, opened %v ago for %v)", why, m.ord, m.live, m.unlocked, s.now-m.unlockAt, m.unlockFor)
				return false
			}
			continue
		}
		if d := s.sameKey(m, u); d != "" {
			s.fail("wrong-key-returned", "%s: GetUnlockAccount for account #%d: %s", why, m.ord, d)
			return false
		}
		s.run.Probe("unlocked_key_served")
	}
	// index enumeration yields exactly the live accounts
	seen := map[string]int{}
	for i := 1; i <= len(live); i++ {
		md := s.cli.GetAccountMetadataByIndex(i)
		if md == nil {
			s.fail("index-enumeration-mismatch", "%s: index %d of %d is empty", why, i, len(live))
			return false
		}
		seen[md.Address]++
	}
	for _, m := range live {
		if seen[m.addr] != 1 {
			s.fail("index-enumeration-mismatch", "%s: account #%d appears %d times in the index enumeration", why, m.ord, seen[m.addr])
			return false
		}
	}
	if s.cli.GetAccountMetadataByIndex(len(live)+1) != nil || s.cli.GetAccountMetadataByIndex(0) != nil {
		s.fail("index-enumeration-mismatch", "%s: index outside 1..%d is occupied", why, len(live))
		return false
	}
	// nothing secret in the file
	if raw, err := os.ReadFile(s.path); err == nil {
		for _, m := range live {
			for _, enc := range encodings(m.secret) {
				if bytes.Contains(raw, enc) {
					s.fail("secret-in-wallet-file", "%s: the private scalar of account #%d appears unencrypted in the wallet file", why, m.ord)
					return false
				}
			}
			if len(m.pw) >= 6 {
				for _, enc := range encodings(m.pw) {
					if bytes.Contains(raw, enc) {
						s.fail("secret-in-wallet-file", "%s: the password of account #%d appears in the wallet file", why, m.ord)
						return false
					}
				}
			}
		}
	}
	return true
}

// jsonCoerce is what encoding/json makes of a string that is not valid UTF-8: every invalid
// byte becomes U+FFFD. (Labels are outside the property's promise; this keeps the comparison exact.)
func jsonCoerce(s string) string {
	var b strings.Builder
	for i := 0; i < len(s); {
		r, n := utf8.DecodeRuneInString(s[i:])
		if r == utf8.RuneError && n == 1 {
			b.WriteString("\ufffd")
		} else {
			b.WriteString(s[i : i+n])
		}
		i += n
	}
	return b.String()
}

func encodings(b []byte) [][]byte {
	h := hex.EncodeToString(b)
	return [][]byte{b, []byte(h), []byte(strings.ToUpper(h)), []byte(strings.TrimRight(base64.StdEncoding.EncodeToString(b), "=")), []byte(strings.TrimRight(base64.URLEncoding.EncodeToString(b), "="))}
}

func (s *c43sim) state() {
	h := sha256.New()
	for _, m := range s.live() {
		fmt.Fprintf(h, "%d|%s|%q|%v|%s|%s;", m.ord, m.kind, m.label, m.def, m.scheme, pwTag(m.pw))
	}
	s.run.State(h.Sum(nil))
}

func (s *c43sim) addAccount(kind keyKind, pri keypair.PrivateKey, pub keypair.PublicKey, pw []byte, scheme string, imported bool) *macc {
	addr := b58(types.AddressFromPubKey(pub))
	m := &macc{ord: len(s.accs), kind: kind.name, addr: addr, priv: keypair.SerializePrivateKey(pri), pub: hex.EncodeToString(keypair.SerializePublicKey(pub)),
		secret: secretOf(pri), pw: append([]byte{}, pw...), scheme: scheme, live: true, imported: imported}
	if md := s.cli.GetAccountMetadataByAddress(addr); md != nil {
		m.label = md.Label
		m.def = md.IsDefault
	}
	s.accs = append(s.accs, m)
	s.created++
	return m
}

func (s *c43sim) note(format string, a ...interface{}) {
	line := fmt.Sprintf(format, a...)
	s.run.Logf("%s", line)
	s.sig = append(s.sig, line...)
}

func init() {
	kernel.Register(&kernel.Check{
		ID: "C43", Level: "exploration", Engine: "E6 wallet (account.ClientImpl on a real file, restart-from-file)",
		Rule: "case = seeded sequence of wallet operations (NewAccount for ECDSA P-224/P-256/P-384/P-521/secp256k1, SM2, Ed25519 with matching and mismatching signature schemes; ImportAccount of derived keys; " +
			"SetLabel; SetDefaultAccount; ChangePassword with right/wrong old password; DeleteAccount with right/wrong password; ChangeSigScheme; lookups by address/label/index/default; UnLockAccount with expiry 0/1/2/5/60/3600/-1 s and right/wrong password, LockAccount, clock ticks of 0.5 s..1 h that let unlock windows expire) " +
			"with process restart (reopen from the file) as a generated step and once more at the end; passwords are prefixes/variants of three byte streams (lengths 0..5000, binary and text, sharing prefixes), " +
			"labels include empty, JSON-hostile, non-ASCII and very long ones; two runs in five use a wallet switched (exported ToLowSecurity on the empty wallet) to the low-security scrypt parameters, most of those create accounts by import only. After every step the metadata of every account is compared with the model " +
			"and the touched account is decrypted with its password and with sampled other passwords (previous passwords first); after a restart every account is. " +
			"Right after every successful unlock each password-taking operation (four getters, DeleteAccount, UnLockAccount) is given the empty and one other wrong password and must refuse without touching the file; GetUnlockAccount may hand out a key only inside a window opened with the right password. " +
			"evaluations = decrypt attempts compared; a run is non-trivial when >=2 accounts were created, a restart followed a mutation and reloaded >=1 account, and >=1 wrong password was rejected; distinct by digest of the operation outcomes",
		Real: []string{"account.ClientImpl (NewAccount, ImportAccount, SetLabel, SetDefaultAccount, ChangePassword, DeleteAccount, ChangeSigScheme, all Get* lookups)", "account.WalletData JSON save/load on a real file (tmpfs)",
			"ontology-crypto keypair: key generation, scrypt + AES-GCM key protection (trusted dependency, real)"},
		Stub: []string{"command-line layer (cmd/account_cmd.go): its duplicate-address guard before ImportAccount is mirrored by the harness", "wall clock: the run executes inside a testing/synctest bubble, UnLockAccount/GetUnlockAccount read the bubble's fake clock, which only the plan's tick steps move"},
		Assumptions: []string{"process-restart model only: the wallet file is whatever the last completed Save left; torn or partial wallet writes are outside the property and not injected",
			"two passwords with the same HMAC-SHA256 key normal form (zero-padded to 64 bytes; SHA-256 digest if longer) are the same password for scrypt/PBKDF2 and are never sampled as 'another password' (p and p+\"\\x00\" are equivalent)",
			"keys and salts come from crypto/rand inside poly; the trace identifies accounts by ordinal and is independent of them",
			"ImportAccount is only called for addresses not present in the wallet, as the command line does"},
		QuickRuns: 32, ThoroughRuns: 800, QuickCap: 40, ThoroughCap: 900,
		RequiredProbes: []string{"account_created", "account_imported", "password_changed", "account_deleted", "restart_with_accounts", "wrong_password_rejected", "old_password_rejected",
			"wrong_password_operation_refused", "label_changed", "default_changed",
			"unlock_window_opened", "wrong_password_call_while_unlocked", "wrong_password_rejected_while_unlocked", "unlock_expired"},
		Generate: genC43,
		Execute:  execC43,
	})
}

func genC43(rng *kernel.RNG, idx int, tier string) *kernel.Plan {
	// One key derivation (scrypt N=16384,r=8,p=8) costs 0.25-0.4 s, so the budget of a run is
	// counted in derivations. Wallets switched to the low-security parameters (N=4096) are four
	// times cheaper and get a larger budget; half of them never call NewAccount (imports only).
	budget := 28 + rng.Intn(13)
	if tier == "thorough" {
		budget = 30 + rng.Intn(50)
	}
	cfg := map[string]int64{"lowsec": 0}
	importOnly := false
	if rng.Chance(0.4) {
		cfg["lowsec"] = 1
		importOnly = rng.Chance(0.8)
		budget *= 3
	}
	cfg["budget"] = int64(budget)
	restartP := []float64{0, 0.1, 0.2, 0.35}[rng.Intn(4)] // some runs never restart before the end
	wrongP := []float64{0, 0.2, 0.4}[rng.Intn(3)]
	pw := func() []int64 {
		li := int64(rng.Intn(len(pwLens)))
		if li == 0 && !rng.Chance(0.7) {
			li = int64(1 + rng.Intn(len(pwLens)-1)) // the empty password stays rare (about 4%)
		}
		return []int64{int64(rng.Intn(3)), li, int64(rng.Intn(4))}
	}
	var steps []kernel.Step
	cost, live := 0, 0
	for cost+2*live < budget && len(steps) < 80 {
		if len(steps) > 0 && rng.Chance(restartP) {
			steps = append(steps, st("restart"))
			cost += 2 * live
			continue
		}
		r := rng.Intn(100)
		switch {
		case live == 0 || (r < 22 && live < 5):
			k := int64(rng.Intn(len(keyKinds)))
			p := pw()
			if rng.Chance(0.3) || importOnly {
				steps = append(steps, st("import", k, int64(rng.Intn(len(labelTable))), p[0], p[1], p[2], int64(rng.Intn(3))))
				cost += 4
			} else {
				// scheme: usually one that fits the key type, sometimes any
				sch := int64(rng.Intn(len(allSchemes)))
				if rng.Chance(0.85) {
					for !schemeFits(keyKinds[k], allSchemes[sch]) {
						sch = int64(rng.Intn(len(allSchemes)))
					}
				}
				steps = append(steps, st("new", k, sch, int64(rng.Intn(len(labelTable))), p[0], p[1], p[2]))
				cost += 4
			}
			live++
		case r < 38:
			p := pw()
			mode := int64(0)
			if rng.Chance(wrongP) {
				mode = int64(1 + rng.Intn(6))
			}
			steps = append(steps, st("chpass", int64(rng.Intn(8)), mode, p[0], p[1], p[2]))
			cost += 6
		case r < 49:
			mode := int64(0)
			if rng.Chance(wrongP + 0.1) {
				mode = int64(1 + rng.Intn(6))
			}
			sel := int64(rng.Intn(8))
			if rng.Chance(0.6) {
				sel = int64(1 + rng.Intn(4)) // away from the first account, which usually is the (undeletable) default
			}
			steps = append(steps, st("delete", sel, mode))
			cost += 2
			if mode == 0 && live > 1 {
				live--
			}
		case r < 57:
			steps = append(steps, st("label", int64(rng.Intn(8)), int64(rng.Intn(len(labelTable)))))
			cost += 1
		case r < 64:
			steps = append(steps, st("default", int64(rng.Intn(8))))
			cost += 1
		case r < 68:
			steps = append(steps, st("sigscheme", int64(rng.Intn(8)), int64(rng.Intn(len(allSchemes)))))
			cost += 1
		case r < 79:
			mode := int64(0)
			if rng.Chance(wrongP * 0.5) {
				mode = int64(1 + rng.Intn(6))
			}
			sel := int64(rng.Intn(8))
			steps = append(steps, st("unlock", sel, int64(rng.Intn(len(unlockExpiries))), mode))
			cost += 2
			if mode == 0 {
				cost += 7 // the sweep of wrong passwords over every password-taking operation
				// often follow up on the same account: let the window expire (or not), then try wrong passwords again
				if rng.Chance(0.45) {
					steps = append(steps, st("tick", int64(rng.Intn(len(tickDurations)))))
					cost += 2
				}
				if rng.Chance(0.5) {
					steps = append(steps, st("get", sel, int64(rng.Intn(4)), int64(1+rng.Intn(6))))
					cost += 1
				}
			}
		case r < 82:
			steps = append(steps, st("lock", int64(rng.Intn(8))))
			cost += 1
		case r < 89:
			steps = append(steps, st("tick", int64(rng.Intn(len(tickDurations)))))
			cost += 1
		default:
			mode := int64(0)
			if rng.Chance(0.5) {
				mode = int64(1 + rng.Intn(6))
			}
			steps = append(steps, st("get", int64(rng.Intn(8)), int64(rng.Intn(4)), mode))
			cost += 1
		}
	}
	return &kernel.Plan{Cfg: cfg, Steps: steps}
}

// wrongFor picks a password that is not the account's (mode >= 1).
func (s *c43sim) wrongFor(m *macc, mode int64) (string, []byte) {
	names, pws := s.otherPasswords(m)
	j := int(abs64(mode-1) % int64(len(pws)))
	return names[j], pws[j]
}

// execC43 runs the whole case inside a synctest bubble: the wallet's unlock windows read
// time.Now(), which there is a fake clock moved only by the plan's "tick" steps.
func execC43(run *kernel.Run) {
	kernel.InBubble(func() { execC43Body(run) })
}

func execC43Body(run *kernel.Run) {
	p := run.Plan
	dir := kernel.TempDir("wallet")
	defer os.RemoveAll(dir)
	s := &c43sim{run: run, path: dir + "/wallet.dat", budget: int(p.C("budget", 50))}
	if s.budget < 10 {
		s.budget = 10
	}
	if s.budget > 400 {
		s.budget = 400
	}
	if !s.open("first open") {
		return
	}
	if p.C("lowsec", 0) != 0 {
		// exported API on the (still empty) wallet: switch it to the low-security scrypt parameters
		if err := s.cli.GetWalletData().ToLowSecurity(nil); err != nil {
			panic(err)
		}
		run.Probe("low_security_wallet")
		run.Logf("wallet switched to low-security scrypt parameters (N=%d)", s.cli.GetWalletData().Scrypt.N)
	}
	for i, stp := range p.Steps {
		if run.Failed() {
			break
		}
		if s.scrypt >= s.budget+s.budget/2 {
			run.Probe("budget_exhausted_steps_skipped")
			run.Logf("work cap reached after %d key derivations; remaining %d steps skipped", s.scrypt, len(p.Steps)-i)
			break
		}
		run.StepNo = i
		run.Steps++
		rng := kernel.NewRNG(kernel.Derive(p.Seed, "c43-probe", uint64(i)))
		a := stp.Arg
		why := fmt.Sprintf("after step %d %s", i, stp.Op)
		switch stp.Op {
		case "new":
			kind := keyKinds[int(abs64(a(0))%int64(len(keyKinds)))]
			scheme := allSchemes[int(abs64(a(1))%int64(len(allSchemes)))]
			label := labelOf(a(2))
			pw := pwBytes(p.Seed, a(3), a(4), a(5))
			var acc *account.Account
			var err error
			if !s.guard("NewAccount", func() { acc, err = s.cli.NewAccount(label, kind.typ, kind.curve, scheme, pw) }) {
				break
			}
			s.scrypt++
			if err != nil || acc == nil {
				s.note("new %s scheme=%s label=%q pw=%s -> refused", kind.name, scheme.Name(), label, pwTag(pw))
				if len(pw) > 0 && schemeFits(kind, scheme) {
					run.Probe("new_refused_other_reason")
				} else {
					run.Probe("new_refused_empty_password_or_scheme")
				}
				break
			}
			m := s.addAccount(kind, acc.PrivateKey, acc.PublicKey, pw, scheme.Name(), false)
			s.mutated()
			run.Probe("account_created")
			run.Probe("kind:" + kind.name)
			s.note("new %s scheme=%s label=%q pw=%s -> account #%d default=%v", kind.name, scheme.Name(), label, pwTag(pw), m.ord, m.def)
			if m.label != label {
				s.fail("label-mismatch", "%s: account #%d was created with label %q but lists %q", why, m.ord, label, m.label)
				break
			}
			if d := s.sameKey(m, acc); d != "" {
				s.fail("wrong-key-returned", "%s: NewAccount returned an inconsistent account: %s", why, d)
				break
			}
			s.verify(m, why, int64(rng.Intn(4)), 2, rng)
		case "import":
			kind := keyKinds[int(abs64(a(0))%int64(len(keyKinds)))]
			label := labelOf(a(1))
			pw := pwBytes(p.Seed, a(2), a(3), a(4))
			if len(pw) == 0 {
				pw = []byte("x") // a key file protected by the empty password cannot be produced by a wallet
			}
			pri := detKey(p.Seed, kind, abs64(a(5))%3)
			pub := pri.Public()
			addr := b58(types.AddressFromPubKey(pub))
			// The command line refuses to import an address that is already in the wallet; so does
			// the harness. Cfg "dupimport"=1 (never generated; for hand-written replay plans) lifts
			// the guard and lets ImportAccount see the duplicate.
			if md := s.cli.GetAccountMetadataByAddress(addr); md != nil && p.C("dupimport", 0) == 0 {
				run.Probe("import_skipped_address_exists")
				s.note("import %s key%d -> skipped, address already in the wallet", kind.name, abs64(a(5))%3)
				break
			}
			var prot *keypair.ProtectedKey
			var err error
			if !s.guard("EncryptWithCustomScrypt", func() { prot, err = keypair.EncryptWithCustomScrypt(pri, addr, pw, s.cli.GetWalletData().Scrypt) }) {
				break
			}
			s.scrypt++
			if err != nil {
				panic(err)
			}
			var scheme sig.SignatureScheme
			for _, c := range allSchemes {
				if schemeFits(kind, c) {
					scheme = c
					if rng.Chance(0.4) {
						break
					}
				}
			}
			meta := &account.AccountMetadata{Label: label, KeyType: prot.Alg, Curve: prot.Param["curve"], Address: prot.Address, PubKey: hex.EncodeToString(keypair.SerializePublicKey(pub)),
				SigSch: scheme.Name(), Salt: prot.Salt, Key: prot.Key, EncAlg: prot.EncAlg, Hash: prot.Hash}
			if !s.guard("ImportAccount", func() { err = s.cli.ImportAccount(meta) }) {
				break
			}
			if err != nil {
				run.Probe("import_refused")
				s.note("import %s key%d label=%q pw=%s -> refused", kind.name, abs64(a(5))%3, label, pwTag(pw))
				break
			}
			for _, o := range s.accs {
				if o.live && o.addr == addr {
					o.live = false // only reachable with dupimport: the new entry replaces the old one in the model
					o.def = false
				}
			}
			m := s.addAccount(kind, pri, pub, pw, scheme.Name(), true)
			s.mutated()
			run.Probe("account_imported")
			run.Probe("kind:" + kind.name)
			if m.label != label {
				run.Probe("import_label_renamed")
			}
			s.note("import %s key%d scheme=%s label=%q pw=%s -> account #%d label now %q default=%v", kind.name, abs64(a(5))%3, scheme.Name(), label, pwTag(pw), m.ord, m.label, m.def)
			s.verify(m, why, int64(rng.Intn(4)), 2, rng)
		case "label":
			m := s.pick(a(0))
			if m == nil {
				s.note("label: no account")
				break
			}
			label := labelOf(a(1))
			var err error
			if !s.guard("SetLabel", func() { err = s.cli.SetLabel(m.addr, label) }) {
				break
			}
			if err == nil {
				if m.label != label {
					run.Probe("label_changed")
					s.mutated()
				}
				m.label = label
			} else {
				run.Probe("label_refused")
			}
			s.note("label #%d -> %q ok=%v", m.ord, label, err == nil)
			if rng.Chance(0.5) {
				s.verify(m, why, 1, 0, rng)
			}
		case "default":
			m := s.pick(a(0))
			if m == nil {
				s.note("default: no account")
				break
			}
			var err error
			if !s.guard("SetDefaultAccount", func() { err = s.cli.SetDefaultAccount(m.addr) }) {
				break
			}
			if err == nil {
				if !m.def {
					run.Probe("default_changed")
					s.mutated()
				}
				for _, o := range s.accs {
					o.def = false
				}
				m.def = true
			}
			s.note("default #%d ok=%v", m.ord, err == nil)
			if rng.Chance(0.5) {
				s.verify(m, why, 3, 0, rng)
			}
		case "sigscheme":
			m := s.pick(a(0))
			if m == nil {
				s.note("sigscheme: no account")
				break
			}
			scheme := allSchemes[int(abs64(a(1))%int64(len(allSchemes)))]
			var err error
			if !s.guard("ChangeSigScheme", func() { err = s.cli.ChangeSigScheme(m.addr, scheme) }) {
				break
			}
			if err == nil {
				if m.scheme != scheme.Name() {
					s.mutated()
					run.Probe("scheme_changed")
				}
				m.scheme = scheme.Name()
			}
			s.note("sigscheme #%d -> %s ok=%v", m.ord, scheme.Name(), err == nil)
			if err == nil {
				s.verify(m, why, 0, 0, rng)
			}
		case "chpass":
			m := s.pick(a(0))
			if m == nil {
				s.note("chpass: no account")
				break
			}
			newPw := pwBytes(p.Seed, a(2), a(3), a(4))
			old, oldName := m.pw, "current"
			wrong := a(1) != 0
			if wrong {
				oldName, old = s.wrongFor(m, a(1))
			}
			var err error
			before := s.snap()
			if wrong {
				s.wrongCall(m)
			}
			if !s.guard("ChangePassword", func() { err = s.cli.ChangePassword(m.addr, old, newPw) }) {
				break
			}
			s.scrypt += 2
			s.note("chpass #%d old=%s(%s) new=%s -> ok=%v", m.ord, oldName, safeTag(oldName, old), pwTag(newPw), err == nil)
			if wrong {
				if err == nil && !bytes.Equal(old, newPw) {
					s.fail("wrong-password-accepted", "%s: ChangePassword on account #%d succeeded with a wrong old password (%s)", why, m.ord, oldName)
					break
				}
				if err != nil {
					run.Probe("wrong_password_operation_refused")
				} else {
					run.Probe("chpass_old_equals_new_noop")
				}
				if !s.unchanged(before, why, "ChangePassword") {
					break
				}
				s.verify(m, why, 0, 0, rng) // nothing changed: still opens with its password
				break
			}
			if err == nil && !bytes.Equal(old, newPw) {
				m.history = append(m.history, m.pw)
				m.pw = append([]byte{}, newPw...)
				s.mutated()
				run.Probe("password_changed")
				if len(newPw) == 0 {
					run.Probe("password_changed_to_empty")
				}
			} else if err != nil {
				run.Probe("chpass_refused")
			}
			s.verify(m, why, int64(rng.Intn(4)), 3, rng)
		case "delete":
			m := s.pick(a(0))
			if m == nil {
				s.note("delete: no account")
				break
			}
			pw, pwName := m.pw, "current"
			wrong := a(1) != 0
			if wrong {
				pwName, pw = s.wrongFor(m, a(1))
			}
			var acc *account.Account
			var err error
			before := s.snap()
			if wrong {
				s.wrongCall(m)
			}
			if !s.guard("DeleteAccount", func() { acc, err = s.cli.DeleteAccount(m.addr, pw) }) {
				break
			}
			s.scrypt++
			s.note("delete #%d default=%v pw=%s -> deleted=%v", m.ord, m.def, pwName, err == nil && acc != nil)
			if wrong {
				if err == nil {
					s.fail("wrong-password-accepted", "%s: DeleteAccount on account #%d succeeded with a wrong password (%s)", why, m.ord, pwName)
					break
				}
				run.Probe("wrong_password_operation_refused")
				if !s.unchanged(before, why, "DeleteAccount") {
					break
				}
				if !m.def {
					s.verify(m, why, 0, 0, rng)
				}
				break
			}
			if err == nil && acc != nil {
				if d := s.sameKey(m, acc); d != "" {
					s.fail("wrong-key-returned", "%s: DeleteAccount returned another account than #%d: %s", why, m.ord, d)
					break
				}
				m.live = false
				m.def = false
				m.unlocked = false
				s.mutated()
				run.Probe("account_deleted")
				if a2, e2 := s.cli.GetAccountByAddress(m.addr, m.pw); a2 != nil || e2 != nil {
					s.fail("deleted-account-present", "%s: deleted account #%d can still be opened (acc=%v err=%v)", why, m.ord, a2 != nil, e2 != nil)
				}
			} else {
				run.Probe("delete_refused")
			}
		case "get":
			m := s.pick(a(0))
			if m == nil {
				s.note("get: no account")
				break
			}
			if a(2) == 0 {
				s.note("get #%d via=%d correct password", m.ord, abs64(a(1))%4)
				s.verify(m, why, a(1), 0, rng)
				break
			}
			name, pw := s.wrongFor(m, a(2))
			var acc *account.Account
			var err error
			var path string
			s.wrongCall(m)
			if !s.guard("GetAccount", func() { acc, err, path = s.decrypt(m, a(1), pw) }) {
				break
			}
			s.note("get #%d via=%s with %s -> opened=%v", m.ord, path, name, acc != nil && err == nil)
			if err == nil || acc != nil {
				s.fail("other-password-accepted", "%s: account #%d with password %s was opened by %s with another password (%s, %s)", why, m.ord, pwTag(m.pw), path, name, safeTag(name, pw))
				break
			}
			s.wrongRejected++
			run.Probe("wrong_password_rejected")
		case "unlock":
			m := s.pick(a(0))
			if m == nil {
				s.note("unlock: no account")
				break
			}
			exp := unlockExpiries[int(abs64(a(1))%int64(len(unlockExpiries)))]
			pw, pwName := m.pw, "current"
			wrong := a(2) != 0
			if wrong {
				pwName, pw = s.wrongFor(m, a(2))
				s.wrongCall(m)
			}
			var err error
			before := s.snap()
			if !s.guard("UnLockAccount", func() { err = s.cli.UnLockAccount(m.addr, exp, pw) }) {
				break
			}
			s.scrypt++
			s.note("unlock #%d for %ds pw=%s (window open before: %v) -> ok=%v", m.ord, exp, pwName, s.isUnlocked(m), err == nil)
			if wrong {
				if err == nil {
					s.fail("wrong-password-accepted", "%s: UnLockAccount on account #%d (unlock window open: %v) succeeded with a wrong password (%s)", why, m.ord, s.isUnlocked(m), pwName)
					break
				}
				run.Probe("wrong_password_operation_refused")
				s.unchanged(before, why, "UnLockAccount")
				break // the model's window is unchanged; the cheap check notices a renewed or opened one
			}
			if err != nil {
				run.Probe("unlock_refused")
				break
			}
			m.unlocked, m.unlockAt, m.unlockFor = true, s.now, time.Duration(exp)*time.Second
			run.Fault("unlock")
			if exp > 0 {
				run.Probe("unlock_window_opened")
			}
			s.unlockedSweep(m, why, rng)
		case "lock":
			m := s.pick(a(0))
			if m == nil {
				s.note("lock: no account")
				break
			}
			was := s.isUnlocked(m)
			if !s.guard("LockAccount", func() { s.cli.LockAccount(m.addr) }) {
				break
			}
			m.unlocked = false
			if was {
				run.Fault("lock")
			}
			s.note("lock #%d (window was open: %v)", m.ord, was)
			if was && s.scrypt < s.budget {
				// locked again: a wrong password is refused, the right one works
				s.verify(m, why, int64(rng.Intn(4)), 1, rng)
			}
		case "tick":
			d := tickDurations[int(abs64(a(0))%int64(len(tickDurations)))]
			var open []*macc
			for _, m := range s.live() {
				if s.isUnlocked(m) {
					open = append(open, m)
				}
			}
			kernel.Advance(d)
			s.now += d
			run.SimTimeMs += int64(d / time.Millisecond)
			run.Fault("clock_advance")
			expired := 0
			for _, m := range open {
				if !s.isUnlocked(m) {
					expired++
					run.Fault("unlock_expired")
				}
			}
			s.note("tick %v: %d of %d open unlock windows expired", d, expired, len(open))
			for _, m := range open {
				if !s.isUnlocked(m) && s.scrypt < s.budget {
					s.verify(m, why, int64(rng.Intn(4)), 1, rng)
				}
			}
		case "restart":
			s.restart(why, rng, 1, "restart")
		default:
			s.note("unknown op %s ignored", stp.Op)
		}
		if run.Failed() {
			break
		}
		if !s.cheap(why) {
			break
		}
		s.state()
	}
	if !run.Failed() {
		run.StepNo = len(p.Steps)
		rng := kernel.NewRNG(kernel.Derive(p.Seed, "c43-probe", uint64(len(p.Steps))))
		if s.restart("final restart", rng, 1, "final_restart") {
			s.cheap("final restart")
		}
	}
	run.Probes["__evals"] = s.scrypt
	if s.created >= 2 && s.restartAfterMutation && s.restartsWithAccounts > 0 && s.wrongRejected > 0 {
		run.Nontrivial(s.sig)
	}
	var ps []string
	for _, x := range p.Steps {
		ps = append(ps, x.String())
	}
	run.Sample = map[string]interface{}{"low_security_wallet": p.C("lowsec", 0) != 0, "accounts_created": s.created, "live_at_end": len(s.live()), "key_derivations": s.scrypt, "plan": ps}
}

var unlockExpiries = []int{0, 1, 2, 5, 60, 3600, -1}
var tickDurations = []time.Duration{500 * time.Millisecond, time.Second, 2 * time.Second, 5 * time.Second, 61 * time.Second, time.Hour}

// unlockedSweep runs right after a successful UnLockAccount: every password-taking operation
// (the four getters, DeleteAccount, UnLockAccount) is given the empty password and one other
// sampled wrong password (another account's, a near miss, a previous one) and must refuse and
// leave the wallet file untouched; then the right password must still give the same key.
// The outcome of a password-taking call never depends on the unlock window.
func (s *c43sim) unlockedSweep(m *macc, why string, rng *kernel.RNG) bool {
	names, pws := s.otherPasswords(m)
	// preference order of the costly candidate: rotate between other account's / near miss / previous
	var costly []int
	for j, n := range names {
		if n != "empty" {
			costly = append(costly, j)
		}
	}
	pickCostly := func() int { return costly[rng.Intn(len(costly))] }
	before := s.snap()
	refuse := func(op, pwName string, call func() (bool, error, string)) bool {
		s.wrongCall(m)
		var opened bool
		var err error
		var detail string
		if !s.guard(op, func() { opened, err, detail = call() }) {
			return false
		}
		pwName += detail
		if opened || err == nil {
			key := "other-password-accepted"
			if op == "DeleteAccount" || op == "UnLockAccount" {
				key = "wrong-password-accepted"
			}
			s.fail(key, "%s: while account #%d (%s) is unlocked, %s accepted a wrong password (%s)", why, m.ord, m.kind, op, pwName)
			return false
		}
		s.wrongRejected++
		s.run.Probe("wrong_password_rejected")
		s.run.Probe("wrong_password_rejected_while_unlocked")
		return s.unchanged(before, why, op)
	}
	for via := int64(0); via < 4; via++ {
		tries := []int{-1} // -1 = empty password (free: refused before any key derivation)
		if s.scrypt < s.budget+s.budget/4 {
			tries = append(tries, pickCostly())
		}
		for _, j := range tries {
			var pw []byte
			name := "empty"
			if j >= 0 {
				pw, name = pws[j], names[j]
			}
			v := via
			ok := refuse("GetAccount", name, func() (bool, error, string) {
				acc, err, path := s.decrypt(m, v, pw)
				return acc != nil, err, ", lookup by " + path
			})
			if j < 0 {
				s.scrypt-- // decrypt() counted a derivation that the empty password never reaches
			}
			if !ok {
				return false
			}
		}
	}
	for _, op := range []string{"DeleteAccount", "UnLockAccount"} {
		tries := []int{-1}
		if s.scrypt < s.budget+s.budget/4 {
			tries = append(tries, pickCostly())
			s.scrypt++
		}
		for _, j := range tries {
			var pw []byte
			name := "empty"
			if j >= 0 {
				pw, name = pws[j], names[j]
			}
			o := op
			if !refuse(op, name, func() (bool, error, string) {
				if o == "DeleteAccount" {
					acc, err := s.cli.DeleteAccount(m.addr, pw)
					return acc != nil, err, ""
				}
				return false, s.cli.UnLockAccount(m.addr, 3600, pw), ""
			}) {
				return false
			}
		}
	}
	s.note("unlocked sweep #%d: all password-taking operations refused wrong passwords", m.ord)
	return s.verify(m, why, int64(rng.Intn(4)), 0, rng)
}

func (s *c43sim) mutated() { s.mutations++; s.mutatedSinceRestart = true }

// restart drops the client object and reopens the wallet from its file, then checks every
// account.
func (s *c43sim) restart(why string, rng *kernel.RNG, nWrong int, kind string) bool {
	s.cli = nil
	if !s.open(why) {
		return false
	}
	s.run.Fault(kind)
	for _, m := range s.accs {
		m.unlocked = false // unlock windows are process memory
	}
	live := s.live()
	if len(live) > 0 {
		s.restartsWithAccounts++
		s.run.Probe("restart_with_accounts")
		if s.mutatedSinceRestart {
			s.restartAfterMutation = true
			s.run.Probe("restart_after_mutation")
		}
	}
	s.mutatedSinceRestart = false
	s.note("%s: reopened, %d live accounts", kind, len(live))
	if !s.cheap(why) {
		return false
	}
	for _, m := range live {
		if !s.verify(m, why, int64(rng.Intn(4)), nWrong, rng) {
			return false
		}
	}
	return true
}
