package btcsel

import (
	"fmt"

	"github.com/btcsuite/btcd/chaincfg/chainhash"
	"github.com/btcsuite/btcd/wire"
	"github.com/polynetwork/poly/account"
	"github.com/polynetwork/poly/core/types"
	ccom "github.com/polynetwork/poly/native/service/cross_chain_manager/common"

	"polysim/chain"
	"polysim/engines/e1"
	"polysim/engines/lc"
	"polysim/kernel"
)

// C20 depositor for the BTC router: a history of real Bitcoin deposits (SPV-proved through
// ImportOuterTransfer -> btc.MakeDepositProposal) in which every accepted message
// (source chain, cross-chain id = txid) is replayed later in several forms:
//
//	(a) the identical relay-chain transaction again / the identical entrance parameter bytes in a
//	    fresh relayer transaction;
//	(b) another valid proof: the same Bitcoin transaction mined again in a later block (other
//	    height, other merkle proof), or proven in its block by a partial merkle tree that also
//	    matches a neighbour;
//	(c) a re-encoding: the same transaction with witness stacks attached (BIP-144; same txid,
//	    other wtxid) or stripped of them, the same proof with a padding bit of its flag bytes
//	    set, or with other bytes in the header embedded in the merkleblock message (the
//	    verifier uses the synced header of the claimed height, not the embedded one);
//	(d) forged: the payload altered (amount / target address) but submitted with the accepted
//	    message's proof and height.
//
// Never-accepted messages (transaction not in the proven block, corrupted proof, height not yet
// confirmed / unknown, no contract binding for the target chain) must not get a done mark.
type depositor struct{}

func (depositor) Router() string { return "btc" }

func init() { lc.RegisterDepositor(depositor{}) }

const (
	formSameTx = iota
	formSameParam
	formRemined
	formWiderProof
	formWitness
	formPaddedProof
	formForged
	formProofHeader
	nForms
)

var formName = [...]string{"a_identical_transaction", "a_same_parameter_fresh_transaction", "b_mined_again_other_height", "b_other_partial_merkle_tree",
	"c_witness_reencoding_bip144", "c_proof_padding_bit", "d_forged_payload", "c_proof_with_other_embedded_header"}

func (depositor) GenerateReplay(rng *kernel.RNG, tier string) *kernel.Plan {
	cfg := map[string]int64{"nvals": int64(rng.Range(4, 7)), "followers": int64(pickW(rng, 60, 30, 10)), "net": 0, // main net: the property's scope
		"maxview": []int64{7, 40, 100000}[rng.Intn(3)], "btcid": int64(rng.Intn(3)), "srcoff": int64(rng.Intn(3)), "wait": int64(pickW(rng, 50, 30, 20)),
		"base": int64(rng.Intn(700000)), "nkeys": int64(pickW(rng, 70, 30)), "shape0": int64(rng.Intn(len(vaultShapes))), "shape1": int64(rng.Intn(len(vaultShapes))), "reexec": 1}
	if rng.Chance(0.15) {
		cfg["net"] = int64(rng.Range(1, 2)) // test / private net: the BTC handler applies the same rule there
	}
	dep := func() kernel.Step {
		// [value, kind, original carries witness, decoys, same-block replay form or -1, key, first encoding or -1]
		pair := int64(-1)
		if rng.Chance(0.3) {
			pair = int64(pickFrom(rng, []int{formSameParam, formWitness, formWiderProof, formPaddedProof, formForged, formProofHeader}))
		}
		enc := int64(-1) // encoding of the FIRST submission: plain, or one of the equivalent proof encodings
		if rng.Chance(0.35) {
			enc = int64(pickFrom(rng, []int{formWiderProof, formPaddedProof, formProofHeader}))
		}
		return kernel.Step{Op: "dep", A: []int64{genValue(rng), int64(rng.Intn(nKinds)), int64(rng.Intn(2)), int64(rng.Intn(6)), pair, int64(rng.Intn(2)), enc}}
	}
	steps := []kernel.Step{dep()}
	n := rng.Range(6, 16)
	if tier == "thorough" {
		n = rng.Range(6, 30)
	}
	for i := 0; i < n; i++ {
		switch pickW(rng, 22, 52, 12, 7, 7) {
		case 0:
			steps = append(steps, dep())
		case 1:
			steps = append(steps, kernel.Step{Op: "replay", A: []int64{int64(rng.Intn(64)), int64(pickW(rng, 8, 10, 17, 11, 24, 9, 13, 8)), int64(rng.Intn(5))}})
		case 2:
			steps = append(steps, kernel.Step{Op: "bad", A: []int64{genValue(rng), int64(rng.Intn(nKinds)), int64(rng.Intn(5)), int64(rng.Intn(2))}})
		case 3:
			steps = append(steps, kernel.Step{Op: "blocks", A: []int64{int64(rng.Range(1, 3))}})
		case 4:
			steps = append(steps, kernel.Step{Op: "restart", A: []int64{int64(rng.Intn(3))}})
		}
	}
	return &kernel.Plan{Cfg: cfg, Steps: steps}
}

// c20msg is one Bitcoin deposit (= one cross-chain message, id = txid).
type c20msg struct {
	tx       *wire.MsgTx // without witness data
	wit      bool        // the form first submitted carries witness stacks
	height   uint32
	pos      int
	height2  uint32 // second inclusion (form b), 0 = none yet
	pos2     int
	accepted int
	first    *types.Transaction // the relay-chain transaction that was accepted
	valid    bool               // a well-formed, provable deposit (false: never acceptable)
}

type c20world struct {
	*world
	msgs  []*c20msg
	never []chainhash.Hash // ids that must never get a done mark
	sig   []byte
}

func (depositor) ExecuteReplay(run *kernel.Run) {
	p := run.Plan
	nvals := 4 + pickIdx(p.C("nvals", 4)-4, 4)
	nets := []uint32{1, 2, 77}
	h, err := e1.NewHarness(run, nvals, pickIdx(p.C("followers", 0), 3), nets[pickIdx(p.C("net", 0), 3)], uint32(1+abs(p.C("maxview", 100000))))
	if err != nil {
		panic(err)
	}
	defer h.Close()
	w := &world{run: run, h: h, seed: p.Seed, btcID: 1 + uint64(pickIdx(p.C("btcid", 0), 3)), wait: 1 + uint64(pickIdx(p.C("wait", 0), 3)),
		noModel: true, everSelected: map[outpoint]int{}, changeOps: map[outpoint]bool{}, bound: []byte{0xb0, 0x0c, byte(p.Seed), 0x11, 0x22}}
	w.srcID = w.btcID + 1 + uint64(pickIdx(p.C("srcoff", 0), 3))
	w.btc = newBtcChain(p.Seed, uint32(abs(p.C("base", 0))%1000000))
	nk := 1 + pickIdx(p.C("nkeys", 0), 2)
	for i := 0; i < nk; i++ {
		sh := vaultShapes[pickIdx(p.C(fmt.Sprintf("shape%d", i), 3), len(vaultShapes))]
		w.keys = append(w.keys, newKeyModel(newVault(p.Seed, i, sh[0], sh[1])))
	}
	run.StepNo = -1
	if !w.setup() {
		return
	}
	c := &c20world{world: w}
	for i, st := range p.Steps {
		run.StepNo = i
		run.Steps++
		ok := true
		switch st.Op {
		case "dep":
			ok = c.deposit(st)
		case "replay":
			ok = c.replay(st)
		case "bad":
			ok = c.bad(st)
		case "blocks":
			for j := 0; j < 1+pickIdx(st.Arg(0), 3) && ok; j++ {
				w.btc.addBlock([]chainhash.Hash{w.btc.decoyID()})
				ok = c.syncTip()
			}
		case "restart":
			if err := h.Restart(pickIdx(st.Arg(0), 3)); err != nil {
				run.Fail("C12", "clean-restart-failed", "restart failed: %v", err)
				return
			}
			run.Probe("c20_restart_between_deposit_and_replay")
			ok = c.checkMarks(h.View(), "after a clean restart")
		}
		if !ok || run.Failed() {
			return
		}
	}
	nacc, nrep := run.Probes["c20_deposit_accepted:btc"], run.Probes["c20_replay_rejected:btc"]
	if nacc > 0 && nrep > 0 {
		run.Nontrivial(c.sig)
	}
	if nacc+nrep > 1 {
		run.Probes["__evals"] = nacc + nrep
	}
	run.Sample = map[string]interface{}{"router": "btc", "deposits_accepted": nacc, "replays_rejected": nrep, "plan": planStrings(p)}
}

func (c *c20world) fail(key, f string, a ...interface{}) {
	c.run.Fail("C20", key+":btc", f, a...)
}

func done(v e1.View, chainID uint64, id chainhash.Hash) bool { return v.Done(chainID, id[:]) }

// checkMarks: every accepted message has its done mark, no never-accepted id has one.
func (c *c20world) checkMarks(v e1.View, where string) bool {
	for _, m := range c.msgs {
		id := m.tx.TxHash()
		has := done(v, c.btcID, id)
		if m.accepted > 0 && !has {
			c.fail("done-mark-missing", "%s: message (chain %d, id %s) was accepted but has no done mark", where, c.btcID, id)
			return false
		}
		if m.accepted == 0 && has {
			c.fail("done-mark-without-acceptance", "%s: message (chain %d, id %s) was never accepted but has a done mark", where, c.btcID, id)
			return false
		}
	}
	for _, id := range c.never {
		if done(v, c.btcID, id) {
			c.fail("done-mark-without-acceptance", "%s: id %s (chain %d) was never accepted but has a done mark", where, id, c.btcID)
			return false
		}
	}
	return true
}

// sub is one submission: a relay-chain transaction and what it carries.
type sub struct {
	tx     *types.Transaction
	m      *c20msg // the message it claims (nil: unrelated helper transaction)
	form   int     // -1 first submission, else replay form
	forged bool    // altered payload / unprovable: must fail whatever happened before
	enc    int     // first submissions: proof encoding used (0 = plain)
}

// submit commits the submissions in one block and judges every one of them.
func (c *c20world) submit(subs ...sub) bool {
	var txs []*types.Transaction
	for _, s := range subs {
		txs = append(txs, s.tx)
	}
	good := true
	_, ok := c.h.ExecInspect(func(tr []*e1.TxTrace) {
		for i, t := range tr {
			if i >= len(subs) || !good {
				return
			}
			good = c.judge(t, subs[i])
		}
	}, txs...)
	if !ok || !good || c.run.Failed() {
		return false
	}
	return c.checkMarks(c.h.View(), "after the commit of the block")
}

func (c *c20world) judge(t *e1.TxTrace, s sub) bool {
	run := c.run
	if s.m == nil {
		return true
	}
	id := s.m.tx.TxHash()
	what := "first submission"
	if s.form >= 0 {
		what = "replay form " + formName[s.form]
	}
	c.sig = append(c.sig, byte(s.form+1), b2(t.OK))
	switch {
	case t.OK && (s.forged || !s.m.valid):
		c.fail("accepted-twice", "%s of message (chain %d, id %s) succeeded although its payload/proof is forged: it rode on an accepted message's proof or was never provable", what, c.btcID, id)
		return false
	case t.OK && s.m.accepted > 0:
		c.fail("accepted-twice", "message (chain %d, id %s) accepted again at tx %d of block %d by %s (events %d, cross-chain records %d)", c.btcID, id, t.Index, t.Height, what, len(t.Events), len(t.Cross))
		return false
	case t.OK:
		s.m.accepted++
		s.m.first = s.tx
		run.Probe("c20_deposit_accepted:btc")
		if s.form >= 0 {
			run.Probe("c20_first_acceptance_through_replay_form:btc")
		}
		if s.enc > 0 {
			run.Probe("c20_deposit_accepted_encoded_as_" + formName[s.enc] + ":btc")
		}
		if s.m.wit {
			run.Probe("c20_deposit_accepted_with_witness_data:btc")
		}
		if !done(t.Post, c.btcID, id) {
			c.fail("done-mark-missing", "message (chain %d, id %s) accepted at tx %d of block %d (%s) but the done record doneTx|chain|id is absent right after it", c.btcID, id, t.Index, t.Height, what)
			return false
		}
		run.Logf("accepted %s (%s, witness=%v)", id.String()[:12], what, s.m.wit)
	default:
		if len(t.Writes) != 0 || len(t.Events) != 0 || len(t.Cross) != 0 {
			c.fail("replay-changed-state", "refused %s of message (chain %d, id %s) left %d writes, %d events, %d cross-chain records", what, c.btcID, id, len(t.Writes), len(t.Events), len(t.Cross))
			return false
		}
		switch {
		case s.m.accepted > 0 || s.forged:
			run.Probe("c20_replay_rejected:btc")
			if s.form >= 0 {
				run.Probe("c20_replay_rejected_" + formName[s.form] + ":btc")
			}
		case !s.m.valid:
			run.Probe("c20_invalid_message_rejected:btc")
		default:
			run.Probe("c20_valid_deposit_rejected:btc")
		}
		if s.m.accepted == 0 && done(t.Post, c.btcID, id) {
			c.fail("done-mark-without-acceptance", "refused %s of message (chain %d, id %s): a done mark exists although it was never accepted", what, c.btcID, id)
			return false
		}
		run.Logf("refused %s of %s (accepted before: %d)", what, id.String()[:12], s.m.accepted)
	}
	return true
}

func b2(b bool) byte {
	if b {
		return 1
	}
	return 0
}

func (c *c20world) syncTip() bool { return c.world.syncHeaders(c.btc.tip()) }

// withWitness returns a copy of tx carrying (arbitrary) witness stacks: same txid, other wtxid.
func withWitness(tx *wire.MsgTx, salt byte) *wire.MsgTx {
	cp := tx.Copy()
	for i := range cp.TxIn {
		cp.TxIn[i].Witness = wire.TxWitness{[]byte{0x30, 0x44, salt, byte(i)}, []byte{0x02, salt}}
	}
	return cp
}

func (c *c20world) entrance(height uint32, proof, raw []byte, rel *account.Account) *types.Transaction {
	p := &ccom.EntranceParam{SourceChainID: c.btcID, Height: height, Proof: proof, RelayerAddress: rel.Address[:], Extra: raw}
	return c.h.Signed(chain.CrossChain, ccom.IMPORT_OUTER_TRANSFER_NAME, chain.Args(p), rel)
}

func (c *c20world) raw(m *c20msg, witness bool) []byte {
	if witness {
		return txBytes(withWitness(m.tx, byte(len(c.msgs))))
	}
	return txBytes(m.tx)
}

// mine puts the transaction ids into a fresh Bitcoin block (with decoys), confirms it and syncs
// the headers; returns height and the positions of ids.
func (c *c20world) mine(decoys int, ids ...chainhash.Hash) (uint32, []int, bool) {
	all := []chainhash.Hash{c.btc.decoyID()}
	var pos []int
	for i, id := range ids {
		if i < decoys {
			all = append(all, c.btc.decoyID())
		}
		pos = append(pos, len(all))
		all = append(all, id)
	}
	for i := len(ids); i < decoys; i++ {
		all = append(all, c.btc.decoyID())
	}
	first := c.btc.tip() + 1
	height := c.btc.addBlock(all)
	for k := uint64(1); k < c.wait; k++ {
		c.btc.addBlock([]chainhash.Hash{c.btc.decoyID()})
	}
	return height, pos, c.world.syncHeaders(first)
}

// variant builds the submission of message m in the given replay form (nil if the form is not
// available for it, e.g. no neighbour in its block).
func (c *c20world) variant(m *c20msg, form int, rel *account.Account) (*sub, bool) {
	s := &sub{m: m, form: form}
	switch form {
	case formSameTx:
		if m.first == nil {
			return nil, true
		}
		s.tx = m.first
	case formSameParam:
		s.tx = c.entrance(m.height, c.btc.proof(m.height, m.pos), c.raw(m, m.wit), rel)
	case formRemined:
		if m.height2 == 0 {
			ht, pos, ok := c.mine(int(m.height%4), m.tx.TxHash())
			if !ok {
				return nil, false
			}
			m.height2, m.pos2 = ht, pos[0]
		}
		s.tx = c.entrance(m.height2, c.btc.proof(m.height2, m.pos2), c.raw(m, m.wit), rel)
	case formWiderProof:
		n := len(c.btc.blocks[m.height])
		if n < 2 {
			return nil, true
		}
		s.tx = c.entrance(m.height, c.btc.proofOf(m.height, []int{m.pos, (m.pos + 1) % n}, false), c.raw(m, m.wit), rel)
	case formWitness:
		s.tx = c.entrance(m.height, c.btc.proof(m.height, m.pos), c.raw(m, !m.wit), rel)
	case formPaddedProof:
		p, q := c.btc.proof(m.height, m.pos), c.btc.proofOf(m.height, []int{m.pos}, true)
		if string(p) == string(q) {
			return nil, true
		}
		s.tx = c.entrance(m.height, q, c.raw(m, m.wit), rel)
	case formProofHeader:
		// the merkleblock message embeds a header that the verifier does not use (it takes the
		// synced header of the claimed height): other nonce/version bytes, same proof otherwise
		q := c.btc.proof(m.height, m.pos)
		q[0] ^= 0x04
		q[77] ^= 0x5a
		s.tx = c.entrance(m.height, q, c.raw(m, m.wit), rel)
	case formForged:
		f := m.tx.Copy()
		f.TxOut[0].Value += 1000
		if m.height%2 == 0 {
			f.TxOut[1].PkScript = append([]byte{}, f.TxOut[1].PkScript...)
			f.TxOut[1].PkScript[len(f.TxOut[1].PkScript)-1] ^= 0x55 // other target address
		}
		c.never = append(c.never, f.TxHash())
		s.forged = true
		s.tx = c.entrance(m.height, c.btc.proof(m.height, m.pos), txBytes(f), rel)
	default:
		return nil, true
	}
	return s, true
}

// deposit: A = [value, kind, witness, decoys, same-block replay form or -1, key].
func (c *c20world) deposit(st kernel.Step) bool {
	val := abs(st.Arg(0))
	if val < 1 {
		val = 1
	}
	if val > 2_000_000_000_000 {
		val = 2_000_000_000_000
	}
	v := c.keys[pickIdx(st.Arg(5), len(c.keys))].v
	m := &c20msg{tx: c.btc.depositTx(v, pickIdx(st.Arg(1), nKinds), val, c.srcID), wit: abs(st.Arg(2))%2 == 1, valid: true}
	ht, pos, ok := c.mine(pickIdx(st.Arg(3), 6), m.tx.TxHash())
	if !ok {
		return false
	}
	m.height, m.pos = ht, pos[0]
	c.msgs = append(c.msgs, m)
	rel := c.h.User(3)
	subs := []sub{{tx: c.entrance(m.height, c.btc.proof(m.height, m.pos), c.raw(m, m.wit), rel), m: m, form: -1}}
	if e := st.Arg(6); e >= 0 {
		if f := pickIdx(e, nForms); f == formWiderProof || f == formPaddedProof || f == formProofHeader {
			if s, _ := c.variant(m, f, rel); s != nil {
				s.form, s.enc = -1, f
				subs[0] = *s
			}
		}
	}
	if f := st.Arg(4); f >= 0 && pickIdx(f, nForms) != formSameTx && pickIdx(f, nForms) != formRemined {
		// the replay travels in the same block, right behind the original
		s, ok := c.variant(m, pickIdx(f, nForms), c.h.User(2))
		if !ok {
			return false
		}
		if s != nil {
			subs = append(subs, *s)
			c.run.Probe("c20_replay_in_same_block_as_original:btc")
		}
	}
	return c.submit(subs...)
}

// replay: A = [which, form, relayer].
func (c *c20world) replay(st kernel.Step) bool {
	if len(c.msgs) == 0 {
		return true
	}
	m := c.msgs[pickIdx(st.Arg(0), len(c.msgs))]
	if !m.valid {
		return true
	}
	s, ok := c.variant(m, pickIdx(st.Arg(1), nForms), c.h.User(int(abs(st.Arg(2))%5)))
	if !ok {
		return false
	}
	if s == nil {
		c.run.Logf("replay form %s not available for this message", formName[pickIdx(st.Arg(1), nForms)])
		return true
	}
	if s.form == formSameTx {
		c.run.Fault("identical_transaction_resubmitted")
	}
	return c.submit(*s)
}

// bad: A = [value, kind, how, witness]: a message that can never be accepted.
func (c *c20world) bad(st kernel.Step) bool {
	val := abs(st.Arg(0))%2_000_000_000_000 + 1
	v := c.keys[0].v
	m := &c20msg{tx: c.btc.depositTx(v, pickIdx(st.Arg(1), nKinds), val, c.srcID), wit: abs(st.Arg(3))%2 == 1}
	rel := c.h.User(1)
	var tx *types.Transaction
	switch how := pickIdx(st.Arg(2), 5); how {
	case 0: // not in the block it claims: proof of a neighbour
		ht, pos, ok := c.mine(2, c.btc.decoyID())
		if !ok {
			return false
		}
		tx = c.entrance(ht, c.btc.proof(ht, pos[0]), c.raw(m, m.wit), rel)
	case 1, 2: // mined, but the proof is corrupted (a bit of its first / last hash flipped)
		ht, pos, ok := c.mine(3, m.tx.TxHash())
		if !ok {
			return false
		}
		pr := c.btc.proof(ht, pos[0])
		if how == 1 {
			pr[90] ^= 1 // inside the first hash
		} else {
			pr[85+32*int(pr[84])-1] ^= 0x80 // last byte of the last hash
		}
		tx = c.entrance(ht, pr, c.raw(m, m.wit), rel)
	case 3: // mined in a block the light client has not been told about
		ht := c.btc.tip() + 1
		all := []chainhash.Hash{c.btc.decoyID(), m.tx.TxHash()}
		tmp := *c.btc
		tmp.headers = append([]wire.BlockHeader{}, c.btc.headers...)
		tmp.blocks = map[uint32][]chainhash.Hash{}
		tmp.addBlock(all)
		tx = c.entrance(ht, tmp.proof(ht, 1), c.raw(m, m.wit), rel)
	default: // valid proof, but the OP_RETURN names a target chain without contract binding
		m.tx = c.btc.depositTx(v, pickIdx(st.Arg(1), nKinds), val, c.srcID+17)
		ht, pos, ok := c.mine(1, m.tx.TxHash())
		if !ok {
			return false
		}
		tx = c.entrance(ht, c.btc.proof(ht, pos[0]), c.raw(m, m.wit), rel)
	}
	c.msgs = append(c.msgs, m)
	return c.submit(sub{tx: tx, m: m, form: -1})
}
