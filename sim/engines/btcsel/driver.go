package btcsel

import (
	"github.com/btcsuite/btcd/chaincfg/chainhash"
	"github.com/polynetwork/poly/core/types"
	hscom "github.com/polynetwork/poly/native/service/header_sync/common"
	"github.com/polynetwork/poly/native/service/utils"

	"polysim/chain"
	"polysim/engines/e1"
	"polysim/engines/lc"
)

// lc.Driver for the BTC router (regtest parameters): used by the router-generic checks
// (C19: trust root installed at most once). Header acceptance of this router does not read
// the wall clock, so FutureHeader returns nil.
type driver struct{}

func (driver) Name() string   { return "btc" }
func (driver) Router() uint64 { return utils.BTC_ROUTER }

func (driver) NewChain(h *e1.Harness, chainID uint64, seed uint64) (lc.Chain, error) {
	if err := h.RegisterChain(chainID, utils.BTC_ROUTER, "btc", 1, ccmcOfNet(utils.TyRegtest), nil); err != nil {
		return nil, err
	}
	base := uint32(seed % 500000)
	return &lcChain{h: h, id: chainID, c: newBtcChain(seed, base), alt: newBtcChain(seed^0x5a5a5a5a, base+1)}, nil
}

type lcChain struct {
	h       *e1.Harness
	id      uint64
	c, alt  *btcChain
	relayer int
}

func (x *lcChain) GenesisTx(variant int) *types.Transaction {
	g := x.c.genesisParam() // variant 2: the encoding is canonical (80 bytes + height), so "re-encoded" is the same bytes in a new transaction
	if variant == 1 {
		g = x.alt.genesisParam()
	}
	return x.h.Operator(chain.HeaderSync, hscom.SYNC_GENESIS_HEADER, chain.Args(&hscom.SyncGenesisHeaderParam{ChainID: x.id, GenesisHeader: g}))
}

func (x *lcChain) NextHeaders(k int) *types.Transaction {
	var hs [][]byte
	for i := 0; i < k; i++ {
		ht := x.c.addBlock([]chainhash.Hash{x.c.decoyID()})
		hs = append(hs, headerBytes(x.c.header(ht)))
	}
	x.relayer++
	rel := x.h.User(1 + x.relayer%3)
	return x.h.Signed(chain.HeaderSync, hscom.SYNC_BLOCK_HEADER, chain.Args(&hscom.SyncBlockHeaderParam{ChainID: x.id, Address: rel.Address, Headers: hs}), rel)
}

func (x *lcChain) StatePrefixes() [][]byte {
	var out [][]byte
	for _, p := range []string{hscom.GENESIS_HEADER, hscom.BLOCK_HEADER, hscom.HEADER_INDEX, hscom.CURRENT_HEADER_HEIGHT} {
		k := append(append([]byte(nil), chain.HeaderSync[:]...), p...)
		out = append(out, append(k, utils.GetUint64Bytes(x.id)...))
	}
	return out
}

func (x *lcChain) Timestamped() bool { return false }

func (x *lcChain) FutureHeader(aheadSec int64) *types.Transaction { return nil }

func init() { lc.Register(driver{}) }
