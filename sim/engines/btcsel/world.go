package btcsel

import (
	"crypto/sha256"
	"encoding/binary"
	"encoding/hex"
	"fmt"

	"github.com/btcsuite/btcd/chaincfg/chainhash"
	"github.com/btcsuite/btcd/wire"
	"github.com/polynetwork/poly/account"
	"github.com/polynetwork/poly/common"
	"github.com/polynetwork/poly/core/types"
	ccom "github.com/polynetwork/poly/native/service/cross_chain_manager/common"
	"github.com/polynetwork/poly/native/service/governance/side_chain_manager"
	hscom "github.com/polynetwork/poly/native/service/header_sync/common"
	"github.com/polynetwork/poly/native/service/utils"

	"polysim/chain"
	"polysim/engines/e1"
	"polysim/kernel"
)

const prop = "C26"

// world is one simulated run: the harness (real poly ledgers), the simulated Bitcoin chain,
// the vaults (redeem scripts) and the reference model.
type world struct {
	run   *kernel.Run
	h     *e1.Harness
	seed  uint64
	btc   *btcChain
	btcID uint64 // BTC side chain id (router BTC_ROUTER, regtest)
	srcID uint64 // account-based chain (router VOTE_ROUTER): source of withdrawals, target of deposits
	wait  uint64
	keys  []*keyModel
	bound []byte // contract address on srcID bound to the redeem keys

	everSelected map[outpoint]int // outpoint -> step of the withdrawal that selected it
	changeOps    map[outpoint]bool // outputs that entered the unspent set as returned change
	deposits     []*deposit
	built        []*builtTx // withdrawals whose transaction was built and is not fully signed
	wctr         int64
	outcomes     []byte // digest input: what happened (for the distinct-run signature)

	sinceRestart bool // a restart happened and no withdrawal was built since
	nBuilt       int
	nRejected    int
	noModel      bool // C20 replay runs: the UTXO model is not maintained
	hardUsed     int // expensive (search-exhausting) rejections attempted so far
}

type deposit struct {
	key    int
	tx     *wire.MsgTx
	height uint32
	pos    int
	done   bool // the model holds its output (import accepted once)
}

type builtTx struct {
	key    int
	tx     *wire.MsgTx // unsigned transaction as built by makeBtcTx
	inputs []*mutxo
	signed int // signers that already submitted
}

func abs(x int64) int64 {
	if x < 0 {
		if x == -x {
			return 0
		}
		return -x
	}
	return x
}

func pickIdx(x int64, n int) int {
	if n <= 0 {
		return 0
	}
	return int(abs(x) % int64(n))
}

func quorum(n int) int { return (2*n + 2) / 3 } // ceil(2n/3): votes that release a message

// exec commits one block and, after every transaction, compares the implementation's UTXO and
// STXO records of every redeem key with the model as updated by `on` for that transaction.
func (w *world) exec(on func(t *e1.TxTrace), txs ...*types.Transaction) ([]*e1.TxTrace, bool) {
	if len(txs) == 0 {
		return nil, true
	}
	good := true
	// the per-transaction views are only exact before the block is committed: inspect there
	traces, ok := w.h.ExecInspect(func(traces []*e1.TxTrace) {
		for _, t := range traces {
			if on != nil {
				on(t)
				if w.run.Failed() {
					good = false
					return
				}
			}
			if !w.compare(t.Post, fmt.Sprintf("after tx %d of block %d", t.Index, t.Height)) {
				good = false
				return
			}
		}
	}, txs...)
	if !ok || !good || w.run.Failed() {
		return traces, false
	}
	if !w.compare(w.h.View(), "after the commit of the block") {
		return traces, false
	}
	w.run.State([]byte(w.digest()))
	return traces, true
}

func (w *world) digest() string {
	s := ""
	for i, k := range w.keys {
		s += fmt.Sprintf("k%d U[%s] S[%s] ", i, setDigest(k.unspent), setDigest(k.spent))
	}
	return s
}

// compare checks that the stored records equal the model ("a failed or rolled-back withdrawal
// changes nothing", "selected outputs leave the unspent set and are recorded as spent").
func (w *world) compare(v e1.View, where string) bool {
	if w.noModel {
		return true
	}
	for i, k := range w.keys {
		for _, side := range []struct {
			prefix string
			want   map[outpoint]*mutxo
			name   string
		}{{"utxos", k.unspent, "unspent"}, {"stxos", k.spent, "spent"}} {
			rec, ok := readRecord(v, side.prefix, w.btcID, k.v.rk)
			if !ok {
				w.run.Fail(prop, side.name+"-record-unreadable", "%s: the %s record of redeem key %d does not decode", where, side.name, i)
				return false
			}
			if kind, msg := diffRecord(rec, side.want); kind != "" {
				w.run.Fail(prop, side.name+"-set-"+kind, "%s: %s record of redeem key %d (%x) differs from the reference model: %s (stored %d entries, model %d)",
					where, side.name, i, k.v.rk[:4], msg, len(rec), len(side.want))
				return false
			}
		}
	}
	return true
}

func ccmcOfNet(t utils.BtcNetType) []byte {
	return binary.LittleEndian.AppendUint64(nil, uint64(t))
}

// setup registers the two side chains, installs the BTC genesis header and binds the redeem
// scripts (registerRedeem with signatures of the scripts' own keys).
func (w *world) setup() bool {
	h := w.h
	if err := h.RegisterChain(w.btcID, utils.BTC_ROUTER, "btc", w.wait, ccmcOfNet(utils.TyRegtest), nil); err != nil {
		if w.run.Failed() {
			return false
		}
		panic(err)
	}
	if err := h.RegisterChain(w.srcID, utils.VOTE_ROUTER, "acct", 1, []byte{0xcc, 0x01}, nil); err != nil {
		if w.run.Failed() {
			return false
		}
		panic(err)
	}
	gen := h.Operator(chain.HeaderSync, hscom.SYNC_GENESIS_HEADER, chain.Args(&hscom.SyncGenesisHeaderParam{ChainID: w.btcID, GenesisHeader: w.btc.genesisParam()}))
	txs := []*types.Transaction{gen}
	for _, k := range w.keys {
		v := k.v
		p := &side_chain_manager.RegisterRedeemParam{RedeemChainID: w.btcID, ContractChainID: w.srcID, Redeem: v.redeem, CVersion: 0, ContractAddress: w.bound}
		msg := append(append(append(append(append([]byte{}, v.redeem...), utils.GetUint64Bytes(w.btcID)...), w.bound...), utils.GetUint64Bytes(w.srcID)...), utils.GetUint64Bytes(0)...)
		p.Signs = v.sign(hash160(msg), 0, v.m)
		txs = append(txs, h.Signed(chain.SideChainManager, side_chain_manager.REGISTER_REDEEM, chain.Args(p), h.User(1)))
	}
	tr, ok := w.exec(nil, txs...)
	if !ok {
		return false
	}
	for _, t := range tr {
		if !t.OK {
			panic(fmt.Sprintf("setup transaction %d failed", t.Index))
		}
	}
	return true
}

// syncHeaders submits the simulated chain's headers from..tip to the BTC light client.
func (w *world) syncHeaders(from uint32) bool {
	var hs [][]byte
	for x := from; x <= w.btc.tip(); x++ {
		hs = append(hs, headerBytes(w.btc.header(x)))
	}
	if len(hs) == 0 {
		return true
	}
	rel := w.h.User(2)
	tx := w.h.Signed(chain.HeaderSync, hscom.SYNC_BLOCK_HEADER, chain.Args(&hscom.SyncBlockHeaderParam{ChainID: w.btcID, Address: rel.Address, Headers: hs}), rel)
	tr, ok := w.exec(nil, tx)
	if !ok {
		return false
	}
	if !tr[0].OK {
		w.run.Probe("header_sync_rejected")
	} else {
		w.run.Probe("btc_headers_synced")
	}
	return true
}

func (w *world) importTx(d *deposit, rel *account.Account) *types.Transaction {
	p := &ccom.EntranceParam{SourceChainID: w.btcID, Height: d.height, Proof: w.btc.proof(d.height, d.pos), RelayerAddress: rel.Address[:], Extra: txBytes(d.tx)}
	return w.h.Signed(chain.CrossChain, ccom.IMPORT_OUTER_TRANSFER_NAME, chain.Args(p), rel)
}

// onImport updates the model for one deposit import: an accepted import of a deposit that is
// not yet in the model adds output 0 of the Bitcoin transaction to its redeem key's unspent set.
func (w *world) onImport(t *e1.TxTrace, d *deposit, confirmed bool) {
	if !t.OK {
		if d.done {
			w.run.Probe("replayed_deposit_rejected")
		} else if confirmed {
			w.run.Probe("valid_deposit_rejected")
		} else {
			w.run.Probe("unconfirmed_deposit_rejected")
		}
		w.run.Logf("import of deposit %s rejected (done=%v confirmed=%v)", d.tx.TxHash().String()[:12], d.done, confirmed)
		return
	}
	if d.done {
		// an accepted replay must not add the output again: the comparison that follows
		// reports a duplicate/extra entry if it did
		w.run.Probe("replayed_deposit_accepted_as_noop")
		return
	}
	id := d.tx.TxHash()
	u := &mutxo{value: uint64(d.tx.TxOut[0].Value), script: d.tx.TxOut[0].PkScript}
	copy(u.op.hash[:], id[:])
	w.keys[d.key].unspent[u.op] = u
	d.done = true
	w.run.Probe("deposit_accepted")
	w.run.Probe("utxo_seeded_" + kindName(u.kind()))
	w.run.Logf("deposit %s value %d kind %s -> key %d", u.op, u.value, kindName(u.kind()), d.key)
}

// fund: A = [key, decoys, layout, v1, k1, v2, k2, ...]: mine the deposits into one Bitcoin
// block, confirm it, sync the headers and import every deposit with its SPV proof.
func (w *world) fund(st kernel.Step) bool {
	ki := pickIdx(st.Arg(0), len(w.keys))
	decoys := pickIdx(st.Arg(1), 6)
	layout := abs(st.Arg(2))
	var ds []*deposit
	for j := 3; j+1 < len(st.A) && len(ds) < 40; j += 2 {
		val := abs(st.A[j])
		if val > 2_000_000_000_000 {
			val = 2_000_000_000_000
		}
		if val < 1 {
			val = 1
		}
		if len(w.keys[ki].unspent)+len(ds) >= 40 {
			break
		}
		ds = append(ds, &deposit{key: ki, tx: w.btc.depositTx(w.keys[ki].v, pickIdx(st.A[j+1], nKinds), val, w.srcID)})
	}
	if len(ds) == 0 {
		w.run.Logf("fund: nothing to deposit")
		return true
	}
	ids := []chainhash.Hash{w.btc.decoyID()} // coinbase
	for i, d := range ds {
		if i < decoys {
			ids = append(ids, w.btc.decoyID())
		}
		d.pos = len(ids)
		ids = append(ids, d.tx.TxHash())
	}
	first := w.btc.tip() + 1
	height := w.btc.addBlock(ids)
	for _, d := range ds {
		d.height = height
	}
	w.deposits = append(w.deposits, ds...)
	rel := w.h.User(3)
	early := layout%5 == 4 && w.wait > 1
	if early {
		// relayer submits before the block has enough confirmations: must be refused
		if !w.syncHeaders(first) {
			return false
		}
		first = w.btc.tip() + 1
		d := ds[0]
		if _, ok := w.exec(func(t *e1.TxTrace) { w.onImport(t, d, false) }, w.importTx(d, rel)); !ok {
			return false
		}
	}
	for c := uint64(1); c < w.wait; c++ {
		w.btc.addBlock([]chainhash.Hash{w.btc.decoyID()})
	}
	if !w.syncHeaders(first) {
		return false
	}
	per := 1 + int(layout%7)
	for i := 0; i < len(ds); i += per {
		end := i + per
		if end > len(ds) {
			end = len(ds)
		}
		var txs []*types.Transaction
		for _, d := range ds[i:end] {
			txs = append(txs, w.importTx(d, rel))
		}
		batch := ds[i:end]
		n := 0
		if _, ok := w.exec(func(t *e1.TxTrace) { w.onImport(t, batch[n], true); n++ }, txs...); !ok {
			return false
		}
	}
	return true
}

// replay: submit the import of an earlier deposit again (relayer duplicate).
func (w *world) replay(st kernel.Step) bool {
	if len(w.deposits) == 0 {
		return true
	}
	d := w.deposits[pickIdx(st.Arg(0), len(w.deposits))]
	w.run.Fault("deposit_replayed")
	_, ok := w.exec(func(t *e1.TxTrace) { w.onImport(t, d, true) }, w.importTx(d, w.h.User(int(abs(st.Arg(1))%5))))
	return ok
}

// setParam: A = [key, feeRate, minChange, mode]. mode 0: valid next version signed by m keys;
// 1: wrong version; 2: signatures split over two transactions; 3: one signature short.
func (w *world) setParam(st kernel.Step) bool {
	ki := pickIdx(st.Arg(0), len(w.keys))
	k := w.keys[ki]
	v := k.v
	det := &side_chain_manager.BtcTxParamDetial{FeeRate: uint64(st.Arg(1)), MinChange: uint64(st.Arg(2))}
	if k.param != nil {
		det.PVersion = k.param.ver + 1
	}
	mode := abs(st.Arg(3)) % 4
	if mode == 1 {
		det.PVersion += 1 + uint64(abs(st.Arg(1))%2)*2
		if k.param == nil { // any first version is accepted
			mode = 0
		}
	}
	msg := append(append(append(append(append([]byte{}, v.redeem...), utils.GetUint64Bytes(w.btcID)...), utils.GetUint64Bytes(det.FeeRate)...), utils.GetUint64Bytes(det.MinChange)...), utils.GetUint64Bytes(det.PVersion)...)
	hsh := hash160(msg)
	mk := func(sigs [][]byte) *types.Transaction {
		p := &side_chain_manager.BtcTxParam{Redeem: v.redeem, RedeemChainId: w.btcID, Sigs: sigs, Detial: det}
		return w.h.Signed(chain.SideChainManager, side_chain_manager.SET_BTC_TX_PARAM, chain.Args(p), w.h.User(1))
	}
	var txs []*types.Transaction
	switch {
	case mode == 2 && v.m > 1:
		txs = []*types.Transaction{mk(v.sign(hsh, 0, v.m-1)), mk(v.sign(hsh, v.m-1, 1))}
	case mode == 3 && v.m > 1:
		txs = []*types.Transaction{mk(v.sign(hsh, 0, v.m-1))}
	default:
		txs = []*types.Transaction{mk(v.sign(hsh, int(abs(st.Arg(1)))%v.n, v.m))}
	}
	_, ok := w.exec(func(t *e1.TxTrace) {
		if t.OK && t.HasEvent("SetBtcTxParam") {
			k.param = &txParam{ver: det.PVersion, feeRate: det.FeeRate, minChange: det.MinChange}
			w.run.Probe("tx_param_set")
			w.run.Logf("key %d: fee rate %d, min change %d, version %d in force", ki, det.FeeRate, det.MinChange, det.PVersion)
		} else {
			w.run.Logf("key %d: setBtcTxParam(rate %d, minchange %d, ver %d, mode %d) ok=%v without effect", ki, det.FeeRate, det.MinChange, det.PVersion, mode, t.OK)
			if !t.OK {
				w.run.Probe("tx_param_rejected")
			}
		}
	}, txs...)
	return ok
}

func msgID(seed uint64, n int64) []byte {
	h := sha256.Sum256(binary.LittleEndian.AppendUint64(binary.LittleEndian.AppendUint64([]byte("withdrawal"), seed), uint64(n)))
	return h[:]
}

var _ = hex.EncodeToString
var _ = common.ADDRESS_EMPTY
