// Package btcsel is the polysim engine for C26 (BTC coin selection conserves UTXO value).
//
// Everything on the poly side is real code from /repo driven through e1.Harness blocks:
// side-chain registry, BTC SPV header sync (regtest parameters: the proof-of-work target is
// 2^255, so a synthetic header chain is mined with ~2 hash evaluations per header), redeem
// registration and setBtcTxParam (real secp256k1 signatures by the redeem script's keys),
// deposits through ImportOuterTransfer -> btc.MakeDepositProposal (real SPV merkle proofs) which
// is the only thing that populates the UTXO set, withdrawals through the vote router ->
// btc.MakeTransaction -> makeBtcTx -> chooseUtxos -> CoinSelector, and MultiSign (real
// signatures over the built transaction) which returns the change output to the UTXO set.
// This file is the simulated Bitcoin side: keys, redeem scripts, deposit transactions, blocks,
// headers, partial merkle trees.
package btcsel

import (
	"bytes"
	"crypto/sha256"
	"encoding/binary"
	"fmt"
	"math/big"
	"time"

	"github.com/btcsuite/btcd/blockchain"
	"github.com/btcsuite/btcd/btcec"
	"github.com/btcsuite/btcd/chaincfg"
	"github.com/btcsuite/btcd/chaincfg/chainhash"
	"github.com/btcsuite/btcd/txscript"
	"github.com/btcsuite/btcd/wire"
	"github.com/btcsuite/btcutil"
	"golang.org/x/crypto/ripemd160"
)

var regtest = &chaincfg.RegressionNetParams

// script kinds of a deposit output (what the code under test distinguishes)
const (
	kindP2SH  = 0 // OP_HASH160 <hash160(redeem)> OP_EQUAL
	kindP2WSH = 1 // OP_0 <sha256(redeem)>
	kindBare  = 2 // the multisig script itself
	nKinds    = 3
)

func kindName(k int) string { return [...]string{"p2sh", "p2wsh", "bare"}[k%nKinds] }

func dsha(b []byte) chainhash.Hash { return chainhash.DoubleHashH(b) }

func hash160(b []byte) []byte {
	s := sha256.Sum256(b)
	r := ripemd160.New()
	r.Write(s[:])
	return r.Sum(nil)
}

// btcKey derives a secp256k1 key from (seed,label); no crypto/rand.
func btcKey(seed uint64, label string) *btcec.PrivateKey {
	b := binary.LittleEndian.AppendUint64(nil, seed)
	b = append(b, "btckey:"...)
	b = append(b, label...)
	h := sha256.Sum256(b)
	d := new(big.Int).SetBytes(h[:])
	n1 := new(big.Int).Sub(btcec.S256().N, big.NewInt(1))
	d.Mod(d, n1)
	d.Add(d, big.NewInt(1))
	buf := make([]byte, 32)
	d.FillBytes(buf)
	priv, _ := btcec.PrivKeyFromBytes(btcec.S256(), buf)
	return priv
}

// vault is one m-of-n multisig redeem script and its keys.
type vault struct {
	idx    int
	m, n   int
	keys   []*btcec.PrivateKey
	redeem []byte
	rk     []byte // hash160(redeem) = the redeem key
	lock   []byte // p2wsh script of the redeem script: the change output script
	p2sh   []byte
}

func newVault(seed uint64, idx, m, n int) *vault {
	v := &vault{idx: idx, m: m, n: n}
	var pubs []*btcutil.AddressPubKey
	for i := 0; i < n; i++ {
		k := btcKey(seed, fmt.Sprintf("vault%d/%d", idx, i))
		v.keys = append(v.keys, k)
		a, err := btcutil.NewAddressPubKey(k.PubKey().SerializeCompressed(), regtest)
		if err != nil {
			panic(err)
		}
		pubs = append(pubs, a)
	}
	var err error
	v.redeem, err = txscript.MultiSigScript(pubs, m)
	if err != nil {
		panic(err)
	}
	v.rk = hash160(v.redeem)
	sh := sha256.Sum256(v.redeem)
	v.lock = append([]byte{txscript.OP_0, 32}, sh[:]...)
	v.p2sh = append(append([]byte{txscript.OP_HASH160, 20}, v.rk...), txscript.OP_EQUAL)
	return v
}

func (v *vault) script(kind int) []byte {
	switch kind % nKinds {
	case kindP2SH:
		return v.p2sh
	case kindP2WSH:
		return v.lock
	}
	return v.redeem
}

// ownAddress is the vault's own pay-to-witness-script-hash address (what its change is paid to).
func (v *vault) ownAddress() string {
	a, err := btcutil.NewAddressWitnessScriptHash(v.lock[2:], regtest)
	if err != nil {
		panic(err)
	}
	return a.EncodeAddress()
}

// sign returns DER signatures (RFC 6979, deterministic) of hash by the vault's first k keys,
// starting at key `from`.
func (v *vault) sign(hash []byte, from, k int) [][]byte {
	var out [][]byte
	for i := 0; i < k && i < v.n; i++ {
		s, err := v.keys[(from+i)%v.n].Sign(hash)
		if err != nil {
			panic(err)
		}
		out = append(out, s.Serialize())
	}
	return out
}

// signerAddr is the address string MultiSign expects for key i (regtest encoding of the
// public key address).
func (v *vault) signerAddr(i int) string {
	a, _ := btcutil.NewAddressPubKey(v.keys[i%v.n].PubKey().SerializeCompressed(), regtest)
	return a.EncodeAddress()
}

// payAddress returns a destination address string of the given kind on regtest (kind 4: a
// main-net address, which the handler must refuse).
func payAddress(seed uint64, kind int, i int64) string {
	h := sha256.Sum256(binary.LittleEndian.AppendUint64(binary.LittleEndian.AppendUint64([]byte("payaddr"), seed), uint64(i)))
	var a btcutil.Address
	var err error
	switch kind {
	case 0:
		a, err = btcutil.NewAddressPubKeyHash(h[:20], regtest)
	case 1:
		a, err = btcutil.NewAddressWitnessPubKeyHash(h[:20], regtest)
	case 2:
		a, err = btcutil.NewAddressScriptHashFromHash(h[:20], regtest)
	case 3:
		a, err = btcutil.NewAddressWitnessScriptHash(h[:32], regtest)
	default:
		a, err = btcutil.NewAddressPubKeyHash(h[:20], &chaincfg.MainNetParams)
	}
	if err != nil {
		panic(err)
	}
	return a.EncodeAddress()
}

// ---- transactions and blocks ------------------------------------------------------------

// btcChain is the simulated Bitcoin chain (regtest rules: linked headers, hash <= target).
type btcChain struct {
	seed    uint64
	headers []wire.BlockHeader // headers[i] has height base+i
	base    uint32
	blocks  map[uint32][]chainhash.Hash // txids per height
	ctr     uint64
}

const regtestBits = 0x207fffff

func mine(h *wire.BlockHeader) {
	target := blockchain.CompactToBig(h.Bits)
	for {
		bh := h.BlockHash()
		if blockchain.HashToBig(&bh).Cmp(target) <= 0 {
			return
		}
		h.Nonce++
	}
}

func newBtcChain(seed uint64, base uint32) *btcChain {
	c := &btcChain{seed: seed, base: base, blocks: map[uint32][]chainhash.Hash{}}
	g := wire.BlockHeader{Version: 1, Timestamp: time.Unix(946684800, 0), Bits: regtestBits}
	g.MerkleRoot = dsha(binary.LittleEndian.AppendUint64([]byte("genesis"), seed))
	mine(&g)
	c.headers = append(c.headers, g)
	return c
}

func (c *btcChain) tip() uint32 { return c.base + uint32(len(c.headers)) - 1 }

func headerBytes(h *wire.BlockHeader) []byte {
	var b bytes.Buffer
	if err := h.Serialize(&b); err != nil {
		panic(err)
	}
	return b.Bytes()
}

// genesisParam is the 84-byte genesis header parameter: header || big-endian height.
func (c *btcChain) genesisParam() []byte {
	return binary.BigEndian.AppendUint32(headerBytes(&c.headers[0]), c.base)
}

func merkleRoot(ids []chainhash.Hash) chainhash.Hash {
	level := append([]chainhash.Hash{}, ids...)
	for len(level) > 1 {
		var next []chainhash.Hash
		for i := 0; i < len(level); i += 2 {
			l, r := level[i], level[i]
			if i+1 < len(level) {
				r = level[i+1]
			}
			next = append(next, dsha(append(append([]byte{}, l[:]...), r[:]...)))
		}
		level = next
	}
	return level[0]
}

// addBlock mines the next block over the given txids and returns its height.
func (c *btcChain) addBlock(ids []chainhash.Hash) uint32 {
	prev := c.headers[len(c.headers)-1]
	h := wire.BlockHeader{Version: 1, PrevBlock: prev.BlockHash(), MerkleRoot: merkleRoot(ids),
		Timestamp: prev.Timestamp.Add(10 * time.Minute), Bits: regtestBits}
	mine(&h)
	c.headers = append(c.headers, h)
	c.blocks[c.tip()] = ids
	return c.tip()
}

func (c *btcChain) header(height uint32) *wire.BlockHeader { return &c.headers[height-c.base] }

// proof encodes a BIP37 partial merkle tree (merkleblock message) for transaction `pos` of the
// block at `height`.
func (c *btcChain) proof(height uint32, pos int) []byte { return c.proofOf(height, []int{pos}, false) }

// proofOf proves several positions at once; pad sets an unused padding bit of the flag bytes
// (a different but equivalent encoding), when there is one.
func (c *btcChain) proofOf(height uint32, poss []int, pad bool) []byte {
	ids := c.blocks[height]
	n := uint32(len(ids))
	width := func(h uint32) uint32 { return (n + (1 << h) - 1) >> h }
	var calc func(h, p uint32) chainhash.Hash
	calc = func(h, p uint32) chainhash.Hash {
		if h == 0 {
			return ids[p]
		}
		l := calc(h-1, p*2)
		r := l
		if p*2+1 < width(h-1) {
			r = calc(h-1, p*2+1)
		}
		return dsha(append(append([]byte{}, l[:]...), r[:]...))
	}
	var bits []bool
	var hashes []chainhash.Hash
	var build func(h, p uint32)
	build = func(h, p uint32) {
		lo, hi := p<<h, (p+1)<<h
		match := false
		for _, pos := range poss {
			match = match || (uint32(pos) >= lo && uint32(pos) < hi)
		}
		bits = append(bits, match)
		if h == 0 || !match {
			hashes = append(hashes, calc(h, p))
			return
		}
		build(h-1, p*2)
		if p*2+1 < width(h-1) {
			build(h-1, p*2+1)
		}
	}
	height0 := uint32(0)
	for width(height0) > 1 {
		height0++
	}
	build(height0, 0)
	var b bytes.Buffer
	b.Write(headerBytes(c.header(height)))
	binary.Write(&b, binary.LittleEndian, n)
	wire.WriteVarInt(&b, 0, uint64(len(hashes)))
	for _, x := range hashes {
		b.Write(x[:])
	}
	flags := make([]byte, (len(bits)+7)/8)
	for i, on := range bits {
		if on {
			flags[i/8] |= 1 << (uint(i) % 8)
		}
	}
	if pad && len(bits)%8 != 0 {
		flags[len(flags)-1] |= 0x80
	}
	wire.WriteVarBytes(&b, 0, flags)
	return b.Bytes()
}

// depositTx builds a Bitcoin transaction paying `value` to the vault with the given script
// kind, with the cross-chain OP_RETURN output (flag 0xcc, target chain, fee 0, 20-byte address).
func (c *btcChain) depositTx(v *vault, kind int, value int64, toChain uint64) *wire.MsgTx {
	c.ctr++
	tx := wire.NewMsgTx(wire.TxVersion)
	prev := dsha(binary.LittleEndian.AppendUint64(binary.LittleEndian.AppendUint64([]byte("funding"), c.seed), c.ctr))
	tx.AddTxIn(wire.NewTxIn(wire.NewOutPoint(&prev, uint32(c.ctr%3)), []byte{0x51, byte(c.ctr)}, nil))
	tx.AddTxOut(wire.NewTxOut(value, v.script(kind)))
	args := binary.LittleEndian.AppendUint64(nil, toChain)
	args = binary.LittleEndian.AppendUint64(args, 0)
	args = append(args, 20)
	args = append(args, prev[:20]...)
	data := append([]byte{0xcc}, args...)
	tx.AddTxOut(wire.NewTxOut(0, append([]byte{txscript.OP_RETURN, byte(len(data))}, data...)))
	if c.ctr%4 == 1 { // a second output to the same vault: the handler only records output 0 of a deposit
		tx.AddTxOut(wire.NewTxOut(value/2+7, v.script(kind+1)))
	}
	if c.ctr%2 == 0 { // sender's change
		tx.AddTxOut(wire.NewTxOut(1000+int64(c.ctr), append(append([]byte{txscript.OP_DUP, txscript.OP_HASH160, 20}, prev[:20]...), txscript.OP_EQUALVERIFY, txscript.OP_CHECKSIG)))
	}
	return tx
}

// decoyID is the id of an unrelated transaction sharing a block with deposits.
func (c *btcChain) decoyID() chainhash.Hash {
	c.ctr++
	return dsha(binary.LittleEndian.AppendUint64(binary.LittleEndian.AppendUint64([]byte("decoy"), c.seed), c.ctr))
}

func txBytes(tx *wire.MsgTx) []byte {
	var b bytes.Buffer
	if err := tx.BtcEncode(&b, wire.ProtocolVersion, wire.LatestEncoding); err != nil {
		panic(err)
	}
	return b.Bytes()
}

func parseTx(raw []byte) (*wire.MsgTx, error) {
	tx := wire.NewMsgTx(wire.TxVersion)
	err := tx.BtcDecode(bytes.NewReader(raw), wire.ProtocolVersion, wire.LatestEncoding)
	return tx, err
}
