package btcsel

import (
	"bytes"
	"encoding/hex"
	"fmt"
	"math/big"
	"sort"

	"github.com/btcsuite/btcd/wire"
	"github.com/polynetwork/poly/common"
	pbtc "github.com/polynetwork/poly/native/service/cross_chain_manager/btc"
	"github.com/polynetwork/poly/native/service/utils"

	"polysim/chain"
	"polysim/engines/e1"
)

// Reference model of C26, written from the property text: per redeem key the set of unspent
// outputs (outpoint -> value, script) and the set of outputs recorded as spent; globally the
// set of outpoints that were ever selected. A withdrawal moves its selected outputs from
// unspent to spent; nothing else does (a completed signing round is modelled after what the
// handler documents: the inputs of the signed transaction leave the spent record and its change
// output enters the unspent set under a fresh outpoint).

type outpoint struct {
	hash  [32]byte
	index uint32
}

func (o outpoint) String() string { return fmt.Sprintf("%x:%d", o.hash[:6], o.index) }

type mutxo struct {
	op     outpoint
	value  uint64
	script []byte
}

func (u *mutxo) kind() int {
	switch {
	case len(u.script) == 23 && u.script[0] == 0xa9 && u.script[1] == 20 && u.script[22] == 0x87:
		return kindP2SH
	case len(u.script) == 34 && u.script[0] == 0 && u.script[1] == 32:
		return kindP2WSH
	}
	return kindBare
}

type txParam struct{ ver, feeRate, minChange uint64 }

type keyModel struct {
	v       *vault
	unspent map[outpoint]*mutxo
	spent   map[outpoint]*mutxo // the "recorded as spent" record (stxos)
	param   *txParam
}

func newKeyModel(v *vault) *keyModel {
	return &keyModel{v: v, unspent: map[outpoint]*mutxo{}, spent: map[outpoint]*mutxo{}}
}

// sorted returns the unspent outputs ordered by (value, outpoint): a canonical order that plan
// arguments index into.
func sortedSet(m map[outpoint]*mutxo) []*mutxo {
	out := make([]*mutxo, 0, len(m))
	for _, u := range m {
		out = append(out, u)
	}
	sort.Slice(out, func(i, j int) bool {
		if out[i].value != out[j].value {
			return out[i].value < out[j].value
		}
		if c := bytes.Compare(out[i].op.hash[:], out[j].op.hash[:]); c != 0 {
			return c < 0
		}
		return out[i].op.index < out[j].op.index
	})
	return out
}

func (k *keyModel) total() *big.Int {
	t := new(big.Int)
	for _, u := range sortedSet(k.unspent) {
		t.Add(t, new(big.Int).SetUint64(u.value))
	}
	return t
}

func setDigest(m map[outpoint]*mutxo) string {
	var b bytes.Buffer
	for _, u := range sortedSet(m) {
		fmt.Fprintf(&b, "%s=%d/%s ", u.op, u.value, kindName(u.kind()))
	}
	return b.String()
}

// ---- reading the implementation's records through the storage read path ------------------

func recordKey(prefix string, chainID uint64, rk []byte) [][]byte {
	return [][]byte{[]byte(prefix), utils.GetUint64Bytes(chainID), []byte(hex.EncodeToString(rk))}
}

// readRecord decodes the stored UTXO or STXO list of a redeem key (nil,true if absent).
func readRecord(v e1.View, prefix string, chainID uint64, rk []byte) ([]*mutxo, bool) {
	raw := v.Get(chain.CrossChain, recordKey(prefix, chainID, rk)...)
	if raw == nil {
		return nil, true
	}
	us := new(pbtc.Utxos)
	if err := us.Deserialization(common.NewZeroCopySource(raw)); err != nil {
		return nil, false
	}
	var out []*mutxo
	for _, u := range us.Utxos {
		m := &mutxo{value: u.Value, script: u.ScriptPubkey}
		if u.Op == nil || len(u.Op.Hash) != 32 {
			return nil, false
		}
		copy(m.op.hash[:], u.Op.Hash)
		m.op.index = u.Op.Index
		out = append(out, m)
	}
	return out, true
}

// diffRecord compares a stored list with a model set; "" if they are the same set of
// (outpoint, value, script) without duplicates.
func diffRecord(rec []*mutxo, want map[outpoint]*mutxo) (kind, msg string) {
	seen := map[outpoint]bool{}
	for _, u := range rec {
		if seen[u.op] {
			return "duplicate", fmt.Sprintf("outpoint %s is listed twice", u.op)
		}
		seen[u.op] = true
		w, ok := want[u.op]
		if !ok {
			return "extra", fmt.Sprintf("outpoint %s (value %d) is listed but not in the model set", u.op, u.value)
		}
		if w.value != u.value || !bytes.Equal(w.script, u.script) {
			return "altered", fmt.Sprintf("outpoint %s is listed with value %d script %x, model has value %d script %x", u.op, u.value, u.script, w.value, w.script)
		}
	}
	for _, w := range sortedSet(want) {
		if !seen[w.op] {
			return "missing", fmt.Sprintf("outpoint %s (value %d) of the model set is not listed", w.op, w.value)
		}
	}
	return "", ""
}

func opOf(in *wire.TxIn) outpoint {
	var o outpoint
	copy(o.hash[:], in.PreviousOutPoint.Hash[:])
	o.index = in.PreviousOutPoint.Index
	return o
}
