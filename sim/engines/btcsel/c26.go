package btcsel

import (
	"bytes"
	"crypto/sha256"
	"encoding/hex"
	"fmt"
	"math/big"
	"runtime/debug"

	"github.com/btcsuite/btcd/txscript"
	"github.com/btcsuite/btcutil"
	"github.com/polynetwork/poly/account"
	"github.com/polynetwork/poly/common"
	"github.com/polynetwork/poly/core/types"
	ccom "github.com/polynetwork/poly/native/service/cross_chain_manager/common"

	"polysim/chain"
	"polysim/engines/e1"
	"polysim/kernel"
)

func init() {
	kernel.Register(&kernel.Check{
		ID: "C26", Level: "exploration", Engine: "E1 cluster / btcsel (BTC vault withdrawals through e1.Harness)",
		Rule: "A case is one history on a fresh ledger: 1-2 redeem scripts (m-of-n multisig, generated keys) bound on a regtest BTC side chain; " +
			"UTXO sets of 1-40 outputs per script are seeded only by real deposits (SPV-proved Bitcoin transactions paying p2sh/p2wsh/bare-multisig outputs, values from dust to 2e12 sat, many equal values) " +
			"and by the outputs (change, and the payment itself when the vault pays its own address: sibling outputs of one transaction) returned when a built transaction is fully signed; then a plan-chosen sequence of setBtcTxParam (fee rate, minimum change, valid and invalid), " +
			"withdrawals voted by >= ceil(2N/3) validators (amount: absolute, exact subset sum, subset sum minus less than / exactly / more than the minimum change, more than the total, the total, the total or one of the largest outputs minus minchange-1/minchange/minchange+1, of the order of the fee itself), " +
			"MultiSign rounds, replayed deposits, clean restarts, and withdrawals failed after their handler ran (hook H3) then retried. " +
			"After EVERY transaction the stored UTXO and STXO records of every redeem key are compared with the reference model. " +
			"Non-trivial = at least one withdrawal built a transaction and at least one withdrawal attempt was rejected or rolled back; distinct = digest of the sequence of outcomes (selected values/kinds, change, rejections).",
		Real: []string{"ledger + native runtime (e1.Harness blocks, producer + followers)", "side_chain_manager registerSideChain/approve/registerRedeem/setBtcTxParam",
			"header_sync/btc SyncGenesisHeader/SyncBlockHeader (regtest PoW check real)", "cross_chain_manager ImportExTransfer, consensus_vote handler, btc.MakeDepositProposal (SPV proof, addUtxos), btc.MakeTransaction/makeBtcTx/chooseUtxos/CoinSelector, btc.MultiSign",
			"btcd/btcutil/bchutil (trusted dependencies)"},
		Stub:        []string{"Bitcoin network: simulated regtest chain (validly linked, mined headers; real transactions, merkle trees, secp256k1 signatures)", "VBFT server and p2p (block-producer stub of e1)"},
		Assumptions: []string{"the reported input total of a withdrawal is observed as payment + change output value of the built transaction (makeBtcTx sets change = total - payment and omits a non-positive change)", "vault keys sign whatever setBtcTxParam the plan asks for, including absurd minimum-change values"},
		QuickRuns:   200, ThoroughRuns: 12000, QuickCap: 45, ThoroughCap: 780,
		RequiredProbes: []string{"deposit_accepted", "withdrawal_built", "exact_match_selection", "change_at_least_min_change", "insufficient_funds_rejected",
			"rolled_back_withdrawal", "multi_input_selection", "replacement_pass_with_spare_capacity", "sibling_outputs_strict_subset_selected", "smaller_sibling_selected_larger_left", "selected_p2sh", "selected_p2wsh", "clean_restart", "signing_completed"},
		Generate: generate,
		Execute:  execute,
	})
}

// ---- execution -----------------------------------------------------------------------------

var vaultShapes = [][2]int{{1, 1}, {1, 2}, {2, 2}, {2, 3}, {3, 4}, {3, 5}, {5, 7}}

func execute(run *kernel.Run) {
	p := run.Plan
	nvals := 4 + pickIdx(p.C("nvals", 4)-4, 4)
	nets := []uint32{1, 2, 77}
	h, err := e1.NewHarness(run, nvals, pickIdx(p.C("followers", 0), 3), nets[pickIdx(p.C("net", 0), 3)], uint32(1+abs(p.C("maxview", 100000))))
	if err != nil {
		panic(err)
	}
	defer h.Close()
	w := &world{run: run, h: h, seed: p.Seed, btcID: 1 + uint64(pickIdx(p.C("btcid", 0), 3)), wait: 1 + uint64(pickIdx(p.C("wait", 0), 3)),
		everSelected: map[outpoint]int{}, changeOps: map[outpoint]bool{}, bound: []byte{0xb0, 0x0c, byte(p.Seed), 0x11, 0x22}}
	w.srcID = w.btcID + 1 + uint64(pickIdx(p.C("srcoff", 0), 3))
	w.btc = newBtcChain(p.Seed, uint32(abs(p.C("base", 0))%1000000))
	nk := 1 + pickIdx(p.C("nkeys", 0), 2)
	for i := 0; i < nk; i++ {
		sh := vaultShapes[pickIdx(p.C(fmt.Sprintf("shape%d", i), 3), len(vaultShapes))]
		w.keys = append(w.keys, newKeyModel(newVault(p.Seed, i, sh[0], sh[1])))
	}
	defer func() {
		// a panic inside the selection code is a violation (the node would crash while
		// executing a block); a panic in the harness itself is re-raised
		if e := recover(); e != nil {
			if bytes.Contains(debug.Stack(), []byte("native/service/cross_chain_manager/btc.")) {
				run.Fail(prop, "panic-in-btc-handler", "panic inside the BTC handler while executing a block at step %d: %v", run.StepNo, e)
				return
			}
			panic(e)
		}
	}()
	run.StepNo = -1
	if !w.setup() {
		return
	}
	for i, st := range p.Steps {
		run.StepNo = i
		run.Steps++
		ok := true
		switch st.Op {
		case "fund":
			ok = w.fund(st)
		case "replay":
			ok = w.replay(st)
		case "param":
			ok = w.setParam(st)
		case "withdraw":
			ok = w.withdraw(st)
		case "sign":
			ok = w.sign(st)
		case "restart":
			if err := h.Restart(pickIdx(st.Arg(0), 3)); err != nil {
				run.Fail("C12", "clean-restart-failed", "restart failed: %v", err)
				return
			}
			run.Probe("restart_then_state_compared")
			w.sinceRestart = true
			ok = w.compare(h.View(), "after a clean restart")
			run.Logf("restart; state %s", w.digest())
		default:
			run.Logf("skip unknown step %v", st)
		}
		if !ok || run.Failed() {
			return
		}
	}
	if !w.compare(h.View(), "at the end of the run") {
		return
	}
	if w.nBuilt > 0 && w.nRejected > 0 {
		run.Nontrivial(w.outcomes)
	}
	if n := w.nBuilt + w.nRejected; n > 1 {
		run.Probes["__evals"] = n // withdrawal attempts judged by the oracle in this run
	}
	sizes := []int{}
	for _, k := range w.keys {
		sizes = append(sizes, len(k.unspent))
	}
	run.Sample = map[string]interface{}{"validators": nvals, "vaults": len(w.keys), "m_of_n": fmt.Sprintf("%d-of-%d", w.keys[0].v.m, w.keys[0].v.n), "deposits": len(w.deposits),
		"withdrawals_built": w.nBuilt, "withdrawals_rejected_or_rolled_back": w.nRejected, "unspent_left": sizes, "plan": planStrings(p)}
}

func planStrings(p *kernel.Plan) []string {
	var out []string
	for i, s := range p.Steps {
		if i >= 14 {
			out = append(out, fmt.Sprintf("... %d more", len(p.Steps)-i))
			break
		}
		out = append(out, s.String())
	}
	return out
}

// amount resolves the payment of a withdraw step against the model's current unspent set.
func (w *world) amount(k *keyModel, mode, x, y int64) (int64, bool) {
	raw := x
	x, y = abs(x), abs(y)
	L := sortedSet(k.unspent)
	mc := uint64(2000)
	if k.param != nil && k.param.minChange < 1<<40 {
		mc = k.param.minChange
	}
	total := k.total()
	if !total.IsInt64() {
		total = big.NewInt(1 << 62)
	}
	subset := func() int64 {
		if len(L) == 0 {
			return 0
		}
		n := 1 + int(x%int64(minInt(len(L), 4)))
		var s int64
		if x%2 == 0 { // the n largest outputs (what a largest-first accumulation reaches)
			for j := 0; j < n; j++ {
				s += int64(L[len(L)-1-j].value)
			}
			return s
		}
		used := map[int]bool{}
		for j := 0; j < n; j++ {
			i := int((y + int64(j)*(x/7+1)) % int64(len(L)))
			if used[i] {
				continue
			}
			used[i] = true
			s += int64(L[i].value)
		}
		return s
	}
	// boundary distances around the minimum change
	near := func() int64 {
		switch r := y % 20; {
		case r < 7:
			return int64(mc) - 1
		case r < 11:
			return int64(mc)
		case r < 14:
			return int64(mc) + 1
		case r < 16:
			return 1
		}
		return y % int64(2*mc+2)
	}
	var amt int64
	switch abs(mode) % 10 {
	case 0:
		amt = raw
	case 1:
		amt = subset()
	case 2:
		d := int64(1 + y%int64(mc-1))
		if y%3 == 0 {
			d = int64(mc - 1)
		}
		amt = subset() - d
	case 3:
		amt = subset() - int64(mc)
	case 4:
		amt = subset() - int64(mc) - y%5000
	case 5:
		amt = total.Int64() + 1 + x%100000
	case 6:
		amt = total.Int64()
	case 7:
		amt = total.Int64() - near()
	case 9:
		// one of the three largest outputs, or the smallest, minus a boundary distance: with much
		// larger outputs present this drives the largest-first search and its replacement pass
		if len(L) > 0 {
			d := near()
			i := len(L) - 1 - int(x%int64(minInt(len(L), 3)))
			// the smallest output, when every other output is too large for the payment: the
			// last candidate of the replacement pass
			if s0 := int64(L[0].value); len(L) >= 2 && s0 > d && int64(L[1].value) > 4*(s0-d) && x%5 < 3 {
				i = 0
				w.run.Probe("payment_is_smallest_output_minus_boundary")
			}
			amt = int64(L[i].value) - d
		}
	default:
		// payments of the order of the transaction fee itself (fee rate x 100..600 bytes): the
		// region where "the fee would eat the payment" flips with the number and kind of inputs
		rate := int64(1)
		if k.param != nil && k.param.feeRate < 1<<30 {
			rate = int64(k.param.feeRate)
		}
		amt = rate * (100 + y%500)
	}
	// Cost guard (workload shaping only, not part of the oracle). The implementation's first
	// search enumerates subsets of the outputs that are not too large for the payment and gives
	// up only after 10^6 steps; when more than `bigset` such outputs together cannot cover
	// payment + minimum change, one rejected withdrawal costs tens of CPU seconds per execution
	// of its block. Such attempts are limited to `hard` per run; beyond that the payment is
	// replaced by one that a subset covers.
	if amt > 0 {
		small, n := new(big.Int), 0
		lim := new(big.Int).Mul(big.NewInt(amt), big.NewInt(4))
		for _, u := range L {
			if v := new(big.Int).SetUint64(u.value); v.Cmp(lim) <= 0 {
				small.Add(small, v)
				n++
			}
		}
		need := new(big.Int).Add(big.NewInt(amt), new(big.Int).SetUint64(mc))
		if n > int(w.run.Plan.C("bigset", 13)) && small.Cmp(need) < 0 && small.Cmp(big.NewInt(amt)) != 0 {
			if w.hardUsed >= int(w.run.Plan.C("hard", 0)) {
				w.run.Probe("expensive_rejection_avoided")
				return subset() - int64(mc) - y%5000, false
			}
			w.hardUsed++
			w.run.Probe("expensive_rejection_attempted")
			return amt, true
		}
	}
	return amt, false
}

func minInt(a, b int) int {
	if a < b {
		return a
	}
	return b
}

func findEvent(t *e1.TxTrace, name string) []interface{} {
	for _, e := range t.Events {
		if st, ok := e.States.([]interface{}); ok && len(st) > 0 {
			if s, ok := st[0].(string); ok && s == name {
				return st
			}
		}
	}
	return nil
}

type wdCtx struct {
	ki         int
	k          *keyModel
	amount     int64
	addrKind   int
	bound      bool
	q          int
	counted    int
	released   bool
	rolledBack bool
}

// withdraw: A = [key, amountMode, x, y, addrKind, extraVoters, forceMode, order, variant].
func (w *world) withdraw(st kernel.Step) bool {
	a := st.Arg
	c := &wdCtx{ki: pickIdx(a(0), len(w.keys)), addrKind: pickIdx(a(4), 6), bound: abs(a(8))%16 != 15}
	c.k = w.keys[c.ki]
	var hard bool
	c.amount, hard = w.amount(c.k, a(1), a(2), a(3))
	w.wctr++
	id := msgID(w.seed, w.wctr)
	addr := payAddress(w.seed, c.addrKind, w.wctr)
	if c.addrKind == 5 { // the vault pays itself: payment and change both return to the unspent set once signed
		addr = c.k.v.ownAddress()
	}
	sink := common.NewZeroCopySink(nil)
	sink.WriteVarBytes([]byte(addr))
	sink.WriteUint64(uint64(c.amount))
	sink.WriteVarBytes(c.k.v.redeem)
	from := w.bound
	if !c.bound {
		from = []byte{0xba, 0xd0}
	}
	mp := &ccom.MakeTxParam{TxHash: id, CrossChainID: id, FromContractAddress: from, ToChainID: w.btcID, ToContractAddress: c.k.v.rk, Method: "unlock", Args: sink.Bytes()}
	ms := common.NewZeroCopySink(nil)
	mp.Serialization(ms)
	vals := w.h.Validators()
	rot := pickIdx(a(7), len(vals))
	vals = append(append([]*account.Account{}, vals[rot:]...), vals[:rot]...)
	c.q = quorum(len(vals))
	nv := c.q + pickIdx(a(5), len(vals)-c.q+1)
	vote := func(v *account.Account) *types.Transaction {
		p := &ccom.EntranceParam{SourceChainID: w.srcID, Height: uint32(100 + w.wctr), RelayerAddress: v.Address[:], Extra: ms.Bytes()}
		return w.h.Signed(chain.CrossChain, ccom.IMPORT_OUTER_TRANSFER_NAME, chain.Args(p), v)
	}
	ff := abs(a(6)) % 4
	if hard { // one attempt only, alone in its block: every execution of it costs ~10^6 search steps
		nv, ff = c.q, 0
	}
	var pre, trig, post []*types.Transaction
	for i := 0; i < c.q-1; i++ {
		pre = append(pre, vote(vals[i]))
	}
	t0 := vote(vals[c.q-1])
	trig = append(trig, t0)
	forced := map[common.Uint256]bool{}
	if ff != 0 {
		w.h.ForceFail(t0)
		forced[t0.Hash()] = true
		if ff != 3 {
			post = append(post, vote(vals[c.q-1]))
		}
	}
	for i := c.q; i < nv; i++ {
		post = append(post, vote(vals[i]))
	}
	w.run.Logf("withdraw #%d key %d amount %d addrkind %d bound=%v voters %d/%d force=%d; unspent %d total %s", w.wctr, c.ki, c.amount, c.addrKind, c.bound, nv, len(vals), ff, len(c.k.unspent), c.k.total())
	on := func(t *e1.TxTrace) { w.onVote(t, c, forced[t.Tx.Hash()]) }
	var blocks [][]*types.Transaction
	switch {
	case ff == 1 || ff == 3:
		blocks = [][]*types.Transaction{pre, trig, post}
	case ff == 2:
		blocks = [][]*types.Transaction{append(append(pre, trig...), post...)}
	case abs(a(7))%2 == 0 && !hard:
		blocks = [][]*types.Transaction{append(append(pre, trig...), post...)}
	default:
		blocks = [][]*types.Transaction{pre, append(trig, post...)}
	}
	for _, b := range blocks {
		if _, ok := w.exec(on, b...); !ok {
			return false
		}
	}
	return true
}

func (w *world) onVote(t *e1.TxTrace, c *wdCtx, forced bool) {
	run := w.run
	attempt := !c.released && c.counted >= c.q-1
	ev := findEvent(t, "makeBtcTx")
	switch {
	case forced:
		if attempt {
			run.Fault("forced_failure_after_withdrawal_handler")
			c.rolledBack = true
			w.nRejected++
			w.outcomes = append(w.outcomes, []byte("rolled-back;")...)
		}
	case t.OK && ev != nil:
		w.onBuilt(t, c, ev)
	case t.OK:
		if c.released {
			run.Probe("vote_after_release_noop")
		} else {
			c.counted++
		}
	default:
		if !attempt {
			run.Probe("vote_rejected")
			return
		}
		w.nRejected++
		k := c.k
		total := k.total()
		amt := big.NewInt(c.amount)
		why := "rejected_other"
		switch {
		case c.amount <= 0 || c.amount > btcutil.MaxSatoshi:
			why = "invalid_amount_rejected"
		case !c.bound:
			why = "unbound_contract_rejected"
		case c.addrKind == 4:
			why = "foreign_network_address_rejected"
		case k.param == nil:
			why = "no_tx_param_rejected"
		case amt.Cmp(total) > 0:
			why = "insufficient_funds_rejected"
		case amt.Cmp(total) != 0 && new(big.Int).Add(amt, new(big.Int).SetUint64(k.param.minChange)).Cmp(total) > 0:
			why = "insufficient_for_min_change_rejected"
		case big.NewInt(c.amount).Cmp(new(big.Int).Mul(big.NewInt(100), new(big.Int).SetUint64(k.param.feeRate))) <= 0:
			why = "below_dust_rejected" // any transaction is larger than 100 bytes: the fee alone exceeds the payment
		}
		run.Probe(why)
		if c.rolledBack {
			run.Probe("rolled_back_then_rejected")
		}
		w.outcomes = append(w.outcomes, []byte(why+";")...)
		run.Logf("withdrawal attempt rejected: %s", why)
	}
}

// onBuilt is the C26 oracle for a withdrawal whose transaction was built.
func (w *world) onBuilt(t *e1.TxTrace, c *wdCtx, ev []interface{}) {
	run := w.run
	k := c.k
	fail := func(key, f string, a ...interface{}) {
		run.Fail(prop, key, "withdrawal #%d (key %d, payment %d, min change %v): %s", w.wctr, c.ki, c.amount, minChangeOf(k), fmt.Sprintf(f, a...))
	}
	if c.released {
		fail("withdrawal-built-twice", "the same message built a second transaction")
		return
	}
	c.released = true
	if len(ev) < 3 {
		fail("event-malformed", "makeBtcTx event has %d fields", len(ev))
		return
	}
	rkHex, _ := ev[1].(string)
	rawHex, _ := ev[2].(string)
	raw, err := hex.DecodeString(rawHex)
	if err != nil {
		fail("event-malformed", "transaction hex: %v", err)
		return
	}
	tx, err := parseTx(raw)
	if err != nil {
		fail("event-malformed", "transaction does not decode: %v", err)
		return
	}
	if rkHex != hex.EncodeToString(k.v.rk) {
		fail("event-names-other-redeem-key", "event names redeem key %s, the withdrawal is for %x", rkHex, k.v.rk)
		return
	}
	if k.param == nil {
		fail("built-without-tx-param", "a transaction was built although no fee rate / minimum change is in force")
		return
	}
	if len(tx.TxIn) == 0 {
		fail("no-inputs", "the built transaction has no inputs")
		return
	}
	// (1) the selected inputs are distinct members of the unspent set of this redeem key
	var sel []*mutxo
	seen := map[outpoint]bool{}
	for i, in := range tx.TxIn {
		op := opOf(in)
		if seen[op] {
			fail("input-selected-twice-in-one-transaction", "input %d spends %s which an earlier input already spends", i, op)
			return
		}
		seen[op] = true
		u := k.unspent[op]
		if u == nil {
			if at, was := w.everSelected[op]; was {
				fail("spent-output-selected-again", "input %d spends %s which the withdrawal at step %d already selected", i, op, at)
				return
			}
			for j, o := range w.keys {
				if o != k && o.unspent[op] != nil {
					fail("input-of-other-redeem-key", "input %d spends %s which belongs to redeem key %d", i, op, j)
					return
				}
			}
			fail("input-not-in-unspent-set", "input %d spends %s which is not an unspent output of the redeem key", i, op)
			return
		}
		sel = append(sel, u)
	}
	// (2) their values add up exactly to the reported input total
	if len(ev) >= 4 {
		var amts []uint64
		switch x := ev[3].(type) {
		case []uint64:
			amts = x
		case []interface{}:
			for _, e := range x {
				if n, ok := e.(uint64); ok {
					amts = append(amts, n)
				}
			}
		}
		if len(amts) != len(sel) {
			fail("reported-input-value-differs", "event lists %d input values for %d inputs", len(amts), len(sel))
			return
		}
		for i := range sel {
			if amts[i] != sel[i].value {
				fail("reported-input-value-differs", "input %d (%s) is worth %d, the event reports %d", i, sel[i].op, sel[i].value, amts[i])
				return
			}
		}
	}
	// Evidence: the unspent set holds sibling outputs (same transaction, different index) and this
	// withdrawal selected a strict subset of them.
	{
		sib, got := map[[32]byte]int{}, map[[32]byte]int{}
		for _, u := range sortedSet(k.unspent) {
			sib[u.op.hash]++
		}
		var minSel, maxLeft uint64
		for _, u := range sel {
			got[u.op.hash]++
		}
		for _, u := range sel {
			if sib[u.op.hash] > got[u.op.hash] {
				run.Probe("sibling_outputs_strict_subset_selected")
				minSel = u.value
				for _, o := range sortedSet(k.unspent) {
					if o.op.hash == u.op.hash && !seen[o.op] && o.value > maxLeft {
						maxLeft = o.value
					}
				}
				if maxLeft > minSel {
					run.Probe("smaller_sibling_selected_larger_left")
				}
				break
			}
		}
	}
	// Evidence: which search decided. The first search accepts only a total equal to the payment or
	// within [payment+minchange, 4*payment]; when 3*payment < minchange that window is empty, so a
	// selection with change was necessarily made by the largest-first search. If it picked 3, 5, 6
	// or 7 inputs (Go slice growth leaves spare capacity at these lengths) and further outputs
	// remained, its replacement pass ran over a selection slice with spare capacity.
	if mcv := k.param.minChange; mcv < 1<<55 && c.amount > 0 && c.amount < 1<<55 && 3*uint64(c.amount) < mcv {
		run.Probe("largest_first_search_decided")
		if n := len(sel); len(k.unspent) > n {
			run.Probe("replacement_pass_ran")
			if n == 3 || (n >= 5 && n <= 7) {
				run.Probe("replacement_pass_with_spare_capacity")
			}
		}
	}
	sum := new(big.Int)
	for _, u := range sel {
		sum.Add(sum, new(big.Int).SetUint64(u.value))
	}
	var change, pay int64
	nChange := 0
	for i, o := range tx.TxOut {
		// output 0 is the payment (it may pay the vault itself); a later output paying the
		// vault's own script is the change
		if i > 0 && bytes.Equal(o.PkScript, k.v.lock) {
			change += o.Value
			nChange++
		} else {
			pay += o.Value
		}
	}
	payment := big.NewInt(c.amount)
	reported := new(big.Int).Add(payment, big.NewInt(change)) // makeBtcTx: change = total - payment
	if nChange == 0 {
		if sum.Cmp(payment) != 0 {
			fail("inputs-differ-from-payment-without-change", "no change output, so the reported input total is the payment %d, but the %d selected inputs are worth %s", c.amount, len(sel), sum)
			return
		}
	} else if sum.Cmp(reported) != 0 {
		fail("input-total-mismatch", "the %d selected inputs are worth %s but the reported input total is %s (payment %d + change %d)", len(sel), sum, reported, c.amount, change)
		return
	}
	// (3) the total equals the payment or exceeds it by at least the minimum change
	if nChange > 0 && new(big.Int).SetUint64(k.param.minChange).Cmp(big.NewInt(change)) > 0 {
		fail("change-below-min-change", "input total %s exceeds the payment by %d, less than the minimum change %d", reported, change, k.param.minChange)
		return
	}
	if new(big.Int).Add(big.NewInt(pay), big.NewInt(change)).Cmp(sum) > 0 || pay > c.amount {
		fail("outputs-exceed-inputs", "outputs pay %d + change %d, inputs are worth %s, payment %d", pay, change, sum, c.amount)
		return
	}
	// (4) selected outputs leave the unspent set, are recorded as spent, never selected again
	var kinds [nKinds]int
	fromChange := false
	for _, u := range sel {
		delete(k.unspent, u.op)
		k.spent[u.op] = u
		w.everSelected[u.op] = run.StepNo
		kinds[u.kind()]++
		if w.changeOps[u.op] {
			fromChange = true
		}
	}
	w.built = append(w.built, &builtTx{key: c.ki, tx: tx, inputs: sel})
	w.nBuilt++
	// evidence
	run.Probe("withdrawal_built")
	if nChange == 0 {
		run.Probe("exact_match_selection")
	} else {
		run.Probe("change_at_least_min_change")
		if uint64(change) == k.param.minChange {
			run.Probe("change_exactly_min_change")
		}
	}
	if len(sel) > 1 {
		run.Probe("multi_input_selection")
	} else {
		run.Probe("single_input_selection")
	}
	nk := 0
	for i, n := range kinds {
		if n > 0 {
			run.Probe("selected_" + kindName(i))
			nk++
		}
	}
	if nk > 1 {
		run.Probe("mixed_kind_selection")
	}
	tie := false
	for _, u := range sortedSet(k.unspent) {
		for _, s := range sel {
			if u.value == s.value {
				tie = true
			}
		}
	}
	if tie {
		run.Probe("equal_value_left_unselected")
	}
	if len(k.unspent)+len(sel) >= 20 {
		run.Probe("selection_from_20_or_more_outputs")
	}
	if len(k.unspent) == 0 {
		run.Probe("all_outputs_swept")
	}
	if w.sinceRestart {
		run.Probe("withdrawal_built_after_restart")
		w.sinceRestart = false
	}
	if fromChange {
		run.Probe("returned_change_output_selected")
	}
	if c.rolledBack {
		run.Probe("rolled_back_withdrawal") // the identical attempt was failed after its handler ran, left no trace, and the retry selected from the unchanged set
	}
	vals := ""
	for _, u := range sel {
		vals += fmt.Sprintf("%d/%s ", u.value, kindName(u.kind()))
	}
	w.outcomes = append(w.outcomes, []byte(fmt.Sprintf("built %d in[%s] change %d;", c.amount, vals, change))...)
	run.Logf("withdrawal built: inputs [%s] total %s payment %d paid %d change %d; unspent left %d", vals, sum, c.amount, pay, change, len(k.unspent))
}

func minChangeOf(k *keyModel) interface{} {
	if k.param == nil {
		return "unset"
	}
	return k.param.minChange
}

// sign: A = [which, howMany]: the next signers of a built transaction submit MultiSign; when the
// m-th signature arrives the handler returns the change output to the unspent set and drops
// the inputs from the spent record.
func (w *world) sign(st kernel.Step) bool {
	if len(w.built) == 0 {
		w.run.Logf("sign: nothing to sign")
		return true
	}
	bi := pickIdx(st.Arg(0), len(w.built))
	if st.Arg(0) >= 1000 {
		bi = len(w.built) - 1 // the most recently built transaction
	}
	b := w.built[bi]
	k := w.keys[b.key]
	v := k.v
	n := 1 + pickIdx(st.Arg(1), v.m-b.signed)
	if st.Arg(1) >= 100 {
		n = v.m - b.signed // complete the round
	}
	unsignedID := b.tx.TxHash()
	hashes := txscript.NewTxSigHashes(b.tx)
	var txs []*types.Transaction
	for s := b.signed; s < b.signed+n; s++ {
		var sigs [][]byte
		for i, u := range b.inputs {
			var sig []byte
			var err error
			if u.kind() == kindP2WSH {
				sig, err = txscript.RawTxInWitnessSignature(b.tx, hashes, i, int64(u.value), v.redeem, txscript.SigHashAll, v.keys[s])
			} else {
				sig, err = txscript.RawTxInSignature(b.tx, i, v.redeem, txscript.SigHashAll, v.keys[s])
			}
			if err != nil {
				panic(err)
			}
			sigs = append(sigs, sig)
		}
		p := &ccom.MultiSignParam{ChainID: w.btcID, RedeemKey: hex.EncodeToString(v.rk), TxHash: unsignedID[:], Address: v.signerAddr(s), Signs: sigs}
		txs = append(txs, w.h.Signed(chain.CrossChain, ccom.MULTI_SIGN, chain.Args(p), w.h.User(4)))
	}
	_, ok := w.exec(func(t *e1.TxTrace) {
		if !t.OK {
			w.run.Probe("multisign_rejected")
			return
		}
		b.signed++
		ev := findEvent(t, "btcTxToRelay")
		if ev == nil {
			w.run.Probe("multisign_partial")
			return
		}
		w.run.Probe("signing_completed")
		for _, u := range b.inputs {
			delete(k.spent, u.op)
		}
		w.built = append(w.built[:bi], w.built[bi+1:]...)
		if len(ev) < 4 {
			return
		}
		rawHex, _ := ev[3].(string)
		raw, _ := hex.DecodeString(rawHex)
		stx, err := parseTx(raw)
		if err != nil {
			w.run.Fail(prop, "event-malformed", "signed transaction does not decode: %v", err)
			return
		}
		id := stx.TxHash()
		for i, o := range stx.TxOut {
			if !bytes.Equal(o.PkScript, v.lock) {
				continue
			}
			u := &mutxo{value: uint64(o.Value), script: o.PkScript}
			copy(u.op.hash[:], id[:])
			u.op.index = uint32(i)
			if _, was := w.everSelected[u.op]; was || k.unspent[u.op] != nil {
				w.run.Fail(prop, "returned-change-collides", "the change output %s returned by signing is already known", u.op)
				return
			}
			k.unspent[u.op] = u
			w.changeOps[u.op] = true
			w.run.Probe("change_output_returned")
			w.run.Logf("signed: change %s value %d returned to key %d", u.op, u.value, b.key)
		}
	}, txs...)
	return ok
}

// ---- generation ------------------------------------------------------------------------------

func generate(rng *kernel.RNG, idx int, tier string) *kernel.Plan {
	cfg := map[string]int64{
		"nvals": int64(rng.Range(4, 7)), "followers": int64(pickW(rng, 60, 30, 10)), "net": int64(rng.Intn(3)),
		"maxview": []int64{7, 40, 100000}[rng.Intn(3)], "btcid": int64(rng.Intn(3)), "srcoff": int64(rng.Intn(3)), "wait": int64(pickW(rng, 50, 30, 20)),
		"base": int64(rng.Intn(700000)), "nkeys": int64(pickW(rng, 70, 30)), "shape0": int64(rng.Intn(len(vaultShapes))), "shape1": int64(rng.Intn(len(vaultShapes))),
		"reexec": int64(rng.Range(1, 2)),
	}
	nkeys := int(cfg["nkeys"]) + 1
	if rng.Chance(0.15) {
		return generateWindowless(rng, cfg, nkeys, tier)
	}
	if rng.Chance(0.14) {
		return generateSelfPay(rng, cfg, nkeys, tier)
	}
	// swarm: size class, fault kinds switched off per run
	size := pickW(rng, 45, 35, 20) // small, medium, large UTXO sets
	useForce := rng.Chance(0.7)
	useRestart := rng.Chance(0.7)
	useSign := rng.Chance(0.75)
	absurd := rng.Chance(0.04)
	if tier == "thorough" {
		// allow rejections that make the first search enumerate up to 2^17 subsets (seconds of CPU);
		// the 10^6-step exhaustion against >= 20 small outputs costs minutes per block and is
		// never generated (cfg "hard" stays 0; a replay file may set it)
		cfg["bigset"] = int64(13 + rng.Intn(5))
	}
	// palette of repeated values
	pal := make([]int64, rng.Range(1, 4))
	for i := range pal {
		pal[i] = genValue(rng)
	}
	value := func() int64 {
		if rng.Chance(0.45) {
			return pal[rng.Intn(len(pal))]
		}
		return genValue(rng)
	}
	kindBias := rng.Intn(4) // 3 = uniform, else favour one kind
	kind := func() int64 {
		if kindBias < 3 && rng.Chance(0.6) {
			return int64(kindBias)
		}
		return int64(rng.Intn(nKinds))
	}
	fund := func(key int, n int) kernel.Step {
		a := []int64{int64(key), int64(rng.Intn(6)), int64(rng.Intn(35))}
		for i := 0; i < n; i++ {
			a = append(a, value(), kind())
		}
		return kernel.Step{Op: "fund", A: a}
	}
	param := func(key int, valid bool) kernel.Step {
		rate := int64(pickFrom(rng, []int{1, 1, 2, 3, 5, 10, 25, 60, 200}))
		mc := int64(pickFrom(rng, []int{2000, 2000, 2001, 3000, 5000, 10000, 50000, 1000000}))
		mode := int64(0)
		if !valid {
			switch rng.Intn(5) {
			case 0:
				rate = 0
			case 1:
				mc = int64(rng.Intn(2000))
			default:
				mode = int64(rng.Range(1, 3))
			}
		} else if rng.Chance(0.2) {
			mode = 2
		}
		if absurd && rng.Chance(0.5) {
			mc = -int64(rng.Range(1, 50000)) // as uint64: 2^64 - x
		}
		return kernel.Step{Op: "param", A: []int64{int64(key), rate, mc, mode}}
	}
	withdraw := func(key int) kernel.Step {
		mode := int64(pickW(rng, 14, 14, 10, 8, 9, 8, 5, 10, 10, 12))
		x := rng.Int63() % 1000003
		if mode == 0 {
			x = genAmount(rng)
		}
		ak := int64(rng.Intn(4))
		if rng.Chance(0.03) {
			ak = 4
		}
		if rng.Chance(0.07) {
			ak = 5 // the vault's own address
		}
		ff := int64(0)
		if useForce && rng.Chance(0.3) {
			ff = int64(rng.Range(1, 3))
		}
		variant := int64(rng.Intn(15))
		if rng.Chance(0.02) {
			variant = 15
		}
		return kernel.Step{Op: "withdraw", A: []int64{int64(key), mode, x, rng.Int63() % 1000003, ak, int64(rng.Intn(4)), ff, int64(rng.Intn(14)), variant}}
	}
	var steps []kernel.Step
	sizes := [][2]int{{1, 6}, {5, 16}, {17, 40}}[size]
	for k := 0; k < nkeys; k++ {
		if !rng.Chance(0.05) {
			steps = append(steps, param(k, true))
		}
		n := rng.Range(sizes[0], sizes[1])
		for n > 0 {
			c := rng.Range(1, n)
			steps = append(steps, fund(k, c))
			n -= c
		}
	}
	nops := rng.Range(5, 22)
	if tier == "thorough" {
		nops = rng.Range(5, 40)
	}
	for i := 0; i < nops; i++ {
		key := rng.Intn(nkeys)
		switch pickW(rng, 52, 10, 9, 12, 8, 4, 5) {
		case 0:
			steps = append(steps, withdraw(key))
		case 1:
			steps = append(steps, fund(key, rng.Range(1, 4)))
		case 2:
			steps = append(steps, param(key, rng.Chance(0.7)))
		case 3:
			if useSign {
				steps = append(steps, kernel.Step{Op: "sign", A: []int64{int64(rng.Intn(8)), int64(rng.Intn(8))}})
			} else {
				steps = append(steps, withdraw(key))
			}
		case 4:
			if useRestart {
				steps = append(steps, kernel.Step{Op: "restart", A: []int64{int64(rng.Intn(3))}})
			}
		case 5:
			steps = append(steps, kernel.Step{Op: "replay", A: []int64{int64(rng.Intn(50)), int64(rng.Intn(5))}})
		case 6:
			// withdraw, sign completely, withdraw again: the returned change is selectable
			steps = append(steps, withdraw(key), kernel.Step{Op: "sign", A: []int64{int64(rng.Intn(8)), 7}}, withdraw(key))
		}
	}
	return &kernel.Plan{Cfg: cfg, Steps: steps}
}

// generateWindowless is the workload family "payment below a third of the minimum change": the
// first search's acceptance window [payment+minchange, 4*payment] is then empty, so every
// withdrawal that is not an exact match is decided by the largest-first search, which (with outputs
// of minchange/(d+1)..minchange/d) accumulates d+1..d+3 inputs and then runs its replacement pass
// over the remaining smaller outputs.
func generateWindowless(rng *kernel.RNG, cfg map[string]int64, nkeys int, tier string) *kernel.Plan {
	cfg["family"] = 1
	var steps []kernel.Step
	M := int64(pickFrom(rng, []int{20000, 50000, 200000, 1000000, 30000000}))
	rate := int64(rng.Range(1, 3))
	d := int64(rng.Range(2, 6))
	val := func() int64 {
		switch pickW(rng, 80, 8, 6, 6) {
		case 0:
			return M/(d+1) + rng.Int63()%(M/d-M/(d+1)+1)
		case 1:
			return M/(d+1) + 1 // repeated value
		case 2:
			return 1 + rng.Int63()%(M/(d+1)) // smaller
		}
		return genValue(rng)
	}
	kindBias := pickW(rng, 20, 50, 10, 20)
	fund := func(key, n int) kernel.Step {
		a := []int64{int64(key), int64(rng.Intn(6)), int64(rng.Intn(35))}
		for i := 0; i < n; i++ {
			kd := int64(rng.Intn(nKinds))
			if kindBias < 3 && rng.Chance(0.75) {
				kd = int64(kindBias)
			}
			a = append(a, val(), kd)
		}
		return kernel.Step{Op: "fund", A: a}
	}
	withdraw := func(key int) kernel.Step {
		lo := 700 * rate
		x := lo + rng.Int63()%(M/3-lo)
		if rng.Chance(0.1) {
			x = genAmount(rng)
		}
		ff := int64(0)
		if rng.Chance(0.15) {
			ff = int64(rng.Range(1, 3))
		}
		return kernel.Step{Op: "withdraw", A: []int64{int64(key), 0, x, rng.Int63() % 1000003, int64(rng.Intn(4)), int64(rng.Intn(4)), ff, int64(rng.Intn(14)), int64(rng.Intn(15))}}
	}
	for k := 0; k < nkeys; k++ {
		steps = append(steps, kernel.Step{Op: "param", A: []int64{int64(k), rate, M, 0}}, fund(k, rng.Range(int(d)+2, int(d)+8)))
	}
	nops := rng.Range(4, 14)
	for i := 0; i < nops; i++ {
		key := rng.Intn(nkeys)
		switch pickW(rng, 60, 15, 12, 8, 5) {
		case 0:
			steps = append(steps, withdraw(key))
		case 1:
			steps = append(steps, fund(key, rng.Range(1, 5)))
		case 2:
			steps = append(steps, kernel.Step{Op: "sign", A: []int64{int64(rng.Intn(8)), 7}})
		case 3:
			steps = append(steps, kernel.Step{Op: "restart", A: []int64{int64(rng.Intn(3))}})
		case 4:
			steps = append(steps, kernel.Step{Op: "param", A: []int64{int64(key), rate, M + int64(rng.Intn(3)), 0}})
		}
	}
	return &kernel.Plan{Cfg: cfg, Steps: steps}
}

// generateSelfPay is the workload family "sibling outputs": withdrawals whose recipient is the
// vault's own address. Once such a transaction is fully signed, its payment output (index 0) and
// its change output (index 1) both enter the unspent set: two outputs of one transaction with
// different values. Later withdrawals then select one sibling, the other, or both.
func generateSelfPay(rng *kernel.RNG, cfg map[string]int64, nkeys int, tier string) *kernel.Plan {
	cfg["family"] = 2
	var steps []kernel.Step
	rate := int64(rng.Range(1, 3))
	mc := int64(pickFrom(rng, []int{2000, 2000, 5000, 10000}))
	fund := func(key, n int) kernel.Step {
		a := []int64{int64(key), int64(rng.Intn(6)), int64(rng.Intn(35))}
		for i := 0; i < n; i++ {
			a = append(a, int64(rng.Range(10_000_000, 2_000_000_000)), int64(pickW(rng, 20, 60, 20)))
		}
		return kernel.Step{Op: "fund", A: a}
	}
	wd := func(key int, mode, x, ak int64) kernel.Step {
		ff := int64(0)
		if rng.Chance(0.1) {
			ff = int64(rng.Range(1, 2))
		}
		return kernel.Step{Op: "withdraw", A: []int64{int64(key), mode, x, rng.Int63() % 1000003, ak, int64(rng.Intn(4)), ff, int64(rng.Intn(14)), int64(rng.Intn(15))}}
	}
	for k := 0; k < nkeys; k++ {
		steps = append(steps, kernel.Step{Op: "param", A: []int64{int64(k), rate, mc, 0}}, fund(k, rng.Range(1, 3)))
	}
	rounds := rng.Range(2, 5)
	for r := 0; r < rounds; r++ {
		key := rng.Intn(nkeys)
		// the vault pays itself a modest amount out of a large output, and the round is signed
		steps = append(steps, wd(key, 0, int64(rng.Range(30_000, 3_000_000)), 5), kernel.Step{Op: "sign", A: []int64{1000, 100}})
		for i, n := 0, rng.Range(1, 4); i < n; i++ {
			switch pickW(rng, 35, 20, 15, 15, 10, 5) {
			case 0: // the smallest output (typically the self-paid sibling) minus a boundary distance
				steps = append(steps, wd(key, 9, rng.Int63()%5, int64(rng.Intn(4))))
			case 1:
				steps = append(steps, wd(key, 1, rng.Int63()%1000003, int64(rng.Intn(4))))
			case 2:
				steps = append(steps, wd(key, int64(rng.Range(2, 4)), rng.Int63()%1000003, int64(rng.Intn(4))))
			case 3:
				steps = append(steps, wd(key, 0, int64(rng.Range(5_000, 1_000_000)), int64(rng.Intn(6))))
			case 4:
				steps = append(steps, kernel.Step{Op: "sign", A: []int64{int64(rng.Intn(8)), int64(pickFrom(rng, []int{0, 1, 100}))}})
			case 5:
				steps = append(steps, kernel.Step{Op: "restart", A: []int64{int64(rng.Intn(3))}})
			}
		}
	}
	return &kernel.Plan{Cfg: cfg, Steps: steps}
}

func pickW(rng *kernel.RNG, w ...int) int {
	t := 0
	for _, x := range w {
		t += x
	}
	r := rng.Intn(t)
	for i, x := range w {
		if r < x {
			return i
		}
		r -= x
	}
	return len(w) - 1
}

func pickFrom(rng *kernel.RNG, l []int) int { return l[rng.Intn(len(l))] }

// genValue: output values from dust to large.
func genValue(rng *kernel.RNG) int64 {
	switch pickW(rng, 8, 14, 30, 28, 15, 5) {
	case 0:
		return int64(rng.Range(1, 546))
	case 1:
		return int64(rng.Range(547, 20000))
	case 2:
		return int64(rng.Range(20001, 5_000_000))
	case 3:
		return int64(rng.Range(5_000_001, 1_000_000_000))
	case 4:
		return int64(rng.Range(1_000_000_001, 1_000_000_000_000))
	}
	return int64(rng.Range(1, 9)) * []int64{1000, 10000, 100000, 1000000, 100000000}[rng.Intn(5)] // round numbers
}

func genAmount(rng *kernel.RNG) int64 {
	switch pickW(rng, 6, 10, 30, 30, 20, 2, 2) {
	case 0:
		return int64(rng.Range(0, 600))
	case 1:
		return int64(rng.Range(600, 30000))
	case 2:
		return int64(rng.Range(30000, 5_000_000))
	case 3:
		return int64(rng.Range(5_000_000, 1_000_000_000))
	case 4:
		return int64(rng.Range(1_000_000_000, 2_000_000_000_000))
	case 5:
		return btcutil.MaxSatoshi + int64(rng.Range(0, 5))
	}
	return -int64(rng.Range(1, 1000))
}

var _ = sha256.Sum256
