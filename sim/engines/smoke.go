package engines

import (
	"time"
	"fmt"

	"polysim/chain"
	"polysim/kernel"
)

func init() {
	kernel.Register(&kernel.Check{ID: "SMOKE", Level: "exploration", QuickRuns: 4, ThoroughRuns: 4,
		Generate: func(rng *kernel.RNG, idx int, tier string) *kernel.Plan {
			return &kernel.Plan{Cfg: map[string]int64{"n": int64(4 + rng.Intn(4))}, Steps: []kernel.Step{{Op: "blk"}, {Op: "blk"}, {Op: "blk"}}}
		},
		Execute: func(run *kernel.Run) {
			w, err := chain.NewWorld(run, int(run.Plan.C("n", 4)), 1, 10)
			if err != nil {
				panic(err)
			}
			defer w.Close()
			p, err := w.NewNode("p")
			if err != nil {
				panic(err)
			}
			f, err := w.NewNode("f")
			if err != nil {
				panic(err)
			}
			for i := range run.Plan.Steps {
				run.StepNo = i
				blk, err := p.BuildBlock(&chain.BlockSpec{Nonce: uint64(i)})
				if err != nil {
					panic(err)
				}
				res, err := p.Produce(blk)
				if err != nil {
					panic(err)
				}
				if err := f.Sync(blk, res.MerkleRoot); err != nil {
					panic(err)
				}
				run.Logf("block %d hash %x root %x fh %d", blk.Header.Height, blk.Hash(), res.MerkleRoot, f.Height())
			}
			run.Nontrivial([]byte(fmt.Sprint(run.Plan.C("n", 4))))
		}})
}

func init() {
	kernel.Register(&kernel.Check{ID: "SMOKEB", Level: "exploration", QuickRuns: 4, ThoroughRuns: 4,
		Generate: func(rng *kernel.RNG, idx int, tier string) *kernel.Plan {
			return &kernel.Plan{Cfg: map[string]int64{"n": 4}, Steps: []kernel.Step{{Op: "blk"}, {Op: "blk"}}}
		},
		Execute: func(run *kernel.Run) {
			kernel.InBubble(func() {
				w, err := chain.NewWorld(run, 4, 1, 10)
				if err != nil {
					panic(err)
				}
				defer w.Close()
				p, err := w.NewNode("p")
				if err != nil {
					panic(err)
				}
				for i := range run.Plan.Steps {
					blk, err := p.BuildBlock(&chain.BlockSpec{Nonce: uint64(i)})
					if err != nil {
						panic(err)
					}
					if _, err := p.Produce(blk); err != nil {
						panic(err)
					}
					kernel.Advance(2 * time.Hour)
					run.Logf("block %d now=%d", blk.Header.Height, time.Now().Unix())
				}
				run.Nontrivial([]byte{1})
			})
		}})
}
