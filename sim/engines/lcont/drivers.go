package lcont

import (
	"encoding/binary"

	"github.com/polynetwork/poly/account"
	"github.com/polynetwork/poly/core/types"
	hscom "github.com/polynetwork/poly/native/service/header_sync/common"
	"github.com/polynetwork/poly/native/service/utils"

	"polysim/chain"
	"polysim/engines/e1"
	"polysim/engines/lc"
)

// Router drivers for the router-generic checks (C19, C16-clock). None of the three routers
// reads the wall clock, so FutureHeader returns nil (Timestamped() == false).

func init() {
	lc.Register(ontDriver{})
	lc.Register(neoDriver{fam: 1})
	lc.Register(neoDriver{fam: 2})
}

func statePrefix(name string, chainID uint64) []byte {
	b := append([]byte{}, chain.HeaderSync[:]...)
	b = append(b, name...)
	return append(b, u64(chainID)...)
}

// ---- Ontology ----

type ontDriver struct{}

func (ontDriver) Name() string   { return "ont" }
func (ontDriver) Router() uint64 { return utils.ONT_ROUTER }

func (ontDriver) NewChain(h *e1.Harness, chainID uint64, seed uint64) (lc.Chain, error) {
	c := newOntChain(seed, chainID, 4+int(seed%4), uint32(seed%3)*1000, ontMaxH,
		[]ontChange{{off: 3, mask: int64(seed>>8) & 0x3ff}, {off: 9, mask: int64(seed>>20) & 0x3ff}})
	if err := h.RegisterChain(chainID, utils.ONT_ROUTER, "ont", 1, c.ccmc, nil); err != nil {
		return nil, err
	}
	return &ontLC{h: h, c: c, next: c.g0 + 1}, nil
}

type ontLC struct {
	h     *e1.Harness
	c     *ontChain
	next  uint32
	other uint32 // number of "other height" trust roots handed out (variant 3)
}

func (l *ontLC) GenesisTx(variant int) *types.Transaction {
	var raw []byte
	switch variant % 4 {
	case 3: // another trust root (its own chain config) at a height where nothing is stored:
		// alternately above the synced tip and below the first root
		l.other++
		h := l.next + 2 + l.other
		if l.other%2 == 0 && l.c.g0 > 0 {
			h = l.c.g0 - 1 - (l.other/2)%l.c.g0
		}
		set := append([]*account.Account{}, l.c.pool[ontPool-5:]...)
		raw = sealHeader(l.c.build(h, 8888+uint64(l.other), chainConfig(1, set, false)), seal{})
	case 0:
		raw, _ = l.c.sealed(l.c.g0, 12, 0, 0)
	case 1: // another peer set (and header) at the same height
		raw = sealHeader(l.c.altGenesis(), seal{})
	case 2: // the same header data with another bookkeeper list / signatures
		raw, _ = l.c.sealed(l.c.g0, 0, 1, 5)
	}
	return l.h.Operator(chain.HeaderSync, hscom.SYNC_GENESIS_HEADER, chain.Args(&hscom.SyncGenesisHeaderParam{ChainID: l.c.id, GenesisHeader: raw}))
}

func (l *ontLC) NextHeaders(k int) *types.Transaction {
	var raws [][]byte
	for i := 0; i < k; i++ {
		raw, _ := l.c.sealed(l.next, 0, int64(l.next), 0)
		raws = append(raws, raw)
		l.next++
	}
	rel := l.h.User(1)
	return l.h.Signed(chain.HeaderSync, hscom.SYNC_BLOCK_HEADER, chain.Args(&hscom.SyncBlockHeaderParam{ChainID: l.c.id, Address: rel.Address, Headers: raws}), rel)
}

func (l *ontLC) StatePrefixes() [][]byte {
	var out [][]byte
	for _, n := range []string{hscom.BLOCK_HEADER, hscom.HEADER_INDEX, hscom.CURRENT_HEADER_HEIGHT, hscom.CONSENSUS_PEER, hscom.CONSENSUS_PEER_BLOCK_HEIGHT,
		hscom.KEY_HEIGHTS, hscom.CROSS_CHAIN_MSG, hscom.CURRENT_MSG_HEIGHT} {
		out = append(out, statePrefix(n, l.c.id))
	}
	return out
}

func (l *ontLC) Timestamped() bool                              { return false }
func (l *ontLC) FutureHeader(aheadSec int64) *types.Transaction { return nil }

// ---- NEO 2 / NEO N3 ----

type neoDriver struct{ fam int64 }

func (d neoDriver) Name() string {
	if d.fam == 2 {
		return "neo3"
	}
	return "neo"
}

func (d neoDriver) Router() uint64 {
	if d.fam == 2 {
		return utils.NEO3_ROUTER
	}
	return utils.NEO_ROUTER
}

func (d neoDriver) NewChain(h *e1.Harness, chainID uint64, seed uint64) (lc.Chain, error) {
	var cd neoCodec = neo2Codec{}
	if d.fam == 2 {
		cd = neo3Codec{}
	}
	c := newNeoChain(cd, seed, chainID, 4+int(seed%4), uint32(seed%3)*500, neoMaxI,
		[]neoChange{{off: 2, mask: int64(seed>>8) & 0x3ff}, {off: 7, mask: int64(seed>>20) & 0x3ff}})
	var extra []byte
	if d.fam == 2 {
		c.ccmc = []byte{7, 0, 0, 0}
		extra = binary.LittleEndian.AppendUint32(nil, c.magic)
	}
	if err := h.RegisterChain(chainID, d.Router(), d.Name(), 1, c.ccmc, extra); err != nil {
		return nil, err
	}
	c.adoptMagic(h)
	return &neoLC{h: h, c: c, next: c.g0 + 1}, nil
}

type neoLC struct {
	h     *e1.Harness
	c     *neoChain
	next  uint32
	other uint32
}

func (l *neoLC) GenesisTx(variant int) *types.Transaction {
	var raw []byte
	if variant%4 == 3 { // another trust root at another index: alternately above the tip and below the first root
		l.other++
		idx := l.next + 2 + l.other
		if l.other%2 == 0 && l.c.g0 > 0 {
			idx = l.c.g0 - 1 - (l.other/2)%l.c.g0
		}
		raw = l.c.cd.header(idx, l.c.alt.hash, 9000+uint64(l.other), nil, []byte{0})
	} else {
		raw, _ = l.c.genesis(int64(variant % 4)) // 0 real, 1 other next-consensus, 2 same data with a witness attached
	}
	return l.h.Operator(chain.HeaderSync, hscom.SYNC_GENESIS_HEADER, chain.Args(&hscom.SyncGenesisHeaderParam{ChainID: l.c.id, GenesisHeader: raw}))
}

// NextHeaders syncs the next headers of the canonical chain, at most k and never beyond the
// first validator-change header (the router evaluates every header of one transaction
// against the validators tracked when the transaction started).
func (l *neoLC) NextHeaders(k int) *types.Transaction {
	var raws [][]byte
	for i := 0; i < k; i++ {
		raw, _, change := l.c.canonical(l.next, 0, int64(l.next), 0)
		raws = append(raws, raw)
		l.next++
		if change {
			break
		}
	}
	rel := l.h.User(1)
	return l.h.Signed(chain.HeaderSync, hscom.SYNC_BLOCK_HEADER, chain.Args(&hscom.SyncBlockHeaderParam{ChainID: l.c.id, Address: rel.Address, Headers: raws}), rel)
}

func (l *neoLC) StatePrefixes() [][]byte {
	return [][]byte{statePrefix(hscom.CONSENSUS_PEER, l.c.id)}
}

func (l *neoLC) Timestamped() bool                              { return false }
func (l *neoLC) FutureHeader(aheadSec int64) *types.Transaction { return nil }
