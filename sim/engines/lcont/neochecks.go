package lcont

import (
	"encoding/binary"
	"fmt"

	"github.com/polynetwork/poly/account"
	"github.com/polynetwork/poly/native/service/utils"

	"polysim/chain"
	"polysim/engines/e1"
	"polysim/kernel"
)

func neoCfg(rng *kernel.RNG, cfg map[string]int64, fam int64) []neoChange {
	cfg["fam"] = fam
	cfg["n0"] = int64(4 + rng.Intn(4))
	g0s := []int64{0, 0, 5000}
	cfg["g0"] = g0s[rng.Intn(len(g0s))]
	ne := 1 + rng.Intn(3)
	cfg["ne"] = int64(ne)
	var chs []neoChange
	for e := 1; e <= ne; e++ {
		off := int64(1 + rng.Intn(neoMaxI-3))
		mask := int64(rng.Intn(1 << ontPool))
		cfg[fmt.Sprintf("off%d", e)], cfg[fmt.Sprintf("mask%d", e)] = off, mask
		chs = append(chs, neoChange{off: off, mask: mask})
	}
	if fam == 2 {
		// tracked state-validator sets of every size 1..10, sizes divisible by 3 over-weighted
		cfg["nsv0"] = int64(1 + rng.Intn(10))
		if rng.Chance(0.45) {
			cfg["nsv0"] = []int64{3, 6, 9}[rng.Intn(3)]
		}
	}
	return chs
}

func neoChainOf(pl *kernel.Plan, seed uint64) *neoChain {
	var chs []neoChange
	ne := int(pl.C("ne", 1))
	if ne > 3 {
		ne = 3
	}
	for e := 1; e <= ne; e++ {
		chs = append(chs, neoChange{off: pl.C(fmt.Sprintf("off%d", e), int64(4*e)), mask: pl.C(fmt.Sprintf("mask%d", e), 0x1e<<uint(e))})
	}
	g0 := pl.C("g0", 0)
	if g0 < 0 || g0 > 1<<30 {
		g0 = 0
	}
	var cd neoCodec = neo2Codec{}
	id := uint64(neoChainID)
	if pl.C("fam", 1) == 2 {
		cd, id = neo3Codec{}, neo3ChainID
	}
	c := newNeoChain(cd, seed, id, int(pl.C("n0", 4)), uint32(g0), neoMaxI, chs)
	if pl.C("fam", 1) == 2 {
		c.ccmc = []byte{7, 0, 0, 0}
	}
	return c
}

var neoFaults = []int64{1, 2, 3, 4, 5, 6, 7, 9, 10, 11}
var neoHonest = []int64{0, 0, 0, 8}

func genNeoC31(rng *kernel.RNG, tier string, fam int64) *kernel.Plan {
	cfg := baseCfg(rng)
	chs := neoCfg(rng, cfg, fam)
	c := newNeoChain(neo2Codec{}, 0, 0, int(cfg["n0"]), 0, neoMaxI, chs) // schedule only
	faults := pickEnabled(rng, neoFaults)
	var steps []kernel.Step
	cut := func(p float64) {
		if rng.Chance(p) {
			steps = append(steps, st("cut"))
		}
	}
	r := func() int64 { return int64(rng.Intn(1000)) }
	join := func() int64 { return int64(rng.Intn(5) / 4) }
	if rng.Chance(0.10) {
		steps = append(steps, st("nhdr", int64(c.epochs[len(c.epochs)-1].at)-1, 0, 0, r(), r(), 0), st("cut"))
	}
	if rng.Chance(0.10) {
		steps = append(steps, st("ngen", int64(rng.Intn(2)), 1), st("cut"))
	}
	steps = append(steps, st("ngen", 0, 0), st("cut"))
	prevAt := int64(0)
	for e := 1; e < len(c.epochs); e++ {
		at := int64(c.epochs[e].at)
		if rng.Chance(0.12) && e+1 < len(c.epochs) { // out of order: the next change first
			steps = append(steps, st("nhdr", int64(c.epochs[e+1].at)-1, 0, 0, r(), r(), 0))
			cut(0.7)
		}
		for i := 0; i < 2 && at-1 > prevAt && rng.Chance(0.4); i++ { // headers without a change
			steps = append(steps, st("nhdr", prevAt+int64(rng.Intn(int(at-1-prevAt))), 0, neoHonest[rng.Intn(len(neoHonest))], r(), r(), join()))
			cut(0.5)
		}
		for len(faults) > 0 && rng.Chance(0.6) {
			mode := faults[rng.Intn(len(faults))]
			if rng.Chance(0.6) {
				steps = append(steps, st("nhdr", at-1, 0, mode, r(), r(), join())) // the real change header, badly witnessed
			} else {
				steps = append(steps, st("nhdr", at-1+int64(rng.Intn(3)), 1, mode, r(), r(), join())) // a forged change
			}
			cut(0.6)
		}
		if rng.Chance(0.35) { // change at an index not above the tracked one, validly witnessed
			steps = append(steps, st("nhdr", r(), 2, neoHonest[rng.Intn(len(neoHonest))], r(), r(), join()))
			cut(0.7)
		}
		if rng.Chance(0.05) { // the tracked validators equivocate: accepted, the light client leaves the canonical chain
			steps = append(steps, st("nhdr", at-1, 1, 0, r(), r(), 0))
			cut(0.8)
		}
		steps = append(steps, st("nhdr", at-1, 0, neoHonest[rng.Intn(len(neoHonest))], r(), r(), join()))
		cut(0.7)
		if rng.Chance(0.25) { // replay of an earlier change header
			steps = append(steps, st("nhdr", int64(c.epochs[1+rng.Intn(e)].at)-1, 0, int64(rng.Intn(neoModes)), r(), r(), join()))
			cut(0.7)
		}
		if rng.Chance(0.25) && len(faults) > 0 { // lower index with a faulty witness
			steps = append(steps, st("nhdr", r(), 2, faults[rng.Intn(len(faults))], r(), r(), join()))
			cut(0.7)
		}
		if rng.Chance(0.04) {
			steps = append(steps, st("cut"), st("restart", int64(rng.Intn(2))))
		}
		if rng.Chance(0.08) {
			steps = append(steps, st("cut"), st("ngen", int64(rng.Intn(3)), int64(rng.Intn(3)/2)), st("cut"))
		}
		prevAt = at
	}
	for i := 0; i < 2 && rng.Chance(0.5); i++ {
		steps = append(steps, st("nhdr", r(), int64(1+rng.Intn(2)), int64(rng.Intn(neoModes)), r(), r(), 0))
		cut(0.7)
	}
	steps = append(steps, st("cut"))
	return &kernel.Plan{Cfg: cfg, Steps: steps}
}

func genNeoC24(rng *kernel.RNG, tier string, fam int64) *kernel.Plan {
	cfg := baseCfg(rng)
	chs := neoCfg(rng, cfg, fam)
	c := newNeoChain(neo2Codec{}, 0, 0, int(cfg["n0"]), 0, neoMaxI, chs)
	faults := pickEnabled(rng, neoFaults)
	var steps []kernel.Step
	r := func() int64 { return int64(rng.Intn(1000)) }
	steps = append(steps, st("ngen", 0, 0), st("cut"))
	next := 1 // next epoch whose change header has not been synced
	sync := func() {
		if next < len(c.epochs) {
			steps = append(steps, st("nhdr", int64(c.epochs[next].at)-1, 0, 0, r(), r(), 0), st("cut"))
			next++
		}
	}
	for k := rng.Intn(len(c.epochs)); k > 0; k-- {
		sync()
	}
	n := 8 + rng.Intn(12)
	for i := 0; i < n; i++ {
		for len(faults) > 0 && rng.Chance(0.5) {
			steps = append(steps, st("ndep", faults[rng.Intn(len(faults))], r(), r(), r(), 0))
			if rng.Chance(0.7) {
				steps = append(steps, st("cut"))
			}
		}
		if fam == 2 { // N3: k-of-n scripts over the tracked state validators, k = m-1 / m+1 (always on)
			if rng.Chance(0.4) {
				steps = append(steps, st("ndep", 10, r(), r(), r(), 0))
				if rng.Chance(0.7) {
					steps = append(steps, st("cut"))
				}
			}
			if rng.Chance(0.15) {
				steps = append(steps, st("ndep", 11, r(), r(), r(), 0), st("cut"))
			}
		}
		steps = append(steps, st("ndep", neoHonest[rng.Intn(len(neoHonest))], r(), r(), r(), 0))
		if rng.Chance(0.7) {
			steps = append(steps, st("cut"))
		}
		if rng.Chance(0.12) {
			steps = append(steps, st("ndep", int64(rng.Intn(neoModes)), r(), r(), r(), 7)) // replayed state (C20 probe)
		}
		if rng.Chance(0.12) {
			if fam == 2 {
				steps = append(steps, st("nsv", int64(rng.Intn(2)), r()))
			} else {
				sync()
			}
		}
		if rng.Chance(0.03) {
			steps = append(steps, st("cut"), st("restart", int64(rng.Intn(2))))
		}
	}
	steps = append(steps, st("cut"))
	return &kernel.Plan{Cfg: cfg, Steps: steps}
}

func execNeoFam(run *kernel.Run, fam int64) {
	h := newHarness(run)
	defer h.Close()
	c := neoChainOf(run.Plan, run.Plan.Seed)
	router, name, extra := uint64(utils.NEO_ROUTER), "neo", []byte(nil)
	if fam == 2 {
		router, name, extra = utils.NEO3_ROUTER, "neo3", binary.LittleEndian.AppendUint32(nil, c.magic)
	}
	if err := h.RegisterChain(c.id, router, name, 1, c.ccmc, extra); err != nil {
		panic(err)
	}
	if err := h.RegisterChain(c.dst, utils.ETH_ROUTER, "dst", 1, []byte{0xdd}, nil); err != nil {
		panic(err)
	}
	c.adoptMagic(h)
	r := &neoRun{run: run, h: h, c: c, fam: fam, done: map[string]bool{}}
	if fam == 2 {
		n := int(run.Plan.C("nsv0", 4))
		if n < 1 {
			n = 1
		}
		if n > ontPool {
			n = ontPool
		}
		r.svChange(true, c.pool[ontPool-n:])
	}
	for i, s := range run.Plan.Steps {
		run.StepNo = i
		run.Steps++
		switch s.Op {
		case "cut":
			r.cut()
		case "restart":
			r.cut()
			if !r.stop {
				if err := h.Restart(int(abs64(s.Arg(0)))); err != nil {
					run.Fail("C12", "clean-restart-failed", "restart failed: %v", err)
					r.stop = true
				}
			}
		case "nsv":
			r.cut()
			if fam == 2 && !r.stop {
				r.svStep(s)
			}
		default:
			r.step(i, s)
		}
		if r.stop || run.Failed() {
			break
		}
	}
	if !r.stop {
		r.cut()
	}
	if r.nAcc > 0 && r.nRejBad > 0 {
		run.Nontrivial(r.sig)
	}
	var eps []string
	for _, ep := range c.epochs {
		eps = append(eps, fmt.Sprintf("index %d: %d validators, m=%d", ep.at, len(ep.set.members), ep.set.m))
	}
	run.Sample = map[string]interface{}{"family": c.cd.name(), "epochs": eps, "accepted_honest": r.nAcc, "rejected_or_ignored_faulty": r.nRejBad, "steps": len(run.Plan.Steps)}
}

// svStep adds or removes one N3 state validator (keeping 1..7 of them).
func (r *neoRun) svStep(s kernel.Step) {
	cur := r.svCur
	in := map[string]bool{}
	for _, a := range cur {
		in[chain.PubHex(a)] = true
	}
	if abs64(s.Arg(0))%2 == 0 && len(cur) > 1 {
		r.svChange(false, []*account.Account{cur[int(abs64(s.Arg(1)))%len(cur)]})
		return
	}
	if len(cur) >= ontPool {
		return
	}
	for i := 0; i < ontPool; i++ {
		a := r.c.pool[(int(abs64(s.Arg(1)))+i)%ontPool]
		if !in[chain.PubHex(a)] {
			r.svChange(true, []*account.Account{a})
			return
		}
	}
}

func execNeo(run *kernel.Run)  { execNeoFam(run, 1) }
func execNeo3(run *kernel.Run) { execNeoFam(run, 2) }

// adoptMagic: the N3 network magic poly uses is the registered side chain's ExtraInfo. On main
// net and test net the registry drops ExtraInfo below a fork height of the relay chain
// (SideChain.Serialization), so poly then verifies N3 witnesses with magic 0: the simulated
// chain signs for the magic poly actually holds.
func (c *neoChain) adoptMagic(h *e1.Harness) {
	c.magic = 0
	if sc := h.View().SideChain(c.id); sc != nil && len(sc.ExtraInfo) > 0 {
		b := append(append([]byte{}, sc.ExtraInfo...), 0, 0, 0, 0)
		c.magic = binary.LittleEndian.Uint32(b[:4])
	}
}
