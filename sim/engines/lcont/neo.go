package lcont

import (
	"bytes"
	"crypto/ecdsa"
	"crypto/sha256"
	"encoding/binary"
	"encoding/hex"
	"fmt"
	"sort"

	"github.com/polynetwork/poly/account"
	ccom "github.com/polynetwork/poly/native/service/cross_chain_manager/common"
	"golang.org/x/crypto/ripemd160"

	"polysim/chain"
	"polysim/engines/e1"
)

// ---------------------------------------------------------------------------------------
// Simulated NEO 2 / NEO N3 side chain (shared part; the two wire formats are codecs)
// ---------------------------------------------------------------------------------------

type hash160 [20]byte

func scriptHash(script []byte) hash160 {
	s := sha256.Sum256(script)
	r := ripemd160.New()
	r.Write(s[:])
	var h hash160
	copy(h[:], r.Sum(nil))
	return h
}

// neoCodec is the wire format of one NEO generation.
type neoCodec interface {
	name() string                                   // probe prefix: "neo" / "neo3"
	script(m int, sorted []*account.Account) []byte // m-of-n CHECKMULTISIG verification script
	invocation(sigs [][]byte) []byte                // pushes of 64-byte signatures
	splitInvocation(inv []byte) ([][]byte, bool)    // reference parser of the oracle
	header(idx uint32, next hash160, variant uint64, inv, ver []byte) []byte
	parseHeader(raw []byte, magic uint32) (idx uint32, next hash160, inv, ver, msg []byte, err error)
	stateRoot(idx uint32, root []byte, inv, ver []byte) []byte
	parseStateRoot(raw []byte, magic uint32) (idx uint32, inv, ver, msg []byte, err error)
	proof(ccmc []byte, key, value []byte) (proof []byte, root []byte)
	proofNodes(ccmc []byte, key, value []byte) (skey []byte, nodes [][]byte, root []byte) // single-entry trie
	proof2(ccmc []byte, k1, v1, k2, v2 []byte) (skey []byte, nodes [][]byte, root []byte) // two-entry trie, proof of the first
	tracked(v e1.View, chainID uint64) (uint32, hash160, bool)
}

// neoSet is a validator set with its m-of-n script.
type neoSet struct {
	members []*account.Account // sorted by public key (X, then Y), the order of the script
	m       int
	script  []byte
	hash    hash160
	label   string
}

type neoEpoch struct {
	at  uint32 // index of the header that announces this set (epoch 0: the trust root)
	set *neoSet
}

type neoChain struct {
	cd     neoCodec
	seed   uint64
	id     uint64
	pool   []*account.Account
	out    []*account.Account
	byPub  map[string]*account.Account
	g0     uint32
	maxI   uint32
	epochs []neoEpoch
	reg    map[hash160]*neoSet
	ccmc   []byte
	magic  uint32
	dst    uint64
	evil   *neoSet
	alt    *neoSet
}

func sortByPub(in []*account.Account) []*account.Account {
	out := append([]*account.Account{}, in...)
	sort.SliceStable(out, func(i, j int) bool {
		a, b := pubECDSA(out[i]), pubECDSA(out[j])
		if c := a.X.Cmp(b.X); c != 0 {
			return c < 0
		}
		return a.Y.Cmp(b.Y) < 0
	})
	return out
}

func neoM(n int) int { return n - (n-1)/3 }

// mkSet builds and registers the m-of-n script of a validator set (m<=0: the NEO rule n-(n-1)/3).
func (c *neoChain) mkSet(accts []*account.Account, m int, label string) *neoSet {
	s := &neoSet{members: sortByPub(accts), m: m, label: label}
	if s.m <= 0 {
		s.m = neoM(len(accts))
	}
	s.script = c.cd.script(s.m, s.members)
	s.hash = scriptHash(s.script)
	if old, ok := c.reg[s.hash]; ok {
		return old
	}
	c.reg[s.hash] = s
	return s
}

type neoChange struct {
	off  int64
	mask int64
}

func newNeoChain(cd neoCodec, seed, id uint64, n0 int, g0, maxI uint32, changes []neoChange) *neoChain {
	c := &neoChain{cd: cd, seed: seed, id: id, g0: g0, maxI: maxI, reg: map[hash160]*neoSet{}, byPub: map[string]*account.Account{}, dst: dstChainID, magic: 0x334f454e}
	for i := 0; i < ontPool; i++ {
		c.pool = append(c.pool, chain.NewAccount(seed, fmt.Sprintf("neoval%d", i)))
	}
	for i := 0; i < ontOutsider; i++ {
		c.out = append(c.out, chain.NewAccount(seed, fmt.Sprintf("neoout%d", i)))
	}
	for _, a := range append(append([]*account.Account{}, c.pool...), c.out...) {
		c.byPub[chain.PubHex(a)] = a
	}
	if n0 < 4 {
		n0 = 4
	}
	if n0 > 7 {
		n0 = 7
	}
	c.epochs = []neoEpoch{{at: g0, set: c.mkSet(c.pool[:n0], 0, "epoch0")}}
	seen := map[uint32]bool{g0: true}
	var rest []neoEpoch
	for _, ch := range changes {
		if maxI < 3 {
			break
		}
		at := g0 + 1 + uint32(abs64(ch.off)%int64(maxI-1))
		if seen[at] {
			continue
		}
		seen[at] = true
		var accts []*account.Account
		for _, i := range maskMembers(ch.mask, ontPool) {
			accts = append(accts, c.pool[i])
		}
		rest = append(rest, neoEpoch{at: at, set: c.mkSet(accts, 0, "")})
	}
	sort.Slice(rest, func(i, j int) bool { return rest[i].at < rest[j].at })
	for i := range rest {
		rest[i].set.label = fmt.Sprintf("epoch%d", i+1)
	}
	// consecutive equal sets are no change at all: drop them
	for _, ep := range rest {
		if ep.set.hash != c.epochs[len(c.epochs)-1].set.hash {
			c.epochs = append(c.epochs, ep)
		}
	}
	c.evil = c.mkSet(c.out, 0, "outsiders")
	c.alt = c.mkSet(c.pool[ontPool-4:], 0, "alt-root")
	c.ccmc = sha(append([]byte("neoccmc"), binary.LittleEndian.AppendUint64(nil, seed)...))[:20]
	return c
}

// epochAfter: index of the epoch whose set is announced at or before idx (its hash is the
// NextConsensus of header idx).
func (c *neoChain) epochAfter(idx uint32) int {
	e := 0
	for i, ep := range c.epochs {
		if ep.at <= idx {
			e = i
		}
	}
	return e
}

// epochBefore: the epoch whose set signs header idx.
func (c *neoChain) epochBefore(idx uint32) int {
	e := 0
	for i, ep := range c.epochs {
		if ep.at < idx {
			e = i
		}
	}
	return e
}

const neoModes = 12

var neoModeNames = []string{"honest", "below-m", "dup-sig", "other-script", "lowered-m", "bad-sig", "prev-set", "reversed", "all-n", "superset-script", "m-minus-one-script", "m-plus-one-script"}

func neoFaultLabel(l string) bool { return l != "honest" && l != "all-n" }

// witness signs msg according to a fault mode. t is the set entitled to sign, prev the set
// that was entitled before it (may be nil).
func (c *neoChain) witness(msg []byte, t, prev *neoSet, mode, p, q int64) (inv, ver []byte, label string) {
	digest := sha(msg)
	sg := func(a *account.Account) []byte { return sign64(privD(a), digest, uint64(abs64(q)%7)) }
	// choose k members of a set, in script order, starting the choice at p
	pick := func(s *neoSet, k int) []*account.Account {
		n := len(s.members)
		chosen := map[int]bool{}
		for i := 0; i < k && i < n; i++ {
			chosen[(int(abs64(p))+i)%n] = true
		}
		var out []*account.Account
		for i, a := range s.members {
			if chosen[i] {
				out = append(out, a)
			}
		}
		return out
	}
	sigsOf := func(as []*account.Account) [][]byte {
		var out [][]byte
		for _, a := range as {
			out = append(out, sg(a))
		}
		return out
	}
	m := int(abs64(mode) % neoModes)
	label = neoModeNames[m]
	switch m {
	case 0:
		return c.cd.invocation(sigsOf(pick(t, t.m))), t.script, label
	case 1:
		return c.cd.invocation(sigsOf(pick(t, t.m-1))), t.script, label
	case 2:
		sel := pick(t, t.m-1)
		if len(sel) == 0 { // m = 1 (a single state validator): the one signer twice
			sel = pick(t, 1)
		}
		sigs := sigsOf(sel)
		sigs = append([][]byte{sigs[0]}, sigs...) // the first signer twice: m entries, m-1 distinct
		return c.cd.invocation(sigs), t.script, label
	case 3:
		return c.cd.invocation(sigsOf(pick(c.evil, c.evil.m))), c.evil.script, label
	case 4:
		low := c.mkSet(t.members, 1, "lowered-m")
		return c.cd.invocation(sigsOf(pick(low, 1))), low.script, label
	case 5:
		sel := pick(t, t.m)
		sigs := sigsOf(sel)
		bad := int(abs64(q)) % len(sigs)
		switch abs64(p) % 3 {
		case 0:
			sigs[bad][45] ^= 0x04
		case 1:
			sigs[bad] = sign64(privD(sel[bad]), sha(append([]byte("x"), msg...)), 0)
		case 2:
			sigs[bad] = sg(c.out[0])
		}
		return c.cd.invocation(sigs), t.script, label
	case 6:
		if prev == nil || prev.hash == t.hash {
			return c.cd.invocation(sigsOf(pick(c.evil, c.evil.m))), c.evil.script, "other-script"
		}
		return c.cd.invocation(sigsOf(pick(prev, prev.m))), prev.script, label
	case 7:
		sigs := sigsOf(pick(t, t.m))
		for i, j := 0, len(sigs)-1; i < j; i, j = i+1, j-1 {
			sigs[i], sigs[j] = sigs[j], sigs[i]
		}
		return c.cd.invocation(sigs), t.script, label
	case 8:
		return c.cd.invocation(sigsOf(t.members)), t.script, label
	case 9:
		if len(t.members) >= 7 {
			return c.cd.invocation(sigsOf(pick(c.evil, c.evil.m))), c.evil.script, "other-script"
		}
		sup := c.mkSet(append(append([]*account.Account{}, t.members...), c.out[0]), t.m, "superset")
		var sel []*account.Account
		for _, a := range sup.members { // the m honest members sign, in the superset's order
			if a != c.out[0] && len(sel) < t.m {
				sel = append(sel, a)
			}
		}
		return c.cd.invocation(sigsOf(sel)), sup.script, label
	case 10, 11:
		// a k-of-n script over exactly the entitled keys with k = m-1 / m+1 and exactly k valid
		// distinct signers (NEO's rule is m = n-(n-1)/3: k = m-1 must never be enough)
		k := t.m - 1
		if m == 11 {
			k = t.m + 1
		}
		if k < 1 || k > len(t.members) {
			return c.cd.invocation(sigsOf(pick(c.evil, c.evil.m))), c.evil.script, "other-script"
		}
		ks := c.mkSet(t.members, k, fmt.Sprintf("%d-of-%d", k, len(t.members)))
		return c.cd.invocation(sigsOf(pick(ks, k))), ks.script, label
	}
	return nil, nil, label
}

// signedHeader builds the header of index idx announcing `next`, witnessed under a mode.
func (c *neoChain) signedHeader(idx uint32, next hash160, variant uint64, t, prev *neoSet, mode, p, q int64) ([]byte, string) {
	unsigned := c.cd.header(idx, next, variant, nil, []byte{0})
	_, _, _, _, msg, err := c.cd.parseHeader(unsigned, c.magic)
	if err != nil {
		panic(err)
	}
	inv, ver, label := c.witness(msg, t, prev, mode, p, q)
	return c.cd.header(idx, next, variant, inv, ver), label
}

// canonical returns the honest chain's header idx witnessed under a mode.
func (c *neoChain) canonical(idx uint32, mode, p, q int64) ([]byte, string, bool) {
	eb, ea := c.epochBefore(idx), c.epochAfter(idx)
	var prev *neoSet
	if eb > 0 {
		prev = c.epochs[eb-1].set
	}
	raw, label := c.signedHeader(idx, c.epochs[ea].set.hash, 0, c.epochs[eb].set, prev, mode, p, q)
	return raw, label, ea != eb
}

func (c *neoChain) genesis(variant int64) ([]byte, string) {
	switch abs64(variant) % 3 {
	case 1:
		return c.cd.header(c.g0, c.alt.hash, 9, nil, []byte{0}), "other-set"
	case 2:
		raw, _ := c.signedHeader(c.g0, c.epochs[0].set.hash, 0, c.epochs[0].set, nil, 0, 0, 0)
		return raw, "re-encoded"
	}
	return c.cd.header(c.g0, c.epochs[0].set.hash, 0, nil, []byte{0}), "real"
}

// ---- cross-chain states and proofs ----

func (c *neoChain) h32(label string, a, b uint64) []byte {
	x := binary.LittleEndian.AppendUint64(nil, c.seed)
	x = append(x, label...)
	x = binary.LittleEndian.AppendUint64(x, a)
	x = binary.LittleEndian.AppendUint64(x, b)
	return sha(x)
}

// state returns the serialized cross-chain state number n, its storage key and cross-chain id.
func (c *neoChain) state(n uint64) (value, key, ccid []byte) {
	ccid = c.h32("ccid", n, 0)
	p := &ccom.MakeTxParam{TxHash: c.h32("srctx", n, 0), CrossChainID: ccid, FromContractAddress: []byte{0xf1, byte(n)}, ToChainID: c.dst,
		ToContractAddress: []byte{0xd1, byte(n)}, Method: "unlock", Args: []byte{byte(n)}}
	var b bytes.Buffer
	wr := func(v []byte) { b.Write(polyVarBytes(v)) }
	wr(p.TxHash)
	wr(p.CrossChainID)
	wr(p.FromContractAddress)
	b.Write(binary.LittleEndian.AppendUint64(nil, p.ToChainID))
	wr(p.ToContractAddress)
	wr([]byte(p.Method))
	wr(p.Args)
	return b.Bytes(), append([]byte("request"), ccid[:8]...), ccid
}

func polyVarBytes(v []byte) []byte {
	n := len(v)
	var out []byte
	switch {
	case n < 0xfd:
		out = []byte{byte(n)}
	default:
		out = []byte{0xfd, byte(n), byte(n >> 8)}
	}
	return append(out, v...)
}

// neoVar is NEO's var-int length prefix (same layout as poly's for the sizes used here).
func neoVarBytes(v []byte) []byte { return polyVarBytes(v) }

// signedRoot returns a state-root message for state n (index idx) witnessed under a mode,
// together with the proof of the state.
func (c *neoChain) signedRoot(idx uint32, n uint64, t, prev *neoSet, mode, p, q int64) (msgRaw, proof, ccid []byte, label string) {
	value, key, ccid := c.state(n)
	proof, root := c.cd.proof(c.ccmc, key, value)
	unsigned := c.cd.stateRoot(idx, root, nil, []byte{0})
	_, _, _, msg, err := c.cd.parseStateRoot(unsigned, c.magic)
	if err != nil {
		panic(err)
	}
	inv, ver, label := c.witness(msg, t, prev, mode, p, q)
	return c.cd.stateRoot(idx, root, inv, ver), proof, ccid, label
}

// ---------------------------------------------------------------------------------------
// Reference checks (from the property text)
// ---------------------------------------------------------------------------------------

// distinctWitnessSigners: the number of DISTINCT members of set s for which the invocation
// script carries a valid signature over msg. ok=false if the witness is not for s's script.
func (c *neoChain) distinctWitnessSigners(s *neoSet, msg, inv, ver []byte) (int, bool) {
	if s == nil || !bytes.Equal(ver, s.script) {
		return 0, false
	}
	sigs, ok := c.cd.splitInvocation(inv)
	if !ok {
		return 0, true
	}
	digest := sha(msg)
	n := 0
	for _, a := range s.members {
		var pub *ecdsa.PublicKey = pubECDSA(a)
		for _, sig := range sigs {
			if verify64(pub, digest, sig) {
				n++
				break
			}
		}
	}
	return n, true
}

func (h hash160) String() string { return hex.EncodeToString(h[:]) }
