package lcont

import (
	"fmt"

	"github.com/polynetwork/poly/native/service/utils"

	"polysim/engines/e1"
	"polysim/kernel"
)

const ontMaxH = 24

var (
	lcReal = []string{"native/service/header_sync (entrance, ont, neo, neo3)", "native/service/cross_chain_manager (entrance, ont, neo, neo3, common)", "native/service/governance (side_chain_manager, node_manager, neo3_state_manager)",
		"native runtime, ledger store, state/overlay stores, merkle", "ontology core/types + core/signature, ontology-crypto, neo-gogogo, neo3-gogogo (trusted dependencies)"}
	lcStub = []string{"Ontology / NEO / NEO N3 side chains: simulated generators producing validly signed headers, messages, state roots and proofs with deterministic P-256 signatures", "VBFT server and p2p of poly (block-producer stub of the E1 harness)", "relayers (plan steps)"}
)

func famOf(idx int, tier string) int64 {
	switch idx % 10 {
	case 0, 1, 2, 3, 4:
		return 0 // Ontology
	case 5, 6, 7:
		return 1 // NEO
	}
	return 2 // NEO N3
}

func baseCfg(rng *kernel.RNG) map[string]int64 {
	nets := []int64{1, 2, 77}
	return map[string]int64{"nvals": int64(4 + rng.Intn(2)), "followers": int64(rng.Intn(2)), "net": nets[rng.Intn(len(nets))], "reexec": 1}
}

// ---- Ontology plans ----

func ontCfg(rng *kernel.RNG, cfg map[string]int64) []ontChange {
	cfg["fam"] = 0
	cfg["n0"] = int64(4 + rng.Intn(4))
	g0s := []int64{0, 0, 1000, 4000000}
	cfg["g0"] = g0s[rng.Intn(len(g0s))]
	ne := rng.Intn(4)
	cfg["ne"] = int64(ne)
	var chs []ontChange
	for e := 1; e <= ne; e++ {
		off := int64(1 + rng.Intn(ontMaxH-3))
		mask := int64(rng.Intn(1 << ontPool))
		dup := int64(0)
		if rng.Chance(0.15) {
			dup = 1
		}
		cfg[fmt.Sprintf("off%d", e)], cfg[fmt.Sprintf("mask%d", e)], cfg[fmt.Sprintf("dup%d", e)] = off, mask, dup
		chs = append(chs, ontChange{off: off, mask: mask, dup: dup == 1})
	}
	return chs
}

func ontChainOf(pl *kernel.Plan, seed uint64) *ontChain {
	var chs []ontChange
	ne := int(pl.C("ne", 0))
	if ne > 3 {
		ne = 3
	}
	for e := 1; e <= ne; e++ {
		chs = append(chs, ontChange{off: pl.C(fmt.Sprintf("off%d", e), int64(3*e)), mask: pl.C(fmt.Sprintf("mask%d", e), 0x3c), dup: pl.C(fmt.Sprintf("dup%d", e), 0) == 1})
	}
	g0 := pl.C("g0", 0)
	if g0 < 0 || g0 > 1<<30 {
		g0 = 0
	}
	return newOntChain(seed, ontChainID, int(pl.C("n0", 4)), uint32(g0), ontMaxH, chs)
}

var ontHdrFaults = []int64{2, 3, 4, 5, 6, 7, 8, 9, 11, 13, 14, 15}
var ontHonest = []int64{0, 0, 0, 1, 1, 10, 12}

func pickEnabled(rng *kernel.RNG, all []int64) []int64 {
	if rng.Chance(0.08) {
		return nil
	}
	var on []int64
	for _, f := range all {
		if rng.Chance(0.75) {
			on = append(on, f)
		}
	}
	return on
}

func st(op string, a ...int64) kernel.Step { return kernel.Step{Op: op, A: a} }

// keyOrderEpisode: 2-3 configuration-change headers, each validly signed by the set tracked for
// its height, relayed NOT in ascending height order (e.g. 20 before 10), then headers (kind 0) or
// messages (kinds 1, 2) at heights between and above them signed by the set of the greatest key
// height below (must be acceptable) or by the set of an older key height (stale: must be refused).
func keyOrderEpisode(rng *kernel.RNG, kinds []int64) []kernel.Step {
	var steps []kernel.Step
	r := func() int64 { return int64(rng.Intn(1000)) }
	free := rng.Perm(ontMaxH - 4)                                               // relative heights 5..ontMaxH are used by the episode
	next := func() int64 { h := free[0]; free = free[1:]; return int64(h + 4) } // argument = relative height - 1
	nk := 2 + rng.Intn(2)
	var keys []int64
	for i := 0; i < nk; i++ {
		keys = append(keys, int64(4+rng.Intn(ontMaxH-9)))
	}
	// distinct heights, relayed in an order that is not ascending
	seen := map[int64]bool{}
	var ks []int64
	for _, k := range keys {
		for seen[k] {
			k++
		}
		seen[k] = true
		ks = append(ks, k)
	}
	asc := true
	for i := 1; i < len(ks); i++ {
		if ks[i] < ks[i-1] {
			asc = false
		}
	}
	if asc {
		ks[0], ks[len(ks)-1] = ks[len(ks)-1], ks[0]
	}
	which := rng.Perm(3)
	var maxK int64
	for i, k := range ks {
		mode := int64(0)
		if rng.Chance(0.3) {
			mode = []int64{1, 12}[rng.Intn(2)]
		}
		steps = append(steps, st("okey", k, int64(which[i]), mode, r(), int64(rng.Intn(6)/5)))
		if rng.Chance(0.8) {
			steps = append(steps, st("cut"))
		}
		if k > maxK {
			maxK = k
		}
	}
	steps = append(steps, st("cut"))
	n := 5 + rng.Intn(7)
	for i := 0; i < n && len(free) > 0; i++ {
		h := next()
		for tries := 0; (seen[h] || (rng.Chance(0.6) && h <= maxK)) && len(free) > 0 && tries < 8; tries++ {
			h = next()
		}
		if seen[h] {
			continue
		}
		seen[h] = true
		k := int64(0)
		switch x := rng.Intn(20); {
		case x < 8:
			k = 1
		case x < 10:
			k = 2
		}
		mode := int64(0)
		if rng.Chance(0.25) {
			mode = []int64{1, 12, 2, 3, 13}[rng.Intn(5)]
		}
		steps = append(steps, st("oset", h, k, mode, r(), kinds[rng.Intn(len(kinds))]))
		if rng.Chance(0.75) {
			steps = append(steps, st("cut"))
		}
	}
	return append(steps, st("cut"))
}

func genOntC31(rng *kernel.RNG, tier string) *kernel.Plan {
	cfg := baseCfg(rng)
	chs := ontCfg(rng, cfg)
	if rng.Chance(0.22) { // key-height-order run: trust root, a short walk, then the episode
		steps := []kernel.Step{st("ogen", 0, 0), st("cut")}
		for h := 0; h < rng.Intn(4); h++ {
			steps = append(steps, st("ohdr", int64(h), ontHonest[rng.Intn(len(ontHonest))], int64(rng.Intn(1000)), 0, 0, 0), st("cut"))
		}
		steps = append(steps, keyOrderEpisode(rng, []int64{0})...)
		return &kernel.Plan{Cfg: cfg, Steps: steps}
	}
	c := newOntChain(0, ontChainID, int(cfg["n0"]), 0, ontMaxH, chs) // schedule only (keys irrelevant)
	faults := pickEnabled(rng, ontHdrFaults)
	var steps []kernel.Step
	cut := func(p float64) {
		if rng.Chance(p) {
			steps = append(steps, st("cut"))
		}
	}
	r := func() int64 { return int64(rng.Intn(1000)) }
	if rng.Chance(0.10) {
		steps = append(steps, st("ohdr", 0, 0, r(), r(), 0, 0), st("cut"))
	}
	if rng.Chance(0.10) {
		steps = append(steps, st("ogen", int64(rng.Intn(2)), 1), st("cut"))
	}
	steps = append(steps, st("ogen", 0, 0), st("cut"))
	budget := 8 + rng.Intn(14)
	cur := 0 // relative height of the last honestly submitted header
	var done []int
	for n := 0; n < budget && cur < ontMaxH; n++ {
		next := cur + 1
		if rng.Chance(0.2) {
			next += 1 + rng.Intn(2)
		}
		for _, ep := range c.epochs[1:] { // never jump over a key height
			k := int(ep.kh)
			if k > cur && k < next {
				next = k
			}
		}
		if next > ontMaxH {
			break
		}
		for len(faults) > 0 && rng.Chance(0.45) {
			forge := int64(0)
			mode := faults[rng.Intn(len(faults))]
			if rng.Chance(0.2) {
				forge = 1
				if rng.Chance(0.15) {
					mode = int64(rng.Intn(2)) // an equivocating third really signs another configuration
				}
			}
			steps = append(steps, st("ohdr", int64(next-1), mode, r(), r(), forge, int64(rng.Intn(4)/3)))
			cut(0.6)
		}
		steps = append(steps, st("ohdr", int64(next-1), ontHonest[rng.Intn(len(ontHonest))], r(), r(), 0, int64(rng.Intn(5)/4)))
		cut(0.7)
		done = append(done, next)
		cur = next
		if rng.Chance(0.12) { // out of order: some height further ahead or behind
			steps = append(steps, st("ohdr", int64(rng.Intn(ontMaxH)), ontHonest[rng.Intn(len(ontHonest))], r(), r(), 0, 0))
			cut(0.7)
		}
		if rng.Chance(0.10) && len(done) > 0 { // replayed header, any seal
			steps = append(steps, st("ohdr", int64(done[rng.Intn(len(done))]-1), int64(rng.Intn(ontModes)), r(), r(), int64(rng.Intn(2)), 0))
			cut(0.7)
		}
		if rng.Chance(0.03) {
			steps = append(steps, st("cut"), st("restart", int64(rng.Intn(2))))
		}
		if rng.Chance(0.03) {
			steps = append(steps, st("cut"), st("ogen", int64(rng.Intn(3)), int64(rng.Intn(3)/2)), st("cut"))
		}
	}
	steps = append(steps, st("cut"))
	return &kernel.Plan{Cfg: cfg, Steps: steps}
}

var ontMsgFaults = []int64{2, 3, 4, 5, 6, 7, 8, 9, 13, 14, 15}
var ontMsgHonest = []int64{0, 0, 1, 1, 10, 11, 12}

func genOntC24(rng *kernel.RNG, tier string) *kernel.Plan {
	cfg := baseCfg(rng)
	chs := ontCfg(rng, cfg)
	c := newOntChain(0, ontChainID, int(cfg["n0"]), 0, ontMaxH, chs)
	faults := pickEnabled(rng, ontMsgFaults)
	var steps []kernel.Step
	r := func() int64 { return int64(rng.Intn(1000)) }
	steps = append(steps, st("ogen", 0, 0), st("cut"))
	if rng.Chance(0.22) { // key headers relayed out of height order, then messages signed by the newest / a stale set
		steps = append(steps, keyOrderEpisode(rng, []int64{1, 2, 1, 2, 0})...)
		return &kernel.Plan{Cfg: cfg, Steps: steps}
	}
	// honest header sync up to a random point so that 1..ne+1 peer sets are tracked
	upto := rng.Intn(ontMaxH + 1)
	first := true
	for h := 1; h <= upto; h++ {
		isKey := c.epochAt(uint32(h)) >= 0
		if !isKey && rng.Chance(0.6) {
			continue
		}
		join := int64(1)
		if first || rng.Chance(0.3) {
			join = 0
		}
		first = false
		steps = append(steps, st("ohdr", int64(h-1), 0, r(), r(), 0, join))
	}
	steps = append(steps, st("cut"))
	n := 8 + rng.Intn(14)
	var depDone [][]int64
	for i := 0; i < n; i++ {
		h := int64(rng.Intn(ontMaxH))
		viaDep := rng.Chance(0.5)
		emit := func(mode int64) {
			if viaDep {
				s := st("odep", h, mode, r(), r(), int64(rng.Intn(ontLeaves)), int64(rng.Intn(8)))
				steps = append(steps, s)
				depDone = append(depDone, s.A)
			} else {
				steps = append(steps, st("omsg", h, mode, r(), r(), int64(rng.Intn(5)/4)))
			}
			if rng.Chance(0.7) {
				steps = append(steps, st("cut"))
			}
		}
		for len(faults) > 0 && rng.Chance(0.5) {
			emit(faults[rng.Intn(len(faults))])
		}
		emit(ontMsgHonest[rng.Intn(len(ontMsgHonest))])
		if rng.Chance(0.12) && len(depDone) > 0 { // replayed deposit (C20 probe)
			a := append([]int64{}, depDone[rng.Intn(len(depDone))]...)
			steps = append(steps, kernel.Step{Op: "odep", A: a})
		}
		if rng.Chance(0.03) {
			steps = append(steps, st("cut"), st("restart", int64(rng.Intn(2))))
		}
	}
	steps = append(steps, st("cut"))
	return &kernel.Plan{Cfg: cfg, Steps: steps}
}

// ---- execution ----

func newHarness(run *kernel.Run) *e1.Harness {
	pl := run.Plan
	nv := int(pl.C("nvals", 4))
	if nv < 4 {
		nv = 4
	}
	if nv > 7 {
		nv = 7
	}
	fo := int(pl.C("followers", 0))
	if fo < 0 || fo > 2 {
		fo = 0
	}
	net := pl.C("net", 1)
	if net < 1 || net > 1000 {
		net = 1
	}
	h, err := e1.NewHarness(run, nv, fo, uint32(net), 1000000)
	if err != nil {
		panic(err)
	}
	return h
}

func execOnt(run *kernel.Run) {
	h := newHarness(run)
	defer h.Close()
	c := ontChainOf(run.Plan, run.Plan.Seed)
	if err := h.RegisterChain(c.id, utils.ONT_ROUTER, "ont", 1, c.ccmc, nil); err != nil {
		panic(err)
	}
	if err := h.RegisterChain(c.dst, utils.ETH_ROUTER, "dst", 1, []byte{0xdd}, nil); err != nil {
		panic(err)
	}
	r := &ontRun{run: run, h: h, c: c, m: newOntModel()}
	for i, s := range run.Plan.Steps {
		run.StepNo = i
		run.Steps++
		switch s.Op {
		case "cut":
			r.cut()
		case "restart":
			r.cut()
			if !r.stop {
				if err := h.Restart(int(abs64(s.Arg(0)))); err != nil {
					run.Fail("C12", "clean-restart-failed", "restart failed: %v", err)
					r.stop = true
				}
			}
		default:
			r.step(i, s)
		}
		if r.stop || run.Failed() && !r.toleratedOnly() {
			break
		}
	}
	if !r.stop {
		r.cut()
	}
	if r.nAcc > 0 && r.nRejBad > 0 {
		run.Nontrivial(r.sig)
	}
	var eps []string
	for _, ep := range c.epochs {
		eps = append(eps, fmt.Sprintf("key height %d: %d peers", ep.kh, len(ep.members)))
	}
	run.Sample = map[string]interface{}{"family": "ontology", "epochs": eps, "accepted_honest": r.nAcc, "rejected_faulty": r.nRejBad, "steps": len(run.Plan.Steps)}
}

func (r *ontRun) toleratedOnly() bool {
	for _, v := range r.run.Violations {
		if v.Key != "ont-crosschainmsg-duplicate-signer-counted" {
			return false
		}
	}
	return true
}

func execute(run *kernel.Run) {
	switch run.Plan.C("fam", 0) {
	case 1:
		execNeo(run)
	case 2:
		execNeo3(run)
	default:
		execOnt(run)
	}
}

func init() {
	kernel.Register(&kernel.Check{
		ID: "C31", Level: "exploration", Engine: "E1 lightclient-ont/neo (lcont)",
		Rule: "per run one simulated side chain (50% Ontology, 30% NEO, 20% NEO N3) registered on a real poly ledger (E1 harness, 4-5 validators, 0-1 followers): Ontology = VBFT header chain of 24 heights over peer sets of 4-7 of 10 P-256 keys with 0-3 key heights announcing new sets (some listing a peer twice), trust root at height 0/1000/4000000; headers are submitted by a relayer in walk order with gaps, out of order, replayed, alone or several per transaction, one or several transactions per block, each sealed under one of 13 modes (2/3+, exactly ceil(N/3), one below, one signer listed k times, duplicates padding the count, a repeated signer combined with listed-but-silent members in several listing orders, outsiders padding, outsiders only, one invalid/foreign/truncated signature, missing signature, previous set, extra garbage signatures, duplicate above threshold, all members) or forged to claim a configuration change (also signed by an equivocating third); 22% of the Ontology runs relay 2-3 configuration-change headers, each validly signed by the set tracked for its height, in NON-ascending height order (e.g. 20 before 10) and then submit headers between and above them signed by the set of the greatest key height below (acceptable) or of an older key height (stale, must be refused); NEO/N3 = headers whose witness is an m-of-n CHECKMULTISIG script over the tracked next-consensus hash with 1-3 validator changes, submitted with honest / m-1 / duplicated signature / foreign script / lowered-m script / invalid signature / previous-set witness / lower-or-equal index. oracle (reference model from the property text, independent stdlib ECDSA verification): a successful syncBlockHeader implies every non-skipped header has >= 1/3 of the DISTINCT members of the peer set recorded at the greatest recorded key height below it as listed bookkeepers with valid signatures; every peer-set / key-height write is explained by such a header (or the operator's trust root) and equals what it announced; NEO: the tracked (index, next-consensus) changes only to a header of the transaction with a higher index whose witness script hashes to the tracked value and carries >= m valid signatures of distinct members. non-trivial = at least one honest artefact accepted and one faulty one rejected; distinct by the sequence of (seal mode, outcome)",
		Real: lcReal, Stub: lcStub,
		Assumptions: []string{"header acceptance completeness is not asserted (probes require that honest headers were accepted)", "trust-root installation by the consensus operator is taken as authentic (C19 decides re-installation)", "signature validity is decided by crypto/ecdsa on the keys and digests of the simulated chain"},
		QuickRuns:   320, ThoroughRuns: 24000, QuickCap: 60, ThoroughCap: 800,
		RequiredProbes: []string{"ont_hdr:honest:accepted", "ont_hdr:exact-third:accepted", "ont_hdr:below-third:rejected", "ont_hdr:dup-one:rejected", "ont_hdr:dup-pad:rejected", "ont_hdr:dup-silent:rejected", "ont_hdr:silent-dup-extra:rejected", "ont_hdr:foreign-pad:rejected",
			"ont_hdr:bad-sig:rejected", "ont_hdr:prev-set:rejected", "ont_key_header_recorded", "ont_key_header_recorded_below_an_already_recorded_key_height", "ont_after_out_of_order_keys_hdr:stale-set/honest:rejected", "ont_after_out_of_order_keys_hdr:newest-set/honest:accepted", "ont_hdr_accepted_exactly_at_one_third", "ont_multi_header_tx_accepted",
			"neo_change:honest:accepted", "neo_change:below-m:rejected", "neo_change:other-script:rejected", "neo_change:lower-index:ignored", "neo_change:dup-sig:rejected",
			"neo_validly_witnessed_change_at_lower_or_equal_index_ignored", "neo3_change:honest:accepted", "neo3_change:lower-index:ignored", "neo3_change:other-script:rejected"},
		Generate: func(rng *kernel.RNG, idx int, tier string) *kernel.Plan {
			switch famOf(idx, tier) {
			case 1:
				return genNeoC31(rng, tier, 1)
			case 2:
				return genNeoC31(rng, tier, 2)
			}
			return genOntC31(rng, tier)
		},
		Execute: execute,
	})
	kernel.Register(&kernel.Check{
		ID: "C24", Level: "exploration", Engine: "E1 lightclient-ont/neo (lcont)",
		Rule: "per run one simulated side chain (50% Ontology, 30% NEO, 20% NEO N3) with its trust root installed and headers synced honestly up to a random point (so 1-4 tracked peer sets / validator sets of sizes 4-7 are in force for different heights); then 8-22 cross-chain messages for random heights, through header_sync.syncCrossChainMsg (Ontology) and through cross_chain_manager.importOuterTransfer with a valid merkle / MPT proof of a cross-chain state (all three), each signed under a fault mode: honest 2/3+, exactly the required count, one below, ONE TRACKED SIGNER LISTED k TIMES, duplicates padding the count, a repeated signer combined with listed tracked members that did not sign ([A,A,B]+[sA,sA], [B,A,A]+[sA,sA,sX], [A,B,C,A]+[sA,sB,sA]), outsiders padding / only, invalid / foreign / truncated signature, missing signature, previous set, other script / lowered-m script (NEO), k-of-n scripts over exactly the tracked keys with k = m-1 and m+1 and exactly k valid distinct signers, N3 state-validator sets of every size 1..10 (sizes 3, 6, 9 over-weighted); replayed deposits as C20 probes; 22% of the Ontology runs first relay configuration-change headers out of height order and then send messages signed by the newest / a stale tracked set. oracle: acceptance (message stored / deposit succeeded) implies the number of DISTINCT tracked members listed with a valid signature >= required (ceil(N/3) for this Ontology light client, m of the tracked m-of-n script for NEO, n-(n-1)/3 of the registered state validators for N3). non-trivial/distinct as C31",
		Real: lcReal, Stub: lcStub,
		Assumptions: []string{"required count for Ontology taken from the property text of C31 (one third of the tracked peer set)", "message acceptance through the deposit path is observed as success of the whole import (valid proof, registered destination)"},
		QuickRuns:   320, ThoroughRuns: 24000, QuickCap: 60, ThoroughCap: 800,
		RequiredProbes: []string{"ont_msg:honest:accepted", "ont_dep:honest:accepted", "ont_msg:dup-one:rejected", "ont_dep:dup-one:rejected", "ont_msg:dup-pad:rejected", "ont_msg:dup-silent:rejected", "ont_dep:dup-silent:rejected", "ont_msg:silent-dup-extra:rejected", "ont_msg:dup-silent-partial:rejected", "ont_msg:below-third:rejected", "ont_msg:foreign-pad:rejected", "ont_msg:bad-sig:rejected", "ont_msg_accepted_exactly_at_required_count", "ont_key_header_recorded_below_an_already_recorded_key_height", "ont_after_out_of_order_keys_msg:stale-set/honest:rejected", "ont_after_out_of_order_keys_msg:newest-set/honest:accepted", "ont_after_out_of_order_keys_dep:stale-set/honest:rejected", "ont_after_out_of_order_keys_dep:newest-set/honest:accepted",
			"neo_msg:honest:accepted", "neo_msg:below-m:rejected", "neo_msg:dup-sig:rejected", "neo_msg:other-script:rejected",
			"neo3_msg:honest:accepted", "neo3_msg:dup-sig:rejected", "neo3_msg:other-script:rejected",
			"neo3_msg_tracked_set_size_divisible_by_3", "neo3_msg:m-minus-one-script:rejected", "neo3_msg_m_minus_one_script_rejected_at_size_divisible_by_3", "neo3_msg_honest_accepted_at_size_divisible_by_3", "neo3_msg:m-plus-one-script:rejected",
			"neo3_msg_presented_to_tracked_set_size_3", "neo3_msg_presented_to_tracked_set_size_6", "neo3_msg_presented_to_tracked_set_size_9"},
		Generate: func(rng *kernel.RNG, idx int, tier string) *kernel.Plan {
			switch famOf(idx, tier) {
			case 1:
				return genNeoC24(rng, tier, 1)
			case 2:
				return genNeoC24(rng, tier, 2)
			}
			return genOntC24(rng, tier)
		},
		Execute: execute,
	})
}
