package lcont

import (
	"bytes"
	"crypto/ecdsa"
	"encoding/binary"
	"encoding/hex"
	"encoding/json"
	"fmt"
	"sort"

	"github.com/ontio/ontology-crypto/ec"
	"github.com/ontio/ontology-crypto/keypair"
	ocommon "github.com/ontio/ontology/common"
	otypes "github.com/ontio/ontology/core/types"
	"github.com/polynetwork/poly/account"
	"github.com/polynetwork/poly/common"
	vconfig "github.com/polynetwork/poly/consensus/vbft/config"
	"github.com/polynetwork/poly/merkle"
	ccom "github.com/polynetwork/poly/native/service/cross_chain_manager/common"

	"polysim/chain"
)

// ---------------------------------------------------------------------------------------
// Simulated Ontology side chain
// ---------------------------------------------------------------------------------------

const (
	ontPool     = 10 // consensus key pool; peer sets are 4..7 of them
	ontOutsider = 4  // keys that are never members of an honest peer set
	ontBaseTime = 946684000
)

// ontEpoch: the header at height kh announces the peer set `members`; that set signs every
// header and cross-chain message at heights > kh up to and including the next key height.
type ontEpoch struct {
	kh      uint32
	members []int // indices into pool
	dupCfg  bool  // the announced chain config lists its first peer twice (under two indices)
}

type ontChain struct {
	seed   uint64
	id     uint64
	pool   []*account.Account
	out    []*account.Account
	g0     uint32 // height of the trust-root header
	maxH   uint32 // heights g0+1 .. g0+maxH are used
	epochs []ontEpoch
	ccmc   []byte
	dst    uint64
	memo   map[uint32]*otypes.Header
	byPub  map[string]*account.Account
	c20    bool // state trees also carry the shared / forged leaves of the C20 replay runs
}

// maskMembers turns a bit mask over the pool into a peer set of 4..7 members (robust against
// any mask value a shrunk plan may carry).
func maskMembers(mask int64, pool int) []int {
	var in, outIdx []int
	for i := 0; i < pool; i++ {
		if uint64(mask)&(1<<uint(i)) != 0 {
			in = append(in, i)
		} else {
			outIdx = append(outIdx, i)
		}
	}
	for len(in) < 4 && len(outIdx) > 0 {
		in = append(in, outIdx[0])
		outIdx = outIdx[1:]
	}
	if len(in) > 7 {
		in = in[:7]
	}
	sort.Ints(in)
	return in
}

type ontChange struct {
	off  int64 // key height = g0 + 1 + off mod (maxH-1)
	mask int64
	dup  bool
}

func newOntChain(seed, id uint64, n0 int, g0 uint32, maxH uint32, changes []ontChange) *ontChain {
	c := &ontChain{seed: seed, id: id, g0: g0, maxH: maxH, memo: map[uint32]*otypes.Header{}, dst: dstChainID}
	for i := 0; i < ontPool; i++ {
		c.pool = append(c.pool, chain.NewAccount(seed, fmt.Sprintf("ontpeer%d", i)))
	}
	for i := 0; i < ontOutsider; i++ {
		c.out = append(c.out, chain.NewAccount(seed, fmt.Sprintf("ontout%d", i)))
	}
	c.byPub = map[string]*account.Account{}
	for _, a := range append(append([]*account.Account{}, c.pool...), c.out...) {
		c.byPub[chain.PubHex(a)] = a
	}
	if n0 < 4 {
		n0 = 4
	}
	if n0 > 7 {
		n0 = 7
	}
	first := make([]int, n0)
	for i := range first {
		first[i] = i
	}
	c.epochs = []ontEpoch{{kh: g0, members: first}}
	seen := map[uint32]bool{g0: true}
	var rest []ontEpoch
	for _, ch := range changes {
		if maxH < 3 {
			break
		}
		kh := g0 + 1 + uint32(abs64(ch.off)%int64(maxH-1))
		if seen[kh] {
			continue
		}
		seen[kh] = true
		rest = append(rest, ontEpoch{kh: kh, members: maskMembers(ch.mask, ontPool), dupCfg: ch.dup})
	}
	sort.Slice(rest, func(i, j int) bool { return rest[i].kh < rest[j].kh })
	c.epochs = append(c.epochs, rest...)
	c.ccmc = sha(append([]byte("ccmc"), binary.LittleEndian.AppendUint64(nil, seed)...))[:20]
	return c
}

// epochFor returns the index of the epoch whose set signs artefacts at height h.
func (c *ontChain) epochFor(h uint32) int {
	e := 0
	for i, ep := range c.epochs {
		if ep.kh < h {
			e = i
		}
	}
	return e
}

func (c *ontChain) epochAt(h uint32) int {
	for i, ep := range c.epochs {
		if ep.kh == h {
			return i
		}
	}
	return -1
}

func (c *ontChain) accounts(idx []int) []*account.Account {
	out := make([]*account.Account, len(idx))
	for i, j := range idx {
		out[i] = c.pool[j%len(c.pool)]
	}
	return out
}

func (c *ontChain) signers(h uint32) (cur, prev []*account.Account) {
	e := c.epochFor(h)
	cur = c.accounts(c.epochs[e].members)
	if e > 0 {
		prev = c.accounts(c.epochs[e-1].members)
	}
	return
}

func (c *ontChain) h32(label string, h uint32, x uint64) []byte {
	b := binary.LittleEndian.AppendUint64(nil, c.seed)
	b = append(b, label...)
	b = binary.LittleEndian.AppendUint32(b, h)
	b = binary.LittleEndian.AppendUint64(b, x)
	return sha(b)
}

func chainConfig(view uint32, peers []*account.Account, dup bool) *vconfig.ChainConfig {
	cfg := &vconfig.ChainConfig{Version: 1, View: view, N: uint32(len(peers)), C: uint32((len(peers) - 1) / 3),
		BlockMsgDelay: 10000000000, HashMsgDelay: 10000000000, PeerHandshakeTimeout: 10000000000, MaxBlockChangeView: 10000}
	for i, a := range peers {
		cfg.Peers = append(cfg.Peers, &vconfig.PeerConfig{Index: uint32(i + 1), ID: chain.PubHex(a)})
		cfg.PosTable = append(cfg.PosTable, uint32(i+1))
	}
	if dup && len(peers) > 0 {
		cfg.Peers = append(cfg.Peers, &vconfig.PeerConfig{Index: uint32(len(peers) + 1), ID: chain.PubHex(peers[0])})
	}
	return cfg
}

func (c *ontChain) build(h uint32, variant uint64, cfg *vconfig.ChainConfig) *otypes.Header {
	hd := &otypes.Header{Version: 0, Timestamp: ontBaseTime + h, Height: h}
	if h > c.g0 {
		hd.PrevBlockHash = c.header(h - 1).Hash()
	}
	copy(hd.TransactionsRoot[:], c.h32("txroot", h, variant))
	copy(hd.BlockRoot[:], c.h32("blockroot", h, variant))
	hd.ConsensusData = binary.LittleEndian.Uint64(c.h32("cdata", h, variant))
	e := c.epochFor(h)
	info := &vconfig.VbftBlockInfo{Proposer: uint32(h%4 + 1), VrfValue: c.h32("vrfv", h, variant), VrfProof: c.h32("vrfp", h, variant),
		LastConfigBlockNum: c.epochs[e].kh, NewChainConfig: cfg}
	pl, err := json.Marshal(info)
	if err != nil {
		panic(err)
	}
	hd.ConsensusPayload = pl
	return hd
}

// header returns the canonical (unsealed) header of height h.
func (c *ontChain) header(h uint32) *otypes.Header {
	if hd, ok := c.memo[h]; ok {
		return cloneOntHeader(hd)
	}
	var cfg *vconfig.ChainConfig
	if e := c.epochAt(h); e >= 0 {
		cfg = chainConfig(uint32(e+1), c.accounts(c.epochs[e].members), c.epochs[e].dupCfg)
	}
	hd := c.build(h, 0, cfg)
	c.memo[h] = hd
	return cloneOntHeader(hd)
}

// forged returns a header of height h that claims a configuration change to a set chosen by
// the submitter: the outsiders plus the pool members selected by mask.
func (c *ontChain) forged(h uint32, mask int64) *otypes.Header {
	set := append([]*account.Account{}, c.out...)
	for i := 0; i < ontPool; i++ {
		if uint64(mask)&(1<<uint(i)) != 0 && len(set) < 7 {
			set = append(set, c.pool[i])
		}
	}
	return c.build(h, 1+uint64(abs64(mask)), chainConfig(99, set, false))
}

// announced returns one of three mutually disjoint 4-member sets a relayed configuration-change
// header may announce (used by the key-height-order episodes): two halves of the upper pool
// and the outsiders.
func (c *ontChain) announced(which int64) []*account.Account {
	switch abs64(which) % 3 {
	case 0:
		return append([]*account.Account{}, c.pool[6:10]...)
	case 1:
		return append([]*account.Account{}, c.out[:4]...)
	}
	return append([]*account.Account{}, c.pool[2:6]...)
}

// keyChange is a header of height h that announces announced(which).
func (c *ontChain) keyChange(h uint32, which int64) *otypes.Header {
	return c.build(h, 5000+uint64(abs64(which)%3), chainConfig(uint32(50+abs64(which)%3), c.announced(which), false))
}

// altGenesis is a different, equally well-formed trust root: another peer set at the same height.
func (c *ontChain) altGenesis() *otypes.Header {
	set := append([]*account.Account{}, c.pool[ontPool-4:]...)
	return c.build(c.g0, 7777, chainConfig(1, set, false))
}

func cloneOntHeader(h *otypes.Header) *otypes.Header {
	n := &otypes.Header{Version: h.Version, PrevBlockHash: h.PrevBlockHash, TransactionsRoot: h.TransactionsRoot, BlockRoot: h.BlockRoot,
		Timestamp: h.Timestamp, Height: h.Height, ConsensusData: h.ConsensusData, ConsensusPayload: append([]byte{}, h.ConsensusPayload...), NextBookkeeper: h.NextBookkeeper}
	return n
}

// seal is a bookkeeper list with signature data as submitted to poly.
type seal struct {
	keys  []keypair.PublicKey
	sigs  [][]byte
	label string
}

const ontModes = 16

var ontModeNames = []string{"honest", "exact-third", "below-third", "dup-one", "dup-pad", "foreign-pad", "all-foreign", "bad-sig", "sig-missing",
	"prev-set", "extra-sigs", "dup-above", "all-members", "dup-silent", "silent-dup-extra", "dup-silent-partial"}

func ceilThird(n int) int { return (n + 2) / 3 }

// makeSeal signs the 32-byte hash according to a fault mode. cur is the peer set that is
// entitled to sign, prev the set before it (nil if none). p and q vary the choice.
func (c *ontChain) makeSeal(hash []byte, cur, prev []*account.Account, mode, p, q int64) seal {
	digest := sha(hash)
	n := len(cur)
	t := ceilThird(n)
	rot := func(set []*account.Account, k int) []*account.Account {
		var out []*account.Account
		for i := 0; i < k && i < len(set); i++ {
			out = append(out, set[(int(abs64(p))+i)%len(set)])
		}
		return out
	}
	sg := func(a *account.Account) []byte { return sign64(privD(a), digest, uint64(abs64(q))) }
	var s seal
	add := func(a *account.Account, sig []byte) {
		s.keys = append(s.keys, a.PublicKey)
		if sig != nil {
			s.sigs = append(s.sigs, sig)
		}
	}
	m := int(abs64(mode) % ontModes)
	s.label = ontModeNames[m]
	switch m {
	case 0:
		for _, a := range rot(cur, n-(n-1)/3) {
			add(a, sg(a))
		}
	case 1:
		for _, a := range rot(cur, t) {
			add(a, sg(a))
		}
	case 2:
		for _, a := range rot(cur, t-1) {
			add(a, sg(a))
		}
	case 3:
		a := rot(cur, 1)[0]
		k := t + int(abs64(q)%2)
		for i := 0; i < k; i++ {
			add(a, sg(a))
		}
	case 4:
		sel := rot(cur, t-1)
		for _, a := range sel {
			add(a, sg(a))
		}
		add(sel[0], sg(sel[0]))
	case 5:
		for _, a := range rot(cur, t-1) {
			add(a, sg(a))
		}
		for i := 0; i <= int(abs64(q)%2); i++ {
			o := c.out[(int(abs64(p))+i)%len(c.out)]
			add(o, sg(o))
		}
	case 6:
		for i := 0; i < t; i++ {
			o := c.out[(int(abs64(p))+i)%len(c.out)]
			add(o, sg(o))
		}
	case 7:
		sel := rot(cur, t)
		bad := int(abs64(q)) % len(sel)
		for i, a := range sel {
			sig := sg(a)
			if i == bad {
				switch abs64(p) % 4 {
				case 0:
					sig[40] ^= 0x10
				case 1:
					sig = sign64(privD(a), sha(append([]byte("other"), hash...)), 0)
				case 2:
					sig = sg(c.out[0])
				case 3:
					sig = sig[:63]
				}
			}
			add(a, sig)
		}
	case 8:
		sel := rot(cur, t)
		for i, a := range sel {
			if i == len(sel)-1 {
				add(a, nil)
			} else {
				add(a, sg(a))
			}
		}
	case 9:
		inCur := map[string]bool{}
		for _, a := range cur {
			inCur[chain.PubHex(a)] = true
		}
		var old []*account.Account
		for _, a := range prev {
			if !inCur[chain.PubHex(a)] {
				old = append(old, a)
			}
		}
		for i := 0; len(old) < t; i++ {
			old = append(old, c.out[i%len(c.out)])
		}
		for _, a := range old[:t] {
			add(a, sg(a))
		}
	case 10:
		for _, a := range rot(cur, n-(n-1)/3) {
			add(a, sg(a))
		}
		s.sigs = append(s.sigs, sg(c.out[0]), []byte{1, 2, 3})
	case 11:
		sel := rot(cur, t)
		for _, a := range sel {
			add(a, sg(a))
		}
		add(sel[0], sg(sel[0]))
	case 12:
		for _, a := range rot(cur, n) {
			add(a, sg(a))
		}
	case 13, 14, 15:
		// a repeated signer combined with listed tracked members that did NOT sign: t distinct
		// members are listed (so a count of distinct listed keys reaches the threshold) but only
		// ns of them sign; the first signer is listed again once per missing signature and its
		// signature repeated, so that there are t signatures for t+(t-ns) key slots.
		// e.g. N=4: keys [A,A,B] sigs [sA,sA]; N=7, mode 15: keys [A,B,C,A] sigs [sA,sB,sA].
		sel := rot(cur, t)
		ns := 1
		if m == 15 && t-1 > 1 {
			ns = t - 1
		}
		keys := append([]*account.Account{}, sel...)
		for i := 0; i < t-ns; i++ {
			keys = append(keys, sel[0])
		}
		if m == 14 { // silent members first: [B,A,A]
			for i, j := 0, len(keys)-1; i < j; i, j = i+1, j-1 {
				keys[i], keys[j] = keys[j], keys[i]
			}
		} else if k := int(abs64(q)) % len(keys); k > 0 { // any order of the listing
			keys = append(append([]*account.Account{}, keys[k:]...), keys[:k]...)
		}
		for _, a := range keys {
			add(a, nil)
		}
		for i := 0; i < ns; i++ {
			s.sigs = append(s.sigs, sg(sel[i]))
		}
		for i := 0; i < t-ns; i++ {
			s.sigs = append(s.sigs, sg(sel[0]))
		}
		if m == 14 {
			s.sigs = append(s.sigs, sg(c.out[0])) // plus a signature of nobody in the set
		}
	}
	return s
}

func sealHeader(hd *otypes.Header, s seal) []byte {
	hd.Bookkeepers = s.keys
	hd.SigData = s.sigs
	sink := ocommon.NewZeroCopySink(nil)
	hd.Serialization(sink)
	return sink.Bytes()
}

// sealed returns the raw bytes of the canonical header h sealed under a fault mode.
func (c *ontChain) sealed(h uint32, mode, p, q int64) ([]byte, string) {
	hd := c.header(h)
	cur, prev := c.signers(h)
	hash := hd.Hash()
	s := c.makeSeal(hash[:], cur, prev, mode, p, q)
	return sealHeader(hd, s), s.label
}

// ---- cross-chain states, messages and proofs ----

const ontLeaves = 3

// leaf returns cross-chain state number i of height h (a MakeTxParamWithSender as the
// Ontology CCMC would store it) and its cross-chain id.
func (c *ontChain) leaf(h uint32, i int, variant int64) ([]byte, []byte) {
	ccid := c.h32("ccid", h, uint64(i))
	p := &ccom.MakeTxParamWithSender{MakeTxParam: ccom.MakeTxParam{TxHash: c.h32("srctx", h, uint64(i)), CrossChainID: ccid,
		FromContractAddress: []byte{0xf0, byte(i)}, ToChainID: c.dst, ToContractAddress: []byte{0xd0, byte(i)}, Method: "unlock", Args: []byte{byte(h), byte(i), byte(variant)}}}
	copy(p.Sender[:], c.ccmc)
	b, err := p.Serialization()
	if err != nil {
		panic(err)
	}
	return b, ccid
}

// shared returns the cross-chain state of message group g (C20 replay runs): the SAME state
// (same bytes, same cross-chain id) is a leaf of the state trees of the four heights of its
// group, so it can be proven at several heights; variant 1 is a forged twin with the same
// cross-chain id and an altered payload, also committed by the chain at those heights.
func (c *ontChain) shared(g uint32, variant int64) ([]byte, []byte) {
	ccid := c.h32("sharedccid", g, 0)
	p := &ccom.MakeTxParamWithSender{MakeTxParam: ccom.MakeTxParam{TxHash: c.h32("sharedtx", g, 0), CrossChainID: ccid,
		FromContractAddress: []byte{0xf2, byte(g)}, ToChainID: c.dst, ToContractAddress: []byte{0xd2, byte(g), byte(variant)}, Method: "unlock", Args: []byte{byte(g), byte(variant)}}}
	copy(p.Sender[:], c.ccmc)
	b, err := p.Serialization()
	if err != nil {
		panic(err)
	}
	return b, ccid
}

func (c *ontChain) group(h uint32) uint32 {
	if h <= c.g0 {
		return 0
	}
	return (h - c.g0 - 1) / 4
}

// leaves of the cross-chain state tree of height h.
func (c *ontChain) leaves(h uint32) [][]byte {
	var ls [][]byte
	for i := 0; i < ontLeaves; i++ {
		b, _ := c.leaf(h, i, 0)
		ls = append(ls, b)
	}
	if c.c20 {
		s0, _ := c.shared(c.group(h), 0)
		s1, _ := c.shared(c.group(h), 1)
		ls = append(ls, s0, s1)
	}
	return ls
}

func (c *ontChain) leafHashes(h uint32) []common.Uint256 {
	var hs []common.Uint256
	for _, b := range c.leaves(h) {
		hs = append(hs, merkle.HashLeaf(b))
	}
	return hs
}

func (c *ontChain) statesRoot(h uint32) common.Uint256 {
	return merkle.TreeHasher{}.HashFullTreeWithLeafHash(c.leafHashes(h))
}

func (c *ontChain) proofOf(h uint32, leaf []byte) []byte {
	path, err := merkle.MerkleLeafPath(leaf, c.leafHashes(h))
	if err != nil {
		panic(err)
	}
	return path
}

func (c *ontChain) proof(h uint32, i int) []byte {
	b, _ := c.leaf(h, i%ontLeaves, 0)
	return c.proofOf(h, b)
}

func (c *ontChain) msg(h uint32) *otypes.CrossChainMsg {
	m := &otypes.CrossChainMsg{Version: otypes.CURR_CROSS_STATES_VERSION, Height: h}
	r := c.statesRoot(h)
	copy(m.StatesRoot[:], r[:])
	return m
}

// msgBytes is the wire form both entry points parse: message, then the bookkeeper list.
func msgBytes(m *otypes.CrossChainMsg, s seal) []byte {
	m.SigData = s.sigs
	sink := ocommon.NewZeroCopySink(nil)
	m.Serialization(sink)
	sink.WriteVarUint(uint64(len(s.keys)))
	for _, k := range s.keys {
		sink.WriteVarBytes(keypair.SerializePublicKey(k))
	}
	return sink.Bytes()
}

func (c *ontChain) sealedMsg(h uint32, mode, p, q int64) ([]byte, string) {
	m := c.msg(h)
	cur, prev := c.signers(h)
	hash := m.Hash()
	s := c.makeSeal(hash[:], cur, prev, mode, p, q)
	return msgBytes(m, s), s.label
}

// ---------------------------------------------------------------------------------------
// Reference model of the Ontology light client (written from the property text)
// ---------------------------------------------------------------------------------------

type ontModel struct {
	sets map[uint32][]string // recorded key height -> distinct peer ids, sorted
	hdrs map[uint32]string   // stored header hash (hex) by height
	msgs map[uint32]string   // stored message states root (hex) by height
	done map[string]bool     // cross-chain ids marked done
}

func newOntModel() *ontModel {
	return &ontModel{sets: map[uint32][]string{}, hdrs: map[uint32]string{}, msgs: map[uint32]string{}, done: map[string]bool{}}
}

func (m *ontModel) clone() *ontModel {
	n := newOntModel()
	for k, v := range m.sets {
		n.sets[k] = v
	}
	for k, v := range m.hdrs {
		n.hdrs[k] = v
	}
	for k, v := range m.msgs {
		n.msgs[k] = v
	}
	for k, v := range m.done {
		n.done[k] = v
	}
	return n
}

// setBelow: the peer set recorded at the greatest key height below h.
func (m *ontModel) setBelow(h uint32) (uint32, []string, bool) {
	var best uint32
	found := false
	for k := range m.sets {
		if k < h && (!found || k > best) {
			best, found = k, true
		}
	}
	if !found {
		return 0, nil, false
	}
	return best, m.sets[best], true
}

func (m *ontModel) keyHeightsDesc() []uint32 {
	var ks []uint32
	for k := range m.sets {
		ks = append(ks, k)
	}
	sort.Slice(ks, func(i, j int) bool { return ks[i] > ks[j] })
	return ks
}

func (m *ontModel) digest() []byte {
	var b bytes.Buffer
	for _, k := range m.keyHeightsDesc() {
		fmt.Fprintf(&b, "K%d:%d;", k, len(m.sets[k]))
	}
	fmt.Fprintf(&b, "H%d M%d D%d", len(m.hdrs), len(m.msgs), len(m.done))
	return b.Bytes()
}

func ecdsaOf(k keypair.PublicKey) *ecdsa.PublicKey {
	if e, ok := k.(*ec.PublicKey); ok && e.Algorithm == ec.ECDSA {
		return e.PublicKey
	}
	return nil
}

// distinctSigners is the reference count of the properties: the number of DISTINCT members
// of `set` that are listed as bookkeepers and for which the signature data contains a valid
// signature over hash. A member listed k times counts once; outsiders never count.
func distinctSigners(set []string, hash []byte, keys []keypair.PublicKey, sigs [][]byte) int {
	member := map[string]bool{}
	for _, id := range set {
		member[id] = true
	}
	digest := sha(hash)
	counted := map[string]bool{}
	for _, k := range keys {
		id := hex.EncodeToString(keypair.SerializePublicKey(k))
		if !member[id] || counted[id] {
			continue
		}
		pub := ecdsaOf(k)
		for _, sig := range sigs {
			if len(sig) == 65 && sig[0] == 1 { // explicit SHA256withECDSA scheme byte
				sig = sig[1:]
			}
			if verify64(pub, digest, sig) {
				counted[id] = true
				break
			}
		}
	}
	return len(counted)
}

// atLeastOneThird: "signed by at least one third of the distinct members of the peer set".
func atLeastOneThird(signers, members int) bool { return members > 0 && 3*signers >= members }

func configIDs(payload []byte) ([]string, bool) {
	info := &vconfig.VbftBlockInfo{}
	if err := json.Unmarshal(payload, info); err != nil || info.NewChainConfig == nil {
		return nil, false
	}
	seen := map[string]bool{}
	var ids []string
	for _, p := range info.NewChainConfig.Peers {
		if !seen[p.ID] {
			seen[p.ID] = true
			ids = append(ids, p.ID)
		}
	}
	sort.Strings(ids)
	return ids, true
}

func sameStrings(a, b []string) bool {
	if len(a) != len(b) {
		return false
	}
	for i := range a {
		if a[i] != b[i] {
			return false
		}
	}
	return true
}
