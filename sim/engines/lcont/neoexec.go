package lcont

import (
	"bytes"
	"encoding/hex"
	"fmt"

	"github.com/polynetwork/poly/account"
	"github.com/polynetwork/poly/core/types"
	ccom "github.com/polynetwork/poly/native/service/cross_chain_manager/common"
	"github.com/polynetwork/poly/native/service/governance/neo3_state_manager"
	hscom "github.com/polynetwork/poly/native/service/header_sync/common"

	"polysim/chain"
	"polysim/engines/e1"
	"polysim/kernel"
)

const neoMaxI = 20

type neoSub struct {
	kind    string // gen | hdr | dep
	byUser  bool
	raws    [][]byte
	labels  []string
	hkinds  []string // canonical | forged | lower-index
	proof   []byte
	ccid    []byte
	tx      *types.Transaction
	stepNos []int
}

type neoRun struct {
	run       *kernel.Run
	h         *e1.Harness
	c         *neoChain
	fam       int64
	installed bool
	H         uint32  // model: tracked index
	S         hash160 // model: tracked next-consensus script hash
	done      map[string]bool
	pending   []*neoSub
	sig       []byte
	nAcc      int
	nRejBad   int
	stop      bool
	svApply   uint64
	svRemove  uint64
	svCur     []*account.Account
	nState    uint64
}

func (r *neoRun) pre() string { return r.c.cd.name() }

func (r *neoRun) index(a int64) uint32 { return r.c.g0 + 1 + uint32(abs64(a)%int64(r.c.maxI)) }

// trackedSet: the validator set the model says poly tracks (nil if its script is unknown).
func (r *neoRun) trackedSet() *neoSet {
	if !r.installed {
		return r.c.epochs[0].set
	}
	if s, ok := r.c.reg[r.S]; ok {
		return s
	}
	return nil
}

func (r *neoRun) prevOf(s *neoSet) *neoSet {
	for i, ep := range r.c.epochs {
		if s != nil && ep.set.hash == s.hash && i > 0 {
			return r.c.epochs[i-1].set
		}
	}
	return nil
}

func (r *neoRun) step(i int, st kernel.Step) {
	a := st.Arg
	c := r.c
	switch st.Op {
	case "ngen":
		raw, lab := c.genesis(a(0))
		r.pending = append(r.pending, &neoSub{kind: "gen", byUser: abs64(a(1))%2 == 1, raws: [][]byte{raw}, labels: []string{lab}, stepNos: []int{i}})
	case "nhdr":
		var raw []byte
		var lab, hk string
		switch abs64(a(1)) % 3 {
		case 0:
			raw, lab, _ = c.canonical(r.index(a(0)), a(2), a(3), a(4))
			hk = "canonical"
		case 1: // the tracked set (or a faulty witness) announces a set chosen by the submitter
			t := r.trackedSet()
			if t == nil {
				t = c.epochs[0].set
			}
			next := c.evil.hash
			if abs64(a(4))%3 == 0 {
				next = c.alt.hash
			}
			raw, lab = c.signedHeader(r.index(a(0)), next, 1+uint64(abs64(a(4))), t, r.prevOf(t), a(2), a(3), a(4))
			hk = "forged"
		case 2: // a change announced at an index not above the tracked one
			t := r.trackedSet()
			if t == nil {
				t = c.epochs[0].set
			}
			idx := c.g0
			if r.H > c.g0 {
				idx = c.g0 + 1 + uint32(abs64(a(0))%int64(r.H-c.g0))
			}
			next := c.evil.hash
			if p := r.prevOf(t); p != nil && abs64(a(4))%2 == 0 {
				next = p.hash // roll back to the previous validators
			}
			raw, lab = c.signedHeader(idx, next, 2+uint64(abs64(a(4))), t, r.prevOf(t), a(2), a(3), a(4))
			hk = "lower-index"
		}
		if abs64(a(5))%2 == 1 && len(r.pending) > 0 && r.pending[len(r.pending)-1].kind == "hdr" {
			p := r.pending[len(r.pending)-1]
			p.raws, p.labels, p.hkinds, p.stepNos = append(p.raws, raw), append(p.labels, lab), append(p.hkinds, hk), append(p.stepNos, i)
			return
		}
		r.pending = append(r.pending, &neoSub{kind: "hdr", raws: [][]byte{raw}, labels: []string{lab}, hkinds: []string{hk}, stepNos: []int{i}})
	case "ndep":
		t := r.depositSet()
		if t == nil {
			t = c.epochs[0].set
		}
		n := r.nState
		if abs64(a(4))%8 == 7 && r.nState > 0 {
			n = uint64(abs64(a(3))) % r.nState // replay an earlier state
		} else {
			r.nState++
		}
		raw, proof, ccid, lab := c.signedRoot(c.g0+1+uint32(n), n, t, r.prevOf(t), a(0), a(1), a(2))
		r.pending = append(r.pending, &neoSub{kind: "dep", raws: [][]byte{raw}, labels: []string{lab}, proof: proof, ccid: ccid, stepNos: []int{i}})
	}
}

// depositSet: the set whose signatures authenticate state roots.
func (r *neoRun) depositSet() *neoSet {
	if r.fam == 2 {
		if len(r.svCur) == 0 {
			return nil
		}
		return r.c.mkSet(r.svCur, 0, "state-validators")
	}
	return r.trackedSet()
}

func (r *neoRun) buildTx(s *neoSub) *types.Transaction {
	h := r.h
	relayer := h.User(1)
	switch s.kind {
	case "gen":
		args := chain.Args(&hscom.SyncGenesisHeaderParam{ChainID: r.c.id, GenesisHeader: s.raws[0]})
		if s.byUser {
			return h.Signed(chain.HeaderSync, hscom.SYNC_GENESIS_HEADER, args, h.User(2))
		}
		return h.Operator(chain.HeaderSync, hscom.SYNC_GENESIS_HEADER, args)
	case "hdr":
		return h.Signed(chain.HeaderSync, hscom.SYNC_BLOCK_HEADER, chain.Args(&hscom.SyncBlockHeaderParam{ChainID: r.c.id, Address: relayer.Address, Headers: s.raws}), relayer)
	case "dep":
		return h.Signed(chain.CrossChain, ccom.IMPORT_OUTER_TRANSFER_NAME, chain.Args(&ccom.EntranceParam{SourceChainID: r.c.id, Height: 0, Proof: s.proof,
			RelayerAddress: relayer.Address[:], HeaderOrCrossChainMsg: s.raws[0]}), relayer)
	}
	panic("unknown submission kind")
}

func (r *neoRun) cut() {
	if len(r.pending) == 0 || r.stop {
		return
	}
	subs := r.pending
	r.pending = nil
	var txs []*types.Transaction
	for _, s := range subs {
		s.tx = r.buildTx(s)
		txs = append(txs, s.tx)
	}
	_, ok := r.h.ExecInspect(func(traces []*e1.TxTrace) {
		if len(traces) != len(subs) {
			panic(fmt.Sprintf("lcont: %d traces for %d submissions", len(traces), len(subs)))
		}
		for i, t := range traces {
			if t.Tx.Hash() != subs[i].tx.Hash() {
				panic("lcont: trace order differs from submission order")
			}
			r.run.StepNo = subs[i].stepNos[len(subs[i].stepNos)-1]
			switch subs[i].kind {
			case "gen":
				r.onGenesis(t, subs[i])
			case "hdr":
				r.onHeaders(t, subs[i])
			case "dep":
				r.onDeposit(t, subs[i])
			}
			if r.stop {
				return
			}
		}
	}, txs...)
	if !ok {
		r.stop = true
	}
	if r.stop {
		return
	}
	// committed state == model
	H, S, okT := r.c.cd.tracked(r.h.View(), r.c.id)
	if okT != r.installed || (okT && (H != r.H || S != r.S)) {
		r.run.Fail("C31", r.pre()+"-tracked-validators-differ-from-model", "after the block poly tracks (%d,%s) installed=%v, the model (%d,%s) installed=%v", H, S, okT, r.H, r.S, r.installed)
		r.stop = true
		return
	}
	r.run.State([]byte(fmt.Sprintf("%s %d %s %d", r.pre(), r.H-r.c.g0, r.c.labelOf(r.S), len(r.done))))
}

func (c *neoChain) labelOf(h hash160) string {
	if s, ok := c.reg[h]; ok {
		return s.label
	}
	return "unknown"
}

func (r *neoRun) note(kind, label, out string) {
	r.run.Probe(r.pre() + "_" + kind + ":" + label + ":" + out)
	r.sig = append(r.sig, []byte(kind+label+out)...)
}

// changed reports whether this transaction wrote the tracked-validators record of this chain.
func (r *neoRun) trackedWrite(t *e1.TxTrace) bool {
	want := append(append([]byte{}, chain.HeaderSync[:]...), append([]byte(hscom.CONSENSUS_PEER), u64(r.c.id)...)...)
	for k := range t.Writes {
		if len(k) > 1 && bytes.Equal([]byte(k[1:]), want) {
			return true
		}
	}
	return false
}

func (r *neoRun) onGenesis(t *e1.TxTrace, s *neoSub) {
	run := r.run
	idx, next, _, _, _, err := r.c.cd.parseHeader(s.raws[0], r.c.magic)
	if err != nil {
		panic(err)
	}
	H1, S1, ok := r.c.cd.tracked(t.Post, r.c.id)
	run.Logf("%s genesis %s user=%v idx=%d ok=%v tracked=(%d,%s,%v)", r.pre(), s.labels[0], s.byUser, idx, t.OK, H1, r.c.labelOf(S1), ok)
	changed := ok != r.installed || (ok && (H1 != r.H || S1 != r.S))
	if s.byUser {
		run.Fault(r.pre() + "_genesis_by_non_operator")
		if changed {
			run.Fail("C31", r.pre()+"-validators-changed-without-authenticated-header", "syncGenesisHeader witnessed by a user changed the tracked validators to (%d,%s)", H1, S1)
			r.stop = true
		}
		return
	}
	if !r.installed {
		if t.OK {
			if !ok || H1 != idx || S1 != next {
				run.Fail("C31", r.pre()+"-trust-root-differs", "trust root (%d,%s) installed as (%d,%s)", idx, next, H1, S1)
				r.stop = true
				return
			}
			r.installed, r.H, r.S = true, H1, S1
			run.Probe(r.pre() + "_trust_root_installed")
		}
		return
	}
	run.Fault(r.pre() + "_trust_root_reinstall:" + s.labels[0])
	switch {
	case !t.OK:
		run.Probe(r.pre() + "_reinstall_rejected")
	case !changed:
		run.Probe(r.pre() + "_reinstall_returned_success_without_effect(C19 probe)")
	default:
		run.Probe(r.pre() + "_reinstall_CHANGED_the_trust_root(C19 probe, suspicious)")
		r.H, r.S = H1, S1
	}
}

func (r *neoRun) onHeaders(t *e1.TxTrace, s *neoSub) {
	run := r.run
	H0, S0 := r.H, r.S
	H1, S1, ok := r.c.cd.tracked(t.Post, r.c.id)
	changed := ok != r.installed || (ok && (H1 != H0 || S1 != S0))
	type parsed struct {
		idx      uint32
		next     hash160
		signers  int
		m        int
		scriptOK bool
		err      error
	}
	var ps []parsed
	t0 := r.c.reg[S0]
	for i, raw := range s.raws {
		idx, next, inv, ver, msg, err := r.c.cd.parseHeader(raw, r.c.magic)
		p := parsed{idx: idx, next: next, err: err}
		if err == nil && r.installed && t0 != nil {
			p.m = t0.m
			p.signers, p.scriptOK = r.c.distinctWitnessSigners(t0, msg, inv, ver)
			p.scriptOK = p.scriptOK && scriptHash(ver) == S0
		}
		ps = append(ps, p)
		run.Logf("%s header idx=%d %s/%s next=%s witness-for-tracked=%v signers=%d/%d txok=%v changed=%v", r.pre(), idx, s.hkinds[i], s.labels[i], r.c.labelOf(next), p.scriptOK, p.signers, p.m, t.OK, changed)
		isChange := err == nil && r.installed && next != S0
		if isChange && (neoFaultLabel(s.labels[i]) || s.hkinds[i] != "canonical") {
			run.Fault(r.pre() + "_change:" + s.hkinds[i] + "/" + s.labels[i])
		}
	}
	if !t.OK {
		if changed || r.trackedWrite(t) {
			run.Fail("C15", "failed-tx-left-writes", "failed %s header sync changed the tracked validators", r.pre())
			r.stop = true
			return
		}
		if len(s.raws) == 1 && r.installed && ps[0].err == nil && ps[0].next != S0 {
			r.note("change", s.labels[0], "rejected")
			if neoFaultLabel(s.labels[0]) {
				r.nRejBad++
			}
		}
		return
	}
	if !changed {
		for i, p := range ps {
			if p.err != nil || !r.installed {
				continue
			}
			switch {
			case p.next == S0:
				run.Probe(r.pre() + "_header_without_change_noop")
			case p.idx <= H0:
				r.note("change", "lower-index", "ignored")
				if p.scriptOK && p.signers >= p.m {
					run.Probe(r.pre() + "_validly_witnessed_change_at_lower_or_equal_index_ignored")
					r.nRejBad++
				}
			default:
				run.Probe(r.pre() + "_change_header_shadowed:" + s.labels[i])
			}
		}
		return
	}
	// the tracked validators changed: some header of this transaction must justify it
	why := "no header of the transaction carries the new (index, next consensus)"
	just := -1
	for i, p := range ps {
		if p.err != nil || p.idx != H1 || p.next != S1 {
			continue
		}
		switch {
		case !r.installed:
			why = "no trust root was installed"
		case p.idx <= H0:
			why = fmt.Sprintf("header %d (%s/%s) has index %d, not above the tracked index %d", i, s.hkinds[i], s.labels[i], p.idx, H0)
		case !p.scriptOK:
			why = fmt.Sprintf("header %d (%s/%s): its witness script is not the tracked next-consensus script %s", i, s.hkinds[i], s.labels[i], S0)
		case p.signers < p.m:
			why = fmt.Sprintf("header %d (%s/%s): %d distinct valid signatures of the tracked validators, %d required", i, s.hkinds[i], s.labels[i], p.signers, p.m)
		default:
			just = i
		}
		if just >= 0 {
			break
		}
	}
	if just < 0 {
		run.Fail("C31", r.pre()+"-validator-change-without-authenticated-header", "tracked validators changed from (%d,%s) to (%d,%s): %s", H0, r.c.labelOf(S0), H1, r.c.labelOf(S1), why)
		r.stop = true
		return
	}
	r.note("change", s.labels[just], "accepted")
	if !neoFaultLabel(s.labels[just]) {
		r.nAcc++
	}
	if ps[just].signers == ps[just].m {
		run.Probe(r.pre() + "_change_accepted_with_exactly_m_signers")
	}
	if s.hkinds[just] != "canonical" {
		run.Probe(r.pre() + "_change_by_equivocating_validators_accepted")
	}
	if len(s.raws) > 1 {
		run.Probe(r.pre() + "_multi_header_tx_changed_validators")
	}
	r.H, r.S = H1, S1
}

// stateValidators reads the N3 state validators poly has registered (pre-state of the tx).
func (r *neoRun) stateValidators(v e1.View) *neoSet {
	raw := v.Get(chain.Neo3State, []byte(neo3_state_manager.STATE_VALIDATOR))
	if raw == nil {
		return nil
	}
	ss, err := neo3_state_manager.DeserializeStringArray(raw)
	if err != nil || len(ss) == 0 {
		return nil
	}
	var accts []*account.Account
	for _, s := range ss {
		a := r.c.byPub[s]
		if a == nil {
			return nil
		}
		accts = append(accts, a)
	}
	return r.c.mkSet(accts, 0, "state-validators")
}

func (r *neoRun) onDeposit(t *e1.TxTrace, s *neoSub) {
	run := r.run
	lab := s.labels[0]
	ccid := hex.EncodeToString(s.ccid)
	var T *neoSet
	if r.fam == 2 {
		T = r.stateValidators(t.Pre)
	} else if r.installed {
		_, S, ok := r.c.cd.tracked(t.Pre, r.c.id)
		if ok {
			T = r.c.reg[S]
		}
	}
	_, inv, ver, msg, err := r.c.cd.parseStateRoot(s.raws[0], r.c.magic)
	signers, scriptOK, need := 0, false, 0
	if err == nil && T != nil {
		signers, scriptOK = r.c.distinctWitnessSigners(T, msg, inv, ver)
		need = T.m
	}
	// a k-of-n script over exactly the tracked keys with k above the required count is at least
	// as strong as the tracked rule: judged by its own k
	if err == nil && T != nil && !scriptOK {
		if alt := r.c.reg[scriptHash(ver)]; alt != nil && alt.m > T.m && sameMembers(alt, T) {
			if n, ok := r.c.distinctWitnessSigners(alt, msg, inv, ver); ok && n >= alt.m {
				signers, scriptOK = n, true
			}
		}
	}
	div3 := T != nil && len(T.members)%3 == 0
	if T != nil {
		run.Probe(fmt.Sprintf("%s_msg_presented_to_tracked_set_size_%d", r.pre(), len(T.members)))
		if div3 {
			run.Probe(r.pre() + "_msg_tracked_set_size_divisible_by_3")
		}
	}
	replay := r.done[ccid]
	run.Logf("%s deposit %s tracked=%v witness-for-tracked=%v signers=%d/%d replay=%v txok=%v", r.pre(), lab, T != nil, scriptOK, signers, need, replay, t.OK)
	if neoFaultLabel(lab) {
		run.Fault(r.pre() + "_msg:" + lab)
	}
	if replay {
		run.Fault(r.pre() + "_deposit_replayed")
		if t.OK {
			run.Probe(r.pre() + "_replayed_deposit_ACCEPTED(C20 probe, suspicious)")
		} else {
			run.Probe(r.pre() + "_replayed_deposit_rejected(C20 probe)")
		}
	}
	if !t.OK {
		if !replay {
			r.note("msg", lab, "rejected")
			if neoFaultLabel(lab) {
				r.nRejBad++
			}
			if div3 && lab == "m-minus-one-script" {
				run.Probe(r.pre() + "_msg_m_minus_one_script_rejected_at_size_divisible_by_3")
			}
		}
		return
	}
	if T == nil || !scriptOK || signers < need {
		why := fmt.Sprintf("%d distinct valid signatures of the tracked validators, %d required", signers, need)
		if T == nil {
			why = "no validator set is tracked"
		} else if !scriptOK {
			why = "the witness script is not the tracked validators' script"
			if alt := r.c.reg[scriptHash(ver)]; alt != nil {
				why = fmt.Sprintf("the witness script is %q (%d-of-%d), not the script of the %d tracked validators, which requires %d = n-(n-1)/3 signatures", alt.label, alt.m, len(alt.members), len(T.members), T.m)
			}
		}
		run.Fail("C24", r.pre()+"-state-root-accepted-without-required-distinct-signers", "importOuterTransfer accepted a state root (%s): %s", lab, why)
		r.stop = true
		return
	}
	r.note("msg", lab, "accepted")
	if !neoFaultLabel(lab) {
		r.nAcc++
	}
	if signers == need {
		run.Probe(r.pre() + "_msg_accepted_with_exactly_m_signers")
	}
	if div3 && lab == "honest" {
		run.Probe(r.pre() + "_msg_honest_accepted_at_size_divisible_by_3")
	}
	run.Probe(fmt.Sprintf("%s_msg_accepted_set_size_%d", r.pre(), len(T.members)))
	r.done[ccid] = true
}

// ---- N3 state validators (governance flow, not under test here) ----

func twoThirds(n int) int { return (2*n + 2) / 3 }

func (r *neoRun) svChange(add bool, accts []*account.Account) {
	h := r.h
	owner := h.User(0)
	var pubs []string
	for _, a := range accts {
		pubs = append(pubs, chain.PubHex(a))
	}
	method, approve, id := neo3_state_manager.REGISTER_STATE_VALIDATOR, neo3_state_manager.APPROVE_REGISTER_STATE_VALIDATOR, r.svApply
	if !add {
		method, approve, id = neo3_state_manager.REMOVE_STATE_VALIDATOR, neo3_state_manager.APPROVE_REMOVE_STATE_VALIDATOR, r.svRemove
	}
	txs := []*types.Transaction{h.Signed(chain.Neo3State, method, chain.Args(&neo3_state_manager.StateValidatorListParam{StateValidators: pubs, Address: owner.Address}), owner)}
	vals := h.Validators()
	for i := 0; i < twoThirds(len(vals)); i++ {
		txs = append(txs, h.Signed(chain.Neo3State, approve, chain.Args(&neo3_state_manager.ApproveStateValidatorParam{ID: id, Address: vals[i].Address}), vals[i]))
	}
	tr, ok := h.Exec(txs...)
	if !ok {
		r.stop = true
		return
	}
	for _, t := range tr {
		if !t.OK {
			panic("lcont: state validator governance transaction failed")
		}
	}
	if add {
		r.svApply++
	} else {
		r.svRemove++
	}
	// follow poly's list
	if s := r.stateValidators(h.View()); s != nil {
		r.svCur = s.members
	} else {
		r.svCur = nil
	}
	r.run.Logf("neo3 state validators now %d", len(r.svCur))
	r.run.Probe("neo3_state_validators_changed")
}

func sameMembers(a, b *neoSet) bool {
	if len(a.members) != len(b.members) {
		return false
	}
	for i := range a.members {
		if a.members[i] != b.members[i] {
			return false
		}
	}
	return true
}
