package lcont

import (
	"bytes"
	"encoding/hex"
	"fmt"
	"sort"
	"strings"

	"github.com/ontio/ontology-crypto/keypair"
	ocommon "github.com/ontio/ontology/common"
	otypes "github.com/ontio/ontology/core/types"
	"github.com/polynetwork/poly/account"
	"github.com/polynetwork/poly/common"
	cstates "github.com/polynetwork/poly/core/states"
	"github.com/polynetwork/poly/core/types"
	ccom "github.com/polynetwork/poly/native/service/cross_chain_manager/common"
	hscom "github.com/polynetwork/poly/native/service/header_sync/common"
	hsont "github.com/polynetwork/poly/native/service/header_sync/ont"
	"github.com/polynetwork/poly/native/service/utils"

	"polysim/chain"
	"polysim/engines/e1"
	"polysim/kernel"
)

const (
	ontChainID  = 5
	neoChainID  = 6
	neo3ChainID = 7
	dstChainID  = 8
)

// ontSub is one transaction submitted to poly by the simulated relayer.
type ontSub struct {
	kind    string // gen | hdr | msg | dep
	byUser  bool   // gen: witnessed by a user instead of the consensus operator
	raws    [][]byte
	labels  []string
	forged  []bool
	height  uint32 // dep: params.Height
	proof   []byte
	ccid    []byte
	replay  bool
	tx      *types.Transaction
	stepNos []int
}

type ontRun struct {
	run        *kernel.Run
	h          *e1.Harness
	c          *ontChain
	m          *ontModel
	pending    []*ontSub
	sig        []byte
	nAcc       int // accepted honest artefacts
	nRejBad    int // rejected faulty artefacts
	nTolerated int
	oooKeys    bool // a key header was recorded below an already recorded key height
	stop       bool
}

func u32(v uint32) []byte { return utils.GetUint32Bytes(v) }
func u64(v uint64) []byte { return utils.GetUint64Bytes(v) }

func (r *ontRun) height(a int64) uint32 {
	return r.c.g0 + 1 + uint32(abs64(a)%int64(r.c.maxH))
}

// step queues the artefact a plan step describes.
func (r *ontRun) step(i int, st kernel.Step) {
	a := st.Arg
	c := r.c
	switch st.Op {
	case "ogen":
		var raw []byte
		lab := "real"
		switch abs64(a(0)) % 3 {
		case 0:
			raw, _ = c.sealed(c.g0, 12, 0, 0)
		case 1:
			hd := c.altGenesis()
			raw = sealHeader(hd, seal{})
			lab = "other-set"
		case 2:
			raw, _ = c.sealed(c.g0, 0, 1, 5) // same header data, other bookkeepers / signatures
			lab = "re-encoded"
		}
		r.pending = append(r.pending, &ontSub{kind: "gen", byUser: abs64(a(1))%2 == 1, raws: [][]byte{raw}, labels: []string{lab}, stepNos: []int{i}})
	case "ohdr":
		h := r.height(a(0))
		var raw []byte
		var lab string
		forged := abs64(a(4))%2 == 1
		if forged {
			hd := c.forged(h, a(3))
			cur, prev := c.signers(h)
			hash := hd.Hash()
			s := c.makeSeal(hash[:], cur, prev, a(1), a(2), a(3))
			raw, lab = sealHeader(hd, s), "forged-config/"+s.label
		} else {
			raw, lab = c.sealed(h, a(1), a(2), a(3))
		}
		if abs64(a(5))%2 == 1 && len(r.pending) > 0 && r.pending[len(r.pending)-1].kind == "hdr" {
			p := r.pending[len(r.pending)-1]
			p.raws, p.labels, p.forged, p.stepNos = append(p.raws, raw), append(p.labels, lab), append(p.forged, forged), append(p.stepNos, i)
			return
		}
		r.pending = append(r.pending, &ontSub{kind: "hdr", raws: [][]byte{raw}, labels: []string{lab}, forged: []bool{forged}, stepNos: []int{i}})
	case "okey": // [h, which, mode, p, join]: a configuration-change header signed by the set the MODEL tracks for h
		h := r.height(a(0))
		hd := c.keyChange(h, a(1))
		signers, _ := r.modelSet(h, 0)
		hash := hd.Hash()
		sl := c.makeSeal(hash[:], signers, nil, a(2), a(3), 0)
		raw, lab := sealHeader(hd, sl), "key-change/"+sl.label
		if abs64(a(4))%2 == 1 && len(r.pending) > 0 && r.pending[len(r.pending)-1].kind == "hdr" {
			p := r.pending[len(r.pending)-1]
			p.raws, p.labels, p.forged, p.stepNos = append(p.raws, raw), append(p.labels, lab), append(p.forged, false), append(p.stepNos, i)
			return
		}
		r.pending = append(r.pending, &ontSub{kind: "hdr", raws: [][]byte{raw}, labels: []string{lab}, forged: []bool{false}, stepNos: []int{i}})
	case "oset": // [h, k, mode, p, kind]: header (0) / message (1) / deposit (2) of height h signed by the set recorded at the k-th greatest key height below h
		h := r.height(a(0))
		signers, k := r.modelSet(h, int(abs64(a(1))%3))
		pre := "newest-set/"
		if k > 0 {
			pre = "stale-set/"
		}
		switch abs64(a(4)) % 3 {
		case 0:
			hd := c.header(h)
			hash := hd.Hash()
			sl := c.makeSeal(hash[:], signers, nil, a(2), a(3), 0)
			r.pending = append(r.pending, &ontSub{kind: "hdr", raws: [][]byte{sealHeader(hd, sl)}, labels: []string{pre + sl.label}, forged: []bool{false}, stepNos: []int{i}})
		case 1:
			m := c.msg(h)
			hash := m.Hash()
			sl := c.makeSeal(hash[:], signers, nil, a(2), a(3), 0)
			r.pending = append(r.pending, &ontSub{kind: "msg", raws: [][]byte{msgBytes(m, sl)}, labels: []string{pre + sl.label}, stepNos: []int{i}})
		case 2:
			m := c.msg(h)
			hash := m.Hash()
			sl := c.makeSeal(hash[:], signers, nil, a(2), a(3), 0)
			leaf := int(abs64(a(3)) % ontLeaves)
			_, ccid := c.leaf(h, leaf, 0)
			r.pending = append(r.pending, &ontSub{kind: "dep", raws: [][]byte{msgBytes(m, sl)}, labels: []string{pre + sl.label}, height: h, proof: c.proof(h, leaf), ccid: ccid, stepNos: []int{i}})
		}
	case "omsg":
		h := r.height(a(0))
		raw, lab := c.sealedMsg(h, a(1), a(2), a(3))
		if abs64(a(4))%2 == 1 && len(r.pending) > 0 && r.pending[len(r.pending)-1].kind == "msg" {
			p := r.pending[len(r.pending)-1]
			p.raws, p.labels, p.stepNos = append(p.raws, raw), append(p.labels, lab), append(p.stepNos, i)
			return
		}
		r.pending = append(r.pending, &ontSub{kind: "msg", raws: [][]byte{raw}, labels: []string{lab}, stepNos: []int{i}})
	case "odep":
		h := r.height(a(0))
		raw, lab := c.sealedMsg(h, a(1), a(2), a(3))
		leaf := int(abs64(a(4)) % ontLeaves)
		_, ccid := c.leaf(h, leaf, 0)
		ph := h
		if abs64(a(5))%4 == 3 {
			ph = h + 1 // the entrance parameter names another height than the message carries
		}
		r.pending = append(r.pending, &ontSub{kind: "dep", raws: [][]byte{raw}, labels: []string{lab}, height: ph, proof: c.proof(h, leaf), ccid: ccid, stepNos: []int{i}})
	}
}

// modelSet resolves "the peer set recorded at the k-th greatest key height below h" from the
// model (k=0: the one the property names) to signing accounts; it returns the k actually used.
// Without any recorded set below h the canonical signers of the simulated chain are used.
func (r *ontRun) modelSet(h uint32, k int) ([]*account.Account, int) {
	var ks []uint32
	for _, x := range r.m.keyHeightsDesc() {
		if x < h {
			ks = append(ks, x)
		}
	}
	if len(ks) == 0 {
		cur, _ := r.c.signers(h)
		return cur, 0
	}
	if k >= len(ks) {
		k = len(ks) - 1
	}
	var out []*account.Account
	for _, id := range r.m.sets[ks[k]] {
		if a := r.c.byPub[id]; a != nil {
			out = append(out, a)
		}
	}
	if len(out) == 0 {
		cur, _ := r.c.signers(h)
		return cur, 0
	}
	return out, k
}

func (r *ontRun) buildTx(s *ontSub) *types.Transaction {
	h := r.h
	relayer := h.User(1)
	switch s.kind {
	case "gen":
		args := chain.Args(&hscom.SyncGenesisHeaderParam{ChainID: r.c.id, GenesisHeader: s.raws[0]})
		if s.byUser {
			return h.Signed(chain.HeaderSync, hscom.SYNC_GENESIS_HEADER, args, h.User(2))
		}
		return h.Operator(chain.HeaderSync, hscom.SYNC_GENESIS_HEADER, args)
	case "hdr":
		return h.Signed(chain.HeaderSync, hscom.SYNC_BLOCK_HEADER, chain.Args(&hscom.SyncBlockHeaderParam{ChainID: r.c.id, Address: relayer.Address, Headers: s.raws}), relayer)
	case "msg":
		return h.Signed(chain.HeaderSync, hscom.SYNC_CROSS_CHAIN_MSG, chain.Args(&hscom.SyncCrossChainMsgParam{ChainID: r.c.id, Address: relayer.Address, CrossChainMsgs: s.raws}), relayer)
	case "dep":
		return h.Signed(chain.CrossChain, ccom.IMPORT_OUTER_TRANSFER_NAME, chain.Args(&ccom.EntranceParam{SourceChainID: r.c.id, Height: s.height, Proof: s.proof,
			RelayerAddress: relayer.Address[:], Extra: nil, HeaderOrCrossChainMsg: s.raws[0]}), relayer)
	}
	panic("unknown submission kind")
}

// cut commits the pending submissions in one block and runs the oracles on every transaction.
func (r *ontRun) cut() {
	if len(r.pending) == 0 || r.stop {
		return
	}
	subs := r.pending
	r.pending = nil
	var txs []*types.Transaction
	for _, s := range subs {
		s.tx = r.buildTx(s)
		txs = append(txs, s.tx)
	}
	// the oracles run inside ExecInspect, i.e. before the block is committed, so that every
	// transaction's Post view is its exact post-state
	_, ok := r.h.ExecInspect(func(traces []*e1.TxTrace) {
		if len(traces) != len(subs) {
			panic(fmt.Sprintf("lcont: %d traces for %d submissions", len(traces), len(subs)))
		}
		for i, t := range traces {
			if t.Tx.Hash() != subs[i].tx.Hash() {
				panic("lcont: trace order differs from submission order")
			}
			r.run.StepNo = subs[i].stepNos[len(subs[i].stepNos)-1]
			switch subs[i].kind {
			case "gen":
				r.onGenesis(t, subs[i])
			case "hdr":
				r.onHeaders(t, subs[i])
			case "msg":
				r.onMsgs(t, subs[i])
			case "dep":
				r.onDeposit(t, subs[i])
			}
			r.checkWrites(t, subs[i])
			if !r.stop && t.OK {
				r.compareState(t.Post, "transaction "+subs[i].kind)
			}
			if r.stop {
				return
			}
		}
	}, txs...)
	if !ok {
		r.stop = true
	}
	if r.stop {
		return
	}
	// the committed state after the block must equal the model as a whole
	r.compareState(r.h.View(), "block")
	r.run.State(r.m.digest())
}

func (r *ontRun) note(kind, label string, accepted bool) {
	out := "rejected"
	if accepted {
		out = "accepted"
	}
	r.run.Probe("ont_" + kind + ":" + label + ":" + out)
	if r.oooKeys && (strings.HasPrefix(label, "stale-set/") || strings.HasPrefix(label, "newest-set/")) {
		r.run.Probe("ont_after_out_of_order_keys_" + kind + ":" + label + ":" + out)
	}
	r.sig = append(r.sig, []byte(kind+label+out)...)
}

func isFaultLabel(l string) bool {
	l = strings.TrimPrefix(strings.TrimPrefix(l, "newest-set/"), "key-change/")
	return l != "honest" && l != "all-members" && l != "extra-sigs" && l != "exact-third" && l != "real"
}

// ---- trust root ----

func (r *ontRun) onGenesis(t *e1.TxTrace, s *ontSub) {
	run := r.run
	hd, err := otypes.HeaderFromRawBytes(s.raws[0])
	if err != nil {
		panic(err)
	}
	hash := hd.Hash()
	ids, hasCfg := configIDs(hd.ConsensusPayload)
	run.Logf("ont genesis %s user=%v height=%d ok=%v", s.labels[0], s.byUser, hd.Height, t.OK)
	if s.byUser {
		run.Fault("ont_genesis_by_non_operator")
		if t.OK {
			run.Fail("C31", "ont-trust-root-installed-by-non-operator", "syncGenesisHeader witnessed by a user (not the consensus operator) succeeded: peer set of %d recorded at height %d without an authenticated header", len(ids), hd.Height)
			r.stop = true
		}
		return
	}
	re := len(r.m.sets) > 0
	if re {
		run.Fault("ont_trust_root_reinstall:" + s.labels[0])
	}
	if !t.OK {
		if re {
			run.Probe("ont_reinstall_rejected")
		}
		return
	}
	if re {
		// C19 material (decided by the router-generic check, not here): the model follows the
		// operator's installation so that the signer oracle keeps using what poly tracks.
		run.Probe("ont_reinstall_accepted(C19 probe)")
	} else {
		run.Probe("ont_trust_root_installed")
	}
	r.m.hdrs[hd.Height] = hex.EncodeToString(hash[:])
	if hasCfg {
		r.m.sets[hd.Height] = ids
	}
}

// ---- headers (C31) ----

type hdrVerdict struct {
	height  uint32
	skipped bool
	reject  string // non-empty: the property forbids acceptance
	signers int
	members int
	keyH    uint32
	newSet  []string
	hash    string
}

// judgeHeader evaluates one submitted header against the model, from the property text.
func judgeHeader(m *ontModel, raw []byte) (*otypes.Header, hdrVerdict) {
	hd, err := otypes.HeaderFromRawBytes(raw)
	if err != nil {
		return nil, hdrVerdict{reject: "undecodable header"}
	}
	v := hdrVerdict{height: hd.Height}
	hash := hd.Hash()
	v.hash = hex.EncodeToString(hash[:])
	if _, ok := m.hdrs[hd.Height]; ok {
		v.skipped = true
		return hd, v
	}
	kh, set, ok := m.setBelow(hd.Height)
	if !ok {
		v.reject = "no peer set recorded below the header's height"
		return hd, v
	}
	v.keyH, v.members = kh, len(set)
	v.signers = distinctSigners(set, hash[:], hd.Bookkeepers, hd.SigData)
	if !atLeastOneThird(v.signers, v.members) {
		v.reject = fmt.Sprintf("%d distinct valid signers of the %d peers recorded at key height %d (%d bookkeepers listed, %d signatures)", v.signers, v.members, kh, len(hd.Bookkeepers), len(hd.SigData))
	}
	if ids, has := configIDs(hd.ConsensusPayload); has {
		v.newSet = ids
	}
	return hd, v
}

func (r *ontRun) onHeaders(t *e1.TxTrace, s *ontSub) {
	run := r.run
	m2 := r.m.clone()
	var vs []hdrVerdict
	bad := -1
	for i, raw := range s.raws {
		_, v := judgeHeader(m2, raw)
		vs = append(vs, v)
		if v.reject != "" {
			bad = i
			break
		}
		if !v.skipped {
			m2.hdrs[v.height] = v.hash
			if v.newSet != nil {
				m2.sets[v.height] = v.newSet
			}
		}
	}
	for i, v := range vs {
		run.Logf("ont header h=%d %s skipped=%v signers=%d/%d key=%d newset=%d verdict=%q txok=%v", v.height, s.labels[i], v.skipped, v.signers, v.members, v.keyH, len(v.newSet), v.reject, t.OK)
		if isFaultLabel(s.labels[i]) && !v.skipped {
			run.Fault("ont_hdr:" + s.labels[i])
		}
	}
	if t.OK && bad >= 0 {
		v := vs[bad]
		run.Fail("C31", "ont-header-accepted-without-third-of-distinct-peers", "syncBlockHeader accepted header %d (%s) of height %d: %s", bad, s.labels[bad], v.height, v.reject)
		r.stop = true
		return
	}
	if !t.OK {
		if len(s.raws) == 1 {
			r.note("hdr", s.labels[0], false)
			if isFaultLabel(s.labels[0]) {
				r.nRejBad++
			}
		} else {
			run.Probe("ont_multi_header_tx_rejected")
		}
		return
	}
	maxKey, anyKey := uint32(0), false
	for k := range r.m.sets {
		if !anyKey || k > maxKey {
			maxKey, anyKey = k, true
		}
	}
	for i, v := range vs {
		if v.skipped {
			run.Probe("ont_hdr_resubmission_skipped")
			continue
		}
		if v.newSet != nil {
			if anyKey && v.height < maxKey {
				run.Probe("ont_key_header_recorded_below_an_already_recorded_key_height")
				r.oooKeys = true
			}
			if !anyKey || v.height > maxKey {
				maxKey, anyKey = v.height, true
			}
		}
		r.note("hdr", s.labels[i], true)
		if !isFaultLabel(s.labels[i]) {
			r.nAcc++
		}
		if 3*v.signers >= v.members && 3*(v.signers-1) < v.members {
			run.Probe("ont_hdr_accepted_exactly_at_one_third")
		}
		if v.newSet != nil {
			run.Probe("ont_key_header_recorded")
			if s.forged[i] {
				run.Probe("ont_equivocating_third_changed_the_set")
			}
		}
		if later := r.laterKey(v.height); later {
			run.Probe("ont_hdr_accepted_below_a_recorded_key_height")
		}
	}
	if len(s.raws) > 1 {
		run.Probe("ont_multi_header_tx_accepted")
	}
	r.m = m2
}

func (r *ontRun) laterKey(h uint32) bool {
	for k := range r.m.sets {
		if k > h {
			return true
		}
	}
	return false
}

// ---- cross-chain messages (C24) ----

type msgVerdict struct {
	height  uint32
	skipped bool
	reject  string
	signers int
	members int
	keyH    uint32
	root    string
	listed  int
	dupOnly bool // the listed tracked signers WITH multiplicity reach the required count, the distinct ones do not
}

func parseMsg(raw []byte) (*otypes.CrossChainMsg, []keypair.PublicKey, error) {
	src := ocommon.NewZeroCopySource(raw)
	m := new(otypes.CrossChainMsg)
	if err := m.Deserialization(src); err != nil {
		return nil, nil, err
	}
	n, _, irr, eof := src.NextVarUint()
	if irr || eof {
		return nil, nil, fmt.Errorf("bookkeeper count")
	}
	var ks []keypair.PublicKey
	for i := uint64(0); i < n; i++ {
		b, _, irr, eof := src.NextVarBytes()
		if irr || eof {
			return nil, nil, fmt.Errorf("bookkeeper %d", i)
		}
		k, err := keypair.DeserializePublicKey(b)
		if err != nil {
			return nil, nil, err
		}
		ks = append(ks, k)
	}
	return m, ks, nil
}

// judgeMsg: a message is acceptable only if validly signed by the required number (one third,
// the Ontology rule of this light client) of DISTINCT members of the tracked peer set.
func judgeMsg(m *ontModel, raw []byte, checkStored bool) msgVerdict {
	msg, keys, err := parseMsg(raw)
	if err != nil {
		return msgVerdict{reject: "undecodable message"}
	}
	v := msgVerdict{height: msg.Height, root: hex.EncodeToString(msg.StatesRoot[:]), listed: len(keys)}
	if _, ok := m.msgs[msg.Height]; ok && checkStored {
		v.skipped = true
		return v
	}
	kh, set, ok := m.setBelow(msg.Height)
	if !ok {
		v.reject = "no peer set recorded below the message's height"
		return v
	}
	hash := msg.Hash()
	v.keyH, v.members = kh, len(set)
	v.signers = distinctSigners(set, hash[:], keys, msg.SigData)
	if !atLeastOneThird(v.signers, v.members) {
		v.reject = fmt.Sprintf("%d distinct valid signers of the %d tracked peers (key height %d); %d bookkeepers listed, %d signatures", v.signers, v.members, kh, len(keys), len(msg.SigData))
		// classification of the cause (for the stable violation key only): count listings instead of members
		withMult := 0
		for _, k := range keys {
			withMult += distinctSigners(set, hash[:], []keypair.PublicKey{k}, msg.SigData)
		}
		v.dupOnly = atLeastOneThird(withMult, v.members)
	}
	return v
}

func c24Key(v msgVerdict) string {
	if v.dupOnly {
		return "ont-crosschainmsg-duplicate-signer-counted"
	}
	return "ont-crosschainmsg-accepted-without-required-distinct-signers"
}

func (r *ontRun) onMsgs(t *e1.TxTrace, s *ontSub) {
	run := r.run
	m2 := r.m.clone()
	var vs []msgVerdict
	var bad []int
	for i, raw := range s.raws {
		v := judgeMsg(m2, raw, true)
		vs = append(vs, v)
		if v.reject != "" {
			bad = append(bad, i)
			if !t.OK {
				break
			}
		}
		if !v.skipped {
			m2.msgs[v.height] = v.root // (only adopted below if the transaction succeeded)
		}
	}
	for i, v := range vs {
		run.Logf("ont msg h=%d %s skipped=%v signers=%d/%d listed=%d key=%d verdict=%q txok=%v", v.height, s.labels[i], v.skipped, v.signers, v.members, v.listed, v.keyH, v.reject, t.OK)
		if isFaultLabel(s.labels[i]) && !v.skipped {
			run.Fault("ont_msg:" + s.labels[i])
		}
	}
	if !t.OK {
		if len(s.raws) == 1 {
			r.note("msg", s.labels[0], false)
			if isFaultLabel(s.labels[0]) {
				r.nRejBad++
			}
		}
		return
	}
	for _, i := range bad {
		v := vs[i]
		key := c24Key(v)
		run.Fail("C24", key, "syncCrossChainMsg accepted message %d (%s) of height %d: %s", i, s.labels[i], v.height, v.reject)
		if !r.tolerate(key) {
			r.stop = true
			return
		}
	}
	for i, v := range vs {
		if v.skipped {
			run.Probe("ont_msg_resubmission_skipped")
			continue
		}
		r.note("msg", s.labels[i], true)
		if v.reject != "" {
			continue
		}
		if !isFaultLabel(s.labels[i]) {
			r.nAcc++
		}
		if 3*v.signers >= v.members && 3*(v.signers-1) < v.members {
			run.Probe("ont_msg_accepted_exactly_at_required_count")
		}
		run.Probe(fmt.Sprintf("ont_msg_accepted_tracked_set_size_%d", v.members))
	}
	r.m = m2
}

// tolerate: after reporting a violation of this class the run goes on (the model adopts what
// poly stored) so that the remaining steps are still checked; any other class stops the run.
func (r *ontRun) tolerate(key string) bool {
	if key != "ont-crosschainmsg-duplicate-signer-counted" {
		return false
	}
	r.nTolerated++
	return r.nTolerated <= 8
}

func (r *ontRun) onDeposit(t *e1.TxTrace, s *ontSub) {
	run := r.run
	lab := s.labels[0]
	ccid := hex.EncodeToString(s.ccid)
	_, stored := r.m.msgs[s.height]
	var v msgVerdict
	if stored {
		run.Probe("ont_deposit_used_stored_msg")
	} else {
		v = judgeMsg(r.m, s.raws[0], false)
		if isFaultLabel(lab) {
			run.Fault("ont_dep:" + lab)
		}
	}
	replay := r.m.done[ccid]
	run.Logf("ont deposit h=%d %s stored=%v signers=%d/%d listed=%d verdict=%q replay=%v txok=%v", s.height, lab, stored, v.signers, v.members, v.listed, v.reject, replay, t.OK)
	if replay {
		run.Fault("ont_deposit_replayed")
		if t.OK {
			run.Probe("ont_replayed_deposit_ACCEPTED(C20 probe, suspicious)")
		} else {
			run.Probe("ont_replayed_deposit_rejected(C20 probe)")
		}
	}
	if t.OK && !stored && v.reject != "" {
		run.Fail("C24", c24Key(v), "importOuterTransfer (Ontology MakeDepositProposal) accepted a message (%s) of height %d: %s", lab, v.height, v.reject)
		if !r.tolerate(c24Key(v)) {
			r.stop = true
			return
		}
	}
	if !t.OK {
		if !stored && !replay {
			r.note("dep", lab, false)
			if isFaultLabel(lab) {
				r.nRejBad++
			}
		}
		return
	}
	if !stored {
		r.note("dep", lab, true)
		if !isFaultLabel(lab) && v.reject == "" {
			r.nAcc++
		}
		r.m.msgs[v.height] = v.root
	}
	r.m.done[ccid] = true
	if !t.Post.Done(r.c.id, s.ccid) {
		run.Probe("ont_deposit_accepted_without_done_mark(C20 probe, suspicious)")
	}
}

// ---- state comparison and write attribution ----

// compareState reads poly's light-client records of this chain through the post-state view
// and compares them with the model (the model only ever changed through authenticated artefacts).
func (r *ontRun) compareState(post e1.View, what string) {
	run := r.run
	id := u64(r.c.id)
	raw := post.Get(chain.HeaderSync, []byte(hscom.KEY_HEIGHTS), id)
	kh := new(hsont.KeyHeights)
	if raw != nil {
		if err := kh.Deserialization(common.NewZeroCopySource(raw)); err != nil {
			run.Fail("C31", "ont-key-heights-unreadable", "after %s: %v", what, err)
			r.stop = true
			return
		}
	}
	got := map[uint32]bool{}
	for _, k := range kh.HeightList {
		got[k] = true
	}
	for _, k := range r.m.keyHeightsDesc() {
		if !got[k] {
			run.Fail("C31", "ont-peer-set-state-differs", "after %s: key height %d of the model is missing in poly (poly has %v)", what, k, kh.HeightList)
			r.stop = true
			return
		}
	}
	ks := make([]uint32, 0, len(got))
	for k := range got {
		ks = append(ks, k)
	}
	sort.Slice(ks, func(i, j int) bool { return ks[i] < ks[j] })
	for _, k := range ks {
		want, ok := r.m.sets[k]
		if !ok {
			run.Fail("C31", "ont-peer-set-recorded-without-authenticated-header", "after %s: poly records key height %d which no accepted header announced", what, k)
			r.stop = true
			return
		}
		praw := post.Get(chain.HeaderSync, []byte(hscom.CONSENSUS_PEER), id, u32(k))
		cp := new(hsont.ConsensusPeers)
		if praw == nil || cp.Deserialization(common.NewZeroCopySource(praw)) != nil {
			run.Fail("C31", "ont-peer-set-state-differs", "after %s: peer set of key height %d unreadable", what, k)
			r.stop = true
			return
		}
		var ids []string
		for pid := range cp.PeerMap {
			ids = append(ids, pid)
		}
		sort.Strings(ids)
		if !sameStrings(ids, want) {
			run.Fail("C31", "ont-peer-set-state-differs", "after %s: peer set recorded at key height %d has %d members %v, the accepted header announced %d", what, k, len(ids), ids, len(want))
			r.stop = true
			return
		}
	}
	hs := make([]uint32, 0, len(r.m.hdrs))
	for h := range r.m.hdrs {
		hs = append(hs, h)
	}
	sort.Slice(hs, func(i, j int) bool { return hs[i] < hs[j] })
	for _, h := range hs {
		idx := post.Get(chain.HeaderSync, []byte(hscom.HEADER_INDEX), id, u32(h))
		if hex.EncodeToString(idx) != r.m.hdrs[h] {
			run.Fail("C31", "ont-stored-header-differs", "after %s: header index of height %d is %x, model has %s", what, h, idx, r.m.hdrs[h])
			r.stop = true
			return
		}
	}
	ms := make([]uint32, 0, len(r.m.msgs))
	for h := range r.m.msgs {
		ms = append(ms, h)
	}
	sort.Slice(ms, func(i, j int) bool { return ms[i] < ms[j] })
	for _, h := range ms {
		mraw := post.Get(chain.HeaderSync, []byte(hscom.CROSS_CHAIN_MSG), id, u32(h))
		msg := new(otypes.CrossChainMsg)
		if mraw == nil || msg.Deserialization(ocommon.NewZeroCopySource(mraw)) != nil || hex.EncodeToString(msg.StatesRoot[:]) != r.m.msgs[h] {
			run.Fail("C24", "ont-stored-message-differs", "after %s: stored cross-chain message of height %d differs from the accepted one", what, h)
			r.stop = true
			return
		}
	}
}

// checkWrites attributes every light-client record this transaction wrote for this chain, by
// key AND value, to an artefact the model accepted (the model has already been advanced by
// this transaction): a peer set / key-height list is recorded only from an accepted key header
// (or the operator's trust root) and equals what that header announced; a header index only
// from an accepted header; a message record only from an accepted message.
func (r *ontRun) checkWrites(t *e1.TxTrace, s *ontSub) {
	if r.stop {
		return
	}
	run := r.run
	id := u64(r.c.id)
	keys := make([]string, 0, len(t.Writes))
	for k := range t.Writes {
		keys = append(keys, k)
	}
	sort.Strings(keys)
	fail := func(prop, key, f string, a ...interface{}) {
		run.Fail(prop, key, f, a...)
		r.stop = true
	}
	pfx := func(rest []byte, name string) bool { return bytes.HasPrefix(rest, append([]byte(name), id...)) }
	for _, k := range keys {
		if len(k) < 21 || !bytes.Equal([]byte(k[1:21]), chain.HeaderSync[:]) {
			continue
		}
		rest := []byte(k[21:])
		val, err := cstates.GetValueFromRawStorageItem(t.Writes[k])
		if err != nil {
			val = nil
		}
		switch {
		case pfx(rest, hscom.CONSENSUS_PEER_BLOCK_HEIGHT):
		case pfx(rest, hscom.CONSENSUS_PEER) && len(rest) == len(hscom.CONSENSUS_PEER)+12:
			h := utils.GetBytesUint32(rest[len(rest)-4:])
			want, ok := r.m.sets[h]
			if !ok || (s.kind != "gen" && s.kind != "hdr") {
				fail("C31", "ont-peer-set-recorded-without-authenticated-header", "%s transaction wrote a peer set for key height %d that no accepted header announced", s.kind, h)
				return
			}
			cp := new(hsont.ConsensusPeers)
			if val == nil || cp.Deserialization(common.NewZeroCopySource(val)) != nil {
				fail("C31", "ont-peer-set-state-differs", "peer set written for key height %d is unreadable", h)
				return
			}
			var ids []string
			for pid := range cp.PeerMap {
				ids = append(ids, pid)
			}
			sort.Strings(ids)
			if !sameStrings(ids, want) {
				fail("C31", "ont-peer-set-state-differs", "peer set written for key height %d has %d members, the accepted header announced %d", h, len(ids), len(want))
				return
			}
			run.Probe("ont_peer_set_write_attributed")
		case pfx(rest, hscom.KEY_HEIGHTS):
			kh := new(hsont.KeyHeights)
			if val == nil || kh.Deserialization(common.NewZeroCopySource(val)) != nil {
				fail("C31", "ont-key-heights-unreadable", "key-height list written by %s transaction is unreadable", s.kind)
				return
			}
			for _, h := range kh.HeightList {
				if _, ok := r.m.sets[h]; !ok {
					fail("C31", "ont-peer-set-recorded-without-authenticated-header", "%s transaction recorded key height %d that no accepted header announced", s.kind, h)
					return
				}
			}
		case pfx(rest, hscom.HEADER_INDEX):
			h := utils.GetBytesUint32(rest[len(rest)-4:])
			if want, ok := r.m.hdrs[h]; !ok || hex.EncodeToString(val) != want || (s.kind != "gen" && s.kind != "hdr") {
				fail("C31", "ont-stored-header-differs", "%s transaction stored header index %x for height %d, model has %q", s.kind, val, h, want)
				return
			}
		case pfx(rest, hscom.CROSS_CHAIN_MSG):
			h := utils.GetBytesUint32(rest[len(rest)-4:])
			msg := new(otypes.CrossChainMsg)
			want, ok := r.m.msgs[h]
			if !ok || (s.kind != "msg" && s.kind != "dep") || val == nil || msg.Deserialization(ocommon.NewZeroCopySource(val)) != nil || hex.EncodeToString(msg.StatesRoot[:]) != want {
				fail("C24", "ont-message-recorded-without-accepted-message", "%s transaction wrote a cross-chain message record for height %d that differs from what the model accepted", s.kind, h)
				return
			}
			run.Probe("ont_msg_write_attributed")
		}
	}
}
