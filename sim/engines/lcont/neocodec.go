package lcont

import (
	"bytes"
	"encoding/binary"
	"encoding/hex"
	"fmt"

	neobc "github.com/joeqian10/neo-gogogo/blockchain"
	neocrypto "github.com/joeqian10/neo-gogogo/crypto"
	neoio "github.com/joeqian10/neo-gogogo/helper/io"
	neo3bc "github.com/joeqian10/neo3-gogogo/blockchain"
	neo3crypto "github.com/joeqian10/neo3-gogogo/crypto"
	neo3io "github.com/joeqian10/neo3-gogogo/io"
	neo3mpt "github.com/joeqian10/neo3-gogogo/mpt"
	neo3sc "github.com/joeqian10/neo3-gogogo/sc"
	"github.com/ontio/ontology-crypto/keypair"
	"github.com/polynetwork/poly/account"
	"github.com/polynetwork/poly/common"
	hscom "github.com/polynetwork/poly/native/service/header_sync/common"
	hsneo "github.com/polynetwork/poly/native/service/header_sync/neo"
	hsneo3 "github.com/polynetwork/poly/native/service/header_sync/neo3"

	"polysim/chain"
	"polysim/engines/e1"
)

func le32(v uint32) []byte { return binary.LittleEndian.AppendUint32(nil, v) }
func le64(v uint64) []byte { return binary.LittleEndian.AppendUint64(nil, v) }

func neoVarUint(n int) []byte {
	if n < 0xfd {
		return []byte{byte(n)}
	}
	return []byte{0xfd, byte(n), byte(n >> 8)}
}

func headerFill(seed string, idx uint32, variant uint64) (prev, merkle []byte, ts uint32, nonce uint64) {
	b := append([]byte(seed), le32(idx)...)
	b = append(b, le64(variant)...)
	prev = sha(append([]byte("prev"), b...))
	merkle = sha(append([]byte("merkle"), b...))
	return prev, merkle, ontBaseTime + idx*15, binary.LittleEndian.Uint64(sha(append([]byte("nonce"), b...)))
}

// ---------------------------------------------------------------------------------------
// NEO 2
// ---------------------------------------------------------------------------------------

type neo2Codec struct{}

func (neo2Codec) name() string { return "neo" }

func (neo2Codec) script(m int, sorted []*account.Account) []byte {
	b := []byte{byte(0x50 + m)} // PUSHm
	for _, a := range sorted {
		b = append(b, 0x21)
		b = append(b, keypair.SerializePublicKey(a.PublicKey)...)
	}
	b = append(b, byte(0x50+len(sorted)), 0xae) // PUSHn CHECKMULTISIG
	return b
}

func (neo2Codec) invocation(sigs [][]byte) []byte {
	var b []byte
	for _, s := range sigs {
		b = append(b, 0x40)
		b = append(b, s...)
	}
	return b
}

func (neo2Codec) splitInvocation(inv []byte) ([][]byte, bool) {
	if len(inv)%65 != 0 {
		return nil, false
	}
	var out [][]byte
	for i := 0; i < len(inv); i += 65 {
		if inv[i] != 0x40 {
			return nil, false
		}
		out = append(out, inv[i+1:i+65])
	}
	return out, true
}

func (neo2Codec) header(idx uint32, next hash160, variant uint64, inv, ver []byte) []byte {
	prev, merkle, ts, nonce := headerFill("neo2", idx, variant)
	var b bytes.Buffer
	b.Write(le32(0))
	b.Write(prev)
	b.Write(merkle)
	b.Write(le32(ts))
	b.Write(le32(idx))
	b.Write(le64(nonce))
	b.Write(next[:])
	b.WriteByte(1)
	b.Write(neoVarBytes(inv))
	b.Write(neoVarBytes(ver))
	b.WriteByte(0)
	return b.Bytes()
}

func (neo2Codec) parseHeader(raw []byte, magic uint32) (uint32, hash160, []byte, []byte, []byte, error) {
	h := new(hsneo.NeoBlockHeader)
	if err := h.Deserialization(common.NewZeroCopySource(raw)); err != nil {
		return 0, hash160{}, nil, nil, nil, err
	}
	msg, err := h.GetMessage()
	if err != nil {
		return 0, hash160{}, nil, nil, nil, err
	}
	var next hash160
	copy(next[:], h.NextConsensus.Bytes())
	return h.Index, next, h.Witness.InvocationScript, h.Witness.VerificationScript, msg, nil
}

func (neo2Codec) stateRoot(idx uint32, root []byte, inv, ver []byte) []byte {
	var b bytes.Buffer
	b.WriteByte(0)
	b.Write(le32(idx))
	b.Write(make([]byte, 32))
	b.Write(root)
	b.Write(neoVarUint(1))
	b.Write(neoVarBytes(inv))
	b.Write(neoVarBytes(ver))
	return b.Bytes()
}

func (neo2Codec) parseStateRoot(raw []byte, magic uint32) (uint32, []byte, []byte, []byte, error) {
	m := new(hsneo.NeoCrossChainMsg)
	if err := m.Deserialization(common.NewZeroCopySource(raw)); err != nil {
		return 0, nil, nil, nil, err
	}
	msg, err := m.GetMessage()
	if err != nil {
		return 0, nil, nil, nil, err
	}
	inv, _ := hex.DecodeString(m.Witness.InvocationScript)
	ver, _ := hex.DecodeString(m.Witness.VerificationScript)
	return m.Index, inv, ver, msg, nil
}

// proof builds the smallest NEO 2 state trie holding (ccmc, key) -> value: a short node over
// the whole path pointing to the value node, and the proof of that entry.
func (neo2Codec) proof(ccmc []byte, key, value []byte) ([]byte, []byte) {
	sk := &neobc.Storagekey{Key: key}
	copy(sk.ScriptHash[:], ccmc)
	skey, err := neoio.ToArray(sk)
	if err != nil {
		panic(err)
	}
	item := append([]byte{0}, neoVarBytes(value)...)
	item = append(item, 0)
	vnode := append([]byte{0x03}, neoVarBytes(item)...)
	nib := make([]byte, 0, 2*len(skey))
	for _, x := range skey {
		nib = append(nib, x>>4, x&0x0f)
	}
	snode := append([]byte{0x01}, neoVarBytes(nib)...)
	snode = append(snode, neoVarBytes(neocrypto.Hash256(vnode))...)
	root := neocrypto.Hash256(snode)
	var p bytes.Buffer
	p.Write(neoVarBytes(skey))
	p.Write(neoVarUint(2))
	p.Write(neoVarBytes(snode))
	p.Write(neoVarBytes(vnode))
	return p.Bytes(), root
}

func neo2StorageKey(ccmc, key []byte) []byte {
	sk := &neobc.Storagekey{Key: key}
	copy(sk.ScriptHash[:], ccmc)
	skey, err := neoio.ToArray(sk)
	if err != nil {
		panic(err)
	}
	return skey
}

func toNibbles(b []byte) []byte {
	nib := make([]byte, 0, 2*len(b))
	for _, x := range b {
		nib = append(nib, x>>4, x&0x0f)
	}
	return nib
}

func neo2ValueNode(value []byte) []byte {
	item := append([]byte{0}, neoVarBytes(value)...)
	item = append(item, 0)
	return append([]byte{0x03}, neoVarBytes(item)...)
}

func neo2Short(key, next []byte) []byte {
	n := append([]byte{0x01}, neoVarBytes(key)...)
	return append(n, neoVarBytes(neocrypto.Hash256(next))...)
}

func assembleProof(skey []byte, nodes [][]byte) []byte {
	var p bytes.Buffer
	p.Write(neoVarBytes(skey))
	p.Write(neoVarUint(len(nodes)))
	for _, n := range nodes {
		p.Write(neoVarBytes(n))
	}
	return p.Bytes()
}

// proof2 builds a NEO 2 state trie with TWO entries (short node over the common prefix, full
// node, one child per entry) and returns the proof nodes of the first entry and the root.
func (neo2Codec) proof2(ccmc []byte, k1, v1, k2, v2 []byte) (skey []byte, nodes [][]byte, root []byte) {
	s1, s2 := neo2StorageKey(ccmc, k1), neo2StorageKey(ccmc, k2)
	n1, n2 := toNibbles(s1), toNibbles(s2)
	i := 0
	for i < len(n1) && i < len(n2) && n1[i] == n2[i] {
		i++
	}
	if i >= len(n1) || i >= len(n2) {
		panic("lcont: trie keys must differ")
	}
	child := func(rest, vnode []byte) []byte {
		if len(rest) == 0 {
			return vnode
		}
		return neo2Short(rest, vnode)
	}
	vn1, vn2 := neo2ValueNode(v1), neo2ValueNode(v2)
	c1, c2 := child(n1[i+1:], vn1), child(n2[i+1:], vn2)
	full := []byte{0x00}
	for j := 0; j < 17; j++ {
		switch {
		case j == int(n1[i]):
			full = append(full, neoVarBytes(neocrypto.Hash256(c1))...)
		case j == int(n2[i]):
			full = append(full, neoVarBytes(neocrypto.Hash256(c2))...)
		default:
			full = append(full, 0)
		}
	}
	top := full
	nodes = [][]byte{full}
	if i > 0 {
		top = neo2Short(n1[:i], full)
		nodes = [][]byte{top, full}
	}
	if len(n1[i+1:]) > 0 {
		nodes = append(nodes, c1)
	}
	nodes = append(nodes, vn1)
	return s1, nodes, neocrypto.Hash256(top)
}

func (neo2Codec) proofNodes(ccmc []byte, key, value []byte) (skey []byte, nodes [][]byte, root []byte) {
	skey = neo2StorageKey(ccmc, key)
	vnode := neo2ValueNode(value)
	snode := neo2Short(toNibbles(skey), vnode)
	return skey, [][]byte{snode, vnode}, neocrypto.Hash256(snode)
}

func (neo2Codec) tracked(v e1.View, chainID uint64) (uint32, hash160, bool) {
	raw := v.Get(chain.HeaderSync, []byte(hscom.CONSENSUS_PEER), u64(chainID))
	if raw == nil {
		return 0, hash160{}, false
	}
	nc := new(hsneo.NeoConsensus)
	if err := nc.Deserialization(common.NewZeroCopySource(raw)); err != nil {
		return 0, hash160{}, false
	}
	var h hash160
	copy(h[:], nc.NextConsensus.Bytes())
	return nc.Height, h, true
}

// ---------------------------------------------------------------------------------------
// NEO N3
// ---------------------------------------------------------------------------------------

type neo3Codec struct{}

func (neo3Codec) name() string { return "neo3" }

func (neo3Codec) script(m int, sorted []*account.Account) []byte {
	pts := make([]neo3crypto.ECPoint, 0, len(sorted))
	for _, a := range sorted {
		p, err := neo3crypto.NewECPointFromString(chain.PubHex(a))
		if err != nil {
			panic(err)
		}
		pts = append(pts, *p)
	}
	s, err := neo3sc.CreateMultiSigRedeemScript(m, pts)
	if err != nil {
		panic(err)
	}
	return s
}

func (neo3Codec) invocation(sigs [][]byte) []byte {
	var b []byte
	for _, s := range sigs {
		b = append(b, 0x0c, 0x40) // PUSHDATA1 64
		b = append(b, s...)
	}
	return b
}

func (neo3Codec) splitInvocation(inv []byte) ([][]byte, bool) {
	if len(inv)%66 != 0 {
		return nil, false
	}
	var out [][]byte
	for i := 0; i < len(inv); i += 66 {
		if inv[i] != 0x0c || inv[i+1] != 0x40 {
			return nil, false
		}
		out = append(out, inv[i+2:i+66])
	}
	return out, true
}

func (neo3Codec) header(idx uint32, next hash160, variant uint64, inv, ver []byte) []byte {
	prev, merkle, ts, nonce := headerFill("neo3", idx, variant)
	var b bytes.Buffer
	b.Write(le32(0))
	b.Write(prev)
	b.Write(merkle)
	b.Write(le64(uint64(ts) * 1000))
	b.Write(le64(nonce))
	b.Write(le32(idx))
	b.WriteByte(byte(idx % 4))
	b.Write(next[:])
	b.Write(neoVarUint(1))
	b.Write(neoVarBytes(inv))
	b.Write(neoVarBytes(ver))
	return b.Bytes()
}

func (neo3Codec) parseHeader(raw []byte, magic uint32) (uint32, hash160, []byte, []byte, []byte, error) {
	h := new(hsneo3.NeoBlockHeader)
	if err := h.Deserialization(common.NewZeroCopySource(raw)); err != nil {
		return 0, hash160{}, nil, nil, nil, err
	}
	msg, err := h.GetMessage(magic)
	if err != nil {
		return 0, hash160{}, nil, nil, nil, err
	}
	var next hash160
	copy(next[:], h.GetNextConsensus().ToByteArray())
	return h.GetIndex(), next, h.Witness.InvocationScript, h.Witness.VerificationScript, msg, nil
}

func (neo3Codec) stateRoot(idx uint32, root []byte, inv, ver []byte) []byte {
	var b bytes.Buffer
	b.WriteByte(0)
	b.Write(le32(idx))
	b.Write(root)
	b.Write(neoVarUint(1))
	b.Write(neoVarBytes(inv))
	b.Write(neoVarBytes(ver))
	return b.Bytes()
}

func (neo3Codec) parseStateRoot(raw []byte, magic uint32) (uint32, []byte, []byte, []byte, error) {
	m := new(hsneo3.NeoCrossChainMsg)
	if err := m.Deserialization(common.NewZeroCopySource(raw)); err != nil {
		return 0, nil, nil, nil, err
	}
	if len(m.Witnesses) != 1 {
		return 0, nil, nil, nil, fmt.Errorf("state root without witness")
	}
	msg, err := m.GetMessage(magic)
	if err != nil {
		return 0, nil, nil, nil, err
	}
	inv, _ := neo3crypto.Base64Decode(m.Witnesses[0].Invocation)
	ver, _ := neo3crypto.Base64Decode(m.Witnesses[0].Verification)
	return m.Index, inv, ver, msg, nil
}

func (neo3Codec) proof(ccmc []byte, key, value []byte) ([]byte, []byte) {
	id := int(int32(binary.LittleEndian.Uint32(append(append([]byte{}, ccmc...), 0, 0, 0, 0)[:4])))
	skey, err := neo3io.ToArray(&neo3bc.StorageKey{Id: id, Key: key})
	if err != nil {
		panic(err)
	}
	leaf := neo3mpt.NewLeafNode(value)
	ext := neo3mpt.NewExtensionNode(neo3mpt.ToNibbles(skey), leaf)
	root := ext.GetHash().ToByteArray()
	var p bytes.Buffer
	p.Write(neoVarBytes(skey))
	p.Write(neoVarUint(2))
	p.Write(neoVarBytes(ext.ToArrayWithoutReference()))
	p.Write(neoVarBytes(leaf.ToArrayWithoutReference()))
	return p.Bytes(), root
}

func neo3StorageKey(ccmc, key []byte) []byte {
	id := int(int32(binary.LittleEndian.Uint32(append(append([]byte{}, ccmc...), 0, 0, 0, 0)[:4])))
	skey, err := neo3io.ToArray(&neo3bc.StorageKey{Id: id, Key: key})
	if err != nil {
		panic(err)
	}
	return skey
}

func (neo3Codec) proofNodes(ccmc []byte, key, value []byte) (skey []byte, nodes [][]byte, root []byte) {
	skey = neo3StorageKey(ccmc, key)
	leaf := neo3mpt.NewLeafNode(value)
	ext := neo3mpt.NewExtensionNode(neo3mpt.ToNibbles(skey), leaf)
	return skey, [][]byte{ext.ToArrayWithoutReference(), leaf.ToArrayWithoutReference()}, ext.GetHash().ToByteArray()
}

// proof2: N3 state trie with two entries (extension over the common prefix, branch, one child
// per entry); proof nodes of the first entry and the root.
func (neo3Codec) proof2(ccmc []byte, k1, v1, k2, v2 []byte) (skey []byte, nodes [][]byte, root []byte) {
	s1, s2 := neo3StorageKey(ccmc, k1), neo3StorageKey(ccmc, k2)
	n1, n2 := neo3mpt.ToNibbles(s1), neo3mpt.ToNibbles(s2)
	i := 0
	for i < len(n1) && i < len(n2) && n1[i] == n2[i] {
		i++
	}
	if i >= len(n1) || i >= len(n2) || i == 0 {
		panic("lcont: trie keys must differ after a common prefix")
	}
	leaf1, leaf2 := neo3mpt.NewLeafNode(v1), neo3mpt.NewLeafNode(v2)
	c1, c2 := leaf1, leaf2
	if len(n1[i+1:]) > 0 {
		c1 = neo3mpt.NewExtensionNode(n1[i+1:], leaf1)
	}
	if len(n2[i+1:]) > 0 {
		c2 = neo3mpt.NewExtensionNode(n2[i+1:], leaf2)
	}
	br := neo3mpt.NewBranchNode()
	br.Children[n1[i]] = *c1
	br.Children[n2[i]] = *c2
	top := neo3mpt.NewExtensionNode(n1[:i], br)
	nodes = [][]byte{top.ToArrayWithoutReference(), br.ToArrayWithoutReference()}
	if c1 != leaf1 {
		nodes = append(nodes, c1.ToArrayWithoutReference())
	}
	nodes = append(nodes, leaf1.ToArrayWithoutReference())
	return s1, nodes, top.GetHash().ToByteArray()
}

func (neo3Codec) tracked(v e1.View, chainID uint64) (uint32, hash160, bool) {
	raw := v.Get(chain.HeaderSync, []byte(hscom.CONSENSUS_PEER), u64(chainID))
	if raw == nil {
		return 0, hash160{}, false
	}
	nc := new(hsneo3.NeoConsensus)
	if err := nc.Deserialization(common.NewZeroCopySource(raw)); err != nil || nc.NextConsensus == nil {
		return 0, hash160{}, false
	}
	var h hash160
	copy(h[:], nc.NextConsensus.ToByteArray())
	return nc.Height, h, true
}
