package lcont

import (
	"encoding/binary"
	"encoding/hex"
	"fmt"
	"sort"

	"github.com/polynetwork/poly/common"
	"github.com/polynetwork/poly/core/types"
	ccom "github.com/polynetwork/poly/native/service/cross_chain_manager/common"
	hscom "github.com/polynetwork/poly/native/service/header_sync/common"
	"github.com/polynetwork/poly/native/service/utils"

	"polysim/chain"
	"polysim/engines/e1"
	"polysim/engines/lc"
	"polysim/kernel"
)

// C20 "depositors": replay runs for the routers this engine can produce valid deposits for.
// One run = own world with the trust root installed; messages M_0..M_k-1 of the simulated
// side chain, each provable in several ways:
//
//	ont : the same cross-chain state is a leaf of the state trees of 4 consecutive heights
//	      (another CrossChainMsg, another merkle path); re-encoding = merkle path with other
//	      direction markers and trailing bytes, signatures in the 65-byte spelling, another
//	      bookkeeper subset, a garbage message field when the message of that height is stored;
//	neo / neo3 : the same storage entry proven against a single-entry state trie (state root
//	      index 2j) and against a two-entry trie (index 2j+1); re-encoding = proof node list
//	      reversed, with a duplicated and an unrelated node, witness signed by all n validators;
//	all : a forged twin (same cross-chain id, altered payload, validly committed and signed by
//	      the side chain) and proofs damaged in one byte (never acceptable).
type c20Depositor struct {
	router string
	fam    int64
}

func init() {
	lc.RegisterDepositor(c20Depositor{"ont", 0})
	lc.RegisterDepositor(c20Depositor{"neo", 1})
	lc.RegisterDepositor(c20Depositor{"neo3", 2})
}

func (d c20Depositor) Router() string { return d.router }

const (
	c20OntMsgs = 6 // groups of 4 heights within ontMaxH
	c20NeoMsgs = 8
)

// GenerateReplay: steps  d[j, o, form, p, q]  (deposit of message j proven in way o; form 0
// plain, 1 re-encoded, 2 forged twin, 3 damaged proof),  same[k]  (the identical transaction
// bytes of submission k again),  cut,  blocks[n],  restart[node].
func (d c20Depositor) GenerateReplay(rng *kernel.RNG, tier string) *kernel.Plan {
	cfg := baseCfg(rng)
	cfg["fam"] = d.fam
	cfg["n0"] = int64(4 + rng.Intn(4))
	cfg["g0"] = []int64{0, 0, 700}[rng.Intn(3)]
	nmsg, nways := c20NeoMsgs, 2
	if d.fam == 0 {
		nmsg, nways = c20OntMsgs, 4
	}
	if d.fam == 2 {
		cfg["nsv0"] = int64(4 + rng.Intn(4))
	}
	var steps []kernel.Step
	r := func() int64 { return int64(rng.Intn(1000)) }
	nsub := 0                 // submissions emitted so far (index space of "same")
	subsOf := map[int][]int{} // message -> its submission indices
	var deposited []int       // messages with a (presumably) accepted deposit
	fresh := rng.Perm(nmsg)   // messages not yet deposited
	emit := func(j, form int) {
		steps = append(steps, st("d", int64(j), int64(rng.Intn(nways)), int64(form), r(), r()))
		subsOf[j] = append(subsOf[j], nsub)
		nsub++
	}
	replay := func(j int) {
		switch x := rng.Intn(20); {
		case x < 5 && len(subsOf[j]) > 0: // (a) identical transaction bytes
			steps = append(steps, st("same", int64(subsOf[j][rng.Intn(len(subsOf[j]))])))
			subsOf[j] = append(subsOf[j], nsub)
			nsub++
		case x < 10: // (b) fresh transaction, another (or the same) proof / height
			emit(j, 0)
		case x < 14: // (c) re-encoded
			emit(j, 1)
		case x < 18: // (d) forged twin with the same id
			emit(j, 2)
		default: // damaged proof for an id that is already done
			emit(j, 3)
		}
	}
	cut := func(p float64) {
		if rng.Chance(p) {
			steps = append(steps, st("cut"))
		}
	}
	n := 7 + rng.Intn(9)
	for i := 0; i < n; i++ {
		if len(deposited) == 0 || (len(fresh) > 0 && rng.Chance(0.4)) {
			if len(fresh) == 0 {
				continue
			}
			j := fresh[0]
			fresh = fresh[1:]
			if rng.Chance(0.15) { // a damaged proof first: must never produce a done mark
				emit(j, 3)
				cut(0.7)
				if rng.Chance(0.3) {
					continue // this message is never deposited validly
				}
			}
			form := 0
			switch x := rng.Intn(20); {
			case x < 4:
				form = 1 // the re-encoded spelling is itself acceptable as a first deposit
			case x < 6:
				form = 2 // the forged twin arrives first; the genuine message is then the replay
			}
			emit(j, form)
			deposited = append(deposited, j)
			for rng.Chance(0.35) { // replay inside the same block
				replay(j)
			}
			cut(0.85)
		} else {
			replay(deposited[rng.Intn(len(deposited))])
			cut(0.75)
		}
		switch x := rng.Intn(25); {
		case x == 0:
			steps = append(steps, st("restart", int64(rng.Intn(2))))
		case x < 3:
			steps = append(steps, st("blocks", int64(1+rng.Intn(3))))
		}
	}
	steps = append(steps, st("cut"))
	return &kernel.Plan{Cfg: cfg, Steps: steps}
}

// ---- execution ----

type c20Sub struct {
	tx    *types.Transaction
	ccid  []byte
	form  int // 0 plain, 1 re-encoded, 2 forged twin, 3 damaged proof, 4 identical bytes
	way   int64
	step  int
	epoch int // number of restarts / relay-chain-only blocks before this submission
}

type c20World struct {
	run      *kernel.Run
	h        *e1.Harness
	router   string
	src      uint64
	build    func(st kernel.Step, i int) *c20Sub
	accepted map[string]bool
	accWay   map[string]int64
	accEpoch map[string]int
	accBlock map[string]int
	known    map[string][]byte
	hist     []*c20Sub
	pending  []*c20Sub
	epoch    int
	restarts int
	block    int
	stop     bool
	sig      []byte
	nAcc     int
	nRej     int
}

func (w *c20World) fail(key, f string, a ...interface{}) {
	w.run.Fail("C20", key+":"+w.router, f, a...)
	w.stop = true
}

func (w *c20World) probe(name string) { w.run.Probe(name + ":" + w.router) }

var c20FormNames = []string{"plain", "reencoded", "forged-twin", "damaged-proof", "identical-tx"}

func (w *c20World) cut() {
	if len(w.pending) == 0 || w.stop {
		return
	}
	subs := w.pending
	w.pending = nil
	var txs []*types.Transaction
	for _, s := range subs {
		txs = append(txs, s.tx)
	}
	w.block++
	_, ok := w.h.ExecInspect(func(traces []*e1.TxTrace) {
		if len(traces) != len(subs) {
			panic(fmt.Sprintf("lcont c20: %d traces for %d submissions", len(traces), len(subs)))
		}
		for i, t := range traces {
			if w.stop {
				return
			}
			w.run.StepNo = subs[i].step
			w.onTx(t, subs[i])
		}
	}, txs...)
	if !ok {
		w.stop = true
	}
	if w.stop {
		return
	}
	// committed state: a done mark exists exactly for the accepted messages
	v := w.h.View()
	ids := make([]string, 0, len(w.known))
	for id := range w.known {
		ids = append(ids, id)
	}
	sort.Strings(ids)
	for _, id := range ids {
		done := v.Done(w.src, w.known[id])
		switch {
		case done && !w.accepted[id]:
			w.fail("done-mark-without-acceptance", "after block %d a done mark exists for (chain %d, id %s) which was never accepted", w.block, w.src, id)
			return
		case !done && w.accepted[id]:
			w.fail("done-mark-missing", "after block %d the done mark of the accepted message (chain %d, id %s) is gone", w.block, w.src, id)
			return
		}
	}
	w.run.State([]byte(fmt.Sprintf("%s acc=%d rej=%d", w.router, w.nAcc, w.nRej)))
}

func (w *c20World) onTx(t *e1.TxTrace, s *c20Sub) {
	run := w.run
	id := hex.EncodeToString(s.ccid)
	was := w.accepted[id]
	form := c20FormNames[s.form]
	run.Logf("%s deposit id=%s.. form=%s way=%d replay=%v ok=%v writes=%d events=%d cross=%d", w.router, id[:8], form, s.way, was, t.OK, len(t.Writes), len(t.Events), len(t.Cross))
	w.sig = append(w.sig, byte(s.form), b2b(was), b2b(t.OK))
	if t.OK {
		if was {
			w.fail("accepted-twice", "message (chain %d, id %s) was accepted before and is accepted again: %s submission (way %d; first acceptance by way %d), %d new cross-chain requests", w.src, id, form, s.way, w.accWay[id], len(t.Cross))
			return
		}
		if len(t.Cross) > 1 {
			w.fail("accepted-twice", "one deposit of (chain %d, id %s) produced %d cross-chain requests", w.src, id, len(t.Cross))
			return
		}
		w.accepted[id], w.accWay[id], w.accEpoch[id], w.accBlock[id] = true, s.way, w.epoch, w.block
		w.nAcc++
		w.probe("c20_deposit_accepted")
		w.probe("c20_first_deposit_accepted_as_" + form)
		w.probe(fmt.Sprintf("c20_first_deposit_accepted_by_proof_way_%d", s.way))
		if s.form == 3 {
			w.probe("c20_DAMAGED_PROOF_ACCEPTED(suspicious, not a C20 matter)")
		}
		if !t.Post.Done(w.src, s.ccid) {
			w.fail("done-mark-missing", "deposit of (chain %d, id %s) succeeded but no done mark exists right after it", w.src, id)
		}
		return
	}
	if len(t.Writes) > 0 || len(t.Events) > 0 || len(t.Cross) > 0 {
		w.fail("replay-changed-state", "refused %s submission of (chain %d, id %s) left %d writes, %d events, %d cross-chain records", form, w.src, id, len(t.Writes), len(t.Events), len(t.Cross))
		return
	}
	if !was && t.Post.Done(w.src, s.ccid) {
		w.fail("done-mark-without-acceptance", "refused %s submission of the never accepted (chain %d, id %s) left a done mark", form, w.src, id)
		return
	}
	if !was {
		if s.form == 3 {
			w.probe("c20_damaged_proof_never_accepted")
		} else {
			w.probe("c20_first_deposit_rejected_as_" + form)
		}
		return
	}
	w.nRej++
	w.probe("c20_replay_rejected")
	switch s.form {
	case 4:
		w.probe("c20_form_a_identical_tx_rejected")
	case 0:
		if s.way != w.accWay[id] {
			w.probe("c20_form_b_other_proof_or_height_rejected")
		} else {
			w.probe("c20_form_b_fresh_tx_same_proof_rejected")
		}
	case 1:
		w.probe("c20_form_c_reencoded_rejected")
	case 2:
		w.probe("c20_form_d_forged_same_id_rejected")
	case 3:
		w.probe("c20_damaged_proof_of_done_id_rejected")
	}
	switch {
	case w.accBlock[id] == w.block:
		w.probe("c20_replay_in_same_block_rejected")
	case w.accEpoch[id] != w.epoch:
		w.probe("c20_replay_after_restart_or_relay_blocks_rejected")
	default:
		w.probe("c20_replay_in_later_block_rejected")
	}
}

func (w *c20World) exec() {
	run := w.run
	for i, s := range run.Plan.Steps {
		if w.stop {
			break
		}
		run.StepNo = i
		run.Steps++
		switch s.Op {
		case "d":
			sub := w.build(s, i)
			sub.step, sub.epoch = i, w.epoch
			w.known[hex.EncodeToString(sub.ccid)] = sub.ccid
			w.hist = append(w.hist, sub)
			w.pending = append(w.pending, sub)
		case "same":
			if len(w.hist) == 0 {
				continue
			}
			o := w.hist[int(abs64(s.Arg(0)))%len(w.hist)]
			sub := &c20Sub{tx: o.tx, ccid: o.ccid, form: 4, way: o.way, step: i, epoch: w.epoch}
			w.hist = append(w.hist, sub)
			w.pending = append(w.pending, sub)
		case "cut":
			w.cut()
		case "blocks":
			w.cut()
			for k := int64(0); k < 1+abs64(s.Arg(0))%3 && !w.stop; k++ {
				if _, ok := w.h.Exec(); !ok {
					w.stop = true
				}
			}
			w.epoch++
		case "restart":
			w.cut()
			if !w.stop {
				if err := w.h.Restart(int(abs64(s.Arg(0)))); err != nil {
					run.Fail("C12", "clean-restart-failed", "restart failed: %v", err)
					w.stop = true
				}
			}
			w.epoch++
		}
	}
	if !w.stop {
		w.cut()
	}
	if w.nAcc > 0 && w.nRej > 0 {
		run.Nontrivial(append([]byte(w.router), w.sig...))
	}
	run.Sample = map[string]interface{}{"router": w.router, "accepted": w.nAcc, "replays_rejected": w.nRej, "submissions": len(w.hist), "steps": len(run.Plan.Steps)}
}

func b2b(b bool) byte {
	if b {
		return 1
	}
	return 0
}

func (w *c20World) relayer(p int64) int { return 1 + int(abs64(p)%3) }

func (w *c20World) importTx(p int64, height uint32, proof, msg, extra []byte) *types.Transaction {
	rel := w.h.User(w.relayer(p))
	return w.h.Signed(chain.CrossChain, ccom.IMPORT_OUTER_TRANSFER_NAME, chain.Args(&ccom.EntranceParam{SourceChainID: w.src, Height: height, Proof: proof,
		RelayerAddress: rel.Address[:], Extra: extra, HeaderOrCrossChainMsg: msg}), rel)
}

func newC20World(run *kernel.Run, h *e1.Harness, router string, src uint64) *c20World {
	return &c20World{run: run, h: h, router: router, src: src, accepted: map[string]bool{}, accWay: map[string]int64{}, accEpoch: map[string]int{}, accBlock: map[string]int{}, known: map[string][]byte{}}
}

func mustOK(h *e1.Harness, what string, txs ...*types.Transaction) {
	tr, ok := h.Exec(txs...)
	if !ok {
		panic("lcont c20: " + what + ": run stopped")
	}
	for _, t := range tr {
		if !t.OK {
			panic("lcont c20: " + what + " failed")
		}
	}
}

func (d c20Depositor) ExecuteReplay(run *kernel.Run) {
	if d.fam == 0 {
		execC20Ont(run)
		return
	}
	execC20Neo(run, d.fam, d.router)
}

// ---- Ontology ----

func execC20Ont(run *kernel.Run) {
	h := newHarness(run)
	defer h.Close()
	g0 := run.Plan.C("g0", 0)
	if g0 < 0 || g0 > 1<<30 {
		g0 = 0
	}
	c := newOntChain(run.Plan.Seed, ontChainID, int(run.Plan.C("n0", 4)), uint32(g0), ontMaxH, nil)
	c.c20 = true
	if err := h.RegisterChain(c.id, utils.ONT_ROUTER, "ont", 1, c.ccmc, nil); err != nil {
		panic(err)
	}
	if err := h.RegisterChain(c.dst, utils.ETH_ROUTER, "dst", 1, []byte{0xdd}, nil); err != nil {
		panic(err)
	}
	raw, _ := c.sealed(c.g0, 12, 0, 0)
	mustOK(h, "ont trust root", h.Operator(chain.HeaderSync, hscom.SYNC_GENESIS_HEADER, chain.Args(&hscom.SyncGenesisHeaderParam{ChainID: c.id, GenesisHeader: raw})))
	w := newC20World(run, h, "ont", c.id)
	w.build = func(st kernel.Step, i int) *c20Sub {
		a := st.Arg
		g := uint32(abs64(a(0)) % c20OntMsgs)
		way := abs64(a(1)) % 4
		form := int(abs64(a(2)) % 4)
		height := c.g0 + 1 + 4*g + uint32(way)
		variant := int64(0)
		if form == 2 {
			variant = 1
		}
		leaf, ccid := c.shared(g, variant)
		proof := c.proofOf(height, leaf)
		m := c.msg(height)
		cur, _ := c.signers(height)
		hash := m.Hash()
		mode := int64(0)
		if form == 1 {
			mode = 12
		}
		sl := c.makeSeal(hash[:], cur, nil, mode, a(3), a(4))
		var extra []byte
		if form == 1 { // an equivalent spelling of the same deposit
			for k := range sl.sigs { // signatures with the explicit SHA256withECDSA scheme byte
				sl.sigs[k] = append([]byte{0x01}, sl.sigs[k]...)
			}
			proof = reencodeMerklePath(proof, a(4))
			extra = []byte{0xee, byte(a(3))}
		}
		msg := msgBytes(m, sl)
		if form == 1 && abs64(a(4))%2 == 1 {
			// when the message of that height is already stored the field is not even parsed
			if v := h.View().Get(chain.HeaderSync, []byte(hscom.CROSS_CHAIN_MSG), u64(c.id), u32(height)); v != nil {
				msg = []byte{0xde, 0xad}
			}
		}
		if form == 3 {
			proof = append([]byte{}, proof...)
			proof[5+int(abs64(a(4)))%20] ^= 0x20 // inside the proven value: the leaf hash changes
		}
		return &c20Sub{tx: w.importTx(a(3), height, proof, msg, extra), ccid: ccid, form: form, way: way}
	}
	w.exec()
}

// reencodeMerklePath spells the same audit path differently: every "sibling on the right"
// marker (1) becomes another non-zero byte and up to 32 bytes trail the path.
func reencodeMerklePath(path []byte, q int64) []byte {
	src := common.NewZeroCopySource(path)
	val, eof := src.NextVarBytes()
	if eof {
		return path
	}
	sink := common.NewZeroCopySink(nil)
	sink.WriteVarBytes(val)
	for src.Len() >= 33 {
		f, _ := src.NextByte()
		hsh, _ := src.NextHash()
		if f != 0 {
			f = byte(2 + abs64(q)%200)
		}
		sink.WriteByte(f)
		sink.WriteHash(hsh)
	}
	out := sink.Bytes()
	for i := int64(0); i < 1+abs64(q)%32; i++ {
		out = append(out, byte(q+i))
	}
	return out
}

// ---- NEO 2 / NEO N3 ----

// stateForged: a state with the cross-chain id of state n but another storage key and payload.
func (c *neoChain) stateForged(n uint64) (value, key, ccid []byte) {
	_, _, ccid = c.state(n)
	p := &ccom.MakeTxParam{TxHash: c.h32("srctx", n, 0), CrossChainID: ccid, FromContractAddress: []byte{0xf1, byte(n)}, ToChainID: c.dst,
		ToContractAddress: []byte{0xd9, byte(n)}, Method: "unlock", Args: []byte{byte(n), 0xff}}
	sink := common.NewZeroCopySink(nil)
	p.Serialization(sink)
	return sink.Bytes(), append([]byte("forgedq"), ccid[:8]...), ccid
}

func execC20Neo(run *kernel.Run, fam int64, router string) {
	h := newHarness(run)
	defer h.Close()
	g0 := run.Plan.C("g0", 0)
	if g0 < 0 || g0 > 1<<30 {
		g0 = 0
	}
	var cd neoCodec = neo2Codec{}
	id, rt, extra := uint64(neoChainID), uint64(utils.NEO_ROUTER), []byte(nil)
	if fam == 2 {
		cd, id, rt = neo3Codec{}, neo3ChainID, utils.NEO3_ROUTER
	}
	c := newNeoChain(cd, run.Plan.Seed, id, int(run.Plan.C("n0", 4)), uint32(g0), neoMaxI, nil)
	if fam == 2 {
		c.ccmc = []byte{7, 0, 0, 0}
		extra = binary.LittleEndian.AppendUint32(nil, c.magic)
	}
	if err := h.RegisterChain(c.id, rt, router, 1, c.ccmc, extra); err != nil {
		panic(err)
	}
	if err := h.RegisterChain(c.dst, utils.ETH_ROUTER, "dst", 1, []byte{0xdd}, nil); err != nil {
		panic(err)
	}
	c.adoptMagic(h)
	graw, _ := c.genesis(0)
	mustOK(h, router+" trust root", h.Operator(chain.HeaderSync, hscom.SYNC_GENESIS_HEADER, chain.Args(&hscom.SyncGenesisHeaderParam{ChainID: c.id, GenesisHeader: graw})))
	T := c.epochs[0].set
	if fam == 2 {
		n := int(run.Plan.C("nsv0", 4))
		if n < 1 {
			n = 1
		}
		if n > 7 {
			n = 7
		}
		nr := &neoRun{run: run, h: h, c: c, fam: fam, done: map[string]bool{}}
		nr.svChange(true, c.pool[ontPool-n:])
		T = c.mkSet(nr.svCur, 0, "state-validators")
	}
	w := newC20World(run, h, router, c.id)
	w.build = func(st kernel.Step, i int) *c20Sub {
		a := st.Arg
		j := uint64(abs64(a(0)) % c20NeoMsgs)
		way := abs64(a(1)) % 2
		form := int(abs64(a(2)) % 4)
		value, key, ccid := c.state(j)
		if form == 2 {
			value, key, ccid = c.stateForged(j)
		}
		var skey, root []byte
		var nodes [][]byte
		if way == 0 {
			skey, nodes, root = cd.proofNodes(c.ccmc, key, value)
		} else { // a later state root whose trie also holds another entry
			v2, k2, _ := c.state(1000 + j)
			skey, nodes, root = cd.proof2(c.ccmc, key, value, k2, v2)
		}
		mode := int64(0)
		switch form {
		case 1: // same nodes, other spelling of the list; all validators sign
			rev := make([][]byte, 0, len(nodes)+2)
			for k := len(nodes) - 1; k >= 0; k-- {
				rev = append(rev, nodes[k])
			}
			rev = append(rev, nodes[0])
			_, other, _ := cd.proofNodes(c.ccmc, []byte("unrelated"), []byte{byte(a(4)), 1, 2, 3})
			nodes = append(rev, other[len(other)-1])
			mode = 8
		case 3:
			last := append([]byte{}, nodes[len(nodes)-1]...)
			last[len(last)-1-int(abs64(a(4)))%8] ^= 0x10
			nodes = append(append([][]byte{}, nodes[:len(nodes)-1]...), last)
		}
		idx := c.g0 + 1 + uint32(2*j) + uint32(way)
		unsigned := cd.stateRoot(idx, root, nil, []byte{0})
		_, _, _, msg, err := cd.parseStateRoot(unsigned, c.magic)
		if err != nil {
			panic(err)
		}
		inv, ver, _ := c.witness(msg, T, nil, mode, a(3), a(4))
		raw := cd.stateRoot(idx, root, inv, ver)
		return &c20Sub{tx: w.importTx(a(3), idx, assembleProof(skey, nodes), raw, nil), ccid: ccid, form: form, way: way}
	}
	w.exec()
}
