// Package lcont is the light-client engine for the validator-signed side chains: Ontology
// (VBFT headers with bookkeeper multi-signatures, key heights, cross-chain messages with
// merkle proofs), NEO 2 and NEO N3 (headers with an m-of-n CHECKMULTISIG witness over the
// tracked next-consensus script hash, signed state roots with MPT proofs). It registers the
// checks C31 and C24 and the lc drivers "ont", "neo" and "neo3".
package lcont

import (
	"crypto/ecdsa"
	"crypto/elliptic"
	"crypto/sha256"
	"encoding/binary"
	"math/big"

	"github.com/ontio/ontology-crypto/ec"
	"github.com/polynetwork/poly/account"
)

// All side-chain signatures are produced by a deterministic ECDSA signer (nonce = hash of key,
// digest and a salt): poly stores Ontology headers and messages with their signatures, so
// randomised signatures would make transaction hashes, block hashes and state digests differ
// between two executions of the same plan.

var p256 = elliptic.P256()

func privD(a *account.Account) *big.Int {
	return a.PrivateKey.(*ec.PrivateKey).PrivateKey.D
}

func pubECDSA(a *account.Account) *ecdsa.PublicKey {
	return a.PublicKey.(*ec.PublicKey).PublicKey
}

// sign64 returns r||s (32+32 bytes, big endian) over the 32-byte digest.
func sign64(d *big.Int, digest []byte, salt uint64) []byte {
	n := p256.Params().N
	e := new(big.Int).SetBytes(digest)
	for ctr := uint64(0); ; ctr++ {
		b := append([]byte("polysim-nonce"), d.Bytes()...)
		b = append(b, digest...)
		b = binary.LittleEndian.AppendUint64(b, salt)
		b = binary.LittleEndian.AppendUint64(b, ctr)
		hk := sha256.Sum256(b)
		k := new(big.Int).SetBytes(hk[:])
		k.Mod(k, new(big.Int).Sub(n, big.NewInt(1)))
		k.Add(k, big.NewInt(1))
		rx, _ := p256.ScalarBaseMult(k.Bytes())
		r := new(big.Int).Mod(rx, n)
		if r.Sign() == 0 {
			continue
		}
		kinv := new(big.Int).ModInverse(k, n)
		s := new(big.Int).Mul(r, d)
		s.Add(s, e)
		s.Mul(s, kinv)
		s.Mod(s, n)
		if s.Sign() == 0 {
			continue
		}
		out := make([]byte, 64)
		r.FillBytes(out[:32])
		s.FillBytes(out[32:])
		return out
	}
}

// verify64 is the reference signature check of the oracles (stdlib ECDSA only).
func verify64(pub *ecdsa.PublicKey, digest, sig []byte) bool {
	if len(sig) != 64 || pub == nil {
		return false
	}
	r := new(big.Int).SetBytes(sig[:32])
	s := new(big.Int).SetBytes(sig[32:])
	return ecdsa.Verify(pub, digest, r, s)
}

func sha(b []byte) []byte { h := sha256.Sum256(b); return h[:] }

func abs64(x int64) int64 {
	if x < 0 {
		if x == -x { // MinInt64
			return 0
		}
		return -x
	}
	return x
}

func popcount(m int64) int {
	c := 0
	for u := uint64(m); u != 0; u &= u - 1 {
		c++
	}
	return c
}
