package e1

import (
	"fmt"
	"github.com/polynetwork/poly/account"
	"sort"

	"github.com/polynetwork/poly/common"
	vconfig "github.com/polynetwork/poly/consensus/vbft/config"
	"github.com/polynetwork/poly/core/types"

	"polysim/chain"
	"polysim/kernel"
)

// Lagging follower: when the plan sets cfg "lag", the last follower is not synced at every
// block cut; it catches up on explicit "catchup" steps, header-first or block-only, with
// Byzantine headers/blocks injected while its header index is ahead of its blocks.

func (s *Sim) lagNode() *chain.Node {
	if s.R.Plan.C("lag", 0) == 0 || len(s.Nodes) < 2 {
		return nil
	}
	return s.Nodes[len(s.Nodes)-1]
}

// membersAt returns the consensus set in force for the header that follows height h on the
// engine's chain (the set announced by the latest configuration-carrying header at or below h).
func (s *Sim) membersAt(h uint32) []string {
	for i := int(h); i >= 0; i-- {
		var hdr *types.Header
		if i == 0 {
			hdr = s.W.Genesis.Header
		} else {
			hdr = s.Blocks[i-1].Block.Header
		}
		info, err := vconfig.VbftBlock(hdr)
		if err != nil || info.NewChainConfig == nil {
			continue
		}
		var ids []string
		for _, p := range info.NewChainConfig.Peers {
			ids = append(ids, p.ID)
		}
		sort.Strings(ids)
		return ids
	}
	return nil
}

// headerVerdict evaluates the C14 acceptance rule for a header submitted on top of header
// height hh of node nd (which follows the engine's chain up to hh): "" = acceptable.
func (s *Sim) headerVerdict(nd *chain.Node, hdr *types.Header, hh uint32) string {
	var prev *types.Header
	if hh == 0 {
		prev = s.W.Genesis.Header
	} else {
		prev = s.Blocks[hh-1].Block.Header
	}
	switch {
	case hdr.Height != hh+1:
		return "wrong-height"
	case hdr.PrevBlockHash != prev.Hash():
		return "wrong-parent"
	case hdr.Timestamp <= prev.Timestamp:
		return "bad-timestamp"
	}
	members := s.membersAt(hh)
	need := s.requiredFor(hh, len(members))
	good := goodSigners(hdr, members)
	if good < need {
		return fmt.Sprintf("below-quorum(%d<%d)", good, need)
	}
	return ""
}

// catchup brings the lagging follower forward. a0: scenario, a1: how many blocks to apply
// before the Byzantine submission, a2: Byzantine kind, a3: salt.
func (s *Sim) catchup(st kernel.Step) {
	run := s.R
	nd := s.lagNode()
	if nd == nil {
		return
	}
	nd.Use()
	top := len(s.Blocks)
	from := int(nd.Height())
	if from >= top {
		return
	}
	from0 := from
	scenario := int(abs(st.Arg(0))) % 3
	applyBlock := func(i int) bool { // i = height
		b := s.Blocks[i-1]
		before := nd.Height()
		err := nd.Sync(b.Block, b.Result.MerkleRoot)
		if err != nil || nd.Height() != before+1 {
			run.Fail("C13", "lagging-replica-rejected-block", "lagging follower %s did not apply honest block %d (header height %d): %v", nd.Name, i, nd.L.GetCurrentHeaderHeight(), err)
			s.Dead = true
			return false
		}
		s.lookupsOn(nd, b, true)
		return true
	}
	switch scenario {
	case 0:
		run.Fault("catchup:blocks-only")
	case 1: // headers first, Byzantine header at the header tip after j blocks
		var hs []*types.Header
		for i := from + 1; i <= top; i++ {
			hs = append(hs, s.Blocks[i-1].Block.Header)
		}
		if err := nd.L.AddHeaders(hs); err != nil {
			run.Fail("C14", "honest-headers-rejected", "lagging follower %s refused the honest header chain %d..%d: %v", nd.Name, from+1, top, err)
			s.Dead = true
			return
		}
		run.Fault("catchup:headers-first")
		if top-from >= 2 {
			run.Probe("headers_ahead_of_blocks")
		}
		j := int(abs(st.Arg(1))) % (top - from)
		if j == 0 && top-from > 1 && abs(st.Arg(1))%2 == 1 {
			j = 1
		}
		for i := from + 1; i <= from+j; i++ {
			if !applyBlock(i) {
				return
			}
		}
		from += j
		// every refusable kind first (a refused header leaves everything unchanged), the plan's kind last
		for _, k := range []int{3, 4, 1, 2, 5, 6, int(abs(st.Arg(2)))} {
			s.byzantineHeader(nd, uint32(top), k, abs(st.Arg(3)))
			if s.Dead {
				return
			}
		}
	case 2: // sibling header at from+1, then the real block, then a child of the sibling
		real := s.Blocks[from].Block
		sib := cloneHeader(real.Header)
		sib.ConsensusData ^= 0x5151515151
		sblk := &types.Block{Header: sib}
		if err := chain.Seal(sblk, s.accountsOf(s.membersAt(uint32(from)))); err != nil {
			panic(err)
		}
		if err := nd.L.AddHeaders([]*types.Header{sib}); err != nil {
			run.Logf("sibling header refused: %v", err)
			break
		}
		run.Fault("catchup:sibling-header")
		if !applyBlock(from + 1) {
			return
		}
		from++
		// child of the sibling: everything right except that its parent is not the tip
		var txs []*types.Transaction
		base, err := nd.BuildBlock(&chain.BlockSpec{Txs: txs, Nonce: uint64(abs(st.Arg(3)))})
		if err != nil {
			panic(err)
		}
		child := cloneHeader(base.Header)
		child.PrevBlockHash = sib.Hash()
		leaves := []common.Uint256{{}, s.W.Genesis.Hash()}
		for i := 0; i < from-1; i++ {
			leaves = append(leaves, s.Blocks[i].Block.Hash())
		}
		leaves = append(leaves, sib.Hash())
		child.BlockRoot = naiveRoot(leaves)
		cblk := &types.Block{Header: child}
		vs, err := nd.CurrentSet()
		if err != nil {
			panic(err)
		}
		if err := chain.Seal(cblk, s.accountsOf(vs.Peers)); err != nil {
			panic(err)
		}
		before := observe(nd)
		root := common.Uint256{}
		if res, err := nd.L.ExecuteBlock(cblk); err == nil {
			root = res.MerkleRoot
		}
		var serr error
		if abs(st.Arg(2))%2 == 0 {
			serr = nd.L.AddBlock(cblk, root)
		} else if res, err := nd.L.ExecuteBlock(cblk); err == nil {
			serr = nd.L.SubmitBlock(cblk, res)
		} else {
			serr = err
		}
		run.Fault("bad:child-of-sibling-header")
		if nd.L.GetCurrentBlockHash() == cblk.Hash() {
			run.Fail("C13", "accepted-invalid-successor:wrong-parent", "block %d whose parent is a never-committed sibling header of the tip (not the tip) was committed on %s", child.Height, nd.Name)
			s.Dead = true
			return
		}
		if after := observe(nd); after != before {
			run.Fail("C13", "rejected-submission-changed-state", "child of a sibling header was not committed on %s but observables changed (err=%v)\n before %s\n after  %s", nd.Name, serr, before, after)
		}
		run.Probe("child_of_sibling_header_rejected")
	}
	for i := int(nd.Height()) + 1; i <= top; i++ {
		if !applyBlock(i) {
			return
		}
	}
	// caught up: every height still resolves to the committed block (a rival header accepted
	// for a height must not survive the commit of the real block), and the follower equals the producer
	for i := from0 + 1; i <= top; i++ {
		s.lookupsOn(nd, s.Blocks[i-1], i == top)
	}
	run.Probe("lagging_replica_lookups_checked")
	if o, p := observe(nd), observe(s.Prod()); o != p {
		run.Fail("C16", "lagging-replica-differs", "after catching up %s differs from the producer\n got %s\nwant %s", nd.Name, o, p)
	}
	run.Probe("lagging_replica_caught_up")
}

// byzantineHeader submits a damaged-seal header on top of node nd's header tip hh.
func (s *Sim) byzantineHeader(nd *chain.Node, hh uint32, kind int, salt int64) {
	run := s.R
	if nd.L.GetCurrentHeaderHeight() != hh {
		return
	}
	base, err := s.Prod().BuildBlock(&chain.BlockSpec{Nonce: uint64(salt)})
	if err != nil {
		panic(err)
	}
	hdr := cloneHeader(base.Header)
	blk := &types.Block{Header: hdr}
	members := s.membersAt(hh)
	acc := s.accountsOf(members)
	need := s.requiredFor(hh, len(members))
	name := ""
	switch kind % 7 {
	case 0:
		name = "valid-control"
		chain.Seal(blk, acc)
	case 1:
		name = "one-below-threshold"
		sealRaw(blk, acc[:need-1], acc[:need-1], nil)
	case 2:
		name = "bookkeepers-without-signatures"
		sealRaw(blk, acc[:need], acc[:need-1], nil)
	case 3: // members of earlier sets that are not in the set in force at the header tip
		cur := map[string]bool{}
		for _, m := range members {
			cur[m] = true
		}
		var ks []string
		for _, old := range s.pastMembers() {
			if !cur[old] {
				ks = append(ks, old)
			}
		}
		if len(ks) == 0 {
			return
		}
		name = "former-members"
		fa := s.accountsOf(ks)
		sealRaw(blk, fa, fa, nil)
		run.Probe("header_sealed_by_former_members_while_headers_ahead")
	case 4: // members of the set in force at the *block* tip that are not in force at the header tip
		vs, err := nd.CurrentSet()
		if err != nil {
			return
		}
		cur := map[string]bool{}
		for _, m := range members {
			cur[m] = true
		}
		var ks []string
		for _, id := range vs.Peers {
			if !cur[id] {
				ks = append(ks, id)
			}
		}
		if len(ks) == 0 {
			return
		}
		name = "members-of-block-tip-set-only"
		fa := s.accountsOf(ks)
		sealRaw(blk, fa, fa, nil)
		run.Probe("header_sealed_by_block_tip_set_while_headers_ahead")
	case 5: // quorum of members listed first, then an outsider signing in place of one of them
		if need < 1 || len(acc) < need {
			return
		}
		out := s.Users[int(abs(salt))%len(s.Users)]
		name = "foreign-key-listed-after-quorum"
		sealRaw(blk, append(append([]*account.Account{}, acc[:need]...), out), append(append([]*account.Account{}, acc[:need-1]...), out), nil)
	case 6: // quorum of members listed first, then one of them again, signing twice
		if need < 2 || len(acc) < need {
			return
		}
		name = "member-repeated-after-quorum"
		sealRaw(blk, append(append([]*account.Account{}, acc[:need]...), acc[need-1]), append(append([]*account.Account{}, acc[1:need]...), acc[need-1]), nil)
	}
	verdict := s.headerVerdict(nd, hdr, hh)
	before := observe(nd)
	err = nd.L.AddHeaders([]*types.Header{hdr})
	run.Fault("badheader:" + name)
	accepted := nd.L.GetCurrentHeaderHeight() == hh+1 && nd.L.GetCurrentHeaderHash() == hdr.Hash()
	run.Logf("byzantine header %s on %s at header height %d: verdict=%q accepted=%v", name, nd.Name, hh, verdict, accepted)
	if accepted && verdict != "" {
		run.Fail("C14", "header-accepted:"+ruleName(verdict), "header %d (%s) entered the header index of %s although it breaks the rule %q; the set in force at that height has %d members", hdr.Height, name, nd.Name, verdict, len(members))
		s.Dead = true
		return
	}
	if !accepted {
		if after := observe(nd); after != before {
			run.Fail("C14", "rejected-submission-changed-state", "header %s was refused by %s (%v) but observables changed", name, nd.Name, err)
		}
		if verdict == "" {
			run.Probe("valid_header_refused_while_headers_ahead")
		}
		return
	}
	// an acceptable header entered the index ahead of the honest chain: drop the lead again
	s.dropHeaderLead(nd)
	if !s.Dead {
		run.Probe("valid_header_accepted_while_headers_ahead")
	}
}

// goodSigners counts distinct members of the set with a valid signature over the header hash.
func goodSigners(h *types.Header, members []string) int {
	isMember := map[string]bool{}
	for _, m := range members {
		isMember[m] = true
	}
	hash := h.Hash()
	good := map[string]bool{}
	for _, bk := range h.Bookkeepers {
		id := vconfig.PubkeyID(bk)
		if !isMember[id] {
			continue
		}
		for _, sg := range h.SigData {
			if sigOK(bk, hash[:], sg) {
				good[id] = true
				break
			}
		}
	}
	return len(good)
}
