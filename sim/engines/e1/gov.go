package e1

import (
	"bytes"
	"encoding/json"
	"fmt"

	"github.com/polynetwork/poly/common"
	"github.com/polynetwork/poly/core/store"
	"github.com/polynetwork/poly/core/store/ledgerstore"
	"github.com/polynetwork/poly/core/types"
	"github.com/polynetwork/poly/merkle"

	"polysim/chain"
	"polysim/kernel"
)

// execGov is the general E1 run: transactions, block cuts, follower sync, clean restarts,
// every per-transaction oracle (OnTx) and the per-block cross checks.
func execGov(run *kernel.Run) {
	n := int(run.Plan.C("n", 4))
	followers := int(run.Plan.C("followers", 1))
	s, err := NewSim(run, n, followers, uint32(run.Plan.C("net", 1)), uint32(run.Plan.C("maxview", 8)))
	if err != nil {
		panic(err)
	}
	defer s.Close()
	if v := run.Plan.C("legacyheight", -1); v >= 0 {
		old := ledgerstore.VerifLegacyQuorumHeight
		ledgerstore.VerifLegacyQuorumHeight = uint32(v)
		defer func() { ledgerstore.VerifLegacyQuorumHeight = old }()
		if !ledgerstore.VerifKnobPatched {
			run.Probe("knob_unpatched")
		} else {
			run.Probe("strict_quorum_rule_in_force")
		}
	}
	if run.Plan.C("eventlog", 1) == 0 {
		run.Probe("run_with_event_log_disabled")
	}
	m := NewModel()
	var sig []byte
	checkKeyCensus(run)
	for i, st := range run.Plan.Steps {
		run.StepNo = i
		run.Steps++
		switch st.Op {
		case "block":
			if !s.commitBlock(m, uint64(st.Arg(0))) {
				return
			}
			h := s.Blocks[len(s.Blocks)-1].Block.Hash()
			sig = append(sig, h[:]...)
		case "timejump": // the next block is stamped this many seconds after its parent
			s.nextDelta = uint32(abs(st.Arg(0)))
			run.Fault("block_time_jump")
		case "bad":
			if nd := s.lagNode(); nd != nil && s.Nodes[int(abs(st.Arg(2)))%len(s.Nodes)] == nd {
				continue // the lagging follower only takes part through catchup steps
			}
			s.badSubmission(st)
		case "catchup":
			s.catchup(st)
		case "fcrash": // the next block is interrupted on a follower at a crash point, then the node restarts
			if len(s.Nodes) > 1 {
				s.crashNext = submitPoints[int(abs(st.Arg(0)))%len(submitPoints)]
			}
		case "restart":
			nd := s.Nodes[int(abs(st.Arg(0)))%len(s.Nodes)]
			nd.Close()
			if err := nd.Open(); err != nil {
				run.Fail("C12", "clean-restart-failed", "node %s failed to restart: %v", nd.Name, err)
				return
			}
			run.Fault("clean_restart")
			run.Logf("restart %s at height %d", nd.Name, nd.Height())
		default:
			if p := s.Submit(st, i); p == nil {
				run.Logf("skip unknown step %v", st)
			}
		}
		if s.Dead || (run.Failed() && len(run.Violations) > 20) {
			return
		}
	}
	if s.lagNode() != nil && !s.Dead && !run.Failed() {
		s.catchup(kernel.Step{Op: "catchup", A: []int64{0}})
	}
	if run.Probes["tx_succeeded"] > 0 && run.Probes["tx_failed"] > 0 {
		run.Nontrivial(sig)
	}
	run.Sample = map[string]interface{}{"validators": n, "followers": followers, "blocks": len(s.Blocks), "plan": planStrings(run.Plan)}
}

func abs(x int64) int64 {
	if x < 0 {
		return -x
	}
	return x
}

// commitBlock traces, checks and commits the next block; false = stop the run.
func (s *Sim) commitBlock(m *Model, nonce uint64) bool {
	run := s.R
	prod := s.Prod()
	var txs []*types.Transaction
	for _, p := range s.Pending {
		txs = append(txs, p.Tx)
	}
	blk, err := prod.BuildBlock(&chain.BlockSpec{Txs: txs, Nonce: nonce, TimeDelta: s.nextDelta})
	s.nextDelta = 0
	if err != nil {
		panic(fmt.Sprintf("build block: %v", err))
	}
	bt, err := s.Trace(prod, blk, s.Pending)
	if err != nil {
		panic(fmt.Sprintf("trace: %v", err))
	}
	if bt.Panic != "" {
		// Executing this block panics inside a native handler: every node executing it goes down.
		op, step := "system tx", ""
		if bt.PanicP != nil {
			op, step = bt.PanicP.Step.Op, bt.PanicP.Step.String()
		}
		prop := "HANDLER-PANIC"
		if op == "approvesv" || op == "approvermsv" {
			prop = "C33" // an approval round on a request that is not (or no longer) pending
		}
		run.Fail(prop, "handler-panics:"+op, "block %d tx %d (%s): native handler panicked while executing: %s", blk.Header.Height, bt.PanicTx, step, firstLineOf(bt.Panic))
		s.Dead = true
		return false
	}
	if bt.Problem != "" {
		run.Fail("C15", "prefix-outcome-changed", "block %d: %s", blk.Header.Height, bt.Problem)
	}
	for _, t := range bt.Txs {
		s.OnTx(m, t)
	}
	full := bt.Results[len(bt.Results)-1]
	// C15: removing the failed transactions does not change what the block does
	var okTxs []*types.Transaction
	nfail := 0
	for _, t := range bt.Txs {
		if t.OK {
			okTxs = append(okTxs, t.Tx)
		} else {
			nfail++
		}
	}
	if nfail > 0 && len(okTxs) > 0 {
		prod.Use()
		r2, err := prod.L.ExecuteBlock(withTxs(blk, okTxs))
		if err != nil {
			panic(err)
		}
		if r2.Hash != full.Hash || r2.CrossStatesRoot != full.CrossStatesRoot {
			run.Fail("C15", "failed-tx-influenced-others", "block %d: executing without its %d failed transactions changes the state digest (%x vs %x) or cross root", blk.Header.Height, nfail, r2.Hash, full.Hash)
		}
		run.Probe("block_mixing_success_and_failure")
	}
	s.LastTrace = bt
	if s.BeforeCommit != nil {
		s.BeforeCommit(bt)
	}
	// C16: the same block on the same prior state, executed repeatedly (fresh Go map iteration
	// orders each time) and on every replica, yields the same results
	reps := int(run.Plan.C("reexec", 2))
	for i := 0; i < reps; i++ {
		nd := s.Nodes[i%len(s.Nodes)]
		if int(nd.Height())+1 != int(blk.Header.Height) {
			continue
		}
		nd.Use()
		r2, err := nd.L.ExecuteBlock(blk)
		if err != nil {
			run.Fail("C16", "re-execution-failed", "block %d on %s: %v", blk.Header.Height, nd.Name, err)
			break
		}
		if d := diffResults(&full, &r2); d != "" {
			run.Fail("C16", "re-execution-differs", "block %d re-executed on %s from the same prior state differs: %s", blk.Header.Height, nd.Name, d)
			break
		}
		run.Probe("re_execution_compared")
	}
	res, err := prod.Produce(blk)
	if err != nil {
		if s.badSince > 0 {
			run.Fail("C14", "honest-block-rejected-after-rejected-submission", "after %d rejected submissions the honest block %d (sealed by the set in force) is refused: %v", s.badSince, blk.Header.Height, err)
			return false
		}
		panic(fmt.Sprintf("producer rejected its own block %d: %v", blk.Header.Height, err))
	}
	s.badSince = 0
	// C16: committing execution equals the traced execution
	if res.Hash != full.Hash || res.CrossStatesRoot != full.CrossStatesRoot || res.MerkleRoot != full.MerkleRoot {
		run.Fail("C16", "re-execution-differs", "block %d: two executions from the same state differ: digest %x vs %x, cross %x vs %x", blk.Header.Height, res.Hash, full.Hash, res.CrossStatesRoot, full.CrossStatesRoot)
	}
	rec := &BlockRec{Block: blk, Result: res, Txs: s.Pending}
	s.Pending = nil
	s.Blocks = append(s.Blocks, rec)
	nev := 0
	for _, nf := range res.Notify {
		nev += len(nf.Notify)
	}
	run.Logf("block %d hash=%x txs=%d fail=%d writes=%d events=%d cross=%d root=%x", blk.Header.Height, blk.Hash(), len(blk.Transactions), nfail, res.WriteSet.Len(), nev, len(res.CrossHashes), res.MerkleRoot)
	run.State(append(res.Hash[:], byte(len(res.CrossHashes))))
	// followers
	for _, f := range s.Nodes[1:] {
		if f == s.lagNode() {
			continue
		}
		for int(f.Height()) < len(s.Blocks) {
			b := s.Blocks[f.Height()]
			before := f.Height()
			if s.crashNext != "" && f == s.Nodes[1] {
				point := s.crashNext
				s.crashNext = ""
				armCrash(point)
				crashed, cerr := crashing(func() error {
					if before%2 == 0 {
						_, e := f.Produce(b.Block)
						return e
					}
					return f.Sync(b.Block, b.Result.MerkleRoot)
				})
				disarm()
				if crashed {
					run.Fault("crash:" + point)
					f.Close()
					if err := f.Open(); err != nil {
						run.Fail("C12", "restart-failed", "follower %s failed to restart after crash@%s in block %d: %v", f.Name, point, b.Block.Header.Height, err)
						s.Dead = true
						return false
					}
					run.Probe("follower_recovered_from_crash")
					if len(b.Result.CrossHashes) > 0 {
						run.Probe("crash_in_block_with_cross_chain_records")
					}
					continue // re-deliver whatever is still missing
				}
				_ = cerr
				continue
			}
			err := f.Sync(b.Block, b.Result.MerkleRoot)
			if err == nil && f.Height() == before {
				run.Fail("C13", "valid-successor-silently-not-applied", "follower %s returned success for block %d but did not apply it", f.Name, b.Block.Header.Height)
				s.Dead = true
				return false
			}
			if err != nil {
				if s.badSince > 0 {
					run.Fail("C14", "honest-block-rejected-after-rejected-submission", "follower %s refuses honest block %d after rejected submissions: %v", f.Name, b.Block.Header.Height, err)
				} else {
					run.Fail("C16", "replica-rejected-block", "follower %s rejected block %d: %v", f.Name, b.Block.Header.Height, err)
				}
				return false
			}
		}
		sr, _ := f.L.GetStateMerkleRoot(blk.Header.Height)
		if f != s.lagNode() && sr != res.MerkleRoot {
			run.Fail("C16", "replica-state-root-differs", "follower %s state root %x != producer %x at %d", f.Name, sr, res.MerkleRoot, blk.Header.Height)
		}
	}
	s.checkProofs(rec)
	s.checkLookups(rec)
	s.noteSet()
	return true
}

// checkProofs: C08 on every replica for the block just committed.
func (s *Sim) checkProofs(rec *BlockRec) {
	run := s.R
	h := rec.Block.Header.Height
	for _, nd := range s.Nodes {
		if nd.Height() != h {
			continue // lagging follower: checked when it has caught up
		}
		nd.Use()
		root, err := nd.L.GetCrossStateRoot(h)
		if err != nil {
			run.Fail("C08", "cross-root-unreadable", "%s: cross-state root of %d: %v", nd.Name, h, err)
			continue
		}
		if root != rec.Result.CrossStatesRoot {
			run.Fail("C08", "cross-root-differs", "%s: stored cross-state root %x != executed %x", nd.Name, root, rec.Result.CrossStatesRoot)
		}
		// every request record written by this block has a proof against the block's root
		nrec := 0
		rec.Result.WriteSet.ForEach(func(k, v []byte) {
			pfx := rawKey(chain.CrossChain, []byte("request"))
			if !bytes.HasPrefix(k, pfx) || len(v) == 0 {
				return
			}
			nrec++
			key := k[1:] // contract address + key, as relayers pass it
			proof, err := nd.L.GetCrossStatesProof(h, key)
			if err != nil {
				run.Fail("C08", "cross-proof-not-served", "%s: no proof for request %x at height %d: %v", nd.Name, key, h, err)
				return
			}
			val, err := merkle.MerkleProve(proof, root.ToArray())
			stored, _ := nd.L.GetStorageItem(chain.CrossChain, key[20:])
			if err != nil || !bytes.Equal(val, stored) {
				run.Fail("C08", "cross-proof-does-not-verify", "%s: proof for request %x at height %d: err=%v value match=%v", nd.Name, key, h, err, bytes.Equal(val, stored))
			}
		})
		if nrec > 0 {
			run.Probe(fmt.Sprintf("block_with_%d_records", nrec))
			run.Probe("cross_proof_verified")
		}
		if nrec != len(rec.Result.CrossHashes) {
			run.Probe("records_and_leaves_differ")
		}
		// the next header carries this root (constructBlock); checked when it exists
		if h >= 1 {
			prevRoot, _ := nd.L.GetCrossStateRoot(h - 1)
			if rec.Block.Header.CrossStateRoot != prevRoot {
				run.Fail("C08", "header-cross-root-wrong", "header %d carries cross root %x, block %d produced %x", h, rec.Block.Header.CrossStateRoot, h-1, prevRoot)
			}
		}
		// block inclusion proofs: every (ph, h) with ph < h against header h's block root
		hdr, err := nd.L.GetHeaderByHeight(h)
		if err != nil || hdr == nil {
			run.Fail("C08", "header-unreadable", "%s: header %d: %v", nd.Name, h, err)
			continue
		}
		for ph := uint32(0); ph < h; ph++ {
			proof, err := nd.L.GetMerkleProof(ph, h)
			if err != nil {
				run.Fail("C08", "block-proof-not-served", "%s: no block proof (%d,%d): %v", nd.Name, ph, h, err)
				break
			}
			val, err := merkle.MerkleProve(proof, hdr.BlockRoot.ToArray())
			want := nd.L.GetBlockHash(ph)
			if err != nil || !bytes.Equal(val, want.ToArray()) {
				run.Fail("C08", "block-proof-does-not-verify", "%s: block proof (%d,%d) against header block root: err=%v got %x want %x", nd.Name, ph, h, err, val, want.ToArray())
				break
			}
			run.Probe("block_proof_verified")
		}
	}
}

var _ = common.UINT256_EMPTY
var _ = kernel.NewRNG

func govPlan(rng *kernel.RNG, tier string, w map[string]int, extra func(rng *kernel.RNG, steps []kernel.Step) []kernel.Step) *kernel.Plan {
	n := 4 + rng.Intn(5)
	steps := 20 + rng.Intn(50)
	if tier == "thorough" {
		steps = 20 + rng.Intn(120)
	}
	st := GenWorkload(rng, GenCfg{NVal: n, Steps: steps, MaxBlock: 6, W: w})
	// clean restarts of random nodes between steps; crashes of a follower inside the next block
	var out []kernel.Step
	for _, x := range st {
		if x.Op == "block" && w != nil && w["crash"] > 0 && rng.Chance(float64(w["crash"])/100) {
			out = append(out, S("fcrash", int64(rng.Intn(7))))
		}
		out = append(out, x)
		if x.Op == "block" && rng.Chance(0.08) {
			out = append(out, S("restart", int64(rng.Intn(3))))
		}
	}
	// witness forgeries: some owner/approver/voter steps are signed by somebody else
	for i := range out {
		if out[i].Op != "block" && out[i].Op != "restart" && rng.Chance(forgeRate(w)) {
			out[i].S = fmt.Sprintf("as:%d", rng.Intn(n+nCands+nUsers))
			if rng.Chance(0.25) {
				out[i].S = "zo" // names the all-zero address, signed by the usual key
			}
		}
	}
	// forced failures after the handler ran (hook H3)
	if w != nil && w["ff"] > 0 {
		for i := range out {
			if out[i].Op != "block" && out[i].Op != "restart" && rng.Chance(float64(w["ff"])/100) {
				if out[i].S != "" {
					out[i].S += ","
				}
				out[i].S += "ff"
			}
		}
	}
	if extra != nil {
		out = extra(rng, out)
	}
	eventlog := int64(1)
	if rng.Chance(0.2) {
		eventlog = 0
	}
	return &kernel.Plan{Cfg: map[string]int64{"eventlog": eventlog, "n": int64(n), "followers": int64(rng.Intn(3)), "maxview": int64(4 + rng.Intn(12)), "net": int64([]int{1, 1, 2, 77}[rng.Intn(4)])}, Steps: out}
}

func forgeRate(w map[string]int) float64 {
	if w != nil && w["forge"] > 0 {
		return float64(w["forge"]) / 100
	}
	return 0.03
}

// replays: after the plan's imports, re-submit some of them (same payload and altered
// payload with the same cross-chain id) as fresh vote rounds.
func addReplays(rng *kernel.RNG, steps []kernel.Step) []kernel.Step {
	var imports []kernel.Step
	for _, s := range steps {
		if s.Op == "import" {
			imports = append(imports, s)
		}
	}
	if len(imports) == 0 {
		return steps
	}
	nv := 10
	for k := 0; k < 1+rng.Intn(3); k++ {
		im := imports[rng.Intn(len(imports))]
		variant := int64(rng.Intn(2))
		for _, v := range rng.Perm(nv) {
			steps = append(steps, S("import", im.A[0], im.A[1], im.A[2], int64(v), variant))
		}
		steps = append(steps, S("block", int64(rng.Intn(1000))))
	}
	return steps
}

var e1Real = []string{"core/store/ledgerstore (execute/submit/sync paths)", "native runtime (NativeService, CacheDB, OverlayDB)", "node_manager, side_chain_manager, relayer_manager, cross_chain_manager (entrance + vote handler) contracts", "merkle (cross-state tree, block accumulator, proofs)", "goleveldb on tmpfs files"}
var e1Stub = []string{"VBFT server: block producer stub assembles headers as constructBlock/constructProposalMsg and seals with the validators' real keys", "p2p: blocks handed to followers in memory", "transaction signatures are real but the ledger does not verify them (that is the pool's job)"}

func init() {
	type def struct {
		id, rule string
		w        map[string]int
		probes   []string
	}
	base := "seeded history of native-contract transactions (governance, side-chain registry, relayer registry, vote-router imports, privileged ops with right/wrong witnesses) cut into blocks on a producer with 0-2 followers and clean restarts; every transaction's pre/post state is observed by executing every prefix of its block on the real ledger; "
	defs := []def{
		{"C15", base + "oracle: a failed transaction leaves no writes, cross-chain records or events, and removing the failed transactions leaves the block's state digest unchanged. non-trivial = run with succeeding and failing transactions; distinct by chain of block hashes. 12% of the calls are failed by hook H3 after their handler produced all writes, events and cross-chain records", map[string]int{"bigfail": 4, "ff": 12, "import": 8, "chain": 4, "cand": 3, "relayer": 2, "node": 2, "priv": 2, "sig": 1, "burst": 1, "delonly": 4}, []string{"block_mixing_success_and_failure", "tx_failed", "tx_succeeded", "forced_failure_after_handler", "forced_failure_of_delete_only_call"}},
		{"C32", base + "oracle: per (action, request) the set of distinct witnessed approvers; the action takes effect iff the number of them that are consensus validators in the pre-state reaches ceil(2N/3). non-trivial/distinct as C15", map[string]int{"crossaction": 4, "chain": 6, "cand": 5, "relayer": 4, "node": 3, "import": 1}, []string{"approval_fired_exactly_at_threshold", "approval_by_non_validator"}},
		{"C33", base + "oracle: after an approval takes effect its request is no longer pending and no later approval round applies it again without a fresh request", map[string]int{"relayerdup": 3, "statevals": 4, "chain": 6, "cand": 4, "relayer": 5, "node": 1, "import": 1, "returning": 3}, []string{"approval_took_effect:approvechain", "approval_took_effect:approvecand", "approval_took_effect:approverelayer", "returning_member_approved"}},
		{"C34", base + "oracle: pool invariants after every transaction (>=4 active, unique keys and indices, blacklisted keys cannot register) and epoch-change rules (view+1, active->consensus, quitting/black dropped, at most one per block)", map[string]int{"rejoin": 3, "cand": 6, "node": 6, "priv": 3, "chain": 1, "import": 1, "relayer": 1, "twoepochs": 4}, []string{"epoch_change", "blacknode_rejected_second_epoch_in_block"}},
		{"C35", base + "oracle: the registered record of a chain changes only by an approval taking effect, equals the approved request, and updates/removals stem from a request of the registered owner of the current registration", map[string]int{"updquit": 4, "chain": 10, "import": 2, "cand": 1, "relayer": 1, "node": 1, "priv": 1}, []string{"approval_took_effect:approvechain", "approval_took_effect:approveupd", "approval_took_effect:approvequit"}},
	}
	badSteps := func(kinds []int) func(rng *kernel.RNG, steps []kernel.Step) []kernel.Step {
		return func(rng *kernel.RNG, steps []kernel.Step) []kernel.Step {
			var out []kernel.Step
			for _, st := range steps {
				if st.Op == "block" && rng.Chance(0.15) {
					// scenarios: 0 blocks only, 1 headers first + Byzantine header (weighted), 2 sibling header
					out = append(out, S("catchup", int64([]int{0, 1, 1, 1, 2}[rng.Intn(5)]), int64(rng.Intn(6)), int64([]int{0, 1, 2, 3, 3, 4, 4}[rng.Intn(7)]), int64(rng.Intn(1000))))
				}
				if st.Op == "block" {
					for rng.Chance(0.45) {
						out = append(out, S("bad", int64(kinds[rng.Intn(len(kinds))]), int64(rng.Intn(3)), int64(rng.Intn(3)), int64(rng.Intn(1000))))
					}
				}
				out = append(out, st)
			}
			return out
		}
	}
	extras := map[string]func(rng *kernel.RNG, steps []kernel.Step) []kernel.Step{
		"C20": addReplays,
		"C13": badSteps([]int{0, 1, 2, 3, 4, 5, 6, 7, 8, 9, 10, 22}),
		"C14": badSteps([]int{20, 21, 22, 23, 24, 25, 26, 27, 28, 29, 30, 31, 32, 31, 32, 5, 7, 9}),
	}
	defs = append(defs,
		def{"C13", base + "plus Byzantine submissions before block cuts: the next block damaged in one rule (height, parent, timestamp, block root, stale re-submission, sibling of the tip, wrong state root) or valid, re-sealed by an honest quorum, through AddBlock / ExecuteBlock+SubmitBlock / AddHeaders on any node. oracle: a committed block satisfies every acceptance rule evaluated by a reference (naive RFC 6962 block root); an uncommitted submission leaves every observable unchanged; lookups by height/hash return the committed block and its transactions on every replica; the honest block is accepted afterwards", map[string]int{"chain": 2, "cand": 3, "node": 3, "priv": 2, "import": 2, "relayer": 1}, []string{"bad:wrong-parent", "bad:block-root-flipped", "bad:fork-sibling-of-tip", "bad:resubmit-tip", "valid_submission_accepted:valid-control"}},
		def{"C14", base + "plus Byzantine seals before block cuts: 0 / threshold-1 / threshold signers, duplicated member, foreign keys, signatures over another hash, bookkeepers without signatures, former and future members around hand-overs, and config-change blocks that fail later (wrong state root / block root). Half of the runs are main net with the legacy-height knob at 0 so that the strict rule N-floor((N-1)/3) is in force, the rest legacy N-floor(6N/7). oracle: committed => distinct members of the set in force with valid signatures >= required; set in force unchanged by uncommitted submissions (the honest block sealed by the old set must still be accepted)", map[string]int{"node": 6, "cand": 6, "priv": 4, "chain": 1, "import": 1, "relayer": 0, "strict": 1}, []string{"bad:one-below-threshold", "bad:duplicated-member", "bad:foreign-keys", "validator_set_changed", "valid_submission_accepted:exactly-threshold", "strict_quorum_rule_in_force", "seal_by_former_members"}},
		def{"C18", base + "oracle: operator-only operations without the witness of the operator address derived from the pre-state consensus set fail with no writes (except a due epoch change); owner/approver/voter operations signed by somebody else than the named address fail with no writes. 8% of steps are signed by a wrong key; privileged ops use 6 signing modes", map[string]int{"candop": 3, "priv": 8, "chain": 3, "cand": 3, "relayer": 2, "node": 2, "import": 2, "sig": 1, "forge": 10}, []string{"privileged_without_witness_rejected", "owner_op_without_witness_rejected", "privileged_with_operator_witness"}},
		def{"C20", base + "oracle: per (source chain, cross-chain id) at most one acceptance; the done mark appears exactly with the acceptance; replayed rounds (same and altered payload) fail without writes", map[string]int{"ripple": 3, "import": 12, "chain": 3, "priv": 1, "cand": 1, "node": 1, "relayer": 0, "replay": 1}, []string{"import_released", "replay_rejected"}},
		def{"C21", base + "oracle: an import whose source or destination chain is unregistered or blacklisted in the pre-state fails with no writes; whitelisting restores acceptance", map[string]int{"ripple": 3, "import": 10, "priv": 5, "chain": 4, "cand": 1, "node": 1, "relayer": 0}, []string{"import_rejected_source_gate", "import_rejected_destination_gate", "import_released", "privileged_succeeded:blackchain"}},
		def{"C22", base + "oracle: each accepted import stores exactly one request under (destination, relay tx hash) whose content is (relay tx hash, source chain, voted message) and whose hash is the single new cross-state leaf; rejected imports add neither", map[string]int{"ripple": 3, "import": 12, "chain": 3, "priv": 5, "cand": 1, "node": 1, "relayer": 0}, []string{"ripple_import_released", "import_released"}},
		def{"C25", base + "oracle: per message / signed subject the set of distinct voters; only pre-state consensus validators may vote; released / quorum event exactly at the first vote reaching ceil(2N/3) distinct current validators and never again", map[string]int{"sigrotate": 4, "ownervote": 3, "ripple": 3, "import": 8, "sig": 6, "chain": 3, "cand": 2, "node": 2, "priv": 1, "relayer": 0}, []string{"vote_threshold_reached_exactly", "vote_after_release", "sig_quorum_emitted", "sig_after_quorum", "vote_by_non_validator_rejected"}},
		def{"C08", base + "oracle: for every committed block and every replica, each request record written by the block has a served proof that verifies (merkle.MerkleProve) against the block's committed cross-state root to exactly the stored record, the next header carries that root, and for every ph<h the served block proof verifies against header h's block root to block ph's hash", map[string]int{"import": 14, "chain": 3, "cand": 1, "node": 1, "priv": 1, "relayer": 0, "burst": 2, "crash": 30}, []string{"cross_proof_verified", "block_proof_verified", "crash_in_block_with_cross_chain_records"}},
	)
	defs = append(defs,
		def{"C16", base + "oracle: every block is executed again on the producer and on each replica (and again for the commit): write set, state-change digest, state root, cross-state root, cross hashes and events must be identical; replicas' stored state roots must equal the producer's for every height. (The wall-clock clause is exercised by the light-client checks; governance contracts read no clock.)", map[string]int{"reexec": 6}, []string{"re_execution_compared", "epoch_change", "import_released"}},
		def{"C17", base + "oracle: every key written by every transaction lies under the contract-storage prefix of a registered native contract (never a ledger bookkeeping key), and no written key of the governance / registry / relayer / cross-chain-manager / signature contracts can be read as two different record kinds of its contract (key-layout attribution of the keys actually produced); auxiliary static invariant, not simulation: a build-time census (go/ast) of every utils.ConcatKey site of all native contracts of the tree under test, in which two record kinds of one contract must not share a key prefix nor have one prefix extend the other with matching parameter lengths", map[string]int{"fee": 3, "relayer": 5, "relayerdup": 3, "statevals": 3}, []string{"approval_record_key_owner_checked", "key_attributed", "census_kind_pair_compared", "fee_vote_closes_timed_out_round", "fee_record_key_checked"}},
	)
	for _, d := range defs {
		d := d
		gen := func(rng *kernel.RNG, idx int, tier string) *kernel.Plan {
			return genFor(d.id, d.w, extras[d.id], rng, tier)
		}
		if d.id == "C18" {
			// registered by lc.Finalize together with the trust-root witness runs over the drivers
			C18Rule, C18Probes, C18Generate = d.rule, d.probes, gen
			continue
		}
		if d.id == "C20" {
			// registered by lc.Finalize together with the per-router replay runs of the depositors
			C20Rule, C20Probes, C20Generate = d.rule, d.probes, gen
			continue
		}
		if d.id == "C16" {
			// registered by lc.Finalize together with the wall-clock runs over the light-client drivers
			C16Rule, C16Probes, C16Generate = d.rule, d.probes, gen
			continue
		}
		kernel.Register(&kernel.Check{ID: d.id, Level: "exploration", Engine: "E1 cluster", Rule: d.rule, Real: e1Real, Stub: e1Stub,
			Assumptions: []string{"validator set and request state are observed from the implementation's own pre-state; the oracle counts approvals itself"},
			QuickRuns:   quickRuns(d.id), ThoroughRuns: 6000, QuickCap: 100, ThoroughCap: 900,
			RequiredProbes: d.probes,
			Generate:       gen,
			Execute:        execGov})
	}
}

// diffResults compares two executions of a block field by field ("" = identical).
func diffResults(a, b *store.ExecuteResult) string {
	switch {
	case a.Hash != b.Hash:
		return fmt.Sprintf("state-change digest %x vs %x", a.Hash, b.Hash)
	case a.CrossStatesRoot != b.CrossStatesRoot:
		return fmt.Sprintf("cross-state root %x vs %x", a.CrossStatesRoot, b.CrossStatesRoot)
	case a.MerkleRoot != b.MerkleRoot:
		return fmt.Sprintf("state root %x vs %x", a.MerkleRoot, b.MerkleRoot)
	case len(a.CrossHashes) != len(b.CrossHashes) || len(a.Notify) != len(b.Notify):
		return "number of cross hashes or notifications"
	}
	for i := range a.CrossHashes {
		if a.CrossHashes[i] != b.CrossHashes[i] {
			return fmt.Sprintf("cross hash %d", i)
		}
	}
	wa, wb := wsMap(a.WriteSet), wsMap(b.WriteSet)
	if d := chain.DiffMaps("write set", wa, wb); len(d) > 0 {
		return fmt.Sprint(d)
	}
	for i := range a.Notify {
		ja, _ := json.Marshal(a.Notify[i])
		jb, _ := json.Marshal(b.Notify[i])
		if !bytes.Equal(ja, jb) {
			return fmt.Sprintf("events of tx %d: %s vs %s", i, ja, jb)
		}
	}
	return ""
}

func quickRuns(id string) int {
	if id == "C13" || id == "C14" {
		return 192 // the header-first / hand-over scenarios need several aligned steps
	}
	return 96
}

// exported pieces of the C16 gov batch (see lc.Finalize)
var (
	C16Rule     string
	C16Probes   []string
	C16Generate func(rng *kernel.RNG, idx int, tier string) *kernel.Plan
	C18Rule     string
	C18Probes   []string
	C18Generate func(rng *kernel.RNG, idx int, tier string) *kernel.Plan
	C20Rule     string
	C20Probes   []string
	C20Generate func(rng *kernel.RNG, idx int, tier string) *kernel.Plan
	E1Real      = e1Real
	E1Stub      = e1Stub
)

// ExecGov is the general E1 run (exported for combined checks).
func ExecGov(run *kernel.Run) { execGov(run) }

func genFor(id string, w map[string]int, extra func(rng *kernel.RNG, steps []kernel.Step) []kernel.Step, rng *kernel.RNG, tier string) *kernel.Plan {
	pl := govPlan(rng, tier, w, extra)
	if w["crash"] > 0 && pl.Cfg["followers"] == 0 {
		pl.Cfg["followers"] = 1
	}
	if w["reexec"] > 0 {
		pl.Cfg["reexec"] = int64(w["reexec"])
	}
	if id == "C13" || id == "C14" {
		pl.Cfg["lag"] = int64(rng.Intn(2))
		if pl.Cfg["lag"] == 1 && pl.Cfg["followers"] == 0 {
			pl.Cfg["followers"] = 1
		}
	}
	if w["ripple"] > 1 && rng.Chance(0.6) {
		pl.Cfg["net"] = 77 // ripple-router chains need their ExtraInfo, which main/test net drop below a fork height
	}
	if w["strict"] > 0 && rng.Chance(0.5) {
		pl.Cfg["net"], pl.Cfg["legacyheight"] = 1, 0
	}
	return pl
}

func firstLineOf(s string) string {
	for i := 0; i < len(s); i++ {
		if s[i] == '\n' {
			return s[:i]
		}
	}
	return s
}
