// Package e1 is the "cluster" engine: a producer node and followers holding real poly
// ledgers, driven by plans of native-contract transactions, block cuts, crashes/restarts and
// Byzantine submissions. Property-specific oracles live in sibling files.
package e1

import (
	"encoding/binary"
	"fmt"
	"github.com/polynetwork/poly/native/service/governance/neo3_state_manager"
	"math"
	"math/big"
	"sort"
	"strings"

	"github.com/polynetwork/poly/native"

	"github.com/polynetwork/poly/account"
	"github.com/polynetwork/poly/common"
	"github.com/polynetwork/poly/core/store"
	"github.com/polynetwork/poly/core/types"
	ccom "github.com/polynetwork/poly/native/service/cross_chain_manager/common"
	"github.com/polynetwork/poly/native/service/governance/node_manager"
	"github.com/polynetwork/poly/native/service/governance/relayer_manager"
	"github.com/polynetwork/poly/native/service/governance/side_chain_manager"
	"github.com/polynetwork/poly/native/service/governance/signature_manager"
	"github.com/polynetwork/poly/native/service/utils"

	"polysim/chain"
	"polysim/kernel"
)

// Sim is one E1 world.
type Sim struct {
	R          *kernel.Run
	W          *chain.World
	NVal       int
	Nodes      []*chain.Node // [0] is the producer
	Vals       []*account.Account
	Cands      []*account.Account
	Users      []*account.Account
	Pending    []*PendingTx
	nonce      uint32
	Blocks     []*BlockRec // committed on the producer, index = height-1
	SetHistory [][]string  // consensus sets in force over time (peer ids)
	badSince   int         // rejected Byzantine submissions since the last committed block
	LastTrace  *BlockTrace
	zeroOwner  bool   // while building a transaction: name the zero address instead of the signer's
	crashNext  string // crash point armed for follower 1's next block ("" = none)
	Dead       bool   // a node diverged from the engine's chain after a reported violation: the run stops
	// BeforeCommit, if set, is called with the block's trace after the generic oracles ran and
	// BEFORE the block is committed: only then do TxTrace.Pre/.Post read the true per-transaction
	// states (views fall through to the committed ledger for keys the prefix did not write).
	BeforeCommit func(*BlockTrace)
	nextDelta    uint32
	recordOwner  map[string]string       // C17: approval-record key -> logical record that wrote it
	forceFail    map[common.Uint256]bool // transactions that hook H3 fails after their handler ran
}

// PendingTx is a built transaction plus what the plan meant by it.
type PendingTx struct {
	Tx   *types.Transaction
	Step kernel.Step
	Idx  int
}

type BlockRec struct {
	Block  *types.Block
	Result store.ExecuteResult
	Txs    []*PendingTx
}

const (
	nCands = 5
	nUsers = 5
)

// NewSim creates the world (n validators), the producer and `followers` follower nodes.
func NewSim(run *kernel.Run, n, followers int, networkID uint32, maxView uint32) (*Sim, error) {
	w, err := chain.NewWorld(run, n, networkID, maxView)
	if err != nil {
		return nil, err
	}
	s := &Sim{R: run, W: w, NVal: n, Vals: w.InitVals, forceFail: map[common.Uint256]bool{}}
	native.PostInvokeHook = func(sv *native.NativeService, method string) error {
		if s.forceFail[sv.GetTx().Hash()] {
			return fmt.Errorf("forced failure after handler %s (simulator, hook H3)", method)
		}
		return nil
	}
	for i := 0; i < nCands; i++ {
		s.Cands = append(s.Cands, w.Account(fmt.Sprintf("cand%d", i)))
	}
	for i := 0; i < nUsers; i++ {
		s.Users = append(s.Users, w.Account(fmt.Sprintf("user%d", i)))
	}
	for i := 0; i <= followers; i++ {
		nd, err := w.NewNode(fmt.Sprintf("n%d", i))
		if err != nil {
			w.Close()
			return nil, err
		}
		s.Nodes = append(s.Nodes, nd)
	}
	return s, nil
}

func (s *Sim) Close() {
	native.PostInvokeHook = nil
	s.W.Close()
}
func (s *Sim) Prod() *chain.Node { return s.Nodes[0] }

// Peers = every account that can be a consensus peer (validators then candidates).
func (s *Sim) Peers() []*account.Account {
	return append(append([]*account.Account{}, s.Vals...), s.Cands...)
}

// Actors = every account that can sign a transaction.
func (s *Sim) Actors() []*account.Account {
	return append(s.Peers(), s.Users...)
}

func pick(list []*account.Account, i int64) *account.Account {
	if i < 0 {
		i = -i
	}
	return list[int(i%int64(len(list)))]
}

func (s *Sim) Actor(i int64) *account.Account { return pick(s.Actors(), i) }
func (s *Sim) Peer(i int64) *account.Account  { return pick(s.Peers(), i) }
func (s *Sim) User(i int64) *account.Account  { return pick(s.Users, i) }

// ConsensusPeers reads the committed peer pool of the current governance view from the
// producer's state and returns the accounts with consensus status, sorted by pubkey.
func (s *Sim) ConsensusPeers(n *chain.Node) ([]*account.Account, uint32, error) {
	pm, view, err := PeerPool(n)
	if err != nil {
		return nil, 0, err
	}
	var ids []string
	for k, v := range pm.PeerPoolMap {
		if v.Status == node_manager.ConsensusStatus {
			ids = append(ids, k)
		}
	}
	sort.Strings(ids)
	var out []*account.Account
	for _, id := range ids {
		if a := s.W.ByPub(id); a != nil {
			out = append(out, a)
		}
	}
	return out, view, nil
}

// PeerPool reads the governance view and peer pool through the ledger's public read path.
func PeerPool(n *chain.Node) (*node_manager.PeerPoolMap, uint32, error) {
	raw, err := n.L.GetStorageItem(utils.NodeManagerContractAddress, []byte(node_manager.GOVERNANCE_VIEW))
	if err != nil {
		return nil, 0, err
	}
	gv := new(node_manager.GovernanceView)
	if err := gv.Deserialization(common.NewZeroCopySource(raw)); err != nil {
		return nil, 0, err
	}
	key := append([]byte(node_manager.PEER_POOL), utils.GetUint32Bytes(gv.View)...)
	raw, err = n.L.GetStorageItem(utils.NodeManagerContractAddress, key)
	if err != nil {
		return nil, 0, err
	}
	pm := &node_manager.PeerPoolMap{PeerPoolMap: map[string]*node_manager.PeerPoolItem{}}
	if err := pm.Deserialization(common.NewZeroCopySource(raw)); err != nil {
		return nil, 0, err
	}
	return pm, gv.View, nil
}

func (s *Sim) nextNonce() uint32 { s.nonce++; return s.nonce }

// MsgID builds the deterministic cross-chain id / source tx hash for message number m.
func MsgID(m int64) []byte {
	b := make([]byte, 32)
	binary.BigEndian.PutUint64(b[24:], uint64(m)+1)
	return b
}

// BuildTx turns a transaction-producing step into a signed transaction; nil if the step is
// not a transaction op.
func (s *Sim) BuildTx(st kernel.Step) *types.Transaction {
	if strings.Contains(st.S, "zo") {
		// the step names the all-zero address as owner/approver/voter; it is signed by the usual key
		s.zeroOwner = true
		defer func() { s.zeroOwner = false }()
	}
	return s.buildTx(st)
}

func (s *Sim) buildTx(st kernel.Step) *types.Transaction {
	w := s.W
	a := st.Arg
	switch st.Op {
	case "regcand":
		o := s.named(s.Actor(a(1)))
		return chain.SignTx(w.NewTx(chain.NodeManager, node_manager.REGISTER_CANDIDATE,
			chain.Args(&node_manager.RegisterPeerParam{PeerPubkey: chain.PubHex(s.Peer(a(0))), Address: o.Address}), s.nextNonce()), s.signAs(st, o))
	case "unregcand":
		o := s.named(s.Actor(a(1)))
		return chain.SignTx(w.NewTx(chain.NodeManager, node_manager.UNREGISTER_CANDIDATE,
			chain.Args(&node_manager.PeerParam{PeerPubkey: chain.PubHex(s.Peer(a(0))), Address: o.Address}), s.nextNonce()), s.signAs(st, o))
	case "approvecand":
		o := s.named(s.Actor(a(1)))
		return chain.SignTx(w.NewTx(chain.NodeManager, node_manager.APPROVE_CANDIDATE,
			chain.Args(&node_manager.PeerParam{PeerPubkey: chain.PubHex(s.Peer(a(0))), Address: o.Address}), s.nextNonce()), s.signAs(st, o))
	case "blacknode":
		o := s.named(s.Actor(a(1)))
		return chain.SignTx(w.NewTx(chain.NodeManager, node_manager.BLACK_NODE,
			chain.Args(&node_manager.PeerListParam{PeerPubkeyList: s.BlackList(st), Address: o.Address}), s.nextNonce()), s.signAs(st, o))
	case "whitenode":
		o := s.named(s.Actor(a(1)))
		return chain.SignTx(w.NewTx(chain.NodeManager, node_manager.WHITE_NODE,
			chain.Args(&node_manager.PeerParam{PeerPubkey: chain.PubHex(s.Peer(a(0))), Address: o.Address}), s.nextNonce()), s.signAs(st, o))
	case "quitnode":
		o := s.named(s.Actor(a(1)))
		return chain.SignTx(w.NewTx(chain.NodeManager, node_manager.QUIT_NODE,
			chain.Args(&node_manager.PeerParam{PeerPubkey: chain.PubHex(s.Peer(a(0))), Address: o.Address}), s.nextNonce()), s.signAs(st, o))
	case "commitdpos":
		tx := w.NewTx(chain.NodeManager, node_manager.COMMIT_DPOS, nil, s.nextNonce())
		return s.signPrivileged(tx, a(0), a(1))
	case "updateconfig":
		tx := w.NewTx(chain.NodeManager, node_manager.UPDATE_CONFIG, chain.Args(&node_manager.UpdateConfigParam{Configuration: &node_manager.Configuration{
			BlockMsgDelay: 5000 + uint32(a(2)%3)*1000, HashMsgDelay: 6000, PeerHandshakeTimeout: 10, MaxBlockChangeView: viewArg(a(2))}}), s.nextNonce())
		return s.signPrivileged(tx, a(0), a(1))
	case "regchain", "updchain":
		o := s.named(s.User(a(2)))
		m := side_chain_manager.REGISTER_SIDE_CHAIN
		if st.Op == "updchain" {
			m = side_chain_manager.UPDATE_SIDE_CHAIN
		}
		name := fmt.Sprintf("chain%d-%d", a(0), a(3))
		if a(3) >= 100 {
			// a record far larger than the per-transaction write buffer (16 KiB)
			name += strings.Repeat("n", 20000+int(a(3)%7)*1000)
		}
		p := &side_chain_manager.RegisterSideChainParam{Address: o.Address, ChainId: ChainID(a(0)), Router: uint64(a(1)), Name: name,
			BlocksToWait: uint64(1 + a(3)%3), CCMCAddress: []byte{0xcc, byte(a(0)), byte(a(3))}, ExtraInfo: []byte{byte(a(3))}}
		if uint64(a(1)) == utils.RIPPLE_ROUTER {
			// a ripple-router chain carries its asset operator (the registering owner) in ExtraInfo
			ei := &side_chain_manager.RippleExtraInfo{Operator: s.User(a(2)).Address, Sequence: 1, Quorum: 1, SignerNum: 1, Pks: [][]byte{{0x02, byte(a(0))}}, ReserveAmount: big.NewInt(int64(10 + a(3)))}
			sk := common.NewZeroCopySink(nil)
			ei.Serialization(sk)
			p.ExtraInfo = sk.Bytes()
		}
		return chain.SignTx(w.NewTx(chain.SideChainManager, m, chain.Args(p), s.nextNonce()), s.signAs(st, o))
	case "approvechain", "approveupd", "approvequit":
		o := s.named(s.Actor(a(1)))
		m := map[string]string{"approvechain": side_chain_manager.APPROVE_REGISTER_SIDE_CHAIN, "approveupd": side_chain_manager.APPROVE_UPDATE_SIDE_CHAIN,
			"approvequit": side_chain_manager.APPROVE_QUIT_SIDE_CHAIN}[st.Op]
		return chain.SignTx(w.NewTx(chain.SideChainManager, m, chain.Args(&side_chain_manager.ChainidParam{Chainid: ChainID(a(0)), Address: o.Address}), s.nextNonce()), s.signAs(st, o))
	case "regasset": // asset binding of a ripple-router chain: [chain, operator user, destination chain, salt]
		o := s.named(s.User(a(1)))
		d := ChainID(a(2))
		p := &side_chain_manager.RegisterAssetParam{OperatorAddress: o.Address, ChainId: ChainID(a(0)),
			AssetMap: map[uint64][]byte{d: {0xa5, byte(d), byte(a(3))}}, LockProxyMap: map[uint64][]byte{d: {0x1b, byte(d), byte(a(3))}}}
		return chain.SignTx(w.NewTx(chain.SideChainManager, side_chain_manager.REGISTER_ASSET, chain.Args(p), s.nextNonce()), s.signAs(st, o))
	case "regsv", "rmsv": // neo3 state validators: [key-set bitmask 1..7, owner user]
		o := s.named(s.User(a(1)))
		m := neo3_state_manager.REGISTER_STATE_VALIDATOR
		if st.Op == "rmsv" {
			m = neo3_state_manager.REMOVE_STATE_VALIDATOR
		}
		p := &neo3_state_manager.StateValidatorListParam{StateValidators: s.SVKeys(a(0)), Address: o.Address}
		return chain.SignTx(w.NewTx(chain.Neo3State, m, chain.Args(p), s.nextNonce()), s.signAs(st, o))
	case "approvesv", "approvermsv": // [request id, approver]
		o := s.named(s.Actor(a(1)))
		m := neo3_state_manager.APPROVE_REGISTER_STATE_VALIDATOR
		if st.Op == "approvermsv" {
			m = neo3_state_manager.APPROVE_REMOVE_STATE_VALIDATOR
		}
		return chain.SignTx(w.NewTx(chain.Neo3State, m, chain.Args(&neo3_state_manager.ApproveStateValidatorParam{ID: uint64(abs(a(0)) % 4), Address: o.Address}), s.nextNonce()), s.signAs(st, o))
	case "updatefee": // fee vote of a chain: [chain, voter, view offset (0 current, 1 next, 2 previous), fee]
		o := s.named(s.Actor(a(1)))
		view := s.committedFeeView(ChainID(a(0)))
		switch abs(a(2)) % 3 {
		case 1:
			view++
		case 2:
			view--
		}
		p := &side_chain_manager.UpdateFeeParam{Address: o.Address, ChainId: ChainID(a(0)), View: view, Fee: big.NewInt(1000 + abs(a(3))%1000)}
		return chain.SignTx(w.NewTx(chain.SideChainManager, side_chain_manager.UPDATE_FEE, chain.Args(p), s.nextNonce()), s.signAs(st, o))
	case "quitchain":
		o := s.named(s.User(a(1)))
		return chain.SignTx(w.NewTx(chain.SideChainManager, side_chain_manager.QUIT_SIDE_CHAIN,
			chain.Args(&side_chain_manager.ChainidParam{Chainid: ChainID(a(0)), Address: o.Address}), s.nextNonce()), s.signAs(st, o))
	case "regrelayer", "rmrelayer":
		o := s.named(s.Actor(a(1)))
		m := relayer_manager.REGISTER_RELAYER
		if st.Op == "rmrelayer" {
			m = relayer_manager.REMOVE_RELAYER
		}
		return chain.SignTx(w.NewTx(chain.RelayerManager, m, chain.Args(&relayer_manager.RelayerListParam{AddressList: []common.Address{s.User(a(0)).Address}, Address: o.Address}), s.nextNonce()), s.signAs(st, o))
	case "approverelayer", "approvermrelayer":
		o := s.named(s.Actor(a(1)))
		m := relayer_manager.APPROVE_REGISTER_RELAYER
		if st.Op == "approvermrelayer" {
			m = relayer_manager.APPROVE_REMOVE_RELAYER
		}
		return chain.SignTx(w.NewTx(chain.RelayerManager, m, chain.Args(&relayer_manager.ApproveRelayerParam{ID: uint64(abs(a(0)) % 4), Address: o.Address}), s.nextNonce()), s.signAs(st, o))
	case "import": // vote-router import: [src, dst, msg, voter, variant]
		o := s.named(s.Actor(a(3)))
		p := s.ImportParam(a(0), a(1), a(2), a(4), o)
		return chain.SignTx(w.NewTx(chain.CrossChain, ccom.IMPORT_OUTER_TRANSFER_NAME, chain.Args(p), s.nextNonce()), s.signAs(st, o))
	case "addsig": // signature manager: [subject, signer]
		o := s.named(s.Actor(a(1)))
		p := &signature_manager.AddSignatureParam{Address: o.Address, SideChainID: 1, Subject: []byte{0x5b, byte(a(0) % 5)}, Signature: []byte{byte(a(1)), byte(a(0))}}
		return chain.SignTx(w.NewTx(chain.SigManager, signature_manager.ADD_SIGNATURE, chain.Args(p), s.nextNonce()), s.signAs(st, o))
	case "blackchain", "whitechain":
		m := ccom.BLACK_CHAIN
		if st.Op == "whitechain" {
			m = ccom.WHITE_CHAIN
		}
		tx := w.NewTx(chain.CrossChain, m, chain.Args(&ccom.BlackChainParam{ChainID: ChainID(a(0))}), s.nextNonce())
		return s.signPrivileged(tx, a(1), a(2))
	}
	return nil
}

// signAs returns the account that signs the step's transaction: normally the named address's
// own key; a step with S = "as:<k>" is signed by actor k instead (witness-forgery attempts).
func (s *Sim) signAs(st kernel.Step, def *account.Account) *account.Account {
	var k int64
	if n, _ := fmt.Sscanf(st.S, "as:%d", &k); n == 1 {
		return s.Actor(k)
	}
	return def
}

// named returns the account whose address the transaction names; with "zo" in the step it is
// the all-zero address (the signing key stays the account's own).
func (s *Sim) named(a *account.Account) *account.Account {
	if !s.zeroOwner {
		return a
	}
	c := *a
	c.Address = common.ADDRESS_EMPTY
	return &c
}

// namedOwner is the address a step names as owner/approver/voter (params.Address).
func (s *Sim) namedOwner(st kernel.Step) common.Address {
	if strings.Contains(st.S, "zo") {
		return common.ADDRESS_EMPTY
	}
	switch st.Op {
	case "regchain", "updchain":
		return s.User(st.Arg(2)).Address
	case "quitchain", "regasset", "regsv", "rmsv":
		return s.User(st.Arg(1)).Address
	case "import":
		return s.Actor(st.Arg(3)).Address
	}
	return s.Actor(st.Arg(1)).Address
}

func (s *Sim) signerOf(st kernel.Step) (common.Address, bool) { return s.namedOwner(st), true }

// ChainID maps a small plan integer to a side-chain id (1..4).
func ChainID(i int64) uint64 {
	if i < 0 {
		i = -i
	}
	return uint64(i%4) + 1
}

// ImportParam builds the entrance parameter of a vote-router import of message msg from chain
// src to chain dst. variant>0 alters the payload while keeping the cross-chain id.
func (s *Sim) ImportParam(src, dst, msg, variant int64, relayer *account.Account) *ccom.EntranceParam {
	mp := &ccom.MakeTxParam{TxHash: MsgID(msg), CrossChainID: MsgID(msg), FromContractAddress: []byte{0xf0, byte(src)},
		ToChainID: ChainID(dst), ToContractAddress: []byte{0xd0, byte(dst)}, Method: "unlock", Args: ImportArgs(msg, variant)}
	sink := common.NewZeroCopySink(nil)
	mp.Serialization(sink)
	return &ccom.EntranceParam{SourceChainID: ChainID(src), Height: uint32(100 + msg), RelayerAddress: relayer.Address[:], Extra: sink.Bytes()}
}

// signPrivileged signs tx according to mode: 0 = current consensus operator multi-address,
// 1 = the initial validator set's operator, 2 = too few members of the operator multi-sig,
// 3 = one validator alone, 4 = an outsider, 5 = unsigned.
func (s *Sim) signPrivileged(tx *types.Transaction, mode, who int64) *types.Transaction {
	if mode < 0 {
		mode = -mode
	}
	switch mode % 7 {
	case 0:
		cur, _, err := s.ConsensusPeers(s.Prod())
		if err != nil || len(cur) == 0 {
			return chain.Rewire(tx)
		}
		return chain.OperatorSign(tx, cur)
	case 1:
		return chain.OperatorSign(tx, sortedByPub(s.Vals))
	case 2:
		cur, _, err := s.ConsensusPeers(s.Prod())
		if err != nil || len(cur) < 2 {
			return chain.Rewire(tx)
		}
		pubs := pubsOf(cur)
		m := len(cur) - (len(cur)-1)/3
		return chain.MultiSignTx(tx, m-1, pubs, cur[:m-1]...)
	case 3:
		return chain.SignTx(tx, s.Peer(who))
	case 4:
		return chain.SignTx(tx, s.User(who))
	case 5:
		// the multi-address over every ACTIVE pool member (consensus members plus approved
		// candidates not yet promoted): it is the operator only when there is no such candidate
		cur, err := s.ActivePeers(s.Prod())
		if err != nil || len(cur) == 0 {
			return chain.Rewire(tx)
		}
		return chain.OperatorSign(tx, cur)
	}
	return chain.Rewire(tx)
}

// ActivePeers: accounts of the pool members with consensus or candidate status, sorted by key.
func (s *Sim) ActivePeers(n *chain.Node) ([]*account.Account, error) {
	pm, _, err := PeerPool(n)
	if err != nil {
		return nil, err
	}
	var ids []string
	for k, v := range pm.PeerPoolMap {
		if v.Status == node_manager.ConsensusStatus || v.Status == node_manager.CandidateStatus {
			ids = append(ids, k)
		}
	}
	sort.Strings(ids)
	var out []*account.Account
	for _, id := range ids {
		if a := s.W.ByPub(id); a != nil {
			out = append(out, a)
		}
	}
	return out, nil
}

// Submit builds the step's transaction and queues it for the next block.
func (s *Sim) Submit(st kernel.Step, idx int) *PendingTx {
	tx := s.BuildTx(st)
	if tx == nil {
		return nil
	}
	if strings.Contains(st.S, "ff") {
		s.forceFail[tx.Hash()] = true
	}
	p := &PendingTx{Tx: tx, Step: st, Idx: idx}
	s.Pending = append(s.Pending, p)
	return p
}

// CutBlock assembles, executes and commits the next block on the producer from the pending
// transactions and returns its record.
func (s *Sim) CutBlock(nonce uint64) (*BlockRec, error) {
	var txs []*types.Transaction
	for _, p := range s.Pending {
		txs = append(txs, p.Tx)
	}
	blk, err := s.Prod().BuildBlock(&chain.BlockSpec{Txs: txs, Nonce: nonce})
	if err != nil {
		return nil, err
	}
	res, err := s.Prod().Produce(blk)
	if err != nil {
		return nil, fmt.Errorf("produce: %v", err)
	}
	rec := &BlockRec{Block: blk, Result: res, Txs: s.Pending}
	s.Pending = nil
	s.Blocks = append(s.Blocks, rec)
	return rec, nil
}

// viewArg maps the updateconfig step's third argument to a MaxBlockChangeView: ordinary values
// just above the contract's lower bound, and extreme ones (an operator switching automatic
// epoch changes off) that sit at the edge of the uint32 range.
func viewArg(x int64) uint32 {
	if x < 0 {
		x = -x
	}
	switch x % 8 {
	case 5:
		return math.MaxUint32
	case 6:
		return math.MaxUint32 - 1
	case 7:
		return 1 << 31
	}
	return 10000 + uint32(x%8)
}

// ImportArgs is the message body of the workload's imports: (destination address, amount) in
// the layout the ripple router parses; the vote router treats it as opaque bytes.
func ImportArgs(msg, variant int64) []byte {
	sk := common.NewZeroCopySink(nil)
	sk.WriteVarBytes([]byte{0xda, byte(msg), byte(variant)})
	sk.WriteUint64(uint64(1000 + msg))
	return sk.Bytes()
}

// SVKeys maps a bitmask (1..7) to a list of neo3 state-validator public keys (hex, 33 bytes).
func (s *Sim) SVKeys(mask int64) []string {
	mask = abs(mask)%7 + 1
	var out []string
	for i := 0; i < 3; i++ {
		if mask&(1<<uint(i)) != 0 {
			out = append(out, chain.PubHex(s.W.Account(fmt.Sprintf("sv%d", i))))
		}
	}
	return out
}

// BlackList is the key list of a blacknode step: [peer, approver, second peer + 1 (0 = none)].
func (s *Sim) BlackList(st kernel.Step) []string {
	out := []string{chain.PubHex(s.Peer(st.Arg(0)))}
	if k := st.Arg(2); k > 0 {
		if p2 := chain.PubHex(s.Peer(k - 1)); p2 != out[0] {
			out = append(out, p2)
		}
	}
	return out
}

// committedFeeView reads a chain's current fee-voting round from the producer's committed state.
func (s *Sim) committedFeeView(chainID uint64) uint64 {
	raw, err := s.Prod().L.GetStorageItem(utils.SideChainManagerContractAddress, append([]byte(side_chain_manager.FEE), utils.GetUint64Bytes(chainID)...))
	if err != nil || raw == nil {
		return 0
	}
	f := &side_chain_manager.Fee{Fee: new(big.Int)}
	if f.Deserialization(common.NewZeroCopySource(raw)) != nil {
		return 0
	}
	return f.View
}
