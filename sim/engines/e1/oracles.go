package e1

import (
	"bytes"
	"encoding/binary"
	"fmt"
	"github.com/polynetwork/poly/core/payload"
	"github.com/polynetwork/poly/native/service/cross_chain_manager/consensus_vote"
	"github.com/polynetwork/poly/native/service/governance/side_chain_manager"
	"github.com/polynetwork/poly/native/states"
	"sort"
	"strings"

	"github.com/polynetwork/poly/common"
	scom "github.com/polynetwork/poly/core/store/common"
	"github.com/polynetwork/poly/merkle"
	ccom "github.com/polynetwork/poly/native/service/cross_chain_manager/common"
	"github.com/polynetwork/poly/native/service/governance/node_manager"
	"github.com/polynetwork/poly/native/service/utils"

	"polysim/chain"
)

// Model is the reference state the E1 oracles accumulate across a run. It is written from
// the property texts: sets of distinct approvers per (action, request), which requests were
// consumed, votes per message, which messages were released. Everything else is observed from
// the implementation's own pre/post state of each transaction (View).
type Model struct {
	approvals  map[string]map[common.Address]bool // (action|request) -> distinct approvers since the last time it took effect
	consumed   map[string]bool                    // request applied and no fresh request since
	votes      map[string]map[common.Address]bool // vote id -> distinct validator voters
	released   map[string]bool                    // vote id -> message released
	accepted   map[string]int                     // (src|ccid) -> number of acceptances
	regEpoch   map[uint64]int                     // chain id -> number of registrations that took effect
	reqEpoch   map[string]int                     // (upd|quit, chain id) -> regEpoch at which the pending request was made, -1 none
	reqOwner   map[string]common.Address
	epochBlock uint32 // last height at which an epoch change happened
	epochs     int
}

func NewModel() *Model {
	return &Model{approvals: map[string]map[common.Address]bool{}, consumed: map[string]bool{}, votes: map[string]map[common.Address]bool{},
		released: map[string]bool{}, accepted: map[string]int{}, regEpoch: map[uint64]int{}, reqEpoch: map[string]int{}, reqOwner: map[string]common.Address{}}
}

// ceil(2n/3), from the property text.
func twoThirds(n int) int { return (2*n + 2) / 3 }

type approveSpec struct {
	event   string // event emitted when the action takes effect
	request func(s *Sim, t *TxTrace) (reqKey string, pending bool)
}

// reqKeyOf identifies the request an approval/request step refers to.
func reqKeyOf(s *Sim, op string, a0 int64) string {
	switch op {
	case "approvecand", "regcand", "unregcand", "blacknode", "whitenode":
		return chain.PubHex(s.Peer(a0))
	case "approvechain", "approveupd", "approvequit", "regchain", "updchain", "quitchain":
		return fmt.Sprint(ChainID(a0))
	case "approverelayer", "approvermrelayer", "approvesv", "approvermsv":
		return fmt.Sprint(uint64(abs(a0) % 4))
	}
	return ""
}

var approveEvents = map[string]string{
	"approvecand": "approveCandidate", "blacknode": "blackNode", "whitenode": "whiteNode",
	"approvechain": "ApproveRegisterSideChain", "approveupd": "ApproveUpdateSideChain", "approvequit": "ApproveQuitSideChain",
	"approverelayer": "ApproveRegisterRelayer", "approvermrelayer": "ApproveRemoveRelayer",
	"approvesv": "ApproveRegisterStateValidator", "approvermsv": "ApproveRemoveStateValidator",
}

func activeCount(pm *node_manager.PeerPoolMap) int {
	n := 0
	for _, it := range pm.PeerPoolMap {
		if it.Status == node_manager.CandidateStatus || it.Status == node_manager.ConsensusStatus {
			n++
		}
	}
	return n
}

// pending reports whether the request an approval step refers to is pending/valid in the
// pre-state, i.e. whether this approval is one the property says must be counted.
func (s *Sim) pending(t *TxTrace) bool {
	st := t.P.Step
	pre := t.Pre
	switch st.Op {
	case "approvecand":
		return pre.PeerApply(chain.PubHex(s.Peer(st.Arg(0)))) != nil
	case "blacknode":
		pm, _ := pre.Pool()
		if pm == nil {
			return false
		}
		list := s.BlackList(st)
		for _, k := range list {
			it, ok := pm.PeerPoolMap[k]
			if !ok || it.Status == node_manager.BlackStatus {
				return false
			}
		}
		return activeCount(pm) > 4+len(list)-1
	case "whitenode":
		return pre.BlackListed(chain.PubHex(s.Peer(st.Arg(0))))
	case "approvechain":
		return pre.SideChainApplyRaw(ChainID(st.Arg(0))) != nil
	case "approveupd":
		return pre.SideChainUpdateRaw(ChainID(st.Arg(0))) != nil
	case "approvequit":
		return pre.SideChainQuitPending(ChainID(st.Arg(0)))
	case "approverelayer":
		return pre.RelayerApplyRaw(uint64(abs(st.Arg(0))%4)) != nil
	case "approvermrelayer":
		return pre.RelayerRemoveRaw(uint64(abs(st.Arg(0))%4)) != nil
	case "approvesv":
		return pre.SVApplyRaw(uint64(abs(st.Arg(0))%4)) != nil
	case "approvermsv":
		return pre.SVRemoveRaw(uint64(abs(st.Arg(0))%4)) != nil
	}
	return false
}

// witnessed reports whether the transaction carries the witness of addr.
func witnessed(t *TxTrace, addr common.Address) bool {
	addrs, err := t.Tx.GetSignatureAddresses()
	if err != nil {
		return false
	}
	for _, a := range addrs {
		if a == addr {
			return true
		}
	}
	return false
}

func noWrites(t *TxTrace) bool { return len(t.Writes) == 0 && len(t.Cross) == 0 }

func writeKeys(t *TxTrace) string {
	var b bytes.Buffer
	for i, k := range sortedKeys(t.Writes) {
		if i > 4 {
			b.WriteString(" ...")
			break
		}
		fmt.Fprintf(&b, " %x", k)
	}
	return b.String()
}

// OnTx runs every per-transaction oracle on one observed transition.
func (s *Sim) OnTx(m *Model, t *TxTrace) {
	r := s.R
	// ---- C15 atomicity -------------------------------------------------------------
	if !t.OK {
		if len(t.Writes) != 0 {
			r.Fail("C15", "failed-tx-left-writes", "failed tx %d (%v) at height %d left writes:%s", t.Index, stepOf(t), t.Height, writeKeys(t))
		}
		if len(t.Cross) != 0 {
			r.Fail("C15", "failed-tx-left-cross-records", "failed tx %d (%v) contributed %d cross-chain records", t.Index, stepOf(t), len(t.Cross))
		}
		if len(t.Events) != 0 {
			r.Fail("C15", "failed-tx-left-events", "failed tx %d (%v) kept %d events", t.Index, stepOf(t), len(t.Events))
		}
		r.Probe("tx_failed")
	} else {
		r.Probe("tx_succeeded")
	}
	// ---- C17 confinement -----------------------------------------------------------
	for k := range t.Writes {
		if len(k) < 21 || k[0] != byte(scom.ST_STORAGE) {
			r.Fail("C17", "write-outside-contract-namespace", "tx %d (%v) wrote non-contract key %x", t.Index, stepOf(t), k)
			continue
		}
		var c common.Address
		copy(c[:], k[1:21])
		if !knownContract[c] {
			r.Fail("C17", "write-under-unknown-contract", "tx %d (%v) wrote key %x outside every native contract", t.Index, stepOf(t), k)
		}
	}
	s.checkKeys(t)
	if t.P == nil {
		s.onEpoch(m, t)
		return
	}
	if s.forceFail[t.Tx.Hash()] {
		// hook H3 failed this call after its handler ran: it must have failed (checked above
		// for leftovers); the semantic oracles treat it as a transaction that never happened
		if t.OK {
			r.Fail("C15", "forced-failure-ignored", "tx %d (%v) reported success although its call failed after the handler", t.Index, stepOf(t))
		}
		r.Probe("forced_failure_after_handler")
		if op := t.P.Step.Op; op == "unregcand" || op == "whitenode" {
			r.Probe("forced_failure_of_delete_only_call")
		}
		s.onEpoch(m, t)
		return
	}
	st := t.P.Step
	if st.Op == "raw" {
		s.onEpoch(m, t)
		return
	}
	signer, okS := s.signerOf(st)
	switch st.Op {
	case "approvecand", "blacknode", "whitenode", "approvechain", "approveupd", "approvequit", "approverelayer", "approvermrelayer", "approvesv", "approvermsv":
		s.onApproval(m, t, signer)
	case "regsv", "rmsv":
		if !witnessed(t, signer) && (t.OK || !noWrites(t)) {
			s.R.Fail("C18", "owner-op-without-witness", "%v succeeded without the named owner's witness", st)
		}
		if t.OK {
			s.R.Probe("state_validator_request_made")
		}
	case "regcand", "regchain", "updchain", "quitchain", "regrelayer", "rmrelayer", "unregcand", "quitnode":
		s.onRequest(m, t, signer, okS)
	case "updatefee":
		s.onUpdateFee(t, signer)
	case "regasset":
		if !witnessed(t, signer) && (t.OK || !noWrites(t)) {
			s.R.Fail("C18", "owner-op-without-witness", "%v succeeded without the named operator's witness", st)
		}
		if t.OK {
			s.R.Probe("asset_binding_registered")
		}
	case "commitdpos", "updateconfig", "blackchain", "whitechain":
		s.onPrivileged(m, t)
	case "import":
		s.onImport(m, t, signer)
	case "addsig":
		s.onAddSig(m, t, signer)
	}
	s.onRegistryChange(m, t)
	s.onEpoch(m, t)
}

var knownContract = map[common.Address]bool{
	utils.HeaderSyncContractAddress: true, utils.CrossChainManagerContractAddress: true, utils.SideChainManagerContractAddress: true,
	utils.NodeManagerContractAddress: true, utils.RelayerManagerContractAddress: true, utils.Neo3StateManagerContractAddress: true,
	utils.SignatureManagerContractAddress: true, utils.ReplenishContractAddress: true,
}

func stepOf(t *TxTrace) string {
	if t.P == nil {
		return "system tx"
	}
	return t.P.Step.String()
}

// ---- C32 / C33 / C35(effect): approvals ---------------------------------------------
func (s *Sim) onApproval(m *Model, t *TxTrace, approver common.Address) {
	r := s.R
	st := t.P.Step
	key := st.Op + "|" + reqKeyOf(s, st.Op, st.Arg(0))
	if st.Op == "blacknode" {
		key = st.Op + "|" + strings.Join(s.BlackList(st), ",") // the request is the whole key list
	}
	fired := t.OK && t.HasEvent(approveEvents[st.Op])
	valid := witnessed(t, approver) && s.pending(t)
	if !valid {
		if fired {
			r.Fail("C32", "effect-without-valid-approval", "%v took effect although the approval is not valid (witness=%v pending=%v)", st, witnessed(t, approver), s.pending(t))
		}
		if !witnessed(t, approver) && (t.OK || !noWrites(t)) {
			r.Fail("C18", "approval-without-witness", "%v succeeded without the approver's witness", st)
		}
		return
	}
	if !t.OK {
		// a valid approval may only be rejected for a reason outside the approval rule itself
		if st.Op == "blacknode" {
			if g := t.Pre.GovView(); g != nil && g.Height == t.Height {
				r.Probe("blacknode_rejected_second_epoch_in_block")
				return
			}
		}
		r.Fail("C32", "valid-approval-rejected", "%v: valid approval by a witnessed address for a pending request failed", st)
		return
	}
	if m.approvals[key] == nil {
		m.approvals[key] = map[common.Address]bool{}
	}
	m.approvals[key][approver] = true
	cons, _ := t.Pre.Consensus()
	count := 0
	for a := range m.approvals[key] {
		if cons[a] {
			count++
		}
	}
	need := twoThirds(len(cons))
	expect := count >= need
	switch {
	case expect && !fired:
		r.Fail("C32", "threshold-reached-no-effect", "%v: %d distinct current validators of %d approved (need %d) but the action did not take effect", st, count, len(cons), need)
	case !expect && fired:
		r.Fail("C32", "effect-below-threshold", "%v took effect with %d distinct current validators of %d (need %d)", st, count, len(cons), need)
	}
	if fired && !expect && (st.Op == "approvechain" || st.Op == "approveupd" || st.Op == "approvequit") {
		r.Fail("C35", "registry-changed-below-approval-quorum", "%v changed the registry with %d distinct current validators of %d approving this action (need %d)", st, count, len(cons), need)
	}
	if expect && t.OK && st.Op != "blacknode" && st.Op != "whitenode" {
		// the approval that reaches the quorum consumes the request, whatever the action then has to do
		post := View{t.Post.L, t.Post.WS}
		if s.pending(&TxTrace{P: t.P, Pre: post}) {
			r.Fail("C33", "request-not-consumed:"+st.Op, "%v reached the approval quorum (%d of %d, need %d) but its request is still pending afterwards", st, count, len(cons), need)
		}
	}
	if count == need && fired {
		r.Probe("approval_fired_exactly_at_threshold")
	}
	if !cons[approver] {
		r.Probe("approval_by_non_validator")
	}
	if !fired {
		return
	}
	if m.consumed[key] {
		r.Fail("C33", "request-applied-again", "%v took effect again although the request was already applied and no fresh request was made", st)
	}
	delete(m.approvals, key)
	m.consumed[key] = true
	// the request must no longer be pending
	post := View{t.Post.L, t.Post.WS}
	tp := &TxTrace{P: t.P, Pre: post}
	stillPending := s.pending(tp)
	if st.Op == "blacknode" || st.Op == "whitenode" {
		stillPending = false // not request-based: the effect itself changes the precondition
	}
	if stillPending {
		r.Fail("C33", "request-not-consumed:"+st.Op, "%v took effect but its request is still pending afterwards", st)
	}
	r.Probe("approval_took_effect:" + st.Op)
	if st.Op == "approvecand" && int(abs(st.Arg(0)))%(s.NVal+nCands) < s.NVal {
		r.Probe("returning_member_approved")
	}
	// effect equals the approved request (C35)
	id := ChainID(st.Arg(0))
	switch st.Op {
	case "approvechain":
		if !bytes.Equal(t.Post.SideChainRaw(id), t.Pre.SideChainApplyRaw(id)) {
			r.Fail("C35", "registered-record-differs-from-request", "%v: registered record %x differs from approved request %x", st, t.Post.SideChainRaw(id), t.Pre.SideChainApplyRaw(id))
		}
		m.regEpoch[id]++
	case "approveupd":
		if !bytes.Equal(t.Post.SideChainRaw(id), t.Pre.SideChainUpdateRaw(id)) {
			r.Fail("C35", "updated-record-differs-from-request", "%v: record %x differs from approved update %x", st, t.Post.SideChainRaw(id), t.Pre.SideChainUpdateRaw(id))
		}
		s.checkOwnerRequest(m, t, "upd", id)
	case "approvequit":
		if t.Post.SideChainRaw(id) != nil {
			r.Fail("C35", "quit-did-not-remove", "%v took effect but the chain is still registered", st)
		}
		s.checkOwnerRequest(m, t, "quit", id)
	}
}

// checkOwnerRequest: an update/removal that takes effect must stem from a request made by the
// registered owner of the *current* registration.
func (s *Sim) checkOwnerRequest(m *Model, t *TxTrace, kind string, id uint64) {
	k := fmt.Sprintf("%s|%d", kind, id)
	ep, ok := m.reqEpoch[k]
	cur := t.Pre.SideChain(id)
	if cur == nil {
		if kind == "quit" {
			s.R.Probe("quit_fired_on_unregistered_chain")
		}
		return
	}
	if !ok || ep != m.regEpoch[id] || m.reqOwner[k] != cur.Address {
		s.R.Fail("C35", "change-without-owner-request:"+kind, "%v changed chain %d although its registered owner made no %s request for the current registration (request epoch %d/%v, registration epoch %d)",
			t.P.Step, id, kind, ep, ok, m.regEpoch[id])
	}
	delete(m.reqEpoch, k)
}

// ---- requests: C18 (owner witness), C33 (fresh request), C34/C35 preconditions ----------
func (s *Sim) onRequest(m *Model, t *TxTrace, signer common.Address, _ bool) {
	r := s.R
	st := t.P.Step
	named := s.namedOwner(st)
	if !witnessed(t, named) {
		if t.OK || !noWrites(t) {
			r.Fail("C18", "owner-op-without-witness", "%v succeeded without the witness of the named owner", st)
		}
		r.Probe("owner_op_without_witness_rejected")
		return
	}
	if !t.OK {
		return
	}
	id := ChainID(st.Arg(0))
	switch st.Op {
	case "regcand":
		pk := chain.PubHex(s.Peer(st.Arg(0)))
		if t.Pre.BlackListed(pk) {
			r.Fail("C34", "blacklisted-key-registered", "%v: a blacklisted key registered as candidate", st)
		}
		delete(m.consumed, "approvecand|"+pk)
	case "regchain":
		if t.Pre.SideChainRaw(id) != nil {
			r.Fail("C35", "registered-twice", "%v accepted although chain %d is registered", st, id)
		}
		delete(m.consumed, fmt.Sprintf("approvechain|%d", id))
	case "updchain", "quitchain":
		cur := t.Pre.SideChain(id)
		if cur == nil || cur.Address != named {
			r.Fail("C35", "request-by-non-owner", "%v accepted although the requester is not the registered owner", st)
		}
		kind := "upd"
		ap := "approveupd"
		if st.Op == "quitchain" {
			kind, ap = "quit", "approvequit"
		}
		k := fmt.Sprintf("%s|%d", kind, id)
		m.reqEpoch[k] = m.regEpoch[id]
		m.reqOwner[k] = named
		delete(m.consumed, fmt.Sprintf("%s|%d", ap, id))
	case "regrelayer":
		// the new apply id is the pre-state counter
		for i := uint64(0); i < 4; i++ {
			if t.Pre.RelayerApplyRaw(i) == nil && t.Post.RelayerApplyRaw(i) != nil {
				delete(m.consumed, fmt.Sprintf("approverelayer|%d", i))
			}
		}
	case "rmrelayer":
		for i := uint64(0); i < 4; i++ {
			if t.Pre.RelayerRemoveRaw(i) == nil && t.Post.RelayerRemoveRaw(i) != nil {
				delete(m.consumed, fmt.Sprintf("approvermrelayer|%d", i))
			}
		}
	case "quitnode":
		pm, _ := t.Pre.Pool()
		if pm != nil && activeCount(pm) <= 4 {
			r.Fail("C34", "pool-below-four", "%v accepted with only %d active members", st, activeCount(pm))
		}
	}
}

// ---- C18 operator-only ------------------------------------------------------------------
func (s *Sim) onPrivileged(m *Model, t *TxTrace) {
	r := s.R
	st := t.P.Step
	op, ok := t.Pre.Operator()
	if !ok {
		return
	}
	if witnessed(t, op) {
		r.Probe("privileged_with_operator_witness")
		if t.OK {
			r.Probe("privileged_succeeded:" + st.Op)
		}
		return
	}
	if st.Op == "commitdpos" {
		g := t.Pre.GovView()
		cfgRaw := t.Pre.Get(chain.NodeManager, []byte(node_manager.VBFT_CONFIG))
		cfg := new(node_manager.Configuration)
		if g != nil && cfgRaw != nil && cfg.Deserialization(common.NewZeroCopySource(cfgRaw)) == nil {
			if t.Height-g.Height >= cfg.MaxBlockChangeView {
				r.Probe("commitdpos_due_without_witness")
				return // the epoch is due: anyone may commit it
			}
		}
	}
	if t.OK || !noWrites(t) {
		r.Fail("C18", "operator-op-without-witness", "%v succeeded without the witness of the current consensus operator", st)
	}
	r.Probe("privileged_without_witness_rejected")
}

// ---- C20 / C21 / C22 / C25: vote-router imports ------------------------------------------
func (s *Sim) onImport(m *Model, t *TxTrace, voter common.Address) {
	r := s.R
	st := t.P.Step
	src, dst := ChainID(st.Arg(0)), ChainID(st.Arg(1))
	ccid := MsgID(st.Arg(2))
	pre := t.Pre
	srcChain := pre.SideChain(src)
	released := len(t.Cross) > 0
	// C21: source gates
	if pre.Blacked(src) || srcChain == nil {
		if t.OK || !noWrites(t) {
			r.Fail("C21", "import-from-unregistered-or-blacklisted-source", "%v accepted although source chain %d is unregistered or blacklisted (registered=%v blacklisted=%v)", st, src, srcChain != nil, pre.Blacked(src))
		}
		r.Probe("import_rejected_source_gate")
		return
	}
	ripple := srcChain.Router == utils.RIPPLE_ROUTER
	if ripple {
		r.Probe("import_from_ripple_router_chain")
	}
	if srcChain.Router != utils.VOTE_ROUTER && !ripple {
		if released {
			r.Fail("C21", "import-released-by-other-router", "%v released through router %d without a proof", st, srcChain.Router)
		}
		return
	}
	if !witnessed(t, voter) {
		if t.OK || !noWrites(t) {
			r.Fail("C18", "vote-without-witness", "%v succeeded without the voter's witness", st)
		}
		return
	}
	cons, _ := pre.Consensus()
	if !cons[voter] {
		// must not count: no state change, nothing released (a no-op "success" after the
		// message was released is not a counted vote and is not asserted against)
		if !noWrites(t) {
			r.Fail("C25", "vote-by-non-validator-counted", "%v: a vote by an address that is not a current consensus validator changed state", st)
		}
		r.Probe("vote_by_non_validator_rejected")
		return
	}
	p := s.ImportParam(st.Arg(0), st.Arg(1), st.Arg(2), st.Arg(4), s.Actor(0))
	voteID := fmt.Sprintf("%d|%d|%x", p.SourceChainID, p.Height, p.Extra)
	doneKey := fmt.Sprintf("%d|%x", src, ccid)
	if m.released[voteID] {
		if released || !t.OK || !noWrites(t) {
			r.Fail("C25", "released-again", "%v: message already released, but this vote released=%v ok=%v writes=%d", st, released, t.OK, len(t.Writes))
		}
		r.Probe("vote_after_release")
		return
	}
	votes := m.votes[voteID]
	n := 0
	for a := range votes {
		if cons[a] {
			n++
		}
	}
	if !votes[voter] {
		n++
	} else {
		r.Probe("repeat_vote")
	}
	need := twoThirds(len(cons))
	if n < need {
		if released {
			r.Fail("C25", "released-below-threshold", "%v released with %d distinct current validators of %d (need %d)", st, n, len(cons), need)
		}
		if !t.OK {
			r.Fail("C25", "valid-vote-rejected", "%v: a current validator's vote below the threshold was rejected", st)
			return
		}
		if t.Post.Done(src, ccid) != pre.Done(src, ccid) {
			r.Fail("C20", "done-mark-without-acceptance", "%v: done mark changed without the message being accepted", st)
		}
		if m.votes[voteID] == nil {
			m.votes[voteID] = map[common.Address]bool{}
		}
		m.votes[voteID][voter] = true
		return
	}
	// threshold reached by this vote: release attempt
	// (C20 is stated for main net: the vote router skips the done check on the test network below a fork height)
	// (the ripple router, which counts the same validator votes, checks the done mark on every network)
	doneEnforced := s.W.NetworkID != 2 || ripple
	r.Probe("vote_threshold_reached")
	if n == need {
		r.Probe("vote_threshold_reached_exactly")
	}
	dstChain := pre.SideChain(dst)
	switch {
	case pre.Done(src, ccid) && doneEnforced:
		if t.OK || !noWrites(t) {
			r.Fail("C20", "replayed-message-accepted", "%v: message (chain %d, id %x) was already done but is accepted again (ok=%v)", st, src, ccid, t.OK)
		}
		r.Probe("replay_rejected")
		return
	case ripple && !pre.HasAssetBinding(src, dst):
		// the ripple router cannot complete the message without the source chain's asset binding
		// for the destination: the transaction fails as a whole (not asserted beyond atomicity)
		r.Probe("ripple_import_without_asset_binding")
		if t.OK && released {
			r.Fail("C22", "request-content-wrong", "%v released although chain %d has no asset binding for destination %d", st, src, dst)
		}
		return
	case pre.Blacked(dst) || dstChain == nil:
		if t.OK || !noWrites(t) {
			r.Fail("C21", "import-to-unregistered-or-blacklisted-destination", "%v accepted although destination chain %d is unregistered or blacklisted", st, dst)
		}
		if !noWrites(t) {
			r.Fail("C22", "rejected-import-committed-state", "%v towards the unregistered / blacklisted destination %d is refused but left %d writes (done mark, vote record) in the committed state", st, dst, len(t.Writes))
		}
		r.Probe("import_rejected_destination_gate")
		return
	}
	if dstChain.Router == utils.BTC_ROUTER || dstChain.Router == utils.RIPPLE_ROUTER {
		return
	}
	if !t.OK {
		r.Fail("C25", "threshold-reached-not-released", "%v: %d distinct current validators of %d voted (need %d), gates open, but the message was not released", st, n, len(cons), need)
		return
	}
	m.released[voteID] = true
	m.accepted[doneKey]++
	if doneEnforced {
		if m.accepted[doneKey] > 1 {
			r.Fail("C20", "message-accepted-twice", "message (chain %d, id %x) accepted %d times", src, ccid, m.accepted[doneKey])
		}
		if !t.Post.Done(src, ccid) {
			r.Fail("C20", "accepted-without-done-mark", "%v accepted but the message is not marked done", st)
		}
	} else {
		r.Probe("release_on_testnet_without_done_rule")
	}
	// C22: exactly one request, keyed by (destination, relay tx hash), content and leaf
	if len(t.Cross) != 1 {
		r.Fail("C22", "not-exactly-one-leaf", "%v accepted and committed %d cross-state leaves", st, len(t.Cross))
		return
	}
	relay := t.Tx.Hash()
	req := t.Post.Request(dst, relay.ToArray())
	if req == nil {
		r.Fail("C22", "request-missing", "%v accepted but no request stored under (chain %d, relay tx %x)", st, dst, relay.ToArray())
		return
	}
	nreq := 0
	for k := range t.Writes {
		if bytes.HasPrefix([]byte(k), rawKey(chain.CrossChain, []byte(ccom.REQUEST))) {
			nreq++
		}
	}
	if nreq != 1 {
		r.Fail("C22", "not-exactly-one-request", "%v stored %d request records", st, nreq)
	}
	mv := new(ccom.ToMerkleValue)
	if err := mv.Deserialization(common.NewZeroCopySource(req)); err != nil {
		r.Fail("C22", "request-undecodable", "%v: stored request does not decode: %v", st, err)
		return
	}
	want := new(ccom.MakeTxParam)
	want.Deserialization(common.NewZeroCopySource(p.Extra))
	if ripple {
		// the verified message of a ripple-router import: lock proxy and asset of the source chain's
		// binding for the destination, destination address and the amount widened to 32 bytes
		lock, asset := pre.AssetBinding(src, dst)
		src0 := common.NewZeroCopySource(want.Args)
		to, _ := src0.NextVarBytes()
		amount, _ := src0.NextUint64()
		sk := common.NewZeroCopySink(nil)
		sk.WriteVarBytes(asset)
		sk.WriteVarBytes(to)
		var wide [32]byte
		binary.LittleEndian.PutUint64(wide[:], amount)
		sk.WriteBytes(wide[:])
		want.ToContractAddress, want.Args = lock, sk.Bytes()
		r.Probe("ripple_import_released")
	}
	if !bytes.Equal(mv.TxHash, relay.ToArray()) || mv.FromChainID != src || mv.MakeTxParam == nil || mv.MakeTxParam.ToChainID != dst ||
		!bytes.Equal(mv.MakeTxParam.CrossChainID, want.CrossChainID) || !bytes.Equal(mv.MakeTxParam.Args, want.Args) || mv.MakeTxParam.Method != want.Method ||
		!bytes.Equal(mv.MakeTxParam.ToContractAddress, want.ToContractAddress) || !bytes.Equal(mv.MakeTxParam.FromContractAddress, want.FromContractAddress) || !bytes.Equal(mv.MakeTxParam.TxHash, want.TxHash) {
		r.Fail("C22", "request-content-wrong", "%v: stored request %+v / %+v does not carry relay tx %x, source %d and the voted message", st, mv, mv.MakeTxParam, relay.ToArray(), src)
	}
	if merkle.HashLeaf(req) != t.Cross[0] {
		r.Fail("C22", "leaf-is-not-request", "%v: cross-state leaf %x is not the hash of the stored request", st, t.Cross[0])
	}
	r.Probe("import_released")
}

// ---- C35: the registry changes only through approvals ------------------------------------
func (s *Sim) onRegistryChange(m *Model, t *TxTrace) {
	st := t.P.Step
	for id := uint64(1); id <= 4; id++ {
		if bytes.Equal(t.Pre.SideChainRaw(id), t.Post.SideChainRaw(id)) {
			continue
		}
		ok := (st.Op == "approvechain" || st.Op == "approveupd" || st.Op == "approvequit") && ChainID(st.Arg(0)) == id
		if !ok {
			s.R.Fail("C35", "registry-changed-without-approval", "%v changed the registered record of chain %d", st, id)
		}
	}
}

// ---- C34: validator pool invariants and epoch changes --------------------------------------
func (s *Sim) onEpoch(m *Model, t *TxTrace) {
	r := s.R
	gpre, gpost := t.Pre.GovView(), t.Post.GovView()
	pm, view := t.Post.Pool()
	if gpost == nil || pm == nil {
		r.Fail("C34", "pool-unreadable", "after %v the governance view or peer pool cannot be read", stepOf(t))
		return
	}
	if activeCount(pm) < 4 {
		r.Fail("C34", "pool-below-four", "after %v the pool has %d active members", stepOf(t), activeCount(pm))
	}
	seenIdx := map[uint32]string{}
	ids := make([]string, 0, len(pm.PeerPoolMap))
	for id := range pm.PeerPoolMap {
		ids = append(ids, id)
	}
	sort.Strings(ids)
	for _, id := range ids {
		it := pm.PeerPoolMap[id]
		if it.PeerPubkey != id {
			r.Fail("C34", "pool-entry-key-mismatch", "after %v pool entry %s holds key %s", stepOf(t), id, it.PeerPubkey)
		}
		if o, dup := seenIdx[it.Index]; dup {
			r.Fail("C34", "duplicate-index", "after %v keys %s and %s share index %d", stepOf(t), o, id, it.Index)
		}
		seenIdx[it.Index] = id
	}
	if gpre == nil || gpost.View == gpre.View {
		return
	}
	// an epoch change happened in this transaction
	r.Probe("epoch_change")
	m.epochs++
	if gpost.View != gpre.View+1 {
		r.Fail("C34", "view-not-advanced-by-one", "%v moved the view from %d to %d", stepOf(t), gpre.View, gpost.View)
	}
	if m.epochBlock == t.Height {
		r.Fail("C34", "two-epoch-changes-in-one-block", "second epoch change in block %d by %v", t.Height, stepOf(t))
	}
	m.epochBlock = t.Height
	old := t.Pre.PoolAt(gpre.View)
	if old == nil {
		return
	}
	_ = view
	// members blacklisted by this very transaction (blackNode event carries the key list)
	blacked := map[string]bool{}
	for _, e := range t.Events {
		if st, ok := e.States.([]interface{}); ok && len(st) == 2 {
			if name, _ := st[0].(string); name == "blackNode" {
				if keys, ok := st[1].([]string); ok {
					for _, k := range keys {
						blacked[k] = true
					}
				}
			}
		}
	}
	for id, it := range old.PeerPoolMap {
		nw, in := pm.PeerPoolMap[id]
		status := it.Status
		if blacked[id] {
			status = node_manager.BlackStatus
		}
		switch status {
		case node_manager.QuitingStatus, node_manager.BlackStatus:
			if in {
				r.Fail("C34", "quitting-or-black-member-kept", "epoch change by %v kept member %s with status %d", stepOf(t), id, it.Status)
			}
		default:
			if !in || nw.Status != node_manager.ConsensusStatus {
				r.Fail("C34", "active-member-not-consensus", "epoch change by %v did not make active member %s a consensus member", stepOf(t), id)
			}
		}
	}
	for id := range pm.PeerPoolMap {
		if _, was := old.PeerPoolMap[id]; !was {
			r.Fail("C34", "member-appeared-at-epoch-change", "epoch change by %v added member %s", stepOf(t), id)
		}
	}
}

// ---- C25 (collected validator signatures): quorum event exactly once --------------------
func (s *Sim) onAddSig(m *Model, t *TxTrace, signer common.Address) {
	r := s.R
	st := t.P.Step
	emitted := t.OK && t.HasEvent("AddSignatureQuorum")
	if !witnessed(t, signer) {
		if t.OK || !noWrites(t) {
			r.Fail("C18", "signature-without-witness", "%v succeeded without the signer's witness", st)
		}
		return
	}
	cons, _ := t.Pre.Consensus()
	if !cons[signer] {
		if t.OK || !noWrites(t) {
			r.Fail("C25", "signature-by-non-validator-accepted", "%v: a signature from an address that is not a current consensus validator was accepted", st)
		}
		r.Probe("sig_by_non_validator_rejected")
		return
	}
	if !t.OK {
		r.Fail("C25", "valid-signature-rejected", "%v: a current validator's signature was rejected", st)
		return
	}
	id := fmt.Sprintf("sig|%d", abs(st.Arg(0))%5)
	if m.votes[id] == nil {
		m.votes[id] = map[common.Address]bool{}
	}
	m.votes[id][signer] = true
	n := 0
	for a := range m.votes[id] {
		if cons[a] {
			n++
		}
	}
	need := twoThirds(len(cons))
	expect := n >= need && !m.released[id]
	if expect != emitted {
		r.Fail("C25", "quorum-event-wrong", "%v: %d distinct current validators of %d signed (need %d), already emitted=%v, but quorum event emitted=%v", st, n, len(cons), need, m.released[id], emitted)
	}
	if emitted {
		m.released[id] = true
		r.Probe("sig_quorum_emitted")
	} else if n >= need {
		r.Probe("sig_after_quorum")
	}
}

// ---- C17 (records are written under the key their parameters name): fee voting ------------
// A fee vote names (chain, round). The round it belongs to is the quoted current round, or the
// next one when this very call closes a timed-out round (more than UPDATE_FEE_TIMEOUT seconds
// after the round's first vote). The per-round vote record and the per-round proposal record
// the transaction writes must be those of that round, never of another one.
func (s *Sim) onUpdateFee(t *TxTrace, voter common.Address) {
	r := s.R
	st := t.P.Step
	chainID := ChainID(st.Arg(0))
	ic, ok := t.Tx.Payload.(*payload.InvokeCode)
	if !ok {
		return
	}
	ip := new(states.ContractInvokeParam)
	if ip.Deserialization(common.NewZeroCopySource(ic.Code)) != nil {
		return
	}
	p := new(side_chain_manager.UpdateFeeParam)
	if p.Deserialization(common.NewZeroCopySource(ip.Args)) != nil {
		return
	}
	if !witnessed(t, voter) {
		if t.OK || !noWrites(t) {
			r.Fail("C18", "vote-without-witness", "%v succeeded without the voter's witness", st)
		}
		return
	}
	cur := t.Pre.FeeView(chainID)
	cons, _ := t.Pre.Consensus()
	if p.View != cur || !cons[voter] {
		if !noWrites(t) {
			r.Fail("C25", "vote-by-non-validator-counted", "%v (quoting round %d, current round %d, validator=%v) changed state", st, p.View, cur, cons[voter])
		}
		r.Probe("fee_vote_refused")
		return
	}
	round := cur
	if start := t.Pre.FeeRoundStart(chainID, cur); start != 0 && t.Time-start > side_chain_manager.UPDATE_FEE_TIMEOUT {
		round = cur + 1
		r.Probe("fee_vote_closes_timed_out_round")
	}
	if !t.OK {
		r.Fail("C25", "valid-vote-rejected", "%v: a current validator's fee vote for the current round %d was rejected", st, cur)
		return
	}
	votePrefix := string(rawKey(chain.CrossChain, []byte(consensus_vote.VOTE_INFO+side_chain_manager.UPDATE_FEE)))
	infoPrefix := string(rawKey(chain.SideChainManager, []byte(side_chain_manager.FEE_INFO)))
	for _, k := range sortedKeys(t.Writes) {
		for kind, prefix := range map[string]string{"vote record": votePrefix, "proposal record": infoPrefix} {
			if !strings.HasPrefix(k, prefix) || len(k) != len(prefix)+16 {
				continue
			}
			c := binary.LittleEndian.Uint64([]byte(k[len(prefix):]))
			v := binary.LittleEndian.Uint64([]byte(k[len(prefix)+8:]))
			if c != chainID || v != round {
				r.Fail("C17", "record-written-under-other-parameters", "%v belongs to fee round %d of chain %d but wrote the %s of round %d of chain %d", st, round, chainID, kind, v, c)
			}
			r.Probe("fee_record_key_checked")
		}
	}
}
