package e1

import (
	"crypto/sha256"
	"sort"

	"github.com/ontio/ontology-crypto/keypair"
	"github.com/polynetwork/poly/account"

	"polysim/chain"
)

func sortedByPub(in []*account.Account) []*account.Account {
	out := append([]*account.Account{}, in...)
	sort.Slice(out, func(i, j int) bool { return chain.PubHex(out[i]) < chain.PubHex(out[j]) })
	return out
}

func pubsOf(in []*account.Account) []keypair.PublicKey {
	var out []keypair.PublicKey
	for _, a := range in {
		out = append(out, a.PublicKey)
	}
	return out
}

func chainSha(b []byte) [32]byte { return sha256.Sum256(b) }
