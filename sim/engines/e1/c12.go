package e1

import (
	"bytes"
	"fmt"
	"os"

	"github.com/polynetwork/poly/core/store/ledgerstore"

	"polysim/chain"
	"polysim/kernel"
)

type crashSentinel struct{ point string }

var submitPoints = []string{"submit.begin", "submit.afterBlockBatch", "submit.afterStateBatch", "submit.beforeBlockCommit",
	"submit.afterBlockCommit", "submit.afterEventCommit", "submit.afterStateCommit"}
var recoverPoints = []string{"recover.beforeEventCommit", "recover.afterEventCommit", "recover.afterStateCommit"}
var genesisPoints = []string{"genesis.afterClearAll", "genesis.afterBookkeeper", "genesis.beforeVersion"}

// armCrash makes the ledger store "crash" (sentinel panic) the first time it reaches point.
func armCrash(point string) { armCrashNth(point, 1) }

func armCrashNth(point string, nth int) {
	ledgerstore.CrashPointHook = func(name string) {
		if name == point {
			nth--
			if nth == 0 {
				ledgerstore.CrashPointHook = nil
				panic(crashSentinel{point})
			}
		}
	}
}

func disarm() { ledgerstore.CrashPointHook = nil }

// crashing runs f and reports whether it ended in the armed crash.
func crashing(f func() error) (crashed bool, err error) {
	defer func() {
		if e := recover(); e != nil {
			if _, ok := e.(crashSentinel); ok {
				crashed = true
				return
			}
			panic(e)
		}
	}()
	err = f()
	return false, err
}

// observable is what the public read path reports about a node at its current height.
func observe(n *chain.Node) string {
	l := n.L
	h := l.GetCurrentBlockHeight()
	sr, _ := l.GetStateMerkleRoot(h)
	cr, _ := l.GetCrossStateRoot(h)
	var b bytes.Buffer
	fmt.Fprintf(&b, "h=%d hash=%x hh=%d state=%x cross=%x", h, l.GetCurrentBlockHash(), l.GetCurrentHeaderHeight(), sr, cr)
	if blk, err := l.GetBlockByHeight(h); err == nil && blk != nil {
		fmt.Fprintf(&b, " blk=%x ntx=%d", blk.Hash(), len(blk.Transactions))
		for _, tx := range blk.Transactions {
			ev, err := l.GetEventNotifyByTx(tx.Hash())
			if err != nil || ev == nil {
				fmt.Fprintf(&b, " ev(%x)=missing", tx.Hash())
			} else {
				fmt.Fprintf(&b, " ev=%d/%d", ev.State, len(ev.Notify))
			}
		}
	} else {
		fmt.Fprintf(&b, " blk=missing(%v)", err)
	}
	for ph := uint32(0); ph < h; ph++ {
		p, err := l.GetMerkleProof(ph, h)
		fmt.Fprintf(&b, " p%d=%x/%v", ph, kernelHash(p), err != nil)
	}
	return b.String()
}

func kernelHash(b []byte) []byte {
	if len(b) == 0 {
		return nil
	}
	h := chainSha(b)
	return h[:6]
}

// C12: ledger recovers exactly after a crash at any persistence point.
func init() {
	kernel.Register(&kernel.Check{
		ID: "C12", Level: "fault_enumeration", Engine: "E1 cluster (crash enumeration)",
		Rule: "history = seeded chain of 2-8 blocks of governance/registry/relayer/import transactions; for every block b, both commit paths " +
			"(ExecuteBlock+SubmitBlock, AddBlock) and every H1 crash point in submitBlock (7), plus every crash point of genesis initialisation (10) and, " +
			"after crashes that leave recovery work, every crash point inside recoverStore (double crash), the node is crashed, restarted and compared with an " +
			"uncrashed twin: full key/value content of the block, state and event databases, heights, roots, events, block proofs, then the rest of the chain is applied " +
			"and the final durable content compared again. evaluations = crash cases executed; a history is non-trivial if some block changed contract state and carried events; distinct by its chain of block hashes",
		Real:        []string{"core/store/ledgerstore (block/state/event stores, recoverStore, genesis init)", "core/store/leveldbstore on goleveldb files (tmpfs)", "merkle CompactMerkleTree + file hash store", "native runtime and governance/side-chain/relayer/cross-chain-manager contracts", "overlaydb/cachedb"},
		Stub:        []string{"VBFT server (block producer stub assembles and seals blocks as constructBlock does)", "p2p (blocks handed over in memory)"},
		Assumptions: []string{"process-crash model: a completed LevelDB batch commit and a completed hash-file write survive, nothing buffered by poly does; torn LevelDB batches are excluded by LevelDB's journal CRC", "crash = sentinel panic at a hook point followed by closing the file handles without any poly-level flush"},
		QuickRuns:   16, ThoroughRuns: 480, QuickCap: 150, ThoroughCap: 1500,
		RequiredProbes: []string{"crash_recovered_with_replay", "crash_lost_block", "double_crash", "genesis_crash", "history_with_cross_chain_records"},
		Exhaustive:     true,
		Generate: func(rng *kernel.RNG, idx int, tier string) *kernel.Plan {
			n := 4 + rng.Intn(4)
			steps := 6 + rng.Intn(14)
			if tier == "thorough" {
				steps = 6 + rng.Intn(30)
			}
			return &kernel.Plan{Cfg: map[string]int64{"n": int64(n), "maxview": int64(3 + rng.Intn(6))},
				Steps: GenWorkload(rng, GenCfg{NVal: n, Steps: steps, MaxBlock: 5, W: map[string]int{"import": 8, "burst": 2, "chain": 3, "cand": 2, "relayer": 1, "node": 1, "priv": 1, "sig": 1, "noise": 1}})}
		},
		Execute: execC12,
	})
}

func execC12(run *kernel.Run) {
	s, err := NewSim(run, int(run.Plan.C("n", 4)), 0, 1, uint32(run.Plan.C("maxview", 5)))
	if err != nil {
		panic(err)
	}
	defer s.Close()
	w := s.W
	twin := s.Prod()
	snapDir := func(h int) string { return fmt.Sprintf("%s/snap-%d", w.Root, h) }
	var durable []*chain.Durable // by height
	var obs []string
	snapshot := func(h int) {
		obs = append(obs, observe(twin))
		twin.Close()
		d, err := twin.DumpDurable()
		if err != nil {
			panic(err)
		}
		durable = append(durable, d)
		if err := chain.CopyDir(twin.Dir, snapDir(h)); err != nil {
			panic(err)
		}
		if err := twin.Open(); err != nil {
			panic(fmt.Sprintf("twin reopen failed at %d: %v", h, err))
		}
	}
	snapshot(0)
	// 1. the uncrashed twin produces the whole chain
	interesting := false
	for i, st := range run.Plan.Steps {
		run.StepNo = i
		if st.Op == "block" {
			rec, err := s.CutBlock(uint64(st.Arg(0)))
			if err != nil {
				panic(fmt.Sprintf("twin could not produce block: %v", err))
			}
			nev := 0
			for _, n := range rec.Result.Notify {
				nev += len(n.Notify)
			}
			if rec.Result.WriteSet.Len() > 0 && nev > 0 {
				interesting = true
			}
			if len(rec.Result.CrossHashes) > 0 {
				run.Probe("history_with_cross_chain_records")
			}
			run.Logf("twin block %d hash=%x txs=%d writes=%d events=%d cross=%d", rec.Block.Header.Height, rec.Block.Hash(), len(rec.Txs), rec.Result.WriteSet.Len(), nev, len(rec.Result.CrossHashes))
			snapshot(int(rec.Block.Header.Height))
		} else {
			s.Submit(st, i)
		}
	}
	B := len(s.Blocks)
	run.Steps += len(run.Plan.Steps)
	// control: a node that is never restarted must end with the same durable content
	{
		ctl, err := w.NewNode("control")
		if err != nil {
			panic(err)
		}
		for _, rec := range s.Blocks {
			if err := ctl.Sync(rec.Block, rec.Result.MerkleRoot); err != nil {
				run.Fail("C12", "control-sync-rejected", "follower rejected block %d: %v", rec.Block.Header.Height, err)
				return
			}
		}
		o := observe(ctl)
		ctl.Close()
		d, _ := ctl.DumpDurable()
		if diff := d.Diff(durable[B]); len(diff) > 0 || o != obs[B] {
			run.Fail("C12", "restart-visible", "never-restarted follower differs from restarted producer: %v\n%s\n%s", diff, o, obs[B])
		}
		w.Forget(ctl)
	}
	cases := 0
	// finish applies blocks from..B on n and compares with the twin's final state.
	finish := func(n *chain.Node, label string) bool {
		for h := int(n.Height()) + 1; h <= B; h++ {
			rec := s.Blocks[h-1]
			var err error
			if h%2 == 0 {
				err = n.Sync(rec.Block, rec.Result.MerkleRoot)
			} else {
				_, err = n.Produce(rec.Block)
			}
			if err != nil {
				run.Fail("C12", "next-block-rejected", "%s: block %d rejected after recovery: %v", label, h, err)
				return false
			}
			if int(n.Height()) != h {
				run.Fail("C12", "next-block-not-applied", "%s: block %d not applied after recovery (height %d)", label, h, n.Height())
				return false
			}
		}
		o := observe(n)
		n.Close()
		d, err := n.DumpDurable()
		if err != nil {
			panic(err)
		}
		if o != obs[B] {
			run.Fail("C12", "final-observables-differ", "%s: after finishing the chain observables differ from twin\n got %s\nwant %s", label, o, obs[B])
			return false
		}
		if diff := d.Diff(durable[B]); len(diff) > 0 {
			run.Fail("C12", "final-durable-differs", "%s: after finishing the chain durable content differs from twin: %v", label, diff)
			return false
		}
		return true
	}
	// checkRecovered verifies a freshly reopened node against the twin at the same height.
	checkRecovered := func(n *chain.Node, label string, allowed ...int) bool {
		h := int(n.Height())
		ok := false
		for _, a := range allowed {
			ok = ok || a == h
		}
		if !ok {
			run.Fail("C12", "recovered-height-wrong", "%s: recovered at height %d, expected one of %v", label, h, allowed)
			return false
		}
		if o := observe(n); o != obs[h] {
			run.Fail("C12", "recovered-observables-differ", "%s: recovered observables differ from twin at height %d\n got %s\nwant %s", label, h, o, obs[h])
			return false
		}
		n.Close()
		d, err := n.DumpDurable()
		if err != nil {
			panic(err)
		}
		if diff := d.Diff(durable[h]); len(diff) > 0 {
			run.Fail("C12", "recovered-durable-differs", "%s: recovered durable content differs from twin at height %d: %v", label, h, diff)
			return false
		}
		if err := n.Open(); err != nil {
			run.Fail("C12", "second-open-failed", "%s: second restart after recovery failed: %v", label, err)
			return false
		}
		return true
	}
	scratch := func(h int, name string) *chain.Node {
		dir := fmt.Sprintf("%s/%s", w.Root, name)
		os.RemoveAll(dir)
		if h >= 0 {
			if err := chain.CopyDir(snapDir(h), dir); err != nil {
				panic(err)
			}
		}
		return w.NodeAt(name, dir)
	}
	apply := func(n *chain.Node, b int, path int) error {
		rec := s.Blocks[b-1]
		if path == 0 {
			_, err := n.Produce(rec.Block)
			return err
		}
		return n.Sync(rec.Block, rec.Result.MerkleRoot)
	}
	// 2. every block x path x submit crash point (+ double crashes in recovery)
	for b := 1; b <= B && !run.Failed(); b++ {
		for path := 0; path < 2 && !run.Failed(); path++ {
			for _, p := range submitPoints {
				label := fmt.Sprintf("block %d path %s crash@%s", b, []string{"submit", "sync"}[path], p)
				n := scratch(b-1, "crash")
				if err := n.Open(); err != nil {
					panic(fmt.Sprintf("snapshot open failed: %v", err))
				}
				armCrash(p)
				crashed, err := crashing(func() error { return apply(n, b, path) })
				disarm()
				if !crashed {
					panic(fmt.Sprintf("%s: crash point not reached (err=%v)", label, err))
				}
				run.Fault("crash:" + p)
				cases++
				n.Close()
				// keep a copy of the crashed directory for the double-crash cases
				crashedDir := fmt.Sprintf("%s/crashed", w.Root)
				os.RemoveAll(crashedDir)
				chain.CopyDir(n.Dir, crashedDir)
				if err := n.Open(); err != nil {
					run.Fail("C12", "restart-failed", "%s: restart failed: %v", label, err)
					w.Forget(n)
					break
				}
				if int(n.Height()) == b {
					if p == "submit.afterBlockCommit" || p == "submit.afterEventCommit" {
						run.Probe("crash_recovered_with_replay")
					}
				} else {
					run.Probe("crash_lost_block")
				}
				okc := checkRecovered(n, label, b-1, b) && finish(n, label)
				w.Forget(n)
				if !okc {
					break
				}
				if p == "submit.afterBlockCommit" || p == "submit.afterEventCommit" {
					for _, q := range recoverPoints {
						l2 := label + " then crash@" + q
						n2 := w.NodeAt("crash2", fmt.Sprintf("%s/crash2", w.Root))
						os.RemoveAll(n2.Dir)
						chain.CopyDir(crashedDir, n2.Dir)
						armCrash(q)
						crashed, err := crashing(func() error { return n2.Open() })
						disarm()
						if !crashed {
							if err != nil {
								run.Fail("C12", "restart-failed", "%s: restart failed: %v", l2, err)
							}
							w.Forget(n2)
							continue // recovery had nothing to replay at this point
						}
						run.Fault("crash:" + q)
						run.Probe("double_crash")
						cases++
						n2.Close() // the half-open ledger's handles
						if err := n2.Open(); err != nil {
							run.Fail("C12", "restart-failed", "%s: restart failed: %v", l2, err)
							w.Forget(n2)
							break
						}
						ok2 := checkRecovered(n2, l2, b-1, b) && finish(n2, l2)
						w.Forget(n2)
						if !ok2 {
							break
						}
					}
				}
				if run.Failed() {
					break
				}
			}
		}
	}
	// 3. genesis initialisation crash points
	if !run.Failed() {
		for _, p := range append(append([]string{}, genesisPoints...), submitPoints...) {
			label := "genesis crash@" + p
			n := scratch(-1, "gcrash")
			armCrash(p)
			crashed, err := crashing(func() error { return n.Open() })
			disarm()
			if !crashed {
				panic(fmt.Sprintf("%s: crash point not reached (err=%v)", label, err))
			}
			run.Fault("crash:" + p)
			run.Probe("genesis_crash")
			cases++
			n.Close()
			if err := n.Open(); err != nil {
				run.Fail("C12", "restart-failed", "%s: restart failed: %v", label, err)
				w.Forget(n)
				break
			}
			okc := checkRecovered(n, label, 0) && finish(n, label)
			w.Forget(n)
			if !okc {
				break
			}
		}
	}
	run.Probes["__evals"] = cases
	if interesting {
		var sig []byte
		for _, rec := range s.Blocks {
			h := rec.Block.Hash()
			sig = append(sig, h[:]...)
		}
		run.Nontrivial(sig)
	}
	run.Sample = map[string]interface{}{"validators": s.NVal, "blocks": B, "crash_cases": cases, "plan": planStrings(run.Plan)}
}

func planStrings(p *kernel.Plan) []string {
	var out []string
	for _, s := range p.Steps {
		out = append(out, s.String())
	}
	return out
}
