package e1

import (
	"bytes"
	"fmt"
	"sort"

	"github.com/polynetwork/poly/common"
	"github.com/polynetwork/poly/core/ledger"
	cstates "github.com/polynetwork/poly/core/states"
	"github.com/polynetwork/poly/core/store"
	scom "github.com/polynetwork/poly/core/store/common"
	"github.com/polynetwork/poly/core/store/overlaydb"
	"github.com/polynetwork/poly/core/types"
	"github.com/polynetwork/poly/native/event"

	"polysim/chain"
)

// View is contract state as the implementation holds it after a prefix of a block's
// transactions: the block's write set so far layered over the committed ledger.
type View struct {
	L  *ledger.Ledger
	WS *overlaydb.MemDB
}

func rawKey(contract common.Address, key []byte) []byte {
	k := make([]byte, 0, 1+len(contract)+len(key))
	k = append(k, byte(scom.ST_STORAGE))
	k = append(k, contract[:]...)
	return append(k, key...)
}

// Get returns the stored value (nil if absent).
func (v View) Get(contract common.Address, key ...[]byte) []byte {
	k := bytes.Join(key, nil)
	if v.WS != nil {
		raw, unknown := v.WS.Get(rawKey(contract, k))
		if !unknown {
			if len(raw) == 0 {
				return nil
			}
			val, err := cstates.GetValueFromRawStorageItem(raw)
			if err != nil {
				return nil
			}
			if val == nil {
				val = []byte{}
			}
			return val
		}
	}
	val, err := v.L.GetStorageItem(contract, k)
	if err != nil {
		return nil
	}
	if val == nil {
		val = []byte{}
	}
	return val
}

func (v View) Has(contract common.Address, key ...[]byte) bool { return v.Get(contract, key...) != nil }

// TxTrace is the observed transition of one transaction inside a block.
type TxTrace struct {
	P      *PendingTx // nil for a system transaction inserted by the producer
	Tx     *types.Transaction
	Index  int
	Height uint32
	Time   uint32 // timestamp of the block under execution (what native.GetTime() returns)
	OK     bool
	Events []*event.NotifyEventInfo
	Pre    View
	Post   View
	Writes map[string][]byte // raw keys whose write-set entry changed in this tx (empty value = delete)
	Cross  []common.Uint256
}

// HasEvent reports whether the transaction emitted an event whose first state equals name.
func (t *TxTrace) HasEvent(name string) bool {
	for _, e := range t.Events {
		if st, ok := e.States.([]interface{}); ok && len(st) > 0 {
			if s, ok := st[0].(string); ok && s == name {
				return true
			}
		}
	}
	return false
}

func wsMap(ws *overlaydb.MemDB) map[string][]byte {
	m := map[string][]byte{}
	if ws != nil {
		ws.ForEach(func(k, v []byte) { m[string(k)] = append([]byte{}, v...) })
	}
	return m
}

func diffWS(a, b map[string][]byte) map[string][]byte {
	out := map[string][]byte{}
	for k, v := range b {
		if av, ok := a[k]; !ok || !bytes.Equal(av, v) {
			out[k] = v
		}
	}
	for k := range a {
		if _, ok := b[k]; !ok {
			out[k] = nil // cannot happen for an append-only write set; reported by the caller
		}
	}
	return out
}

func sortedKeys(m map[string][]byte) []string {
	ks := make([]string, 0, len(m))
	for k := range m {
		ks = append(ks, k)
	}
	sort.Strings(ks)
	return ks
}

// BlockTrace is the per-transaction trace of a block that is about to be committed.
type BlockTrace struct {
	Block   *types.Block
	Txs     []*TxTrace
	Results []store.ExecuteResult // Results[i] = execution of the first i transactions
	Problem string                // prefix-consistency problem found while tracing (determinism/isolation)
	Panic   string                // a native handler panicked while executing transaction PanicTx (the node would crash)
	PanicTx int
	PanicP  *PendingTx
}

func withTxs(blk *types.Block, txs []*types.Transaction) *types.Block {
	h := *blk.Header
	return &types.Block{Header: &h, Transactions: txs}
}

// Trace executes every prefix of blk's transactions on node n (without committing) and
// returns the observed per-transaction transitions.
func (s *Sim) Trace(n *chain.Node, blk *types.Block, pend []*PendingTx) (*BlockTrace, error) {
	n.Use()
	bt := &BlockTrace{Block: blk}
	byHash := map[common.Uint256]*PendingTx{}
	for _, p := range pend {
		if _, dup := byHash[p.Tx.Hash()]; !dup {
			byHash[p.Tx.Hash()] = p
		}
	}
	k := len(blk.Transactions)
	for i := 0; i <= k; i++ {
		res, err, pan := safeExecute(n, withTxs(blk, blk.Transactions[:i]))
		if pan != nil {
			// a native handler panicked: in the node this takes the process down while it executes the
			// block. The transaction that did it is the last one of this prefix.
			bt.Panic, bt.PanicTx = fmt.Sprint(pan), i-1
			if i > 0 {
				bt.PanicP = byHash[blk.Transactions[i-1].Hash()]
			}
			return bt, nil
		}
		if err != nil {
			return nil, fmt.Errorf("prefix %d: %v", i, err)
		}
		bt.Results = append(bt.Results, res)
	}
	prev := wsMap(bt.Results[0].WriteSet)
	for i := 0; i < k; i++ {
		ra, rb := bt.Results[i], bt.Results[i+1]
		cur := wsMap(rb.WriteSet)
		t := &TxTrace{Tx: blk.Transactions[i], Index: i, Height: blk.Header.Height, Time: blk.Header.Timestamp, Pre: View{n.L, ra.WriteSet}, Post: View{n.L, rb.WriteSet}, Writes: diffWS(prev, cur)}
		t.P = byHash[t.Tx.Hash()]
		if len(rb.Notify) != i+1 || len(ra.Notify) != i {
			return nil, fmt.Errorf("notify list length %d/%d for prefix %d", len(ra.Notify), len(rb.Notify), i)
		}
		t.OK = rb.Notify[i].State == event.CONTRACT_STATE_SUCCESS
		t.Events = rb.Notify[i].Notify
		if len(rb.CrossHashes) < len(ra.CrossHashes) {
			bt.Problem = fmt.Sprintf("cross hashes shrank from prefix %d to %d", i, i+1)
		} else {
			for j := range ra.CrossHashes {
				if ra.CrossHashes[j] != rb.CrossHashes[j] {
					bt.Problem = fmt.Sprintf("cross hash %d changed between prefix %d and %d", j, i, i+1)
				}
			}
			t.Cross = rb.CrossHashes[len(ra.CrossHashes):]
		}
		for j := 0; j < i; j++ {
			if ra.Notify[j].State != rb.Notify[j].State || len(ra.Notify[j].Notify) != len(rb.Notify[j].Notify) {
				bt.Problem = fmt.Sprintf("outcome of tx %d changed between prefix %d and %d", j, i, i+1)
			}
		}
		bt.Txs = append(bt.Txs, t)
		prev = cur
	}
	return bt, nil
}

func safeExecute(n *chain.Node, blk *types.Block) (res store.ExecuteResult, err error, pan interface{}) {
	defer func() {
		if e := recover(); e != nil {
			if _, crash := e.(crashSentinel); crash {
				panic(e) // simulated process crash (C12), not a handler panic
			}
			pan = e
		}
	}()
	res, err = n.L.ExecuteBlock(blk)
	return
}
