package e1

import (
	"bytes"
	"crypto/sha256"
	"fmt"
	"sort"

	"github.com/ontio/ontology-crypto/keypair"
	"github.com/polynetwork/poly/account"
	"github.com/polynetwork/poly/common"
	"github.com/polynetwork/poly/core/ledger"
	"github.com/polynetwork/poly/core/signature"
	"github.com/polynetwork/poly/core/store/ledgerstore"
	"github.com/polynetwork/poly/core/types"

	"polysim/chain"
	"polysim/kernel"
)

// naive RFC 6962 tree hash over 32-byte leaves (reference for the block accumulator root).
func naiveRoot(leaves []common.Uint256) common.Uint256 {
	switch len(leaves) {
	case 0:
		return sha256.Sum256(nil)
	case 1:
		return sha256.Sum256(append([]byte{0}, leaves[0][:]...))
	}
	k := 1
	for k*2 < len(leaves) {
		k *= 2
	}
	l, r := naiveRoot(leaves[:k]), naiveRoot(leaves[k:])
	b := append([]byte{1}, l[:]...)
	return sha256.Sum256(append(b, r[:]...))
}

func cloneHeader(h *types.Header) *types.Header {
	return &types.Header{Version: h.Version, ChainID: h.ChainID, PrevBlockHash: h.PrevBlockHash, TransactionsRoot: h.TransactionsRoot,
		CrossStateRoot: h.CrossStateRoot, BlockRoot: h.BlockRoot, Timestamp: h.Timestamp, Height: h.Height, ConsensusData: h.ConsensusData,
		ConsensusPayload: append([]byte{}, h.ConsensusPayload...), NextBookkeeper: h.NextBookkeeper,
		Bookkeepers: append(h.Bookkeepers[:0:0], h.Bookkeepers...), SigData: append(h.SigData[:0:0], h.SigData...)}
}

// requiredSigs is the threshold from the property text.
func requiredSigs(n int, legacy bool) int {
	if legacy {
		return n - (6*n)/7
	}
	return n - (n-1)/3
}

// requiredFor: threshold for the block after tip. Non-main networks: legacy. Main net: legacy up
// to the (knob) height, strict above. The text speaks of the block's height, the code tests the
// current header height, i.e. one block later; at that single boundary height either rule is
// tolerated by the oracle (the smaller threshold is required).
func (s *Sim) requiredFor(tip uint32, n int) int {
	if s.W.NetworkID != 1 {
		return requiredSigs(n, true)
	}
	k := ledgerstore.VerifLegacyQuorumHeight
	switch {
	case tip+1 <= k:
		return requiredSigs(n, true)
	case tip == k:
		a, b := requiredSigs(n, true), requiredSigs(n, false)
		if a < b {
			return a
		}
		return b
	}
	return requiredSigs(n, false)
}

// validSuccessor evaluates the property's acceptance conditions for blk on node nd with the
// reference rules. It returns the name of the first broken rule ("" = valid successor).
func (s *Sim) validSuccessor(nd *chain.Node, blk *types.Block, members []string) string {
	l := nd.L
	tip := l.GetCurrentBlockHeight()
	tipHdr, _ := l.GetHeaderByHeight(tip)
	h := blk.Header
	if h.Height != tip+1 {
		return "wrong-height"
	}
	if h.PrevBlockHash != tipHdr.Hash() {
		return "wrong-parent"
	}
	if h.Timestamp <= tipHdr.Timestamp {
		return "bad-timestamp"
	}
	leaves := []common.Uint256{{}} // leaf 0: previous hash of genesis
	leaves = append(leaves, s.W.Genesis.Hash())
	for i := 0; i < int(tip); i++ {
		leaves = append(leaves, s.Blocks[i].Block.Hash())
	}
	if naiveRoot(leaves) != h.BlockRoot {
		return "bad-block-root"
	}
	// quorum of distinct members with a valid signature over the block hash
	need := s.requiredFor(tip, len(members))
	isMember := map[string]bool{}
	for _, m := range members {
		isMember[m] = true
	}
	_ = isMember
	if good := goodSigners(h, members); good < need {
		return fmt.Sprintf("below-quorum(%d<%d)", good, need)
	}
	return ""
}

func sigOK(pk keypair.PublicKey, data, sig []byte) bool {
	return signature.Verify(pk, data, sig) == nil
}

// sealRaw sets bookkeepers and signatures explicitly (sigs may be over another hash).
func sealRaw(blk *types.Block, keys []*account.Account, signers []*account.Account, over []byte) {
	hash := blk.Hash()
	data := hash[:]
	if over != nil {
		data = over
	}
	blk.Header.Bookkeepers, blk.Header.SigData = nil, nil
	for _, a := range keys {
		blk.Header.Bookkeepers = append(blk.Header.Bookkeepers, a.PublicKey)
	}
	for _, a := range signers {
		sg, err := signature.Sign(a, data)
		if err != nil {
			panic(err)
		}
		blk.Header.SigData = append(blk.Header.SigData, sg)
	}
}

func (s *Sim) accountsOf(ids []string) []*account.Account {
	var out []*account.Account
	for _, id := range ids {
		if a := s.W.ByPub(id); a != nil {
			out = append(out, a)
		}
	}
	return out
}

// badSubmission builds the next block from the pending transactions (without consuming
// them), damages it as the step says, submits it to a node through one of the entry points
// and checks the outcome. kind<20: structural damage (C13); kind>=20: seal damage (C14).
func (s *Sim) badSubmission(st kernel.Step) {
	run := s.R
	kind := int(abs(st.Arg(0))) % 31
	path := int(abs(st.Arg(1))) % 3
	nd := s.Nodes[int(abs(st.Arg(2)))%len(s.Nodes)]
	x := abs(st.Arg(3))
	nd.Use()
	if int(nd.Height()) != len(s.Blocks) {
		// a node left the engine's chain (only possible after a reported violation): stop using it
		s.Dead = true
		return
	}
	vs, err := nd.CurrentSet()
	if err != nil {
		panic(err)
	}
	members := vs.Peers
	memberAcc := s.accountsOf(members)
	var txs []*types.Transaction
	if !(kind == 9 || kind == 10 || kind == 22 || kind == 30) { // blocks that may be committed carry no plan transactions
		for _, p := range s.Pending {
			txs = append(txs, p.Tx)
		}
	}
	blk, err := nd.BuildBlock(&chain.BlockSpec{Txs: txs, Nonce: uint64(x)})
	if err != nil {
		panic(err)
	}
	hdr := cloneHeader(blk.Header)
	blk = &types.Block{Header: hdr, Transactions: blk.Transactions}
	tip := nd.Height()
	need := s.requiredFor(tip, len(members))
	reseal := true
	name := ""
	switch kind {
	case 0: // exact re-submission of the committed tip
		if tip == 0 {
			return
		}
		blk, reseal, name = s.Blocks[tip-1].Block, false, "resubmit-tip"
	case 1: // re-submission of an older committed block
		if tip < 2 {
			return
		}
		blk, reseal, name = s.Blocks[int(x)%int(tip-1)].Block, false, "resubmit-older"
	case 2:
		hdr.Height = tip + 2
		name = "skip-height"
	case 3:
		hdr.PrevBlockHash = sha256.Sum256([]byte{byte(x)})
		if tip >= 1 && x%2 == 0 {
			ph, _ := nd.L.GetHeaderByHeight(tip - 1)
			hdr.PrevBlockHash = ph.Hash()
		}
		name = "wrong-parent"
	case 4:
		ph, _ := nd.L.GetHeaderByHeight(tip)
		hdr.Timestamp = ph.Timestamp - uint32(x%2)
		name = "timestamp-not-later"
	case 5:
		hdr.BlockRoot[int(x)%32] ^= 1 << (uint(x) % 8)
		name = "block-root-flipped"
	case 6: // sibling of the tip: valid-looking block at the tip's own height
		if tip == 0 {
			return
		}
		ph, _ := nd.L.GetHeaderByHeight(tip - 1)
		hdr.Height, hdr.PrevBlockHash, hdr.Timestamp = tip, ph.Hash(), ph.Timestamp+2
		hdr.BlockRoot = s.Blocks[tip-1].Block.Header.BlockRoot
		hdr.ConsensusData ^= 0xabcdef
		name = "fork-sibling-of-tip"
	case 7:
		name = "wrong-state-root"
		path = 0
	case 8:
		hdr.Height = 0
		name = "height-zero"
	case 9, 10:
		name = "valid-control"
	case 20:
		sealRaw(blk, nil, nil, nil)
		reseal, name = false, "no-signatures"
	case 21: // one fewer distinct member than required
		k := need - 1
		sealRaw(blk, memberAcc[:k], memberAcc[:k], nil)
		reseal, name = false, "one-below-threshold"
	case 22: // exactly the threshold
		sealRaw(blk, memberAcc[:need], memberAcc[:need], nil)
		reseal, name = false, "exactly-threshold"
	case 23: // one member listed and signing repeatedly to reach the count
		var ks []*account.Account
		for i := 0; i < need+1; i++ {
			ks = append(ks, memberAcc[int(x)%len(memberAcc)])
		}
		sealRaw(blk, ks, ks, nil)
		reseal, name = false, "duplicated-member"
	case 24: // outsiders only
		var ks []*account.Account
		for i := 0; i < need+1; i++ {
			ks = append(ks, s.Users[i%len(s.Users)])
		}
		sealRaw(blk, ks, ks, nil)
		reseal, name = false, "foreign-keys"
	case 25: // members, but signatures are over something else
		other := sha256.Sum256([]byte("other"))
		sealRaw(blk, memberAcc, memberAcc, other[:])
		reseal, name = false, "signatures-over-other-hash"
	case 26: // threshold-1 members plus an outsider
		ks := append(append([]*account.Account{}, memberAcc[:need-1]...), s.Users[int(x)%len(s.Users)])
		sealRaw(blk, ks, ks, nil)
		reseal, name = false, "members-plus-foreign"
	case 27: // enough bookkeepers listed, one signature missing
		sealRaw(blk, memberAcc[:need], memberAcc[:need-1], nil)
		reseal, name = false, "bookkeepers-without-signatures"
	case 28: // members of an earlier set that are no longer members
		var ks []*account.Account
		cur := map[string]bool{}
		for _, m := range members {
			cur[m] = true
		}
		for _, old := range s.pastMembers() {
			if !cur[old] {
				ks = append(ks, s.W.ByPub(old))
			}
		}
		if len(ks) == 0 {
			return
		}
		run.Probe("seal_by_former_members")
		sealRaw(blk, ks, ks, nil)
		reseal, name = false, "former-members"
	case 29: // members of the announced next set that are not yet members
		cfg, _, err := nd.PendingConfig(vs)
		if err != nil || cfg == nil {
			return
		}
		cur := map[string]bool{}
		for _, m := range members {
			cur[m] = true
		}
		var ks []*account.Account
		for _, p := range cfg.Peers {
			if !cur[p.ID] && s.W.ByPub(p.ID) != nil {
				ks = append(ks, s.W.ByPub(p.ID))
			}
		}
		if len(ks) == 0 {
			return
		}
		run.Probe("seal_by_future_members")
		sealRaw(blk, ks, ks, nil)
		reseal, name = false, "future-members"
	case 30: // valid signatures first, then garbage entries
		ks := append(append([]*account.Account{}, memberAcc...), s.Users[0])
		sealRaw(blk, ks, memberAcc, nil)
		reseal, name = false, "extra-unsigned-bookkeeper"
	case 31: // a full quorum of members listed first, then an outsider whose signature replaces one member's
		if need < 1 || len(memberAcc) < need {
			return
		}
		out := s.Users[int(x)%len(s.Users)]
		ks := append(append([]*account.Account{}, memberAcc[:need]...), out)
		sg := append(append([]*account.Account{}, memberAcc[:need-1]...), out)
		sealRaw(blk, ks, sg, nil)
		reseal, name = false, "foreign-key-listed-after-quorum"
	case 32: // a full quorum of members listed first, then one of them again, signing twice in place of another
		if need < 2 || len(memberAcc) < need {
			return
		}
		ks := append(append([]*account.Account{}, memberAcc[:need]...), memberAcc[need-1])
		sg := append(append([]*account.Account{}, memberAcc[1:need]...), memberAcc[need-1])
		sealRaw(blk, ks, sg, nil)
		reseal, name = false, "member-repeated-after-quorum"
	default:
		return
	}
	if reseal {
		if err := chain.Seal(blk, memberAcc); err != nil {
			panic(err)
		}
	}
	before := observe(nd)
	setBefore := fmt.Sprint(members)
	verdict := s.validSuccessor(nd, blk, members)
	// state root a Byzantine peer would send along on the sync path
	root := common.Uint256{}
	if res, err := nd.L.ExecuteBlock(blk); err == nil {
		root = res.MerkleRoot
	}
	if kind == 7 {
		root[int(x)%32] ^= 0x40
		verdict = "wrong-state-root"
	}
	var serr error
	switch path {
	case 0:
		serr = nd.L.AddBlock(blk, root)
	case 1:
		res, err := nd.L.ExecuteBlock(blk)
		if err != nil {
			serr = err
		} else {
			serr = nd.L.SubmitBlock(blk, res)
		}
	case 2:
		serr = nd.L.AddHeaders([]*types.Header{blk.Header})
		if serr == nil && verdict == "" {
			serr = nd.L.AddBlock(blk, root)
		}
	}
	run.Fault("bad:" + name)
	accepted := nd.L.GetCurrentBlockHash() == blk.Hash() && nd.Height() == blk.Header.Height && nd.Height() == tip+1
	run.Logf("submission %s path=%d node=%s verdict=%q accepted=%v err=%v", name, path, nd.Name, verdict, accepted, serr != nil)
	prop := "C13"
	if kind >= 20 || (len(verdict) > 5 && verdict[:5] == "below") {
		prop = "C14"
	}
	if accepted {
		if verdict != "" {
			run.Fail(prop, "accepted-invalid-successor:"+ruleName(verdict), "%s via path %d on %s was committed although it breaks the rule %q", name, path, nd.Name, verdict)
			s.Dead = true
			return
		}
		run.Probe("valid_submission_accepted:" + name)
		// the node moved ahead on its own: bring the other replicas (and the engine's log) along
		res, _ := nd.L.GetStateMerkleRoot(blk.Header.Height)
		s.adoptBlock(nd, blk, res)
		return
	}
	if verdict == "" && kind != 0 && kind != 1 {
		if kind == 22 || kind == 9 || kind == 10 || kind == 30 {
			// completeness is not promised by C13/C14, but a valid successor with an honest
			// quorum that is refused means the ledger cannot grow: report as C13 liveness.
			if kind != 30 {
				run.Fail("C13", "valid-successor-rejected", "%s via path %d on %s: valid successor rejected: %v", name, path, nd.Name, serr)
			}
		}
	}
	after := observe(nd)
	if path == 2 && after != before {
		// a header-only submission may legitimately advance the header index when the header itself is valid
		hv := s.validSuccessor(nd, &types.Block{Header: blk.Header}, members)
		if hv == "" || hv == "bad-block-root" {
			run.Probe("header_accepted_ahead_of_block")
			s.dropHeaderLead(nd)
			return
		}
	}
	if after != before {
		run.Fail(prop, "rejected-submission-changed-state", "%s via path %d on %s was not committed but observables changed\n before %s\n after  %s", name, path, nd.Name, before, after)
	}
	vs2, err := nd.CurrentSet()
	if err != nil || fmt.Sprint(vs2.Peers) != setBefore {
		run.Fail("C14", "set-in-force-changed-without-accepted-block", "%s: validator set derived from headers changed", name)
	}
	s.badSince++
}

func ruleName(v string) string {
	if len(v) > 5 && v[:5] == "below" {
		return "below-quorum"
	}
	return v
}

// pastMembers lists every peer id that was in some earlier consensus set.
func (s *Sim) pastMembers() []string {
	seen := map[string]bool{}
	var out []string
	for _, set := range s.SetHistory {
		for _, id := range set {
			if !seen[id] {
				seen[id] = true
				out = append(out, id)
			}
		}
	}
	return out
}

// adoptBlock records a block that one node committed through an injected (valid) submission
// and brings all other nodes to it.
func (s *Sim) adoptBlock(nd *chain.Node, blk *types.Block, root common.Uint256) {
	nd.Use()
	res, _ := nd.L.ExecuteBlock(blk) // height<=current: returns the stored root only
	rec := &BlockRec{Block: blk}
	rec.Result.MerkleRoot = root
	_ = res
	s.Blocks = append(s.Blocks, rec)
	for _, o := range s.Nodes {
		if o == nd || o == s.lagNode() {
			continue
		}
		for int(o.Height()) < len(s.Blocks) {
			b := s.Blocks[o.Height()]
			before := o.Height()
			err := o.Sync(b.Block, b.Result.MerkleRoot)
			if err == nil && o.Height() == before {
				s.R.Fail("C13", "valid-successor-silently-not-applied", "node %s returned success for block %d but did not apply it", o.Name, b.Block.Header.Height)
				s.Dead = true
				return
			}
			if err != nil {
				s.R.Fail("C16", "replica-rejected-block", "node %s rejected block %d committed by %s: %v", o.Name, b.Block.Header.Height, nd.Name, err)
				return
			}
		}
	}
	s.noteSet()
}

// dropHeaderLead restarts a node whose header index ran ahead of its blocks (header-first
// sync of a header whose block never arrives), which resets the index to the block height.
func (s *Sim) dropHeaderLead(nd *chain.Node) {
	nd.Close()
	if err := nd.Open(); err != nil {
		s.R.Fail("C12", "clean-restart-failed", "node %s failed to restart: %v", nd.Name, err)
		s.Dead = true
	}
}

func (s *Sim) noteSet() {
	vs, err := s.Prod().CurrentSet()
	if err != nil {
		return
	}
	if len(s.SetHistory) == 0 || fmt.Sprint(s.SetHistory[len(s.SetHistory)-1]) != fmt.Sprint(vs.Peers) {
		s.SetHistory = append(s.SetHistory, vs.Peers)
		if len(s.SetHistory) > 1 {
			s.R.Probe("validator_set_changed")
		}
	}
}

// checkLookups: after a commit, lookups by height and by hash return the block and its transactions.
func (s *Sim) checkLookups(rec *BlockRec) {
	h := rec.Block.Header.Height
	for _, nd := range s.Nodes {
		if nd == s.lagNode() && nd.L.GetCurrentBlockHeight() < h {
			continue
		}
		s.lookupsOn(nd, rec, true)
	}
}

// lookupsOn: node nd has committed rec; lookups by height and by hash return that block and its
// transactions (tip: rec must also be nd's current block).
func (s *Sim) lookupsOn(nd *chain.Node, rec *BlockRec, tip bool) {
	run := s.R
	h := rec.Block.Header.Height
	l := nd.L
	if tip && (l.GetCurrentBlockHeight() != h || l.GetCurrentBlockHash() != rec.Block.Hash()) {
		run.Fail("C13", "tip-not-the-committed-block", "%s: tip (%d,%x) is not the committed block (%d,%x)", nd.Name, l.GetCurrentBlockHeight(), l.GetCurrentBlockHash(), h, rec.Block.Hash())
		return
	}
	if got := l.GetBlockHash(h); got != rec.Block.Hash() {
		run.Fail("C13", "lookup-by-height-wrong", "%s: hash at height %d is %x, committed block is %x", nd.Name, h, got, rec.Block.Hash())
	}
	if hd, err := l.GetHeaderByHeight(h); err != nil || hd == nil || hd.Hash() != rec.Block.Hash() {
		run.Fail("C13", "lookup-by-height-wrong", "%s: header at height %d is not the committed block's (%v)", nd.Name, h, err)
	}
	b1, err1 := l.GetBlockByHeight(h)
	b2, err2 := l.GetBlockByHash(rec.Block.Hash())
	if err1 != nil || err2 != nil || b1 == nil || b2 == nil || b1.Hash() != rec.Block.Hash() || b2.Hash() != rec.Block.Hash() ||
		len(b1.Transactions) != len(rec.Block.Transactions) || len(b2.Transactions) != len(rec.Block.Transactions) {
		run.Fail("C13", "block-lookup-wrong", "%s: block %d not returned by height/hash lookups (%v %v)", nd.Name, h, err1, err2)
		return
	}
	if !bytes.Equal(canonBlock(b1), canonBlock(rec.Block)) {
		what := ""
		if !bytes.Equal(b1.Header.ToArray(), rec.Block.Header.ToArray()) {
			what += " header(with seal)"
		}
		for i := range b1.Transactions {
			if !bytes.Equal(canonTx(b1.Transactions[i]), canonTx(rec.Block.Transactions[i])) {
				// The ledger stores transactions by hash and does not deduplicate (the pool and the
				// validators do): a transaction with the same hash but other witness bytes that a
				// later block of the workload includes again replaces the stored copy.
				if !tip && b1.Transactions[i].Hash() == rec.Block.Transactions[i].Hash() && s.reincluded(rec.Block.Transactions[i].Hash(), h) {
					run.Probe("historic_block_holds_reincluded_tx")
					continue
				}
				what += fmt.Sprintf(" tx[%d]", i)
			}
		}
		if what != "" {
			run.Fail("C13", "stored-block-differs", "%s: stored block %d differs from the committed one in:%s", nd.Name, h, what)
		}
	}
	for i, tx := range rec.Block.Transactions {
		got, gh, err := l.GetTransactionWithHeight(tx.Hash())
		if err != nil || got == nil || got.Hash() != tx.Hash() || (gh != h && !s.dupTx(tx.Hash(), h) && !(!tip && s.reincluded(tx.Hash(), h))) {
			run.Fail("C13", "transaction-lookup-wrong", "%s: tx %d of block %d lookup: err=%v height=%d", nd.Name, i, h, err, gh)
		}
	}
}

// canonTx / canonBlock: byte form used to compare a looked-up block with the committed one.
// Witness public keys are compared as a set: GetSignatureAddresses sorts Sig.PubKeys of the
// in-memory transaction in place during execution, while the block store keeps the received
// bytes (tx.Raw), so a node serving the block from its cache and one serving it from disk
// legitimately differ in the order of a multi-signature's keys (the hash covers neither).
func canonTx(tx *types.Transaction) []byte {
	sink := common.NewZeroCopySink(nil)
	tx.SerializeUnsigned(sink)
	for _, sg := range tx.Sigs {
		sink.WriteUint16(sg.M)
		var ks []string
		for _, k := range sg.PubKeys {
			ks = append(ks, string(keypair.SerializePublicKey(k)))
		}
		sort.Strings(ks)
		for _, k := range ks {
			sink.WriteVarBytes([]byte(k))
		}
		for _, d := range sg.SigData {
			sink.WriteVarBytes(d)
		}
	}
	return sink.Bytes()
}

func canonBlock(b *types.Block) []byte {
	out := append([]byte{}, b.Header.ToArray()...)
	for _, tx := range b.Transactions {
		out = append(out, canonTx(tx)...)
	}
	return out
}

// reincluded: the transaction is also part of another committed block (any height).
func (s *Sim) reincluded(h common.Uint256, height uint32) bool {
	for _, rec := range s.Blocks {
		if rec.Block.Header.Height == height {
			continue
		}
		for _, tx := range rec.Block.Transactions {
			if tx.Hash() == h {
				return true
			}
		}
	}
	return false
}

// dupTx: the same transaction may have been included in an earlier block as well (the ledger
// itself does not deduplicate; that is the pool's job), in which case the lookup may name either.
func (s *Sim) dupTx(h common.Uint256, height uint32) bool {
	for _, rec := range s.Blocks {
		if rec.Block.Header.Height >= height {
			break
		}
		for _, tx := range rec.Block.Transactions {
			if tx.Hash() == h {
				return true
			}
		}
	}
	return false
}

var _ = ledger.DefLedger
