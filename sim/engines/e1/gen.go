package e1

import (
	"polysim/kernel"
)

// GenCfg biases the shared E1 workload generator (swarm style: weights vary per run).
type GenCfg struct {
	NVal     int
	Steps    int
	MaxBlock int // max transactions per block
	W        map[string]int
}

func S(op string, a ...int64) kernel.Step { return kernel.Step{Op: op, A: a} }

// quorum = ceil(2n/3): number of distinct approvals the generator issues in a "full round".
func quorum(n int) int { return (2*n + 2) / 3 }

// approvals emits a full (or deliberately short/over-long) approval round for op/target by
// distinct validators in random order, occasionally with repeats and outsiders mixed in.
func approvals(rng *kernel.RNG, op string, target int64, nval int) []kernel.Step {
	q := quorum(nval)
	switch rng.Intn(6) {
	case 0:
		q-- // one short
	case 1:
		q = nval // everybody
	}
	perm := rng.Perm(nval)
	var out []kernel.Step
	for i := 0; i < q && i < nval; i++ {
		out = append(out, S(op, target, int64(perm[i])))
		if rng.Chance(0.15) {
			out = append(out, S(op, target, int64(perm[rng.Intn(i+1)]))) // repeat voter
		}
		if rng.Chance(0.1) {
			out = append(out, S(op, target, int64(nval+rng.Intn(nCands+nUsers)))) // non-validator
		}
	}
	return out
}

// GenWorkload produces a list of transaction steps and "block" cuts.
func GenWorkload(rng *kernel.RNG, c GenCfg) []kernel.Step {
	weights := map[string]int{"chain": 4, "import": 6, "cand": 3, "relayer": 2, "node": 2, "priv": 2, "noise": 2, "sig": 1, "burst": 1, "delonly": 0, "twoepochs": 1, "returning": 1, "ripple": 1, "statevals": 1, "crossaction": 1, "ownervote": 1, "rejoin": 1, "updquit": 1, "candop": 1, "relayerdup": 0, "sigrotate": 1, "bigfail": 1, "fee": 1}
	for k, v := range c.W {
		weights[k] = v
	}
	// swarm: switch some families off entirely in some runs
	for _, k := range []string{"chain", "import", "cand", "relayer", "node", "priv", "noise", "sig", "burst", "delonly", "twoepochs", "returning", "ripple", "statevals", "crossaction", "ownervote", "rejoin", "updquit", "candop", "sigrotate", "bigfail", "fee"} {
		if _, forced := c.W[k]; !forced && rng.Chance(0.15) {
			weights[k] = 0
		}
	}
	var fams []string
	for _, k := range []string{"chain", "import", "cand", "relayer", "node", "priv", "noise", "sig", "burst", "delonly", "twoepochs", "returning", "ripple", "statevals", "crossaction", "ownervote", "rejoin", "updquit", "candop", "sigrotate", "bigfail", "fee"} {
		for i := 0; i < weights[k]; i++ {
			fams = append(fams, k)
		}
	}
	if len(fams) == 0 {
		fams = []string{"chain", "import"}
	}
	var txs []kernel.Step
	nv := int64(c.NVal)
	owner := map[int64]int64{} // plan-side guess of who registered chain id (biases owner-only steps)
	ownerOf := func(id int64) int64 {
		if o, ok := owner[id]; ok && rng.Chance(0.85) {
			return o
		}
		return int64(rng.Intn(nUsers))
	}
	regID := func() int64 { // a chain id that is probably registered
		if len(owner) > 0 && rng.Chance(0.8) {
			ids := make([]int64, 0, len(owner))
			for id := int64(0); id < 4; id++ {
				if _, ok := owner[id]; ok {
					ids = append(ids, id)
				}
			}
			return ids[rng.Intn(len(ids))]
		}
		return int64(rng.Intn(4))
	}
	// setup preamble: some chains registered and approved before the mixed workload starts
	if rng.Chance(0.65) {
		k := 1 + rng.Intn(3)
		for id := int64(0); id < int64(k); id++ {
			o := int64(rng.Intn(nUsers))
			owner[id] = o
			txs = append(txs, S("regchain", id, 0, o, 0))
			perm := rng.Perm(c.NVal)
			for i := 0; i < quorum(c.NVal); i++ {
				txs = append(txs, S("approvechain", id, int64(perm[i])))
			}
		}
	}
	anyone := func() int64 { return int64(rng.Intn(c.NVal + nCands + nUsers)) }
	if weights["relayerdup"] > 0 && rng.Chance(0.5) {
		// at the very start the relayer request ids are known (0, 1): a relayer is registered, a
		// second request names the same (already registered) address and is approved, the relayer
		// is removed, and a stale approval round runs on the second request
		r, req := int64(rng.Intn(nUsers)), int64(rng.Intn(c.NVal+nCands+nUsers))
		full := func(op string, id int64) {
			for i, pi := range rng.Perm(c.NVal) {
				if i < quorum(c.NVal) {
					txs = append(txs, S(op, id, int64(pi)))
				}
			}
		}
		txs = append(txs, S("regrelayer", r, req))
		full("approverelayer", 0)
		txs = append(txs, S("regrelayer", r, req))
		full("approverelayer", 1)
		txs = append(txs, S("rmrelayer", r, req))
		full("approvermrelayer", 0)
		full("approverelayer", 1)
		txs = append(txs, S("cut"))
	}
	for len(txs) < c.Steps {
		switch fams[rng.Intn(len(fams))] {
		case "chain":
			id := int64(rng.Intn(4))
			switch rng.Intn(7) {
			case 0, 1, 2:
				o := int64(rng.Intn(nUsers))
				if _, ok := owner[id]; !ok {
					owner[id] = o
				}
				router := int64(0)
				if rng.Chance(0.1) {
					router = int64([]int{2, 3, 6}[rng.Intn(3)])
				}
				txs = append(txs, S("regchain", id, router, o, int64(rng.Intn(3))))
				if rng.Chance(0.8) {
					txs = append(txs, approvals(rng, "approvechain", id, c.NVal)...)
				}
			case 3:
				txs = append(txs, S("updchain", id, 0, ownerOf(id), int64(rng.Intn(3))))
				if rng.Chance(0.7) {
					txs = append(txs, approvals(rng, "approveupd", id, c.NVal)...)
				}
			case 4:
				txs = append(txs, S("quitchain", id, ownerOf(id)))
				if rng.Chance(0.7) {
					txs = append(txs, approvals(rng, "approvequit", id, c.NVal)...)
					if rng.Chance(0.5) {
						// re-register (often by somebody else) and run a stale approval round
						o := int64(rng.Intn(nUsers))
						owner[id] = o
						txs = append(txs, S("regchain", id, 0, o, int64(rng.Intn(3))))
						txs = append(txs, approvals(rng, "approvechain", id, c.NVal)...)
						if rng.Chance(0.6) {
							txs = append(txs, approvals(rng, "approvequit", id, c.NVal)...)
						}
					}
				}
			case 5:
				txs = append(txs, approvals(rng, []string{"approvechain", "approveupd", "approvequit"}[rng.Intn(3)], id, c.NVal)...)
			case 6:
				txs = append(txs, S([]string{"approvechain", "approveupd", "approvequit"}[rng.Intn(3)], id, anyone()))
			}
		case "burst":
			// k messages released inside one block (k cross-state leaves)
			if len(owner) == 0 {
				continue
			}
			k := 2 + rng.Intn(11)
			txs = append(txs, S("nocut-begin"))
			for j := 0; j < k; j++ {
				src, dst, msg := regID(), regID(), int64(6+rng.Intn(40))
				perm := rng.Perm(c.NVal)
				for i := 0; i < quorum(c.NVal); i++ {
					txs = append(txs, S("import", src, dst, msg, int64(perm[i]), 0))
				}
			}
			txs = append(txs, S("nocut-end"))
		case "import":
			src, dst, msg := regID(), regID(), int64(rng.Intn(6))
			variant := int64(0)
			if rng.Chance(0.1) {
				variant = 1
			}
			switch rng.Intn(4) {
			case 0, 1, 2:
				for _, st := range approvals(rng, "import", 0, c.NVal) {
					txs = append(txs, S("import", src, dst, msg, st.A[1], variant))
				}
			case 3:
				txs = append(txs, S("import", src, dst, msg, anyone(), variant))
			}
		case "ripple":
			// a source chain on the ripple router (validator votes like the vote router, plus an asset
			// binding per destination), its binding for one destination, vote rounds and replays
			id, dst, o := int64(rng.Intn(4)), int64(rng.Intn(4)), int64(rng.Intn(nUsers))
			owner[id] = o
			txs = append(txs, S("regchain", id, 23, o, int64(rng.Intn(3))))
			txs = append(txs, approvals(rng, "approvechain", id, c.NVal)...)
			if _, ok := owner[dst]; !ok && dst != id {
				owner[dst] = int64(rng.Intn(nUsers))
				txs = append(txs, S("regchain", dst, 0, owner[dst], 0))
				txs = append(txs, approvals(rng, "approvechain", dst, c.NVal)...)
			}
			if rng.Chance(0.85) {
				who := o
				if rng.Chance(0.15) {
					who = int64(rng.Intn(nUsers))
				}
				txs = append(txs, S("cut"), S("regasset", id, who, dst, int64(rng.Intn(3))))
			}
			txs = append(txs, S("cut"))
			for k := 0; k < 1+rng.Intn(3); k++ {
				msg := int64(rng.Intn(6))
				for _, st := range approvals(rng, "import", 0, c.NVal) {
					txs = append(txs, S("import", id, dst, msg, st.A[1], 0))
				}
				if rng.Chance(0.5) { // replay round, same or altered payload
					v := int64(rng.Intn(2))
					for _, st := range approvals(rng, "import", 0, c.NVal) {
						txs = append(txs, S("import", id, dst, msg, st.A[1], v))
					}
				}
			}
		case "statevals":
			// neo3 state-validator requests (ids count up from 0 per kind) with approval rounds,
			// including rounds on ids that were already applied and removals that empty the set
			own := int64(rng.Intn(nUsers))
			switch rng.Intn(5) {
			case 0, 1:
				txs = append(txs, S("regsv", int64(rng.Intn(7)), own))
				txs = append(txs, approvals(rng, "approvesv", int64(rng.Intn(3)), c.NVal)...)
			case 2:
				txs = append(txs, S("rmsv", int64(rng.Intn(7)), own))
				txs = append(txs, approvals(rng, "approvermsv", int64(rng.Intn(3)), c.NVal)...)
			case 3: // register a set, approve, remove exactly that set (empties it), approve, register again, approve, stale removal round
				set, id := int64(rng.Intn(7)), int64(rng.Intn(2))
				txs = append(txs, S("regsv", set, own))
				txs = append(txs, approvals(rng, "approvesv", id, c.NVal)...)
				txs = append(txs, S("rmsv", set, own))
				txs = append(txs, approvals(rng, "approvermsv", id, c.NVal)...)
				txs = append(txs, S("regsv", set, own))
				txs = append(txs, approvals(rng, "approvesv", id+1, c.NVal)...)
				txs = append(txs, approvals(rng, "approvermsv", id, c.NVal)...)
			case 4:
				txs = append(txs, approvals(rng, []string{"approvesv", "approvermsv"}[rng.Intn(2)], int64(rng.Intn(3)), c.NVal)...)
			}
		case "crossaction":
			// approvals of DIFFERENT requests of one action whose key lists start with the same key:
			// blackNode([a,b]) collects approvals below quorum, then blackNode([a,c]) / blackNode([a])
			// is approved; approvals of one request must never count for the other
			a := int64(rng.Intn(c.NVal))
			b, c2 := int64(rng.Intn(c.NVal)), int64(rng.Intn(c.NVal))
			perm := rng.Perm(c.NVal)
			k := 1 + rng.Intn(quorum(c.NVal))
			if k >= quorum(c.NVal) {
				k = quorum(c.NVal) - 1
			}
			for i := 0; i < k; i++ {
				txs = append(txs, S("blacknode", a, int64(perm[i]), b+1))
			}
			second := c2 + 1
			if rng.Chance(0.4) {
				second = 0
			}
			perm2 := rng.Perm(c.NVal)
			n2 := 1 + rng.Intn(quorum(c.NVal))
			for i := 0; i < n2; i++ {
				txs = append(txs, S("blacknode", a, int64(perm2[i]), second))
			}
		case "ownervote":
			// a candidate registered by an owner wallet different from its node key becomes a
			// consensus member; afterwards its OWNER WALLET (not a validator) votes in import rounds
			cnd, own := nv+int64(rng.Intn(nCands)), nv+int64(nCands)+int64(rng.Intn(nUsers))
			txs = append(txs, S("regcand", cnd, own))
			for i, pi := range rng.Perm(c.NVal) {
				if i < quorum(c.NVal) {
					txs = append(txs, S("approvecand", cnd, int64(pi)))
				}
			}
			txs = append(txs, S("cut"), S("commitdpos", 0, anyone()), S("cut"))
			src, dst, msg := regID(), regID(), int64(rng.Intn(6))
			perm := rng.Perm(c.NVal)
			for i := 0; i < quorum(c.NVal)-1 && i < len(perm); i++ {
				txs = append(txs, S("import", src, dst, msg, int64(perm[i]), 0))
			}
			txs = append(txs, S("import", src, dst, msg, own, 0))
			if rng.Chance(0.5) {
				txs = append(txs, S("import", src, dst, msg, cnd, 0))
			}
		case "delonly":
			// a transaction that only deletes (unRegisterCandidate by the right owner, a whitelisting
			// approval that fires) and is then failed by hook H3, followed by more work in the same block
			cnd := nv + int64(rng.Intn(nCands))
			own := nv + int64(nCands) + int64(rng.Intn(nUsers))
			txs = append(txs, S("regcand", cnd, own), S("nocut-begin"))
			u := S("unregcand", cnd, own)
			if rng.Chance(0.7) {
				u.S = "ff"
			}
			txs = append(txs, u, S("approvecand", cnd, int64(rng.Intn(c.NVal))), S("regchain", int64(rng.Intn(4)), 0, int64(rng.Intn(nUsers)), 0), S("nocut-end"))
			if rng.Chance(0.5) {
				p := int64(rng.Intn(c.NVal))
				txs = append(txs, approvals(rng, "blacknode", p, c.NVal)...)
				txs = append(txs, S("nocut-begin"))
				for _, a := range approvals(rng, "whitenode", p, c.NVal) {
					if rng.Chance(0.5) {
						a.S = "ff"
					}
					txs = append(txs, a)
				}
				txs = append(txs, S("regrelayer", int64(rng.Intn(nUsers)), int64(rng.Intn(c.NVal))), S("nocut-end"))
			}
		case "rejoin":
			// two NEW validators are approved one after the other, the first one quits and leaves at an
			// epoch change, then applies and is approved again: it must come back under its own index
			a := nv + int64(rng.Intn(nCands))
			b := nv + (a-nv+1+int64(rng.Intn(nCands-1)))%int64(nCands)
			ownA, ownB := nv+int64(nCands)+int64(rng.Intn(nUsers)), nv+int64(nCands)+int64(rng.Intn(nUsers))
			full := func(op string, target int64) {
				for i, pi := range rng.Perm(c.NVal) {
					if i < quorum(c.NVal) {
						txs = append(txs, S(op, target, int64(pi)))
					}
				}
			}
			txs = append(txs, S("regcand", a, ownA))
			full("approvecand", a)
			txs = append(txs, S("regcand", b, ownB))
			full("approvecand", b)
			txs = append(txs, S("cut"), S("commitdpos", 0, 0), S("cut"), S("quitnode", a, ownA), S("cut"), S("commitdpos", 0, 0), S("cut"), S("regcand", a, ownA))
			full("approvecand", a)
			if rng.Chance(0.5) {
				c3 := nv + int64(rng.Intn(nCands))
				txs = append(txs, S("regcand", c3, ownB))
				full("approvecand", c3)
			}
			txs = append(txs, S("cut"), S("commitdpos", 0, 0), S("cut"))
		case "updquit":
			// an update request and a quit request of the owner pending for the SAME chain at the same
			// time, approvals of the two interleaved: each action needs its own quorum
			id := regID()
			o := ownerOf(id)
			if _, ok := owner[id]; !ok {
				o = int64(rng.Intn(nUsers))
				owner[id] = o
				txs = append(txs, S("regchain", id, 0, o, int64(rng.Intn(3))))
				for i, pi := range rng.Perm(c.NVal) {
					if i < quorum(c.NVal) {
						txs = append(txs, S("approvechain", id, int64(pi)))
					}
				}
			}
			txs = append(txs, S("updchain", id, 0, o, int64(rng.Intn(3))), S("quitchain", id, o))
			first, second := "approvequit", "approveupd"
			if rng.Chance(0.5) {
				first, second = second, first
			}
			k := 1 + rng.Intn(quorum(c.NVal))
			if k >= quorum(c.NVal) {
				k = quorum(c.NVal) - 1
			}
			p1, p2 := rng.Perm(c.NVal), rng.Perm(c.NVal)
			for i := 0; i < k; i++ {
				txs = append(txs, S(first, id, int64(p1[i])))
			}
			for i := 0; i < quorum(c.NVal); i++ {
				txs = append(txs, S(second, id, int64(p2[i])))
			}
			for i := k; i < quorum(c.NVal); i++ {
				txs = append(txs, S(first, id, int64(p1[i])))
			}
		case "candop":
			// an approved candidate that is not yet a consensus member sits in the pool while
			// operator-only operations are signed by the multi-address over ALL active members
			cnd := nv + int64(rng.Intn(nCands))
			txs = append(txs, S("regcand", cnd, nv+int64(nCands)+int64(rng.Intn(nUsers))))
			for i, pi := range rng.Perm(c.NVal) {
				if i < quorum(c.NVal) {
					txs = append(txs, S("approvecand", cnd, int64(pi)))
				}
			}
			txs = append(txs, S("cut"))
			for k := 0; k < 1+rng.Intn(3); k++ {
				switch rng.Intn(3) {
				case 0:
					txs = append(txs, S("commitdpos", 5, anyone()))
				case 1:
					txs = append(txs, S("updateconfig", 5, anyone(), int64(rng.Intn(5))))
				case 2:
					txs = append(txs, S("blackchain", int64(rng.Intn(4)), 5, anyone()))
				}
				txs = append(txs, S("cut"))
			}
		case "returning":
			// a pool member leaves at an epoch change and applies again (it keeps its peer index),
			// is approved, and a stale approval round follows
			v := int64(rng.Intn(c.NVal))
			own := v
			if rng.Chance(0.3) {
				own = nv + int64(nCands) + int64(rng.Intn(nUsers))
			}
			txs = append(txs, S("quitnode", v, v), S("commitdpos", 0, 0), S("regcand", v, own))
			txs = append(txs, approvals(rng, "approvecand", v, c.NVal)...)
			if rng.Chance(0.7) {
				txs = append(txs, approvals(rng, "approvecand", v, c.NVal)...)
			}
		case "twoepochs":
			// two epoch-changing operations inside one block
			txs = append(txs, S("nocut-begin"))
			if rng.Chance(0.5) {
				txs = append(txs, S("commitdpos", 0, 0))
			} else {
				txs = append(txs, approvals(rng, "blacknode", int64(rng.Intn(c.NVal)), c.NVal)...)
			}
			txs = append(txs, approvals(rng, "blacknode", int64(rng.Intn(c.NVal)), c.NVal)...)
			if rng.Chance(0.3) {
				txs = append(txs, S("commitdpos", 0, 0))
			}
			txs = append(txs, S("nocut-end"))
		case "cand":
			cnd := nv + int64(rng.Intn(nCands))
			switch rng.Intn(6) {
			case 0, 1, 2:
				txs = append(txs, S("regcand", cnd, nv+int64(nCands)+int64(rng.Intn(nUsers))))
				if rng.Chance(0.8) {
					txs = append(txs, approvals(rng, "approvecand", cnd, c.NVal)...)
				}
			case 3:
				txs = append(txs, S("unregcand", cnd, nv+int64(nCands)+int64(rng.Intn(nUsers))))
			case 4:
				txs = append(txs, approvals(rng, "approvecand", cnd, c.NVal)...)
			case 5:
				txs = append(txs, S("approvecand", cnd, anyone()))
			}
		case "node":
			p := int64(rng.Intn(c.NVal + nCands))
			switch rng.Intn(4) {
			case 0:
				txs = append(txs, approvals(rng, "blacknode", p, c.NVal)...)
			case 1:
				txs = append(txs, approvals(rng, "whitenode", p, c.NVal)...)
			case 2:
				txs = append(txs, S("quitnode", p, anyone()))
			case 3:
				txs = append(txs, S("quitnode", p, p)) // a validator's genesis owner is itself
			}
		case "relayer":
			r := int64(rng.Intn(nUsers))
			switch rng.Intn(4) {
			case 0, 1:
				txs = append(txs, S("regrelayer", r, anyone()))
				if rng.Chance(0.8) {
					txs = append(txs, approvals(rng, "approverelayer", int64(rng.Intn(3)), c.NVal)...)
				}
			case 2:
				txs = append(txs, S("rmrelayer", r, anyone()))
				if rng.Chance(0.8) {
					txs = append(txs, approvals(rng, "approvermrelayer", int64(rng.Intn(3)), c.NVal)...)
				}
			case 3:
				txs = append(txs, approvals(rng, []string{"approverelayer", "approvermrelayer"}[rng.Intn(2)], int64(rng.Intn(3)), c.NVal)...)
			}
		case "priv":
			mode := int64(rng.Intn(6))
			if rng.Chance(0.5) {
				mode = 0
			}
			if rng.Chance(0.2) {
				// the operator switches automatic epoch changes off (extreme MaxBlockChangeView), an epoch
				// change is committed, and then epoch changes are attempted without the operator witness
				txs = append(txs, S("updateconfig", 0, anyone(), int64(5+rng.Intn(3))), S("cut"), S("commitdpos", 0, anyone()), S("cut"))
				for k := 0; k < 1+rng.Intn(3); k++ {
					txs = append(txs, S("commitdpos", int64(2+rng.Intn(3)), anyone()), S("cut"))
				}
				break
			}
			switch rng.Intn(4) {
			case 0:
				txs = append(txs, S("commitdpos", mode, anyone()))
			case 1:
				txs = append(txs, S("updateconfig", mode, anyone(), int64(rng.Intn(5))))
			case 2:
				txs = append(txs, S("blackchain", int64(rng.Intn(4)), mode, anyone()))
			case 3:
				txs = append(txs, S("whitechain", int64(rng.Intn(4)), mode, anyone()))
			}
		case "fee":
			// fee voting of a chain in rounds: votes below the quorum, then (sometimes) more than the
			// round timeout passes and a late vote closes the round and opens the next one; stale
			// and premature round numbers, outsiders and repeat voters in between
			ch := int64(rng.Intn(4))
			perm := rng.Perm(c.NVal)
			k := 1 + rng.Intn(quorum(c.NVal))
			if k >= quorum(c.NVal) {
				k = quorum(c.NVal) - 1
			}
			for i := 0; i < k; i++ {
				txs = append(txs, S("updatefee", ch, int64(perm[i]), 0, int64(rng.Intn(1000))))
			}
			if rng.Chance(0.15) {
				txs = append(txs, S("updatefee", ch, anyone(), int64(rng.Intn(3)), int64(rng.Intn(1000))))
			}
			txs = append(txs, S("cut"))
			if rng.Chance(0.7) {
				txs = append(txs, S("timejump", int64(301+rng.Intn(900))))
			} else {
				txs = append(txs, S("timejump", int64(1+rng.Intn(299))))
			}
			txs = append(txs, S("updatefee", ch, int64(perm[k%c.NVal]), 0, int64(rng.Intn(1000))), S("cut"))
			for i := 0; i < quorum(c.NVal); i++ {
				txs = append(txs, S("updatefee", ch, int64(perm[(k+1+i)%c.NVal]), 0, int64(rng.Intn(1000))))
				if rng.Chance(0.5) {
					txs = append(txs, S("cut"))
				}
			}
		case "sigrotate":
			// signatures for one subject are collected below the quorum, some of the signers then
			// leave the consensus set at an epoch change, and collection goes on: only signatures of
			// CURRENT validators count
			if c.NVal < 5 {
				break
			}
			subj := int64(rng.Intn(5))
			perm := rng.Perm(c.NVal)
			q := quorum(c.NVal)
			for i := 0; i < q-1; i++ {
				txs = append(txs, S("addsig", subj, int64(perm[i])))
			}
			leavers := 1
			if c.NVal >= 6 && rng.Chance(0.5) {
				leavers = 2
			}
			txs = append(txs, S("cut"))
			for i := 0; i < leavers; i++ {
				txs = append(txs, S("quitnode", int64(perm[i]), int64(perm[i])))
			}
			txs = append(txs, S("cut"), S("commitdpos", 0, 0), S("cut"))
			for i := q - 1; i < c.NVal; i++ {
				txs = append(txs, S("addsig", subj, int64(perm[i])))
			}
		case "bigfail":
			// a registration record far larger than the per-transaction write buffer; the approval
			// that reaches the quorum (it first updates the approval record, then writes the big
			// registered record) is failed after its handler ran
			id, o := int64(rng.Intn(4)), int64(rng.Intn(nUsers))
			if _, ok := owner[id]; ok {
				break
			}
			txs = append(txs, S("regchain", id, 0, o, int64(100+rng.Intn(50))), S("nocut-begin"))
			perm := rng.Perm(c.NVal)
			for i := 0; i < quorum(c.NVal); i++ {
				st := S("approvechain", id, int64(perm[i]))
				if i == quorum(c.NVal)-1 && rng.Chance(0.8) {
					st.S = "ff"
				}
				txs = append(txs, st)
			}
			txs = append(txs, S("regrelayer", int64(rng.Intn(nUsers)), anyone()), S("nocut-end"))
			if rng.Chance(0.5) { // and a clean approval round afterwards
				for i := 0; i < quorum(c.NVal); i++ {
					txs = append(txs, S("approvechain", id, int64(perm[i])))
				}
				owner[id] = o
			}
		case "sig":
			subj := int64(rng.Intn(5))
			for _, st := range approvals(rng, "addsig", subj, c.NVal) {
				txs = append(txs, st)
			}
			if rng.Chance(0.3) {
				txs = append(txs, S("addsig", subj, anyone()))
			}
		case "noise":
			txs = append(txs, S("regcand", anyone(), anyone()))
		}
	}
	// cut into blocks
	maxb := c.MaxBlock
	if maxb <= 0 {
		maxb = 6
	}
	var out []kernel.Step
	left := 1 + rng.Intn(maxb)
	nocut := false
	for _, t := range txs {
		if t.Op == "nocut-begin" || t.Op == "nocut-end" {
			nocut = t.Op == "nocut-begin"
			if nocut && len(out) > 0 && out[len(out)-1].Op != "block" {
				out = append(out, S("block", int64(rng.Intn(1000))))
			}
			if !nocut {
				left = 1
			}
			continue
		}
		if t.Op == "cut" { // force a block boundary here
			if !nocut && len(out) > 0 && out[len(out)-1].Op != "block" {
				out = append(out, S("block", int64(rng.Intn(1000))))
				left = 1 + rng.Intn(maxb)
			}
			continue
		}
		out = append(out, t)
		if nocut {
			continue
		}
		left--
		if left == 0 {
			out = append(out, S("block", int64(rng.Intn(1000))))
			left = 1 + rng.Intn(maxb)
			if rng.Chance(0.1) {
				out = append(out, S("block", int64(rng.Intn(1000)))) // empty block
			}
		}
	}
	out = append(out, S("block", int64(rng.Intn(1000))))
	return out
}
