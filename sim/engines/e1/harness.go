package e1

import (
	"fmt"

	"github.com/polynetwork/poly/account"
	"github.com/polynetwork/poly/common"
	"github.com/polynetwork/poly/core/types"
	"github.com/polynetwork/poly/native/service/governance/side_chain_manager"

	"polysim/chain"
	"polysim/kernel"
)

// Harness is the small API single-contract engines (light clients, BTC, ...) use to drive
// native contracts on a real ledger: build transactions, commit them in blocks on a producer
// with followers, and get back the observed per-transaction transitions (pre/post state views,
// success flag, events, written keys, cross-chain leaves). The generic oracles (atomicity C15,
// confinement C17, re-execution/replica determinism C16, proofs C08) run on every block.
type Harness struct {
	S *Sim
	M *Model
}

// NewHarness creates a world with nVals validators, `followers` follower nodes and the given
// network id (1 = main net, 2 = test net, other = private) and governance epoch length.
func NewHarness(run *kernel.Run, nVals, followers int, networkID uint32, maxView uint32) (*Harness, error) {
	s, err := NewSim(run, nVals, followers, networkID, maxView)
	if err != nil {
		return nil, err
	}
	return &Harness{S: s, M: NewModel()}, nil
}

func (h *Harness) Close() { h.S.Close() }

// Tx builds an unsigned invocation of a native contract method.
func (h *Harness) Tx(contract common.Address, method string, args []byte) *types.Transaction {
	return h.S.W.NewTx(contract, method, args, h.S.nextNonce())
}

// Signed builds an invocation signed (witnessed) by the given accounts.
func (h *Harness) Signed(contract common.Address, method string, args []byte, signers ...*account.Account) *types.Transaction {
	return chain.SignTx(h.Tx(contract, method, args), signers...)
}

// Operator builds an invocation witnessed by the current consensus operator multi-address
// (needed for SyncGenesisHeader, updateConfig, blackChain ...), as of the committed state.
func (h *Harness) Operator(contract common.Address, method string, args []byte) *types.Transaction {
	cur, _, err := h.S.ConsensusPeers(h.S.Prod())
	if err != nil || len(cur) == 0 {
		panic(fmt.Sprintf("no consensus peers: %v", err))
	}
	return chain.OperatorSign(h.Tx(contract, method, args), cur)
}

// ExecInspect is Exec with a callback that runs BEFORE the block is committed. Use it whenever
// your oracle reads TxTrace.Pre / TxTrace.Post: a View layers the block's write set so far over
// the *committed ledger*, so once the block is committed (i.e. after Exec returned) keys that a
// prefix did not write already show the whole block's effects. Inside the callback the ledger
// is still at the previous height and Pre/Post are exact per-transaction states.
func (h *Harness) ExecInspect(inspect func(traces []*TxTrace), txs ...*types.Transaction) (traces []*TxTrace, ok bool) {
	h.S.BeforeCommit = func(bt *BlockTrace) {
		var own []*TxTrace
		for _, t := range bt.Txs {
			if t.P != nil {
				own = append(own, t)
			}
		}
		inspect(own)
	}
	defer func() { h.S.BeforeCommit = nil }()
	return h.Exec(txs...)
}

// Exec commits the transactions in one block (in the given order) and returns their observed
// transitions. ok=false means a generic oracle stopped the run (run.Failed()).
// NOTE: the returned traces' OK/Events/Writes/Cross are exact, but their Pre/Post VIEWS are only
// exact for keys written earlier in the same block; for other keys they read the ledger AFTER
// the commit. Use ExecInspect (or snapshot what you need from h.View() before Exec) when you
// need true pre-states.
func (h *Harness) Exec(txs ...*types.Transaction) (traces []*TxTrace, ok bool) {
	for i, tx := range txs {
		h.S.Pending = append(h.S.Pending, &PendingTx{Tx: tx, Step: kernel.Step{Op: "raw", A: []int64{int64(i)}}, Idx: h.S.R.StepNo})
	}
	if !h.S.commitBlock(h.M, uint64(len(h.S.Blocks))) {
		return nil, false
	}
	bt := h.S.LastTrace
	for _, t := range bt.Txs {
		if t.P != nil {
			traces = append(traces, t)
		}
	}
	return traces, true
}

// ForceFail makes hook H3 fail the given transaction after its handler ran.
func (h *Harness) ForceFail(tx *types.Transaction) { h.S.forceFail[tx.Hash()] = true }

// View is the committed contract state of the producer.
func (h *Harness) View() View { return View{L: h.S.Prod().L} }

// Height of the producer.
func (h *Harness) Height() uint32 { return h.S.Prod().Height() }

// Restart cleanly restarts node i (0 = producer).
func (h *Harness) Restart(i int) error {
	nd := h.S.Nodes[i%len(h.S.Nodes)]
	nd.Close()
	h.S.R.Fault("clean_restart")
	return nd.Open()
}

// RegisterChain registers side chain `id` with the given router and extra info, owned by
// user 0, and approves it with a quorum of validators, all in one block.
func (h *Harness) RegisterChain(id, router uint64, name string, blocksToWait uint64, ccmc, extra []byte) error {
	owner := h.S.Users[0]
	p := &side_chain_manager.RegisterSideChainParam{Address: owner.Address, ChainId: id, Router: router, Name: name, BlocksToWait: blocksToWait, CCMCAddress: ccmc, ExtraInfo: extra}
	txs := []*types.Transaction{h.Signed(chain.SideChainManager, side_chain_manager.REGISTER_SIDE_CHAIN, chain.Args(p), owner)}
	cur, _, err := h.S.ConsensusPeers(h.S.Prod())
	if err != nil {
		return err
	}
	for i := 0; i < twoThirds(len(cur)); i++ {
		txs = append(txs, h.Signed(chain.SideChainManager, side_chain_manager.APPROVE_REGISTER_SIDE_CHAIN,
			chain.Args(&side_chain_manager.ChainidParam{Chainid: id, Address: cur[i].Address}), cur[i]))
	}
	tr, ok := h.Exec(txs...)
	if !ok {
		return fmt.Errorf("run stopped")
	}
	for _, t := range tr {
		if !t.OK {
			return fmt.Errorf("registration transaction %d failed", t.Index)
		}
	}
	if h.View().SideChain(id) == nil {
		return fmt.Errorf("chain %d not registered after approval round", id)
	}
	return nil
}

// Validators returns the current consensus validators' accounts (sorted by public key).
func (h *Harness) Validators() []*account.Account {
	cur, _, _ := h.S.ConsensusPeers(h.S.Prod())
	return cur
}

// User i (owners, relayers, outsiders).
func (h *Harness) User(i int) *account.Account { return h.S.Users[i%len(h.S.Users)] }

// Scan returns all committed storage entries of a contract whose key starts with prefix
// (key without the contract address), by reading the closed-over ledger's state through a
// temporary read-only dump. Intended for "byte-identical state" assertions.
func (h *Harness) Scan(contract common.Address, prefix []byte) (map[string][]byte, error) {
	nd := h.S.Prod()
	nd.Close()
	all, err := chain.DumpDB(nd.Dir + "/states")
	if e := nd.Open(); e != nil {
		return nil, e
	}
	if err != nil {
		return nil, err
	}
	out := map[string][]byte{}
	full := string(rawKey(contract, prefix))
	for k, v := range all {
		if len(k) >= len(full) && k[:len(full)] == full {
			out[k[21:]] = v
		}
	}
	return out, nil
}
