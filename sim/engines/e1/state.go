package e1

import (
	"encoding/hex"
	"github.com/polynetwork/poly/native/service/governance/neo3_state_manager"
	"math/big"
	"sort"

	"github.com/ontio/ontology-crypto/keypair"
	"github.com/polynetwork/poly/common"
	"github.com/polynetwork/poly/core/types"
	ccom "github.com/polynetwork/poly/native/service/cross_chain_manager/common"
	"github.com/polynetwork/poly/native/service/governance/node_manager"
	"github.com/polynetwork/poly/native/service/governance/relayer_manager"
	"github.com/polynetwork/poly/native/service/governance/side_chain_manager"
	"github.com/polynetwork/poly/native/service/utils"

	"polysim/chain"
)

// Observation helpers: decode contract records from a View through the storage read path.

func u64(v uint64) []byte { return utils.GetUint64Bytes(v) }

func (v View) GovView() *node_manager.GovernanceView {
	raw := v.Get(chain.NodeManager, []byte(node_manager.GOVERNANCE_VIEW))
	if raw == nil {
		return nil
	}
	g := new(node_manager.GovernanceView)
	if g.Deserialization(common.NewZeroCopySource(raw)) != nil {
		return nil
	}
	return g
}

func (v View) PoolAt(view uint32) *node_manager.PeerPoolMap {
	raw := v.Get(chain.NodeManager, []byte(node_manager.PEER_POOL), utils.GetUint32Bytes(view))
	if raw == nil {
		return nil
	}
	pm := &node_manager.PeerPoolMap{PeerPoolMap: map[string]*node_manager.PeerPoolItem{}}
	if pm.Deserialization(common.NewZeroCopySource(raw)) != nil {
		return nil
	}
	return pm
}

// Pool returns the peer pool of the current governance view (nil if unreadable).
func (v View) Pool() (*node_manager.PeerPoolMap, uint32) {
	g := v.GovView()
	if g == nil {
		return nil, 0
	}
	return v.PoolAt(g.View), g.View
}

func addrOfPubHex(id string) (common.Address, keypair.PublicKey, bool) {
	b, err := hex.DecodeString(id)
	if err != nil {
		return common.ADDRESS_EMPTY, nil, false
	}
	pk, err := keypair.DeserializePublicKey(b)
	if err != nil {
		return common.ADDRESS_EMPTY, nil, false
	}
	return types.AddressFromPubKey(pk), pk, true
}

// Consensus returns the addresses and public keys of the pool members with consensus status.
func (v View) Consensus() (map[common.Address]bool, []keypair.PublicKey) {
	pm, _ := v.Pool()
	set := map[common.Address]bool{}
	var pks []keypair.PublicKey
	if pm == nil {
		return set, nil
	}
	ids := make([]string, 0, len(pm.PeerPoolMap))
	for id := range pm.PeerPoolMap {
		ids = append(ids, id)
	}
	sort.Strings(ids)
	for _, id := range ids {
		if pm.PeerPoolMap[id].Status == node_manager.ConsensusStatus {
			if a, pk, ok := addrOfPubHex(id); ok {
				set[a] = true
				pks = append(pks, pk)
			}
		}
	}
	return set, pks
}

// Operator is the consensus operator address of the view's consensus set.
func (v View) Operator() (common.Address, bool) {
	_, pks := v.Consensus()
	if len(pks) == 0 {
		return common.ADDRESS_EMPTY, false
	}
	a, err := types.AddressFromBookkeepers(pks)
	return a, err == nil
}

func (v View) PeerApply(pubhex string) []byte {
	b, _ := hex.DecodeString(pubhex)
	return v.Get(chain.NodeManager, []byte(node_manager.PEER_APPLY), b)
}

func (v View) BlackListed(pubhex string) bool {
	b, _ := hex.DecodeString(pubhex)
	return v.Has(chain.NodeManager, []byte(node_manager.BLACK_LIST), b)
}

func (v View) SideChainRaw(id uint64) []byte {
	return v.Get(chain.SideChainManager, []byte(side_chain_manager.SIDE_CHAIN), u64(id))
}

func (v View) SideChain(id uint64) *side_chain_manager.SideChain {
	raw := v.SideChainRaw(id)
	if raw == nil {
		return nil
	}
	sc := new(side_chain_manager.SideChain)
	if sc.Deserialization(common.NewZeroCopySource(raw)) != nil {
		return nil
	}
	return sc
}

func (v View) SideChainApplyRaw(id uint64) []byte {
	return v.Get(chain.SideChainManager, []byte(side_chain_manager.SIDE_CHAIN_APPLY), u64(id))
}
func (v View) SideChainUpdateRaw(id uint64) []byte {
	return v.Get(chain.SideChainManager, []byte(side_chain_manager.UPDATE_SIDE_CHAIN_REQUEST), u64(id))
}
func (v View) SideChainQuitPending(id uint64) bool {
	return v.Has(chain.SideChainManager, []byte(side_chain_manager.QUIT_SIDE_CHAIN_REQUEST), u64(id))
}

func (v View) IsRelayer(a common.Address) bool {
	return v.Has(chain.RelayerManager, []byte(relayer_manager.RELAYER), a[:])
}
func (v View) RelayerApplyRaw(id uint64) []byte {
	return v.Get(chain.RelayerManager, []byte(relayer_manager.RELAYER_APPLY), u64(id))
}
func (v View) RelayerRemoveRaw(id uint64) []byte {
	return v.Get(chain.RelayerManager, []byte(relayer_manager.RELAYER_REMOVE), u64(id))
}

func (v View) Blacked(id uint64) bool {
	return v.Has(chain.CrossChain, []byte(ccom.BLACKED_CHAIN), u64(id))
}
func (v View) Done(src uint64, ccid []byte) bool {
	return v.Has(chain.CrossChain, []byte(ccom.DONE_TX), u64(src), ccid)
}
func (v View) Request(dst uint64, relayTx []byte) []byte {
	return v.Get(chain.CrossChain, []byte(ccom.REQUEST), u64(dst), relayTx)
}

// AssetBinding returns the lock proxy and asset a (ripple-router) source chain has bound for
// a destination chain (nil, nil when absent).
func (v View) AssetBinding(src, dst uint64) (lock, asset []byte) {
	raw := v.Get(chain.SideChainManager, []byte(side_chain_manager.ASSET_BIND), u64(src))
	if raw == nil {
		return nil, nil
	}
	ab := &side_chain_manager.AssetBind{AssetMap: map[uint64][]byte{}, LockProxyMap: map[uint64][]byte{}}
	if ab.Deserialization(common.NewZeroCopySource(raw)) != nil {
		return nil, nil
	}
	return ab.LockProxyMap[dst], ab.AssetMap[dst]
}

func (v View) HasAssetBinding(src, dst uint64) bool {
	raw := v.Get(chain.SideChainManager, []byte(side_chain_manager.ASSET_BIND), u64(src))
	if raw == nil {
		return false
	}
	ab := &side_chain_manager.AssetBind{AssetMap: map[uint64][]byte{}, LockProxyMap: map[uint64][]byte{}}
	if ab.Deserialization(common.NewZeroCopySource(raw)) != nil {
		return false
	}
	_, a := ab.LockProxyMap[dst]
	_, b := ab.AssetMap[dst]
	return a && b
}

func (v View) SVApplyRaw(id uint64) []byte {
	return v.Get(chain.Neo3State, []byte(neo3_state_manager.STATE_VALIDATOR_APPLY), u64(id))
}
func (v View) SVRemoveRaw(id uint64) []byte {
	return v.Get(chain.Neo3State, []byte(neo3_state_manager.STATE_VALIDATOR_REMOVE), u64(id))
}
func (v View) StateValidatorsRaw() []byte {
	return v.Get(chain.Neo3State, []byte(neo3_state_manager.STATE_VALIDATOR))
}

// FeeView / FeeRoundStart: a chain's current fee-voting round and the start time of a round.
func (v View) FeeView(chainID uint64) uint64 {
	raw := v.Get(chain.SideChainManager, []byte(side_chain_manager.FEE), u64(chainID))
	if raw == nil {
		return 0
	}
	f := &side_chain_manager.Fee{Fee: new(big.Int)}
	if f.Deserialization(common.NewZeroCopySource(raw)) != nil {
		return 0
	}
	return f.View
}

func (v View) FeeRoundStart(chainID, view uint64) uint32 {
	raw := v.Get(chain.SideChainManager, []byte(side_chain_manager.FEE_INFO), u64(chainID), u64(view))
	if raw == nil {
		return 0
	}
	fi := &side_chain_manager.FeeInfo{FeeInfo: map[common.Address]*big.Int{}}
	if fi.Deserialization(common.NewZeroCopySource(raw)) != nil {
		return 0
	}
	return fi.StartTime
}
