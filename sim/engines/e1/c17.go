package e1

import (
	"bytes"
	"fmt"
	"github.com/polynetwork/poly/native/service/governance/node_manager"
	"strings"

	"github.com/polynetwork/poly/common"
	"github.com/polynetwork/poly/native/service/utils"

	"polysim/chain"
	"polysim/kernel"
)

// recordKind describes one logical record kind of a native contract: its key prefix and the
// admissible lengths of the parameter part that follows (min..max bytes; max<0 = unbounded).
type recordKind struct {
	prefix   string
	min, max int
}

// Key layouts of the contracts the E1 workloads drive (documented storage layout, used only to
// attribute each written key to a record kind; header-sync/BTC records are not listed and are
// counted as "unattributed", never reported).
var layouts = map[common.Address][]recordKind{
	utils.NodeManagerContractAddress: {
		{"governanceView", 0, 0}, {"vbftConfig", 0, 0}, {"candidateIndex", 0, 0}, {"peerApply", 33, 65}, {"peerPool", 0, 4},
		{"peerIndex", 33, 65}, {"blackList", 33, 65}, {"consensusSigns", 32, 32},
	},
	utils.SideChainManagerContractAddress: {
		{"sideChainApply", 8, 8}, {"updateSideChainRequest", 8, 8}, {"quitSideChainRequest", 8, 8}, {"sideChain", 8, 8},
		{"redeemBind", 8, -1}, {"bindSignInfo", 1, -1}, {"btcTxParam", 1, -1}, {"redeemScript", 1, -1}, {"assetBind", 8, -1}, {"feeInfo", 8, 8}, {"fee", 8, 8},
	},
	utils.RelayerManagerContractAddress: {
		{"relayerApply", 8, 8}, {"relayerRemove", 8, 8}, {"relayer", 20, 20}, {"applyID", 0, 0}, {"removeID", 0, 0},
	},
	utils.CrossChainManagerContractAddress: {
		{"doneTx", 9, -1}, {"request", 9, -1}, {"BlackedChain", 8, 8}, {"voteInfo", 32, 32},
	},
	utils.SignatureManagerContractAddress: {{"sigInfo", 32, 32}},
}

// attribute returns the record kinds a contract-relative key can be read as.
func attribute(c common.Address, key []byte) []string {
	var out []string
	for _, k := range layouts[c] {
		if !bytes.HasPrefix(key, []byte(k.prefix)) {
			continue
		}
		rest := len(key) - len(k.prefix)
		if rest < k.min || (k.max >= 0 && rest > k.max) {
			continue
		}
		out = append(out, k.prefix)
	}
	return out
}

// checkKeys (C17): every written key is in the contract-storage namespace of a registered
// contract, and no written key can be read as two different record kinds of its contract.
func (s *Sim) checkKeys(t *TxTrace) {
	r := s.R
	s.checkApprovalRecordKeys(t)
	for _, k := range sortedKeys(t.Writes) {
		if len(k) < 21 {
			continue // reported by the confinement check
		}
		var c common.Address
		copy(c[:], k[1:21])
		if _, ok := layouts[c]; !ok {
			continue
		}
		kinds := attribute(c, []byte(k[21:]))
		switch len(kinds) {
		case 0:
			r.Probe("key_unattributed")
		case 1:
			r.Probe("key_attributed")
		default:
			r.Fail("C17", "ambiguous-storage-key", "tx %d (%v) wrote key %x which reads as %v", t.Index, stepOf(t), k, kinds)
		}
	}
	_ = fmt.Sprint
}

// checkKeyCensus (C17, auxiliary static invariant): the build step generates a census of every
// storage-key construction site (utils.ConcatKey) of the native contracts from the tree under
// test (tools/overlay.d/keycensus, go/ast; prefix constants resolved to their values). Within
// one contract, two different record kinds (different prefix constants) must not be able to
// produce the same key:
//   - equal prefix values, unless their parameter parts have provably different lengths;
//   - one prefix extending another, when the shorter kind's parameter part has exactly the
//     length of the extension plus the longer kind's parameter part (parameters are free bytes).
//
// This part of C17 is not simulation: it reaches the constructions of contracts no workload
// drives (ripple, btc multisign, zilliqa, ...). Undecidable pairs are counted, not reported.
func checkKeyCensus(r *kernel.Run) {
	type kind struct {
		contract, cpkg, cname, prefix string
		lens                          map[int]bool
		pos                           string
	}
	kinds := map[string]*kind{}
	var order []string
	for _, s := range utils.VerifKeyCensus {
		if !s.Resolved {
			r.Probe("census_site_unresolved_prefix")
			continue
		}
		r.Probe("census_site")
		id := s.Contract + "|" + s.ConstPkg + "|" + s.ConstName
		k := kinds[id]
		if k == nil {
			k = &kind{contract: s.Contract, cpkg: s.ConstPkg, cname: s.ConstName, prefix: s.Prefix, lens: map[int]bool{}, pos: s.Pos}
			kinds[id] = k
			order = append(order, id)
		}
		k.lens[s.ParamLen] = true
	}
	for i, ia := range order {
		a := kinds[ia]
		for _, ib := range order[i+1:] {
			b := kinds[ib]
			if a.contract != b.contract {
				continue
			}
			switch {
			case a.prefix == b.prefix:
				differ := !a.lens[-1] && !b.lens[-1]
				if differ {
					for l := range a.lens {
						if b.lens[l] {
							differ = false
						}
					}
				}
				if !differ {
					r.Fail("C17", "ambiguous-key-layout", "contract %s: record kinds %s.%s (%s) and %s.%s (%s) use the same key prefix %q and their parameter parts are not provably of different length: equal parameters give the same storage key",
						a.contract, a.cpkg, a.cname, a.pos, b.cpkg, b.cname, b.pos, a.prefix)
				}
			case strings.HasPrefix(b.prefix, a.prefix) || strings.HasPrefix(a.prefix, b.prefix):
				sh, lg := a, b
				if len(a.prefix) > len(b.prefix) {
					sh, lg = b, a
				}
				ext := len(lg.prefix) - len(sh.prefix)
				if sh.lens[-1] || lg.lens[-1] {
					r.Probe("census_prefix_extension_undecided")
				}
				for ls := range sh.lens {
					for ll := range lg.lens {
						if ls >= 0 && ll >= 0 && ls == ext+ll {
							r.Fail("C17", "ambiguous-key-layout", "contract %s: key %q + %d parameter bytes (%s.%s, %s) can equal key %q + %d parameter bytes (%s.%s, %s)",
								sh.contract, sh.prefix, ls, sh.cpkg, sh.cname, sh.pos, lg.prefix, ll, lg.cpkg, lg.cname, lg.pos)
						}
					}
				}
				r.Probe("census_prefix_extension_pair_checked")
			}
			r.Probe("census_kind_pair_compared")
		}
	}
}

// checkApprovalRecordKeys (C17, runtime injectivity): every approval record (node manager
// "consensusSigns" + 32-byte id) a transaction writes belongs to one logical record, the
// (action, request) its step names. Within a run, two different logical records must never be
// written under the same storage key.
func (s *Sim) checkApprovalRecordKeys(t *TxTrace) {
	if t.P == nil {
		return
	}
	st := t.P.Step
	if _, isApproval := approveEvents[st.Op]; !isApproval {
		return
	}
	ident := st.Op + "|" + reqKeyOf(s, st.Op, st.Arg(0))
	if st.Op == "blacknode" {
		ident = st.Op + "|" + strings.Join(s.BlackList(st), ",")
	}
	prefix := string(rawKey(chain.NodeManager, []byte(node_manager.CONSENSUS_SIGNS)))
	if s.recordOwner == nil {
		s.recordOwner = map[string]string{}
	}
	for _, k := range sortedKeys(t.Writes) {
		if !strings.HasPrefix(k, prefix) || len(k) != len(prefix)+32 {
			continue
		}
		if prev, ok := s.recordOwner[k]; ok && prev != ident {
			s.R.Fail("C17", "two-records-share-a-storage-key", "%v (%s) wrote the approval record %x, which an approval of the different logical record %s wrote before", st, ident, k, prev)
		}
		s.recordOwner[k] = ident
		s.R.Probe("approval_record_key_owner_checked")
	}
}
