package e1

import (
	"bytes"
	"fmt"

	"github.com/polynetwork/poly/common"
	"github.com/polynetwork/poly/native/service/utils"
)

// recordKind describes one logical record kind of a native contract: its key prefix and the
// admissible lengths of the parameter part that follows (min..max bytes; max<0 = unbounded).
type recordKind struct {
	prefix   string
	min, max int
}

// Key layouts of the contracts the E1 workloads drive (documented storage layout, used only to
// attribute each written key to a record kind; header-sync/BTC records are not listed and are
// counted as "unattributed", never reported).
var layouts = map[common.Address][]recordKind{
	utils.NodeManagerContractAddress: {
		{"governanceView", 0, 0}, {"vbftConfig", 0, 0}, {"candidateIndex", 0, 0}, {"peerApply", 33, 65}, {"peerPool", 0, 4},
		{"peerIndex", 33, 65}, {"blackList", 33, 65}, {"consensusSigns", 32, 32},
	},
	utils.SideChainManagerContractAddress: {
		{"sideChainApply", 8, 8}, {"updateSideChainRequest", 8, 8}, {"quitSideChainRequest", 8, 8}, {"sideChain", 8, 8},
		{"redeemBind", 8, -1}, {"bindSignInfo", 1, -1}, {"btcTxParam", 1, -1}, {"redeemScript", 1, -1}, {"assetBind", 8, -1}, {"feeInfo", 8, 8}, {"fee", 8, 8},
	},
	utils.RelayerManagerContractAddress: {
		{"relayerApply", 8, 8}, {"relayerRemove", 8, 8}, {"relayer", 20, 20}, {"applyID", 0, 0}, {"removeID", 0, 0},
	},
	utils.CrossChainManagerContractAddress: {
		{"doneTx", 9, -1}, {"request", 9, -1}, {"BlackedChain", 8, 8}, {"voteInfo", 32, 32},
	},
	utils.SignatureManagerContractAddress: {{"sigInfo", 32, 32}},
}

// attribute returns the record kinds a contract-relative key can be read as.
func attribute(c common.Address, key []byte) []string {
	var out []string
	for _, k := range layouts[c] {
		if !bytes.HasPrefix(key, []byte(k.prefix)) {
			continue
		}
		rest := len(key) - len(k.prefix)
		if rest < k.min || (k.max >= 0 && rest > k.max) {
			continue
		}
		out = append(out, k.prefix)
	}
	return out
}

// checkKeys (C17): every written key is in the contract-storage namespace of a registered
// contract, and no written key can be read as two different record kinds of its contract.
func (s *Sim) checkKeys(t *TxTrace) {
	r := s.R
	for _, k := range sortedKeys(t.Writes) {
		if len(k) < 21 {
			continue // reported by the confinement check
		}
		var c common.Address
		copy(c[:], k[1:21])
		if _, ok := layouts[c]; !ok {
			continue
		}
		kinds := attribute(c, []byte(k[21:]))
		switch len(kinds) {
		case 0:
			r.Probe("key_unattributed")
		case 1:
			r.Probe("key_attributed")
		default:
			r.Fail("C17", "ambiguous-storage-key", "tx %d (%v) wrote key %x which reads as %v", t.Index, stepOf(t), k, kinds)
		}
	}
	_ = fmt.Sprint
}
