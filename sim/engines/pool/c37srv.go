package pool

import (
	"crypto/sha256"
	"fmt"
	"sort"
	"strings"
	"time"

	"github.com/ontio/ontology-eventbus/actor"
	"github.com/polynetwork/poly/common"
	"github.com/polynetwork/poly/common/config"
	"github.com/polynetwork/poly/core/types"
	"github.com/polynetwork/poly/errors"
	"github.com/polynetwork/poly/events/message"
	tc "github.com/polynetwork/poly/txnpool/common"
	"github.com/polynetwork/poly/txnpool/proc"
	vt "github.com/polynetwork/poly/validator/types"

	"polysim/chain"
	"polysim/kernel"
)

// ---- C37, server level ----------------------------------------------------------------------
//
// The real TXPoolServer with its real actors (synchronous dispatcher: Receive runs inline in the
// calling task; the mailbox still serialises each actor as in production), workers whose loop
// body is executed one iteration per plan step, simulated validators that answer when the plan
// says so (late, duplicated, with a stale height, with an error, or never), a consensus task
// and a block-commit task. MAX_CAPACITY / MAX_LIMITATION are the overlay knobs, set per run.

const (
	sSubmit = iota
	sStatus
	sGetTxPool
	sVerifyBlock
	sCommit
	nSKinds
)

const maxSrvTx = 16

func genC37Srv(rng *kernel.RNG, idx int, tier string) *kernel.Plan {
	p := &kernel.Plan{Cfg: map[string]int64{"level": 1}}
	nC, nW := rng.Range(1, 3), rng.Range(1, 2)
	cons, commit := 0, 0
	if rng.Chance(0.6) {
		cons = 1
	}
	if rng.Chance(0.5) {
		commit = 1
	}
	ntx := rng.Range(6, maxSrvTx)
	p.Cfg["clients"], p.Cfg["workers"], p.Cfg["cons"], p.Cfg["commit"] = int64(nC), int64(nW), int64(cons), int64(commit)
	p.Cfg["ntx"] = int64(ntx)
	p.Cfg["cap"] = int64(rng.Range(3, 8))
	p.Cfg["lim"] = int64(rng.Range(1, 4))
	p.Cfg["maxtx"] = int64(rng.Range(1, 3))
	p.Cfg["h0"] = int64(rng.Range(3, 30))
	p.Cfg["order"] = rng.Int63()
	p.Cfg["preexec"] = int64(rng.Intn(2))
	vbOn := cons == 1 && rng.Chance(0.5)
	tClient := func() int64 { return int64(rng.Intn(nC)) }
	tCons := int64(nC)
	tCommit := int64(nC + 1)
	S := func(task int64, a ...int64) {
		p.Steps = append(p.Steps, kernel.Step{Op: "sop", A: append([]int64{task}, a...)})
	}
	faulty := rng.Chance(0.5) // validator faults enabled in this run
	submits := rng.Range(6, 22)
	for i := 0; i < submits; i++ {
		S(tClient(), sSubmit, int64(rng.Intn(ntx)), int64(rng.Intn(2)))
		// choice streams of the reactive tasks (workers: which queue to serve, rarely a timeout
		// sweep; validators: which outstanding request to answer and how)
		for k, n := 0, rng.Range(2, 5); k < n; k++ {
			tick := int64(0)
			if rng.Chance(0.04) {
				tick = 1
			}
			p.Steps = append(p.Steps, kernel.Step{Op: "w", A: []int64{int64(rng.Intn(nW)), int64(rng.Intn(6)), tick}})
		}
		for k, n := 0, rng.Range(2, 3); k < n; k++ {
			flags := int64(0)
			if faulty && rng.Chance(0.25) {
				flags = int64(1 << uint(rng.Intn(4)))
			}
			p.Steps = append(p.Steps, kernel.Step{Op: "v", A: []int64{int64(rng.Intn(8)), flags}})
		}
		if rng.Chance(0.15) {
			S(tClient(), sStatus, int64(rng.Intn(ntx)))
		}
		if cons == 1 && rng.Chance(0.25) {
			if vbOn && rng.Chance(0.4) {
				S(tCons, sVerifyBlock, int64(1+rng.Intn(1<<uint(min(ntx, 8))-1)), int64(rng.Intn(3)))
			} else {
				S(tCons, sGetTxPool, int64(rng.Intn(2)), int64(rng.Intn(3)))
			}
		}
		if commit == 1 && rng.Chance(0.15) {
			S(tCommit, sCommit, int64(1+rng.Intn(1<<uint(min(ntx, 8))-1)), int64(rng.Intn(3)))
		}
	}
	sw := []float64{0.05, 0.15, 0.3, 0.6, 1.0}[rng.Intn(5)]
	picks := make([]int64, rng.Range(300, 1500))
	for i := range picks {
		if rng.Chance(sw) {
			picks[i] = int64(rng.Intn(64))
		} else {
			picks[i] = -1
		}
	}
	p.Steps = append(p.Steps, kernel.Step{Op: "sched", A: picks})
	return p
}

type vreq struct {
	tx     int
	typ    vt.VerifyType
	worker uint8
	seq    int
}

type gtpReq struct {
	byCount bool
	height  uint32
}

type srvRun struct {
	run  *kernel.Run
	node *poolNode
	s    *sched
	pool *tc.TXPool
	txs  []*types.Transaction
	idx  map[common.Uint256]int

	cap, lim, maxTx int
	h0, curHeight   uint32
	nW              int

	reqs      []vreq
	reqSeq    int
	gtpQ      []gtpReq
	fromBlock map[int]bool

	poolLen    func(*tc.TXPool) int
	poolKeys   func(*tc.TXPool) []common.Uint256
	workerStep func(*proc.TXPoolServer, int, int) bool
	workerLoad func(*proc.TXPoolServer, int) [4]int
	pending    func(*proc.TXPoolServer) ([]common.Uint256, [][]common.Uint256)

	maxPool   int
	overAt    int
	overBlock bool
	failKey   string
	failMsg   string
	fixed     []*task

	// admission decisions of TxActor.handleTransaction as seen by the scheduler: the pool size a
	// task read in its capacity check (GetTransactionCount) and whether it went on to take a slot
	countSite  string
	lastCount  map[*task]int
	admitBelow int // admissions decided while the verified pool was below capacity
	admitFull  int // admissions decided although the verified pool had reached capacity
	fullSeen   int
}

func (r *srvRun) fail(key, format string, a ...interface{}) {
	if r.failKey == "" {
		r.failKey, r.failMsg = key, fmt.Sprintf(format, a...)
	}
}

// monitor runs after every scheduler step and after every drain action, on a goroutine that is
// the only one running: the capacity clause of the property.
func (r *srvRun) monitor() {
	n := r.poolLen(r.pool)
	if n > r.maxPool {
		r.maxPool = n
	}
	if n > r.cap && r.overAt == 0 {
		r.overAt = r.s.steps + 1
		for _, h := range r.poolKeys(r.pool) {
			if r.fromBlock[r.idx[h]] {
				r.overBlock = true
			}
		}
	}
}

func (r *srvRun) sortReqs() {
	sort.Slice(r.reqs, func(i, j int) bool {
		a, b := r.reqs[i], r.reqs[j]
		if a.tx != b.tx {
			return a.tx < b.tx
		}
		if a.typ != b.typ {
			return a.typ < b.typ
		}
		if a.worker != b.worker {
			return a.worker < b.worker
		}
		return a.seq < b.seq
	})
}

// respond delivers the answer of a simulated validator to the real VerifyRspActor.
func (r *srvRun) respond(pick int64, flags int64) {
	if len(r.reqs) == 0 {
		r.run.Probe("respond_nothing_queued")
		return
	}
	r.sortReqs()
	k := int(pick % int64(len(r.reqs)))
	q := r.reqs[k]
	dup, stale, bad, drop := flags&1 != 0, flags&2 != 0, flags&4 != 0, flags&8 != 0
	if !dup {
		r.reqs = append(r.reqs[:k], r.reqs[k+1:]...)
	} else {
		r.run.Fault("validator_response_duplicated")
	}
	if drop {
		r.run.Fault("validator_response_dropped")
		return
	}
	rsp := &vt.CheckResponse{WorkerId: q.worker, Type: q.typ, Hash: r.txs[q.tx].Hash(), Height: r.curHeight, ErrCode: errors.ErrNoError}
	if stale && q.typ == vt.Stateful && rsp.Height > 0 {
		rsp.Height--
		r.run.Fault("validator_response_stale_height")
	}
	if bad {
		rsp.ErrCode = errors.ErrUnknown
		r.run.Fault("validator_response_error")
	}
	r.node.rspPid.Tell(rsp)
}

func (r *srvRun) maskList(mask int64) []int {
	var l []int
	for i := 0; i < len(r.txs) && i < 8; i++ {
		if mask&(1<<uint(i)) != 0 {
			l = append(l, i)
		}
	}
	if len(l) == 0 {
		l = []int{0}
	}
	return l
}

func (r *srvRun) do(task int, a []int64) {
	arg := func(i int) int64 {
		if i < len(a) {
			return abs64(a[i])
		}
		return 0
	}
	switch arg(0) % nSKinds {
	case sSubmit:
		tx := r.txs[arg(1)%int64(len(r.txs))]
		sender := tc.NetSender
		if arg(2)%2 == 1 {
			sender = tc.HttpSender
		}
		r.run.Probe("srv_submit")
		r.node.txPid.Tell(&tc.TxReq{Tx: tx, Sender: sender, TxResultCh: nil})
	case sStatus:
		r.node.txPid.Request(&tc.GetTxnStatusReq{Hash: r.txs[arg(1)%int64(len(r.txs))].Hash()}, r.node.replyPid)
	case sGetTxPool:
		h := r.h0 + uint32(arg(2)%3)
		if h > r.curHeight {
			r.curHeight = h
		}
		r.gtpQ = append(r.gtpQ, gtpReq{arg(1)%2 == 1, h})
		r.node.poolPid.Request(&tc.GetTxnPoolReq{ByCount: arg(1)%2 == 1, Height: h}, r.node.extra[2])
	case sVerifyBlock:
		h := r.h0 + uint32(arg(2)%3)
		if h > r.curHeight {
			r.curHeight = h
		}
		var txs []*types.Transaction
		for _, i := range r.maskList(arg(1)) {
			txs = append(txs, r.txs[i])
			r.fromBlock[i] = true
		}
		r.run.Probe("srv_verify_block")
		r.node.poolPid.Request(&tc.VerifyBlockReq{Height: h, Txs: txs}, r.node.extra[2])
	case sCommit:
		h := r.h0 + uint32(arg(2)%3)
		var txs []*types.Transaction
		l := r.maskList(arg(1))
		for _, i := range l {
			txs = append(txs, r.txs[i])
		}
		blk := &types.Block{Header: &types.Header{Height: h}, Transactions: txs}
		r.node.poolPid.Tell(&message.SaveBlockCompleteMsg{Block: blk})
		r.run.Probe("srv_commit")
	}
}

func execC37Srv(run *kernel.Run) {
	need := []string{"transaction_pool.go", "txnpool_common.go", "txnpool_server.go", "txnpool_worker.go", "txnpool_actor.go"}
	for _, f := range need {
		if !tc.SimRewritten[f] {
			run.Logf("overlay did not instrument %s: server level not evaluated", f)
			run.Probe("srv_rewrite_missing")
			return
		}
	}
	r := &srvRun{run: run, idx: map[common.Uint256]int{}, fromBlock: map[int]bool{}}
	var ok [6]bool
	reset, ok0 := tc.SimHooks["proc.resetPermitted"].(func())
	r.poolLen, ok[0] = tc.SimHooks["pool.len"].(func(*tc.TXPool) int)
	r.poolKeys, ok[1] = tc.SimHooks["pool.keys"].(func(*tc.TXPool) []common.Uint256)
	r.workerStep, ok[2] = tc.SimHooks["proc.workerStep"].(func(*proc.TXPoolServer, int, int) bool)
	r.workerLoad, ok[3] = tc.SimHooks["proc.workerLoad"].(func(*proc.TXPoolServer, int) [4]int)
	r.pending, ok[4] = tc.SimHooks["proc.pending"].(func(*proc.TXPoolServer) ([]common.Uint256, [][]common.Uint256))
	addWorkers, ok5 := tc.SimHooks["proc.addWorkers"].(func(*proc.TXPoolServer, int))
	getPool, ok6 := tc.SimHooks["proc.pool"].(func(*proc.TXPoolServer) *tc.TXPool)
	_, ok7 := tc.SimHooks["knobs.set"].(func(int, int) (int, int))
	if !ok0 || !ok[0] || !ok[1] || !ok[2] || !ok[3] || !ok[4] || !ok5 || !ok6 || !ok7 {
		run.Logf("overlay hooks missing: server level not evaluated")
		run.Probe("srv_rewrite_missing")
		return
	}
	run.Probe("srv_rewrite_active")
	kernel.InBubble(func() {
		reset()
		defer reset()
		r.exec(addWorkers, getPool)
	})
}

func (r *srvRun) exec(addWorkers func(*proc.TXPoolServer, int), getPool func(*proc.TXPoolServer) *tc.TXPool) {
	run := r.run
	p := run.Plan
	nC := int(clamp(p.C("clients", 2), 1, 4))
	r.nW = int(clamp(p.C("workers", 1), 1, 2))
	ntx := int(clamp(p.C("ntx", 8), 1, maxSrvTx))
	r.cap, r.lim, r.maxTx = int(clamp(p.C("cap", 6), 1, 64)), int(clamp(p.C("lim", 3), 1, 64)), int(clamp(p.C("maxtx", 2), 1, 8))
	r.h0 = uint32(clamp(p.C("h0", 10), 1, 1000))
	r.curHeight = r.h0
	ntasks := 0

	w, err := chain.NewWorld(run, 4, 77, 100000)
	if err != nil {
		panic(err)
	}
	defer w.Close()
	nd, err := w.NewNode("n0")
	if err != nil {
		panic(err)
	}
	nd.Use()
	signer := w.InitVals[0] // a genesis consensus validator: a permitted sender
	for i := 0; i < ntx; i++ {
		tx := chain.SignTx(w.NewTx(chain.CrossChain, "poolsim", []byte{byte(i)}, uint32(i+1)), signer)
		r.txs = append(r.txs, tx)
		r.idx[tx.Hash()] = i
	}
	setKnobs, _ := tc.SimHooks["knobs.set"].(func(int, int) (int, int))
	savedCap, savedLim := setKnobs(r.cap, r.lim)
	savedMax := config.DefConfig.Consensus.MaxTxInBlock
	config.DefConfig.Consensus.MaxTxInBlock = uint(r.maxTx)
	defer func() {
		setKnobs(savedCap, savedLim)
		config.DefConfig.Consensus.MaxTxInBlock = savedMax
	}()

	r.node = newPoolNode(0, p.C("preexec", 0) == 0)
	defer r.node.close()
	addWorkers(r.node.srv, r.nW)
	r.pool = getPool(r.node.srv)

	// simulated validators and consensus
	for _, typ := range []vt.VerifyType{vt.Stateless, vt.Stateful} {
		typ := typ
		k, pid := newSink(fmt.Sprintf("validator%d", typ))
		k.on = func(sender *actor.PID, m interface{}) {
			if c, ok := m.(*vt.CheckTx); ok {
				r.reqSeq++
				r.reqs = append(r.reqs, vreq{tx: r.idx[c.Tx.Hash()], typ: typ, worker: c.WorkerId, seq: r.reqSeq})
			}
		}
		r.node.extra = append(r.node.extra, pid)
		r.node.rspPid.Tell(&vt.RegisterValidator{Sender: pid, Type: typ, Id: fmt.Sprintf("v%d", typ)})
	}
	consSink, consPid := newSink("consensus")
	r.node.extra = append(r.node.extra, consPid)
	consSink.on = func(sender *actor.PID, m interface{}) { r.onConsensus(m) }
	r.node.reply.on = func(sender *actor.PID, m interface{}) {} // status replies are not inspected

	var picks []int64
	ntasks = nC + 2 // clients, consensus, commit: the tasks with a fixed list of operations
	perTask := make([][][]int64, ntasks)
	wsel := make([][][]int64, r.nW)
	var vsel [][]int64
	for _, st := range p.Steps {
		switch st.Op {
		case "sched":
			picks = append(picks, st.A...)
		case "sop":
			if len(st.A) > 1 {
				t := int(abs64(st.A[0]) % int64(ntasks))
				perTask[t] = append(perTask[t], st.A[1:])
			}
		case "w":
			w := int(abs64(st.Arg(0)) % int64(r.nW))
			wsel[w] = append(wsel[w], []int64{abs64(st.Arg(1)), abs64(st.Arg(2))})
		case "v":
			vsel = append(vsel, []int64{abs64(st.Arg(0)), abs64(st.Arg(1))})
		}
	}
	s := newSched(picks, 200000)
	r.s = s
	if run.Verbose {
		s.trace = func(l string) { fmt.Println("    sched", l) }
	}
	s.onStep = r.monitor
	// the yield site of GetTransactionCount's return statement: the value a task reads when it
	// resumes from there is the pool size at that instant
	tc.SimYield = func(site string) { r.countSite = site }
	r.pool.GetTransactionCount()
	tc.SimYield = nil
	r.lastCount = map[*task]int{}
	s.onResume = func(t *task) {
		if t.site == r.countSite {
			r.lastCount[t] = r.poolLen(r.pool)
		}
	}
	s.onYield = func(t *task, prev, at string) {
		if prev != r.countSite || r.countSite == "" {
			return
		}
		// after its capacity check handleTransaction either refuses (next site: the statistics
		// mutex in txnpool_server.go) or takes a verification slot (next site in txnpool_actor.go)
		if strings.HasPrefix(at, "txnpool_actor.go:") || strings.HasPrefix(at, "recvwait txnpool_actor.go:") {
			if r.lastCount[t] >= r.cap {
				r.admitFull++
				r.fullSeen = r.lastCount[t]
			} else {
				r.admitBelow++
			}
		}
	}
	orderCalls, orderSeed := uint64(0), uint64(p.C("order", 1))
	tc.SimOrder = func(n int) []int {
		orderCalls++
		return kernel.NewRNG(kernel.Derive(orderSeed, "maporder", orderCalls)).Perm(n)
	}
	tc.SimYield, tc.SimNote = s.yield, s.note
	defer func() { tc.SimYield, tc.SimNote, tc.SimOrder = nil, nil, nil }()
	names := func(t int) string {
		switch {
		case t < nC:
			return fmt.Sprintf("client%d", t)
		case t == nC:
			return "consensus"
		}
		return "commit"
	}
	for t := 0; t < ntasks; t++ {
		t := t
		if len(perTask[t]) == 0 {
			continue
		}
		r.fixed = append(r.fixed, s.spawn(names(t), func() {
			for _, a := range perTask[t] {
				r.do(t, a)
			}
		}))
	}
	// reactive tasks: a worker serves one of its non-empty queues per iteration (the loop body of
	// txPoolWorker.start, the plan choosing the select case); the validators answer one
	// outstanding request per iteration. Both idle (disabled until some other task progressed)
	// when there is nothing to do and end when the system is quiescent.
	for w := 0; w < r.nW; w++ {
		w := w
		s.spawn(fmt.Sprintf("worker%d", w), func() {
			for i := 0; ; {
				load := r.workerLoad(r.node.srv, w)
				var avail []int
				for q := 0; q < 3; q++ {
					if load[q] > 0 {
						avail = append(avail, q)
					}
				}
				choice, tick := int64(0), int64(0)
				if i < len(wsel[w]) {
					choice, tick = wsel[w][i][0], wsel[w][i][1]
				}
				if tick == 1 && load[3] == 1 {
					// with exactly one pending transaction the timeout sweep (a Go map range) is deterministic
					i++
					kernel.Advance(10 * time.Second)
					r.workerStep(r.node.srv, w, 3)
					run.Fault("verification_timeout_sweep")
					continue
				}
				if len(avail) == 0 {
					if r.quiescent() {
						return
					}
					s.yield("recvwait idle")
					continue
				}
				i++
				if r.workerStep(r.node.srv, w, avail[int(choice%int64(len(avail)))]) {
					run.Probe("srv_worker_step")
				}
			}
		})
	}
	s.spawn("validators", func() {
		for i := 0; ; {
			if len(r.reqs) == 0 {
				if r.quiescent() {
					return
				}
				s.yield("recvwait idle")
				continue
			}
			pick, flags := int64(0), int64(0)
			if i < len(vsel) {
				pick, flags = vsel[i][0], vsel[i][1]
			}
			i++
			r.respond(pick, flags)
		}
	})
	// when only tasks waiting for a verification slot remain, the rest of the system (workers,
	// validators, the workers' 9 s timeout sweep) keeps running in production; here the
	// scheduler goroutine plays them until a slot is free again
	for {
		s.runAll()
		if s.deadlock && r.onlyWaiters() {
			// every live task waits: clients for a verification slot, reactive tasks for work
			if r.quiescent() || r.drainRound(true) {
				run.Probe("srv_slot_backpressure")
				for _, t := range s.tasks {
					t.waitRecv = false
				}
				continue
			}
		}
		break
	}
	stuck := s.waiting()
	s.abortAll()
	run.Steps += s.steps
	if s.prefix12 != nil {
		run.State(s.prefix12)
	} else {
		run.State(s.seq)
	}
	if s.lockwaits > 0 {
		run.Probe("srv_lock_contention")
	}
	run.Logf("server schedule: tasks=%d steps=%d switches=%d lockwaits=%d seq=%x cap=%d lim=%d", len(s.tasks), s.steps, s.switches, s.lockwaits, s.seq[:min(8, len(s.seq))], r.cap, r.lim)
	if r.node.panicVal != nil {
		run.Fail("C37", "panic-in-pool-server", "a pool actor panicked: %v\n%s", r.node.panicVal, hexRe.ReplaceAllString(trimStack(r.node.panicStack), ""))
		return
	}
	if t := s.firstPanic(); t != nil {
		run.Fail("C37", "panic-in-pool-server", "%s panicked: %v\n%s", t.name, t.panicVal, hexRe.ReplaceAllString(trimStack(t.stack), ""))
		return
	}
	if s.overflow {
		run.Fail("C37", "no-progress", "step budget exhausted:%s", stuck)
		return
	}
	if s.deadlock {
		run.Fail("C37", "deadlock", "no task can run:%s", stuck)
		return
	}
	tc.SimYield, tc.SimNote = nil, nil
	// drain: every queued message is handled, every outstanding validator request answered honestly
	for i := 0; i < 500 && r.drainRound(false); i++ {
	}
	r.finish(true)
}

func (r *srvRun) onlyWaiters() bool {
	n := 0
	for _, t := range r.s.tasks {
		if t.done {
			continue
		}
		if !t.waitRecv {
			return false
		}
		n++
	}
	return n > 0
}

// quiescent: every task with a fixed operation list finished, no validator owes an answer and
// no worker has a queued message.
func (r *srvRun) quiescent() bool {
	for _, t := range r.fixed {
		if !t.done {
			return false
		}
	}
	if len(r.reqs) > 0 {
		return false
	}
	for w := 0; w < r.nW; w++ {
		l := r.workerLoad(r.node.srv, w)
		if l[0]+l[1]+l[2] > 0 {
			return false
		}
	}
	return true
}

// drainRound lets every worker handle what is queued and answers every outstanding validator
// request honestly. It runs on the scheduler goroutine while every task is parked (none of
// them holds a mutex: a slot waiter is outside every critical section).
func (r *srvRun) drainRound(timeouts bool) bool {
	progress := false
	for w := 0; w < r.nW; w++ {
		for which := 0; which < 3; which++ {
			for r.workerStep(r.node.srv, w, which) {
				progress = true
				r.monitor()
			}
		}
	}
	for len(r.reqs) > 0 {
		r.respond(0, 0)
		progress = true
		r.monitor()
	}
	if !progress && timeouts {
		// nothing is queued and no validator owes an answer: what still occupies the slots are
		// verifications whose responses were lost; the workers' timer expires them
		kernel.Advance(10 * time.Second)
		for w := 0; w < r.nW; w++ {
			if r.workerLoad(r.node.srv, w)[3] > 0 {
				r.workerStep(r.node.srv, w, 3)
				r.run.Fault("verification_timeout_sweep")
				progress = true
				r.monitor()
			}
		}
	}
	return progress
}

func (r *srvRun) onConsensus(m interface{}) {
	switch rsp := m.(type) {
	case *tc.GetTxnPoolRsp:
		if len(r.gtpQ) == 0 {
			r.fail("unsolicited-consensus-reply", "GetTxnPoolRsp without request")
			return
		}
		q := r.gtpQ[0]
		r.gtpQ = r.gtpQ[1:]
		r.run.Probe("srv_gettxpool_reply")
		if q.byCount && len(rsp.TxnPool) > r.maxTx {
			r.fail("gettxpool-exceeds-configured-count", "GetTxnPoolReq(byCount, height %d) answered with %d entries, configured maximum %d", q.height, len(rsp.TxnPool), r.maxTx)
		}
		seen := map[int]bool{}
		for _, e := range rsp.TxnPool {
			i := r.idx[e.Tx.Hash()]
			if seen[i] {
				r.fail("hash-twice", "GetTxnPoolRsp lists tx%d twice", i)
			}
			seen[i] = true
			if h, ok := statefulHeight(e); !ok || h < q.height {
				r.fail("gettxpool-entry-verified-below-requested-height", "GetTxnPoolReq(height %d) answered with tx%d verified at %d (stateful result present=%v)", q.height, i, h, ok)
			}
		}
		if len(rsp.TxnPool) > 0 {
			r.run.Probe("srv_gettxpool_nonempty")
		}
	case *tc.VerifyBlockRsp:
		r.run.Probe("srv_verify_block_reply")
		seen := map[int]bool{}
		for _, e := range rsp.TxnPool {
			i, known := r.idx[e.Tx.Hash()]
			if !known || !r.fromBlock[i] {
				r.fail("verify-block-reply-foreign-tx", "VerifyBlockRsp contains a transaction that was in no block request")
			}
			if seen[i] {
				r.fail("hash-twice", "VerifyBlockRsp lists tx%d twice", i)
			}
			seen[i] = true
		}
	}
}

// finish applies the quiescence invariants and reports.
func (r *srvRun) finish(drained bool) {
	run := r.run
	r.monitor()
	keys := r.poolKeys(r.pool)
	srvPend, per := r.pending(r.node.srv)
	inPool := map[int]bool{}
	var poolIdx []int
	for _, h := range keys {
		i := r.idx[h]
		if inPool[i] {
			r.fail("hash-twice", "pool holds tx%d twice", i)
		}
		inPool[i] = true
		poolIdx = append(poolIdx, i)
	}
	sort.Ints(poolIdx)
	owner := map[int]int{}
	var pendIdx []int
	for w, l := range per {
		for _, h := range l {
			i := r.idx[h]
			if o, dup := owner[i]; dup {
				r.fail("hash-pending-at-two-workers", "tx%d is being verified by worker %d and worker %d at quiescence", i, o, w)
			}
			owner[i] = w
			pendIdx = append(pendIdx, i)
			if drained && inPool[i] {
				r.fail("hash-in-pool-and-pending", "at quiescence tx%d is in the verified pool and in worker %d's pending list", i, w)
			}
		}
	}
	sort.Ints(pendIdx)
	var srvIdx []int
	for _, h := range srvPend {
		srvIdx = append(srvIdx, r.idx[h])
	}
	sort.Ints(srvIdx)
	if drained && fmt.Sprint(srvIdx) != fmt.Sprint(pendIdx) {
		run.Probe("srv_pending_lists_differ_at_quiescence")
	}
	run.Logf("quiescence drained=%v pool=%v serverPending=%v workerPending=%v maxPool=%d cap=%d overshootAtStep=%d", drained, poolIdx, srvIdx, pendIdx, r.maxPool, r.cap, r.overAt)
	if r.maxPool >= r.cap {
		run.Probe("srv_capacity_reached")
	}
	if len(poolIdx) > 0 {
		run.Probe("srv_pool_nonempty_at_end")
	}
	if r.admitBelow > 0 {
		run.Probe("srv_admission_observed")
	}
	if r.failKey != "" {
		run.Fail("C37", r.failKey, "%s", r.failMsg)
	}
	if r.admitFull > 0 {
		// NOT the known in-flight mechanism: the capacity check itself let a transaction through
		run.Fail("C37", "admitted-while-pool-at-capacity", "TxActor.handleTransaction took a verification slot for a transaction although its capacity check read a verified pool of %d with MAX_CAPACITY=%d (%d such admissions)", r.fullSeen, r.cap, r.admitFull)
	}
	h := sha256.New()
	h.Write(r.s.seq)
	fmt.Fprintf(h, "%v%v%v", poolIdx, srvIdx, pendIdx)
	if r.s.switches > 0 {
		run.Nontrivial(h.Sum(nil))
	}
	run.Sample = map[string]interface{}{"level": "server", "tasks": len(r.s.tasks), "steps": r.s.steps, "cap": r.cap, "lim": r.lim, "max_pool": r.maxPool, "pool_at_end": poolIdx}
	if r.overAt > 0 && r.admitFull == 0 {
		// Exactly two explanations are accepted for an overshoot when every admission decision was
		// taken below capacity; anything else gets its own key.
		switch {
		case r.overBlock:
			run.Fail("C37", "capacity-exceeded-with-consensus-block-txs", "the verified pool reached %d transactions with MAX_CAPACITY=%d (MAX_LIMITATION=%d in-flight verifications): some of them entered verification through a consensus VerifyBlockReq, which is not subject to the capacity check", r.maxPool, r.cap, r.lim)
		case r.admitBelow > 0:
			run.Fail("C37", "capacity-exceeded-by-in-flight-admissions", "the verified pool reached %d transactions with MAX_CAPACITY=%d (MAX_LIMITATION=%d in-flight verifications): every transaction in it was admitted by TxActor.handleTransaction while the verified pool was still below MAX_CAPACITY (%d admissions observed below capacity, none at or above it)", r.maxPool, r.cap, r.lim, r.admitBelow)
		default:
			run.Fail("C37", "capacity-exceeded-unexplained", "the verified pool reached %d transactions with MAX_CAPACITY=%d although no admission through TxActor and no consensus block request was observed", r.maxPool, r.cap)
		}
	}
}
