package pool

import (
	"crypto/sha256"
	"fmt"
	"runtime"
	"sort"
	"testing/synctest"
	"time"

	"github.com/ontio/ontology-crypto/keypair"
	"github.com/ontio/ontology-eventbus/actor"
	"github.com/ontio/ontology-eventbus/mailbox"
	"github.com/polynetwork/poly/account"
	"github.com/polynetwork/poly/common"
	"github.com/polynetwork/poly/core/types"
	"github.com/polynetwork/poly/native/service/governance/node_manager"
	"github.com/polynetwork/poly/native/service/governance/relayer_manager"
	tc "github.com/polynetwork/poly/txnpool/common"
	"github.com/polynetwork/poly/txnpool/proc"

	"polysim/chain"
	"polysim/engines/e1"
	"polysim/kernel"
)

// ---- simulator-owned actor process: captures whatever is sent to it ---------------------------

type sinkProc struct {
	got []interface{}
	on  func(sender *actor.PID, msg interface{})
}

func (k *sinkProc) SendUserMessage(pid *actor.PID, m interface{}) {
	var sender *actor.PID
	if env, ok := m.(*actor.MessageEnvelope); ok {
		m, sender = env.Message, env.Sender
	}
	if k.on != nil {
		k.on(sender, m)
		return
	}
	k.got = append(k.got, m)
}
func (k *sinkProc) SendSystemMessage(pid *actor.PID, m interface{}) {}
func (k *sinkProc) Stop(pid *actor.PID)                             {}

func (k *sinkProc) take() interface{} {
	if len(k.got) == 0 {
		return nil
	}
	m := k.got[0]
	k.got = k.got[1:]
	return m
}

func newSink(label string) (*sinkProc, *actor.PID) {
	k := &sinkProc{}
	pid, _ := actor.ProcessRegistry.Add(k, "polysim-"+label+"-"+actor.ProcessRegistry.NextId())
	return k, pid
}

// poolNode is a real TXPoolServer with its three real actors, spawned with the synchronous
// dispatcher so that Receive runs inline in the caller.
type poolNode struct {
	srv            *proc.TXPoolServer
	txPid, poolPid *actor.PID
	rspPid         *actor.PID
	reply          *sinkProc
	replyPid       *actor.PID
	extra          []*actor.PID
	realWorkers    bool
	panicVal       interface{}
	panicStack     string
}

// guardActor wraps a real poly actor: a panic inside Receive is recorded for the oracle instead
// of being swallowed by the mailbox (which would print it and restart the actor).
type guardActor struct {
	inner actor.Actor
	node  *poolNode
}

func (g *guardActor) Receive(ctx actor.Context) {
	defer func() {
		if e := recover(); e != nil {
			if _, ok := e.(abortSentinel); ok {
				return
			}
			if g.node.panicVal == nil {
				buf := make([]byte, 8<<10)
				g.node.panicVal, g.node.panicStack = e, string(buf[:runtime.Stack(buf, false)])
			}
		}
	}()
	g.inner.Receive(ctx)
}

func (n *poolNode) spawnSync(producer func() actor.Actor) *actor.PID {
	return actor.Spawn(actor.FromProducer(func() actor.Actor { return &guardActor{inner: producer(), node: n} }).WithDispatcher(mailbox.NewSynchronizedDispatcher(64)))
}

func newPoolNode(workers uint8, disablePreExec bool) *poolNode {
	n := &poolNode{realWorkers: workers > 0}
	n.srv = proc.NewTxPoolServer(workers, disablePreExec, true)
	n.txPid = n.spawnSync(func() actor.Actor { return proc.NewTxActor(n.srv) })
	n.poolPid = n.spawnSync(func() actor.Actor { return proc.NewTxPoolActor(n.srv) })
	n.rspPid = n.spawnSync(func() actor.Actor { return proc.NewVerifyRspActor(n.srv) })
	n.srv.RegisterActor(tc.TxActor, n.txPid)
	n.srv.RegisterActor(tc.TxPoolActor, n.poolPid)
	n.srv.RegisterActor(tc.VerifyRspActor, n.rspPid)
	n.reply, n.replyPid = newSink("reply")
	return n
}

func (n *poolNode) close() {
	if n.realWorkers {
		n.srv.Stop() // stops the actors and the worker goroutines
	} else {
		for _, p := range []*actor.PID{n.txPid, n.poolPid, n.rspPid} {
			p.Stop()
		}
	}
	actor.ProcessRegistry.Remove(n.replyPid)
	for _, p := range n.extra {
		actor.ProcessRegistry.Remove(p)
	}
}

// ask sends a request to one of the real actors and returns the captured reply.
func (n *poolNode) ask(to *actor.PID, req interface{}) interface{} {
	n.reply.got = nil
	to.Request(req, n.replyPid)
	return n.reply.take()
}

// ---- C36 ---------------------------------------------------------------------------------------

func genC36(rng *kernel.RNG, idx int, tier string) *kernel.Plan {
	p := &kernel.Plan{Cfg: map[string]int64{"n": int64(rng.Range(4, 7)), "net": []int64{1, 2, 77}[rng.Intn(3)], "reexec": 0}}
	S := func(op string, a ...int64) { p.Steps = append(p.Steps, kernel.Step{Op: op, A: a}) }
	r := func(n int) int64 { return int64(rng.Intn(n)) }
	deficit := func() int64 {
		if rng.Chance(0.2) {
			return 1
		}
		return 0
	}
	submit := func() {
		S("submit", r(15), r(16), r(16), r(16), 1+r(2))
	}
	steps := rng.Range(18, 40)
	if tier == "thorough" {
		steps = rng.Range(18, 70)
	}
	// swarm knobs
	wGov := rng.Range(0, 3) // weight of validator-set changes
	wAdv := rng.Range(1, 3)
	submit()
	for i := 0; i < steps; i++ {
		switch x := rng.Intn(20 + 2*wGov + 2*wAdv); {
		case x < 4:
			S("reg", r(5), deficit())
			if rng.Chance(0.7) {
				submit()
			}
		case x < 6:
			S("rm", r(5), deficit())
			if rng.Chance(0.8) {
				submit()
			}
		case x < 7:
			S("approve", r(2), r(4), 1+r(3))
		case x < 8:
			S("block")
		case x < 20:
			submit()
		case x < 20+2*wGov:
			switch rng.Intn(5) {
			case 0, 1:
				k := r(5)
				S("cand", k, deficit())
				if rng.Chance(0.5) {
					// the new pool member submits before and after the one-minute cache refresh
					if rng.Chance(0.5) {
						S("submit", 2, p.Cfg["n"]+k, 0, 0, 1+r(2))
					}
					S("adv", int64(rng.Range(55, 100)))
					S("submit", 2, p.Cfg["n"]+k, 0, 0, 1+r(2))
				}
			case 2:
				S("black", r(12), deficit())
			case 3:
				S("quit", r(12))
			default:
				S("dpos")
			}
			if rng.Chance(0.6) {
				submit()
			}
		default:
			S("adv", int64(rng.Range(1, 100)))
			if rng.Chance(0.7) {
				submit()
			}
		}
	}
	return p
}

type c36 struct {
	run  *kernel.Run
	h    *e1.Harness
	node *poolNode
	// ground truth kept by the simulator
	known     map[common.Address]string // permitted consensus addresses seen in committed state at or before now
	everRel   map[common.Address]bool   // was a registered relayer at some point
	nextApply uint64
	nextRm    uint64
	outsiders int
	nonce     uint32
	sig       []byte
}

// snapshot records the consensus-related addresses of the committed governance state: every
// member of the current view's peer pool, the operator multi-address of the consensus members
// and the multi-address over all members.
func (c *c36) snapshot() {
	pm, _, err := e1.PeerPool(c.h.S.Prod())
	if err != nil {
		panic(err)
	}
	ids := make([]string, 0, len(pm.PeerPoolMap))
	for id := range pm.PeerPoolMap {
		ids = append(ids, id)
	}
	sort.Strings(ids)
	var all, cons []keypair.PublicKey
	for _, id := range ids {
		a := c.h.S.W.ByPub(id)
		if a == nil {
			continue
		}
		if _, ok := c.known[a.Address]; !ok {
			c.known[a.Address] = "peer"
		}
		all = append(all, a.PublicKey)
		if pm.PeerPoolMap[id].Status == node_manager.ConsensusStatus {
			cons = append(cons, a.PublicKey)
		}
	}
	for _, u := range c.h.S.Users {
		if c.h.View().IsRelayer(u.Address) {
			c.everRel[u.Address] = true
		}
	}
	for _, set := range [][]keypair.PublicKey{all, cons} {
		if len(set) == 0 {
			continue
		}
		if op, err := types.AddressFromBookkeepers(set); err == nil {
			if _, ok := c.known[op]; !ok {
				c.known[op] = "operator"
			}
		}
	}
}

func (c *c36) exec(what string, txs ...*types.Transaction) ([]*e1.TxTrace, bool) {
	tr, ok := c.h.Exec(txs...)
	if !ok {
		return nil, false
	}
	nok := 0
	for _, t := range tr {
		if t.OK {
			nok++
		}
	}
	c.run.Logf("%s: block %d txs=%d ok=%d", what, c.h.Height(), len(txs), nok)
	c.snapshot()
	c.h.S.Prod().Use()
	return tr, true
}

func (c *c36) quorum(deficit int64) []*account.Account {
	vals := c.h.Validators()
	q := (2*len(vals) + 2) / 3
	if deficit != 0 && q > 0 {
		q--
	}
	return vals[:q]
}

func (c *c36) peers() []*account.Account { return c.h.S.Peers() }

// classify describes an address by ground truth (for the trace and the probes only).
func (c *c36) classify(a common.Address) string {
	v := c.h.View()
	switch {
	case v.IsRelayer(a):
		return "relayer"
	case c.known[a] != "":
		cons, _ := v.Consensus()
		if cons[a] {
			return "consensus"
		}
		if op, ok := v.Operator(); ok && op == a {
			return "operator"
		}
		return "known-" + c.known[a]
	case c.everRel[a]:
		return "removed-relayer"
	}
	return "stranger"
}

func execC36(run *kernel.Run) {
	reset, _ := tc.SimHooks["proc.resetPermitted"].(func())
	if reset == nil {
		run.Logf("overlay hook proc.resetPermitted missing: the process-wide permitted-address cache cannot be isolated per run; nothing evaluated")
		run.Probe("reset_hook_missing")
		return
	}
	kernel.InBubble(func() { execC36In(run, reset) })
}

func execC36In(run *kernel.Run, reset func()) {
	p := run.Plan
	reset()
	defer reset()
	h, err := e1.NewHarness(run, int(clamp(p.C("n", 4), 4, 7)), 0, uint32(clamp(p.C("net", 77), 1, 1000)), 100000)
	if err != nil {
		panic(err)
	}
	defer h.Close()
	c := &c36{run: run, h: h, known: map[common.Address]string{}, everRel: map[common.Address]bool{}}
	h.S.Prod().Use()
	c.node = newPoolNode(1, true)
	defer func() {
		c.node.close()
		synctest.Wait()
	}()
	c.snapshot()
	start := time.Now()
	for i, st := range p.Steps {
		run.StepNo = i
		run.Steps++
		a := func(k int) int64 { return abs64(st.Arg(k)) }
		switch st.Op {
		case "reg", "rm":
			u := h.S.User(a(0))
			method, approve, id := relayer_manager.REGISTER_RELAYER, relayer_manager.APPROVE_REGISTER_RELAYER, c.nextApply
			if st.Op == "rm" {
				method, approve, id = relayer_manager.REMOVE_RELAYER, relayer_manager.APPROVE_REMOVE_RELAYER, c.nextRm
			}
			txs := []*types.Transaction{h.Signed(chain.RelayerManager, method, chain.Args(&relayer_manager.RelayerListParam{AddressList: []common.Address{u.Address}, Address: u.Address}), u)}
			for _, v := range c.quorum(a(1)) {
				txs = append(txs, h.Signed(chain.RelayerManager, approve, chain.Args(&relayer_manager.ApproveRelayerParam{ID: id, Address: v.Address}), v))
			}
			tr, ok := c.exec(fmt.Sprintf("%s user%d id=%d approvals=%d", st.Op, a(0)%5, id, len(txs)-1), txs...)
			if !ok {
				return
			}
			if len(tr) > 0 && tr[0].OK {
				if st.Op == "reg" {
					c.nextApply++
				} else {
					c.nextRm++
				}
			}
		case "approve":
			approve, id := relayer_manager.APPROVE_REGISTER_RELAYER, uint64(0)
			if a(0)%2 == 1 {
				approve = relayer_manager.APPROVE_REMOVE_RELAYER
				if c.nextRm > 0 {
					id = uint64(a(1)) % c.nextRm
				}
			} else if c.nextApply > 0 {
				id = uint64(a(1)) % c.nextApply
			}
			vals := h.Validators()
			var txs []*types.Transaction
			for k := 0; k < int(a(2)) && k < len(vals); k++ {
				v := vals[len(vals)-1-k] // the members a deficient round left out come last
				txs = append(txs, h.Signed(chain.RelayerManager, approve, chain.Args(&relayer_manager.ApproveRelayerParam{ID: id, Address: v.Address}), v))
			}
			if _, ok := c.exec(fmt.Sprintf("approve kind=%d id=%d n=%d", a(0)%2, id, len(txs)), txs...); !ok {
				return
			}
		case "cand":
			cd := h.S.Cands[a(0)%int64(len(h.S.Cands))]
			txs := []*types.Transaction{h.Signed(chain.NodeManager, node_manager.REGISTER_CANDIDATE, chain.Args(&node_manager.RegisterPeerParam{PeerPubkey: chain.PubHex(cd), Address: cd.Address}), cd)}
			for _, v := range c.quorum(a(1)) {
				txs = append(txs, h.Signed(chain.NodeManager, node_manager.APPROVE_CANDIDATE, chain.Args(&node_manager.PeerParam{PeerPubkey: chain.PubHex(cd), Address: v.Address}), v))
			}
			if _, ok := c.exec(fmt.Sprintf("cand cand%d approvals=%d", a(0)%5, len(txs)-1), txs...); !ok {
				return
			}
		case "black":
			ps := c.peers()
			pe := ps[a(0)%int64(len(ps))]
			var txs []*types.Transaction
			for _, v := range c.quorum(a(1)) {
				txs = append(txs, h.Signed(chain.NodeManager, node_manager.BLACK_NODE, chain.Args(&node_manager.PeerListParam{PeerPubkeyList: []string{chain.PubHex(pe)}, Address: v.Address}), v))
			}
			if _, ok := c.exec(fmt.Sprintf("black peer%d votes=%d", a(0)%int64(len(ps)), len(txs)), txs...); !ok {
				return
			}
		case "quit":
			ps := c.peers()
			pe := ps[a(0)%int64(len(ps))]
			if _, ok := c.exec(fmt.Sprintf("quit peer%d", a(0)%int64(len(ps))), h.Signed(chain.NodeManager, node_manager.QUIT_NODE, chain.Args(&node_manager.PeerParam{PeerPubkey: chain.PubHex(pe), Address: pe.Address}), pe)); !ok {
				return
			}
		case "dpos":
			if _, ok := c.exec("dpos", h.Operator(chain.NodeManager, node_manager.COMMIT_DPOS, nil)); !ok {
				return
			}
		case "block":
			if _, ok := c.exec("empty"); !ok {
				return
			}
		case "adv":
			d := time.Duration(clamp(st.Arg(0), 1, 200)) * time.Second
			kernel.Advance(d)
			synctest.Wait()
			run.Logf("clock +%v", d)
		case "submit":
			if !c.submit(st) {
				return
			}
		}
		if run.FirstFor("C36") != nil {
			return
		}
	}
	run.SimTimeMs += time.Since(start).Milliseconds()
	if len(c.sig) > 0 {
		run.Nontrivial(c.sig)
	}
}

// submit builds a transaction signed by the plan-chosen signer set, hands it to the real
// TxActor and applies the oracle to what the pool did with it.
func (c *c36) submit(st kernel.Step) bool {
	run, h := c.run, c.h
	a := func(k int) int64 { return abs64(st.Arg(k)) }
	c.nonce++
	tx := h.S.W.NewTx(chain.CrossChain, "poolsim", []byte{byte(c.nonce), byte(c.nonce >> 8)}, 1000000+c.nonce)
	var addrs []common.Address
	var desc string
	single := func(label string, acc *account.Account) {
		tx = chain.SignTx(tx, acc)
		addrs = append(addrs, acc.Address)
		desc += " " + label
	}
	multi := func(label string, accs []*account.Account) {
		if len(accs) < 2 {
			single(label, accs[0])
			return
		}
		var pubs []keypair.PublicKey
		for _, x := range accs {
			pubs = append(pubs, x.PublicKey)
		}
		m := len(accs) - (len(accs)-1)/3
		tx = chain.MultiSignTx(tx, m, pubs, accs[:m]...)
		ad, _ := types.AddressFromMultiPubKeys(pubs, m)
		addrs = append(addrs, ad)
		desc += " " + label
	}
	user := func(k int64) { single(fmt.Sprintf("user%d", k%5), h.S.User(k)) }
	peer := func(k int64) {
		ps := c.peers()
		single(fmt.Sprintf("peer%d", k%int64(len(ps))), ps[k%int64(len(ps))])
	}
	outsider := func() {
		c.outsiders++
		single("outsider", h.S.W.Account(fmt.Sprintf("outsider%d", c.outsiders)))
	}
	degen := "" // degenerate signer sets: no signing address can be derived, or one that is nobody's
	switch a(0) % 15 {
	case 10, 11:
		// no signature entry at all (a legal wire shape: the genesis transactions look like this)
		tx = chain.Rewire(tx)
		degen, desc = "zero_signature", " <no signatures>"
	case 12:
		// one signature entry with no public key and no signature (Sig.Serialize refuses to write
		// it, the decoder accepts it): hand-made wire bytes
		sink := common.NewZeroCopySink(nil)
		if err := tx.SerializeUnsigned(sink); err != nil {
			panic(err)
		}
		sink.WriteVarUint(1)
		sink.WriteUint16(0)
		sink.WriteUint16(0)
		sink.WriteUint16(uint16(a(1) % 2))
		t2, err := types.TransactionFromRawBytes(sink.Bytes())
		if err != nil {
			panic(fmt.Sprintf("empty-pubkeys entry does not decode: %v", err))
		}
		tx = t2
		degen, desc = "empty_pubkeys_entry", fmt.Sprintf(" <entry without public keys, M=%d>", a(1)%2)
	case 13:
		// the public keys of permitted parties (a validator and a user) listed under an impossible
		// threshold (0 or > n): no address can be derived from the entry
		m := uint16(0)
		if a(2)%2 == 1 {
			m = 3
		}
		tx.Sigs = append(tx.Sigs, types.Sig{PubKeys: []keypair.PublicKey{h.Validators()[0].PublicKey, h.S.User(a(1)).PublicKey}, M: m})
		tx = chain.Rewire(tx)
		degen, desc = "invalid_multisig_threshold", fmt.Sprintf(" <validator+user%d keys, M=%d of 2>", a(1)%5, m)
	case 14:
		// well-formed multi-signature entries whose derived address is nobody's
		vals := h.Validators()
		if a(2)%2 == 0 && len(vals) >= 3 {
			// the consensus keys under a threshold other than the operator's
			var pubs []keypair.PublicKey
			for _, x := range vals {
				pubs = append(pubs, x.PublicKey)
			}
			m := len(vals) - (len(vals)-1)/3 - 1
			tx = chain.MultiSignTx(tx, m, pubs, vals[:m]...)
			ad, _ := types.AddressFromMultiPubKeys(pubs, m)
			addrs = append(addrs, ad)
			desc = fmt.Sprintf(" multisig(consensus keys, %d of %d instead of the operator threshold)", m, len(vals))
		} else {
			c.outsiders++
			o := h.S.W.Account(fmt.Sprintf("outsider%d", c.outsiders))
			pubs := []keypair.PublicKey{vals[int(a(1))%len(vals)].PublicKey, o.PublicKey}
			tx = chain.MultiSignTx(tx, 1, pubs, o)
			ad, _ := types.AddressFromMultiPubKeys(pubs, 1)
			addrs = append(addrs, ad)
			desc = " multisig(1 of validator+outsider, signed by the outsider)"
		}
		degen = "multisig_address_of_nobody"
	case 0, 1:
		user(a(1))
	case 2:
		peer(a(1))
	case 3:
		user(a(1))
		user(a(2))
	case 4:
		outsider()
		user(a(1))
		if a(3)%2 == 0 {
			peer(a(2))
		}
	case 5:
		multi("operator", h.Validators())
	case 6:
		outsider()
	case 7:
		outsider()
		outsider()
		if a(3)%2 == 0 {
			outsider()
		}
	case 8:
		multi(fmt.Sprintf("multisig(user%d,user%d)", a(1)%5, (a(1)+1+a(2)%4)%5), []*account.Account{h.S.User(a(1)), h.S.User(a(1) + 1 + a(2)%4)})
	case 9:
		outsider()
		peer(a(1))
	}
	// the oracle's verdict BEFORE looking at what the pool does: is some signing address a
	// relayer in committed state now, or a consensus address known at or before now?
	v := h.View()
	allowed := false
	classes := ""
	for _, ad := range addrs {
		cl := c.classify(ad)
		classes += " " + cl
		if v.IsRelayer(ad) {
			allowed = true
			c.everRel[ad] = true
		}
		if c.known[ad] != "" {
			allowed = true
		}
	}
	if len(addrs) == 0 {
		classes = " none"
	}
	sender := tc.NetSender
	var ch chan *tc.TxResult
	if a(4)%2 == 0 {
		sender = tc.HttpSender
		ch = make(chan *tc.TxResult, 1)
	}
	h.S.Prod().Use()
	before, _ := c.node.ask(c.node.txPid, &tc.GetTxnCountReq{}).(*tc.GetTxnCountRsp)
	c.node.txPid.Tell(&tc.TxReq{Tx: tx, Sender: sender, TxResultCh: ch})
	synctest.Wait()
	chk, _ := c.node.ask(c.node.txPid, &tc.CheckTxnReq{Hash: tx.Hash()}).(*tc.CheckTxnRsp)
	after, _ := c.node.ask(c.node.txPid, &tc.GetTxnCountReq{}).(*tc.GetTxnCountRsp)
	pend, _ := c.node.ask(c.node.poolPid, &tc.GetPendingTxnReq{ByCount: false}).(*tc.GetPendingTxnRsp)
	if chk == nil || after == nil || before == nil || pend == nil || len(after.Count) != 2 || len(before.Count) != 2 {
		panic("pool actors did not answer")
	}
	inPending := false
	for _, t := range pend.Txs {
		if t.Hash() == tx.Hash() {
			inPending = true
		}
	}
	if c.node.panicVal != nil {
		run.Fail("C36", "panic-in-pool-actor", "submission signed by%s made the pool actor panic: %v\n%s", desc, c.node.panicVal, hexRe.ReplaceAllString(trimStack(c.node.panicStack), ""))
		return false
	}
	admitted := chk.Ok
	if admitted != inPending || (admitted && after.Count[0]+after.Count[1] == 0) {
		run.Fail("C36", "bookkeeping-disagrees", "CheckTxnReq=%v, pending list contains it=%v, counts before=%v after=%v", chk.Ok, inPending, before.Count, after.Count)
		return false
	}
	reason := ""
	if ch != nil {
		select {
		case r := <-ch:
			reason = r.Desc
		default:
		}
	}
	run.Probes["__evals"]++
	run.Logf("submit%s [%s ] sender=%s allowed=%v admitted=%v pending=%v %s", desc, classes, sender.Sender(), allowed, admitted, after.Count, reason)
	hs := sha256.Sum256([]byte(fmt.Sprintf("%x|%s|%v|%v", c.sig, classes, allowed, admitted)))
	c.sig = hs[:]
	run.State([]byte(fmt.Sprintf("%s|%v", classes, admitted)))
	if degen != "" {
		if admitted {
			run.Probe("admitted_" + degen)
		} else {
			run.Probe("refused_" + degen)
			if sender == tc.HttpSender {
				run.Probe("refused_" + degen + "_http")
			} else {
				run.Probe("refused_" + degen + "_net")
			}
		}
	}
	if admitted && len(addrs) == 0 {
		run.Fail("C36", "admitted-without-any-signer", "transaction with%s was admitted to the pool (sender %s): no signing address can be derived from it, so none is a registered relayer or a permitted consensus address", desc, sender.Sender())
		return false
	}
	if admitted && !allowed {
		run.Fail("C36", "admitted-without-permitted-signer", "transaction signed by%s (classes:%s) was admitted to the pool: none of its %d signing addresses is a relayer in committed state or a consensus address known at or before now", desc, classes, len(addrs))
		return false
	}
	// probes: what kind of case this was
	kind := "refused_"
	if admitted {
		kind = "admitted_"
	}
	if len(addrs) > 1 {
		kind += "multi_"
	}
	if !allowed {
		run.Probe(kind + "no_permitted_signer")
		for _, ad := range addrs {
			if c.everRel[ad] {
				run.Probe("refused_removed_relayer")
			}
		}
		return true
	}
	first := c.classify(addrs[0])
	via := map[string]bool{}
	for _, ad := range addrs {
		via[c.classify(ad)] = true
	}
	keys := make([]string, 0, len(via))
	for k := range via {
		keys = append(keys, k)
	}
	sort.Strings(keys)
	for _, k := range keys {
		if k != "stranger" && k != "removed-relayer" {
			run.Probe(kind + "via_" + k)
		}
	}
	if admitted && len(addrs) > 1 && (first == "stranger" || first == "removed-relayer") {
		run.Probe("admitted_multi_permitted_signer_not_first")
	}
	// which kinds of signer can explain the admission
	nRel, nInit, nLearned := 0, 0, 0
	for _, ad := range addrs {
		switch {
		case v.IsRelayer(ad):
			nRel++
		case c.known[ad] != "" && c.initial(ad):
			nInit++
		case c.known[ad] != "":
			nLearned++
		}
	}
	if admitted && nRel > 0 && nInit+nLearned == 0 {
		if len(addrs) > 1 {
			run.Probe("admitted_multi_only_via_relayer")
		}
		if c.nextRm > 0 {
			run.Probe("admitted_relayer_after_some_removal")
		}
	}
	if admitted && nLearned > 0 && nRel+nInit == 0 {
		// explained only by a consensus address that was not part of the genesis state: the
		// permitted-address cache must have been refreshed after its first fill
		run.Probe("admitted_consensus_address_learned_by_refresh")
	}
	if !admitted {
		run.Probe("refused_although_permitted") // stale cache (before the one-minute refresh) or candidate quirks: allowed by the property
	}
	return true
}

// initial reports whether the address belonged to the genesis governance state.
func (c *c36) initial(a common.Address) bool {
	for _, v := range c.h.S.Vals {
		if v.Address == a {
			return true
		}
	}
	var pubs []keypair.PublicKey
	for _, v := range c.h.S.Vals {
		pubs = append(pubs, v.PublicKey)
	}
	op, _ := types.AddressFromBookkeepers(pubs)
	return op == a
}
