package pool

import (
	"crypto/sha256"
	"fmt"
	"runtime"
	"strings"
)

// sched is the seeded cooperative scheduler of DESIGN 3.4: logical tasks are real goroutines,
// but only one is ever runnable. Every task parks on its own channel inside yield (which the
// instrumented poly code calls through tc.SimYield); the scheduler goroutine picks the next
// task from the plan (choice mod |enabled|), releases it and waits until it yields again or
// finishes. A task that fails to get a mutex held by a parked task yields with a "lockwait"
// site and is disabled until some mutex is released, so the scheduler always regains control
// and a cycle of waiting tasks is detected as a deadlock instead of hanging the process.
type sched struct {
	tasks    []*task
	cur      *task
	last     *task
	back     chan struct{}
	picks    []int64
	pi       int
	clock    int64 // strictly increasing event stamp: scheduler steps, invocations, returns
	steps    int
	maxSteps int
	abort    bool
	unwind   bool // abort by unwinding parked tasks (sentinel panic) instead of leaking them

	deadlock  bool
	overflow  bool
	lockwaits int
	preemptCS int // switches away from a task that was inside a critical section
	switches  int
	seq       []byte                         // running digest of the (task, site) sequence
	prefix12  []byte                         // digest after 12 steps
	onStep    func()                         // invariant monitor, runs on the scheduler goroutine while every task is parked
	onResume  func(t *task)                  // just before a parked task continues from t.site
	onYield   func(t *task, prev, at string) // the task ran from site prev to site at
	trace     func(string)
}

type task struct {
	id       int
	name     string
	fn       func()
	wake     chan struct{}
	started  bool
	done     bool
	waitLock bool
	waitRecv bool
	held     int // mutexes currently held (approximation: SimLock successes minus unlock notes while running)
	site     string
	panicVal interface{}
	stack    string
}

type abortSentinel struct{}

func newSched(picks []int64, maxSteps int) *sched {
	return &sched{back: make(chan struct{}), picks: picks, maxSteps: maxSteps}
}

func (s *sched) spawn(name string, fn func()) *task {
	t := &task{id: len(s.tasks), name: name, fn: fn, wake: make(chan struct{})}
	s.tasks = append(s.tasks, t)
	return t
}

// stamp returns a fresh event stamp (used for invoke/return times of recorded operations).
func (s *sched) stamp() int64 { s.clock++; return s.clock }

// yield is installed as tc.SimYield. Outside a scheduled task (setup, quiescence checks on
// the scheduler goroutine) it is a no-op.
func (s *sched) yield(site string) {
	t := s.cur
	if t == nil {
		return
	}
	if s.abort {
		panic(abortSentinel{})
	}
	t.site = site
	t.waitLock = strings.HasPrefix(site, "lockwait ")
	t.waitRecv = strings.HasPrefix(site, "recvwait ")
	s.back <- struct{}{}
	<-t.wake
	if s.abort {
		panic(abortSentinel{})
	}
}

// note is installed as tc.SimNote.
func (s *sched) note(kind string) {
	if kind == "lock" {
		if t := s.cur; t != nil {
			t.held++
		}
		return
	}
	if kind == "unlock" {
		if t := s.cur; t != nil && t.held > 0 {
			t.held--
		}
		for _, o := range s.tasks {
			o.waitLock = false
		}
	}
}

func (t *task) main(s *sched) {
	defer func() {
		if e := recover(); e != nil {
			if _, ok := e.(abortSentinel); !ok {
				t.panicVal = e
				buf := make([]byte, 8<<10)
				t.stack = string(buf[:runtime.Stack(buf, false)])
			}
		}
		t.done = true
		t.site = "done"
		s.back <- struct{}{}
	}()
	t.fn()
}

func (s *sched) enabled() []*task {
	var en []*task
	for _, t := range s.tasks {
		if !t.done && !t.waitLock && !t.waitRecv {
			en = append(en, t)
		}
	}
	return en
}

func (s *sched) alive() int {
	n := 0
	for _, t := range s.tasks {
		if !t.done {
			n++
		}
	}
	return n
}

func (s *sched) choose(en []*task) *task {
	lastEnabled := false
	for _, t := range en {
		if t == s.last {
			lastEnabled = true
		}
	}
	if s.pi >= len(s.picks) {
		if lastEnabled {
			return s.last
		}
		return en[0]
	}
	v := s.picks[s.pi]
	s.pi++
	if v == -1 && lastEnabled {
		return s.last
	}
	if v < 0 {
		v = -v
	}
	return en[int(v%int64(len(en)))]
}

func (s *sched) step(t *task) {
	if s.last != nil && s.last != t && !s.last.done {
		s.switches++
		if s.last.held > 0 {
			s.preemptCS++
		}
	}
	s.cur, s.last = t, t
	s.clock++
	s.steps++
	prev := t.site
	if s.onResume != nil {
		s.onResume(t)
	}
	if !t.started {
		t.started = true
		go t.main(s)
	} else {
		t.wake <- struct{}{}
	}
	<-s.back
	s.cur = nil
	if s.onYield != nil {
		s.onYield(t, prev, t.site)
	}
	if t.waitLock {
		s.lockwaits++
	} else if !t.waitRecv {
		// a task that made progress may have produced what a receiver waits for
		for _, o := range s.tasks {
			o.waitRecv = false
		}
	}
	h := sha256.New()
	h.Write(s.seq)
	fmt.Fprintf(h, "%d:%s;", t.id, t.site)
	s.seq = h.Sum(nil)
	if s.steps == 12 {
		s.prefix12 = append([]byte(nil), s.seq...)
	}
	if s.trace != nil {
		s.trace(fmt.Sprintf("%d %s %s", s.steps, t.name, t.site))
	}
}

// runAll schedules until every task finished, a deadlock is detected (no task enabled) or the
// step budget is exhausted. It may be called again after the caller unblocked waiting tasks.
func (s *sched) runAll() {
	s.deadlock, s.overflow = false, false
	for s.alive() > 0 {
		en := s.enabled()
		if len(en) == 0 {
			s.deadlock = true
			return
		}
		if s.steps >= s.maxSteps {
			s.overflow = true
			return
		}
		s.step(s.choose(en))
		if s.onStep != nil {
			s.onStep()
		}
	}
}

// abortAll unwinds every task that is still parked (sentinel panic raised inside yield), so
// that no goroutine outlives the run.
func (s *sched) abortAll() {
	if s.alive() == 0 {
		return
	}
	s.abort, s.unwind = true, true
	for _, t := range s.tasks {
		if t.done || !t.started {
			t.done = true
			continue
		}
		s.cur = t
		t.wake <- struct{}{}
		for !t.done {
			<-s.back
		}
		s.cur = nil
	}
}

func (s *sched) firstPanic() *task {
	for _, t := range s.tasks {
		if t.panicVal != nil {
			return t
		}
	}
	return nil
}

func (s *sched) waiting() string {
	var b strings.Builder
	for _, t := range s.tasks {
		if !t.done {
			fmt.Fprintf(&b, " %s@%s", t.name, t.site)
		}
	}
	return b.String()
}
