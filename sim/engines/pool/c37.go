package pool

import (
	"crypto/sha256"
	"fmt"
	"sort"
	"strings"
	"time"

	"github.com/anishathalye/porcupine"
	"github.com/polynetwork/poly/common"
	"github.com/polynetwork/poly/common/config"
	"github.com/polynetwork/poly/core/types"
	"github.com/polynetwork/poly/errors"
	tc "github.com/polynetwork/poly/txnpool/common"
	vt "github.com/polynetwork/poly/validator/types"

	"polysim/chain"
	"polysim/kernel"
)

// ---- C37, pool level: the TXPool methods under seeded goroutine schedules -------------------
//
// Tasks (2-4 clients, a consensus task, a block-commit task, a Remain caller) are real
// goroutines calling the real methods of one tc.TXPool; the cooperative scheduler (sched.go)
// interleaves them at the scheduling points the overlay put before every statement and at
// every mutex acquisition. The invoke/return history is checked for linearizability against
// the sequential model below (written from the property text), plus direct per-response
// invariants.

const maxHashes = 6

const (
	kAdd = iota
	kDel
	kGet
	kStatus
	kCount
	kGetTxPool
	kGetUnverified
	kClean
	kRemain
	nKinds
)

var kindName = [...]string{"AddTxList", "DelTxList", "GetTransaction", "GetTxStatus", "GetTransactionCount", "GetTxPool", "GetUnverifiedTxs", "CleanTransactionList", "Remain"}

type hh struct {
	H      int
	Height uint32
}

// opIn / opOut are what the history records (and what the model sees).
type opIn struct {
	Kind    int
	H       int
	Height  uint32
	ByCount bool
	List    []int // hash indices, in call order
	MaxTx   int
}

type opOut struct {
	OK         bool
	Present    bool
	Height     uint32
	N          int
	List       []hh  // GetTxPool first result / GetUnverifiedTxs verified
	Old        []int // re-verification list
	Unverified []int
	Hashes     []int // Remain
	Bad        string
}

func (in opIn) String() string {
	switch in.Kind {
	case kAdd:
		return fmt.Sprintf("AddTxList(h%d@%d)", in.H, in.Height)
	case kDel, kGet, kStatus:
		return fmt.Sprintf("%s(h%d)", kindName[in.Kind], in.H)
	case kGetTxPool:
		return fmt.Sprintf("GetTxPool(byCount=%v,height=%d)", in.ByCount, in.Height)
	case kGetUnverified:
		return fmt.Sprintf("GetUnverifiedTxs(%v,height=%d)", in.List, in.Height)
	case kClean:
		return fmt.Sprintf("CleanTransactionList(%v)", in.List)
	}
	return kindName[in.Kind] + "()"
}

func (o opOut) String() string {
	return fmt.Sprintf("{ok=%v present=%v height=%d n=%d list=%v old=%v unverified=%v hashes=%v %s}", o.OK, o.Present, o.Height, o.N, o.List, o.Old, o.Unverified, o.Hashes, o.Bad)
}

// poolState is the model: per hash index the height of its stateful verification, -1 = absent.
type poolState [maxHashes]int64

func emptyState() poolState {
	var s poolState
	for i := range s {
		s[i] = -1
	}
	return s
}

func (s poolState) count() int {
	n := 0
	for _, v := range s {
		if v >= 0 {
			n++
		}
	}
	return n
}

// modelStep is the sequential specification: may the pool in state s answer `out` to `in`,
// and what is the state afterwards. From the property text: a set keyed by hash (no hash
// twice); consensus gets at most the configured number of entries, all verified at or after
// the requested height, older ones are reported for re-verification and are not in the reply;
// a block commit removes exactly the block's transactions.
func modelStep(s poolState, in opIn, out opOut) (bool, poolState) {
	if out.Bad != "" {
		return false, s
	}
	switch in.Kind {
	case kAdd:
		present := s[in.H] >= 0
		if out.OK == present {
			return false, s
		}
		if out.OK {
			s[in.H] = int64(in.Height)
		}
		return true, s
	case kDel:
		present := s[in.H] >= 0
		if out.OK != present {
			return false, s
		}
		s[in.H] = -1
		return true, s
	case kGet:
		return out.Present == (s[in.H] >= 0), s
	case kStatus:
		if out.Present != (s[in.H] >= 0) {
			return false, s
		}
		return !out.Present || int64(out.Height) == s[in.H], s
	case kCount:
		return out.N == s.count(), s
	case kGetTxPool:
		seen := map[int]bool{}
		for _, e := range out.List {
			if seen[e.H] || s[e.H] != int64(e.Height) || e.Height < in.Height {
				return false, s
			}
			seen[e.H] = true
		}
		for _, h := range out.Old {
			if seen[h] || s[h] < 0 || s[h] >= int64(in.Height) {
				return false, s
			}
			seen[h] = true
		}
		if in.ByCount && in.MaxTx > 0 {
			if len(out.List) > in.MaxTx {
				return false, s
			}
			if s.count() <= in.MaxTx {
				// fewer entries than the limit: same as an unlimited request
				return len(seen) == s.count(), s
			}
			return true, s
		}
		// not by count: the whole pool, split into current and older entries
		return len(seen) == s.count(), s
	case kGetUnverified:
		var ver []hh
		var unv, old []int
		for _, h := range in.List {
			switch {
			case s[h] < 0:
				unv = append(unv, h)
			case s[h] < int64(in.Height):
				old = append(old, h)
				s[h] = -1
			default:
				ver = append(ver, hh{h, uint32(s[h])})
			}
		}
		return fmt.Sprint(ver) == fmt.Sprint(out.List) && fmt.Sprint(unv) == fmt.Sprint(out.Unverified) && fmt.Sprint(old) == fmt.Sprint(out.Old), s
	case kClean:
		for _, h := range in.List {
			s[h] = -1
		}
		return true, s
	case kRemain:
		got := map[int]bool{}
		for _, h := range out.Hashes {
			if got[h] || s[h] < 0 {
				return false, s
			}
			got[h] = true
		}
		if len(got) != s.count() {
			return false, s
		}
		return true, emptyState()
	}
	return false, s
}

var poolModel = porcupine.Model{
	Init: func() interface{} { return emptyState() },
	Step: func(state, input, output interface{}) (bool, interface{}) {
		ok, ns := modelStep(state.(poolState), input.(opIn), output.(opOut))
		return ok, ns
	},
	Equal: func(a, b interface{}) bool { return a.(poolState) == b.(poolState) },
	DescribeOperation: func(in, out interface{}) string {
		return in.(opIn).String() + " -> " + out.(opOut).String()
	},
}

// ---- plan ------------------------------------------------------------------------------------

func genC37Pool(rng *kernel.RNG, idx int, tier string) *kernel.Plan {
	p := &kernel.Plan{Cfg: map[string]int64{"level": 0}}
	nh := rng.Range(2, maxHashes)
	clients := rng.Range(2, 4)
	roles := []int{} // task role per task: 0 client, 1 consensus, 2 commit, 3 remain
	for i := 0; i < clients; i++ {
		roles = append(roles, 0)
	}
	// swarm: each special role present in most runs
	if rng.Chance(0.85) {
		roles = append(roles, 1)
	}
	if rng.Chance(0.7) {
		roles = append(roles, 2)
	}
	if rng.Chance(0.4) {
		roles = append(roles, 3)
	}
	p.Cfg["nhash"] = int64(nh)
	p.Cfg["maxtx"] = int64(rng.Range(1, 3))
	p.Cfg["h0"] = int64(rng.Range(3, 30))
	p.Cfg["order"] = rng.Int63()
	p.Cfg["tasks"] = int64(len(roles))
	mask := func() int64 {
		m := int64(rng.Intn(1 << uint(nh)))
		if m == 0 {
			m = 1 << uint(rng.Intn(nh))
		}
		return m
	}
	mkOp := func(role int) []int64 {
		switch role {
		case 1:
			if rng.Chance(0.6) {
				return []int64{kGetTxPool, int64(rng.Intn(2)), int64(rng.Intn(3)), 0}
			}
			return []int64{kGetUnverified, mask(), int64(rng.Intn(3)), rng.Int63() % 1000}
		case 2:
			if rng.Chance(0.8) {
				return []int64{kClean, mask(), 0, rng.Int63() % 1000}
			}
			return []int64{kCount, 0, 0, 0}
		case 3:
			if rng.Chance(0.6) {
				return []int64{kRemain, 0, 0, 0}
			}
			return []int64{kGetTxPool, 0, int64(rng.Intn(3)), 0}
		}
		switch r := rng.Intn(100); {
		case r < 45:
			return []int64{kAdd, int64(rng.Intn(nh)), int64(rng.Intn(3)), 0}
		case r < 60:
			return []int64{kDel, int64(rng.Intn(nh)), 0, 0}
		case r < 78:
			return []int64{kGet, int64(rng.Intn(nh)), 0, 0}
		case r < 90:
			return []int64{kStatus, int64(rng.Intn(nh)), 0, 0}
		default:
			return []int64{kCount, 0, 0, 0}
		}
	}
	// sequential prefix: fill the pool a little
	for i, n := 0, rng.Intn(nh+1); i < n; i++ {
		p.Steps = append(p.Steps, kernel.Step{Op: "pre", A: append([]int64{0}, []int64{kAdd, int64(rng.Intn(nh)), int64(rng.Intn(3)), 0}...)})
	}
	total := rng.Range(8, 34)
	for i := 0; i < total; i++ {
		t := rng.Intn(len(roles))
		p.Steps = append(p.Steps, kernel.Step{Op: "op", A: append([]int64{int64(t)}, mkOp(roles[t])...)})
	}
	// schedule: mostly "continue the running task", switching with a per-run probability
	sw := []float64{0.03, 0.1, 0.25, 0.5, 1.0}[rng.Intn(5)]
	picks := make([]int64, rng.Range(200, 900))
	for i := range picks {
		if rng.Chance(sw) {
			picks[i] = int64(rng.Intn(64))
		} else {
			picks[i] = -1
		}
	}
	p.Steps = append(p.Steps, kernel.Step{Op: "sched", A: picks})
	return p
}

// ---- execution -------------------------------------------------------------------------------

type poolRun struct {
	run   *kernel.Run
	pool  *tc.TXPool
	txs   []*types.Transaction
	idx   map[common.Uint256]int
	nh    int
	maxTx int
	h0    uint32
	s     *sched
	hist  []porcupine.Operation
}

func (pr *poolRun) hashList(mask, perm int64) []int {
	var l []int
	for i := 0; i < pr.nh; i++ {
		if mask&(1<<uint(i)) != 0 {
			l = append(l, i)
		}
	}
	// rotate by perm so that list order varies
	if len(l) > 1 {
		k := int(perm % int64(len(l)))
		l = append(l[k:], l[:k]...)
	}
	return l
}

func (pr *poolRun) input(a []int64) opIn {
	arg := func(i int) int64 {
		if i < len(a) {
			if a[i] < 0 {
				return -a[i]
			}
			return a[i]
		}
		return 0
	}
	in := opIn{Kind: int(arg(0) % nKinds), MaxTx: pr.maxTx}
	switch in.Kind {
	case kAdd:
		in.H, in.Height = int(arg(1)%int64(pr.nh)), pr.h0+uint32(arg(2)%3)
	case kDel, kGet, kStatus:
		in.H = int(arg(1) % int64(pr.nh))
	case kGetTxPool:
		in.ByCount, in.Height = arg(1)%2 == 1, pr.h0+uint32(arg(2)%3)
	case kGetUnverified:
		in.List, in.Height = pr.hashList(arg(1), arg(3)), pr.h0+uint32(arg(2)%3)
	case kClean:
		in.List = pr.hashList(arg(1), arg(3))
	}
	return in
}

func statefulHeight(e *tc.TXEntry) (uint32, bool) {
	for _, a := range e.Attrs {
		if a.Type == vt.Stateful {
			return a.Height, true
		}
	}
	return 0, false
}

// call executes one pool method and renders its result; it runs inside a task (or on the
// main goroutine for the sequential prefix/suffix).
func (pr *poolRun) call(in opIn) (out opOut) {
	txsOf := func(l []int) []*types.Transaction {
		var t []*types.Transaction
		for _, h := range l {
			t = append(t, pr.txs[h])
		}
		return t
	}
	idxOf := func(t *types.Transaction) int {
		if t == nil {
			out.Bad = "nil transaction in a result list"
			return 0
		}
		i, ok := pr.idx[t.Hash()]
		if !ok {
			out.Bad = "unknown transaction in a result list"
		}
		return i
	}
	switch in.Kind {
	case kAdd:
		e := &tc.TXEntry{Tx: pr.txs[in.H], Attrs: []*tc.TXAttr{{Height: 0, Type: vt.Stateless, ErrCode: errors.ErrNoError}, {Height: in.Height, Type: vt.Stateful, ErrCode: errors.ErrNoError}}}
		out.OK = pr.pool.AddTxList(e)
	case kDel:
		out.OK = pr.pool.DelTxList(pr.txs[in.H])
	case kGet:
		t := pr.pool.GetTransaction(pr.txs[in.H].Hash())
		out.Present = t != nil
		if t != nil && t.Hash() != pr.txs[in.H].Hash() {
			out.Bad = "GetTransaction returned another transaction"
		}
	case kStatus:
		st := pr.pool.GetTxStatus(pr.txs[in.H].Hash())
		out.Present = st != nil
		if st != nil {
			if st.Hash != pr.txs[in.H].Hash() {
				out.Bad = "GetTxStatus returned another hash"
			}
			for _, a := range st.Attrs {
				if a.Type == vt.Stateful {
					out.Height = a.Height
				}
			}
		}
	case kCount:
		out.N = pr.pool.GetTransactionCount()
	case kGetTxPool:
		list, old := pr.pool.GetTxPool(in.ByCount, in.Height)
		for _, e := range list {
			if e == nil {
				out.Bad = "nil entry"
				continue
			}
			h, _ := statefulHeight(e)
			out.List = append(out.List, hh{idxOf(e.Tx), h})
		}
		for _, t := range old {
			out.Old = append(out.Old, idxOf(t))
		}
		// the order of both lists is unspecified: canonicalise
		sort.Slice(out.List, func(i, j int) bool { return out.List[i].H < out.List[j].H })
		sort.Ints(out.Old)
	case kGetUnverified:
		res := pr.pool.GetUnverifiedTxs(txsOf(in.List), in.Height)
		if res == nil {
			out.Bad = "nil result"
			break
		}
		for _, v := range res.VerifiedTxs {
			out.List = append(out.List, hh{idxOf(v.Tx), v.Height})
		}
		for _, t := range res.UnverifiedTxs {
			out.Unverified = append(out.Unverified, idxOf(t))
		}
		for _, t := range res.OldTxs {
			out.Old = append(out.Old, idxOf(t))
		}
	case kClean:
		if err := pr.pool.CleanTransactionList(txsOf(in.List)); err != nil {
			out.Bad = "CleanTransactionList failed: " + err.Error()
		}
	case kRemain:
		for _, t := range pr.pool.Remain() {
			out.Hashes = append(out.Hashes, idxOf(t))
		}
		sort.Ints(out.Hashes)
	}
	return out
}

// direct checks one response against the clauses of the property that need no linearization.
func (pr *poolRun) direct(in opIn, out opOut) (key, msg string) {
	if out.Bad != "" {
		return "malformed-result", out.Bad
	}
	switch in.Kind {
	case kGetTxPool:
		if in.ByCount && pr.maxTx > 0 && len(out.List) > pr.maxTx {
			return "gettxpool-exceeds-configured-count", fmt.Sprintf("%v returned %d entries, configured maximum %d", in, len(out.List), pr.maxTx)
		}
		seen := map[int]bool{}
		for _, e := range out.List {
			if e.Height < in.Height {
				return "gettxpool-entry-verified-below-requested-height", fmt.Sprintf("%v returned h%d verified at %d", in, e.H, e.Height)
			}
			if seen[e.H] {
				return "hash-twice", fmt.Sprintf("%v returned h%d twice", in, e.H)
			}
			seen[e.H] = true
		}
		for _, h := range out.Old {
			if seen[h] {
				return "old-entry-also-returned", fmt.Sprintf("%v reports h%d for re-verification and also returns it (or lists it twice)", in, h)
			}
			seen[h] = true
		}
	case kRemain:
		for i := 1; i < len(out.Hashes); i++ {
			if out.Hashes[i] == out.Hashes[i-1] {
				return "hash-twice", fmt.Sprintf("Remain returned h%d twice", out.Hashes[i])
			}
		}
	}
	return "", ""
}

func execC37Pool(run *kernel.Run) {
	p := run.Plan
	if !tc.SimRewritten["transaction_pool.go"] {
		run.Logf("overlay did not instrument transaction_pool.go: nothing evaluated")
		run.Probe("pool_rewrite_missing")
		return
	}
	run.Probe("pool_rewrite_active")
	pr := &poolRun{run: run, idx: map[common.Uint256]int{}}
	pr.nh = int(clamp(p.C("nhash", 4), 1, maxHashes))
	pr.maxTx = int(clamp(p.C("maxtx", 2), 1, 8))
	pr.h0 = uint32(clamp(p.C("h0", 10), 1, 1000))
	ntasks := int(clamp(p.C("tasks", 3), 1, 8))
	w := &chain.World{}
	for i := 0; i < pr.nh; i++ {
		tx := w.NewTx(chain.RelayerManager, "poolsim", []byte{byte(i)}, uint32(i+1))
		pr.txs = append(pr.txs, tx)
		pr.idx[tx.Hash()] = i
	}
	saved := config.DefConfig.Consensus.MaxTxInBlock
	config.DefConfig.Consensus.MaxTxInBlock = uint(pr.maxTx)
	defer func() { config.DefConfig.Consensus.MaxTxInBlock = saved }()

	pr.pool = &tc.TXPool{}
	pr.pool.Init()

	var picks []int64
	perTask := make([][]opIn, ntasks)
	var pre []opIn
	for _, st := range p.Steps {
		switch st.Op {
		case "sched":
			picks = append(picks, st.A...)
		case "pre":
			if len(st.A) > 1 {
				pre = append(pre, pr.input(st.A[1:]))
			}
		case "op":
			if len(st.A) > 1 {
				t := int(abs64(st.A[0]) % int64(ntasks))
				perTask[t] = append(perTask[t], pr.input(st.A[1:]))
			}
		}
	}
	s := newSched(picks, 40000)
	if run.Verbose {
		s.trace = func(l string) { fmt.Println("    sched", l) }
	}
	pr.s = s
	var failKey, failMsg string
	record := func(client int, in opIn, f func() opOut) {
		call := s.stamp()
		out := f()
		ret := s.stamp()
		pr.hist = append(pr.hist, porcupine.Operation{ClientId: client, Input: in, Call: call, Output: out, Return: ret})
		run.Probe("op_" + kindName[in.Kind])
		if k, m := pr.direct(in, out); k != "" && failKey == "" {
			failKey, failMsg = k, m
		}
		switch in.Kind {
		case kGetTxPool:
			if len(out.Old) > 0 {
				run.Probe("old_reported")
			}
			if in.ByCount && len(out.List) == pr.maxTx {
				run.Probe("gettxpool_at_limit")
			}
		case kGetUnverified:
			if len(out.Old) > 0 {
				run.Probe("getunverified_old")
			}
			if len(out.List) > 0 {
				run.Probe("getunverified_verified")
			}
		case kAdd:
			if !out.OK {
				run.Probe("add_duplicate_refused")
			}
		}
	}
	// sequential prefix (no scheduler installed: plain blocking code path)
	for _, in := range pre {
		in := in
		record(ntasks, in, func() opOut { return pr.call(in) })
	}
	orderCalls := uint64(0)
	orderSeed := uint64(p.C("order", 1))
	tc.SimOrder = func(n int) []int {
		orderCalls++
		return kernel.NewRNG(kernel.Derive(orderSeed, "maporder", orderCalls)).Perm(n)
	}
	tc.SimYield, tc.SimNote = s.yield, s.note
	defer func() { tc.SimYield, tc.SimNote, tc.SimOrder = nil, nil, nil }()
	for t := 0; t < ntasks; t++ {
		t := t
		if len(perTask[t]) == 0 {
			continue
		}
		s.spawn(fmt.Sprintf("task%d", t), func() {
			for _, in := range perTask[t] {
				in := in
				record(t, in, func() opOut { return pr.call(in) })
			}
		})
	}
	s.runAll()
	stuck := s.waiting()
	s.abortAll()
	tc.SimYield, tc.SimNote, tc.SimOrder = nil, nil, nil

	run.Steps += s.steps
	if s.prefix12 != nil {
		run.State(s.prefix12)
	} else {
		run.State(s.seq)
	}
	if s.lockwaits > 0 {
		run.Probe("lock_contention")
	}
	if s.preemptCS > 0 {
		run.Probe("preempted_inside_critical_section")
	}
	run.Logf("schedule: tasks=%d steps=%d switches=%d lockwaits=%d preemptCS=%d seq=%x", len(s.tasks), s.steps, s.switches, s.lockwaits, s.preemptCS, s.seq[:min(8, len(s.seq))])
	if t := s.firstPanic(); t != nil {
		run.Fail("C37", "panic-in-pool", "%s panicked inside a pool method: %v\n%s", t.name, t.panicVal, hexRe.ReplaceAllString(trimStack(t.stack), ""))
		return
	}
	if s.deadlock {
		run.Fail("C37", "deadlock", "no task can run:%s", stuck)
		return
	}
	if s.overflow {
		run.Fail("C37", "no-progress", "step budget exhausted:%s", stuck)
		return
	}
	// quiescence: reads on the main goroutine become the last operations of the history
	for _, in := range []opIn{{Kind: kCount}, {Kind: kGetTxPool, ByCount: false, Height: 0, MaxTx: pr.maxTx}, {Kind: kRemain}, {Kind: kCount}} {
		in := in
		record(ntasks+1, in, func() opOut { return pr.call(in) })
	}
	for _, op := range pr.hist {
		run.Logf("  c%d [%d,%d] %v -> %v", op.ClientId, op.Call, op.Return, op.Input, op.Output)
	}
	if failKey != "" {
		run.Fail("C37", failKey, "%s", failMsg)
		return
	}
	overlap := false
	for i := range pr.hist {
		for j := range pr.hist {
			if i != j && pr.hist[i].Call < pr.hist[j].Call && pr.hist[j].Call < pr.hist[i].Return {
				overlap = true
			}
		}
	}
	res, info := porcupine.CheckOperationsVerbose(poolModel, pr.hist, 20*time.Second)
	switch res {
	case porcupine.Ok:
		run.Probe("lin_checked")
	case porcupine.Unknown:
		run.Probe("lin_unknown_timeout") // inconclusive, never reported as a violation
	case porcupine.Illegal:
		run.Fail("C37", "history-not-linearizable", "the recorded history of %d pool operations has no sequential explanation; longest explainable prefix: %s", len(pr.hist), longestPartial(pr.hist, info))
		return
	}
	if overlap {
		run.Probe("overlapping_operations")
		h := sha256.New()
		h.Write(s.seq)
		for _, op := range pr.hist {
			fmt.Fprintf(h, "%v%v", op.Input, op.Output)
		}
		run.Nontrivial(h.Sum(nil))
	}
	run.Sample = map[string]interface{}{"level": "pool", "tasks": len(s.tasks), "ops": len(pr.hist), "steps": s.steps, "lockwaits": s.lockwaits, "first_ops": firstOps(pr.hist, 6)}
}

func firstOps(h []porcupine.Operation, n int) []string {
	var out []string
	for i, op := range h {
		if i >= n {
			break
		}
		out = append(out, fmt.Sprintf("c%d %v -> %v", op.ClientId, op.Input, op.Output))
	}
	return out
}

func longestPartial(hist []porcupine.Operation, info porcupine.LinearizationInfo) string {
	best := []int{}
	for _, part := range info.PartialLinearizations() {
		for _, l := range part {
			if len(l) > len(best) {
				best = l
			}
		}
	}
	var b strings.Builder
	fmt.Fprintf(&b, "%d of %d ops", len(best), len(hist))
	return b.String()
}

func trimStack(s string) string {
	lines := strings.Split(s, "\n")
	var keep []string
	for _, l := range lines {
		if strings.Contains(l, "txnpool/") || strings.Contains(l, "panic") {
			keep = append(keep, strings.TrimSpace(l))
		}
		if len(keep) >= 8 {
			break
		}
	}
	return strings.Join(keep, "\n")
}

func clamp(v, lo, hi int64) int64 {
	if v < 0 {
		v = -v
	}
	if v < lo {
		return lo
	}
	if v > hi {
		return hi
	}
	return v
}

func abs64(v int64) int64 {
	if v < 0 {
		return -v
	}
	return v
}
