// Package pool is engine E3: the transaction pool (txnpool/common, txnpool/proc) under seeded
// goroutine schedules (C37) and sender admission against a real ledger (C36).
package pool

import (
	"regexp"

	"polysim/kernel"
)

var hexRe = regexp.MustCompile(`(\(0x[^)]*\)|\(\{?0x[^)]*\)| \+0x[0-9a-f]+|0x[0-9a-f]+)`)

func init() {
	kernel.Register(&kernel.Check{
		ID: "C37", Level: "exploration", Engine: "E3 pool (cooperative scheduler over real goroutines)",
		Rule: "a case = one plan: operations with arguments (<= 6 distinct transactions, heights h0..h0+2, MaxTxInBlock 1..3) assigned to 2-7 logical tasks " +
			"(clients, consensus, block commit, Remain caller) plus a schedule (list of picks, choice mod |enabled|, -1 = keep running) and a map-iteration order seed. " +
			"level 0 (pool): the tasks call the real TXPool methods; the invoke/return history (<= 40 ops) is checked with porcupine against a sequential set-with-heights model " +
			"and per-response invariants. level 1 (server): real TXPoolServer + TxActor/TxPoolActor/VerifyRspActor (synchronous dispatcher) + workers stepped by the plan + simulated validators " +
			"answering late/duplicated/stale, MAX_CAPACITY/MAX_LIMITATION shrunk by the overlay knobs. A case is non-trivial if operations of different tasks overlapped in time; " +
			"distinct by digest of the (task,site) sequence and of all results. distinct_states = distinct length-12 prefixes of the (task, yield site) sequence (interleaving coverage)",
		Real: []string{"txnpool/common TXPool (all methods; overlay-instrumented copy: yields before every statement, TryLock+yield mutexes, plan-ordered map iteration)",
			"txnpool/proc TXPoolServer, txPoolWorker bodies (verifyTx, verifyStateful, handleRsp, handleTimeoutEvent, putTxPool), TxActor.handleTransaction/isValidSender, TxPoolActor, VerifyRspActor (overlay copy: mutex calls only)",
			"ontology-eventbus actors with the synchronous dispatcher", "ledger + genesis governance state read by isValidSender (level 1)"},
		Stub: []string{"Go scheduler: replaced by the seeded cooperative scheduler (one runnable goroutine at a time)", "worker goroutine loop (select): one loop-body iteration per plan step",
			"stateless/stateful validators: simulator-owned actor processes answering from the plan", "consensus and network actors: simulator-owned processes"},
		Assumptions: []string{"preemption points = the instrumented sites (every statement of TXPool methods; every mutex acquisition and the slot receive in txnpool/proc); code between two sites is atomic",
			"Go map iteration order inside TXPool methods is chosen by the plan (overlay), not by the runtime's hidden seed",
			"porcupine Unknown (timeout) is counted as inconclusive and never reported",
			"capacity clause: the two known overshoot mechanisms (in-flight admissions decided below capacity; consensus block transactions) have their own keys; every admission decision is observed, one taken at or above capacity is a different violation"},
		QuickRuns: 4000, ThoroughRuns: 300000, QuickCap: 60, ThoroughCap: 900,
		RequiredProbes: []string{"pool_rewrite_active", "lin_checked", "lock_contention", "preempted_inside_critical_section", "overlapping_operations", "old_reported", "gettxpool_at_limit", "getunverified_old", "add_duplicate_refused",
			"srv_rewrite_active", "srv_capacity_reached", "srv_gettxpool_nonempty", "srv_lock_contention", "srv_verify_block_reply", "srv_commit"},
		Generate: func(rng *kernel.RNG, idx int, tier string) *kernel.Plan {
			if idx%4 == 3 {
				return genC37Srv(rng, idx, tier)
			}
			return genC37Pool(rng, idx, tier)
		},
		Execute: func(run *kernel.Run) {
			if run.Plan.C("level", 0) == 0 {
				execC37Pool(run)
			} else {
				execC37Srv(run)
			}
		},
	})
	kernel.Register(&kernel.Check{
		ID: "C36", Level: "exploration", Engine: "E3 pool (sender admission against a real ledger)",
		Rule: "a case = one submission of a really signed transaction to the real TxActor of a real TXPoolServer whose ledger (4-7 validators, real governance and relayer-manager contracts) " +
			"went through a plan-chosen history of blocks: relayer register/remove requests with full or deficient validator approval, late approvals, candidate registration/approval, blackNode, quitNode, commitDpos epoch changes, " +
			"fake-clock advances of 1-100 s across the one-minute permitted-address refresh. Signer sets: one user, one (former/current/candidate) consensus peer, two users, outsider+user(+peer), the operator multi-signature, " +
			"1-3 never-registered outsiders, a 2-of-2 multi-signature address of two users, outsider+peer, and degenerate sets over both submission paths (net, http): no signature entry at all, an entry without public keys (hand-made wire bytes), " +
			"permitted parties' keys under an impossible threshold (M=0 or M>n), well-formed multi-signatures whose address is nobody's (consensus keys under a non-operator threshold; 1-of-{validator,outsider}). evaluations = submissions; a run is non-trivial if it made a submission; distinct by the sequence of (signer classes, verdict, outcome)",
		Real: []string{"txnpool/proc TXPoolServer, TxActor (handleTransaction, isValidSender, updatePermittedAddrMap), TxPoolActor, one real worker goroutine", "http/base/actor GetStorageItem/UpdatePermittedAddrMap on ledger.DefLedger",
			"ledger + native governance (node_manager, relayer_manager) executing every registry change in committed blocks", "ontology-eventbus actors (synchronous dispatcher)", "real ECDSA signatures on every transaction"},
		Stub: []string{"VBFT server (block-producer stub)", "p2p / RPC front ends (TxReq handed to the actor directly, as both do)", "validators (none registered: an admitted transaction stays pending, which is what is observed)", "wall clock (synctest fake clock)"},
		Assumptions: []string{"one-directional oracle (the property says 'only if'): admitted => some signing address is a relayer in committed state at submission time or belongs to the governance peer pool / is an operator multi-address of a committed state at or before now; refusals of permitted signers (stale cache) are counted, not asserted",
			"the process-wide permitted-address cache is cleared between runs through an overlay-added hook"},
		QuickRuns: 320, ThoroughRuns: 24000, QuickCap: 60, ThoroughCap: 900,
		RequiredProbes: []string{"admitted_via_relayer", "admitted_via_consensus", "admitted_via_operator", "refused_no_permitted_signer", "refused_multi_no_permitted_signer", "refused_removed_relayer",
			"refused_zero_signature_net", "refused_zero_signature_http", "refused_empty_pubkeys_entry", "refused_invalid_multisig_threshold", "refused_multisig_address_of_nobody",
			"admitted_multi_permitted_signer_not_first", "admitted_multi_only_via_relayer", "admitted_consensus_address_learned_by_refresh", "admitted_relayer_after_some_removal"},
		Generate: genC36,
		Execute:  execC36,
	})
}
