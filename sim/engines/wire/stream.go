// Package wire is polysim engine E5: codecs on faulty streams (writer -> fault-injecting
// stream -> reader). It serves C01 (primitive codecs), C02 (ledger objects), C04 (native
// contract parameters and records), C05 (p2p frames) and C44 (VBFT message codec and
// consensus-payload signatures).
package wire

import (
	"crypto/sha256"
	"errors"
	"fmt"
	"io"
	"os"
	"regexp"
	"runtime"
	"sort"
	"strings"
	"time"

	"polysim/kernel"
)

// errInjected is the I/O error the simulated stream returns at a planned byte offset.
// noMin (development aid): WIRE_NOMIN=1 skips plan minimisation when timing batches on a tree with known violations.
var noMin = os.Getenv("WIRE_NOMIN") != ""

var errInjected = errors.New("polysim: injected I/O error")

// faultReader is the simulated byte stream. It delivers data in chunks of 1..maxChunk bytes
// (chunk sizes come from a derived RNG, i.e. from the plan), may return (0,nil) "stalls",
// fails with an I/O error once failAt bytes were delivered, or simply ends (early EOF when
// the data was truncated by the caller).
type faultReader struct {
	data      []byte
	pos       int
	maxChunk  int         // 0 = unlimited (deliver what is asked)
	failAt    int         // -1 = never; otherwise return errInjected when pos reaches failAt
	withData  bool        // deliver the last chunk together with the error (n>0, err!=nil)
	stalls    int         // number of (0,nil) reads still to be injected
	rng       *kernel.RNG // chunk sizes / stall placement
	reads     int
	shortHits int // reads that returned fewer bytes than asked
	failed    bool
}

func newFaultReader(data []byte, maxChunk int, failAt int, rng *kernel.RNG) *faultReader {
	return &faultReader{data: data, maxChunk: maxChunk, failAt: failAt, rng: rng}
}

func (r *faultReader) Read(p []byte) (int, error) {
	r.reads++
	if len(p) == 0 {
		return 0, nil
	}
	if r.failAt >= 0 && r.pos >= r.failAt {
		r.failed = true
		return 0, errInjected
	}
	if r.pos >= len(r.data) {
		return 0, io.EOF
	}
	if r.stalls > 0 && r.rng != nil && r.rng.Intn(4) == 0 {
		r.stalls--
		return 0, nil
	}
	n := len(p)
	if r.maxChunk > 0 {
		c := 1
		if r.rng != nil {
			c = 1 + r.rng.Intn(r.maxChunk)
		}
		if c < n {
			n = c
		}
	}
	if rem := len(r.data) - r.pos; n > rem {
		n = rem
	}
	if r.failAt >= 0 && r.pos+n > r.failAt {
		n = r.failAt - r.pos
	}
	copy(p, r.data[r.pos:r.pos+n])
	r.pos += n
	if n < len(p) {
		r.shortHits++
	}
	if r.withData && r.failAt >= 0 && r.pos >= r.failAt && n > 0 {
		r.failed = true
		return n, errInjected
	}
	return n, nil
}

// safely runs f and converts a panic of the code under test into a description.
func safely(f func()) (panicked bool, what string) {
	defer func() {
		if e := recover(); e != nil {
			panicked = true
			what = fmt.Sprint(e)
		}
	}()
	f()
	return false, ""
}

var reDigits = regexp.MustCompile(`[0-9]+`)

// panicClass makes a stable violation key out of a panic message (numbers removed).
func panicClass(site, msg string) string {
	m := reDigits.ReplaceAllString(msg, "N")
	m = strings.ToLower(m)
	if len(m) > 48 {
		m = m[:48]
	}
	var b strings.Builder
	for _, c := range m {
		switch {
		case c >= 'a' && c <= 'z', c >= '0' && c <= '9', c == 'N':
			b.WriteRune(c)
		default:
			if n := b.Len(); n > 0 && b.String()[n-1] != '-' {
				b.WriteByte('-')
			}
		}
	}
	return "panic-" + site + "-" + strings.Trim(b.String(), "-")
}

// allocDuring reports the bytes allocated (process-wide TotalAlloc delta) while f runs. The
// engine is single-goroutine, so this is the allocation of f plus negligible runtime noise.
// The number is compared against generous bounds only and never logged into the trace.
func allocDuring(f func()) uint64 {
	var a, b runtime.MemStats
	runtime.ReadMemStats(&a)
	f()
	runtime.ReadMemStats(&b)
	return b.TotalAlloc - a.TotalAlloc
}

// Counts in (dangerLo, dangerHi) handed to an unguarded make() would neither fail fast nor
// stay small: they make the Go runtime reserve giga/terabytes ("fatal error: out of memory",
// not recoverable, kills the worker). The engine never executes a decoder on input whose
// pre-allocating count (as computed by the engine's own reference walker) lies in that zone;
// such cases are counted as fault "dangerous_count_not_executed". Counts <= dangerLo are
// harmless, counts >= dangerHi make makeslice panic (recoverable, reported as violation).
const (
	dangerLo = uint64(1) << 16
	dangerHi = uint64(1) << 46
)

func dangerous(count uint64) bool { return count > dangerLo && count < dangerHi }

// boundary values for length prefixes / counts.
var boundaryLens = []uint64{0, 1, 0xFC, 0xFD, 0xFE, 0xFF, 0x100, 0xFFFF, 0x10000, 0x1FFFFF, 0x200000, 0x2000000, 0xFFFFFFFF, 0x100000000, 1 << 46, 1 << 56, 1 << 63, ^uint64(0)}

// hugeCounts are count values that are safe to feed to a decoder that pre-allocates.
var safeCorruptCounts = []uint64{0, 1, 0xFD, 0xFFFF, 0x10000, 1 << 46, 1 << 56, 1 << 63, ^uint64(0)}

func dsha(b []byte) [32]byte {
	t := sha256.Sum256(b)
	return sha256.Sum256(t[:])
}

func short(b []byte) string {
	h := sha256.Sum256(b)
	return fmt.Sprintf("%d:%x", len(b), h[:5])
}

// ---- reference (model) primitive codec, written from the wire format description ----

type refW struct{ b []byte }

func (w *refW) u8(v uint8) { w.b = append(w.b, v) }
func (w *refW) u16(v uint16) {
	w.b = append(w.b, byte(v), byte(v>>8))
}
func (w *refW) u32(v uint32) {
	w.b = append(w.b, byte(v), byte(v>>8), byte(v>>16), byte(v>>24))
}
func (w *refW) u64(v uint64) {
	for i := 0; i < 8; i++ {
		w.b = append(w.b, byte(v>>(8*uint(i))))
	}
}
func (w *refW) boolean(v bool) {
	if v {
		w.u8(1)
	} else {
		w.u8(0)
	}
}
func (w *refW) varuint(v uint64) {
	switch {
	case v < 0xFD:
		w.u8(uint8(v))
	case v <= 0xFFFF:
		w.u8(0xFD)
		w.u16(uint16(v))
	case v <= 0xFFFFFFFF:
		w.u8(0xFE)
		w.u32(uint32(v))
	default:
		w.u8(0xFF)
		w.u64(v)
	}
}
func (w *refW) raw(b []byte)      { w.b = append(w.b, b...) }
func (w *refW) varbytes(b []byte) { w.varuint(uint64(len(b))); w.raw(b) }

// refR is the reference reader over the bytes actually delivered. ok=false after the first
// read that needs more bytes than are present.
type refR struct {
	b   []byte
	off int
	bad bool
}

func (r *refR) need(n uint64) bool {
	if r.bad || n > uint64(len(r.b)-r.off) {
		r.bad = true
		return false
	}
	return true
}
func (r *refR) u8() uint8 {
	if !r.need(1) {
		return 0
	}
	v := r.b[r.off]
	r.off++
	return v
}
func (r *refR) u16() uint16 {
	if !r.need(2) {
		return 0
	}
	v := uint16(r.b[r.off]) | uint16(r.b[r.off+1])<<8
	r.off += 2
	return v
}
func (r *refR) u32() uint32 {
	if !r.need(4) {
		return 0
	}
	var v uint32
	for i := 0; i < 4; i++ {
		v |= uint32(r.b[r.off+i]) << (8 * uint(i))
	}
	r.off += 4
	return v
}
func (r *refR) u64() uint64 {
	if !r.need(8) {
		return 0
	}
	var v uint64
	for i := 0; i < 8; i++ {
		v |= uint64(r.b[r.off+i]) << (8 * uint(i))
	}
	r.off += 8
	return v
}
func (r *refR) varuint() uint64 {
	switch fb := r.u8(); fb {
	case 0xFD:
		return uint64(r.u16())
	case 0xFE:
		return uint64(r.u32())
	case 0xFF:
		return r.u64()
	default:
		return uint64(fb)
	}
}
func (r *refR) raw(n uint64) []byte {
	if !r.need(n) {
		return nil
	}
	v := r.b[r.off : r.off+int(n)]
	r.off += int(n)
	return v
}
func (r *refR) varbytes() []byte {
	n := r.varuint()
	if r.bad {
		return nil
	}
	return r.raw(n)
}
func (r *refR) rest() int { return len(r.b) - r.off }

// biasedU64 draws integers with weight on boundaries.
func biasedU64(rng *kernel.RNG) uint64 {
	switch rng.Intn(6) {
	case 0:
		return boundaryLens[rng.Intn(len(boundaryLens))]
	case 1:
		return uint64(rng.Intn(256))
	case 2:
		return uint64(rng.Intn(1 << 17))
	case 3:
		return rng.Uint64() >> uint(rng.Intn(64))
	default:
		return rng.Uint64()
	}
}

// smallLen draws a body length: mostly short, sometimes exactly at a var-length boundary.
func smallLen(rng *kernel.RNG, max int) int {
	switch rng.Intn(10) {
	case 0:
		return 0
	case 1:
		c := []int{0xFC, 0xFD, 0xFE, 0xFF, 0x100}
		n := c[rng.Intn(len(c))]
		if n > max {
			n = max
		}
		return n
	default:
		return rng.Intn(max + 1)
	}
}

func xorByte(b []byte, off int, mask byte) []byte {
	c := append([]byte(nil), b...)
	if len(c) == 0 {
		return c
	}
	if mask == 0 {
		mask = 1
	}
	c[off%len(c)] ^= mask
	return c
}

func imin(a, b int) int {
	if a < b {
		return a
	}
	return b
}

func amod(a int64, n int) int {
	if n <= 0 {
		return 0
	}
	if a < 0 {
		a = -a
		if a < 0 {
			a = 0
		}
	}
	return int(a % int64(n))
}

// modeTimer (development aid): WIRE_TIMING=1 prints the wall time spent per fault mode on stderr
// at the end of every run. Never used for any decision and never logged into the trace.
type modeTimer struct {
	d map[string]time.Duration
	n map[string]int
}

var timing = os.Getenv("WIRE_TIMING") != ""

func (m *modeTimer) add(mode string, t0 time.Time) {
	if !timing {
		return
	}
	if m.d == nil {
		m.d, m.n = map[string]time.Duration{}, map[string]int{}
	}
	m.d[mode] += time.Since(t0)
	m.n[mode]++
}

func (m *modeTimer) report(id string) {
	if !timing || m.d == nil {
		return
	}
	var ks []string
	for k := range m.d {
		ks = append(ks, k)
	}
	sort.Strings(ks)
	for _, k := range ks {
		fmt.Fprintf(os.Stderr, "TIMING %s %-34s n=%d total=%v avg=%v\n", id, k, m.n[k], m.d[k], m.d[k]/time.Duration(m.n[k]))
	}
}

var globalTimer modeTimer
