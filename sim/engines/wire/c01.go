package wire

import (
	"bytes"
	"fmt"
	"io"

	"github.com/polynetwork/poly/common"
	"github.com/polynetwork/poly/common/serialization"

	"polysim/kernel"
)

// ---------------------------------------------------------------------------------------
// C01: binary codec round-trips and fails safely on truncated / corrupted input.
// ---------------------------------------------------------------------------------------

const (
	kU8 = iota
	kByte
	kBool
	kU16
	kU32
	kU64
	kI16
	kI32
	kI64
	kVarUint
	kVarBytes
	kString
	kAddress
	kHash
	kBytesN
	kNumKinds
)

var kindNames = []string{"u8", "byte", "bool", "u16", "u32", "u64", "i16", "i32", "i64", "varuint", "varbytes", "string", "address", "hash", "bytesN"}

// pval is one typed value of a sequence (u for integers/bools, b for byte strings).
type pval struct {
	kind int
	u    uint64
	b    []byte
	n    int // kBytesN: fixed length known to the reader
}

func (v pval) String() string {
	switch v.kind {
	case kVarBytes, kString, kAddress, kHash, kBytesN:
		return kindNames[v.kind] + ":" + short(v.b)
	default:
		return fmt.Sprintf("%s:%d", kindNames[v.kind], v.u)
	}
}

func isVarKind(k int) bool { return k == kVarUint || k == kVarBytes || k == kString }

func genVals(rng *kernel.RNG, n int, big bool) []pval {
	vals := make([]pval, 0, n)
	for i := 0; i < n; i++ {
		k := rng.Intn(kNumKinds)
		if rng.Intn(3) == 0 { // bias to var-length kinds
			k = []int{kVarUint, kVarBytes, kString}[rng.Intn(3)]
		}
		v := pval{kind: k}
		switch k {
		case kU8, kByte:
			v.u = biasedU64(rng) & 0xFF
		case kBool:
			v.u = uint64(rng.Intn(2))
		case kU16, kI16:
			v.u = biasedU64(rng) & 0xFFFF
		case kU32, kI32:
			v.u = biasedU64(rng) & 0xFFFFFFFF
		case kU64, kI64, kVarUint:
			v.u = biasedU64(rng)
		case kVarBytes, kString:
			l := smallLen(rng, 300)
			if big && rng.Intn(8) == 0 { // 3-byte and 5-byte prefixes with honest bodies
				l = []int{0xFFFF, 0x10000, 0x10001, 0xFFFE}[rng.Intn(4)]
			}
			v.b = rng.Bytes(l)
		case kAddress:
			v.b = rng.Bytes(20)
		case kHash:
			v.b = rng.Bytes(32)
		case kBytesN:
			v.n = smallLen(rng, 70)
			v.b = rng.Bytes(v.n)
		}
		vals = append(vals, v)
	}
	return vals
}

// encSink writes with ZeroCopySink and checks the sizes the sink reports.
func encSink(vals []pval) (out []byte, sizeMismatch string) {
	sink := common.NewZeroCopySink(nil)
	for i, v := range vals {
		before := sink.Size()
		var rep uint64
		hasRep := false
		switch v.kind {
		case kU8:
			sink.WriteUint8(uint8(v.u))
		case kByte:
			sink.WriteByte(byte(v.u))
		case kBool:
			sink.WriteBool(v.u != 0)
		case kU16:
			sink.WriteUint16(uint16(v.u))
		case kU32:
			sink.WriteUint32(uint32(v.u))
		case kU64:
			sink.WriteUint64(v.u)
		case kI16:
			sink.WriteInt16(int16(v.u))
		case kI32:
			sink.WriteInt32(int32(v.u))
		case kI64:
			sink.WriteInt64(int64(v.u))
		case kVarUint:
			rep, hasRep = sink.WriteVarUint(v.u), true
		case kVarBytes:
			rep, hasRep = sink.WriteVarBytes(v.b), true
		case kString:
			rep, hasRep = sink.WriteString(string(v.b)), true
		case kAddress:
			var a common.Address
			copy(a[:], v.b)
			if i%2 == 0 {
				sink.WriteAddress(a)
			} else {
				a.Serialization(sink)
			}
		case kHash:
			var h common.Uint256
			copy(h[:], v.b)
			sink.WriteHash(h)
		case kBytesN:
			sink.WriteBytes(v.b)
		}
		if hasRep && rep != sink.Size()-before && sizeMismatch == "" {
			sizeMismatch = fmt.Sprintf("value %d (%s): sink reported size %d but appended %d bytes", i, v, rep, sink.Size()-before)
		}
	}
	return append([]byte(nil), sink.Bytes()...), sizeMismatch
}

// encStream writes with the streaming encoder (serialization.Write*).
func encStream(vals []pval) ([]byte, error) {
	w := new(bytes.Buffer)
	for _, v := range vals {
		var err error
		switch v.kind {
		case kU8:
			err = serialization.WriteUint8(w, uint8(v.u))
		case kByte:
			err = serialization.WriteByte(w, byte(v.u))
		case kBool:
			err = serialization.WriteBool(w, v.u != 0)
		case kU16, kI16:
			err = serialization.WriteUint16(w, uint16(v.u))
		case kU32, kI32:
			err = serialization.WriteUint32(w, uint32(v.u))
		case kU64, kI64:
			err = serialization.WriteUint64(w, v.u)
		case kVarUint:
			err = serialization.WriteVarUint(w, v.u)
		case kVarBytes:
			err = serialization.WriteVarBytes(w, v.b)
		case kString:
			err = serialization.WriteString(w, string(v.b))
		case kAddress:
			var a common.Address
			copy(a[:], v.b)
			err = a.Serialize(w)
		case kHash:
			var h common.Uint256
			copy(h[:], v.b)
			err = h.Serialize(w)
		case kBytesN:
			err = serialization.WriteBytes(w, v.b)
		}
		if err != nil {
			return nil, err
		}
	}
	return w.Bytes(), nil
}

// encRef is the model encoder; offs[i] is the start offset of value i, offs[len] the total.
func encRef(vals []pval) (out []byte, offs []int) {
	w := &refW{}
	for _, v := range vals {
		offs = append(offs, len(w.b))
		switch v.kind {
		case kU8, kByte:
			w.u8(uint8(v.u))
		case kBool:
			w.boolean(v.u != 0)
		case kU16, kI16:
			w.u16(uint16(v.u))
		case kU32, kI32:
			w.u32(uint32(v.u))
		case kU64, kI64:
			w.u64(v.u)
		case kVarUint:
			w.varuint(v.u)
		case kVarBytes, kString:
			w.varbytes(v.b)
		case kAddress, kHash, kBytesN:
			w.raw(v.b)
		}
	}
	offs = append(offs, len(w.b))
	return w.b, offs
}

// dres is the outcome of decoding one value: ok=false means error/eof was reported.
type dres struct {
	ok bool
	v  pval
}

// decRef decodes the delivered bytes with the model; it stops at the first failing value.
func decRef(b []byte, spec []pval) (res []dres, consumed int) {
	r := &refR{b: b}
	for _, s := range spec {
		v := pval{kind: s.kind, n: s.n}
		switch s.kind {
		case kU8, kByte, kBool:
			v.u = uint64(r.u8())
		case kU16, kI16:
			v.u = uint64(r.u16())
		case kU32, kI32:
			v.u = uint64(r.u32())
		case kU64, kI64:
			v.u = r.u64()
		case kVarUint:
			v.u = r.varuint()
		case kVarBytes, kString:
			v.b = r.varbytes()
		case kAddress:
			v.b = r.raw(20)
		case kHash:
			v.b = r.raw(32)
		case kBytesN:
			v.b = r.raw(uint64(s.n))
		}
		if r.bad {
			res = append(res, dres{ok: false})
			return res, r.off
		}
		res = append(res, dres{ok: true, v: v})
	}
	return res, r.off
}

// decSource decodes with ZeroCopySource; stops at the first eof.
func decSource(b []byte, spec []pval) (res []dres, pos uint64, maxSlice int) {
	src := common.NewZeroCopySource(b)
	for i, s := range spec {
		v := pval{kind: s.kind, n: s.n}
		var eof bool
		switch s.kind {
		case kU8:
			var x uint8
			x, eof = src.NextUint8()
			v.u = uint64(x)
		case kByte:
			var x byte
			x, eof = src.NextByte()
			v.u = uint64(x)
		case kBool:
			var x bool
			x, eof = src.NextBool()
			if x {
				v.u = 1
			}
		case kU16:
			var x uint16
			x, eof = src.NextUint16()
			v.u = uint64(x)
		case kU32:
			var x uint32
			x, eof = src.NextUint32()
			v.u = uint64(x)
		case kU64:
			v.u, eof = src.NextUint64()
		case kI16:
			var x int16
			x, eof = src.NextInt16()
			v.u = uint64(uint16(x))
		case kI32:
			var x int32
			x, eof = src.NextInt32()
			v.u = uint64(uint32(x))
		case kI64:
			var x int64
			x, eof = src.NextInt64()
			v.u = uint64(x)
		case kVarUint:
			v.u, eof = src.NextVarUint()
		case kVarBytes:
			v.b, eof = src.NextVarBytes()
		case kString:
			var x string
			x, eof = src.NextString()
			v.b = []byte(x)
		case kAddress:
			var a common.Address
			if i%2 == 0 {
				a, eof = src.NextAddress()
			} else {
				eof = a.Deserialization(src) != nil
			}
			v.b = a[:]
		case kHash:
			var h common.Uint256
			h, eof = src.NextHash()
			v.b = h[:]
		case kBytesN:
			v.b, eof = src.NextBytes(uint64(s.n))
		}
		if (s.kind == kVarBytes || s.kind == kString || s.kind == kBytesN) && len(v.b) > maxSlice {
			maxSlice = len(v.b)
		}
		if eof {
			res = append(res, dres{ok: false})
			return res, src.Pos(), maxSlice
		}
		res = append(res, dres{ok: true, v: v})
	}
	return res, src.Pos(), maxSlice
}

// decStream decodes with serialization.Read* from an io.Reader; stops at the first error.
func decStream(r io.Reader, spec []pval) (res []dres, maxSlice int) {
	for i, s := range spec {
		v := pval{kind: s.kind, n: s.n}
		var err error
		switch s.kind {
		case kU8:
			var x uint8
			x, err = serialization.ReadUint8(r)
			v.u = uint64(x)
		case kByte:
			var x byte
			x, err = serialization.ReadByte(r)
			v.u = uint64(x)
		case kBool:
			var x bool
			x, err = serialization.ReadBool(r)
			if x {
				v.u = 1
			}
		case kU16, kI16:
			var x uint16
			x, err = serialization.ReadUint16(r)
			v.u = uint64(x)
		case kU32, kI32:
			var x uint32
			x, err = serialization.ReadUint32(r)
			v.u = uint64(x)
		case kU64, kI64:
			v.u, err = serialization.ReadUint64(r)
		case kVarUint:
			v.u, err = serialization.ReadVarUint(r, 0)
		case kVarBytes:
			v.b, err = serialization.ReadVarBytes(r)
		case kString:
			var x string
			x, err = serialization.ReadString(r)
			v.b = []byte(x)
		case kAddress:
			var a common.Address
			if i%2 == 0 {
				a, err = serialization.ReadAddress(r)
			} else {
				err = a.Deserialize(r)
			}
			v.b = a[:]
		case kHash:
			var h common.Uint256
			if i%2 == 0 {
				h, err = serialization.ReadHash(r)
			} else {
				err = h.Deserialize(r)
			}
			v.b = h[:]
		case kBytesN:
			v.b, err = serialization.ReadBytes(r, uint64(s.n))
		}
		if (s.kind == kVarBytes || s.kind == kString || s.kind == kBytesN) && len(v.b) > maxSlice {
			maxSlice = len(v.b)
		}
		if err != nil {
			res = append(res, dres{ok: false})
			return res, maxSlice
		}
		res = append(res, dres{ok: true, v: v})
	}
	return res, maxSlice
}

// sameVal compares a decoded value with the model's value.
func sameVal(got, want pval) bool {
	switch want.kind {
	case kVarBytes, kString, kAddress, kHash, kBytesN:
		return bytes.Equal(got.b, want.b)
	default:
		return got.u == want.u
	}
}

// cmpDecode compares a decoder's outcome list with the reference outcome list on the same
// delivered bytes. Rules (from the property): a value the model can decode must be returned
// unchanged; where the model runs out of bytes the decoder must report error/eof; the only
// tolerated difference is a boolean byte other than 0/1, which a decoder may either reject
// or read as true (decoding then continues or stops accordingly).
func cmpDecode(got, ref []dres) (ok bool, why string, successes int) {
	for i := 0; i < len(ref); i++ {
		if i >= len(got) {
			return false, fmt.Sprintf("decoder stopped silently before value %d", i), successes
		}
		g, w := got[i], ref[i]
		if !w.ok {
			if g.ok {
				return false, fmt.Sprintf("value %d: stream lacks the bytes (model: error) but decoder returned %s", i, g.v), successes
			}
			return true, "", successes
		}
		if w.v.kind == kBool && w.v.u > 1 {
			if !g.ok {
				return true, "", successes // rejected the non-canonical boolean: fine, decoding stops here
			}
			if g.v.u != 1 {
				return false, fmt.Sprintf("value %d: boolean byte %d decoded as false", i, w.v.u), successes
			}
			successes++
			continue
		}
		if !g.ok {
			return false, fmt.Sprintf("value %d (%s): all bytes were delivered but decoder reported an error", i, w.v), successes
		}
		if !sameVal(g.v, w.v) {
			return false, fmt.Sprintf("value %d: decoder returned %s, delivered bytes say %s", i, g.v, w.v), successes
		}
		successes++
	}
	if len(got) > len(ref) {
		return false, "decoder returned more values than the model", successes
	}
	return true, "", successes
}

const (
	c01None = iota
	c01TruncAll
	c01IOErr
	c01EarlyEOF
	c01PrefixBoundary
	c01PrefixByte
	c01RandCorrupt
	c01NumModes
)

var c01ModeNames = []string{"none", "truncate_every_point", "io_error_at_byte", "early_eof_short_reads", "length_prefix_boundary", "length_prefix_single_byte", "random_byte_corruption"}

func init() {
	kernel.Register(&kernel.Check{
		ID: "C01", Level: "exploration", Engine: "E5 wire (primitive codecs on a faulty stream)",
		Rule: "case = a random sequence of 1..24 typed values (u8/byte/bool/u16/u32/u64/i16/i32/i64/varuint/varbytes/string/address/hash/fixed bytes; integers and lengths biased to 0,0xFC,0xFD,0xFFFF,0x10000,0xFFFFFFFF,2^63..) " +
			"written with ZeroCopySink, serialization.Write* and a model encoder (all three byte strings must be equal, reported sizes must equal appended bytes), then read back through ZeroCopySource and through serialization.Read* over a simulated stream " +
			"(1..k bytes per Read, stalls, I/O error at byte j with or without data, early EOF), from every truncation point, with a length prefix replaced by each boundary value and by every other byte value, and with random byte corruption; " +
			"every outcome is compared value by value with a model decoder run on the bytes actually delivered. evaluations = decode passes compared with the model. A case is non-trivial when it contains a var-length value, a fault fired and at least one value was decoded before the damage; distinct by (kinds, fault, outcome digest)",
		Real:        []string{"common.ZeroCopySink", "common.ZeroCopySource", "common/serialization Read*/Write*/byteXReader", "common.Address / common.Uint256 (de)serialisers", "common.SafeAdd"},
		Stub:        []string{"byte stream (simulated reader: chunking, stalls, injected I/O error, early EOF)"},
		Assumptions: []string{"allocation guard: decoding a stream of n bytes may allocate at most 4 MiB + 4n (the property text promises no figure; the guard exists to catch length-prefix attacks, e.g. a 0xFFFFFFFF prefix allocating 4 GiB)", "a boolean byte other than 0/1 may be rejected (ZeroCopySource) or read as true (serialization.ReadBool); the property does not say which", "honest byte strings are at most 65537 bytes long; longer lengths occur only as lying prefixes"},
		QuickRuns:   1600, ThoroughRuns: 120000, QuickCap: 60, ThoroughCap: 800,
		RequiredProbes: []string{"short_read_inside_length_prefix", "prefix_claims_more_than_stream", "truncated_inside_value", "io_error_inside_value", "noncanonical_varuint_accepted", "slow_path_2MiB_prefix"},
		Generate:       genC01,
		Execute:        execC01,
		NoMinimise:     noMin,
	})
}

func genC01(rng *kernel.RNG, idx int, tier string) *kernel.Plan {
	p := &kernel.Plan{Cfg: map[string]int64{}}
	// swarm: each run enables a subset of fault modes (always at least one besides "none")
	mask := int64(0)
	for m := 1; m < c01NumModes; m++ {
		if rng.Intn(3) != 0 {
			mask |= 1 << uint(m)
		}
	}
	if mask == 0 {
		mask = 1 << uint(1+rng.Intn(c01NumModes-1))
	}
	p.Cfg["modes"] = mask
	p.Cfg["big"] = int64(rng.Intn(4) / 3) // a quarter of the runs carry 64 KiB bodies
	n := 3 + rng.Intn(6)
	for i := 0; i < n; i++ {
		var enabled []int
		for m := 1; m < c01NumModes; m++ {
			if mask&(1<<uint(m)) != 0 {
				enabled = append(enabled, m)
			}
		}
		mode := c01None
		if rng.Intn(6) != 0 {
			mode = enabled[rng.Intn(len(enabled))]
		}
		p.Steps = append(p.Steps, kernel.Step{Op: "seq", A: []int64{
			int64(rng.Uint64() >> 1),  // 0 salt
			int64(1 + rng.Intn(24)),   // 1 number of values
			int64(mode),               // 2 fault mode
			int64(1 + rng.Intn(9)),    // 3 max chunk k
			int64(rng.Uint64() >> 33), // 4 position selector
			int64(rng.Intn(4)),        // 5 aux (stalls / error-with-data / corruption count)
		}})
	}
	return p
}

const allocSlack = 4 << 20

func execC01(run *kernel.Run) {
	evals := 0
	big := run.Plan.C("big", 0) != 0
	var sample []string
	for i, st := range run.Plan.Steps {
		run.StepNo = i
		if st.Op != "seq" {
			continue
		}
		run.Steps++
		salt := uint64(st.Arg(0))
		rng := kernel.NewRNG(kernel.Derive(run.Plan.Seed, "c01", salt))
		nvals := 1 + amod(st.Arg(1)-1, 24)
		mode := amod(st.Arg(2), c01NumModes)
		k := 1 + amod(st.Arg(3)-1, 9)
		vals := genVals(rng, nvals, big)
		hasVar := false
		kinds := ""
		for _, v := range vals {
			hasVar = hasVar || isVarKind(v.kind)
			kinds += kindNames[v.kind] + ","
		}
		ref, offs := encRef(vals)
		var bs, bw []byte
		var sizeWhy string
		var werr error
		if p, what := safely(func() { bs, sizeWhy = encSink(vals); bw, werr = encStream(vals) }); p {
			run.Fail("C01", panicClass("encode", what), "encoder panicked: %s (kinds %s)", what, kinds)
			return
		}
		if werr != nil {
			run.Fail("C01", "stream-encoder-error", "serialization.Write* failed on a bytes.Buffer: %v", werr)
			return
		}
		if !bytes.Equal(bs, bw) {
			run.Fail("C01", "encoders-differ", "ZeroCopySink and serialization.Write* disagree: sink %s stream %s kinds %s", short(bs), short(bw), kinds)
			return
		}
		if !bytes.Equal(bs, ref) {
			run.Fail("C01", "encoding-differs-from-format", "encoders produce %s, the wire format says %s (kinds %s)", short(bs), short(ref), kinds)
			return
		}
		if sizeWhy != "" {
			run.Fail("C01", "sink-size-report", "%s", sizeWhy)
			return
		}
		total := len(ref)
		run.Logf("seq %d vals=%d bytes=%s mode=%s k=%d", i, nvals, short(ref), c01ModeNames[mode], k)
		if len(sample) < 3 {
			sample = append(sample, fmt.Sprintf("%s -> %d bytes, fault %s", kinds, total, c01ModeNames[mode]))
		}

		// one decode pass of both decoders over `data` compared with the model; returns false after a violation
		outcome := sha(nil)
		faultSeen := false
		progress := 0
		measureNext := false
		pass := func(label string, data []byte, mkReader func() *faultReader, wantAllOK bool) bool {
			evals++
			refRes, refPos := decRef(data, vals)
			{
				var got []dres
				var pos uint64
				var maxSlice int
				if p, what := safely(func() { got, pos, maxSlice = decSource(data, vals) }); p {
					run.Fail("C01", panicClass("source", what), "%s: ZeroCopySource panicked: %s (kinds %s, data %s)", label, what, kinds, short(data))
					return false
				}
				ok, why, succ := cmpDecode(got, refRes)
				if !ok {
					run.Fail("C01", "source-wrong-result", "%s: ZeroCopySource: %s (kinds %s)", label, why, kinds)
					return false
				}
				if maxSlice > len(data) {
					run.Fail("C01", "source-slice-longer-than-input", "%s: returned %d bytes out of a %d byte input", label, maxSlice, len(data))
					return false
				}
				if len(got) == len(vals) && got[len(got)-1].ok && pos != uint64(refPos) {
					run.Fail("C01", "source-position", "%s: Pos()=%d after a complete decode, model consumed %d", label, pos, refPos)
					return false
				}
				if wantAllOK && (len(got) != len(vals) || !got[len(got)-1].ok || pos != uint64(len(data))) {
					run.Fail("C01", "source-roundtrip", "%s: undamaged input did not decode completely (pos %d of %d)", label, pos, len(data))
					return false
				}
				if succ > progress {
					progress = succ
				}
			}
			if mkReader != nil {
				rd := mkReader()
				var got []dres
				var maxSlice int
				var alloc uint64
				measure := len(data) < 1<<20
				run1 := func() {
					if p, what := safely(func() { got, maxSlice = decStream(rd, vals) }); p {
						run.Fail("C01", panicClass("stream", what), "%s: serialization.Read* panicked: %s (kinds %s, data %s)", label, what, kinds, short(data))
						got = nil
					}
				}
				if measure && (measureNext || mode == c01RandCorrupt) {
					alloc = allocDuring(run1)
				} else {
					run1()
				}
				if run.Failed() {
					return false
				}
				delivered := rd.pos
				// the model sees what the reader could deliver at most
				limit := len(data)
				if rd.failAt >= 0 && rd.failAt < limit {
					limit = rd.failAt
				}
				refRes2, refPos2 := decRef(data[:limit], vals)
				ok, why, succ := cmpDecode(got, refRes2)
				if !ok {
					run.Fail("C01", "stream-wrong-result", "%s: serialization.Read*: %s (kinds %s, chunk<=%d)", label, why, kinds, rd.maxChunk)
					return false
				}
				if maxSlice > delivered {
					run.Fail("C01", "stream-slice-longer-than-delivered", "%s: returned %d bytes although only %d were delivered", label, maxSlice, delivered)
					return false
				}
				if len(got) == len(vals) && got[len(got)-1].ok && delivered != refPos2 {
					run.Fail("C01", "stream-overread", "%s: reader delivered %d bytes for a complete decode, model consumed %d", label, delivered, refPos2)
					return false
				}
				if wantAllOK && (len(got) != len(vals) || !got[len(got)-1].ok) {
					run.Fail("C01", "stream-roundtrip", "%s: undamaged stream did not decode completely", label)
					return false
				}
				if alloc > uint64(allocSlack+4*len(data)) {
					run.Fail("C01", "stream-allocation-amplified", "%s: decoding a %d byte stream allocated %d bytes (kinds %s)", label, len(data), alloc, kinds)
					return false
				}
				if rd.shortHits > 0 {
					run.Probe("short_reads")
				}
				if rd.failed {
					run.Fault("io_error_fired")
				}
				if succ > progress {
					progress = succ
				}
				outcome = sha(append(outcome, byte(len(got)), byte(delivered), byte(delivered>>8)))
			}
			return true
		}
		chunked := func(data []byte, failAt int, stalls int, withData bool, sub uint64) func() *faultReader {
			return func() *faultReader {
				kk := k
				if len(data) > 2048 { // long bodies: larger chunks, else a 64 KiB body costs 13000 reads per pass
					kk = k * 211
				}
				r := newFaultReader(data, kk, failAt, kernel.NewRNG(kernel.Derive(run.Plan.Seed, "c01rd", salt^sub)))
				r.stalls = stalls
				r.withData = withData
				return r
			}
		}
		// where is the byte offset t relative to the values? (probes)
		classify := func(t int, fault string) {
			for vi := range vals {
				if t > offs[vi] && t < offs[vi+1] {
					run.Probe(fault + "_inside_value")
					if isVarKind(vals[vi].kind) {
						plen := 1
						if vals[vi].kind != kVarUint {
							plen = offs[vi+1] - offs[vi] - len(vals[vi].b)
						} else {
							plen = offs[vi+1] - offs[vi]
						}
						if t < offs[vi]+plen && plen > 1 {
							run.Probe(fault + "_inside_length_prefix")
						}
					}
					return
				}
			}
			run.Probe(fault + "_at_value_boundary")
		}

		// 0. always: the undamaged round trip through both decoders, stream in chunks
		if !pass("full", ref, chunked(ref, -1, 0, false, 1), true) {
			return
		}
		// short reads that split a multi-byte length prefix
		for vi := range vals {
			if isVarKind(vals[vi].kind) && offs[vi+1]-offs[vi]-len(vals[vi].b) > 1 && k == 1 {
				run.Probe("short_read_inside_length_prefix")
				break
			}
		}

		switch mode {
		case c01TruncAll:
			pts := []int{}
			if total <= 700 {
				for t := 0; t < total; t++ {
					pts = append(pts, t)
				}
			} else { // long stream: every value boundary +-1 and a sample of interior points
				seen := map[int]bool{}
				add := func(t int) {
					if t >= 0 && t < total && !seen[t] {
						seen[t] = true
						pts = append(pts, t)
					}
				}
				for _, o := range offs {
					for d := -2; d <= 9; d++ {
						add(o + d)
					}
				}
				for j := 0; j < 120; j++ {
					add(rng.Intn(total))
				}
			}
			for _, t := range pts {
				run.Fault("truncation")
				faultSeen = true
				classify(t, "truncated")
				if !pass(fmt.Sprintf("truncated@%d/%d", t, total), ref[:t], chunked(ref[:t], -1, 0, false, uint64(t)), false) {
					return
				}
			}
		case c01IOErr:
			if total > 0 {
				j := amod(st.Arg(4), total)
				withData := st.Arg(5)%2 == 1
				run.Fault("io_error_at_byte")
				faultSeen = true
				classify(j, "io_error")
				if !pass(fmt.Sprintf("ioerr@%d/%d", j, total), ref, chunked(ref, j, 0, withData, 7), false) {
					return
				}
			}
		case c01EarlyEOF:
			if total > 0 {
				t := amod(st.Arg(4), total)
				run.Fault("early_eof")
				faultSeen = true
				classify(t, "truncated")
				if !pass(fmt.Sprintf("eof@%d/%d", t, total), ref[:t], chunked(ref[:t], -1, 2+amod(st.Arg(5), 4), false, 9), false) {
					return
				}
			}
		case c01PrefixBoundary, c01PrefixByte:
			var varIdx []int
			for vi := range vals {
				if isVarKind(vals[vi].kind) {
					varIdx = append(varIdx, vi)
				}
			}
			if len(varIdx) == 0 {
				break
			}
			vi := varIdx[amod(st.Arg(4), len(varIdx))]
			body := vals[vi].b
			var variants [][]byte
			if mode == c01PrefixBoundary {
				for _, claim := range boundaryLens {
					w := &refW{}
					w.raw(ref[:offs[vi]])
					w.varuint(claim)
					if vals[vi].kind != kVarUint {
						w.raw(body)
					}
					w.raw(ref[offs[vi+1]:])
					variants = append(variants, w.b)
				}
				// non-canonical encodings of the honest value (accepted by both decoders today; the property does not forbid them)
				honest := uint64(len(body))
				if vals[vi].kind == kVarUint {
					honest = vals[vi].u
				}
				for _, width := range []int{3, 5, 9} {
					w := &refW{}
					w.raw(ref[:offs[vi]])
					switch {
					case width == 3 && honest <= 0xFFFF:
						w.u8(0xFD)
						w.u16(uint16(honest))
					case width == 5 && honest <= 0xFFFFFFFF:
						w.u8(0xFE)
						w.u32(uint32(honest))
					case width == 9:
						w.u8(0xFF)
						w.u64(honest)
					default:
						continue
					}
					if vals[vi].kind != kVarUint {
						w.raw(body)
					}
					w.raw(ref[offs[vi+1]:])
					if !bytes.Equal(w.b, ref) {
						variants = append(variants, w.b)
						run.Probe("noncanonical_varuint_accepted")
					}
				}
			} else {
				for x := 0; x < 256; x++ {
					if byte(x) == ref[offs[vi]] {
						continue
					}
					c := append([]byte(nil), ref...)
					c[offs[vi]] = byte(x)
					variants = append(variants, c)
				}
			}
			for vn, data := range variants {
				run.Fault("corrupted_length_prefix")
				faultSeen = true
				// what does the corrupted prefix claim?
				rr := &refR{b: data[offs[vi]:]}
				claim := rr.varuint()
				measureNext = !rr.bad && claim > 1<<15 // allocation is measured where the prefix claims a lot
				if !rr.bad && vals[vi].kind != kVarUint {
					if claim > uint64(rr.rest()) {
						run.Probe("prefix_claims_more_than_stream")
					}
					if claim >= 2<<20 {
						run.Probe("slow_path_2MiB_prefix")
					}
				}
				if !pass(fmt.Sprintf("prefix#%d of value %d", vn, vi), data, chunked(data, -1, 0, false, uint64(vn)+100), false) {
					return
				}
			}
		case c01RandCorrupt:
			if total > 0 {
				cnt := 1 + amod(st.Arg(5), 4)
				data := append([]byte(nil), ref...)
				for c := 0; c < cnt; c++ {
					data[rng.Intn(total)] ^= byte(1 + rng.Intn(255))
				}
				run.Fault("random_byte_corruption")
				faultSeen = true
				if !pass("corrupt", data, chunked(data, -1, 0, false, 11), false) {
					return
				}
			}
		}
		run.Logf("seq %d outcome %x evals %d", i, outcome[:6], evals)
		run.State(append([]byte(kinds), outcome...))
		if hasVar && faultSeen && progress > 0 {
			run.Nontrivial(append([]byte(kinds+c01ModeNames[mode]), outcome...))
		}
	}
	run.Probes["__evals"] = evals
	run.Sample = sample
}

func sha(b []byte) []byte { h := dsha(b); return h[:] }
