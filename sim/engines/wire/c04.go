package wire

import (
	"bytes"
	"fmt"
	"io"
	"math/big"
	"reflect"
	"sort"
	"time"

	"github.com/polynetwork/poly/common"
	"github.com/polynetwork/poly/common/config"
	"github.com/polynetwork/poly/core/ledger"
	cstates "github.com/polynetwork/poly/core/states"
	"github.com/polynetwork/poly/native/service/cross_chain_manager/btc"
	ccmcom "github.com/polynetwork/poly/native/service/cross_chain_manager/common"
	cvote "github.com/polynetwork/poly/native/service/cross_chain_manager/consensus_vote"
	neo3 "github.com/polynetwork/poly/native/service/governance/neo3_state_manager"
	nm "github.com/polynetwork/poly/native/service/governance/node_manager"
	rm "github.com/polynetwork/poly/native/service/governance/relayer_manager"
	scm "github.com/polynetwork/poly/native/service/governance/side_chain_manager"
	sigm "github.com/polynetwork/poly/native/service/governance/signature_manager"
	hscom "github.com/polynetwork/poly/native/service/header_sync/common"
	nstates "github.com/polynetwork/poly/native/states"

	"polysim/chain"
	"polysim/kernel"
)

// ---------------------------------------------------------------------------------------
// C04: contract parameters and stored records round-trip canonically.
// ---------------------------------------------------------------------------------------

type serA interface {
	Serialization(sink *common.ZeroCopySink)
}
type serB interface {
	Serialization(sink *common.ZeroCopySink) error
}
type desA interface {
	Deserialization(source *common.ZeroCopySource) error
}

// recType is one registered parameter / record type.
type recType struct {
	name   string
	pkg    string
	newV   func() interface{}
	fix    func(v interface{}, rng *kernel.RNG) // constraints a well-formed value satisfies
	danger func(b []byte) bool                  // decoder pre-allocates from a count: dangerous input?
	ledger bool                                 // encoding consults ledger.DefLedger
	hasMap bool
	// legacyCut: a shorter, older but valid encoding of the value ends at this offset (-1: none)
	legacyCut func(v interface{}, enc []byte) int
	enc       func(v interface{}) ([]byte, error)
	dec       func(v interface{}, b []byte) error
}

func encGeneric(v interface{}) ([]byte, error) {
	sink := common.NewZeroCopySink(nil)
	switch x := v.(type) {
	case serA:
		x.Serialization(sink)
	case serB:
		if err := x.Serialization(sink); err != nil {
			return nil, err
		}
	default:
		panic(fmt.Sprintf("no Serialization on %T", v))
	}
	return append([]byte(nil), sink.Bytes()...), nil
}

func decGeneric(v interface{}, b []byte) error {
	return v.(desA).Deserialization(common.NewZeroCopySource(b))
}

func varuintDanger(skip func(r *refR)) func(b []byte) bool {
	return func(b []byte) bool {
		r := &refR{b: b}
		skip(r)
		n := r.varuint()
		return !r.bad && dangerous(n)
	}
}

var recTypes []*recType

func reg(pkg string, newV func() interface{}, opts ...func(*recType)) {
	t := &recType{pkg: pkg, newV: newV, enc: encGeneric, dec: decGeneric}
	t.name = pkg + "." + reflect.TypeOf(newV()).Elem().Name()
	t.hasMap = containsMap(reflect.TypeOf(newV()).Elem(), 0)
	for _, o := range opts {
		o(t)
	}
	recTypes = append(recTypes, t)
}

func containsMap(t reflect.Type, depth int) bool {
	if depth > 6 {
		return false
	}
	switch t.Kind() {
	case reflect.Map:
		return true
	case reflect.Ptr, reflect.Slice, reflect.Array:
		return containsMap(t.Elem(), depth+1)
	case reflect.Struct:
		if t == reflect.TypeOf(big.Int{}) {
			return false
		}
		for i := 0; i < t.NumField(); i++ {
			if containsMap(t.Field(i).Type, depth+1) {
				return true
			}
		}
	}
	return false
}

func sideChainCut(extra func(v interface{}) []byte) func(v interface{}, enc []byte) int {
	return func(v interface{}, enc []byte) int {
		e := extra(v)
		w := &refW{}
		w.varbytes(e)
		if len(enc) < len(w.b) || !bytes.Equal(enc[len(enc)-len(w.b):], w.b) {
			return -1 // extra info not part of this encoding (gated by the fork height)
		}
		return len(enc) - len(w.b)
	}
}

func init() {
	// cross_chain_manager/common
	reg("ccm", func() interface{} { return new(ccmcom.InitRedeemScriptParam) })
	reg("ccm", func() interface{} { return new(ccmcom.EntranceParam) })
	reg("ccm", func() interface{} { return new(ccmcom.MakeTxParam) })
	reg("ccm", func() interface{} { return new(ccmcom.MultiSignParam) })
	reg("ccm", func() interface{} { return new(ccmcom.ToMerkleValue) })
	reg("ccm", func() interface{} { return new(ccmcom.BlackChainParam) })
	reg("ccm", func() interface{} { return new(ccmcom.MakeTxParamWithSender) }, func(t *recType) {
		t.enc = func(v interface{}) ([]byte, error) { return v.(*ccmcom.MakeTxParamWithSender).Serialization() }
		t.dec = func(v interface{}, b []byte) error { return v.(*ccmcom.MakeTxParamWithSender).Deserialization(b) }
	})
	// header_sync/common
	reg("hs", func() interface{} { return new(hscom.SyncGenesisHeaderParam) })
	reg("hs", func() interface{} { return new(hscom.SyncBlockHeaderParam) })
	reg("hs", func() interface{} { return new(hscom.SyncCrossChainMsgParam) })
	// governance/node_manager
	reg("nm", func() interface{} { return new(nm.RegisterPeerParam) })
	reg("nm", func() interface{} { return new(nm.PeerParam) })
	reg("nm", func() interface{} { return new(nm.PeerListParam) })
	reg("nm", func() interface{} { return new(nm.UpdateConfigParam) })
	reg("nm", func() interface{} { return new(nm.Status) })
	reg("nm", func() interface{} { return new(nm.BlackListItem) })
	reg("nm", func() interface{} { return new(nm.PeerPoolMap) }, func(t *recType) {
		t.fix = func(v interface{}, rng *kernel.RNG) {
			p := v.(*nm.PeerPoolMap)
			m := map[string]*nm.PeerPoolItem{}
			var ks []string
			for k := range p.PeerPoolMap {
				ks = append(ks, k)
			}
			sort.Strings(ks)
			for _, k := range ks {
				it := p.PeerPoolMap[k]
				m[it.PeerPubkey] = it // the contract keys the pool by the item's own public key
			}
			p.PeerPoolMap = m
		}
	})
	reg("nm", func() interface{} { return new(nm.PeerPoolItem) })
	reg("nm", func() interface{} { return new(nm.GovernanceView) })
	reg("nm", func() interface{} { return new(nm.ConsensusSigns) })
	reg("nm", func() interface{} { return new(nm.Configuration) })
	// governance/side_chain_manager
	reg("scm", func() interface{} { return new(scm.RegisterSideChainParam) }, func(t *recType) {
		t.ledger = true
		t.fix = func(v interface{}, rng *kernel.RNG) {
			if p := v.(*scm.RegisterSideChainParam); p.BlocksToWait == 0 {
				p.BlocksToWait = 1 // the decoder refuses 0 ("minimal value of BlocksToWait is 1")
			}
		}
		t.legacyCut = sideChainCut(func(v interface{}) []byte { return v.(*scm.RegisterSideChainParam).ExtraInfo })
	})
	reg("scm", func() interface{} { return new(scm.ChainidParam) })
	reg("scm", func() interface{} { return new(scm.RegisterRedeemParam) })
	reg("scm", func() interface{} { return new(scm.BtcTxParamDetial) })
	reg("scm", func() interface{} { return new(scm.BtcTxParam) }, func(t *recType) {
		t.danger = varuintDanger(func(r *refR) { r.varbytes(); r.varuint() })
	})
	reg("scm", func() interface{} { return new(scm.RegisterAssetParam) }, func(t *recType) {
		t.danger = varuintDanger(func(r *refR) { r.raw(20); r.varuint() })
	})
	reg("scm", func() interface{} { return new(scm.AssetBind) }, func(t *recType) {
		t.danger = varuintDanger(func(r *refR) {})
	})
	reg("scm", func() interface{} { return new(scm.UpdateFeeParam) })
	reg("scm", func() interface{} { return new(scm.SideChain) }, func(t *recType) {
		t.ledger = true
		t.legacyCut = sideChainCut(func(v interface{}) []byte { return v.(*scm.SideChain).ExtraInfo })
	})
	reg("scm", func() interface{} { return new(scm.BindSignInfo) })
	reg("scm", func() interface{} { return new(scm.ContractBinded) })
	reg("scm", func() interface{} { return new(scm.Fee) })
	reg("scm", func() interface{} { return new(scm.FeeInfo) })
	reg("scm", func() interface{} { return new(scm.RippleExtraInfo) }, func(t *recType) {
		t.danger = varuintDanger(func(r *refR) { r.raw(44) })
	})
	// governance/relayer_manager, neo3_state_manager, signature_manager
	reg("rm", func() interface{} { return new(rm.RelayerListParam) })
	reg("rm", func() interface{} { return new(rm.ApproveRelayerParam) })
	reg("neo3", func() interface{} { return new(neo3.StateValidatorListParam) }, func(t *recType) {
		t.danger = varuintDanger(func(r *refR) {})
	})
	reg("neo3", func() interface{} { return new(neo3.ApproveStateValidatorParam) })
	reg("sigm", func() interface{} { return new(sigm.SigInfo) })
	// cross_chain_manager/consensus_vote, btc
	reg("vote", func() interface{} { return new(cvote.VoteInfo) })
	reg("btc", func() interface{} { return new(btc.BtcProof) })
	reg("btc", func() interface{} { return new(btc.Utxos) })
	reg("btc", func() interface{} { return new(btc.Utxo) })
	reg("btc", func() interface{} { return new(btc.OutPoint) })
	reg("btc", func() interface{} { return new(btc.MultiSignInfo) })
	reg("btc", func() interface{} { return new(btc.Args) })
	reg("btc", func() interface{} { return new(btc.BtcFromInfo) })
	// native/states, core/states
	reg("native", func() interface{} { return new(nstates.ContractInvokeParam) }, func(t *recType) {
		t.fix = func(v interface{}, rng *kernel.RNG) { v.(*nstates.ContractInvokeParam).Version = 0 }
	})
	reg("core", func() interface{} { return new(cstates.StorageItem) }, func(t *recType) {
		t.enc = func(v interface{}) ([]byte, error) {
			w := new(bytes.Buffer)
			err := v.(*cstates.StorageItem).Serialize(w)
			return w.Bytes(), err
		}
		t.dec = func(v interface{}, b []byte) error { return v.(*cstates.StorageItem).Deserialize(bytes.NewReader(b)) }
	})
}

var bigIntType = reflect.TypeOf(big.Int{})

// fill populates v (settable) with random content.
func fill(v reflect.Value, rng *kernel.RNG, depth int) {
	switch v.Kind() {
	case reflect.Bool:
		v.SetBool(rng.Intn(2) == 0)
	case reflect.Uint8:
		v.SetUint(uint64(rng.Intn(256)))
	case reflect.Uint16:
		v.SetUint(biasedU64(rng) & 0xFFFF)
	case reflect.Uint32:
		v.SetUint(biasedU64(rng) & 0xFFFFFFFF)
	case reflect.Uint64, reflect.Uint:
		v.SetUint(biasedU64(rng))
	case reflect.Int64, reflect.Int:
		v.SetInt(int64(biasedU64(rng)))
	case reflect.Int32:
		v.SetInt(int64(int32(biasedU64(rng))))
	case reflect.String:
		switch rng.Intn(4) {
		case 0:
			v.SetString(fmt.Sprintf("%x", keys()[rng.Intn(len(keys()))].ser))
		default:
			v.SetString(string(rng.Bytes(smallLen(rng, 40))))
		}
	case reflect.Array:
		for i := 0; i < v.Len(); i++ {
			fill(v.Index(i), rng, depth+1)
		}
	case reflect.Slice:
		if v.Type().Elem().Kind() == reflect.Uint8 {
			v.SetBytes(rng.Bytes(smallLen(rng, 80)))
			return
		}
		n := rng.Intn(6)
		if rng.Intn(6) == 0 {
			n = 0
		}
		s := reflect.MakeSlice(v.Type(), n, n)
		for i := 0; i < n; i++ {
			fill(s.Index(i), rng, depth+1)
		}
		v.Set(s)
	case reflect.Map:
		n := rng.Intn(8)
		if rng.Intn(4) == 0 {
			n = 3 + rng.Intn(10)
		}
		m := reflect.MakeMap(v.Type())
		for i := 0; i < n; i++ {
			k := reflect.New(v.Type().Key()).Elem()
			fill(k, rng, depth+1)
			e := reflect.New(v.Type().Elem()).Elem()
			fill(e, rng, depth+1)
			m.SetMapIndex(k, e)
		}
		v.Set(m)
	case reflect.Ptr:
		p := reflect.New(v.Type().Elem())
		fill(p.Elem(), rng, depth+1)
		v.Set(p)
	case reflect.Struct:
		if v.Type() == bigIntType {
			b := rng.Bytes(smallLen(rng, 33))
			v.Set(reflect.ValueOf(*new(big.Int).SetBytes(b)))
			return
		}
		for i := 0; i < v.NumField(); i++ {
			if v.Field(i).CanSet() {
				fill(v.Field(i), rng, depth+1)
			}
		}
	default:
		panic("fill: unsupported kind " + v.Kind().String() + " in " + v.Type().String())
	}
}

// eqVal: structural equality with nil == empty for slices and maps, big.Int by value.
func eqVal(a, b reflect.Value, path string) string {
	if a.Kind() != b.Kind() {
		return path + ": kind differs"
	}
	switch a.Kind() {
	case reflect.Ptr:
		if a.IsNil() || b.IsNil() {
			if a.IsNil() != b.IsNil() {
				return path + ": nil vs non-nil"
			}
			return ""
		}
		return eqVal(a.Elem(), b.Elem(), path)
	case reflect.Struct:
		if a.Type() == bigIntType {
			x, y := a.Addr().Interface().(*big.Int), b.Addr().Interface().(*big.Int)
			if x.Cmp(y) != 0 {
				return fmt.Sprintf("%s: %s vs %s", path, x, y)
			}
			return ""
		}
		for i := 0; i < a.NumField(); i++ {
			if !a.Type().Field(i).IsExported() {
				continue
			}
			if why := eqVal(a.Field(i), b.Field(i), path+"."+a.Type().Field(i).Name); why != "" {
				return why
			}
		}
	case reflect.Slice, reflect.Array:
		if a.Len() != b.Len() {
			return fmt.Sprintf("%s: length %d vs %d", path, a.Len(), b.Len())
		}
		for i := 0; i < a.Len(); i++ {
			if why := eqVal(a.Index(i), b.Index(i), fmt.Sprintf("%s[%d]", path, i)); why != "" {
				return why
			}
		}
	case reflect.Map:
		if a.Len() != b.Len() {
			return fmt.Sprintf("%s: map size %d vs %d", path, a.Len(), b.Len())
		}
		for _, k := range sortedKeys(a) {
			bv := b.MapIndex(k)
			if !bv.IsValid() {
				return fmt.Sprintf("%s[%v]: key missing", path, k)
			}
			if why := eqVal(a.MapIndex(k), bv, fmt.Sprintf("%s[%v]", path, k)); why != "" {
				return why
			}
		}
	case reflect.Bool:
		if a.Bool() != b.Bool() {
			return path + ": bool differs"
		}
	case reflect.String:
		if a.String() != b.String() {
			return path + ": string differs"
		}
	case reflect.Int, reflect.Int8, reflect.Int16, reflect.Int32, reflect.Int64:
		if a.Int() != b.Int() {
			return fmt.Sprintf("%s: %d vs %d", path, a.Int(), b.Int())
		}
	case reflect.Uint, reflect.Uint8, reflect.Uint16, reflect.Uint32, reflect.Uint64:
		if a.Uint() != b.Uint() {
			return fmt.Sprintf("%s: %d vs %d", path, a.Uint(), b.Uint())
		}
	default:
		return path + ": unsupported kind " + a.Kind().String()
	}
	return ""
}

func sortedKeys(m reflect.Value) []reflect.Value {
	ks := m.MapKeys()
	sort.Slice(ks, func(i, j int) bool { return fmt.Sprintf("%v", ks[i]) < fmt.Sprintf("%v", ks[j]) })
	return ks
}

// copyPerm deep-copies v; every map is rebuilt as a fresh map whose entries are inserted in an
// order chosen by the plan's RNG.
func copyPerm(v reflect.Value, rng *kernel.RNG) reflect.Value {
	switch v.Kind() {
	case reflect.Ptr:
		if v.IsNil() {
			return v
		}
		p := reflect.New(v.Type().Elem())
		p.Elem().Set(copyPerm(v.Elem(), rng))
		return p
	case reflect.Struct:
		if v.Type() == bigIntType {
			x := v.Addr().Interface().(*big.Int)
			return reflect.ValueOf(*new(big.Int).Set(x))
		}
		n := reflect.New(v.Type()).Elem()
		for i := 0; i < v.NumField(); i++ {
			if n.Field(i).CanSet() {
				n.Field(i).Set(copyPerm(v.Field(i), rng))
			}
		}
		return n
	case reflect.Slice:
		if v.IsNil() {
			return v
		}
		s := reflect.MakeSlice(v.Type(), v.Len(), v.Len())
		for i := 0; i < v.Len(); i++ {
			s.Index(i).Set(copyPerm(v.Index(i), rng))
		}
		return s
	case reflect.Array:
		a := reflect.New(v.Type()).Elem()
		for i := 0; i < v.Len(); i++ {
			a.Index(i).Set(copyPerm(v.Index(i), rng))
		}
		return a
	case reflect.Map:
		if v.IsNil() {
			return v
		}
		ks := sortedKeys(v)
		m := reflect.MakeMap(v.Type())
		if rng.Intn(2) == 0 { // sometimes pre-size differently: other bucket layout
			m = reflect.MakeMapWithSize(v.Type(), len(ks)*(1+rng.Intn(4)))
		}
		for _, i := range rng.Perm(len(ks)) {
			m.SetMapIndex(ks[i], copyPerm(v.MapIndex(ks[i]), rng))
		}
		return m
	default:
		return v
	}
}

func mapStats(v reflect.Value, depth int) (maxLen int) {
	if depth > 8 {
		return 0
	}
	switch v.Kind() {
	case reflect.Ptr:
		if !v.IsNil() {
			return mapStats(v.Elem(), depth+1)
		}
	case reflect.Struct:
		if v.Type() == bigIntType {
			return 0
		}
		for i := 0; i < v.NumField(); i++ {
			if n := mapStats(v.Field(i), depth+1); n > maxLen {
				maxLen = n
			}
		}
	case reflect.Map:
		return v.Len()
	}
	return maxLen
}

const (
	c04RoundTrip = iota
	c04TruncAll
	c04BitFlips
	c04Counts
	c04Garbage
	c04MapOrder
	c04NumModes
)

var c04ModeNames = []string{"roundtrip", "truncate_every_point", "bit_flips", "count_injected_at_every_offset", "garbage", "map_order_16x8"}

func init() {
	names := ""
	for _, t := range recTypes {
		names += t.name + " "
	}
	kernel.Register(&kernel.Check{
		ID: "C04", Level: "exploration", Engine: "E5 wire (native contract parameters and records on a faulty stream)",
		Rule: fmt.Sprintf("registry of %d parameter/record types: %s. case = one random value of one type (all exported fields filled by reflection, constraints of well-formed values applied, maps with 0..12 entries): "+
			"encode -> simulated stream (1..k bytes per read) -> decode must give an equal value (structural comparison, nil==empty, big.Int by value) that re-encodes to the same bytes; every map-bearing value is additionally rebuilt with fresh maps in a "+
			"plan-permuted insertion order (16 copies x 8 encodings whenever a map has >= 2 entries, before anything else is compared) and all encodings must be byte-identical; then one fault mode: truncation at every point (must be rejected except at a documented legacy cut), "+
			"bit flips, boundary counts (0xFFFF, 0x10000, 2^46, 2^63, 2^64-1 as var-int and as fixed u64/u32) injected at every offset, garbage: never a panic, accepted damaged input must re-encode/decode idempotently. side_chain_manager.SideChain / "+
			"RegisterSideChainParam are encoded against a real ledger (ledger.DefLedger) on network id 3 (extra info always written) or 1 (extra info gated by the fork height: expected to be dropped). evaluations = decoder invocations judged. "+
			"Non-trivial: a value with a non-empty variable-length field on which the step's checks all ran; distinct by (type, mode, outcome digest)", len(recTypes), names),
		Real:        []string{"Serialization/Deserialization of every listed type in native/service/{cross_chain_manager/common, cross_chain_manager/btc, cross_chain_manager/consensus_vote, header_sync/common, governance/{node_manager, side_chain_manager, relayer_manager, neo3_state_manager, signature_manager}}, native/states.ContractInvokeParam, core/states.StorageItem (+GenRawStorageItem/GetValueFromRawStorageItem)", "core/ledger (real ledger with generated genesis behind ledger.DefLedger for the side-chain types)"},
		Stub:        []string{"byte stream (simulated reader)", "contract storage (values are encoded/decoded directly; the cross-replica re-encoding of persisted values belongs to E1)"},
		Assumptions: []string{"Go's map iteration order cannot be seeded; it is sampled: an encoder that depends on it yields differing bytes among 128 encodings of 16 independently built maps with probability > 1-2^-30 for maps of >= 3 entries, so a violation of this kind replays with that probability rather than exactly", "counts in (2^16, 2^46) that reach an unguarded make() are not executed (process abort); counted as dangerous_count_not_executed", "a truncated encoding is 'malformed' except where an older format legitimately ends there (SideChain/RegisterSideChainParam without ExtraInfo)"},
		QuickRuns:   1500, ThoroughRuns: 120000, QuickCap: 60, ThoroughCap: 800,
		RequiredProbes: []string{"map_order_checked_3plus_entries", "ledger_backed_encoding", "extrainfo_gated_by_fork_height", "legacy_cut_accepted", "huge_count_injected", "storage_item_raw_roundtrip", "type_nm.PeerPoolMap", "type_nm.ConsensusSigns", "type_vote.VoteInfo", "type_sigm.SigInfo", "type_btc.MultiSignInfo", "type_scm.SideChain", "type_scm.RegisterSideChainParam", "type_scm.FeeInfo", "type_scm.RegisterAssetParam", "type_ccm.ToMerkleValue", "type_hs.SyncBlockHeaderParam", "type_neo3.StateValidatorListParam", "type_rm.RelayerListParam"},
		Generate:       genC04,
		Execute:        execC04,
		NoMinimise:     noMin,
	})
}

func genC04(rng *kernel.RNG, idx int, tier string) *kernel.Plan {
	p := &kernel.Plan{Cfg: map[string]int64{"net": []int64{3, 3, 1}[rng.Intn(3)]}}
	n := 4 + rng.Intn(6)
	for i := 0; i < n; i++ {
		ti := (idx*7 + i) % len(recTypes) // every type appears regularly
		if rng.Intn(2) == 0 {
			ti = rng.Intn(len(recTypes))
		}
		mode := rng.Intn(c04NumModes)
		p.Steps = append(p.Steps, kernel.Step{Op: "rec", A: []int64{int64(rng.Uint64() >> 1), int64(ti), int64(mode), int64(1 + rng.Intn(9))}})
	}
	return p
}

type c04ctx struct {
	run    *kernel.Run
	failed map[string]bool
	evals  int
	rej    int
	acc    int
	world  *chain.World
	gated  bool
}

func (c *c04ctx) fail(key, format string, a ...interface{}) {
	if c.failed[key] {
		return
	}
	c.failed[key] = true
	c.run.Fail("C04", key, format, a...)
}

func (c *c04ctx) needLedger() {
	if c.world != nil {
		return
	}
	t0 := time.Now()
	defer func() { globalTimer.add("ledger_open", t0) }()
	net := uint32(c.run.Plan.C("net", 3))
	w, err := chain.NewWorld(c.run, 4, net, 10)
	if err != nil {
		panic(err)
	}
	n, err := w.NewNode("n")
	if err != nil {
		panic(err)
	}
	n.Use()
	c.world = w
	c.gated = config.EXTRA_INFO_HEIGHT_FORK_CHECK && ledger.DefLedger.GetCurrentBlockHeight() < config.GetExtraInfoHeight(net)
	c.run.Probe("ledger_backed_encoding")
	if c.gated {
		c.run.Probe("extrainfo_gated_by_fork_height")
	}
}

// deliver sends b through the simulated stream and returns what arrived.
func deliver(b []byte, k int, rng *kernel.RNG) []byte {
	rd := newFaultReader(b, k, -1, rng)
	rd.stalls = 2
	var out []byte
	buf := make([]byte, 64)
	for {
		n, err := rd.Read(buf[:1+rng.Intn(64)])
		out = append(out, buf[:n]...)
		if err == io.EOF {
			return out
		}
		if err != nil {
			return out
		}
	}
}

func (c *c04ctx) safeEnc(t *recType, v interface{}) ([]byte, error, bool) {
	var b []byte
	var err error
	if p, what := safely(func() { b, err = t.enc(v) }); p {
		c.fail(panicClass("encode-"+t.name, what), "%s: Serialization panicked: %s", t.name, what)
		return nil, nil, false
	}
	return b, err, true
}

// decodeDamaged: never a panic; accepted input must be stable under encode/decode.
func (c *c04ctx) decodeDamaged(t *recType, label string, data []byte) (accepted bool) {
	if t.danger != nil && t.danger(data) {
		c.run.Fault("dangerous_count_not_executed")
		return false
	}
	c.evals++
	v := t.newV()
	var err error
	if p, what := safely(func() { err = t.dec(v, copyB(data)) }); p {
		c.fail(panicClass("decode-"+t.name, what), "%s %s: Deserialization panicked on %d bytes: %s", t.name, label, len(data), what)
		return false
	}
	if err != nil {
		c.rej++
		return false
	}
	c.acc++
	b1, err, ok := c.safeEnc(t, v)
	if !ok || err != nil {
		return true
	}
	if t.danger != nil && t.danger(b1) {
		return true
	}
	v2 := t.newV()
	if p, what := safely(func() { err = t.dec(v2, copyB(b1)) }); p {
		c.fail(panicClass("decode-"+t.name, what), "%s %s: decoding a re-encoded value panicked: %s", t.name, label, what)
		return true
	}
	if err != nil {
		c.fail("reencode-rejected-"+t.name, "%s %s: value accepted from damaged bytes re-encodes to bytes its decoder rejects: %v", t.name, label, err)
		return true
	}
	b2, err, ok := c.safeEnc(t, v2)
	if ok && err == nil && !bytes.Equal(b1, b2) {
		c.fail("reencode-not-idempotent-"+t.name, "%s %s: encode(decode(encode(x))) differs from encode(x)", t.name, label)
	}
	return true
}

func execC04(run *kernel.Run) {
	c := &c04ctx{run: run, failed: map[string]bool{}}
	defer func() {
		if c.world != nil {
			c.world.Close()
		}
	}()
	var sample []string
	for i, st := range run.Plan.Steps {
		run.StepNo = i
		if st.Op != "rec" {
			continue
		}
		run.Steps++
		t0 := time.Now()
		salt := uint64(st.Arg(0))
		rng := kernel.NewRNG(kernel.Derive(run.Plan.Seed, "c04", salt))
		t := recTypes[amod(st.Arg(1), len(recTypes))]
		mode := amod(st.Arg(2), c04NumModes)
		k := 1 + amod(st.Arg(3)-1, 9)
		if t.ledger {
			c.needLedger()
		}
		ev0, rej0, acc0 := c.evals, c.rej, c.acc
		v := t.newV()
		fill(reflect.ValueOf(v).Elem(), rng, 0)
		if t.fix != nil {
			t.fix(v, rng)
		}
		enc, err, ok := c.safeEnc(t, v)
		if !ok {
			continue
		}
		if err != nil {
			c.fail("encode-error-"+t.name, "%s: well-formed value does not serialise: %v", t.name, err)
			continue
		}
		// (ii) map-order canonicality. Runs first: an order-dependent encoder would make every later
		// byte comparison of this step a coin toss, and only the 128-sample check replays reliably.
		if t.hasMap {
			K, R := 16, 8
			if mapStats(reflect.ValueOf(v), 0) < 2 {
				K, R = 2, 2
			}
			bad := false
			for kk := 0; kk < K && !bad; kk++ {
				cp := copyPerm(reflect.ValueOf(v), rng).Interface()
				for r := 0; r < R; r++ {
					c.evals++
					b, err, ok := c.safeEnc(t, cp)
					if !ok {
						bad = true
						break
					}
					if err != nil || !bytes.Equal(b, enc) {
						c.fail("map-order-dependent-"+t.name, "%s: the same value built with another map insertion order (copy %d, encoding %d) serialises to %s instead of %s (err=%v)", t.name, kk, r, short(b), short(enc), err)
						bad = true
						break
					}
				}
			}
			if bad {
				continue
			}
			run.Fault("map_rebuilt_permuted")
			if mapStats(reflect.ValueOf(v), 0) >= 3 {
				run.Probe("map_order_checked_3plus_entries")
			}
		}
		// (i) round trip through the stream
		arrived := deliver(enc, k, kernel.NewRNG(kernel.Derive(run.Plan.Seed, "c04rd", salt)))
		if !bytes.Equal(arrived, enc) {
			panic("stream lost bytes without a fault")
		}
		c.evals++
		got := t.newV()
		if p, what := safely(func() { err = t.dec(got, copyB(arrived)) }); p {
			c.fail(panicClass("decode-"+t.name, what), "%s: Deserialization panicked on its own encoding: %s", t.name, what)
			continue
		}
		if err != nil {
			c.fail("roundtrip-rejected-"+t.name, "%s: own encoding rejected: %v", t.name, err)
			continue
		}
		want := v
		if t.ledger && c.gated { // below the fork height the extra info is not written: expected to come back empty
			want = copyPerm(reflect.ValueOf(v), rng).Interface()
			reflect.ValueOf(want).Elem().FieldByName("ExtraInfo").SetBytes(nil)
		}
		if why := eqVal(reflect.ValueOf(want), reflect.ValueOf(got), t.name); why != "" {
			c.fail("roundtrip-value-differs-"+t.name, "%s: decoded value differs from the encoded one: %s", t.name, why)
			continue
		}
		// (iii) re-encoding gives the same bytes
		re, err, ok := c.safeEnc(t, got)
		if !ok {
			continue
		}
		if err != nil || !bytes.Equal(re, enc) {
			c.fail("reencode-differs-"+t.name, "%s: decode(encode(x)) re-encodes to %s, original %s (err=%v)", t.name, short(re), short(enc), err)
			continue
		}
		if t.name == "core.StorageItem" {
			item := v.(*cstates.StorageItem)
			raw := cstates.GenRawStorageItem(item.Value)
			val, err := cstates.GetValueFromRawStorageItem(raw)
			if err != nil || !bytes.Equal(val, item.Value) {
				c.fail("raw-storage-item", "GetValueFromRawStorageItem(GenRawStorageItem(v)) != v (err=%v)", err)
				continue
			}
			run.Probe("storage_item_raw_roundtrip")
		}
		complete := true
		cut := -1
		if t.legacyCut != nil {
			cut = t.legacyCut(v, enc)
		}
		switch mode {
		case c04TruncAll:
			var pts []int
			if len(enc) <= 1200 {
				for x := 0; x < len(enc); x++ {
					pts = append(pts, x)
				}
			} else {
				for j := 0; j < 500; j++ {
					pts = append(pts, rng.Intn(len(enc)))
				}
			}
			for _, x := range pts {
				run.Fault("truncation")
				if c.decodeDamaged(t, fmt.Sprintf("truncated@%d/%d", x, len(enc)), enc[:x]) {
					if x == cut {
						run.Probe("legacy_cut_accepted")
						continue
					}
					where := ""
					if cut >= 0 && x > cut {
						where = " (inside the trailing ExtraInfo field, whose read error is ignored)"
					}
					c.fail("truncated-encoding-accepted-"+t.name, "%s: encoding cut at byte %d of %d was accepted%s", t.name, x, len(enc), where)
				}
			}
		case c04BitFlips:
			for j := 0; j < 64 && len(enc) > 0; j++ {
				d := copyB(enc)
				for f := 1 + rng.Intn(2); f > 0; f-- {
					d[rng.Intn(len(d))] ^= 1 << uint(rng.Intn(8))
				}
				run.Fault("bit_flip")
				c.decodeDamaged(t, fmt.Sprintf("bitflip#%d", j), d)
			}
		case c04Counts:
			offs := []int{}
			if len(enc) <= 260 {
				for o := 0; o < len(enc); o++ {
					offs = append(offs, o)
				}
			} else {
				for o := 0; o < 130; o++ {
					offs = append(offs, o)
				}
				for j := 0; j < 130; j++ {
					offs = append(offs, rng.Intn(len(enc)))
				}
			}
			for _, o := range offs {
				for _, cv := range []uint64{0xFFFF, 0x10000, 1 << 46, 1 << 63, ^uint64(0)} {
					// as a var-int replacing the byte at o
					w := &refW{}
					w.raw(enc[:o])
					w.varuint(cv)
					w.raw(enc[o+1:])
					run.Fault("count_injected")
					if cv >= dangerHi {
						run.Probe("huge_count_injected")
					}
					c.decodeDamaged(t, fmt.Sprintf("varuint %#x@%d", cv, o), w.b)
					// as a fixed-width little-endian count overwriting 8 / 4 bytes at o
					if cv >= dangerHi && o+8 <= len(enc) {
						d := copyB(enc)
						for b := 0; b < 8; b++ {
							d[o+b] = byte(cv >> (8 * uint(b)))
						}
						c.decodeDamaged(t, fmt.Sprintf("u64 %#x@%d", cv, o), d)
					}
				}
				if o+4 <= len(enc) {
					d := copyB(enc)
					d[o], d[o+1], d[o+2], d[o+3] = 0xFF, 0xFF, 0xFF, 0x7F
					if t.danger == nil { // a 2^31 count is only safe where nothing pre-allocates
						c.decodeDamaged(t, fmt.Sprintf("u32 max@%d", o), d)
					}
				}
			}
		case c04Garbage:
			for j := 0; j < 64; j++ {
				d := rng.Bytes(rng.Intn(2 * (len(enc) + 8)))
				if rng.Intn(2) == 0 && len(enc) > 0 { // plausible head, random tail
					d = append(copyB(enc[:rng.Intn(len(enc))]), rng.Bytes(rng.Intn(40))...)
				}
				run.Fault("garbage")
				c.decodeDamaged(t, fmt.Sprintf("garbage#%d", j), d)
			}
		}
		globalTimer.add(c04ModeNames[mode], t0)
		out := fmt.Sprintf("%s bytes=%d mode=%s evals=%d rejected=%d accepted=%d", t.name, len(enc), c04ModeNames[mode], c.evals-ev0, c.rej-rej0, c.acc-acc0)
		run.Logf("step %d %s", i, out)
		run.State([]byte(out))
		if len(sample) < 4 {
			sample = append(sample, out)
		}
		if complete && len(enc) > 12 {
			run.Nontrivial([]byte(out))
		}
		run.Probe("type_" + t.name)
	}
	run.Probes["__evals"] = c.evals
	run.Sample = sample
	globalTimer.report("C04")
}
