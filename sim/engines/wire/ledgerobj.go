package wire

import (
	"bytes"
	"crypto/ed25519"
	"crypto/sha256"
	"encoding/binary"
	"fmt"
	"math/big"

	"github.com/ontio/ontology-crypto/ec"
	"github.com/ontio/ontology-crypto/keypair"
	"github.com/polynetwork/poly/account"
	"github.com/polynetwork/poly/common"
	"github.com/polynetwork/poly/core/payload"
	"github.com/polynetwork/poly/core/types"

	"polysim/chain"
	"polysim/kernel"
)

// ---- deterministic key pool (never crypto/rand) ----

type poolKey struct {
	acct *account.Account // nil for verify-only (ed25519) keys
	pub  keypair.PublicKey
	ser  []byte
}

const keySeed = 0x5eedc0de

var keyPool []*poolKey

func keys() []*poolKey {
	if keyPool != nil {
		return keyPool
	}
	for i := 0; i < 20; i++ {
		a := chain.NewAccount(keySeed, fmt.Sprintf("wire%d", i))
		keyPool = append(keyPool, &poolKey{acct: a, pub: a.PublicKey, ser: keypair.SerializePublicKey(a.PublicKey)})
	}
	for i := 0; i < 4; i++ { // a few ed25519 keys: different serialised length (34 bytes)
		seed := sha256.Sum256(binary.LittleEndian.AppendUint64([]byte("wire-ed"), uint64(i)))
		pk := ed25519.NewKeyFromSeed(seed[:]).Public().(ed25519.PublicKey)
		ser := append([]byte{byte(keypair.PK_EDDSA), keypair.ED25519}, pk...)
		pub, err := keypair.DeserializePublicKey(ser)
		if err != nil {
			panic(err)
		}
		if string(keypair.SerializePublicKey(pub)) != string(ser) {
			panic("ed25519 key serialisation mismatch")
		}
		keyPool = append(keyPool, &poolKey{pub: pub, ser: ser})
	}
	return keyPool
}

// signers are the pool keys that can sign (P-256 accounts).
func signerKey(i int) *poolKey { return keys()[i%20] }

// ---- models of ledger objects + reference encoders (from the wire format) ----

// ovr overrides one count/length field while encoding (structured corruption).
type ovr struct {
	field string
	val   uint64
	hit   bool
}

func (o *ovr) get(field string, actual uint64) uint64 {
	if o != nil && o.field == field {
		o.hit = true
		return o.val
	}
	return actual
}

type sigM struct {
	SigData [][]byte
	PubKeys []int // indices into the key pool
	M       uint16
}

type txM struct {
	Version  byte
	TxType   byte
	Nonce    uint32
	ChainID  uint64
	GasLimit uint64
	GasPrice uint64
	Code     []byte
	Attrs    []byte
	Payer    [20]byte
	CoinType byte
	Sigs     []sigM
}

func (t *txM) encUnsigned(w *refW, o *ovr) {
	w.u8(t.Version)
	w.u8(t.TxType)
	w.u32(t.Nonce)
	w.u64(t.ChainID)
	w.u64(t.GasLimit)
	w.u64(t.GasPrice)
	w.varuint(o.get("tx.code.len", uint64(len(t.Code))))
	w.raw(t.Code)
	w.varuint(o.get("tx.attrs.len", uint64(len(t.Attrs))))
	w.raw(t.Attrs)
	w.raw(t.Payer[:])
	w.u8(t.CoinType)
}

func (t *txM) enc(w *refW, o *ovr) (unsignedLen int) {
	start := len(w.b)
	t.encUnsigned(w, o)
	unsignedLen = len(w.b) - start
	w.varuint(o.get("tx.nsigs", uint64(len(t.Sigs))))
	for i, s := range t.Sigs {
		p := fmt.Sprintf("tx.sig%d.", i)
		w.u16(uint16(o.get(p+"nsigdata", uint64(len(s.SigData)))))
		for j, d := range s.SigData {
			w.varuint(o.get(fmt.Sprintf("%ssigdata%d.len", p, j), uint64(len(d))))
			w.raw(d)
		}
		w.u16(uint16(o.get(p+"npk", uint64(len(s.PubKeys)))))
		for j, k := range s.PubKeys {
			ser := keys()[k].ser
			w.varuint(o.get(fmt.Sprintf("%spk%d.len", p, j), uint64(len(ser))))
			w.raw(ser)
		}
		w.u16(s.M)
	}
	return
}

func (t *txM) bytes() (all []byte, unsignedLen int) {
	w := &refW{}
	n := t.enc(w, nil)
	return w.b, n
}

// countFields lists the overridable count/length fields of this transaction.
func (t *txM) countFields() []string {
	f := []string{"tx.code.len", "tx.attrs.len", "tx.nsigs"}
	for i, s := range t.Sigs {
		if i > 0 {
			continue // first entry only (later entries cost a decode of every earlier public key per variant)
		}
		p := fmt.Sprintf("tx.sig%d.", i)
		f = append(f, p+"nsigdata", p+"npk")
		if len(s.SigData) > 0 {
			f = append(f, p+"sigdata0.len")
		}
		if len(s.PubKeys) > 0 {
			f = append(f, p+"pk0.len")
		}
	}
	return f
}

func (t *txM) real() *types.Transaction {
	tx := &types.Transaction{Version: t.Version, TxType: types.TransactionType(t.TxType), Nonce: t.Nonce, ChainID: t.ChainID,
		GasLimit: t.GasLimit, GasPrice: t.GasPrice, Payload: &payload.InvokeCode{Code: t.Code}, Attributes: t.Attrs,
		Payer: common.Address(t.Payer), CoinType: types.CoinType(t.CoinType)}
	for _, s := range t.Sigs {
		rs := types.Sig{M: s.M, SigData: s.SigData}
		for _, k := range s.PubKeys {
			rs.PubKeys = append(rs.PubKeys, keys()[k].pub)
		}
		tx.Sigs = append(tx.Sigs, rs)
	}
	return tx
}

// describeTx renders the fields of a decoded transaction for comparison with the model.
func describeTx(tx *types.Transaction) string {
	code := []byte(nil)
	if ic, ok := tx.Payload.(*payload.InvokeCode); ok && ic != nil {
		code = ic.Code
	}
	s := fmt.Sprintf("v%d t%d n%d c%d gl%d gp%d code=%x attrs=%x payer=%x coin=%d sigs=%d", tx.Version, byte(tx.TxType), tx.Nonce, tx.ChainID,
		tx.GasLimit, tx.GasPrice, code, tx.Attributes, tx.Payer[:], byte(tx.CoinType), len(tx.Sigs))
	for _, sg := range tx.Sigs {
		s += fmt.Sprintf("|m%d", sg.M)
		for _, d := range sg.SigData {
			s += fmt.Sprintf(" d%x", d)
		}
		for _, k := range sg.PubKeys {
			s += fmt.Sprintf(" k%x", keypair.SerializePublicKey(k))
		}
	}
	return s
}

func (t *txM) describe() string {
	s := fmt.Sprintf("v%d t%d n%d c%d gl%d gp%d code=%x attrs=%x payer=%x coin=%d sigs=%d", t.Version, t.TxType, t.Nonce, t.ChainID,
		t.GasLimit, t.GasPrice, t.Code, t.Attrs, t.Payer[:], t.CoinType, len(t.Sigs))
	for _, sg := range t.Sigs {
		s += fmt.Sprintf("|m%d", sg.M)
		for _, d := range sg.SigData {
			s += fmt.Sprintf(" d%x", d)
		}
		for _, k := range sg.PubKeys {
			s += fmt.Sprintf(" k%x", keys()[k].ser)
		}
	}
	return s
}

func genSig(rng *kernel.RNG) sigM {
	var s sigM
	npk := 1
	if rng.Intn(3) == 0 {
		npk = 2 + rng.Intn(5) // multi-sig entry
	}
	for i := 0; i < npk; i++ {
		s.PubKeys = append(s.PubKeys, rng.Intn(len(keys())))
	}
	s.M = uint16(1 + rng.Intn(npk))
	if rng.Intn(12) == 0 {
		s.M = uint16(rng.Intn(70000))
	}
	nd := int(s.M)
	if nd > npk || rng.Intn(5) == 0 {
		nd = rng.Intn(npk + 1)
	}
	for i := 0; i < nd; i++ {
		s.SigData = append(s.SigData, rng.Bytes(smallLen(rng, 72)))
	}
	return s
}

func genTx(rng *kernel.RNG, maxSigs int) *txM {
	t := &txM{Version: 0, TxType: byte(types.Invoke), Nonce: uint32(biasedU64(rng)), ChainID: biasedU64(rng), GasLimit: biasedU64(rng), GasPrice: biasedU64(rng), CoinType: 0}
	t.Code = rng.Bytes(smallLen(rng, 260))
	if rng.Intn(40) == 0 {
		t.Code = rng.Bytes([]int{0xFFFF, 0x10000}[rng.Intn(2)])
	}
	copy(t.Payer[:], rng.Bytes(20))
	ns := 0
	switch rng.Intn(5) {
	case 0:
	case 1:
		ns = 1
	default:
		ns = rng.Intn(maxSigs + 1)
	}
	for i := 0; i < ns; i++ {
		t.Sigs = append(t.Sigs, genSig(rng))
	}
	return t
}

type hdrM struct {
	Version       uint32
	ChainID       uint64
	Prev          [32]byte
	TxRoot        [32]byte
	CrossRoot     [32]byte
	BlockRoot     [32]byte
	Timestamp     uint32
	Height        uint32
	ConsensusData uint64
	CP            []byte
	NextBK        [20]byte
	BKs           []int
	Sigs          [][]byte
}

func (h *hdrM) encUnsigned(w *refW, o *ovr) {
	w.u32(h.Version)
	w.u64(h.ChainID)
	w.raw(h.Prev[:])
	w.raw(h.TxRoot[:])
	w.raw(h.CrossRoot[:])
	w.raw(h.BlockRoot[:])
	w.u32(h.Timestamp)
	w.u32(h.Height)
	w.u64(h.ConsensusData)
	w.varuint(o.get("hdr.cp.len", uint64(len(h.CP))))
	w.raw(h.CP)
	w.raw(h.NextBK[:])
}

func (h *hdrM) enc(w *refW, o *ovr) (unsignedLen int) {
	start := len(w.b)
	h.encUnsigned(w, o)
	unsignedLen = len(w.b) - start
	w.varuint(o.get("hdr.nbk", uint64(len(h.BKs))))
	for j, k := range h.BKs {
		ser := keys()[k].ser
		w.varuint(o.get(fmt.Sprintf("hdr.bk%d.len", j), uint64(len(ser))))
		w.raw(ser)
	}
	w.varuint(o.get("hdr.nsig", uint64(len(h.Sigs))))
	for j, s := range h.Sigs {
		w.varuint(o.get(fmt.Sprintf("hdr.sig%d.len", j), uint64(len(s))))
		w.raw(s)
	}
	return
}

func (h *hdrM) bytes() ([]byte, int) {
	w := &refW{}
	n := h.enc(w, nil)
	return w.b, n
}

func (h *hdrM) countFields() []string {
	f := []string{"hdr.cp.len", "hdr.nbk", "hdr.nsig"}
	if len(h.BKs) > 0 {
		f = append(f, "hdr.bk0.len")
	}
	if len(h.Sigs) > 0 {
		f = append(f, "hdr.sig0.len")
	}
	return f
}

func (h *hdrM) real() *types.Header {
	r := &types.Header{Version: h.Version, ChainID: h.ChainID, PrevBlockHash: h.Prev, TransactionsRoot: h.TxRoot, CrossStateRoot: h.CrossRoot,
		BlockRoot: h.BlockRoot, Timestamp: h.Timestamp, Height: h.Height, ConsensusData: h.ConsensusData, ConsensusPayload: h.CP, NextBookkeeper: h.NextBK}
	for _, k := range h.BKs {
		r.Bookkeepers = append(r.Bookkeepers, keys()[k].pub)
	}
	r.SigData = append(r.SigData, h.Sigs...)
	return r
}

func (h *hdrM) describe() string {
	s := fmt.Sprintf("v%d c%d p%x t%x x%x b%x ts%d h%d cd%d cp=%x nb=%x", h.Version, h.ChainID, h.Prev, h.TxRoot, h.CrossRoot, h.BlockRoot, h.Timestamp, h.Height, h.ConsensusData, h.CP, h.NextBK)
	for _, k := range h.BKs {
		s += fmt.Sprintf(" k%x", keys()[k].ser)
	}
	for _, d := range h.Sigs {
		s += fmt.Sprintf(" s%x", d)
	}
	return s
}

func describeHdr(h *types.Header) string {
	s := fmt.Sprintf("v%d c%d p%x t%x x%x b%x ts%d h%d cd%d cp=%x nb=%x", h.Version, h.ChainID, h.PrevBlockHash[:], h.TransactionsRoot[:], h.CrossStateRoot[:], h.BlockRoot[:], h.Timestamp, h.Height, h.ConsensusData, h.ConsensusPayload, h.NextBookkeeper[:])
	for _, k := range h.Bookkeepers {
		s += fmt.Sprintf(" k%x", keypair.SerializePublicKey(k))
	}
	for _, d := range h.SigData {
		s += fmt.Sprintf(" s%x", d)
	}
	return s
}

func genHdr(rng *kernel.RNG, maxBK int) *hdrM {
	h := &hdrM{Version: 0, ChainID: biasedU64(rng), Timestamp: uint32(biasedU64(rng)), Height: uint32(biasedU64(rng)), ConsensusData: rng.Uint64()}
	copy(h.Prev[:], rng.Bytes(32))
	copy(h.TxRoot[:], rng.Bytes(32))
	copy(h.CrossRoot[:], rng.Bytes(32))
	copy(h.BlockRoot[:], rng.Bytes(32))
	copy(h.NextBK[:], rng.Bytes(20))
	switch rng.Intn(3) {
	case 0:
		h.CP = []byte(fmt.Sprintf(`{"leader":%d,"vrf_value":"%s","vrf_proof":"","last_config_block_num":%d,"new_chain_config":null}`, rng.Intn(9), "AAEC", rng.Intn(1000)))
	case 1:
		h.CP = rng.Bytes(smallLen(rng, 300))
	}
	nb := rng.Intn(maxBK + 1)
	for i := 0; i < nb; i++ {
		h.BKs = append(h.BKs, rng.Intn(len(keys())))
	}
	ns := nb
	if rng.Intn(4) == 0 {
		ns = rng.Intn(maxBK + 1)
	}
	for i := 0; i < ns; i++ {
		h.Sigs = append(h.Sigs, rng.Bytes(smallLen(rng, 72)))
	}
	return h
}

// refMerkleRoot: root over transaction hashes as the format defines it (pairwise double
// SHA-256, last element paired with itself on odd levels, empty list -> zero hash); naive
// recursion, independent of poly's in-place loop.
func refMerkleRoot(h [][32]byte) [32]byte {
	if len(h) == 0 {
		return [32]byte{}
	}
	if len(h) == 1 {
		return h[0]
	}
	var next [][32]byte
	for i := 0; i < len(h); i += 2 {
		l, r := h[i], h[i]
		if i+1 < len(h) {
			r = h[i+1]
		}
		next = append(next, dsha(append(append([]byte{}, l[:]...), r[:]...)))
	}
	return refMerkleRoot(next)
}

type blkM struct {
	H   *hdrM
	Txs []*txM
}

func (b *blkM) fixRoot() {
	var hs [][32]byte
	for _, t := range b.Txs {
		w := &refW{}
		t.encUnsigned(w, nil)
		hs = append(hs, dsha(w.b))
	}
	b.H.TxRoot = refMerkleRoot(hs)
}

func (b *blkM) enc(w *refW, o *ovr) {
	b.H.enc(w, o)
	w.u32(uint32(o.get("blk.ntx", uint64(len(b.Txs)))))
	for _, t := range b.Txs {
		t.enc(w, nil)
	}
}

func (b *blkM) bytes() []byte {
	w := &refW{}
	b.enc(w, nil)
	return w.b
}

func (b *blkM) real() *types.Block {
	r := &types.Block{Header: b.H.real()}
	for _, t := range b.Txs {
		r.Transactions = append(r.Transactions, t.real())
	}
	return r
}

func genBlk(rng *kernel.RNG, maxTx, maxSigs, maxBK int) *blkM {
	b := &blkM{H: genHdr(rng, maxBK)}
	n := rng.Intn(maxTx + 1)
	seen := map[[32]byte]bool{}
	for i := 0; i < n; i++ {
		t := genTx(rng, maxSigs)
		w := &refW{}
		t.encUnsigned(w, nil)
		h := dsha(w.b)
		if seen[h] {
			continue
		}
		seen[h] = true
		b.Txs = append(b.Txs, t)
	}
	b.fixRoot()
	return b
}

// ---- reference walkers: what would a decoder read, in particular the pre-allocating counts ----

// walkTx parses one transaction per the format. It returns the offset after the unsigned
// part, the end offset, and the count the decoder will pre-allocate the signature list with.
// ok=false: the bytes end early / the decoder must stop before reaching the signature count.
func walkTx(r *refR) (unsignedEnd, end int, nsigs uint64, ok bool) {
	ver := r.u8()
	typ := r.u8()
	r.u32()
	r.u64()
	r.u64()
	r.u64()
	if r.bad || ver != 0 || typ != byte(types.Invoke) {
		return 0, 0, 0, false
	}
	r.varbytes()
	attrs := r.varbytes()
	r.raw(20)
	coin := r.u8()
	if r.bad || len(attrs) > 0 || coin != 0 {
		return 0, 0, 0, false
	}
	unsignedEnd = r.off
	nsigs = r.varuint()
	if r.bad {
		return unsignedEnd, 0, 0, false
	}
	if nsigs > dangerLo { // cannot be walked entry by entry; the caller decides what to do
		return unsignedEnd, 0, nsigs, true
	}
	for i := uint64(0); i < nsigs; i++ {
		nd := r.u16()
		for j := 0; j < int(nd) && !r.bad; j++ {
			r.varbytes()
		}
		np := r.u16()
		for j := 0; j < int(np) && !r.bad; j++ {
			r.varbytes()
		}
		r.u16()
		if r.bad {
			return unsignedEnd, 0, nsigs, true
		}
	}
	return unsignedEnd, r.off, nsigs, true
}

// walkHdr skips one header; ok=false if the bytes end inside it.
func walkHdr(r *refR) (unsignedEnd int, ok bool) {
	ver := r.u32()
	r.u64()
	r.raw(128)
	r.u32()
	r.u32()
	r.u64()
	r.varbytes()
	r.raw(20)
	if r.bad || ver != 0 {
		return 0, false
	}
	unsignedEnd = r.off
	n := r.varuint()
	for i := uint64(0); i < n && !r.bad; i++ {
		if n > 1<<62 {
			break // decoder loop `i < int(n)` does not run for n >= 2^63
		}
		r.varbytes()
	}
	if n >= 1<<63 {
		// loop skipped
	}
	m := r.varuint()
	for i := uint64(0); i < m && !r.bad; i++ {
		if m > 1<<62 {
			break
		}
		r.varbytes()
	}
	return unsignedEnd, !r.bad
}

// txDanger reports whether decoding a transaction from b would pre-allocate a dangerous count.
func txDanger(b []byte) bool {
	r := &refR{b: b}
	_, _, n, ok := walkTx(r)
	return ok && dangerous(n)
}

// blockDanger does the same for a block (header, u32 count, transactions).
func blockDanger(b []byte) bool {
	r := &refR{b: b}
	if _, ok := walkHdr(r); !ok {
		return false
	}
	cnt := r.u32()
	if r.bad {
		return false
	}
	for i := uint32(0); i < cnt; i++ {
		_, end, n, ok := walkTx(r)
		if !ok {
			return false
		}
		if dangerous(n) {
			return true
		}
		if end == 0 {
			return false
		}
	}
	return false
}

// ---- off-curve public keys ----
// ontology-crypto's DeserializePublicKey accepts the uncompressed encodings (0x04|X|Y, also
// behind the typed 0x12|curve prefix) without checking that the point is on the curve, while
// SerializePublicKey always writes the compressed form, whose decompression fails for such an X.
// An object decoded with such a key can therefore not be encoded and decoded again.

func offCurve(pub keypair.PublicKey) bool {
	k, ok := pub.(*ec.PublicKey)
	if !ok || k == nil || k.PublicKey == nil || k.Curve == nil || k.X == nil || k.Y == nil {
		return false
	}
	return !k.Curve.IsOnCurve(k.X, k.Y)
}

func txOffCurve(tx *types.Transaction) bool {
	if tx == nil {
		return false
	}
	for _, s := range tx.Sigs {
		for _, k := range s.PubKeys {
			if offCurve(k) {
				return true
			}
		}
	}
	return false
}

func hdrOffCurve(h *types.Header) bool {
	if h == nil {
		return false
	}
	for _, k := range h.Bookkeepers {
		if offCurve(k) {
			return true
		}
	}
	return false
}

func blockOffCurve(b *types.Block) bool {
	if b == nil {
		return false
	}
	if hdrOffCurve(b.Header) {
		return true
	}
	for _, tx := range b.Transactions {
		if txOffCurve(tx) {
			return true
		}
	}
	return false
}

const offCurveKeyPrefix = "accepted-message-with-off-curve-public-key-cannot-be-reframed:"

// uncompressedKey returns the 0x04|X|Y encoding of pool key i (P-256 keys only); with off=true Y
// is changed so that the point leaves the curve; typed=true prepends the 0x12|curve label form.
func uncompressedKey(i int, off, typed bool) []byte {
	k := signerKey(i).pub.(*ec.PublicKey)
	xi, y := new(big.Int).Set(k.X), new(big.Int).Set(k.Y)
	if off { // move X to the nearest value that is the abscissa of no curve point at all
		for {
			xi.Add(xi, big.NewInt(1))
			c := append([]byte{0x02}, make([]byte, 32-len(xi.Bytes()))...)
			if _, err := keypair.DeserializePublicKey(append(c, xi.Bytes()...)); err != nil {
				break
			}
		}
	}
	x := xi.Bytes()
	b := []byte{0x04}
	b = append(b, make([]byte, 32-len(x))...)
	b = append(b, x...)
	yb := y.Bytes()
	b = append(b, make([]byte, 32-len(yb))...)
	b = append(b, yb...)
	if typed {
		b = append([]byte{byte(keypair.PK_ECDSA), keypair.P256}, b...)
	}
	return b
}

// swapFirstKey replaces the first var-bytes encoded compressed P-256 pool key found in payload
// by another encoding of (almost) the same key. ok=false if the payload carries no such key.
func swapFirstKey(payload []byte, off, typed bool) (out []byte, ok bool) {
	best, bi := -1, -1
	for i := 0; i < 20; i++ {
		pat := append([]byte{byte(len(signerKey(i).ser))}, signerKey(i).ser...)
		if p := bytes.Index(payload, pat); p >= 0 && (best < 0 || p < best) {
			best, bi = p, i
		}
	}
	if best < 0 {
		return nil, false
	}
	nk := uncompressedKey(bi, off, typed)
	w := &refW{}
	w.raw(payload[:best])
	w.varbytes(nk)
	w.raw(payload[best+1+len(signerKey(bi).ser):])
	return w.b, true
}
