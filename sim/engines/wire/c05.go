package wire

import (
	"bytes"
	"fmt"
	"io"
	"time"

	"github.com/ontio/ontology-crypto/keypair"
	"github.com/polynetwork/poly/common"
	"github.com/polynetwork/poly/common/config"
	"github.com/polynetwork/poly/core/types"
	pc "github.com/polynetwork/poly/p2pserver/common"
	mt "github.com/polynetwork/poly/p2pserver/message/types"

	"polysim/kernel"
)

// ---------------------------------------------------------------------------------------
// C05: peer-to-peer frames are integrity-checked and round-trip.
// ---------------------------------------------------------------------------------------

// frame format (from the protocol description): magic u32 | command 12 bytes NUL padded |
// payload length u32 | checksum = first 4 bytes of SHA-256(SHA-256(payload)) | payload.
const (
	frameHdrLen   = 24
	maxPayloadLen = 30*1024*1024 - frameHdrLen // "a payload above the size limit": 30 MiB message limit
	maxInvCnt     = 64
	maxAddrCnt    = 64
)

var p2pKinds = []string{"version", "verack", "getaddr", "addr", "ping", "pong", "getheaders", "headers", "inv", "getdata", "block", "tx", "consensus", "getblocks", "notfound", "disconnect"}

func knownCmd(s string) bool {
	for _, k := range p2pKinds {
		if k == s {
			return true
		}
	}
	return false
}

func refFrameHdr(magic uint32, cmd string, length uint32, payloadForSum []byte) []byte {
	w := &refW{}
	w.u32(magic)
	var c [12]byte
	copy(c[:], cmd)
	w.raw(c[:])
	w.u32(length)
	s := dsha(payloadForSum)
	w.raw(s[:4])
	return w.b
}

func refFrame(magic uint32, cmd string, payload []byte) []byte {
	return append(refFrameHdr(magic, cmd, uint32(len(payload)), payload), payload...)
}

const (
	fvOK = iota
	fvShortHeader
	fvMagic
	fvTooLong
	fvShortPayload
	fvChecksum
)

var fvNames = []string{"ok", "short-header", "wrong-magic", "length-above-limit", "payload-shorter-than-length", "checksum-mismatch"}

// refParseFrame is the model reader: what must happen to the first frame of `stream`.
func refParseFrame(stream []byte, magic uint32) (verdict int, cmd [12]byte, payload []byte, consumed int) {
	r := &refR{b: stream}
	m := r.u32()
	c := r.raw(12)
	l := r.u32()
	sum := r.raw(4)
	if r.bad {
		return fvShortHeader, cmd, nil, len(stream)
	}
	copy(cmd[:], c)
	if m != magic {
		return fvMagic, cmd, nil, frameHdrLen
	}
	if l > maxPayloadLen {
		return fvTooLong, cmd, nil, frameHdrLen
	}
	p := r.raw(uint64(l))
	if r.bad {
		return fvShortPayload, cmd, nil, len(stream)
	}
	s := dsha(p)
	if !bytes.Equal(s[:4], sum) {
		return fvChecksum, cmd, nil, r.off
	}
	return fvOK, cmd, p, r.off
}

func cstr(c [12]byte) string {
	if i := bytes.IndexByte(c[:], 0); i >= 0 {
		return string(c[:i])
	}
	return string(c[:])
}

func trimmed(c [12]byte) string { return string(bytes.TrimRight(c[:], "\x00")) }

// msgCase is one generated message: poly object, model payload, model rendering of the fields.
type msgCase struct {
	cmd     string
	msg     mt.Message
	payload []byte
	desc    string
	hasTx   bool
	hasBlk  bool
}

func describeMsg(m mt.Message) string {
	switch v := m.(type) {
	case *mt.Version:
		p := v.P
		return fmt.Sprintf("version %d %d %d %d %d %d %x %d %d %d %v %q", p.Version, p.Services, p.TimeStamp, p.SyncPort, p.HttpInfoPort, p.ConsPort, p.Cap, p.Nonce, p.StartHeight, p.Relay, p.IsConsensus, p.SoftVersion)
	case *mt.VerACK:
		return fmt.Sprintf("verack %v", v.IsConsensus)
	case *mt.AddrReq:
		return "getaddr"
	case *mt.Addr:
		s := fmt.Sprintf("addr %d", len(v.NodeAddrs))
		for _, a := range v.NodeAddrs {
			s += fmt.Sprintf("|%d %d %x %d %d %d", a.Time, a.Services, a.IpAddr, a.Port, a.ConsensusPort, a.ID)
		}
		return s
	case *mt.Ping:
		return fmt.Sprintf("ping %d", v.Height)
	case *mt.Pong:
		return fmt.Sprintf("pong %d", v.Height)
	case *mt.HeadersReq:
		return fmt.Sprintf("getheaders %d %x %x", v.Len, v.HashStart[:], v.HashEnd[:])
	case *mt.BlkHeader:
		s := fmt.Sprintf("headers %d", len(v.BlkHdr))
		for _, h := range v.BlkHdr {
			s += "|" + describeHdr(h)
		}
		return s
	case *mt.Inv:
		s := fmt.Sprintf("inv %d %d", byte(v.P.InvType), len(v.P.Blk))
		for _, h := range v.P.Blk {
			s += fmt.Sprintf(" %x", h[:])
		}
		return s
	case *mt.DataReq:
		return fmt.Sprintf("getdata %d %x", byte(v.DataType), v.Hash[:])
	case *mt.Block:
		if v.Blk == nil || v.Blk.Header == nil {
			return "block nil"
		}
		s := fmt.Sprintf("block %x %s txs=%d", v.MerkleRoot[:], describeHdr(v.Blk.Header), len(v.Blk.Transactions))
		for _, t := range v.Blk.Transactions {
			s += "|" + describeTx(t)
		}
		return s
	case *mt.Trn:
		if v.Txn == nil {
			return "tx nil"
		}
		return "tx " + describeTx(v.Txn)
	case *mt.Consensus:
		p := v.Cons
		return fmt.Sprintf("consensus %d %x %d %d %d %x %x %x", p.Version, p.PrevHash[:], p.Height, p.BookkeeperIndex, p.Timestamp, p.Data, serPub(p.Owner), p.Signature)
	case *mt.BlocksReq:
		return fmt.Sprintf("getblocks %d %x %x", v.HeaderHashCount, v.HashStart[:], v.HashStop[:])
	case *mt.NotFound:
		return fmt.Sprintf("notfound %x", v.Hash[:])
	case *mt.Disconnected:
		return "disconnect"
	}
	return fmt.Sprintf("unknown %T", m)
}

func h256(rng *kernel.RNG) (h common.Uint256) { copy(h[:], rng.Bytes(32)); return }

func serPub(k keypair.PublicKey) []byte {
	if k == nil {
		return nil
	}
	return keypair.SerializePublicKey(k)
}

func genMsg(rng *kernel.RNG, kind int, overLimit bool) *msgCase {
	cmd := p2pKinds[kind%len(p2pKinds)]
	c := &msgCase{cmd: cmd}
	w := &refW{}
	switch cmd {
	case "version":
		var p mt.VersionPayload
		p.Version, p.Services, p.TimeStamp = uint32(biasedU64(rng)), biasedU64(rng), int64(biasedU64(rng))
		p.SyncPort, p.HttpInfoPort, p.ConsPort = uint16(rng.Intn(65536)), uint16(rng.Intn(65536)), uint16(rng.Intn(65536))
		copy(p.Cap[:], rng.Bytes(32))
		p.Nonce, p.StartHeight, p.Relay, p.IsConsensus = rng.Uint64(), biasedU64(rng), uint8(rng.Intn(256)), rng.Intn(2) == 0
		p.SoftVersion = string(rng.Bytes(smallLen(rng, 40)))
		c.msg = &mt.Version{P: p}
		w.u32(p.Version)
		w.u64(p.Services)
		w.u64(uint64(p.TimeStamp))
		w.u16(p.SyncPort)
		w.u16(p.HttpInfoPort)
		w.u16(p.ConsPort)
		w.raw(p.Cap[:])
		w.u64(p.Nonce)
		w.u64(p.StartHeight)
		w.u8(p.Relay)
		w.boolean(p.IsConsensus)
		w.varbytes([]byte(p.SoftVersion))
		c.desc = fmt.Sprintf("version %d %d %d %d %d %d %x %d %d %d %v %q", p.Version, p.Services, p.TimeStamp, p.SyncPort, p.HttpInfoPort, p.ConsPort, p.Cap, p.Nonce, p.StartHeight, p.Relay, p.IsConsensus, p.SoftVersion)
	case "verack":
		b := rng.Intn(2) == 0
		c.msg = &mt.VerACK{IsConsensus: b}
		w.boolean(b)
		c.desc = fmt.Sprintf("verack %v", b)
	case "getaddr":
		c.msg = &mt.AddrReq{}
		c.desc = "getaddr"
	case "addr":
		n := rng.Intn(maxAddrCnt + 1)
		if rng.Intn(4) == 0 {
			n = maxAddrCnt
		}
		if overLimit {
			n = maxAddrCnt + 1 + rng.Intn(12)
		}
		a := &mt.Addr{}
		w.u64(uint64(n))
		c.desc = fmt.Sprintf("addr %d", imin(n, maxAddrCnt))
		for i := 0; i < n; i++ {
			var pa pc.PeerAddr
			pa.Time, pa.Services, pa.Port, pa.ConsensusPort, pa.ID = int64(biasedU64(rng)), biasedU64(rng), uint16(rng.Intn(65536)), uint16(rng.Intn(65536)), rng.Uint64()
			copy(pa.IpAddr[:], rng.Bytes(16))
			a.NodeAddrs = append(a.NodeAddrs, pa)
			w.u64(uint64(pa.Time))
			w.u64(pa.Services)
			w.raw(pa.IpAddr[:])
			w.u16(pa.Port)
			w.u16(pa.ConsensusPort)
			w.u64(pa.ID)
			if i < maxAddrCnt {
				c.desc += fmt.Sprintf("|%d %d %x %d %d %d", pa.Time, pa.Services, pa.IpAddr, pa.Port, pa.ConsensusPort, pa.ID)
			}
		}
		c.msg = a
	case "ping", "pong":
		h := biasedU64(rng)
		if cmd == "ping" {
			c.msg = &mt.Ping{Height: h}
		} else {
			c.msg = &mt.Pong{Height: h}
		}
		w.u64(h)
		c.desc = fmt.Sprintf("%s %d", cmd, h)
	case "getheaders", "getblocks":
		l, a, b := uint8(rng.Intn(256)), h256(rng), h256(rng)
		if cmd == "getheaders" {
			c.msg = &mt.HeadersReq{Len: l, HashStart: a, HashEnd: b}
		} else {
			c.msg = &mt.BlocksReq{HeaderHashCount: l, HashStart: a, HashStop: b}
		}
		w.u8(l)
		w.raw(a[:])
		w.raw(b[:])
		c.desc = fmt.Sprintf("%s %d %x %x", cmd, l, a[:], b[:])
	case "headers":
		n := rng.Intn(4)
		bh := &mt.BlkHeader{}
		w.u32(uint32(n))
		c.desc = fmt.Sprintf("headers %d", n)
		for i := 0; i < n; i++ {
			m := genHdr(rng, 5)
			m.enc(w, nil)
			bh.BlkHdr = append(bh.BlkHdr, m.real())
			c.desc += "|" + m.describe()
		}
		c.msg = bh
	case "inv":
		t := byte(rng.Intn(4))
		n := rng.Intn(maxInvCnt + 1)
		if rng.Intn(4) == 0 {
			n = maxInvCnt
		}
		if overLimit {
			n = maxInvCnt + 1 + rng.Intn(12)
		}
		iv := &mt.Inv{}
		iv.P.InvType = common.InventoryType(t)
		w.u8(t)
		w.u32(uint32(n))
		c.desc = fmt.Sprintf("inv %d %d", t, imin(n, maxInvCnt))
		for i := 0; i < n; i++ {
			h := h256(rng)
			iv.P.Blk = append(iv.P.Blk, h)
			w.raw(h[:])
			if i < maxInvCnt {
				c.desc += fmt.Sprintf(" %x", h[:])
			}
		}
		c.msg = iv
	case "getdata":
		t, h := byte(rng.Intn(4)), h256(rng)
		c.msg = &mt.DataReq{DataType: common.InventoryType(t), Hash: h}
		w.u8(t)
		w.raw(h[:])
		c.desc = fmt.Sprintf("getdata %d %x", t, h[:])
	case "block":
		m := genBlk(rng, 3, 3, 5)
		root := h256(rng)
		c.msg = &mt.Block{Blk: m.real(), MerkleRoot: root}
		m.enc(w, nil)
		w.raw(root[:])
		c.desc = fmt.Sprintf("block %x %s txs=%d", root[:], m.H.describe(), len(m.Txs))
		for _, t := range m.Txs {
			c.desc += "|" + t.describe()
		}
		c.hasBlk = true
	case "tx":
		m := genTx(rng, 6)
		ref, _ := m.bytes()
		tx, err := types.TransactionFromRawBytes(copyB(ref))
		if err != nil {
			panic("genMsg: well-formed tx rejected: " + err.Error())
		}
		c.msg = &mt.Trn{Txn: tx}
		w.raw(ref)
		c.desc = "tx " + m.describe()
		c.hasTx = true
	case "consensus":
		var p mt.ConsensusPayload
		p.Version, p.PrevHash, p.Height, p.BookkeeperIndex, p.Timestamp = uint32(biasedU64(rng)), h256(rng), uint32(biasedU64(rng)), uint16(rng.Intn(65536)), uint32(biasedU64(rng))
		p.Data = rng.Bytes(smallLen(rng, 300))
		k := keys()[rng.Intn(len(keys()))]
		p.Owner = k.pub
		p.Signature = rng.Bytes(smallLen(rng, 70))
		c.msg = &mt.Consensus{Cons: p}
		w.u32(p.Version)
		w.raw(p.PrevHash[:])
		w.u32(p.Height)
		w.u16(p.BookkeeperIndex)
		w.u32(p.Timestamp)
		w.varbytes(p.Data)
		w.varbytes(k.ser)
		w.varbytes(p.Signature)
		c.desc = fmt.Sprintf("consensus %d %x %d %d %d %x %x %x", p.Version, p.PrevHash[:], p.Height, p.BookkeeperIndex, p.Timestamp, p.Data, k.ser, p.Signature)
	case "notfound":
		h := h256(rng)
		c.msg = &mt.NotFound{Hash: h}
		w.raw(h[:])
		c.desc = fmt.Sprintf("notfound %x", h[:])
	case "disconnect":
		c.msg = &mt.Disconnected{}
		c.desc = "disconnect"
	}
	c.payload = w.b
	return c
}

const (
	c05None = iota
	c05EnumByte
	c05MultiByte
	c05Magic
	c05Length
	c05OverMax
	c05UnknownCmd
	c05Splice
	c05Garbage
	c05Cut
	c05Adversarial
	c05OverLimitCount
	c05CmdField
	c05NumModes
)

var c05ModeNames = []string{"none", "single_byte_every_offset", "multi_byte_corruption", "wrong_magic", "length_field_mismatch", "length_above_limit", "unknown_command",
	"two_frames_spliced", "garbage_stream", "early_eof_or_io_error", "damaged_payload_valid_checksum", "count_above_message_limit", "command_field_corruption"}

func init() {
	kernel.Register(&kernel.Check{
		ID: "C05", Level: "exploration", Engine: "E5 wire (p2p frames on a faulty stream)",
		Rule: "case = one message of one of the 16 kinds (version, verack, getaddr, addr, ping, pong, getheaders, headers, inv, getdata, block, tx, consensus, getblocks, notfound, disconnect) with random fields within the limits, framed by WriteMessage " +
			"(must equal the model frame) and read back by ReadMessage from a simulated stream delivering 1..k bytes per Read; then one fault mode: every offset of the frame corrupted by one byte (enumerated for frames <= 600 bytes, header always complete), " +
			"random multi-byte corruption, wrong magic, length field larger/smaller than the payload, length above the 30 MiB limit (allocation measured), unknown command with valid checksum, two frames spliced back to back, garbage streams, " +
			"early EOF / I/O error at every byte (frames <= 300 bytes), damaged payload under a valid checksum (truncation, flips, counts set to boundary values), inv/addr lists above the 64-entry limit. The expected verdict comes from a model frame reader: " +
			"anything but a header-valid, checksum-valid frame with a known command must be rejected; each of the 12 command bytes set to 0x01/0x20/0x80/0xff/random and multi-byte garbage after the terminating NUL of the name (all kinds); a command field is accepted only if it is exactly a known name followed only by NUL bytes, and then as that command. evaluations = ReadMessage calls judged. " +
			"Non-trivial: a non-empty payload, a fault fired and the verdict was checked; distinct by (kind, fault, verdict digest)",
		Real:        []string{"p2pserver/message/types WriteMessage/ReadMessage/MakeEmptyMessage and all 16 message types", "p2pserver/common.Checksum", "core/types decoders reached through tx/block/headers frames", "ConsensusPayload (de)serialisation"},
		Stub:        []string{"TCP link (simulated reader: chunking, stalls, injected I/O error, early EOF)", "peer / message router (frames are decoded, not dispatched)"},
		Assumptions: []string{"checksum collisions (2^-32 per corrupted payload) are decided by the model reader, not assumed away", "allocation guard: ReadMessage may allocate at most the payload limit (30 MiB) + 1 MiB before it verifies the checksum; the figure comes from the task statement, the property text only promises rejection", "counts in (2^16, 2^46) reaching an unguarded make() in the transaction decoder are not executed (process abort); counted as dangerous_count_not_executed"},
		QuickRuns:   1200, ThoroughRuns: 100000, QuickCap: 60, ThoroughCap: 800,
		RequiredProbes: []string{"kind_version", "kind_verack", "kind_getaddr", "kind_addr", "kind_ping", "kind_pong", "kind_getheaders", "kind_headers", "kind_inv", "kind_getdata", "kind_block", "kind_tx", "kind_consensus", "kind_getblocks", "kind_notfound", "kind_disconnect", "cmd_corrupted_to_other_known_command", "cmd_padding_corrupted", "cmd_padding_corruption_rejected", "cmd_garbage_after_nul_rejected", "length_consumes_next_frame", "length_above_limit_rejected", "checksum_field_corrupted", "short_read_inside_header", "spliced_second_frame_ok", "payload_count_huge", "off_curve_key_message_submitted"},
		Generate:       genC05,
		Execute:        execC05,
		NoMinimise:     noMin,
	})
}

func genC05(rng *kernel.RNG, idx int, tier string) *kernel.Plan {
	p := &kernel.Plan{Cfg: map[string]int64{"magic": int64(rng.Uint64() >> 33)}}
	mask := int64(0)
	for m := 1; m < c05NumModes; m++ {
		if rng.Intn(3) != 0 {
			mask |= 1 << uint(m)
		}
	}
	if mask == 0 {
		mask = 2
	}
	p.Cfg["modes"] = mask
	var enabled []int
	for m := 1; m < c05NumModes; m++ {
		if mask&(1<<uint(m)) != 0 {
			enabled = append(enabled, m)
		}
	}
	n := 4 + rng.Intn(7)
	for i := 0; i < n; i++ {
		mode := c05None
		if rng.Intn(6) != 0 {
			mode = enabled[rng.Intn(len(enabled))]
		}
		kind := (idx + i) % len(p2pKinds) // every kind appears regularly
		if rng.Intn(2) == 0 {
			kind = rng.Intn(len(p2pKinds))
		}
		p.Steps = append(p.Steps, kernel.Step{Op: "msg", A: []int64{int64(rng.Uint64() >> 1), int64(kind), int64(mode), int64(1 + rng.Intn(12)), int64(rng.Uint64() >> 33), int64(rng.Intn(8))}})
	}
	return p
}

type c05ctx struct {
	run    *kernel.Run
	failed map[string]bool
	evals  int
	magic  uint32
	digest []byte
}

func (c *c05ctx) fail(key, format string, a ...interface{}) {
	if c.failed[key] {
		return
	}
	c.failed[key] = true
	c.run.Fail("C05", key, format, a...)
}

// payloadDanger: would decoding this payload as `cmd` hit a pre-allocating count in the danger zone?
func payloadDanger(cmd string, payload []byte) bool {
	switch cmd {
	case "tx":
		return txDanger(payload)
	case "block":
		return blockDanger(payload)
	}
	return false
}

// judge reads one frame from the stream with poly's ReadMessage and compares with the model.
// orig is the undamaged case the stream was derived from (nil for garbage).
func (c *c05ctx) judge(label string, stream []byte, rd io.Reader, orig *msgCase, measure bool) (got mt.Message, ok bool) {
	run := c.run
	verdict, cmdField, payload, _ := refParseFrame(stream, c.magic)
	if fr, isFR := rd.(*faultReader); isFR && fr.failAt >= 0 {
		lim := imin(fr.failAt, len(stream))
		verdict, cmdField, payload, _ = refParseFrame(stream[:lim], c.magic)
	}
	if verdict == fvOK {
		for _, name := range []string{cstr(cmdField), trimmed(cmdField)} {
			if knownCmd(name) && payloadDanger(name, payload) {
				run.Fault("dangerous_count_not_executed")
				return nil, true
			}
		}
	}
	c.evals++
	var err error
	var n uint32
	var alloc uint64
	call := func() {
		if p, what := safely(func() { got, n, err = mt.ReadMessage(rd) }); p {
			kind := "garbage"
			if orig != nil {
				kind = orig.cmd
			}
			if verdict == fvOK {
				kind = trimmed(cmdField)
				if !knownCmd(kind) {
					kind = "cmd"
				}
			}
			c.fail(panicClass("readmessage-"+kind, what), "%s: ReadMessage panicked: %s (model verdict %s, stream %s)", label, what, fvNames[verdict], short(stream))
			err = fmt.Errorf("panic")
			got = nil
		}
	}
	if measure {
		alloc = allocDuring(call)
	} else {
		call()
	}
	if got == nil && err != nil && err.Error() == "panic" {
		return nil, true // recorded; keep judging the other variants
	}
	if alloc > uint64(maxPayloadLen+(1<<20)) {
		c.fail("allocation-above-payload-limit", "%s: ReadMessage allocated %d bytes (limit %d) on a stream of %d bytes, model verdict %s", label, alloc, maxPayloadLen, len(stream), fvNames[verdict])
		return nil, false
	}
	c.digest = append(c.digest, byte(verdict))
	if verdict != fvOK {
		if err == nil {
			c.fail("damaged-frame-accepted-"+fvNames[verdict], "%s: frame must be rejected (%s) but ReadMessage returned a %T message", label, fvNames[verdict], got)
			return nil, false
		}
		return nil, true
	}
	// header valid and checksum valid: the command field decides. It must be exactly a known
	// command name followed only by NUL bytes; anything else (unknown name, bytes after the
	// terminating NUL) is an unknown command and must be rejected.
	n1, n2 := cstr(cmdField), trimmed(cmdField)
	if !knownCmd(n2) {
		if err == nil {
			if knownCmd(n1) {
				c.fail("command-field-garbage-after-nul-accepted", "%s: command field %q is %q followed by non-NUL bytes, not a command name, but ReadMessage returned %T", label, cmdField[:], n1, got)
			} else {
				c.fail("unknown-command-accepted", "%s: command field %q names no message kind but ReadMessage returned %T", label, cmdField[:], got)
			}
			return nil, false
		}
		return nil, true
	}
	if err != nil {
		if orig != nil && bytes.Equal(payload, orig.payload) && n2 == orig.cmd {
			c.fail("undamaged-frame-rejected", "%s: intact %s frame rejected: %v", label, orig.cmd, err)
			return nil, false
		}
		return nil, true // payload does not parse as the named kind: clean error
	}
	if got == nil {
		c.fail("nil-message-without-error", "%s: ReadMessage returned neither message nor error", label)
		return nil, false
	}
	if t := got.CmdType(); t != n2 {
		c.fail("message-kind-differs-from-command", "%s: command field names %q but a %q message was returned", label, n2, t)
		return nil, false
	}
	if int(n) != len(payload) {
		c.fail("payload-size-misreported", "%s: ReadMessage reports payload size %d, frame carries %d", label, n, len(payload))
		return nil, false
	}
	return got, true
}

// intact checks that an accepted message equals the original case.
func (c *c05ctx) intact(label string, got mt.Message, orig *msgCase) bool {
	if got == nil {
		c.fail("undamaged-frame-rejected", "%s: intact %s frame was not returned", label, orig.cmd)
		return false
	}
	if d := describeMsg(got); d != orig.desc {
		c.fail("roundtrip-fields-differ", "%s: %s message changed in transit:\n got  %.300s\n want %.300s", label, orig.cmd, d, orig.desc)
		return false
	}
	sink := common.NewZeroCopySink(nil)
	if err := got.Serialization(sink); err != nil {
		c.fail("roundtrip-reserialise", "%s: decoded %s message does not serialise: %v", label, orig.cmd, err)
		return false
	}
	want := orig.payload
	if !bytes.Equal(sink.Bytes(), want) {
		c.fail("roundtrip-reserialise", "%s: decoded %s message re-serialises to %s, sent %s", label, orig.cmd, short(sink.Bytes()), short(want))
		return false
	}
	return true
}

func execC05(run *kernel.Run) {
	c := &c05ctx{run: run, failed: map[string]bool{}, magic: uint32(run.Plan.C("magic", 0x74746e41))}
	config.DefConfig.P2PNode.NetworkMagic = c.magic
	var sample []string
	kindsSeen := 0
	for i, st := range run.Plan.Steps {
		run.StepNo = i
		if st.Op != "msg" {
			continue
		}
		run.Steps++
		t0 := time.Now()
		salt := uint64(st.Arg(0))
		rng := kernel.NewRNG(kernel.Derive(run.Plan.Seed, "c05", salt))
		kind := amod(st.Arg(1), len(p2pKinds))
		mode := amod(st.Arg(2), c05NumModes)
		k := 1 + amod(st.Arg(3)-1, 12)
		mc := genMsg(rng, kind, mode == c05OverLimitCount)
		kindsSeen |= 1 << uint(kind)
		c.digest = nil
		ev0 := c.evals
		rdr := func(data []byte, failAt int, sub uint64) *faultReader {
			r := newFaultReader(data, k, failAt, kernel.NewRNG(kernel.Derive(run.Plan.Seed, "c05rd", salt^sub)))
			r.stalls = int(st.Arg(5) % 3)
			return r
		}
		// write
		sink := common.NewZeroCopySink(nil)
		var werr error
		if p, what := safely(func() { werr = mt.WriteMessage(sink, mc.msg) }); p || werr != nil {
			c.fail("write-failed", "WriteMessage(%s) failed: %v %s", mc.cmd, werr, what)
			continue
		}
		frame := refFrame(c.magic, mc.cmd, mc.payload)
		if !bytes.Equal(sink.Bytes(), frame) {
			c.fail("frame-differs-from-format", "WriteMessage(%s) produced %s, the frame format says %s", mc.cmd, short(sink.Bytes()), short(frame))
			continue
		}
		// undamaged, short reads
		if mode != c05OverLimitCount {
			r0 := rdr(frame, -1, 1)
			got, ok := c.judge("intact "+mc.cmd, frame, r0, mc, false)
			if !ok || !c.intact("intact "+mc.cmd, got, mc) {
				continue
			}
			if r0.pos != len(frame) {
				c.fail("frame-overread", "ReadMessage consumed %d bytes of a %d byte frame", r0.pos, len(frame))
				continue
			}
			if k < frameHdrLen && r0.shortHits > 0 {
				run.Probe("short_read_inside_header")
			}
			run.Probe("kind_" + mc.cmd)
		}
		faultFired := false
		fire := func(kind string) { run.Fault(kind); faultFired = true }

		// command-field corruption: set one byte of the 12-byte field / fill the padding with garbage
		nameLen := len(mc.cmd)
		cmdCase := func(label string, d []byte, sub uint64) bool {
			got, ok := c.judge(label, d, rdr(d, -1, sub), mc, false)
			if !ok {
				return false
			}
			var cf [12]byte
			copy(cf[:], d[4:16])
			if cstr(cf) == mc.cmd && trimmed(cf) != mc.cmd && got == nil {
				run.Probe("cmd_padding_corruption_rejected")
			}
			if got != nil && got.CmdType() != mc.cmd {
				run.Probe("cmd_corrupted_to_other_known_command")
			}
			return true
		}
		if mode != c05OverLimitCount && nameLen < 11 { // in every step: two bytes of the padding after the terminating NUL
			for j := 0; j < 2; j++ {
				o := 4 + nameLen + 1 + rng.Intn(11-nameLen)
				d := copyB(frame)
				d[o] = []byte{0x01, 0x20, 0x80, 0xff, byte(1 + rng.Intn(255))}[rng.Intn(5)]
				fire("byte_in_command")
				run.Probe("cmd_padding_corrupted")
				if !cmdCase(fmt.Sprintf("%s padding byte@%d=%02x", mc.cmd, o, d[o]), d, uint64(o)+3000) {
					break
				}
			}
		}

		switch mode {
		case c05EnumByte:
			var offs []int
			if len(frame) <= 600 {
				for o := 0; o < len(frame); o++ {
					offs = append(offs, o)
				}
			} else {
				for o := 0; o < frameHdrLen; o++ {
					offs = append(offs, o)
				}
				for j := 0; j < 300; j++ {
					offs = append(offs, frameHdrLen+rng.Intn(len(frame)-frameHdrLen))
				}
			}
			for _, o := range offs {
				mask := byte(1 + rng.Intn(255))
				if o >= 4 && o < 16 && rng.Intn(3) == 0 { // command field: try to hit another known command now and then
					mask = 1 << uint(rng.Intn(8))
				}
				d := xorByte(frame, o, mask)
				if o == 18 || o == 19 { // high length bytes: keep a few large-allocation cases only
					if rng.Intn(4) != 0 {
						continue
					}
				}
				switch {
				case o < 4:
					fire("byte_in_magic")
				case o < 16:
					fire("byte_in_command")
					if frame[o] == 0 {
						run.Probe("cmd_padding_corrupted")
					}
				case o < 20:
					fire("byte_in_length")
				case o < 24:
					fire("byte_in_checksum")
					run.Probe("checksum_field_corrupted")
				default:
					fire("byte_in_payload")
				}
				got, ok := c.judge(fmt.Sprintf("%s byte@%d^%02x", mc.cmd, o, mask), d, rdr(d, -1, uint64(o)+10), mc, o >= 16 && o < 20)
				if !ok {
					break
				}
				if got != nil && o >= 4 && o < 16 {
					if got.CmdType() != mc.cmd {
						run.Probe("cmd_corrupted_to_other_known_command")
					}
				}
			}
			// targeted: turn the command into each other known command of the same payload shape
			for _, other := range p2pKinds {
				if other == mc.cmd {
					continue
				}
				d := copyB(frame)
				var cf [12]byte
				copy(cf[:], other)
				copy(d[4:16], cf[:])
				fire("byte_in_command")
				got, ok := c.judge(fmt.Sprintf("%s command->%s", mc.cmd, other), d, rdr(d, -1, 77), mc, false)
				if !ok {
					break
				}
				if got != nil {
					run.Probe("cmd_corrupted_to_other_known_command")
				}
			}
		case c05CmdField:
			for o := 4; o < 16; o++ {
				for vi, v := range []byte{0x01, 0x20, 0x80, 0xff, byte(1 + rng.Intn(255))} {
					if v == frame[o] {
						continue
					}
					d := copyB(frame)
					d[o] = v
					fire("byte_in_command")
					if o-4 > nameLen {
						run.Probe("cmd_padding_corrupted")
					}
					if !cmdCase(fmt.Sprintf("%s cmd byte@%d=%02x", mc.cmd, o, v), d, uint64(o*8+vi)+3100) {
						break
					}
				}
			}
			// multi-byte garbage after the first NUL (the terminating NUL stays in place)
			for j := 0; j < 16 && nameLen < 11; j++ {
				d := copyB(frame)
				from := 4 + nameLen + 1 + rng.Intn(11-nameLen)
				to := from + 1 + rng.Intn(16-from)
				nz := false
				for o := from; o < to; o++ {
					d[o] = byte(rng.Intn(256))
					if j%4 == 0 {
						d[o] = byte(1 + rng.Intn(255))
					}
					nz = nz || d[o] != 0
				}
				if !nz {
					d[from] = 0x01
				}
				if j%5 == 4 { // another known name after the NUL
					var cf [12]byte
					copy(cf[:], mc.cmd)
					copy(cf[nameLen+1:], p2pKinds[rng.Intn(len(p2pKinds))])
					copy(d[4:16], cf[:])
				}
				fire("garbage_after_command_nul")
				got, ok := c.judge(fmt.Sprintf("%s garbage after NUL [%d,%d)", mc.cmd, from, to), d, rdr(d, -1, uint64(j)+3300), mc, false)
				if !ok {
					break
				}
				if got == nil {
					run.Probe("cmd_garbage_after_nul_rejected")
				}
			}
		case c05MultiByte:
			for j := 0; j < 40; j++ {
				d := copyB(frame)
				for f := 2 + rng.Intn(6); f > 0; f-- {
					o := rng.Intn(len(d))
					if o == 18 || o == 19 {
						continue
					}
					d[o] ^= byte(1 + rng.Intn(255))
				}
				fire("multi_byte_corruption")
				if _, ok := c.judge(fmt.Sprintf("%s multi#%d", mc.cmd, j), d, rdr(d, -1, uint64(j)+500), mc, false); !ok {
					break
				}
			}
		case c05Magic:
			for j := 0; j < 6; j++ {
				m2 := c.magic ^ uint32(1)<<uint(rng.Intn(32))
				if j > 2 {
					m2 = uint32(rng.Uint64())
				}
				if m2 == c.magic {
					continue
				}
				d := refFrame(m2, mc.cmd, mc.payload)
				fire("wrong_magic")
				if _, ok := c.judge(fmt.Sprintf("%s magic %08x", mc.cmd, m2), d, rdr(d, -1, uint64(j)+600), mc, false); !ok {
					break
				}
			}
		case c05Length:
			next := genMsg(rng, rng.Intn(len(p2pKinds)), false)
			nf := refFrame(c.magic, next.cmd, next.payload)
			L := len(mc.payload)
			cands := []int{L + 1, L + 2, L + frameHdrLen, L + len(nf), L - 1, L / 2, 0, L + 1 + rng.Intn(4000)}
			for j, l2 := range cands {
				if l2 < 0 || l2 == L || l2 > 200000 {
					continue
				}
				d := append(refFrameHdr(c.magic, mc.cmd, uint32(l2), mc.payload), mc.payload...)
				lbl := fmt.Sprintf("%s length %d->%d", mc.cmd, L, l2)
				if l2 > L {
					fire("length_larger_than_payload")
				} else {
					fire("length_smaller_than_payload")
				}
				// alone on the stream, and followed by another frame whose bytes the reader would swallow
				if _, ok := c.judge(lbl, d, rdr(d, -1, uint64(j)+700), mc, true); !ok {
					break
				}
				d2 := append(copyB(d), nf...)
				if l2 > L && l2-L <= len(nf) {
					run.Probe("length_consumes_next_frame")
				}
				if _, ok := c.judge(lbl+" +next frame", d2, rdr(d2, -1, uint64(j)+720), mc, false); !ok {
					break
				}
			}
		case c05OverMax:
			for j, l2 := range []uint32{maxPayloadLen + 1, maxPayloadLen + 1 + uint32(rng.Intn(1<<20)), 2 * maxPayloadLen, 0x7FFFFFFF, 0x80000000, 0xFFFFFFFF, uint32(maxPayloadLen+1) + uint32(rng.Uint64()>>35)} {
				if l2 <= maxPayloadLen {
					continue
				}
				d := append(refFrameHdr(c.magic, mc.cmd, l2, mc.payload), mc.payload...)
				d = append(d, rng.Bytes(rng.Intn(200))...)
				fire("length_above_limit")
				if _, ok := c.judge(fmt.Sprintf("%s length %d above limit", mc.cmd, l2), d, rdr(d, -1, uint64(j)+800), mc, true); !ok {
					break
				}
				run.Probe("length_above_limit_rejected")
			}
			// a frame that really carries limit+1 bytes under a valid checksum (ping ignores what follows
			// its 8 bytes): only the size limit can reject it. Costly (30 MiB hashed twice), hence rare.
			if rng.Intn(24) == 0 {
				bigp := make([]byte, maxPayloadLen+1)
				copy(bigp, rng.Bytes(64))
				d := refFrame(c.magic, "ping", bigp)
				fire("payload_really_above_limit")
				c.judge("ping with a real payload of limit+1 bytes", d, rdr(d, -1, 860), mc, false)
				run.Probe("real_payload_above_limit_rejected")
			}
			// exactly at the limit with a short stream: allowed to allocate, must fail on the short payload
			if rng.Intn(12) == 0 {
				d := append(refFrameHdr(c.magic, mc.cmd, maxPayloadLen, mc.payload), mc.payload...)
				fire("length_at_limit_short_stream")
				c.judge(mc.cmd+" length at limit", d, rdr(d, -1, 850), mc, true)
			}
		case c05UnknownCmd:
			names := []string{"", "pingg", "pin", "PING", "tx\x01", "getaddrs", "blocks", "consensusxyz", string(rng.Bytes(12)), mc.cmd + "\x00x", "\x00" + mc.cmd}
			for j, nm := range names {
				if len(nm) > 12 {
					nm = nm[:12]
				}
				d := refFrame(c.magic, nm, mc.payload)
				fire("unknown_command")
				if _, ok := c.judge(fmt.Sprintf("%s as command %q", mc.cmd, nm), d, rdr(d, -1, uint64(j)+900), mc, false); !ok {
					break
				}
			}
		case c05Splice:
			next := genMsg(rng, rng.Intn(len(p2pKinds)), false)
			nf := refFrame(c.magic, next.cmd, next.payload)
			both := append(copyB(frame), nf...)
			r := rdr(both, -1, 1000)
			fire("spliced_frames")
			g1, ok := c.judge("splice first "+mc.cmd, both, r, mc, false)
			if !ok || !c.intact("splice first "+mc.cmd, g1, mc) {
				break
			}
			if r.pos != len(frame) {
				c.fail("frame-overread", "first of two spliced frames: ReadMessage consumed %d bytes of a %d byte frame", r.pos, len(frame))
				break
			}
			g2, ok := c.judge("splice second "+next.cmd, nf, r, next, false)
			if !ok || !c.intact("splice second "+next.cmd, g2, next) {
				break
			}
			run.Probe("spliced_second_frame_ok")
			// damaged first frame: the second read must still not panic (desynchronisation is expected)
			d := xorByte(both, frameHdrLen+rng.Intn(imax(1, len(mc.payload))), byte(1+rng.Intn(255)))
			r2 := rdr(d, -1, 1001)
			c.judge("splice damaged first", d, r2, mc, false)
			rest := d[imin(r2.pos, len(d)):]
			c.judge("splice after damaged first", rest, r2, nil, false)
		case c05Garbage:
			for j := 0; j < 30; j++ {
				var d []byte
				switch rng.Intn(4) {
				case 0:
					d = rng.Bytes(rng.Intn(300))
				case 1: // valid magic, random rest with a small length field
					w := &refW{}
					w.u32(c.magic)
					w.raw(rng.Bytes(12))
					w.u32(uint32(rng.Intn(400)))
					w.raw(rng.Bytes(4 + rng.Intn(400)))
					d = w.b
				case 2: // valid magic + known command + random payload with correct checksum
					d = refFrame(c.magic, p2pKinds[rng.Intn(len(p2pKinds))], rng.Bytes(rng.Intn(200)))
				default: // valid header of the generated message, random payload of the right length
					d = append(copyB(frame[:frameHdrLen]), rng.Bytes(len(mc.payload))...)
				}
				fire("garbage_stream")
				if _, ok := c.judge(fmt.Sprintf("garbage#%d", j), d, rdr(d, -1, uint64(j)+1100), nil, false); !ok {
					break
				}
			}
		case c05Cut:
			var pts []int
			if len(frame) <= 300 {
				for t := 0; t < len(frame); t++ {
					pts = append(pts, t)
				}
			} else {
				for t := 0; t < 40; t++ {
					pts = append(pts, t)
				}
				for j := 0; j < 80; j++ {
					pts = append(pts, rng.Intn(len(frame)))
				}
			}
			for _, t := range pts {
				if rng.Intn(2) == 0 {
					fire("early_eof")
					if _, ok := c.judge(fmt.Sprintf("%s eof@%d/%d", mc.cmd, t, len(frame)), frame[:t], rdr(frame[:t], -1, uint64(t)+1200), mc, false); !ok {
						break
					}
				} else {
					fire("io_error_at_byte")
					r := rdr(frame, t, uint64(t)+1200)
					r.withData = t%2 == 0
					if _, ok := c.judge(fmt.Sprintf("%s ioerr@%d/%d", mc.cmd, t, len(frame)), frame, r, mc, false); !ok {
						break
					}
				}
			}
		case c05Adversarial:
			c.adversarial(mc, rng, rdr, fire)
		case c05OverLimitCount:
			if mc.cmd == "inv" || mc.cmd == "addr" {
				fire("count_above_message_limit")
				got, ok := c.judge("over-limit "+mc.cmd, frame, rdr(frame, -1, 1300), mc, false)
				if ok && got != nil {
					if d := describeMsg(got); d != mc.desc {
						c.fail("over-limit-list-not-capped", "%s list above the 64 entry limit: got %.200s want the first 64 entries", mc.cmd, d)
					}
					run.Probe("over_limit_list_capped")
				}
			}
		}
		globalTimer.add(c05ModeNames[mode]+"/"+mc.cmd, t0)
		out := fmt.Sprintf("%s payload=%d mode=%s evals=%d verdicts=%x", mc.cmd, len(mc.payload), c05ModeNames[mode], c.evals-ev0, sha(c.digest)[:6])
		run.Logf("step %d %s", i, out)
		run.State([]byte(out))
		if len(sample) < 4 {
			sample = append(sample, out)
		}
		if len(mc.payload) > 0 && faultFired && c.evals > ev0+1 {
			run.Nontrivial([]byte(out))
		}
	}
	_ = kindsSeen
	run.Probes["__evals"] = c.evals
	run.Sample = sample
	globalTimer.report("C05")
}

func imax(a, b int) int {
	if a > b {
		return a
	}
	return b
}

// adversarial: the payload is damaged and the header (length, checksum) recomputed, i.e. what a
// malicious or buggy peer can send. The frame layer must accept it; the payload decoder must
// fail cleanly or return a message, never panic.
func (c *c05ctx) adversarial(mc *msgCase, rng *kernel.RNG, rdr func([]byte, int, uint64) *faultReader, fire func(string)) {
	run := c.run
	try := func(label string, p []byte) bool {
		d := refFrame(c.magic, mc.cmd, p)
		got, ok := c.judge(label, d, rdr(d, -1, uint64(len(p))+1400), nil, false)
		if got != nil {
			run.Probe("damaged_payload_accepted")
			// accepted: re-serialisation must be stable (decode(encode(x)) == x)
			sink := common.NewZeroCopySink(nil)
			var err error
			if pp, what := safely(func() { err = got.Serialization(sink) }); pp {
				c.fail(panicClass("reserialise-"+mc.cmd, what), "%s: re-serialising an accepted %s message panicked: %s", label, mc.cmd, what)
				return false
			}
			if err == nil && !payloadDanger(mc.cmd, sink.Bytes()) {
				d2 := refFrame(c.magic, mc.cmd, copyB(sink.Bytes()))
				c.evals++
				var g2 mt.Message
				if pp, what := safely(func() { g2, _, err = mt.ReadMessage(bytes.NewReader(d2)) }); pp {
					c.fail(panicClass("readmessage-"+mc.cmd, what), "%s: decoding a re-serialised %s message panicked: %s", label, mc.cmd, what)
					return false
				}
				if err != nil || describeMsg(g2) != describeMsg(got) {
					if msgOffCurve(got) {
						run.Probe("off_curve_key_message_not_reframable")
						c.fail(offCurveKeyPrefix+mc.cmd, "%s: ReadMessage accepted a %s message carrying a public key that is not on its curve (uncompressed encoding, unchecked by keypair.DeserializePublicKey); its re-serialisation (compressed key) is rejected: %v", label, mc.cmd, err)
						return true // known cause; keep judging the other variants
					}
					c.fail("reencode-not-idempotent", "%s: accepted %s message does not survive encode/decode (err=%v)", label, mc.cmd, err)
					return false
				}
			}
		}
		return ok
	}
	p := mc.payload
	// truncation at every point (small payloads) or sampled
	var pts []int
	if len(p) <= 200 {
		for t := 0; t < len(p); t++ {
			pts = append(pts, t)
		}
	} else {
		for j := 0; j < 100; j++ {
			pts = append(pts, rng.Intn(len(p)))
		}
	}
	for _, t := range pts {
		fire("payload_truncated_valid_checksum")
		if !try(fmt.Sprintf("%s payload[:%d]", mc.cmd, t), p[:t]) {
			return
		}
	}
	for j := 0; j < 40 && len(p) > 0; j++ {
		d := copyB(p)
		for f := 1 + rng.Intn(3); f > 0; f-- {
			d[rng.Intn(len(d))] ^= byte(1 + rng.Intn(255))
		}
		fire("payload_corrupted_valid_checksum")
		if !try(fmt.Sprintf("%s payload flip#%d", mc.cmd, j), d) {
			return
		}
	}
	// a carried public key re-encoded in the uncompressed forms: on the curve (must be accepted and
	// stay re-frameable) and off the curve (if accepted, the message cannot be framed again)
	for vi, v := range [][2]bool{{false, false}, {false, true}, {true, false}, {true, true}} {
		d, ok := swapFirstKey(p, v[0], v[1])
		if !ok {
			break
		}
		if v[0] {
			fire("off_curve_public_key")
			run.Probe("off_curve_key_message_submitted")
		} else {
			fire("uncompressed_public_key")
		}
		if !try(fmt.Sprintf("%s key variant %d (offcurve=%v typed=%v)", mc.cmd, vi, v[0], v[1]), d) {
			return
		}
	}
	// counts at the head of list-carrying payloads set to boundary values
	countAt := map[string][2]int{"addr": {0, 8}, "inv": {1, 4}, "headers": {0, 4}}
	if ca, ok := countAt[mc.cmd]; ok && len(p) >= ca[0]+ca[1] {
		for _, v := range safeCorruptCounts {
			d := copyB(p)
			for b := 0; b < ca[1]; b++ {
				d[ca[0]+b] = byte(v >> (8 * uint(b)))
			}
			fire("payload_count_corrupted")
			if v >= dangerHi {
				run.Probe("payload_count_huge")
			}
			if !try(fmt.Sprintf("%s count=%#x", mc.cmd, v), d) {
				return
			}
			// and with nothing after the count
			if !try(fmt.Sprintf("%s count=%#x alone", mc.cmd, v), d[:ca[0]+ca[1]]) {
				return
			}
		}
	}
	if mc.cmd == "tx" {
		// the signature count of the carried transaction
		r := &refR{b: p}
		if uend, _, _, ok := walkTx(r); ok {
			for _, v := range safeCorruptCounts {
				w := &refW{}
				w.raw(p[:uend])
				w.varuint(v)
				fire("payload_count_corrupted")
				if v >= dangerHi {
					run.Probe("payload_count_huge")
				}
				if !try(fmt.Sprintf("tx nsigs=%#x", v), w.b) {
					return
				}
			}
		}
	}
	if mc.cmd == "block" {
		// the signature count of the first transaction carried by the block
		r := &refR{b: p}
		if _, ok := walkHdr(r); ok {
			if cnt := r.u32(); !r.bad && cnt > 0 {
				start := r.off
				if uend, _, _, ok := walkTx(&refR{b: p[start:]}); ok {
					for _, v := range safeCorruptCounts {
						w := &refW{}
						w.raw(p[:start+uend])
						w.varuint(v)
						fire("payload_count_corrupted")
						if v >= dangerHi {
							run.Probe("payload_count_huge")
						}
						if !try(fmt.Sprintf("block tx0 nsigs=%#x", v), w.b) {
							return
						}
					}
				}
			}
		}
	}
}

var _ = types.Invoke

// msgOffCurve: does the decoded message carry a public key that is not on its curve?
func msgOffCurve(m mt.Message) bool {
	switch v := m.(type) {
	case *mt.Consensus:
		return offCurve(v.Cons.Owner)
	case *mt.Trn:
		return txOffCurve(v.Txn)
	case *mt.Block:
		return blockOffCurve(v.Blk)
	case *mt.BlkHeader:
		for _, h := range v.BlkHdr {
			if hdrOffCurve(h) {
				return true
			}
		}
	}
	return false
}
