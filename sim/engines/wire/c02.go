package wire

import (
	"bytes"
	"fmt"
	"time"

	"github.com/ontio/ontology-crypto/keypair"
	"github.com/polynetwork/poly/common"
	"github.com/polynetwork/poly/common/config"
	"github.com/polynetwork/poly/core/signature"
	"github.com/polynetwork/poly/core/types"
	mt "github.com/polynetwork/poly/p2pserver/message/types"

	"polysim/kernel"
)

// ---------------------------------------------------------------------------------------
// C02: ledger objects encode faithfully with signature-independent identity.
// ---------------------------------------------------------------------------------------

const (
	c02None = iota
	c02TruncAll
	c02BitFlips
	c02Counts
	c02NumModes
)

var c02ModeNames = []string{"none", "truncate_every_point", "bit_flips", "corrupted_counts"}

const maxTxSize = 1024 * 1024 // "oversize transactions are refused": the limit the node documents (1 MiB)

func init() {
	kernel.Register(&kernel.Check{
		ID: "C02", Level: "exploration", Engine: "E5 wire (ledger objects on a faulty stream)",
		Rule: "case = one generated object: transaction (0..16 signature entries incl. m-of-n multi-sig entries with P-256 and ed25519 keys, code 0..64 KiB), header (0..12 bookkeepers and signatures, JSON or random consensus payload), " +
			"block (0..6 transactions, reference transaction root), or a p2p frame (tx / block / headers) carrying them. Each is encoded by poly and by a model encoder (bytes must be equal), decoded back (fields, Raw, re-encoding, " +
			"hash = double SHA-256 of the model's unsigned bytes), re-signed with different signature sets / re-sealed by different signer subsets (hash must not move; changing an unsigned field must move it), then damaged: truncation at every point, " +
			"bit flips, every count/length field set to boundary values (0xFD, 0xFFFF, 0x10000, 2^46..2^64-1), garbage; plus blocks with a repeated transaction (same bytes, same unsigned part with other signatures, and the [a,b,c]->[a,b,c,c] equal-root shape), " +
			"wrong transaction root, and transactions just above 1 MiB. evaluations = decoder invocations judged. Non-trivial: an object with at least one signature entry (or bookkeeper) on which a fault fired and at least one damaged variant was still " +
			"rejected cleanly; distinct by (object shape, fault, outcome digest)",
		Real:        []string{"core/types Transaction/Sig/Header/Block (Serialization, Deserialization, Serialize/Deserialize, Hash, ToArray)", "core/payload.InvokeCode", "p2pserver/message/types WriteMessage/ReadMessage with Trn/Block/BlkHeader", "core/signature Sign/Verify (re-sealing)", "ontology-crypto key (de)serialisation"},
		Stub:        []string{"byte stream (simulated reader)", "block store / disk seam is exercised by E1, not here"},
		Assumptions: []string{"signature bytes are random byte strings except in the re-sealing steps (ECDSA signatures there are randomised and never enter the trace)", "counts in (2^16, 2^46) that reach an unguarded make() are not executed (would abort the process: runtime out of memory); the engine's reference walker filters them and counts them as dangerous_count_not_executed", "for damaged input the property promises only 'never panics'; accepted damaged inputs are additionally checked for internal consistency (hash/Raw agree with the delivered bytes, re-encode/decode is idempotent)"},
		QuickRuns:   500, ThoroughRuns: 40000, QuickCap: 60, ThoroughCap: 800,
		RequiredProbes: []string{"tx_many_sigs", "tx_multisig_entry", "hdr_no_bookkeepers", "resealed_other_subset", "duplicate_tx_equal_root_shape", "oversize_tx", "truncation", "corrupted_count", "bit_flip", "frame_roundtrip"},
		Generate:       genC02,
		Execute:        execC02,
		NoMinimise:     noMin,
	})
}

func genC02(rng *kernel.RNG, idx int, tier string) *kernel.Plan {
	p := &kernel.Plan{Cfg: map[string]int64{"magic": int64(rng.Uint64() >> 33)}}
	mask := int64(0)
	for m := 1; m < c02NumModes; m++ {
		if rng.Intn(4) != 0 {
			mask |= 1 << uint(m)
		}
	}
	p.Cfg["modes"] = mask
	n := 4 + rng.Intn(6)
	ops := []string{"tx", "tx", "tx", "hdr", "hdr", "blk", "blk", "frame", "frame", "dupblk", "reseal", "garbage", "oversize"}
	for i := 0; i < n; i++ {
		op := ops[rng.Intn(len(ops))]
		if op == "oversize" && rng.Intn(3) != 0 {
			op = "tx"
		}
		mode := c02None
		var enabled []int
		for m := 1; m < c02NumModes; m++ {
			if mask&(1<<uint(m)) != 0 {
				enabled = append(enabled, m)
			}
		}
		if len(enabled) > 0 && rng.Intn(5) != 0 {
			mode = enabled[rng.Intn(len(enabled))]
		}
		p.Steps = append(p.Steps, kernel.Step{Op: op, A: []int64{int64(rng.Uint64() >> 1), int64(mode), int64(rng.Uint64() >> 33), int64(1 + rng.Intn(9))}})
	}
	return p
}

type c02ctx struct {
	run      *kernel.Run
	failed   map[string]bool
	evals    int
	rejected int
	accepted int
}

func (c *c02ctx) fail(key, format string, a ...interface{}) {
	if c.failed[key] {
		return
	}
	c.failed[key] = true
	c.run.Fail("C02", key, format, a...)
}

func copyB(b []byte) []byte { return append([]byte(nil), b...) }

// decodeTx runs poly's transaction decoder on delivered bytes and judges the result.
func (c *c02ctx) decodeTx(label string, data []byte) {
	if txDanger(data) {
		c.run.Fault("dangerous_count_not_executed")
		return
	}
	c.evals++
	var tx *types.Transaction
	var err error
	buf := copyB(data)
	if p, what := safely(func() { tx, err = types.TransactionFromRawBytes(buf) }); p {
		c.fail(panicClass("tx-decode", what), "%s: Transaction.Deserialization panicked on %d damaged bytes: %s", label, len(data), what)
		return
	}
	if err != nil {
		c.rejected++
		return
	}
	c.accepted++
	// accepted: must be consistent with the delivered bytes
	r := &refR{b: data}
	uend, end, _, ok := walkTx(r)
	if !ok || end == 0 {
		c.fail("tx-accepted-unparsable", "%s: decoder accepted bytes the format cannot parse (%s)", label, short(data))
		return
	}
	if h := tx.Hash(); h != common.Uint256(dsha(data[:uend])) {
		c.fail("tx-hash-not-over-unsigned-bytes", "%s: hash %x is not the double SHA-256 of the %d unsigned bytes delivered", label, h[:6], uend)
		return
	}
	if !bytes.Equal(tx.Raw, data[:end]) {
		c.fail("tx-raw-differs", "%s: Raw (%d bytes) is not the consumed input (%d bytes)", label, len(tx.Raw), end)
		return
	}
	c.idempotentTx(label, tx)
}

func (c *c02ctx) idempotentTx(label string, tx *types.Transaction) {
	sink := common.NewZeroCopySink(nil)
	var serr error
	if p, what := safely(func() { serr = tx.Serialization(sink) }); p {
		c.fail(panicClass("tx-reencode", what), "%s: re-encoding an accepted transaction panicked: %s", label, what)
		return
	}
	if serr != nil {
		c.run.Probe("accepted_tx_cannot_reencode")
		return
	}
	var tx2 *types.Transaction
	var err error
	b := copyB(sink.Bytes())
	if txDanger(b) {
		return
	}
	if p, what := safely(func() { tx2, err = types.TransactionFromRawBytes(b) }); p {
		c.fail(panicClass("tx-decode", what), "%s: decoding a re-encoded transaction panicked: %s", label, what)
		return
	}
	if (err != nil || describeTx(tx2) != describeTx(tx)) && txOffCurve(tx) {
		c.run.Probe("off_curve_key_object_not_reencodable")
		c.fail(offCurveKeyPrefix+"tx", "%s: decoder accepted a transaction carrying a public key that is not on its curve; its re-encoding (compressed key) is rejected: %v", label, err)
		return
	}
	if err != nil || describeTx(tx2) != describeTx(tx) {
		c.fail("tx-reencode-not-idempotent", "%s: decode(encode(x)) != x for an accepted transaction (err %v)", label, err)
	}
}

func (c *c02ctx) decodeHdr(label string, data []byte, k int, salt uint64) {
	c.evals++
	var h *types.Header
	var err error
	if p, what := safely(func() { h, err = types.HeaderFromRawBytes(copyB(data)) }); p {
		c.fail(panicClass("hdr-decode", what), "%s: Header.Deserialization panicked on %d damaged bytes: %s", label, len(data), what)
		return
	}
	// the io.Reader twin over a chunked stream
	h2 := &types.Header{}
	var err2 error
	rd := newFaultReader(data, k, -1, kernel.NewRNG(kernel.Derive(c.run.Plan.Seed, "c02rd", salt)))
	if p, what := safely(func() { err2 = h2.Deserialize(rd) }); p {
		c.fail(panicClass("hdr-stream-decode", what), "%s: Header.Deserialize panicked on %d damaged bytes: %s", label, len(data), what)
		return
	}
	if err != nil {
		c.rejected++
	} else {
		c.accepted++
		r := &refR{b: data}
		uend, ok := walkHdr(r)
		if !ok {
			c.fail("hdr-accepted-unparsable", "%s: decoder accepted bytes the format cannot parse (%s)", label, short(data))
			return
		}
		if hh := h.Hash(); hh != common.Uint256(dsha(data[:uend])) {
			// non-canonical length of the consensus payload re-encodes differently: Hash() is defined over the re-encoding
			c.run.Probe("hdr_hash_differs_from_delivered_unsigned_bytes")
		}
		b1 := h.ToArray()
		var h3 *types.Header
		var e3 error
		if p, what := safely(func() { h3, e3 = types.HeaderFromRawBytes(copyB(b1)) }); p {
			c.fail(panicClass("hdr-decode", what), "%s: decoding a re-encoded header panicked: %s", label, what)
			return
		}
		if e3 != nil && hdrOffCurve(h) {
			c.run.Probe("off_curve_key_object_not_reencodable")
			c.fail(offCurveKeyPrefix+"header", "%s: decoder accepted a header carrying a bookkeeper key that is not on its curve; its re-encoding (compressed key) is rejected: %v", label, e3)
			return
		}
		if e3 != nil || describeHdr(h3) != describeHdr(h) || h3.Hash() != h.Hash() {
			c.fail("hdr-reencode-not-idempotent", "%s: decode(encode(x)) != x for an accepted header (err %v)", label, e3)
			return
		}
	}
	if err == nil && err2 == nil && describeHdr(h) != describeHdr(h2) {
		c.fail("hdr-decoders-disagree", "%s: Deserialization and Deserialize accepted the same bytes with different fields", label)
	}
}

func (c *c02ctx) decodeBlk(label string, data []byte) {
	if blockDanger(data) {
		c.run.Fault("dangerous_count_not_executed")
		return
	}
	c.evals++
	var b *types.Block
	var err error
	if p, what := safely(func() { b, err = types.BlockFromRawBytes(copyB(data)) }); p {
		c.fail(panicClass("blk-decode", what), "%s: Block.Deserialization panicked on %d damaged bytes: %s", label, len(data), what)
		return
	}
	if err != nil {
		c.rejected++
		return
	}
	c.accepted++
	// accepted block: its own invariants from the property: no repeated transaction, root matches
	seen := map[common.Uint256]bool{}
	var hs [][32]byte
	for _, tx := range b.Transactions {
		if seen[tx.Hash()] {
			c.fail("blk-accepted-with-repeated-tx", "%s: accepted block repeats transaction %x", label, tx.Hash())
			return
		}
		seen[tx.Hash()] = true
		hs = append(hs, tx.Hash())
	}
	if root := refMerkleRoot(hs); common.Uint256(root) != b.Header.TransactionsRoot {
		c.fail("blk-accepted-with-wrong-root", "%s: accepted block has root %x, its transactions give %x", label, b.Header.TransactionsRoot[:6], root[:6])
	}
}

// damage applies the step's fault mode to the encoded object.
func (c *c02ctx) damage(kind string, mode int, ref []byte, rng *kernel.RNG, decode func(label string, data []byte), counts []string, encOv func(o *ovr) []byte) {
	run := c.run
	switch mode {
	case c02TruncAll:
		var pts []int
		if len(ref) <= 220 {
			for t := 0; t < len(ref); t++ {
				pts = append(pts, t)
			}
		} else { // public-key decompression makes every accepted prefix expensive: head, tail and a sample
			for t := 0; t < 110; t++ {
				pts = append(pts, t)
			}
			for t := 1; t <= 40; t++ {
				pts = append(pts, len(ref)-t)
			}
			for j := 0; j < 70; j++ {
				pts = append(pts, rng.Intn(len(ref)))
			}
		}
		for _, t := range pts {
			run.Fault("truncation")
			decode(fmt.Sprintf("%s truncated@%d/%d", kind, t, len(ref)), ref[:t])
		}
	case c02BitFlips:
		n := 32
		for j := 0; j < n && len(ref) > 0; j++ {
			d := copyB(ref)
			nf := 1 + rng.Intn(2)
			for f := 0; f < nf; f++ {
				d[rng.Intn(len(d))] ^= 1 << uint(rng.Intn(8))
			}
			run.Fault("bit_flip")
			decode(fmt.Sprintf("%s bitflip#%d", kind, j), d)
		}
	case c02Counts:
		for _, f := range counts {
			for _, v := range safeCorruptCounts {
				o := &ovr{field: f, val: v}
				d := encOv(o)
				if !o.hit {
					continue
				}
				run.Fault("corrupted_count")
				if v >= dangerHi {
					run.Probe("huge_count_presented")
				}
				decode(fmt.Sprintf("%s %s=%#x", kind, f, v), d)
			}
		}
	}
}

func execC02(run *kernel.Run) {
	c := &c02ctx{run: run, failed: map[string]bool{}}
	config.DefConfig.P2PNode.NetworkMagic = uint32(run.Plan.C("magic", 0x74746e41))
	magic := config.DefConfig.P2PNode.NetworkMagic
	var sample []string
	for i, st := range run.Plan.Steps {
		run.StepNo = i
		run.Steps++
		t0 := time.Now()
		salt := uint64(st.Arg(0))
		rng := kernel.NewRNG(kernel.Derive(run.Plan.Seed, "c02", salt))
		mode := amod(st.Arg(1), c02NumModes)
		k := 1 + amod(st.Arg(3)-1, 9)
		ev0, rej0, acc0 := c.evals, c.rejected, c.accepted
		shape := ""
		rich := false
		switch st.Op {
		case "tx":
			m := genTx(rng, 16)
			ref, ulen := m.bytes()
			shape = fmt.Sprintf("tx sigs=%d code=%d", len(m.Sigs), len(m.Code))
			rich = len(m.Sigs) > 0
			if len(m.Sigs) >= 12 {
				run.Probe("tx_many_sigs")
			}
			for _, s := range m.Sigs {
				if len(s.PubKeys) > 1 {
					run.Probe("tx_multisig_entry")
					break
				}
			}
			if !c.roundTripTx(m, ref, ulen, rng) {
				break
			}
			c.damage("tx", mode, ref, rng, c.decodeTx, m.countFields(), func(o *ovr) []byte { w := &refW{}; m.enc(w, o); return w.b })
		case "hdr":
			m := genHdr(rng, 12)
			ref, ulen := m.bytes()
			shape = fmt.Sprintf("hdr bk=%d sig=%d cp=%d", len(m.BKs), len(m.Sigs), len(m.CP))
			rich = len(m.BKs) > 0
			if len(m.BKs) == 0 {
				run.Probe("hdr_no_bookkeepers")
			}
			if !c.roundTripHdr(m, ref, ulen, rng, k, salt) {
				break
			}
			vn := uint64(0)
			c.damage("hdr", mode, ref, rng, func(l string, d []byte) { vn++; c.decodeHdr(l, d, k, salt+vn) }, m.countFields(), func(o *ovr) []byte { w := &refW{}; m.enc(w, o); return w.b })
		case "blk":
			m := genBlk(rng, 6, 4, 7)
			ref := m.bytes()
			shape = fmt.Sprintf("blk txs=%d bk=%d", len(m.Txs), len(m.H.BKs))
			rich = len(m.Txs) > 0
			if !c.roundTripBlk(m, ref) {
				break
			}
			fields := append(m.H.countFields(), "blk.ntx")
			c.damage("blk", mode, ref, rng, c.decodeBlk, fields, func(o *ovr) []byte { w := &refW{}; m.enc(w, o); return w.b })
			// counts inside the first transaction of the block
			if mode == c02Counts && len(m.Txs) > 0 {
				for _, v := range []uint64{0x10000, 1 << 46, 1 << 63, ^uint64(0)} {
					w := &refW{}
					m.H.enc(w, nil)
					w.u32(uint32(len(m.Txs)))
					m.Txs[0].enc(w, &ovr{field: "tx.nsigs", val: v})
					for _, t := range m.Txs[1:] {
						t.enc(w, nil)
					}
					run.Fault("corrupted_count")
					c.decodeBlk(fmt.Sprintf("blk tx0.nsigs=%#x", v), w.b)
				}
			}
		case "dupblk":
			shape = "dupblk"
			rich = true
			c.dupBlock(rng)
		case "oversize":
			shape = "oversize"
			rich = true
			c.oversize(rng, magic)
		case "reseal":
			shape = "reseal"
			rich = true
			c.reseal(rng)
		case "garbage":
			shape = "garbage"
			for j := 0; j < 24; j++ {
				var d []byte
				switch rng.Intn(3) {
				case 0:
					d = rng.Bytes(rng.Intn(400))
				case 1: // plausible transaction start, random tail
					m := genTx(rng, 3)
					ref, ulen := m.bytes()
					d = append(copyB(ref[:imin(len(ref), ulen+rng.Intn(4))]), rng.Bytes(rng.Intn(60))...)
				default: // plausible header start, random tail
					m := genHdr(rng, 3)
					ref, ulen := m.bytes()
					d = append(copyB(ref[:imin(len(ref), ulen+rng.Intn(4))]), rng.Bytes(rng.Intn(60))...)
				}
				run.Fault("garbage")
				c.decodeTx("garbage->tx", d)
				c.decodeHdr("garbage->hdr", d, k, salt+uint64(j))
				c.decodeBlk("garbage->blk", d)
			}
		case "frame":
			shape = "frame"
			rich = true
			c.frames(rng, magic, k, salt, mode)
		}
		globalTimer.add(st.Op+"/"+c02ModeNames[mode], t0)
		outcome := fmt.Sprintf("%s mode=%s evals=%d rejected=%d accepted=%d", shape, c02ModeNames[mode], c.evals-ev0, c.rejected-rej0, c.accepted-acc0)
		run.Logf("step %d %s: %s", i, st.Op, outcome)
		run.State([]byte(outcome))
		if len(sample) < 4 {
			sample = append(sample, outcome)
		}
		if rich && c.rejected > rej0 {
			run.Nontrivial([]byte(outcome))
		}
		if c.accepted > acc0 {
			run.Probe("damaged_input_accepted_consistently")
		}
	}
	run.Probes["__evals"] = c.evals
	run.Sample = sample
	globalTimer.report("C02")
}

func (c *c02ctx) roundTripTx(m *txM, ref []byte, ulen int, rng *kernel.RNG) bool {
	c.evals++
	real := m.real()
	sink := common.NewZeroCopySink(nil)
	var err error
	if p, what := safely(func() { err = real.Serialization(sink) }); p {
		c.fail(panicClass("tx-encode", what), "Transaction.Serialization panicked: %s", what)
		return false
	}
	if err != nil {
		c.fail("tx-encode-error", "well-formed transaction does not serialise: %v (%s)", err, m.describe())
		return false
	}
	if !bytes.Equal(sink.Bytes(), ref) {
		c.fail("tx-encoding-differs-from-format", "Transaction.Serialization gives %s, the format says %s", short(sink.Bytes()), short(ref))
		return false
	}
	if !bytes.Equal(real.ToArray(), ref) {
		c.fail("tx-toarray-differs", "ToArray differs from Serialization")
		return false
	}
	var tx *types.Transaction
	if p, what := safely(func() { tx, err = types.TransactionFromRawBytes(copyB(ref)) }); p {
		c.fail(panicClass("tx-decode", what), "decoding a well-formed transaction panicked: %s", what)
		return false
	}
	if err != nil {
		c.fail("tx-roundtrip-rejected", "well-formed transaction rejected: %v (%s)", err, m.describe())
		return false
	}
	if describeTx(tx) != m.describe() {
		c.fail("tx-roundtrip-fields", "decoded transaction differs:\n got  %s\n want %s", describeTx(tx), m.describe())
		return false
	}
	want := common.Uint256(dsha(ref[:ulen]))
	if tx.Hash() != want {
		c.fail("tx-hash-not-dsha-of-unsigned", "Hash()=%x, double SHA-256 of the unsigned serialisation is %x", tx.Hash(), want)
		return false
	}
	if !bytes.Equal(tx.Raw, ref) || !bytes.Equal(tx.ToArray(), ref) {
		c.fail("tx-roundtrip-bytes", "Raw/ToArray of the decoded transaction differ from the input")
		return false
	}
	// embedded in a longer stream: consumes exactly its own bytes
	tail := rng.Bytes(1 + rng.Intn(40))
	src := common.NewZeroCopySource(append(copyB(ref), tail...))
	tx3 := &types.Transaction{}
	if p, what := safely(func() { err = tx3.Deserialization(src) }); p || err != nil {
		c.fail("tx-embedded-decode", "transaction followed by other bytes failed to decode: %v %s", err, what)
		return false
	}
	if src.Pos() != uint64(len(ref)) || !bytes.Equal(tx3.Raw, ref) || tx3.Hash() != want {
		c.fail("tx-embedded-consumption", "embedded transaction consumed %d of %d bytes / Raw or hash differ", src.Pos(), len(ref))
		return false
	}
	// identity is independent of signatures
	m2 := *m
	m2.Sigs = nil
	for j := rng.Intn(5); j > 0; j-- {
		m2.Sigs = append(m2.Sigs, genSig(rng))
	}
	b2, _ := m2.bytes()
	tx2, err := types.TransactionFromRawBytes(b2)
	if err != nil || tx2.Hash() != want {
		c.fail("tx-hash-depends-on-signatures", "same unsigned part with another signature set: err=%v hash %x vs %x", err, tx2.Hash(), want)
		return false
	}
	// and depends on every unsigned field
	m3 := *m
	switch rng.Intn(6) {
	case 0:
		m3.Nonce++
	case 1:
		m3.ChainID ^= 1 << uint(rng.Intn(64))
	case 2:
		m3.GasLimit++
	case 3:
		m3.GasPrice++
	case 4:
		m3.Code = append(copyB(m.Code), 0)
	default:
		m3.Payer[rng.Intn(20)] ^= 0x80
	}
	b3, _ := m3.bytes()
	tx4, err := types.TransactionFromRawBytes(b3)
	if err != nil || tx4.Hash() == want {
		c.fail("tx-hash-ignores-unsigned-field", "changing an unsigned field did not change the hash (err=%v)", err)
		return false
	}
	// attributes must be empty today
	if rng.Intn(8) == 0 {
		m4 := *m
		m4.Attrs = rng.Bytes(1 + rng.Intn(5))
		b4, _ := m4.bytes()
		c.run.Probe("tx_nonempty_attributes_presented")
		c.decodeTx("tx attrs", b4)
	}
	return true
}

func (c *c02ctx) roundTripHdr(m *hdrM, ref []byte, ulen int, rng *kernel.RNG, k int, salt uint64) bool {
	c.evals++
	real := m.real()
	sink := common.NewZeroCopySink(nil)
	var err error
	if p, what := safely(func() { err = real.Serialization(sink) }); p || err != nil {
		c.fail("hdr-encode", "Header.Serialization failed: %v %s", err, what)
		return false
	}
	if !bytes.Equal(sink.Bytes(), ref) {
		c.fail("hdr-encoding-differs-from-format", "Header.Serialization gives %s, the format says %s", short(sink.Bytes()), short(ref))
		return false
	}
	w := new(bytes.Buffer)
	if err := m.real().Serialize(w); err != nil || !bytes.Equal(w.Bytes(), ref) {
		c.fail("hdr-stream-encoding-differs", "Header.Serialize (io.Writer) differs from Serialization: err=%v", err)
		return false
	}
	want := common.Uint256(dsha(ref[:ulen]))
	if real.Hash() != want || !bytes.Equal(real.GetMessage(), ref[:ulen]) {
		c.fail("hdr-hash-not-dsha-of-unsigned", "Hash()=%x, double SHA-256 of the unsigned serialisation is %x", real.Hash(), want)
		return false
	}
	h, err := types.HeaderFromRawBytes(copyB(ref))
	if err != nil || describeHdr(h) != m.describe() || h.Hash() != want || !bytes.Equal(h.ToArray(), ref) {
		c.fail("hdr-roundtrip", "header round trip failed: err=%v\n got  %s\n want %s", err, func() string {
			if h == nil {
				return "nil"
			}
			return describeHdr(h)
		}(), m.describe())
		return false
	}
	h2 := &types.Header{}
	rd := newFaultReader(ref, k, -1, kernel.NewRNG(kernel.Derive(c.run.Plan.Seed, "c02rd", salt)))
	rd.stalls = 2
	if err := h2.Deserialize(rd); err != nil || describeHdr(h2) != m.describe() || h2.Hash() != want || rd.pos != len(ref) {
		c.fail("hdr-stream-roundtrip", "header round trip over a chunked stream failed: err=%v consumed %d/%d", err, rd.pos, len(ref))
		return false
	}
	// identity ignores bookkeepers and signatures
	m2 := *m
	m2.BKs, m2.Sigs = nil, nil
	for j := rng.Intn(8); j > 0; j-- {
		m2.BKs = append(m2.BKs, rng.Intn(len(keys())))
		m2.Sigs = append(m2.Sigs, rng.Bytes(rng.Intn(70)))
	}
	b2, _ := m2.bytes()
	h3, err := types.HeaderFromRawBytes(b2)
	if err != nil || h3.Hash() != want || m2.real().Hash() != want {
		c.fail("hdr-hash-depends-on-signatures", "same header with another bookkeeper/signature set hashes differently (err=%v)", err)
		return false
	}
	m3 := *m
	switch rng.Intn(7) {
	case 0:
		m3.Height++
	case 1:
		m3.Timestamp++
	case 2:
		m3.ConsensusData++
	case 3:
		m3.CP = append(copyB(m.CP), '}')
	case 4:
		m3.NextBK[rng.Intn(20)] ^= 1
	case 5:
		m3.TxRoot[rng.Intn(32)] ^= 1
	default:
		m3.CrossRoot[rng.Intn(32)] ^= 1
	}
	if m3.real().Hash() == want {
		c.fail("hdr-hash-ignores-unsigned-field", "changing an unsigned header field did not change the hash")
		return false
	}
	return true
}

func (c *c02ctx) roundTripBlk(m *blkM, ref []byte) bool {
	c.evals++
	real := m.real()
	sink := common.NewZeroCopySink(nil)
	var err error
	if p, what := safely(func() { err = real.Serialization(sink) }); p || err != nil {
		c.fail("blk-encode", "Block.Serialization failed: %v %s", err, what)
		return false
	}
	if !bytes.Equal(sink.Bytes(), ref) {
		c.fail("blk-encoding-differs-from-format", "Block.Serialization gives %s, the format says %s", short(sink.Bytes()), short(ref))
		return false
	}
	var b *types.Block
	if p, what := safely(func() { b, err = types.BlockFromRawBytes(copyB(ref)) }); p {
		c.fail(panicClass("blk-decode", what), "decoding a well-formed block panicked: %s", what)
		return false
	}
	if err != nil {
		c.fail("blk-roundtrip-rejected", "well-formed block (%d txs, reference root) rejected: %v", len(m.Txs), err)
		return false
	}
	hb, ulen := m.H.bytes()
	if describeHdr(b.Header) != m.H.describe() || len(b.Transactions) != len(m.Txs) || b.Hash() != common.Uint256(dsha(hb[:ulen])) || !bytes.Equal(b.ToArray(), ref) {
		c.fail("blk-roundtrip-fields", "decoded block differs from the original")
		return false
	}
	for j, tx := range b.Transactions {
		tb, tu := m.Txs[j].bytes()
		if describeTx(tx) != m.Txs[j].describe() || tx.Hash() != common.Uint256(dsha(tb[:tu])) || !bytes.Equal(tx.Raw, tb) {
			c.fail("blk-roundtrip-tx", "transaction %d of the decoded block differs", j)
			return false
		}
	}
	return true
}

func (c *c02ctx) mustReject(key, label string, data []byte) {
	if blockDanger(data) {
		return
	}
	c.evals++
	var err error
	if p, what := safely(func() { _, err = types.BlockFromRawBytes(copyB(data)) }); p {
		c.fail(panicClass("blk-decode", what), "%s: Block.Deserialization panicked: %s", label, what)
		return
	}
	if err == nil {
		c.fail(key, "%s: block was accepted", label)
		return
	}
	c.rejected++
}

func (c *c02ctx) dupBlock(rng *kernel.RNG) {
	run := c.run
	var m *blkM
	for {
		m = genBlk(rng, 6, 3, 4)
		if len(m.Txs) >= 2 {
			break
		}
	}
	if !c.roundTripBlk(m, m.bytes()) {
		return
	}
	n := len(m.Txs)
	// (a) identical transaction repeated, root recomputed over the repeated list
	d := &blkM{H: m.H}
	*d = *m
	hcopy := *m.H
	d.H = &hcopy
	i := rng.Intn(n)
	d.Txs = append(append([]*txM{}, m.Txs...), m.Txs[i])
	d.fixRoot()
	run.Fault("duplicate_tx")
	c.mustReject("blk-repeated-tx-accepted", "identical transaction twice, matching root", d.bytes())
	// (b) same unsigned part, other signatures
	t2 := *m.Txs[i]
	t2.Sigs = []sigM{genSig(rng)}
	d.Txs = append(append([]*txM{}, m.Txs...), &t2)
	d.fixRoot()
	run.Fault("duplicate_tx")
	c.mustReject("blk-repeated-tx-accepted", "same transaction with another signature set, matching root", d.bytes())
	// (c) odd count: [.., x] and [.., x, x] have the same root under pair-with-itself trees
	if n%2 == 1 {
		d.Txs = append(append([]*txM{}, m.Txs...), m.Txs[n-1])
		hc := *m.H
		d.H = &hc // root NOT recomputed: it already matches
		if func() [32]byte { x := *d; h2 := *d.H; x.H = &h2; x.fixRoot(); return x.H.TxRoot }() == m.H.TxRoot {
			run.Probe("duplicate_tx_equal_root_shape")
			run.Fault("duplicate_tx")
			c.mustReject("blk-repeated-tx-accepted", "last transaction duplicated (equal-root shape)", d.bytes())
		}
	} else {
		// make it odd by dropping one, then duplicate the last
		base := append([]*txM{}, m.Txs[:n-1]...)
		d.Txs = base
		hc := *m.H
		d.H = &hc
		d.fixRoot()
		root := d.H.TxRoot
		d.Txs = append(append([]*txM{}, base...), base[len(base)-1])
		x := *d
		h2 := *d.H
		x.H = &h2
		x.fixRoot()
		if x.H.TxRoot == root {
			run.Probe("duplicate_tx_equal_root_shape")
			run.Fault("duplicate_tx")
			c.mustReject("blk-repeated-tx-accepted", "last transaction duplicated (equal-root shape)", d.bytes())
		}
	}
	// (d) wrong root: flipped bit, dropped tx, swapped order
	w := *m
	hw := *m.H
	w.H = &hw
	w.H.TxRoot[rng.Intn(32)] ^= 1 << uint(rng.Intn(8))
	run.Fault("wrong_root")
	c.mustReject("blk-wrong-root-accepted", "one bit of the transaction root flipped", w.bytes())
	w.H = m.H
	w.Txs = m.Txs[:n-1]
	run.Fault("wrong_root")
	c.mustReject("blk-wrong-root-accepted", "last transaction dropped, root unchanged", w.bytes())
	sw := append([]*txM{}, m.Txs...)
	sw[0], sw[n-1] = sw[n-1], sw[0]
	w.Txs = sw
	run.Fault("wrong_root")
	c.mustReject("blk-wrong-root-accepted", "transactions reordered, root unchanged", w.bytes())
}

func (c *c02ctx) oversize(rng *kernel.RNG, magic uint32) {
	run := c.run
	m := genTx(rng, 2)
	base, _ := m.bytes()
	over := 1 + rng.Intn(64)
	// the code field grows by delta bytes and its prefix becomes 5 bytes wide (>= 0x10000)
	mk := func(total int) *txM {
		t := *m
		t.Code = nil
		b0, _ := t.bytes() // with empty code, 1-byte prefix
		codeLen := total - (len(b0) - 1) - 5
		t.Code = make([]byte, codeLen)
		copy(t.Code, rng.Bytes(64))
		return &t
	}
	_ = base
	big := mk(maxTxSize + over)
	bb, _ := big.bytes()
	if len(bb) != maxTxSize+over {
		panic(fmt.Sprintf("oversize builder: %d != %d", len(bb), maxTxSize+over))
	}
	run.Probe("oversize_tx")
	run.Fault("oversize")
	c.evals++
	var err error
	if p, what := safely(func() { _, err = types.TransactionFromRawBytes(copyB(bb)) }); p {
		c.fail(panicClass("tx-decode", what), "oversize transaction: decoder panicked: %s", what)
	} else if err == nil {
		c.fail("oversize-tx-accepted", "TransactionFromRawBytes accepted a transaction of %d bytes (limit 1 MiB)", len(bb))
	} else {
		c.rejected++
	}
	// the path the network uses: Deserialization from a source that holds more than the transaction
	src := common.NewZeroCopySource(append(copyB(bb), 1, 2, 3))
	tx := &types.Transaction{}
	c.evals++
	if p, what := safely(func() { err = tx.Deserialization(src) }); p {
		c.fail(panicClass("tx-decode", what), "oversize transaction: decoder panicked: %s", what)
	} else if err == nil {
		c.fail("oversize-tx-accepted", "Transaction.Deserialization accepted a transaction of %d bytes (limit 1 MiB)", len(bb))
	} else {
		c.rejected++
	}
	// inside a tx frame
	frame := refFrame(magic, "tx", bb)
	c.evals++
	var msg mt.Message
	if p, what := safely(func() { msg, _, err = mt.ReadMessage(bytes.NewReader(frame)) }); p {
		c.fail(panicClass("frame-decode", what), "oversize transaction frame: ReadMessage panicked: %s", what)
	} else if err == nil && msg != nil {
		c.fail("oversize-tx-accepted", "ReadMessage accepted a tx frame with a transaction of %d bytes", len(bb))
	} else {
		c.rejected++
	}
	// just below the limit: well-formed, must round-trip
	small := mk(maxTxSize - 1 - rng.Intn(64))
	sb, su := small.bytes()
	c.evals++
	t2, err := types.TransactionFromRawBytes(copyB(sb))
	if err != nil || t2.Hash() != common.Uint256(dsha(sb[:su])) || !bytes.Equal(t2.Raw, sb) {
		c.fail("large-tx-below-limit-rejected", "transaction of %d bytes (below 1 MiB) did not round-trip: %v", len(sb), err)
	}
}

// reseal: the same block sealed by two different signer subsets (real signatures).
func (c *c02ctx) reseal(rng *kernel.RNG) {
	run := c.run
	m := genBlk(rng, 3, 2, 0)
	m.H.BKs, m.H.Sigs = nil, nil
	hb, ulen := m.H.bytes()
	want := common.Uint256(dsha(hb[:ulen]))
	seal := func() (*types.Block, bool) {
		blk := m.real()
		n := 1 + rng.Intn(7)
		perm := rng.Perm(20)
		hash := blk.Hash()
		for _, ki := range perm[:n] {
			key := signerKey(ki)
			sig, err := signature.Sign(key.acct, hash[:])
			if err != nil {
				panic(err)
			}
			blk.Header.Bookkeepers = append(blk.Header.Bookkeepers, key.pub)
			blk.Header.SigData = append(blk.Header.SigData, sig)
		}
		return blk, true
	}
	b1, _ := seal()
	b2, _ := seal()
	run.Probe("resealed_other_subset")
	for vi, b := range []*types.Block{b1, b2} {
		c.evals++
		raw := b.ToArray()
		d, err := types.BlockFromRawBytes(copyB(raw))
		if err != nil {
			c.fail("resealed-block-rejected", "sealed block %d rejected: %v", vi, err)
			return
		}
		if d.Hash() != want || b.Hash() != want {
			c.fail("hdr-hash-depends-on-signatures", "block hash moved after sealing with %d signers: %x vs %x", len(b.Header.SigData), d.Hash(), want)
			return
		}
		if len(d.Header.SigData) != len(b.Header.SigData) || len(d.Header.Bookkeepers) != len(b.Header.Bookkeepers) {
			c.fail("resealed-block-fields", "sealed block lost signatures in the round trip")
			return
		}
		for j, sig := range d.Header.SigData {
			if err := signature.Verify(d.Header.Bookkeepers[j], want[:], sig); err != nil {
				c.fail("resealed-signature-invalid", "signature %d of sealed block does not verify against the header hash after the round trip: %v", j, err)
				return
			}
			if !bytes.Equal(keypair.SerializePublicKey(d.Header.Bookkeepers[j]), keypair.SerializePublicKey(b.Header.Bookkeepers[j])) {
				c.fail("resealed-block-fields", "bookkeeper %d changed in the round trip", j)
				return
			}
		}
	}
	run.Logf("reseal: %d and %d signers, hash %x", len(b1.Header.SigData), len(b2.Header.SigData), want[:6])
}

// frames: tx / block / headers messages through WriteMessage -> chunked stream -> ReadMessage.
func (c *c02ctx) frames(rng *kernel.RNG, magic uint32, k int, salt uint64, mode int) {
	run := c.run
	var msg mt.Message
	var payload []byte
	var cmd string
	var check func(got mt.Message) string
	switch rng.Intn(3) {
	case 0:
		m := genTx(rng, 16)
		ref, ulen := m.bytes()
		tx, err := types.TransactionFromRawBytes(copyB(ref))
		if err != nil {
			c.fail("tx-roundtrip-rejected", "well-formed transaction rejected: %v", err)
			return
		}
		msg, payload, cmd = &mt.Trn{Txn: tx}, ref, "tx"
		check = func(got mt.Message) string {
			g, ok := got.(*mt.Trn)
			if !ok || g.Txn == nil {
				return "not a tx message"
			}
			if describeTx(g.Txn) != m.describe() || g.Txn.Hash() != common.Uint256(dsha(ref[:ulen])) || !bytes.Equal(g.Txn.Raw, ref) {
				return "transaction fields/hash/Raw differ"
			}
			return ""
		}
	case 1:
		m := genBlk(rng, 5, 4, 7)
		var root [32]byte
		copy(root[:], rng.Bytes(32))
		ref := append(m.bytes(), root[:]...)
		msg, payload, cmd = &mt.Block{Blk: m.real(), MerkleRoot: root}, ref, "block"
		check = func(got mt.Message) string {
			g, ok := got.(*mt.Block)
			if !ok || g.Blk == nil {
				return "not a block message"
			}
			if g.MerkleRoot != common.Uint256(root) || !bytes.Equal(g.Blk.ToArray(), m.bytes()) || describeHdr(g.Blk.Header) != m.H.describe() || len(g.Blk.Transactions) != len(m.Txs) {
				return "block fields differ"
			}
			return ""
		}
	default:
		n := 1 + rng.Intn(4)
		w := &refW{}
		w.u32(uint32(n))
		var ms []*hdrM
		bh := &mt.BlkHeader{}
		for j := 0; j < n; j++ {
			m := genHdr(rng, 7)
			ms = append(ms, m)
			m.enc(w, nil)
			bh.BlkHdr = append(bh.BlkHdr, m.real())
		}
		msg, payload, cmd = bh, w.b, "headers"
		check = func(got mt.Message) string {
			g, ok := got.(*mt.BlkHeader)
			if !ok || len(g.BlkHdr) != n {
				return "not a headers message of the same length"
			}
			for j := range ms {
				hb, ul := ms[j].bytes()
				if describeHdr(g.BlkHdr[j]) != ms[j].describe() || g.BlkHdr[j].Hash() != common.Uint256(dsha(hb[:ul])) {
					return fmt.Sprintf("header %d differs", j)
				}
			}
			return ""
		}
	}
	c.evals++
	sink := common.NewZeroCopySink(nil)
	var err error
	if p, what := safely(func() { err = mt.WriteMessage(sink, msg) }); p || err != nil {
		c.fail("frame-write", "WriteMessage(%s) failed: %v %s", cmd, err, what)
		return
	}
	want := refFrame(magic, cmd, payload)
	if !bytes.Equal(sink.Bytes(), want) {
		c.fail("frame-differs-from-format", "WriteMessage(%s) gives %s, the frame format says %s", cmd, short(sink.Bytes()), short(want))
		return
	}
	rd := newFaultReader(want, k, -1, kernel.NewRNG(kernel.Derive(run.Plan.Seed, "c02frame", salt)))
	var got mt.Message
	var n uint32
	if p, what := safely(func() { got, n, err = mt.ReadMessage(rd) }); p {
		c.fail(panicClass("frame-decode", what), "ReadMessage(%s) panicked on an undamaged frame: %s", cmd, what)
		return
	}
	if err != nil || int(n) != len(payload) || rd.pos != len(want) {
		c.fail("frame-roundtrip", "undamaged %s frame: err=%v payload %d/%d consumed %d/%d", cmd, err, n, len(payload), rd.pos, len(want))
		return
	}
	if why := check(got); why != "" {
		c.fail("frame-roundtrip-fields", "undamaged %s frame: %s", cmd, why)
		return
	}
	run.Probe("frame_roundtrip")
	// damaged payload with a valid checksum (what a peer can send): never a panic
	if mode != c02None {
		for j := 0; j < 24; j++ {
			d := copyB(payload)
			switch rng.Intn(3) {
			case 0:
				d = d[:rng.Intn(len(d)+1)]
				run.Fault("truncation")
			default:
				for f := 1 + rng.Intn(3); f > 0 && len(d) > 0; f-- {
					d[rng.Intn(len(d))] ^= 1 << uint(rng.Intn(8))
				}
				run.Fault("bit_flip")
			}
			if (cmd == "tx" && txDanger(d)) || (cmd == "block" && blockDanger(d)) {
				run.Fault("dangerous_count_not_executed")
				continue
			}
			if cmd == "headers" && hdrsDanger(d) {
				continue
			}
			c.evals++
			fr := refFrame(magic, cmd, d)
			if p, what := safely(func() { got, _, err = mt.ReadMessage(bytes.NewReader(fr)) }); p {
				c.fail(panicClass("frame-"+cmd+"-decode", what), "ReadMessage panicked on a %s frame with damaged payload and valid checksum: %s", cmd, what)
				continue
			}
			if err != nil {
				c.rejected++
			} else {
				c.accepted++
			}
		}
	}
}

// hdrsDanger: a headers message is decoded with a plain loop (no pre-allocation): never dangerous.
func hdrsDanger(b []byte) bool { return false }
