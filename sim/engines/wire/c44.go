package wire

import (
	"bytes"
	"encoding/json"
	"fmt"
	"reflect"
	"sort"
	"time"

	"github.com/ontio/ontology-crypto/keypair"
	"github.com/polynetwork/poly/common"
	"github.com/polynetwork/poly/common/config"
	"github.com/polynetwork/poly/consensus/vbft"
	"github.com/polynetwork/poly/core/signature"
	mt "github.com/polynetwork/poly/p2pserver/message/types"

	"polysim/kernel"
)

// ---------------------------------------------------------------------------------------
// C44: consensus messages round-trip and signatures bind their content.
// ---------------------------------------------------------------------------------------

// Model structs: the VBFT wire format (JSON field names and types) written down independently.
// The unexported poly message types are reached through DeserializeVbftMsg with an envelope
// produced from these models, and compared field by field through reflection.

type mEnvelope struct {
	Type    uint8  `json:"type"`
	Len     uint32 `json:"len"`
	Payload []byte `json:"payload"`
}

type mFaulty struct {
	FaultyID      uint32   `json:"faulty_id"`
	FaultyMsgHash [32]byte `json:"faulty_block_hash"`
}

type mEndorse struct {
	Endorser          uint32     `json:"endorser"`
	EndorsedProposer  uint32     `json:"endorsed_proposer"`
	BlockNum          uint32     `json:"block_num"`
	EndorsedBlockHash [32]byte   `json:"endorsed_block_hash"`
	EndorseForEmpty   bool       `json:"endorse_for_empty"`
	FaultyProposals   []*mFaulty `json:"faulty_proposals"`
	ProposerSig       []byte     `json:"proposer_sig"`
	EndorserSig       []byte     `json:"endorser_sig"`
}

type mCommit struct {
	Committer       uint32            `json:"committer"`
	BlockProposer   uint32            `json:"block_proposer"`
	BlockNum        uint32            `json:"block_num"`
	CommitBlockHash [32]byte          `json:"commit_block_hash"`
	CommitForEmpty  bool              `json:"commit_for_empty"`
	FaultyVerifies  []*mFaulty        `json:"faulty_verifies"`
	ProposerSig     []byte            `json:"proposer_sig"`
	EndorsersSig    map[uint32][]byte `json:"endorsers_sig"`
	CommitterSig    []byte            `json:"committer_sig"`
}

type mPeerConfig struct {
	Index uint32 `json:"index"`
	ID    string `json:"id"`
}

type mChainConfig struct {
	Version              uint32         `json:"version"`
	View                 uint32         `json:"view"`
	N                    uint32         `json:"n"`
	C                    uint32         `json:"c"`
	BlockMsgDelay        time.Duration  `json:"block_msg_delay"`
	HashMsgDelay         time.Duration  `json:"hash_msg_delay"`
	PeerHandshakeTimeout time.Duration  `json:"peer_handshake_timeout"`
	Peers                []*mPeerConfig `json:"peers"`
	PosTable             []uint32       `json:"pos_table"`
	MaxBlockChangeView   uint32         `json:"max_block_change_view"`
}

type mHandshake struct {
	CommittedBlockNumber uint32        `json:"committed_block_number"`
	CommittedBlockHash   [32]byte      `json:"committed_block_hash"`
	CommittedBlockLeader uint32        `json:"committed_block_leader"`
	ChainConfig          *mChainConfig `json:"chain_config"`
}

type mHeartbeat struct {
	CommittedBlockNumber uint32   `json:"committed_block_number"`
	CommittedBlockHash   [32]byte `json:"committed_block_hash"`
	CommittedBlockLeader uint32   `json:"committed_block_leader"`
	Endorsers            [][]byte `json:"endorsers"`
	EndorsersSig         [][]byte `json:"endorsers_sig"`
	ChainConfigView      uint32   `json:"chain_config_view"`
}

type mBlockInfoFetch struct {
	StartBlockNum uint32 `json:"start_block_num"`
}

type mBlockInfo struct {
	BlockNum   uint32            `json:"block_num"`
	Proposer   uint32            `json:"proposer"`
	Signatures map[uint32][]byte `json:"signatures"`
}

type mBlockInfoFetchResp struct {
	Blocks []*mBlockInfo `json:"blocks"`
}

type mProposalFetch struct {
	ProposerID uint32 `json:"proposer_id"`
	BlockNum   uint32 `json:"block_num"`
}

type mBlockFetch struct {
	BlockNum uint32 `json:"block_num"`
}

type mVbftInfo struct {
	Proposer           uint32        `json:"leader"`
	VrfValue           []byte        `json:"vrf_value"`
	VrfProof           []byte        `json:"vrf_proof"`
	LastConfigBlockNum uint32        `json:"last_config_block_num"`
	NewChainConfig     *mChainConfig `json:"new_chain_config"`
}

// mProposalBlock: the binary "vbft block" = varbytes(block) [varbytes(empty block)].
type mProposalBlock struct {
	Blk   *blkM
	Empty *blkM
	Info  *mVbftInfo
}

func (p *mProposalBlock) bytes() []byte {
	w := &refW{}
	w.varbytes(p.Blk.bytes())
	if p.Empty != nil {
		w.varbytes(p.Empty.bytes())
	}
	return w.b
}

var vbftKindNames = []string{"proposal", "endorse", "commit", "handshake", "heartbeat", "blockinfo_fetch", "blockinfo_fetch_resp", "proposal_fetch", "block_fetch", "block_fetch_resp"}

// message type numbers as the protocol assigns them
const (
	vtProposal = iota
	vtEndorse
	vtCommit
	vtHandshake
	vtHeartbeat
	vtBlockInfoFetch
	vtBlockInfoFetchResp
	vtProposalFetch
	vtBlockFetch
	vtBlockFetchResp
	vtNumKinds
)

func genFaulty(rng *kernel.RNG) []*mFaulty {
	switch rng.Intn(3) {
	case 0:
		return nil
	case 1:
		return []*mFaulty{}
	}
	var out []*mFaulty
	for i := 1 + rng.Intn(3); i > 0; i-- {
		f := &mFaulty{FaultyID: uint32(biasedU64(rng))}
		copy(f.FaultyMsgHash[:], rng.Bytes(32))
		out = append(out, f)
	}
	return out
}

func genSigMap(rng *kernel.RNG, perm []int) map[uint32][]byte {
	if rng.Intn(5) == 0 {
		return nil
	}
	m := map[uint32][]byte{}
	n := rng.Intn(9)
	keysU := make([]uint32, 0, n)
	for i := 0; i < n; i++ {
		keysU = append(keysU, uint32(biasedU64(rng)))
	}
	vals := make([][]byte, n)
	for i := range vals {
		vals[i] = rng.Bytes(smallLen(rng, 70))
	}
	// insertion order permuted by the plan
	for _, i := range rng.Perm(n) {
		m[keysU[i]] = vals[i]
	}
	return m
}

func genChainConfig(rng *kernel.RNG) *mChainConfig {
	if rng.Intn(4) == 0 {
		return nil
	}
	c := &mChainConfig{Version: uint32(rng.Intn(3)), View: uint32(biasedU64(rng)), N: uint32(rng.Intn(40)), C: uint32(rng.Intn(13)),
		BlockMsgDelay: time.Duration(rng.Int63() >> uint(rng.Intn(40))), HashMsgDelay: time.Duration(rng.Int63() >> uint(rng.Intn(40))), PeerHandshakeTimeout: time.Duration(rng.Intn(1 << 30)),
		MaxBlockChangeView: uint32(biasedU64(rng))}
	for i := rng.Intn(8); i > 0; i-- {
		k := keys()[rng.Intn(len(keys()))]
		c.Peers = append(c.Peers, &mPeerConfig{Index: uint32(rng.Intn(100)), ID: fmt.Sprintf("%x", k.ser)})
	}
	for i := rng.Intn(30); i > 0; i-- {
		c.PosTable = append(c.PosTable, uint32(rng.Intn(40)))
	}
	return c
}

func genVbftInfo(rng *kernel.RNG) *mVbftInfo {
	i := &mVbftInfo{Proposer: uint32(rng.Intn(40)), VrfValue: rng.Bytes(64), VrfProof: rng.Bytes(64), LastConfigBlockNum: uint32(biasedU64(rng))}
	if rng.Intn(4) == 0 {
		i.NewChainConfig = genChainConfig(rng)
	}
	return i
}

func mustJSON(v interface{}) []byte {
	b, err := json.Marshal(v)
	if err != nil {
		panic(err)
	}
	return b
}

// genProposalBlock builds a block pair sharing one consensus payload, as a proposer does. If
// signer != nil the headers are sealed by it (signature over the header hash).
func genProposalBlock(rng *kernel.RNG, signer *poolKey, withEmpty bool) *mProposalBlock {
	info := genVbftInfo(rng)
	cp := mustJSON(info)
	b := genBlk(rng, 3, 2, 0)
	b.H.CP = cp
	b.H.BKs, b.H.Sigs = nil, nil
	p := &mProposalBlock{Blk: b, Info: info}
	if withEmpty {
		e := &blkM{H: &hdrM{}}
		*e.H = *b.H
		if len(b.Txs) > 0 {
			e.Txs = b.Txs[:rng.Intn(len(b.Txs))]
		}
		e.fixRoot()
		p.Empty = e
	}
	if signer != nil {
		sealModel(p.Blk, signer)
		if p.Empty != nil {
			sealModel(p.Empty, signer)
		}
	}
	return p
}

// sealModel signs the header hash of the model block with the key and stores bookkeeper+signature.
func sealModel(b *blkM, k *poolKey) {
	hb, ulen := b.H.bytes()
	h := dsha(hb[:ulen])
	sig, err := signature.Sign(k.acct, h[:])
	if err != nil {
		panic(err)
	}
	idx := -1
	for i, pk := range keys() {
		if pk == k {
			idx = i
		}
	}
	b.H.BKs = []int{idx}
	b.H.Sigs = [][]byte{sig}
}

// vcase is one generated VBFT message.
type vcase struct {
	typ      int
	model    interface{} // JSON kinds: pointer to a model struct; binary kinds: *mProposalBlock (+ fetch fields)
	payload  []byte
	blockNum uint32
	fetchNum uint32
	fetchH   [32]byte
}

func genVMsg(rng *kernel.RNG, typ int) *vcase {
	c := &vcase{typ: typ}
	switch typ {
	case vtProposal:
		p := genProposalBlock(rng, nil, rng.Intn(3) != 0)
		if rng.Intn(2) == 0 { // carry some (random) seal bytes
			p.Blk.H.BKs, p.Blk.H.Sigs = []int{rng.Intn(20)}, [][]byte{rng.Bytes(64)}
		}
		c.model, c.payload, c.blockNum = p, p.bytes(), p.Blk.H.Height
	case vtBlockFetchResp:
		p := genProposalBlock(rng, nil, rng.Intn(2) == 0)
		c.fetchNum = uint32(biasedU64(rng))
		copy(c.fetchH[:], rng.Bytes(32))
		w := &refW{}
		w.u32(c.fetchNum)
		w.raw(c.fetchH[:])
		w.raw(p.bytes())
		c.model, c.payload = p, w.b
	case vtEndorse:
		m := &mEndorse{Endorser: uint32(biasedU64(rng)), EndorsedProposer: uint32(biasedU64(rng)), BlockNum: uint32(biasedU64(rng)), EndorseForEmpty: rng.Intn(2) == 0,
			FaultyProposals: genFaulty(rng), ProposerSig: rng.Bytes(smallLen(rng, 70)), EndorserSig: rng.Bytes(smallLen(rng, 70))}
		copy(m.EndorsedBlockHash[:], rng.Bytes(32))
		c.model, c.payload, c.blockNum = m, mustJSON(m), m.BlockNum
	case vtCommit:
		m := &mCommit{Committer: uint32(biasedU64(rng)), BlockProposer: uint32(biasedU64(rng)), BlockNum: uint32(biasedU64(rng)), CommitForEmpty: rng.Intn(2) == 0,
			FaultyVerifies: genFaulty(rng), ProposerSig: rng.Bytes(smallLen(rng, 70)), EndorsersSig: genSigMap(rng, nil), CommitterSig: rng.Bytes(smallLen(rng, 70))}
		copy(m.CommitBlockHash[:], rng.Bytes(32))
		c.model, c.payload, c.blockNum = m, mustJSON(m), m.BlockNum
	case vtHandshake:
		m := &mHandshake{CommittedBlockNumber: uint32(biasedU64(rng)), CommittedBlockLeader: uint32(rng.Intn(40)), ChainConfig: genChainConfig(rng)}
		copy(m.CommittedBlockHash[:], rng.Bytes(32))
		c.model, c.payload = m, mustJSON(m)
	case vtHeartbeat:
		m := &mHeartbeat{CommittedBlockNumber: uint32(biasedU64(rng)), CommittedBlockLeader: uint32(rng.Intn(40)), ChainConfigView: uint32(biasedU64(rng))}
		copy(m.CommittedBlockHash[:], rng.Bytes(32))
		for i := rng.Intn(8); i > 0; i-- {
			m.Endorsers = append(m.Endorsers, keys()[rng.Intn(len(keys()))].ser)
			m.EndorsersSig = append(m.EndorsersSig, rng.Bytes(smallLen(rng, 70)))
		}
		c.model, c.payload = m, mustJSON(m)
	case vtBlockInfoFetch:
		m := &mBlockInfoFetch{StartBlockNum: uint32(biasedU64(rng))}
		c.model, c.payload = m, mustJSON(m)
	case vtBlockInfoFetchResp:
		m := &mBlockInfoFetchResp{}
		for i := rng.Intn(6); i > 0; i-- {
			m.Blocks = append(m.Blocks, &mBlockInfo{BlockNum: uint32(biasedU64(rng)), Proposer: uint32(rng.Intn(40)), Signatures: genSigMap(rng, nil)})
		}
		c.model, c.payload = m, mustJSON(m)
	case vtProposalFetch:
		m := &mProposalFetch{ProposerID: uint32(biasedU64(rng)), BlockNum: uint32(biasedU64(rng))}
		c.model, c.payload = m, mustJSON(m)
	case vtBlockFetch:
		m := &mBlockFetch{BlockNum: uint32(biasedU64(rng))}
		c.model, c.payload = m, mustJSON(m)
	}
	return c
}

func (c *vcase) envelope() []byte {
	return mustJSON(&mEnvelope{Type: uint8(c.typ), Len: uint32(len(c.payload)), Payload: c.payload})
}

// sameFields compares a model value with a decoded poly value by exported field name.
func sameFields(m, g reflect.Value, path string) string {
	for m.Kind() == reflect.Ptr || m.Kind() == reflect.Interface {
		if m.IsNil() {
			if (g.Kind() == reflect.Ptr || g.Kind() == reflect.Interface || g.Kind() == reflect.Slice || g.Kind() == reflect.Map) && g.IsNil() {
				return ""
			}
			return path + ": model nil, decoded non-nil"
		}
		m = m.Elem()
	}
	for g.Kind() == reflect.Ptr || g.Kind() == reflect.Interface {
		if g.IsNil() {
			return path + ": decoded nil, model non-nil"
		}
		g = g.Elem()
	}
	switch m.Kind() {
	case reflect.Struct:
		if g.Kind() != reflect.Struct {
			return path + ": kind differs"
		}
		for i := 0; i < m.NumField(); i++ {
			name := m.Type().Field(i).Name
			gf := g.FieldByName(name)
			if !gf.IsValid() {
				return path + "." + name + ": field missing in decoded message"
			}
			if why := sameFields(m.Field(i), gf, path+"."+name); why != "" {
				return why
			}
		}
		if g.NumField() != m.NumField() {
			return fmt.Sprintf("%s: decoded type has %d fields, the model %d (model out of date?)", path, g.NumField(), m.NumField())
		}
	case reflect.Slice, reflect.Array:
		if g.Kind() != reflect.Slice && g.Kind() != reflect.Array {
			return path + ": kind differs"
		}
		if m.Len() != g.Len() {
			return fmt.Sprintf("%s: length %d vs %d", path, m.Len(), g.Len())
		}
		for i := 0; i < m.Len(); i++ {
			if why := sameFields(m.Index(i), g.Index(i), fmt.Sprintf("%s[%d]", path, i)); why != "" {
				return why
			}
		}
	case reflect.Map:
		if g.Kind() != reflect.Map || m.Len() != g.Len() {
			return fmt.Sprintf("%s: map size differs", path)
		}
		ks := m.MapKeys()
		sort.Slice(ks, func(i, j int) bool { return ks[i].Uint() < ks[j].Uint() })
		for _, k := range ks {
			gv := g.MapIndex(k.Convert(g.Type().Key()))
			if !gv.IsValid() {
				return fmt.Sprintf("%s[%d]: key missing", path, k.Uint())
			}
			if why := sameFields(m.MapIndex(k), gv, fmt.Sprintf("%s[%d]", path, k.Uint())); why != "" {
				return why
			}
		}
	case reflect.Bool:
		if m.Bool() != g.Bool() {
			return path + ": bool differs"
		}
	case reflect.String:
		if m.String() != g.String() {
			return path + ": string differs"
		}
	case reflect.Int, reflect.Int8, reflect.Int16, reflect.Int32, reflect.Int64:
		if m.Int() != g.Int() {
			return fmt.Sprintf("%s: %d vs %d", path, m.Int(), g.Int())
		}
	case reflect.Uint, reflect.Uint8, reflect.Uint16, reflect.Uint32, reflect.Uint64:
		if m.Uint() != g.Uint() {
			return fmt.Sprintf("%s: %d vs %d", path, m.Uint(), g.Uint())
		}
	default:
		return path + ": unsupported kind " + m.Kind().String()
	}
	return ""
}

// vbftBlockOf digs the *vbft.Block out of a decoded proposal / fetch response.
func vbftBlockOf(msg vbft.ConsensusMsg) *vbft.Block {
	if r, ok := msg.(*vbft.BlockFetchRespMsg); ok {
		return r.BlockData
	}
	v := reflect.ValueOf(msg)
	if v.Kind() != reflect.Ptr || v.IsNil() {
		return nil
	}
	f := v.Elem().FieldByName("Block")
	if !f.IsValid() || !f.CanInterface() {
		return nil
	}
	b, _ := f.Interface().(*vbft.Block)
	return b
}

func sameProposalBlock(p *mProposalBlock, b *vbft.Block) string {
	if b == nil || b.Block == nil {
		return "no block decoded"
	}
	if !bytes.Equal(b.Block.ToArray(), p.Blk.bytes()) {
		return "block bytes differ"
	}
	if (p.Empty == nil) != (b.EmptyBlock == nil) {
		return "presence of the empty block differs"
	}
	if p.Empty != nil && !bytes.Equal(b.EmptyBlock.ToArray(), p.Empty.bytes()) {
		return "empty block bytes differ"
	}
	if b.Info == nil {
		return "no block info decoded"
	}
	return sameFields(reflect.ValueOf(p.Info), reflect.ValueOf(b.Info), "Info")
}

const (
	c44RoundTrip = iota
	c44Corrupt
	c44PayloadSig
	c44ProposalSig
	c44VoteSig
	c44NumModes
)

var c44ModeNames = []string{"roundtrip", "corrupted_envelope", "consensus_payload_signature", "proposal_signature", "endorse_commit_signature"}

func init() {
	kernel.Register(&kernel.Check{
		ID: "C44", Level: "exploration", Engine: "E5 wire (VBFT message codec and consensus-payload signatures)",
		Rule: "case = one VBFT message of one of the 10 kinds (proposal, endorse, commit, handshake, heartbeat, block-info fetch/response, proposal fetch, block fetch/response) generated as a model value, encoded by a model encoder into the JSON envelope " +
			"{type,len,payload}, decoded with DeserializeVbftMsg, compared field by field (reflection over the unexported message types), re-encoded with SerializeVbftMsg (semantically equal JSON, byte-stable fixed point, maps rebuilt in permuted insertion order 8 times), " +
			"then one mode: corrupted envelope (truncation at every point, bit flips, len/type manipulation: clean error or a decodable message, Verify/GetBlockNum/Serialize on it must not panic); consensus payload signed as the node does, shipped in a consensus frame " +
			"over a chunked stream, must verify, then every field mutated singly after signing, every single byte of the encoded payload corrupted (enumerated), another key, another signature: Verify must fail; proposal sealed by the proposer key: Verify(pub) ok, " +
			"every header field / transaction list / empty block mutated singly, other key, damaged signature: Verify must fail or the message must not decode; endorse/commit: signature over the block hash verifies only for that hash and key. " +
			"evaluations = decode/verify judgements. Non-trivial: a message with at least one variable-length field where the mode's mutations all got judged; distinct by (kind, mode, outcome digest)",
		Real:        []string{"consensus/vbft SerializeVbftMsg/DeserializeVbftMsg and all 10 message types incl. vbft.Block (Serialize/Deserialize)", "blockProposalMsg/blockEndorseMsg/blockCommitMsg.Verify, HashMsg", "p2pserver/message/types ConsensusPayload (Serialization, Deserialization, SerializeUnsigned, Verify) inside WriteMessage/ReadMessage frames", "core/signature Sign/Verify, ontology-crypto"},
		Stub:        []string{"VBFT Server (messages are built from model values through the wire format, not by Server.construct*Msg, which are unexported methods of the unstartable Server)", "byte stream (simulated reader)"},
		Assumptions: []string{"ECDSA signatures are randomised (ontology-crypto draws the nonce from crypto/rand); signature bytes never enter the trace and no judged outcome depends on their value", "endorse/commit signatures cover only the block hash (by design); the other fields of those messages are bound by the enclosing signed consensus payload, which is what the payload-mutation mode checks", "signature malleability (r, n-s) is outside single-field/single-byte mutation and not explored"},
		QuickRuns:   800, ThoroughRuns: 60000, QuickCap: 60, ThoroughCap: 800,
		RequiredProbes: []string{"kind_proposal", "kind_endorse", "kind_commit", "kind_handshake", "kind_heartbeat", "kind_blockinfo_fetch", "kind_blockinfo_fetch_resp", "kind_proposal_fetch", "kind_block_fetch", "kind_block_fetch_resp",
			"payload_signature_verified", "payload_field_mutation_rejected", "payload_other_key_rejected", "proposal_signature_verified", "proposal_header_mutation_rejected", "proposal_empty_block_mutation_rejected", "vote_hash_mutation_rejected", "commit_map_permuted"},
		Generate:   genC44,
		Execute:    execC44,
		NoMinimise: noMin,
	})
}

func genC44(rng *kernel.RNG, idx int, tier string) *kernel.Plan {
	p := &kernel.Plan{Cfg: map[string]int64{"magic": int64(rng.Uint64() >> 33)}}
	n := 3 + rng.Intn(5)
	for i := 0; i < n; i++ {
		typ := (idx + i) % vtNumKinds
		if rng.Intn(2) == 0 {
			typ = rng.Intn(vtNumKinds)
		}
		mode := rng.Intn(c44NumModes)
		if mode == c44ProposalSig {
			typ = vtProposal
		}
		if mode == c44VoteSig {
			typ = vtEndorse + rng.Intn(2)
		}
		p.Steps = append(p.Steps, kernel.Step{Op: "vmsg", A: []int64{int64(rng.Uint64() >> 1), int64(typ), int64(mode), int64(1 + rng.Intn(12)), int64(rng.Intn(20)), int64(rng.Intn(20))}})
	}
	return p
}

type c44ctx struct {
	run    *kernel.Run
	failed map[string]bool
	evals  int
	rej    int
	acc    int
}

func (c *c44ctx) fail(key, format string, a ...interface{}) {
	if c.failed[key] {
		return
	}
	c.failed[key] = true
	c.run.Fail("C44", key, format, a...)
}

// decodeV wraps DeserializeVbftMsg.
func (c *c44ctx) decodeV(label string, env []byte) (vbft.ConsensusMsg, error, bool) {
	c.evals++
	var msg vbft.ConsensusMsg
	var err error
	if p, what := safely(func() { msg, err = vbft.DeserializeVbftMsg(env) }); p {
		c.fail(panicClass("vbft-decode", what), "%s: DeserializeVbftMsg panicked: %s", label, what)
		return nil, nil, false
	}
	return msg, err, true
}

// exercise calls every method of a decoded message; none may panic.
func (c *c44ctx) exercise(label string, msg vbft.ConsensusMsg, pub keypair.PublicKey) (out []byte, ok bool) {
	var err error
	if p, what := safely(func() {
		_ = msg.Type()
		_ = msg.GetBlockNum()
		_ = msg.Verify(pub)
		out, err = vbft.SerializeVbftMsg(msg)
	}); p {
		c.fail(panicClass("vbft-msg-method", what), "%s: a method of a decoded message panicked: %s", label, what)
		return nil, false
	}
	if err != nil {
		return nil, true
	}
	return out, true
}

func (c *c44ctx) roundTrip(vc *vcase, rng *kernel.RNG) (vbft.ConsensusMsg, bool) {
	kind := vbftKindNames[vc.typ]
	env := vc.envelope()
	msg, err, ok := c.decodeV("intact "+kind, env)
	if !ok {
		return nil, false
	}
	if err != nil || msg == nil {
		c.fail("roundtrip-rejected", "well-formed %s message rejected: %v", kind, err)
		return nil, false
	}
	if int(msg.Type()) != vc.typ {
		c.fail("roundtrip-type", "%s decoded as type %d", kind, msg.Type())
		return nil, false
	}
	if msg.GetBlockNum() != vc.blockNum {
		c.fail("roundtrip-blocknum", "%s: GetBlockNum()=%d, want %d", kind, msg.GetBlockNum(), vc.blockNum)
		return nil, false
	}
	check := func(m vbft.ConsensusMsg, stage string) bool {
		var why string
		switch vc.typ {
		case vtProposal:
			why = sameProposalBlock(vc.model.(*mProposalBlock), vbftBlockOf(m))
		case vtBlockFetchResp:
			r, isR := m.(*vbft.BlockFetchRespMsg)
			if !isR {
				why = "not a BlockFetchRespMsg"
			} else if r.BlockNumber != vc.fetchNum || r.BlockHash != common.Uint256(vc.fetchH) {
				why = "block number / hash differ"
			} else {
				why = sameProposalBlock(vc.model.(*mProposalBlock), r.BlockData)
			}
		default:
			why = sameFields(reflect.ValueOf(vc.model), reflect.ValueOf(m), kind)
		}
		if why != "" {
			c.fail("roundtrip-fields", "%s (%s): %s", kind, stage, why)
			return false
		}
		return true
	}
	if !check(msg, "decode of model encoding") {
		return nil, false
	}
	out, err := vbft.SerializeVbftMsg(msg)
	if err != nil {
		c.fail("roundtrip-reserialise", "%s: SerializeVbftMsg failed: %v", kind, err)
		return nil, false
	}
	var e2 mEnvelope
	if err := json.Unmarshal(out, &e2); err != nil || int(e2.Type) != vc.typ || int(e2.Len) != len(e2.Payload) {
		c.fail("roundtrip-envelope", "%s: re-encoded envelope malformed: err=%v type=%d len=%d payload=%d", kind, err, e2.Type, e2.Len, len(e2.Payload))
		return nil, false
	}
	if vc.typ == vtProposal || vc.typ == vtBlockFetchResp {
		if !bytes.Equal(e2.Payload, vc.payload) {
			c.fail("roundtrip-payload", "%s: re-encoded binary payload differs from the model encoding", kind)
			return nil, false
		}
	} else {
		var a, b interface{}
		if json.Unmarshal(e2.Payload, &a) != nil || json.Unmarshal(vc.payload, &b) != nil || !reflect.DeepEqual(a, b) {
			c.fail("roundtrip-payload", "%s: re-encoded JSON payload is not equivalent to the model encoding:\n got  %.300s\n want %.300s", kind, e2.Payload, vc.payload)
			return nil, false
		}
	}
	msg2, err, ok := c.decodeV("re-encoded "+kind, out)
	if !ok {
		return nil, false
	}
	if err != nil || !check(msg2, "decode of poly's encoding") {
		if err != nil {
			c.fail("roundtrip-rejected", "%s: poly's own encoding rejected: %v", kind, err)
		}
		return nil, false
	}
	for rep := 0; rep < 8; rep++ {
		out2, err := vbft.SerializeVbftMsg(msg2)
		if err != nil || !bytes.Equal(out2, out) {
			c.fail("encoding-not-stable", "%s: encoding the same message again gives different bytes (repetition %d, err=%v)", kind, rep, err)
			return nil, false
		}
	}
	h1, e1 := vbft.HashMsg(msg)
	h2, e2h := vbft.HashMsg(msg2)
	if e1 != nil || e2h != nil || h1 != h2 || h1 != common.Uint256(dsha(out)) {
		c.fail("hashmsg-differs", "%s: HashMsg is not the double SHA-256 of the encoding / differs between equal messages", kind)
		return nil, false
	}
	c.run.Probe("kind_" + kind)
	return msg, true
}

func execC44(run *kernel.Run) {
	c := &c44ctx{run: run, failed: map[string]bool{}}
	magic := uint32(run.Plan.C("magic", 0x74746e41))
	config.DefConfig.P2PNode.NetworkMagic = magic
	var sample []string
	for i, st := range run.Plan.Steps {
		run.StepNo = i
		if st.Op != "vmsg" {
			continue
		}
		run.Steps++
		salt := uint64(st.Arg(0))
		rng := kernel.NewRNG(kernel.Derive(run.Plan.Seed, "c44", salt))
		typ := amod(st.Arg(1), vtNumKinds)
		mode := amod(st.Arg(2), c44NumModes)
		k := 1 + amod(st.Arg(3)-1, 12)
		signer := signerKey(amod(st.Arg(4), 20))
		other := signerKey(amod(st.Arg(4), 20) + 1 + amod(st.Arg(5), 19))
		ev0, rej0, acc0 := c.evals, c.rej, c.acc
		kind := vbftKindNames[typ]
		complete := false
		switch mode {
		case c44RoundTrip, c44Corrupt, c44PayloadSig:
			vc := genVMsg(rng, typ)
			if typ == vtCommit || typ == vtBlockInfoFetchResp {
				c.run.Probe("commit_map_permuted")
			}
			msg, ok := c.roundTrip(vc, rng)
			if !ok {
				break
			}
			complete = true
			if mode == c44Corrupt {
				c.corruptEnvelope(vc, rng, signer.pub)
			}
			if mode == c44PayloadSig {
				data, err := vbft.SerializeVbftMsg(msg)
				if err != nil {
					break
				}
				c.payloadSig(data, rng, signer, other, magic, k, salt)
			}
		case c44ProposalSig:
			typ, kind = vtProposal, vbftKindNames[vtProposal]
			complete = c.proposalSig(rng, signer, other)
		case c44VoteSig:
			if typ != vtEndorse && typ != vtCommit {
				typ = vtEndorse
			}
			kind = vbftKindNames[typ]
			complete = c.voteSig(rng, typ, signer, other)
		}
		out := fmt.Sprintf("%s mode=%s evals=%d rejected=%d accepted=%d", kind, c44ModeNames[mode], c.evals-ev0, c.rej-rej0, c.acc-acc0)
		run.Logf("step %d %s", i, out)
		run.State([]byte(out))
		if len(sample) < 4 {
			sample = append(sample, out)
		}
		if complete && typ != vtBlockFetch && typ != vtBlockInfoFetch && typ != vtProposalFetch {
			run.Nontrivial([]byte(out))
		}
	}
	run.Probes["__evals"] = c.evals
	run.Sample = sample
}

// corruptEnvelope: damaged envelopes are rejected cleanly or decode into something usable.
func (c *c44ctx) corruptEnvelope(vc *vcase, rng *kernel.RNG, pub keypair.PublicKey) {
	run := c.run
	env := vc.envelope()
	kind := vbftKindNames[vc.typ]
	try := func(label string, d []byte) {
		msg, err, ok := c.decodeV(label, d)
		if !ok {
			return
		}
		if err != nil || msg == nil {
			c.rej++
			return
		}
		c.acc++
		out, ok := c.exercise(label, msg, pub)
		if ok && out != nil {
			if m2, err2, ok2 := c.decodeV(label+" re-encoded", out); ok2 && (err2 != nil || m2 == nil) {
				if vb := vbftBlockOf(msg); vb != nil && (blockOffCurve(vb.Block) || blockOffCurve(vb.EmptyBlock)) {
					run.Probe("off_curve_key_message_not_reframable")
					c.fail(offCurveKeyPrefix+vbftKindNames[int(msg.Type())%vtNumKinds], "%s: DeserializeVbftMsg accepted a block carrying a public key that is not on its curve; its re-encoding is rejected: %v", label, err2)
					return
				}
				c.fail("accepted-message-does-not-reencode", "%s: accepted message re-encodes to something DeserializeVbftMsg rejects: %v", label, err2)
			}
		}
	}
	var pts []int
	if len(env) <= 500 {
		for t := 0; t < len(env); t++ {
			pts = append(pts, t)
		}
	} else {
		for j := 0; j < 200; j++ {
			pts = append(pts, rng.Intn(len(env)))
		}
		for t := 0; t < 60; t++ {
			pts = append(pts, t, len(env)-1-t)
		}
	}
	for _, t := range pts {
		run.Fault("envelope_truncated")
		try(fmt.Sprintf("%s envelope[:%d]", kind, t), env[:t])
	}
	for j := 0; j < 60; j++ {
		d := copyB(env)
		for f := 1 + rng.Intn(2); f > 0; f-- {
			d[rng.Intn(len(d))] ^= 1 << uint(rng.Intn(8))
		}
		run.Fault("envelope_bit_flip")
		try(fmt.Sprintf("%s envelope flip#%d", kind, j), d)
	}
	// damaged inner payload under an intact envelope
	for j := 0; j < 60 && len(vc.payload) > 0; j++ {
		p := copyB(vc.payload)
		switch rng.Intn(3) {
		case 0:
			p = p[:rng.Intn(len(p))]
		default:
			for f := 1 + rng.Intn(3); f > 0; f-- {
				p[rng.Intn(len(p))] ^= byte(1 + rng.Intn(255))
			}
		}
		if (vc.typ == vtProposal || vc.typ == vtBlockFetchResp) && proposalDanger(vc.typ, p) {
			run.Fault("dangerous_count_not_executed")
			continue
		}
		run.Fault("inner_payload_damaged")
		try(fmt.Sprintf("%s inner#%d", kind, j), mustJSON(&mEnvelope{Type: uint8(vc.typ), Len: uint32(len(p)), Payload: p}))
	}
	// the signature count of the first transaction of a carried block set to boundary values
	if pb, isP := vc.model.(*mProposalBlock); isP && len(pb.Blk.Txs) > 0 {
		for _, v := range []uint64{0, 0x10000, 1 << 46, 1 << 63, ^uint64(0)} {
			bw := &refW{}
			pb.Blk.H.enc(bw, nil)
			bw.u32(uint32(len(pb.Blk.Txs)))
			pb.Blk.Txs[0].enc(bw, &ovr{field: "tx.nsigs", val: v})
			for _, t := range pb.Blk.Txs[1:] {
				t.enc(bw, nil)
			}
			w := &refW{}
			if vc.typ == vtBlockFetchResp {
				w.u32(vc.fetchNum)
				w.raw(vc.fetchH[:])
			}
			w.varbytes(bw.b)
			run.Fault("carried_block_count_corrupted")
			if v >= dangerHi {
				run.Probe("carried_block_count_huge")
			}
			try(fmt.Sprintf("%s tx0 nsigs=%#x", kind, v), mustJSON(&mEnvelope{Type: uint8(vc.typ), Len: uint32(len(w.b)), Payload: w.b}))
		}
	}
	// len / type manipulation
	L := uint32(len(vc.payload))
	for _, l2 := range []uint32{0, L - 1, L + 1, L / 2, 0xFFFFFFFF} {
		if l2 == L {
			continue
		}
		run.Fault("envelope_len_mismatch")
		d := mustJSON(&mEnvelope{Type: uint8(vc.typ), Len: l2, Payload: vc.payload})
		msg, err, ok := c.decodeV(fmt.Sprintf("%s len=%d", kind, l2), d)
		if ok && l2 < L && err == nil && msg != nil {
			c.fail("len-below-payload-accepted", "%s: envelope with len %d below the payload size %d was accepted", kind, l2, L)
		}
		if ok && err != nil {
			c.rej++
		}
	}
	for _, t2 := range []int{vtNumKinds, 11, 200, 255} {
		run.Fault("envelope_unknown_type")
		d := mustJSON(&mEnvelope{Type: uint8(t2), Len: L, Payload: vc.payload})
		msg, err, ok := c.decodeV(fmt.Sprintf("%s type=%d", kind, t2), d)
		if ok && (err == nil || msg != nil) {
			c.fail("unknown-type-accepted", "envelope with unknown message type %d was accepted", t2)
		}
		if ok && err != nil {
			c.rej++
		}
	}
	// the payload of one kind under the type number of every other kind: never a panic
	for t2 := 0; t2 < vtNumKinds; t2++ {
		if t2 == vc.typ {
			continue
		}
		if (t2 == vtProposal || t2 == vtBlockFetchResp) && proposalDanger(t2, vc.payload) {
			continue
		}
		run.Fault("envelope_type_swapped")
		try(fmt.Sprintf("%s payload as %s", kind, vbftKindNames[t2]), mustJSON(&mEnvelope{Type: uint8(t2), Len: L, Payload: vc.payload}))
	}
}

// proposalDanger: would decoding p as a vbft block hit a dangerous pre-allocating count?
func proposalDanger(typ int, p []byte) bool {
	r := &refR{b: p}
	if typ == vtBlockFetchResp {
		r.raw(36)
	}
	b1 := r.varbytes()
	if r.bad {
		return false
	}
	if blockDanger(b1) {
		return true
	}
	if r.rest() > 0 {
		b2 := r.varbytes()
		if !r.bad && blockDanger(b2) {
			return true
		}
	}
	return false
}

// payloadSig: a consensus payload signed as the node signs it; every mutation after signing must fail.
func (c *c44ctx) payloadSig(data []byte, rng *kernel.RNG, signer, other *poolKey, magic uint32, k int, salt uint64) {
	run := c.run
	p := &mt.ConsensusPayload{Version: uint32(biasedU64(rng)), Height: uint32(biasedU64(rng)), BookkeeperIndex: uint16(rng.Intn(65536)), Timestamp: uint32(biasedU64(rng)), Data: data, Owner: signer.pub}
	copy(p.PrevHash[:], rng.Bytes(32))
	buf := new(bytes.Buffer)
	if err := p.SerializeUnsigned(buf); err != nil {
		c.fail("payload-serialize-unsigned", "SerializeUnsigned failed: %v", err)
		return
	}
	// the unsigned bytes per the format
	w := &refW{}
	w.u32(p.Version)
	w.raw(p.PrevHash[:])
	w.u32(p.Height)
	w.u16(p.BookkeeperIndex)
	w.u32(p.Timestamp)
	w.varbytes(p.Data)
	if !bytes.Equal(buf.Bytes(), w.b) {
		c.fail("payload-unsigned-bytes-differ", "SerializeUnsigned gives %s, the format says %s", short(buf.Bytes()), short(w.b))
		return
	}
	sig, err := signature.Sign(signer.acct, buf.Bytes())
	if err != nil {
		panic(err)
	}
	p.Signature = sig
	// ship it: consensus frame over a chunked stream
	sink := common.NewZeroCopySink(nil)
	if err := mt.WriteMessage(sink, &mt.Consensus{Cons: *p}); err != nil {
		c.fail("payload-frame-write", "WriteMessage(consensus) failed: %v", err)
		return
	}
	rd := newFaultReader(copyB(sink.Bytes()), k, -1, kernel.NewRNG(kernel.Derive(run.Plan.Seed, "c44rd", salt)))
	c.evals++
	got, _, err := mt.ReadMessage(rd)
	cm, isC := got.(*mt.Consensus)
	if err != nil || !isC {
		c.fail("payload-frame-roundtrip", "consensus frame did not survive the stream: %v", err)
		return
	}
	if err := cm.Cons.Verify(); err != nil {
		c.fail("valid-payload-signature-rejected", "a correctly signed consensus payload does not verify after the round trip: %v", err)
		return
	}
	if !bytes.Equal(cm.Cons.Data, data) {
		c.fail("payload-frame-roundtrip", "consensus payload data changed in transit")
		return
	}
	if m, err, ok := c.decodeV("payload data", cm.Cons.Data); !ok || err != nil || m == nil {
		if ok {
			c.fail("payload-data-undecodable", "VBFT message carried by a consensus payload does not decode: %v", err)
		}
		return
	}
	run.Probe("payload_signature_verified")
	full := w.b // unsigned part
	wf := &refW{b: copyB(full)}
	wf.varbytes(signer.ser)
	wf.varbytes(sig)
	if cs := common.NewZeroCopySink(nil); p.Serialization(cs) != nil || !bytes.Equal(cs.Bytes(), wf.b) {
		c.fail("payload-bytes-differ", "ConsensusPayload.Serialization differs from the format")
		return
	}
	mustFail := func(label string, q *mt.ConsensusPayload) {
		c.evals++
		var verr error
		if pp, what := safely(func() { verr = q.Verify() }); pp {
			c.fail(panicClass("payload-verify", what), "%s: ConsensusPayload.Verify panicked: %s", label, what)
			return
		}
		if verr == nil {
			c.fail("mutated-payload-verifies", "%s: consensus payload still verifies after the mutation", label)
			return
		}
		c.rej++
	}
	clone := func() *mt.ConsensusPayload {
		q := *p
		q.Data = copyB(p.Data)
		q.Signature = copyB(p.Signature)
		return &q
	}
	// single-field mutations after signing
	for f := 0; f < 9; f++ {
		q := clone()
		label := ""
		switch f {
		case 0:
			q.Version ^= 1 << uint(rng.Intn(32))
			label = "Version"
		case 1:
			q.PrevHash[rng.Intn(32)] ^= 1 << uint(rng.Intn(8))
			label = "PrevHash"
		case 2:
			q.Height ^= 1 << uint(rng.Intn(32))
			label = "Height"
		case 3:
			q.BookkeeperIndex ^= 1 << uint(rng.Intn(16))
			label = "BookkeeperIndex"
		case 4:
			q.Timestamp ^= 1 << uint(rng.Intn(32))
			label = "Timestamp"
		case 5:
			if len(q.Data) == 0 {
				continue
			}
			q.Data[rng.Intn(len(q.Data))] ^= 1 << uint(rng.Intn(8))
			label = "Data bit"
		case 6:
			q.Data = q.Data[:len(q.Data)-imin(len(q.Data), 1+rng.Intn(3))]
			if len(q.Data) == len(p.Data) {
				continue
			}
			label = "Data truncated"
		case 7:
			q.Data = append(q.Data, byte(rng.Intn(256)))
			label = "Data extended"
		case 8:
			q.Signature[rng.Intn(len(q.Signature))] ^= 1 << uint(rng.Intn(8))
			label = "Signature bit"
		}
		run.Fault("payload_field_mutated")
		mustFail("field "+label, q)
		run.Probe("payload_field_mutation_rejected")
	}
	// another key claims the payload / signs it
	q := clone()
	q.Owner = other.pub
	run.Fault("payload_other_key")
	mustFail("owner replaced by another key", q)
	q = clone()
	sig2, _ := signature.Sign(other.acct, buf.Bytes())
	q.Signature = sig2
	run.Fault("payload_other_key")
	mustFail("signature made by another key", q)
	run.Probe("payload_other_key_rejected")
	// signature of the same key over other content
	q = clone()
	sig3, _ := signature.Sign(signer.acct, append(copyB(buf.Bytes()), 0))
	q.Signature = sig3
	run.Fault("payload_signature_of_other_content")
	mustFail("signature over other content", q)
	// every single byte of the encoded payload corrupted (enumerated for short payloads)
	enc := wf.b
	var offs []int
	if len(enc) <= 700 {
		for o := range enc {
			offs = append(offs, o)
		}
	} else {
		for j := 0; j < 300; j++ {
			offs = append(offs, rng.Intn(len(enc)))
		}
		for o := 0; o < 50; o++ {
			offs = append(offs, o, len(enc)-1-o)
		}
	}
	for _, o := range offs {
		d := xorByte(enc, o, byte(1+rng.Intn(255)))
		run.Fault("payload_byte_corrupted")
		c.evals++
		var q2 mt.ConsensusPayload
		var derr, verr error
		if pp, what := safely(func() {
			derr = q2.Deserialization(common.NewZeroCopySource(d))
			if derr == nil {
				verr = q2.Verify()
			}
		}); pp {
			c.fail(panicClass("payload-decode-verify", what), "consensus payload with byte %d corrupted: decode/verify panicked: %s", o, what)
			continue
		}
		if derr == nil && verr == nil {
			c.fail("corrupted-payload-verifies", "consensus payload with byte %d of %d corrupted decodes and still verifies", o, len(enc))
			continue
		}
		c.rej++
	}
}

// proposalSig: block proposal sealed by the proposer; Verify(pub) binds the block content.
func (c *c44ctx) proposalSig(rng *kernel.RNG, signer, other *poolKey) bool {
	run := c.run
	p := genProposalBlock(rng, signer, rng.Intn(4) != 0)
	decode := func(label string, pb *mProposalBlock) (vbft.ConsensusMsg, bool) {
		payload := pb.bytes()
		env := mustJSON(&mEnvelope{Type: vtProposal, Len: uint32(len(payload)), Payload: payload})
		msg, err, ok := c.decodeV(label, env)
		if !ok {
			return nil, false
		}
		if err != nil || msg == nil {
			return nil, true
		}
		return msg, true
	}
	msg, ok := decode("sealed proposal", p)
	if !ok {
		return false
	}
	if msg == nil {
		c.fail("roundtrip-rejected", "well-formed sealed proposal rejected")
		return false
	}
	c.evals++
	if err := msg.Verify(signer.pub); err != nil {
		c.fail("valid-proposal-signature-rejected", "a proposal sealed by the proposer does not verify: %v", err)
		return false
	}
	run.Probe("proposal_signature_verified")
	dropped := false
	mustFail := func(label string, pb *mProposalBlock, pub keypair.PublicKey) {
		dropped = false
		m, ok := decode(label, pb)
		if !ok {
			return
		}
		if m == nil {
			c.rej++ // does not even decode (e.g. transaction root mismatch): rejected
			return
		}
		if pb.Empty != nil {
			// vbft.Block.Deserialize drops an empty block that does not decode (e.g. its transaction
			// root no longer matches) instead of failing. The damaged part is then not accepted; what
			// remains is the proposal without empty block, whose own signature is judged below.
			if vb := vbftBlockOf(m); vb != nil && vb.EmptyBlock == nil {
				run.Probe("damaged_empty_block_dropped_silently")
				dropped = true
				if bytes.Equal(pb.Blk.bytes(), p.Blk.bytes()) && pub == signer.pub {
					c.rej++
					return
				}
			}
		}
		c.evals++
		var verr error
		if pp, what := safely(func() { verr = m.Verify(pub) }); pp {
			c.fail(panicClass("proposal-verify", what), "%s: blockProposalMsg.Verify panicked: %s", label, what)
			return
		}
		if verr == nil {
			c.fail("mutated-proposal-verifies", "%s: proposal still verifies", label)
			return
		}
		c.rej++
	}
	cloneP := func() *mProposalBlock {
		q := &mProposalBlock{Info: p.Info}
		h := *p.Blk.H
		q.Blk = &blkM{H: &h, Txs: p.Blk.Txs}
		if p.Empty != nil {
			he := *p.Empty.H
			q.Empty = &blkM{H: &he, Txs: p.Empty.Txs}
		}
		return q
	}
	mutateHdr := func(h *hdrM, f int) string {
		switch f {
		case 0:
			h.ChainID ^= 1 << uint(rng.Intn(64))
			return "ChainID"
		case 1:
			h.Prev[rng.Intn(32)] ^= 1 << uint(rng.Intn(8))
			return "PrevBlockHash"
		case 2:
			h.TxRoot[rng.Intn(32)] ^= 1 << uint(rng.Intn(8))
			return "TransactionsRoot"
		case 3:
			h.CrossRoot[rng.Intn(32)] ^= 1 << uint(rng.Intn(8))
			return "CrossStateRoot"
		case 4:
			h.BlockRoot[rng.Intn(32)] ^= 1 << uint(rng.Intn(8))
			return "BlockRoot"
		case 5:
			h.Timestamp ^= 1 << uint(rng.Intn(32))
			return "Timestamp"
		case 6:
			h.Height ^= 1 << uint(rng.Intn(32))
			return "Height"
		case 7:
			h.ConsensusData ^= 1 << uint(rng.Intn(64))
			return "ConsensusData"
		case 8:
			info := *p.Info
			info.Proposer++
			h.CP = mustJSON(&info)
			return "ConsensusPayload.leader"
		case 9:
			info := *p.Info
			info.LastConfigBlockNum++
			h.CP = mustJSON(&info)
			return "ConsensusPayload.last_config_block_num"
		case 10:
			info := *p.Info
			info.VrfValue = xorByte(info.VrfValue, rng.Intn(64), 1)
			h.CP = mustJSON(&info)
			return "ConsensusPayload.vrf_value"
		default:
			h.NextBK[rng.Intn(20)] ^= 1 << uint(rng.Intn(8))
			return "NextBookkeeper"
		}
	}
	for f := 0; f < 12; f++ {
		q := cloneP()
		name := mutateHdr(q.Blk.H, f)
		run.Fault("proposal_header_field_mutated")
		mustFail("block header field "+name, q, signer.pub)
		run.Probe("proposal_header_mutation_rejected")
	}
	if p.Empty != nil {
		for f := 0; f < 12; f++ {
			q := cloneP()
			name := mutateHdr(q.Empty.H, f)
			run.Fault("proposal_empty_block_field_mutated")
			mustFail("empty block header field "+name, q, signer.pub)
			if !dropped {
				run.Probe("proposal_empty_block_mutation_rejected")
			}
		}
	}
	// transaction list changed with a matching root
	q := cloneP()
	q.Blk.Txs = append(append([]*txM{}, p.Blk.Txs...), genTx(rng, 2))
	q.Blk.fixRoot()
	run.Fault("proposal_transactions_changed")
	mustFail("transaction appended, root recomputed", q, signer.pub)
	if len(p.Blk.Txs) > 0 {
		q = cloneP()
		q.Blk.Txs = p.Blk.Txs[:len(p.Blk.Txs)-1]
		run.Fault("proposal_transactions_changed")
		mustFail("transaction dropped, root unchanged", q, signer.pub)
	}
	// other key, damaged / foreign signature
	run.Fault("proposal_other_key")
	mustFail("verified under another key", p, other.pub)
	q = cloneP()
	q.Blk.H.Sigs = [][]byte{xorByte(p.Blk.H.Sigs[0], rng.Intn(len(p.Blk.H.Sigs[0])), 1<<uint(rng.Intn(8)))}
	run.Fault("proposal_signature_damaged")
	mustFail("signature bit flipped", q, signer.pub)
	q = cloneP()
	sealModel(q.Blk, other)
	run.Fault("proposal_other_key")
	mustFail("sealed by another key, verified under the proposer's", q, signer.pub)
	q = cloneP()
	q.Blk.H.Sigs = nil
	q.Blk.H.BKs = nil
	run.Fault("proposal_signature_damaged")
	mustFail("signature removed", q, signer.pub)
	if p.Empty != nil {
		q = cloneP()
		sealModel(q.Empty, other)
		run.Fault("proposal_other_key")
		mustFail("empty block sealed by another key", q, signer.pub)
	}
	return true
}

// voteSig: endorse / commit carry a signature over the block hash.
func (c *c44ctx) voteSig(rng *kernel.RNG, typ int, signer, other *poolKey) bool {
	run := c.run
	var hash [32]byte
	copy(hash[:], rng.Bytes(32))
	sig, err := signature.Sign(signer.acct, hash[:])
	if err != nil {
		panic(err)
	}
	build := func(h [32]byte, s []byte) []byte {
		var payload []byte
		if typ == vtEndorse {
			payload = mustJSON(&mEndorse{Endorser: uint32(rng.Intn(40)), EndorsedProposer: uint32(rng.Intn(40)), BlockNum: uint32(rng.Intn(1 << 20)), EndorsedBlockHash: h, EndorseForEmpty: rng.Intn(2) == 0, ProposerSig: rng.Bytes(64), EndorserSig: s})
		} else {
			payload = mustJSON(&mCommit{Committer: uint32(rng.Intn(40)), BlockProposer: uint32(rng.Intn(40)), BlockNum: uint32(rng.Intn(1 << 20)), CommitBlockHash: h, CommitForEmpty: rng.Intn(2) == 0, ProposerSig: rng.Bytes(64), EndorsersSig: genSigMap(rng, nil), CommitterSig: s})
		}
		return mustJSON(&mEnvelope{Type: uint8(typ), Len: uint32(len(payload)), Payload: payload})
	}
	kind := vbftKindNames[typ]
	verify := func(label string, env []byte, pub keypair.PublicKey) (error, bool) {
		msg, err, ok := c.decodeV(label, env)
		if !ok {
			return nil, false
		}
		if err != nil || msg == nil {
			c.fail("roundtrip-rejected", "%s: well-formed %s rejected: %v", label, kind, err)
			return nil, false
		}
		c.evals++
		var verr error
		if pp, what := safely(func() { verr = msg.Verify(pub) }); pp {
			c.fail(panicClass("vote-verify", what), "%s: %s.Verify panicked: %s", label, kind, what)
			return nil, false
		}
		return verr, true
	}
	if verr, ok := verify("signed "+kind, build(hash, sig), signer.pub); !ok {
		return false
	} else if verr != nil {
		c.fail("valid-vote-signature-rejected", "correctly signed %s does not verify: %v", kind, verr)
		return false
	}
	expectFail := func(label string, env []byte, pub keypair.PublicKey) {
		verr, ok := verify(label, env, pub)
		if ok && verr == nil {
			c.fail("mutated-vote-verifies", "%s: %s still verifies", label, kind)
			return
		}
		if ok {
			c.rej++
		}
	}
	for j := 0; j < 4; j++ {
		h2 := hash
		h2[rng.Intn(32)] ^= 1 << uint(rng.Intn(8))
		run.Fault("vote_hash_mutated")
		expectFail("block hash bit flipped", build(h2, sig), signer.pub)
		run.Probe("vote_hash_mutation_rejected")
	}
	run.Fault("vote_other_key")
	expectFail("verified under another key", build(hash, sig), other.pub)
	run.Fault("vote_signature_damaged")
	expectFail("signature bit flipped", build(hash, xorByte(sig, rng.Intn(len(sig)), 1<<uint(rng.Intn(8)))), signer.pub)
	run.Fault("vote_signature_damaged")
	expectFail("signature empty", build(hash, nil), signer.pub)
	return true
}
