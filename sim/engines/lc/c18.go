package lc

import (
	"strings"

	"github.com/ontio/ontology-crypto/keypair"
	"github.com/polynetwork/poly/account"
	"github.com/polynetwork/poly/core/types"

	"polysim/chain"
	"polysim/engines/e1"
	"polysim/kernel"
)

// registerC18 combines the E1 witness batch with trust-root installation attempts over the
// light-client drivers: installing a side chain's trust root must fail unless the transaction
// is witnessed by the current consensus operator.
func registerC18(names []string) {
	kernel.Register(&kernel.Check{
		ID: "C18", Level: "exploration", Engine: "E1 cluster + light-client drivers",
		Rule: e1.C18Rule + " Every fourth run installs a side chain's trust root through one light-client driver (" + strings.Join(names, ", ") +
			"): the driver's well-formed installation payload is first submitted unsigned, signed by an outsider, by one validator alone and by a too-small subset of the operator multi-signature (each must fail and write nothing), then with the operator witness (must be accepted: probe).",
		Real:        append(append([]string{}, e1.E1Real...), "header_sync SyncGenesisHeader of every router with a driver"),
		Stub:        e1.E1Stub,
		Assumptions: []string{"routers covered are those with a driver; Harmony cannot be built here"},
		QuickRuns:   128, ThoroughRuns: 6000, QuickCap: 110, ThoroughCap: 900,
		RequiredProbes: append(append([]string{}, e1.C18Probes...), "trust_root_without_operator_witness_rejected", "trust_root_with_operator_witness_installed"),
		Generate: func(rng *kernel.RNG, idx int, tier string) *kernel.Plan {
			if idx%4 != 3 {
				return e1.C18Generate(rng, idx, tier)
			}
			var steps []kernel.Step
			for _, m := range rng.Perm(4) {
				steps = append(steps, kernel.Step{Op: "install", A: []int64{int64(m), int64(rng.Intn(5))}})
			}
			steps = append(steps, kernel.Step{Op: "install", A: []int64{4, 0}})
			return &kernel.Plan{Cfg: map[string]int64{"mode": 1, "driver": int64(idx / 4), "n": int64(4 + rng.Intn(4))}, Steps: steps}
		},
		Execute: func(run *kernel.Run) {
			if run.Plan.C("mode", 0) == 0 {
				e1.ExecGov(run)
				return
			}
			ds := Drivers()
			d := ds[int(run.Plan.C("driver", 0))%len(ds)]
			kernel.InBubble(func() { execWitness(run, d) })
		},
	})
}

func execWitness(run *kernel.Run, d Driver) {
	h, err := e1.NewHarness(run, int(run.Plan.C("n", 4)), 0, 77, 60000)
	if err != nil {
		panic(err)
	}
	defer h.Close()
	c, err := d.NewChain(h, 7, run.Plan.Seed)
	if err != nil {
		run.Probe("driver_setup_failed:" + d.Name())
		return
	}
	if cl, ok := c.(interface{ Close() }); ok {
		defer cl.Close()
	}
	for i, st := range run.Plan.Steps {
		run.StepNo = i
		run.Steps++
		base := c.GenesisTx(0)
		if base == nil {
			return
		}
		// same payload, other witnesses
		raw := &types.Transaction{Version: base.Version, TxType: base.TxType, Nonce: base.Nonce + uint32(i) + 1, ChainID: base.ChainID, Payload: base.Payload}
		raw = chain.Rewire(raw)
		vals := h.Validators()
		mode := int(st.Arg(0)) % 5
		var tx *types.Transaction
		switch mode {
		case 0:
			tx = raw
		case 1:
			tx = chain.SignTx(raw, h.User(int(st.Arg(1))))
		case 2:
			tx = chain.SignTx(raw, vals[int(st.Arg(1))%len(vals)])
		case 3:
			m := len(vals) - (len(vals)-1)/3
			if m < 2 {
				continue
			}
			tx = chain.MultiSignTx(raw, m-1, pubKeys(vals), vals[:m-1]...)
		case 4:
			tx = chain.OperatorSign(raw, vals)
		}
		var wrote int
		tr, ok := h.ExecInspect(func(t []*e1.TxTrace) {
			if len(t) == 1 {
				wrote = len(t[0].Writes)
			}
		}, tx)
		if !ok || len(tr) != 1 {
			return
		}
		names := []string{"unsigned", "outsider", "one-validator", "operator-multisig-one-short", "operator"}
		run.Logf("%s trust root install signed by %s: ok=%v writes=%d", d.Name(), names[mode], tr[0].OK, wrote)
		if mode == 4 {
			if tr[0].OK {
				run.Probe("trust_root_with_operator_witness_installed")
				run.Probe("trust_root_with_operator_witness_installed:" + d.Name())
				run.Nontrivial([]byte(d.Name()))
			}
			continue
		}
		if tr[0].OK || wrote > 0 {
			run.Fail("C18", "trust-root-installed-without-operator-witness:"+d.Name(), "%s: a trust-root installation signed by %s (no consensus-operator witness) succeeded (ok=%v, %d keys written)", d.Name(), names[mode], tr[0].OK, wrote)
			return
		}
		run.Probe("trust_root_without_operator_witness_rejected")
	}
	run.Sample = map[string]interface{}{"mode": "trust-root-witness", "driver": d.Name()}
}

func pubKeys(accs []*account.Account) []keypair.PublicKey {
	var out []keypair.PublicKey
	for _, a := range accs {
		out = append(out, a.PublicKey)
	}
	return out
}
