// Package lc defines the driver interface that per-router light-client engines implement,
// and the router-generic checks built on it: C19 (trust roots installed at most once) and the
// wall-clock part of C16 (re-execution under clock jumps).
package lc

import (
	"sort"

	"github.com/polynetwork/poly/core/types"

	"polysim/engines/e1"
	"polysim/kernel"
)

// Driver simulates one side chain family well enough to produce a validly signed/linked
// trust root and follow-up headers for the router's header-sync handler.
type Driver interface {
	Name() string   // e.g. "eth", "bsc", "cosmos", "ont", "neo"
	Router() uint64 // utils.*_ROUTER
	// NewChain creates a fresh simulated side chain (keys etc. derived from seed only) and
	// registers it as side chain `chainID` on the harness (side-chain registry entry with the
	// router, BlocksToWait, CCMC address and ExtraInfo the router needs). It does NOT install
	// the trust root.
	NewChain(h *e1.Harness, chainID uint64, seed uint64) (Chain, error)
}

// Chain is one simulated side chain bound to a harness.
type Chain interface {
	// GenesisTx returns a trust-root installation transaction (header_sync "syncGenesisHeader")
	// witnessed by the current consensus operator. variant 0 = the chain's real trust root;
	// variant 1 = a different, equally well-formed trust root (other keys / other header);
	// variant 2 = the real trust root re-encoded/re-signed (same data);
	// variant 3 = a different, equally well-formed trust root at a DIFFERENT HEIGHT than the
	// installed one (e.g. above the synced tip, or below the first root); drivers for routers
	// where a height is meaningless may treat 3 like 1.
	GenesisTx(variant int) *types.Transaction
	// NextHeaders returns a transaction syncing the next k valid headers (relayer-signed),
	// advancing the simulated chain. nil if the router has no separate header sync.
	NextHeaders(k int) *types.Transaction
	// StatePrefixes lists the key prefixes (relative to the header-sync contract address, or
	// to whichever contract the router stores light-client state in) that hold this chain's
	// light-client state, as (contract address, prefix) pairs encoded contract||prefix.
	StatePrefixes() [][]byte
	// Timestamped reports whether header acceptance of this router reads the wall clock
	// (future-block check); if so FutureHeader returns a transaction syncing one otherwise
	// valid header whose timestamp is `aheadSec` seconds after time.Now() (call inside a bubble).
	FutureHeader(aheadSec int64) *types.Transaction
}

var drivers = map[string]Driver{}

// Register is called from the init() of each router engine.
func Register(d Driver) { drivers[d.Name()] = d }

func Drivers() []Driver {
	names := make([]string, 0, len(drivers))
	for n := range drivers {
		names = append(names, n)
	}
	sort.Strings(names)
	out := make([]Driver, 0, len(names))
	for _, n := range names {
		out = append(out, drivers[n])
	}
	return out
}

var _ = kernel.NewRNG
