package lc

import (
	"bytes"
	"fmt"
	"strings"

	"polysim/engines/e1"
	"polysim/kernel"
)

// Finalize registers the router-generic checks once every driver package has registered
// itself (called from engines/all.go's init, which runs after the imported packages' inits).
func Finalize() {
	if len(drivers) == 0 {
		return
	}
	var names []string
	for _, d := range Drivers() {
		names = append(names, d.Name())
	}
	registerC16(names)
	registerC18(names)
	registerC20()
	required := []string{"first_installation_succeeded", "reinstall_attempt"}
	for _, n := range names {
		required = append(required, "reinstall_attempt:"+n) // every router with a driver must be exercised in every batch
	}
	kernel.Register(&kernel.Check{
		ID: "C19", Level: "exploration", Engine: "E1 cluster + light-client drivers",
		Rule: "per run one router driver (" + strings.Join(names, ", ") + "; Harmony cannot be built here) simulates a side chain; history = first trust-root installation, then re-installation attempts " +
			"(identical data, re-encoded data, different data) interleaved with header syncs, relay-chain blocks, clean restarts and forced failures; oracle: after the first success every attempt fails and writes no light-client key of that chain; " +
			"non-trivial = a run whose first installation succeeded and which made >=2 later attempts; distinct by (driver, step outcomes)",
		Real:        []string{"header_sync entrance + the router's SyncGenesisHeader/SyncBlockHeader", "side_chain_manager registry", "ledgerstore execute/commit", "native runtime"},
		Stub:        []string{"side chains: simulated generators producing validly signed/linked trust roots and headers", "VBFT server / p2p as in E1"},
		Assumptions: []string{"routers covered are exactly those with a driver; each driver's first installation must succeed (else the run is discarded and counted as a probe)"},
		QuickRuns:   8 * len(drivers), ThoroughRuns: 300 * len(drivers), QuickCap: 120, ThoroughCap: 900,
		RequiredProbes: required,
		Generate: func(rng *kernel.RNG, idx int, tier string) *kernel.Plan {
			n := 4 + rng.Intn(3)
			steps := []kernel.Step{{Op: "genesis", A: []int64{0}}}
			for i := 0; i < 4+rng.Intn(8); i++ {
				switch rng.Intn(6) {
				case 0, 1, 2:
					steps = append(steps, kernel.Step{Op: "genesis", A: []int64{int64(rng.Intn(4)), int64(rng.Intn(2))}})
				case 3, 4:
					steps = append(steps, kernel.Step{Op: "headers", A: []int64{int64(1 + rng.Intn(3))}})
				case 5:
					steps = append(steps, kernel.Step{Op: "restart", A: []int64{int64(rng.Intn(2))}})
				}
			}
			if rng.Chance(0.15) { // a history that starts with a different genesis than the "real" one
				steps[0].A[0] = 1
			}
			return &kernel.Plan{Cfg: map[string]int64{"driver": int64(idx % len(drivers)), "n": int64(n), "net": int64([]int{77, 77, 77, 77, 1, 2}[rng.Intn(6)])}, Steps: steps}
		},
		Execute: func(run *kernel.Run) {
			ds := Drivers()
			d := ds[int(run.Plan.C("driver", 0))%len(ds)]
			kernel.InBubble(func() { execC19(run, d) })
		},
	})
}

func execC19(run *kernel.Run, d Driver) {
	h, err := e1.NewHarness(run, int(run.Plan.C("n", 4)), 1, uint32(run.Plan.C("net", 77)), 60000)
	if err != nil {
		panic(err)
	}
	defer h.Close()
	const chainID = 7
	c, err := d.NewChain(h, chainID, run.Plan.Seed)
	if err != nil {
		run.Probe("driver_setup_failed:" + d.Name())
		run.Logf("driver %s setup failed: %v", d.Name(), err)
		return
	}
	installed := false
	attempts := 0
	var sig []byte
	touches := func(t *e1.TxTrace) []string {
		var out []string
		for k := range t.Writes {
			for _, p := range c.StatePrefixes() {
				if len(k) >= 1+len(p) && bytes.HasPrefix([]byte(k[1:]), p) {
					out = append(out, fmt.Sprintf("%x", k))
				}
			}
		}
		return out
	}
	for i, st := range run.Plan.Steps {
		run.StepNo = i
		run.Steps++
		switch st.Op {
		case "genesis":
			tx := c.GenesisTx(int(st.Arg(0)) % 4)
			if tx == nil {
				continue
			}
			tr, ok := h.Exec(tx)
			if !ok || len(tr) != 1 {
				return
			}
			t := tr[0]
			run.Logf("%s genesis variant=%d ok=%v writes=%d", d.Name(), st.Arg(0)%4, t.OK, len(t.Writes))
			sig = append(sig, byte(st.Arg(0)%4), b2b(t.OK))
			if !installed {
				if t.OK {
					installed = true
					run.Probe("first_installation_succeeded")
					run.Probe("first_installation_succeeded:" + d.Name())
				} else {
					run.Probe("first_installation_failed:" + d.Name())
				}
				continue
			}
			attempts++
			run.Probe("reinstall_attempt")
			run.Probe("reinstall_attempt:" + d.Name())
			if w := touches(t); len(w) > 0 {
				run.Fail("C19", "reinstall-changed-state:"+d.Name(), "%s: re-installation attempt (variant %d) wrote light-client keys %v", d.Name(), st.Arg(0)%4, w)
				return
			}
			if t.OK {
				run.Fail("C19", "reinstall-succeeded:"+d.Name(), "%s: a later trust-root installation attempt (variant %d) succeeded", d.Name(), st.Arg(0)%4)
				return
			}
		case "headers":
			tx := c.NextHeaders(int(1 + abs(st.Arg(0))%3))
			if tx == nil {
				continue
			}
			tr, ok := h.Exec(tx)
			if !ok {
				return
			}
			if len(tr) == 1 {
				run.Logf("%s headers ok=%v", d.Name(), tr[0].OK)
				if tr[0].OK {
					run.Probe("headers_synced:" + d.Name())
				}
				sig = append(sig, 9, b2b(tr[0].OK))
			}
		case "restart":
			if err := h.Restart(int(abs(st.Arg(0)))); err != nil {
				run.Fail("C12", "clean-restart-failed", "restart failed: %v", err)
				return
			}
		}
	}
	if installed && attempts >= 2 {
		run.Nontrivial(append([]byte(d.Name()), sig...))
	}
	run.Sample = map[string]interface{}{"driver": d.Name(), "steps": len(run.Plan.Steps), "reinstall_attempts": attempts}
}

func b2b(b bool) byte {
	if b {
		return 1
	}
	return 0
}

func abs(x int64) int64 {
	if x < 0 {
		return -x
	}
	return x
}
