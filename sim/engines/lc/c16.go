package lc

import (
	"fmt"
	"strings"
	"time"

	"github.com/polynetwork/poly/core/types"

	"polysim/chain"
	"polysim/engines/e1"
	"polysim/kernel"
)

// registerC16 combines the E1 repetition/replica batch with wall-clock runs over the
// light-client drivers: the same block executed on the same prior state before and after the
// (fake) wall clock moved must give identical results.
func registerC16(names []string) {
	kernel.Register(&kernel.Check{
		ID: "C16", Level: "exploration", Engine: "E1 cluster + light-client drivers (fake clock)",
		Rule: e1.C16Rule + " Every fourth run is a wall-clock run over one light-client driver (" + strings.Join(names, ", ") +
			"): a block syncing a header whose timestamp lies 5 s .. 10 min ahead of the fake clock is executed, the clock is advanced by 1 s .. 2 h, and the same block is executed again from the same prior state; results must be identical.",
		Real:        append(append([]string{}, e1.E1Real...), "header_sync routers (wall-clock reads inside contracts)"),
		Stub:        append(append([]string{}, e1.E1Stub...), "wall clock: testing/synctest bubble clock"),
		Assumptions: []string{"the static clause 'no reachable path consults the wall clock' is decided only on the paths the workloads drive"},
		QuickRuns:   128, ThoroughRuns: 6000, QuickCap: 110, ThoroughCap: 900,
		ReplayAttempts: 12, // map-order dependence is random per execution by nature
		RequiredProbes: append(append([]string{}, e1.C16Probes...), "clock_run_compared"),
		Generate: func(rng *kernel.RNG, idx int, tier string) *kernel.Plan {
			if idx%4 != 3 {
				return e1.C16Generate(rng, idx, tier)
			}
			var steps []kernel.Step
			for i := 0; i < 3+rng.Intn(4); i++ {
				steps = append(steps, kernel.Step{Op: "future", A: []int64{
					int64([]int{5, 14, 16, 30, 120, 600}[rng.Intn(6)]), int64([]int{1, 20, 300, 7200}[rng.Intn(4)])}})
				if rng.Chance(0.5) {
					steps = append(steps, kernel.Step{Op: "headers", A: []int64{int64(1 + rng.Intn(2))}})
				}
			}
			return &kernel.Plan{Cfg: map[string]int64{"mode": 1, "driver": int64(idx / 4), "n": int64(4 + rng.Intn(3))}, Steps: steps}
		},
		Execute: func(run *kernel.Run) {
			if run.Plan.C("mode", 0) == 0 {
				e1.ExecGov(run)
				return
			}
			ds := Drivers()
			d := ds[int(run.Plan.C("driver", 0))%len(ds)]
			kernel.InBubble(func() { execClock(run, d) })
		},
	})
}

func execClock(run *kernel.Run, d Driver) {
	h, err := e1.NewHarness(run, int(run.Plan.C("n", 4)), 0, 77, 60000)
	if err != nil {
		panic(err)
	}
	defer h.Close()
	c, err := d.NewChain(h, 7, run.Plan.Seed)
	if err != nil {
		run.Probe("driver_setup_failed:" + d.Name())
		return
	}
	if cl, ok := c.(interface{ Close() }); ok {
		defer cl.Close()
	}
	if tr, ok := h.Exec(c.GenesisTx(0)); !ok || len(tr) != 1 || !tr[0].OK {
		run.Probe("first_installation_failed:" + d.Name())
		return
	}
	if tx := c.NextHeaders(2); tx != nil {
		if _, ok := h.Exec(tx); !ok {
			return
		}
	}
	compared := 0
	for i, st := range run.Plan.Steps {
		run.StepNo = i
		run.Steps++
		switch st.Op {
		case "headers":
			if tx := c.NextHeaders(int(1 + st.Arg(0)%2)); tx != nil {
				if _, ok := h.Exec(tx); !ok {
					return
				}
			}
		case "future":
			tx := c.FutureHeader(st.Arg(0))
			if tx == nil {
				run.Probe("router_without_timestamp_rule:" + d.Name())
				continue
			}
			prod := h.S.Prod()
			blk, err := prod.BuildBlock(&chain.BlockSpec{Txs: []*types.Transaction{tx}, Nonce: uint64(i)})
			if err != nil {
				panic(err)
			}
			prod.Use()
			r1, err := prod.L.ExecuteBlock(blk)
			if err != nil {
				panic(err)
			}
			kernel.Advance(time.Duration(st.Arg(1)) * time.Second)
			run.SimTimeMs += st.Arg(1) * 1000
			run.Fault("clock_advanced")
			r2, err := prod.L.ExecuteBlock(blk)
			if err != nil {
				panic(err)
			}
			compared++
			run.Probe("clock_run_compared")
			ok1 := len(r1.Notify) == 1 && r1.Notify[0].State == 1
			ok2 := len(r2.Notify) == 1 && r2.Notify[0].State == 1
			run.Logf("%s header %ds ahead: executed ok=%v, after +%ds ok=%v", d.Name(), st.Arg(0), ok1, st.Arg(1), ok2)
			if r1.Hash != r2.Hash || r1.MerkleRoot != r2.MerkleRoot || ok1 != ok2 {
				run.Fail("C16", "result-depends-on-wall-clock:"+d.Name(),
					"%s: the same block (syncing a header %d s ahead of the clock) executed on the same prior state gives success=%v digest %x, and after the wall clock advanced by %d s success=%v digest %x",
					d.Name(), st.Arg(0), ok1, r1.Hash[:6], st.Arg(1), ok2, r2.Hash[:6])
			}
		}
	}
	if compared > 0 {
		run.Nontrivial([]byte(fmt.Sprint(d.Name(), run.Plan.Steps)))
	}
	run.Sample = map[string]interface{}{"mode": "wall-clock", "driver": d.Name(), "compared": compared}
}
