package lc

import (
	"sort"
	"strings"

	"polysim/engines/e1"
	"polysim/kernel"
)

// Depositor is implemented by an engine that can produce valid deposits (cross-chain messages
// from a simulated side chain of one source-chain router) and replays of them. C20 is stated
// "for every source-chain router": lc.Finalize combines the E1 vote-router batch with one
// replay run family per registered depositor.
//
// One replay run = own world; a history of valid deposits, each followed (immediately or after
// further deposits / relay-chain blocks / restarts) by replays of an already accepted message:
// the identical transaction, the same message with another proof or at another height, and a
// re-encoding of the same message where the router's input format allows one.
//
// Oracle (reported by the engine with run.Fail("C20", "<key>:<router>", ...)):
//   - accepted-twice:<router>            a message (source chain, cross-chain id) accepted a second time
//   - replay-changed-state:<router>      a refused replay wrote state or emitted events
//   - done-mark-missing:<router>         no done mark for (chain, id) right after the acceptance
//   - done-mark-without-acceptance:<router>  a done mark exists for a message never accepted
//
// Required probes (per router): c20_deposit_accepted:<router>, c20_replay_rejected:<router>.
type Depositor interface {
	Router() string
	GenerateReplay(rng *kernel.RNG, tier string) *kernel.Plan
	ExecuteReplay(run *kernel.Run)
}

var depositors = map[string]Depositor{}

func RegisterDepositor(d Depositor) {
	if _, dup := depositors[d.Router()]; dup {
		panic("duplicate depositor " + d.Router())
	}
	depositors[d.Router()] = d
}

func Depositors() []Depositor {
	var names []string
	for n := range depositors {
		names = append(names, n)
	}
	sort.Strings(names)
	var out []Depositor
	for _, n := range names {
		out = append(out, depositors[n])
	}
	return out
}

func registerC20() {
	deps := Depositors()
	var names []string
	required := append([]string{}, e1.C20Probes...)
	for _, d := range deps {
		names = append(names, d.Router())
		required = append(required, "c20_deposit_accepted:"+d.Router(), "c20_replay_rejected:"+d.Router())
	}
	per := len(deps)
	kernel.Register(&kernel.Check{
		ID: "C20", Level: "exploration", Engine: "E1 cluster (vote router) + per-router deposit engines",
		Rule: e1.C20Rule + " Two of three runs are replay runs of one router with a deposit engine (" + strings.Join(names, ", ") +
			"): valid deposits, each replayed later as the identical transaction, with another proof/height for the same id and re-encoded; oracle per (source chain, cross-chain id): one acceptance at most, a refused replay changes nothing, done mark exactly with acceptance.",
		Real:        append(append([]string{}, e1.E1Real...), "cross_chain_manager routers' MakeDepositProposal and done-mark handling", "header_sync routers (to install the state the deposits are proven against)"),
		Stub:        append(append([]string{}, e1.E1Stub...), "side chains: simulated generators producing validly proven messages"),
		Assumptions: []string{"routers covered: vote router (E1) and " + strings.Join(names, ", ") + "; routers without a deposit engine (ripple, zilliqa, starcoin, quorum, harmony, PoSA family) are not driven"},
		QuickRuns:   96 + 16*per, ThoroughRuns: 6000, QuickCap: 110, ThoroughCap: 900,
		RequiredProbes: required,
		Generate: func(rng *kernel.RNG, idx int, tier string) *kernel.Plan {
			if per == 0 || idx%3 == 0 {
				return e1.C20Generate(rng, idx, tier)
			}
			di := (idx - idx/3 - 1) % per
			pl := deps[di].GenerateReplay(rng, tier)
			if pl.Cfg == nil {
				pl.Cfg = map[string]int64{}
			}
			pl.Cfg["c20mode"], pl.Cfg["c20dep"] = 1, int64(di)
			return pl
		},
		Execute: func(run *kernel.Run) {
			if run.Plan.C("c20mode", 0) == 0 {
				e1.ExecGov(run)
				return
			}
			ds := Depositors()
			ds[int(run.Plan.C("c20dep", 0))%len(ds)].ExecuteReplay(run)
		},
	})
}
