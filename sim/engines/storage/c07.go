package storage

import (
	"bytes"
	"encoding/binary"
	"fmt"

	pcom "github.com/polynetwork/poly/common"
	"github.com/polynetwork/poly/merkle"

	"polysim/kernel"
)

// C07: the merkle proof verifiers are sound.
//
// Proof server: a real CompactMerkleTree over T leaves (block-root tree; proofs cut by InclusionProof /
// ConsistencyProof / MerkleInclusionLeafPath) and 1-3 cross-state record lists (root by
// TreeHasher.HashFullTreeWithLeafHash, proofs by merkle.MerkleLeafPath). Verifier: a client holding
// roots. The channel between them corrupts and delays: every single mutation of every attacked proof
// is enumerated, multi-mutations are sampled.
//
// Oracle (three layers, all computed from the naive reference tree):
//   completeness  a tuple the reference tree produces must be accepted;
//   soundness     an accepted tuple must state something true at root level: the root is one the
//                 reference tree really has, and the leaf really is at that index of that tree
//                 (inclusion) / really is a record of that list (path proof) / both roots are real and
//                 the old tree is a prefix of the new one (consistency);
//   tightness     an accepted tuple that is not exactly the reference tuple must fall into one of the
//                 enumerated, explained malleability classes (counted as probes, reported):
//                 - the RFC 9162 verification algorithms (implemented here from the RFC text) accept
//                   it too: the claimed tree size only steers the left/right pattern, so a wrong size
//                   with the same pattern cannot be detected by any verifier of this proof format;
//                 - VerifyLeafHashInclusion is handed an interior node hash together with a foreign
//                   size (the hash-taking API cannot separate domains; the data-taking ones must);
//                 - consistency from size 0 / between identical heads ignores the proof (as the
//                   certificate-transparency reference code does);
//                 - MerkleProve: < 33 trailing bytes ignored, any non-zero flag means RIGHT,
//                   non-minimal length prefix of the value.
//                 Everything else is a violation; in particular VerifyConsistency accepting equal
//                 roots for DIFFERENT sizes (key consistency-equal-roots-ignores-sizes).

type inclTuple struct {
	leaf     []byte // data-taking API input (nil when only the hash API applies)
	leafHash hash32
	hashOnly bool
	index    uint32
	size     uint32
	path     []hash32
	root     hash32
}

func (t inclTuple) clone() inclTuple {
	c := t
	c.leaf = clone(t.leaf)
	c.path = append([]hash32(nil), t.path...)
	return c
}

type consTuple struct {
	m, n   uint32
	ro, rn hash32
	proof  []hash32
}

func (t consTuple) clone() consTuple {
	c := t
	c.proof = append([]hash32(nil), t.proof...)
	return c
}

type recList struct {
	recs   [][]byte
	ref    *refTree
	root   hash32
	inter  map[hash32]bool
}

type c07World struct {
	run      *kernel.Run
	T        int
	ref      *refTree
	tree     *merkle.CompactMerkleTree
	ver      *merkle.MerkleVerifier
	rootSize map[hash32]int
	interior map[int]map[hash32]bool
	lists    []*recList
	evals    int
	accepted int
	rejected int
	sig      sigAcc
	kinds    map[string]bool
	knownEq  bool // equal-roots finding already recorded in this run
}

func (w *c07World) fail(key, format string, a ...interface{}) bool {
	w.run.Fail("C07", key, format, a...)
	return false
}

func (w *c07World) countFault(kind, label string) {
	if label != "genuine" {
		w.run.Faults[kind+":"+label]++
	}
}

func (w *c07World) interiorOf(n int) map[hash32]bool {
	if m, ok := w.interior[n]; ok {
		return m
	}
	m := w.ref.interiorHashes(n)
	w.interior[n] = m
	return m
}

// ---- inclusion -----------------------------------------------------------------------------------

func (w *c07World) polyIncl(tp inclTuple, hashAPI bool) (accept bool, ok bool) {
	ok = guard(w.run, "C07", "inclusion verifier", func() {
		var err error
		if hashAPI {
			err = w.ver.VerifyLeafHashInclusion(pcom.Uint256(tp.leafHash), tp.index, toU256(tp.path), pcom.Uint256(tp.root), tp.size)
		} else {
			err = w.ver.VerifyLeafInclusion(tp.leaf, tp.index, toU256(tp.path), pcom.Uint256(tp.root), tp.size)
		}
		accept = err == nil
	})
	return
}

func (w *c07World) judgeIncl(label string, tp inclTuple) bool {
	apis := []bool{true}
	if !tp.hashOnly {
		apis = []bool{false, true}
		tp.leafHash = refLeafHash(tp.leaf)
	}
	T := uint32(w.T)
	genuine := tp.size <= T && tp.index < tp.size && tp.root == w.ref.root(int(tp.size)) && tp.leafHash == w.ref.lh[tp.index]
	if genuine {
		p, _ := w.ref.path(int(tp.index), int(tp.size))
		genuine = hashesEqual(p, tp.path)
	}
	rfc := rfcVerifyInclusion(tp.leafHash, uint64(tp.index), uint64(tp.size), tp.path, tp.root)
	if genuine && !rfc {
		panic("model bug: RFC 9162 inclusion verifier rejects a reference tuple")
	}
	for _, hashAPI := range apis {
		w.evals++
		accept, ok := w.polyIncl(tp, hashAPI)
		if !ok {
			return false
		}
		w.sig.add("%s:%v", label, accept)
		what := fmt.Sprintf("%s [api=%s leaf=%s index=%d size=%d pathlen=%d root=%x..]", label, map[bool]string{true: "VerifyLeafHashInclusion", false: "VerifyLeafInclusion"}[hashAPI], short(tp.leaf), tp.index, tp.size, len(tp.path), tp.root[:4])
		if genuine && !accept {
			return w.fail("inclusion-rejects-genuine", "%s: a tuple the reference tree produces is rejected", what)
		}
		if !accept {
			w.rejected++
			continue
		}
		w.accepted++
		if genuine {
			w.run.Probe("incl_genuine_accepted")
			continue
		}
		if !rfc {
			return w.fail("inclusion-accepts-beyond-rfc9162", "%s: accepted, but it is not a reference tuple and the RFC 9162 verification algorithm rejects it", what)
		}
		s, known := w.rootSize[tp.root]
		if !known {
			return w.fail("inclusion-accepts-unknown-root", "%s: accepted against a root that no prefix of the reference tree has", what)
		}
		if int(tp.size) != s {
			// The claimed size is not the size of the tree the root commits to. Then (index, size) only steer
			// the left/right pattern; the tuple is the inherent malleability of RFC 6962 audit paths iff the
			// leaf really is in the committed tree with exactly this path (at index i*, possibly != index).
			inherent := false
			for i := 0; i < s && !inherent; i++ {
				if w.ref.lh[i] == tp.leafHash {
					if p, _ := w.ref.path(i, s); hashesEqual(p, tp.path) {
						inherent = true
						if uint32(i) != tp.index {
							w.run.Probe("incl_foreign_size_index_also_unbound_accepted(inherent)")
						}
					}
				}
			}
			if inherent {
				w.run.Probe("incl_wrong_size_same_shape_accepted(inherent)")
				continue
			}
		}
		if hashAPI && int(tp.size) != s && w.interiorOf(s)[tp.leafHash] {
			w.run.Probe("incl_hashapi_interior_node_with_foreign_size_accepted")
			continue
		}
		return w.fail("inclusion-accepts-false-statement", "%s: accepted, but the tree with that root (size %d) does not have this leaf at this index with this path", what, s)
	}
	return true
}

func flipBit(h hash32, bit int) hash32 {
	h[(bit/8)%32] ^= 1 << uint(bit%8)
	return h
}

func (w *c07World) baseIncl(m, n int) inclTuple {
	p, _ := w.ref.path(m, n)
	return inclTuple{leaf: clone(w.ref.leaves[m]), leafHash: w.ref.lh[m], index: uint32(m), size: uint32(n), path: p, root: w.ref.root(n)}
}

// inclMutants enumerates every single mutation of the inclusion tuple (m, n).
func (w *c07World) inclMutants(m, n int, emit func(label string, tp inclTuple) bool) bool {
	base := w.baseIncl(m, n)
	L := len(base.path)
	T := w.T
	mut := func(label string, f func(tp *inclTuple)) bool {
		tp := base.clone()
		f(&tp)
		return emit(label, tp)
	}
	if !emit("genuine", base.clone()) {
		return false
	}
	// A. path elements
	for i := 0; i < L; i++ {
		for _, b := range []int{0, 100 + i, 255} {
			if !mut("path-flip", func(tp *inclTuple) { tp.path[i] = flipBit(tp.path[i], b) }) {
				return false
			}
		}
		if !mut("path-drop", func(tp *inclTuple) { tp.path = append(tp.path[:i:i], tp.path[i+1:]...) }) {
			return false
		}
		if !mut("path-dup", func(tp *inclTuple) {
			tp.path = append(tp.path[:i+1:i+1], tp.path[i:]...)
		}) {
			return false
		}
		for j := i + 1; j < L; j++ {
			if !mut("path-swap", func(tp *inclTuple) { tp.path[i], tp.path[j] = tp.path[j], tp.path[i] }) {
				return false
			}
		}
		if !mut("path-truncate", func(tp *inclTuple) { tp.path = tp.path[:i] }) {
			return false
		}
	}
	extras := []hash32{{}, base.root, base.leafHash, refLeafHash([]byte("extra"))}
	if L > 0 {
		extras = append(extras, base.path[L-1], base.path[0])
	}
	for _, e := range extras {
		if !mut("path-extra-tail", func(tp *inclTuple) { tp.path = append(tp.path, e) }) {
			return false
		}
		if !mut("path-extra-head", func(tp *inclTuple) { tp.path = append([]hash32{e}, tp.path...) }) {
			return false
		}
	}
	if L > 1 {
		if !mut("path-reverse", func(tp *inclTuple) {
			for a, b := 0, L-1; a < b; a, b = a+1, b-1 {
				tp.path[a], tp.path[b] = tp.path[b], tp.path[a]
			}
		}) {
			return false
		}
	}
	// delay: the proof was cut for another tree size / another leaf than the client asks about
	for n2 := m + 1; n2 <= T; n2++ {
		if n2 != n {
			if !mut("delay-proof-for-other-size", func(tp *inclTuple) { tp.path, _ = w.ref.path(m, n2) }) {
				return false
			}
		}
	}
	for m2 := 0; m2 < n; m2++ {
		if m2 != m {
			if !mut("proof-of-other-leaf", func(tp *inclTuple) { tp.path, _ = w.ref.path(m2, n) }) {
				return false
			}
		}
	}
	// B. index
	idx := []uint32{uint32(m) + 1, uint32(m) - 1, uint32(n), uint32(n) - 1, 0, uint32(m) + uint32(n)}
	for j := uint(0); (1 << j) <= 2*T; j++ {
		idx = append(idx, uint32(m)^(1<<j))
	}
	for _, x := range idx {
		if x != uint32(m) {
			if !mut("index-altered", func(tp *inclTuple) { tp.index = x }) {
				return false
			}
		}
	}
	// C. leaf
	for j := 0; j < T; j++ {
		if j != m {
			if !mut("leaf-swapped", func(tp *inclTuple) { tp.leaf = clone(w.ref.leaves[j]) }) {
				return false
			}
		}
	}
	if len(base.leaf) > 0 {
		if !mut("leaf-flip", func(tp *inclTuple) { tp.leaf[0] ^= 1 }) || !mut("leaf-flip", func(tp *inclTuple) { tp.leaf[len(tp.leaf)-1] ^= 0x80 }) ||
			!mut("leaf-truncated", func(tp *inclTuple) { tp.leaf = tp.leaf[:len(tp.leaf)-1] }) {
			return false
		}
	}
	if !mut("leaf-extended", func(tp *inclTuple) { tp.leaf = append(tp.leaf, 0) }) || !mut("leaf-prefixed", func(tp *inclTuple) { tp.leaf = append([]byte{0}, tp.leaf...) }) ||
		!mut("leaf-is-leafhash", func(tp *inclTuple) { tp.leaf = base.leafHash[:] }) {
		return false
	}
	// interior node presented as leaf (and the hash API handed an interior hash)
	anc := w.ref.ancestors(m, n)
	for j, a := range anc {
		lvl := uint(j + 1)
		shrunk := (uint32(n) + (1 << lvl) - 1) >> lvl
		lr := append(append([]byte{}, a[0][:]...), a[1][:]...)
		for _, variant := range []struct {
			idx  uint32
			size uint32
			cut  int
		}{{uint32(m), uint32(n), 0}, {uint32(m) >> lvl, uint32(n), j + 1}, {uint32(m) >> lvl, shrunk, j + 1}} {
			v := variant
			if !mut("interior-as-leaf-data", func(tp *inclTuple) { tp.leaf, tp.index, tp.size, tp.path = clone(lr), v.idx, v.size, tp.path[v.cut:] }) ||
				!mut("interior-preimage-as-leaf-data", func(tp *inclTuple) {
					tp.leaf, tp.index, tp.size, tp.path = append([]byte{1}, lr...), v.idx, v.size, tp.path[v.cut:]
				}) ||
				!mut("interior-hash-as-leafhash", func(tp *inclTuple) {
					tp.hashOnly, tp.leaf, tp.leafHash, tp.index, tp.size, tp.path = true, nil, a[2], v.idx, v.size, tp.path[v.cut:]
				}) {
				return false
			}
		}
	}
	// D. size (head field altered / client asks about another size with the same root)
	sizes := []uint32{uint32(2 * n), uint32(n) | 1<<30}
	for s := 0; s <= T+2; s++ {
		sizes = append(sizes, uint32(s))
	}
	for _, s := range sizes {
		if s != uint32(n) {
			if !mut("size-altered", func(tp *inclTuple) { tp.size = s }) {
				return false
			}
		}
	}
	// E. root: flipped, or the genuine root of another size (delay: client is at another height)
	for _, b := range []int{0, 77, 255} {
		if !mut("root-flip", func(tp *inclTuple) { tp.root = flipBit(tp.root, b) }) {
			return false
		}
	}
	for s := 0; s <= T; s++ {
		if s != n {
			if !mut("delay-root-of-other-size", func(tp *inclTuple) { tp.root = w.ref.root(s) }) {
				return false
			}
			// the client is consistently at another size: root and size of s, proof cut for n
			if s > m {
				if !mut("delay-client-at-other-size", func(tp *inclTuple) { tp.root, tp.size = w.ref.root(s), uint32(s) }) {
					return false
				}
			}
		}
	}
	if !mut("root-is-leafhash", func(tp *inclTuple) { tp.root = base.leafHash }) || !mut("root-zero", func(tp *inclTuple) { tp.root = hash32{} }) {
		return false
	}
	return true
}

func (w *c07World) randIncl(rng *kernel.RNG, tp *inclTuple) string {
	T := w.T
	switch rng.Intn(12) {
	case 0:
		if len(tp.path) > 0 {
			i := rng.Intn(len(tp.path))
			tp.path[i] = flipBit(tp.path[i], rng.Intn(256))
		}
		return "flip"
	case 1:
		if len(tp.path) > 0 {
			i := rng.Intn(len(tp.path))
			tp.path = append(tp.path[:i:i], tp.path[i+1:]...)
		}
		return "drop"
	case 2:
		if len(tp.path) > 0 {
			i := rng.Intn(len(tp.path))
			tp.path = append(tp.path[:i+1:i+1], tp.path[i:]...)
		}
		return "dup"
	case 3:
		if len(tp.path) > 1 {
			i, j := rng.Intn(len(tp.path)), rng.Intn(len(tp.path))
			tp.path[i], tp.path[j] = tp.path[j], tp.path[i]
		}
		return "swap"
	case 4:
		tp.index += uint32(rng.Intn(5)) - 2
		return "index"
	case 5:
		tp.size += uint32(rng.Intn(5)) - 2
		return "size"
	case 6:
		if !tp.hashOnly {
			tp.leaf = clone(w.ref.leaves[rng.Intn(T)])
		}
		return "leaf"
	case 7:
		tp.root = w.ref.root(rng.Intn(T + 1))
		return "root-other"
	case 8:
		n2 := 1 + rng.Intn(T)
		tp.path, _ = w.ref.path(rng.Intn(n2), n2)
		return "path-other"
	case 9:
		// consistent shift to another genuine statement with one field left behind
		n2 := 1 + rng.Intn(T)
		m2 := rng.Intn(n2)
		nb := w.baseIncl(m2, n2)
		keep := rng.Intn(4)
		switch keep {
		case 0:
			nb.path = tp.path
		case 1:
			nb.root = tp.root
		case 2:
			nb.index = tp.index
		default:
			nb.size = tp.size
		}
		*tp = nb
		return "shift"
	case 10:
		if int(tp.index) < T && int(tp.size) <= T && tp.index < tp.size {
			anc := w.ref.ancestors(int(tp.index), int(tp.size))
			if len(anc) > 0 {
				j := rng.Intn(len(anc))
				lvl := uint(j + 1)
				tp.hashOnly, tp.leaf, tp.leafHash = true, nil, anc[j][2]
				tp.index >>= lvl
				if len(tp.path) > j {
					tp.path = tp.path[j+1:]
				}
				if rng.Chance(0.5) {
					tp.size = (tp.size + (1 << lvl) - 1) >> lvl
				}
			}
		}
		return "interior"
	default:
		tp.root = flipBit(tp.root, rng.Intn(256))
		return "root-flip"
	}
}

// ---- consistency ----------------------------------------------------------------------------------

func (w *c07World) polyCons(tp consTuple) (accept bool, ok bool) {
	ok = guard(w.run, "C07", "VerifyConsistency", func() {
		accept = w.ver.VerifyConsistency(tp.m, tp.n, pcom.Uint256(tp.ro), pcom.Uint256(tp.rn), toU256(tp.proof)) == nil
	})
	return
}

func (w *c07World) judgeCons(label string, tp consTuple) bool {
	w.evals++
	T := uint32(w.T)
	genuine := tp.m >= 1 && tp.m <= tp.n && tp.n <= T && tp.ro == w.ref.root(int(tp.m)) && tp.rn == w.ref.root(int(tp.n)) &&
		hashesEqual(tp.proof, w.ref.proof(int(tp.m), int(tp.n)))
	rfc, defined := rfcVerifyConsistency(uint64(tp.m), uint64(tp.n), tp.ro, tp.rn, tp.proof)
	if genuine && !rfc {
		panic("model bug: RFC 9162 consistency verifier rejects a reference tuple")
	}
	accept, ok := w.polyCons(tp)
	if !ok {
		return false
	}
	w.sig.add("%s:%v", label, accept)
	what := fmt.Sprintf("%s [old=%d new=%d old_root=%x.. new_root=%x.. prooflen=%d]", label, tp.m, tp.n, tp.ro[:4], tp.rn[:4], len(tp.proof))
	if genuine && !accept {
		return w.fail("consistency-rejects-genuine", "%s: a tuple the reference tree produces is rejected", what)
	}
	if !accept {
		w.rejected++
		return true
	}
	w.accepted++
	if genuine {
		w.run.Probe("cons_genuine_accepted")
		return true
	}
	if tp.m > tp.n {
		return w.fail("consistency-accepts-shrinking-tree", "%s: accepted although the old size exceeds the new size", what)
	}
	if tp.m == 0 {
		// nothing to be consistent with; RFC 6962 does not define a proof from the empty tree
		w.run.Probe("cons_from_size_0_accepts_anything(ct-reference-behaviour)")
		return true
	}
	if tp.ro == tp.rn {
		if tp.m == tp.n {
			w.run.Probe("cons_identical_heads_proof_ignored(ct-reference-behaviour)")
			return true
		}
		// equal roots, different sizes: no tree of the new size extends the old tree and keeps its root
		if !w.knownEq {
			w.knownEq = true
			w.run.Probe("cons_equal_roots_different_sizes_accepted")
			w.fail("consistency-equal-roots-ignores-sizes", "%s: VerifyConsistency accepts whenever old_root == new_root, whatever the two sizes and the proof are; the RFC 9162 algorithm rejects this tuple (accept=%v)", what, rfc)
		}
		return true // recorded once per run; the run goes on so that other violations are not masked
	}
	if defined && !rfc {
		return w.fail("consistency-accepts-beyond-rfc9162", "%s: accepted, but it is not a reference tuple and the RFC 9162 verification algorithm rejects it", what)
	}
	s1, k1 := w.rootSize[tp.ro]
	s2, k2 := w.rootSize[tp.rn]
	if !k1 || !k2 || s1 > s2 {
		return w.fail("consistency-accepts-false-heads", "%s: accepted, but the roots are not those of two prefixes (old <= new) of the reference tree", what)
	}
	if hashesEqual(tp.proof, w.ref.proof(s1, s2)) && (int(tp.m) != s1 || int(tp.n) != s2) {
		w.run.Probe("cons_wrong_size_same_shape_accepted(inherent)")
		return true
	}
	return w.fail("consistency-accepts-nongenuine-proof", "%s: accepted with a proof that is not the reference proof between the two roots' real sizes (%d,%d)", what, s1, s2)
}

func (w *c07World) baseCons(m, n int) consTuple {
	return consTuple{m: uint32(m), n: uint32(n), ro: w.ref.root(m), rn: w.ref.root(n), proof: w.ref.proof(m, n)}
}

func (w *c07World) consMutants(m, n int, emit func(label string, tp consTuple) bool) bool {
	base := w.baseCons(m, n)
	L := len(base.proof)
	T := w.T
	mut := func(label string, f func(tp *consTuple)) bool {
		tp := base.clone()
		f(&tp)
		return emit(label, tp)
	}
	if !emit("genuine", base.clone()) {
		return false
	}
	for i := 0; i < L; i++ {
		for _, b := range []int{0, 100 + i, 255} {
			if !mut("proof-flip", func(tp *consTuple) { tp.proof[i] = flipBit(tp.proof[i], b) }) {
				return false
			}
		}
		if !mut("proof-drop", func(tp *consTuple) { tp.proof = append(tp.proof[:i:i], tp.proof[i+1:]...) }) ||
			!mut("proof-dup", func(tp *consTuple) { tp.proof = append(tp.proof[:i+1:i+1], tp.proof[i:]...) }) ||
			!mut("proof-truncate", func(tp *consTuple) { tp.proof = tp.proof[:i] }) {
			return false
		}
		for j := i + 1; j < L; j++ {
			if !mut("proof-swap", func(tp *consTuple) { tp.proof[i], tp.proof[j] = tp.proof[j], tp.proof[i] }) {
				return false
			}
		}
	}
	for _, e := range []hash32{{}, base.ro, base.rn, refLeafHash([]byte("extra"))} {
		if !mut("proof-extra-tail", func(tp *consTuple) { tp.proof = append(tp.proof, e) }) ||
			!mut("proof-extra-head", func(tp *consTuple) { tp.proof = append([]hash32{e}, tp.proof...) }) {
			return false
		}
	}
	if L > 1 {
		if !mut("proof-reverse", func(tp *consTuple) {
			for a, b := 0, L-1; a < b; a, b = a+1, b-1 {
				tp.proof[a], tp.proof[b] = tp.proof[b], tp.proof[a]
			}
		}) {
			return false
		}
	}
	// delay: proof cut for other sizes
	for n2 := 1; n2 <= T; n2++ {
		for m2 := 1; m2 <= n2; m2++ {
			if (m2 != m || n2 != n) && (T <= 12 || m2 == m || n2 == n || m2 == n2 || n2-m2 == n-m) {
				if !mut("delay-proof-for-other-sizes", func(tp *consTuple) { tp.proof = w.ref.proof(m2, n2) }) {
					return false
				}
			}
		}
	}
	// sizes altered
	for s := 0; s <= T+2; s++ {
		if s != m {
			if !mut("old-size-altered", func(tp *consTuple) { tp.m = uint32(s) }) {
				return false
			}
		}
		if s != n {
			if !mut("new-size-altered", func(tp *consTuple) { tp.n = uint32(s) }) {
				return false
			}
		}
	}
	if !mut("sizes-swapped", func(tp *consTuple) { tp.m, tp.n = tp.n, tp.m }) || !mut("both-sizes+1", func(tp *consTuple) { tp.m++; tp.n++ }) ||
		!mut("both-sizes-1", func(tp *consTuple) { tp.m--; tp.n-- }) {
		return false
	}
	// roots
	for _, b := range []int{0, 77, 255} {
		if !mut("old-root-flip", func(tp *consTuple) { tp.ro = flipBit(tp.ro, b) }) || !mut("new-root-flip", func(tp *consTuple) { tp.rn = flipBit(tp.rn, b) }) {
			return false
		}
	}
	for s := 0; s <= T; s++ {
		if s != m {
			if !mut("delay-old-root-of-other-size", func(tp *consTuple) { tp.ro = w.ref.root(s) }) {
				return false
			}
		}
		if s != n {
			if !mut("delay-new-root-of-other-size", func(tp *consTuple) { tp.rn = w.ref.root(s) }) {
				return false
			}
		}
	}
	if !mut("roots-swapped", func(tp *consTuple) { tp.ro, tp.rn = tp.rn, tp.ro }) ||
		!mut("new-root-is-old-root", func(tp *consTuple) { tp.rn = tp.ro }) || !mut("old-root-is-new-root", func(tp *consTuple) { tp.ro = tp.rn }) ||
		!mut("new-root-is-old-root-no-proof", func(tp *consTuple) { tp.rn, tp.proof = tp.ro, nil }) {
		return false
	}
	return true
}

func (w *c07World) randCons(rng *kernel.RNG, tp *consTuple) string {
	T := w.T
	switch rng.Intn(10) {
	case 0:
		if len(tp.proof) > 0 {
			i := rng.Intn(len(tp.proof))
			tp.proof[i] = flipBit(tp.proof[i], rng.Intn(256))
		}
		return "flip"
	case 1:
		if len(tp.proof) > 0 {
			i := rng.Intn(len(tp.proof))
			tp.proof = append(tp.proof[:i:i], tp.proof[i+1:]...)
		}
		return "drop"
	case 2:
		if len(tp.proof) > 0 {
			i := rng.Intn(len(tp.proof))
			tp.proof = append(tp.proof[:i+1:i+1], tp.proof[i:]...)
		}
		return "dup"
	case 3:
		if len(tp.proof) > 1 {
			i, j := rng.Intn(len(tp.proof)), rng.Intn(len(tp.proof))
			tp.proof[i], tp.proof[j] = tp.proof[j], tp.proof[i]
		}
		return "swap"
	case 4:
		tp.m += uint32(rng.Intn(5)) - 2
		return "old"
	case 5:
		tp.n += uint32(rng.Intn(5)) - 2
		return "new"
	case 6:
		tp.ro = w.ref.root(rng.Intn(T + 1))
		return "old-root"
	case 7:
		tp.rn = w.ref.root(rng.Intn(T + 1))
		return "new-root"
	case 8:
		n2 := 1 + rng.Intn(T)
		tp.proof = w.ref.proof(1+rng.Intn(n2), n2)
		return "proof-other"
	default:
		n2 := 1 + rng.Intn(T)
		nb := w.baseCons(1+rng.Intn(n2), n2)
		switch rng.Intn(4) {
		case 0:
			nb.proof = tp.proof
		case 1:
			nb.rn = tp.rn
		case 2:
			nb.ro = tp.ro
		default:
			nb.m = tp.m
		}
		*tp = nb
		return "shift"
	}
}

// ---- path proofs (MerkleProve) --------------------------------------------------------------------

// parsePath is the harness' own strict reader of the leaf-path format (for classification only).
type parsedPath struct {
	value     []byte
	lenCanon  bool
	flags     []byte
	hashes    []hash32
	trailing  int
	ok        bool
}

func parsePath(b []byte) (p parsedPath) {
	if len(b) == 0 {
		return
	}
	var n uint64
	off := 1
	switch b[0] {
	case 0xfd:
		if len(b) < 3 {
			return
		}
		n, off = uint64(binary.LittleEndian.Uint16(b[1:])), 3
		p.lenCanon = n >= 0xfd
	case 0xfe:
		if len(b) < 5 {
			return
		}
		n, off = uint64(binary.LittleEndian.Uint32(b[1:])), 5
		p.lenCanon = n > 0xffff
	case 0xff:
		if len(b) < 9 {
			return
		}
		n, off = binary.LittleEndian.Uint64(b[1:]), 9
		p.lenCanon = n > 0xffffffff
	default:
		n = uint64(b[0])
		p.lenCanon = true
	}
	if n > uint64(len(b)-off) {
		return
	}
	p.value = b[off : off+int(n)]
	rest := b[off+int(n):]
	for len(rest) >= 33 {
		p.flags = append(p.flags, rest[0])
		var h hash32
		copy(h[:], rest[1:33])
		p.hashes = append(p.hashes, h)
		rest = rest[33:]
	}
	p.trailing = len(rest)
	p.ok = true
	return
}

func (l *recList) genuinePath(idx int) []byte {
	p, d := l.ref.path(idx, l.ref.size())
	return refPathBytes(l.recs[idx], p, d)
}

func (w *c07World) judgeMP(label string, path []byte, root []byte) bool {
	w.evals++
	var val []byte
	var err error
	if !guard(w.run, "C07", "MerkleProve", func() { val, err = merkle.MerkleProve(clone(path), clone(root)) }) {
		return false
	}
	accept := err == nil
	w.sig.add("%s:%v", label, accept)
	// which list does the root commit to?
	var list *recList
	for _, l := range w.lists {
		if bytes.Equal(root, l.root[:]) {
			list = l
		}
	}
	genuine := false
	if list != nil {
		for i := range list.recs {
			if bytes.Equal(path, list.genuinePath(i)) {
				genuine = true
			}
		}
	}
	what := fmt.Sprintf("%s [path %d bytes %x.., root %x]", label, len(path), path[:min(len(path), 12)], root)
	if genuine && !accept {
		return w.fail("merkleprove-rejects-genuine", "%s: a path the reference tree produces is rejected: %v", what, err)
	}
	if !accept {
		w.rejected++
		return true
	}
	w.accepted++
	pp := parsePath(path)
	if !pp.ok || !bytes.Equal(val, pp.value) {
		return w.fail("merkleprove-returns-other-value", "%s: accepted and returned %s, but the path encodes value %s", what, short(val), short(pp.value))
	}
	if list == nil {
		return w.fail("merkleprove-accepts-unknown-root", "%s: accepted against a root that commits to none of the record lists", what)
	}
	member := -1
	for i, r := range list.recs {
		if bytes.Equal(r, val) {
			member = i
			break
		}
	}
	if member < 0 {
		return w.fail("merkleprove-accepts-non-member", "%s: accepted value %s which is not a record of the list committed to by the root", what, short(val))
	}
	if genuine {
		w.run.Probe("mp_genuine_accepted")
		return true
	}
	// accepted, true statement, but not the reference bytes: must be an explained malleability class
	var classes []string
	norm := pcom.NewZeroCopySink(nil)
	norm.WriteVarBytes(pp.value)
	if !pp.lenCanon {
		classes = append(classes, "mp_nonminimal_length_prefix_accepted")
	}
	flagNorm := false
	for i := range pp.hashes {
		f := pp.flags[i]
		if f != merkle.LEFT && f != merkle.RIGHT {
			f, flagNorm = merkle.RIGHT, true
		}
		norm.WriteByte(f)
		norm.WriteBytes(pp.hashes[i][:])
	}
	if flagNorm {
		classes = append(classes, "mp_nonzero_flag_means_right_accepted")
	}
	if pp.trailing > 0 {
		classes = append(classes, "mp_trailing_bytes_ignored_accepted")
	}
	isGen := false
	for i := range list.recs {
		if bytes.Equal(norm.Bytes(), list.genuinePath(i)) {
			isGen = true
		}
	}
	if !isGen || len(classes) == 0 {
		return w.fail("merkleprove-accepts-nongenuine-path", "%s: accepted a path for member %s that is not a reference path even after dropping trailing bytes and normalising flags/length prefix", what, short(val))
	}
	for _, c := range classes {
		w.run.Probe(c)
	}
	return true
}

func varPrefix(kind int, n int) []byte {
	switch kind {
	case 0:
		b := []byte{0xfd, 0, 0}
		binary.LittleEndian.PutUint16(b[1:], uint16(n))
		return b
	case 1:
		b := []byte{0xfe, 0, 0, 0, 0}
		binary.LittleEndian.PutUint32(b[1:], uint32(n))
		return b
	default:
		b := []byte{0xff, 0, 0, 0, 0, 0, 0, 0, 0}
		binary.LittleEndian.PutUint64(b[1:], uint64(n))
		return b
	}
}

func (w *c07World) mpMutants(li, idx int, emit func(label string, path, root []byte) bool) bool {
	l := w.lists[li]
	base := l.genuinePath(idx)
	root := l.root[:]
	pp := parsePath(base)
	vlen := len(pp.value)
	hdr := len(base) - 33*len(pp.hashes) - vlen // length prefix bytes
	elem := func(i int) []byte { return base[hdr+vlen+33*i : hdr+vlen+33*(i+1)] }
	k := len(pp.hashes)
	build := func(value []byte, elems [][]byte) []byte {
		s := pcom.NewZeroCopySink(nil)
		s.WriteVarBytes(value)
		for _, e := range elems {
			s.WriteBytes(e)
		}
		return s.Bytes()
	}
	elems := func() [][]byte {
		out := make([][]byte, k)
		for i := range out {
			out[i] = clone(elem(i))
		}
		return out
	}
	if !emit("genuine", base, root) {
		return false
	}
	// A. truncation at every byte
	for n := 0; n < len(base); n++ {
		if !emit("truncated", base[:n], root) {
			return false
		}
	}
	// B. trailing bytes
	for _, t := range [][]byte{{0}, {1}, make([]byte, 16), make([]byte, 32), bytes.Repeat([]byte{0xff}, 32), make([]byte, 33), append([]byte{merkle.RIGHT}, l.root[:]...), make([]byte, 34), make([]byte, 65)} {
		if !emit("trailing-bytes", append(clone(base), t...), root) {
			return false
		}
	}
	// C/D/E. elements
	for i := 0; i < k; i++ {
		for _, f := range []byte{0, 1, 2, 3, 0x80, 0xff} {
			if f != elem(i)[0] {
				e := elems()
				e[i][0] = f
				if !emit("flag-altered", build(pp.value, e), root) {
					return false
				}
			}
		}
		for _, b := range []int{8, 9 + i, 33*8 - 1} {
			e := elems()
			e[i][b/8] ^= 1 << uint(b%8)
			if !emit("hash-flip", build(pp.value, e), root) {
				return false
			}
		}
		e := elems()
		if !emit("elem-drop", build(pp.value, append(e[:i:i], e[i+1:]...)), root) {
			return false
		}
		e = elems()
		if !emit("elem-dup", build(pp.value, append(e[:i+1:i+1], e[i:]...)), root) {
			return false
		}
		for j := i + 1; j < k; j++ {
			e := elems()
			e[i], e[j] = e[j], e[i]
			if !emit("elem-swap", build(pp.value, e), root) {
				return false
			}
		}
	}
	// F. value
	for j, r := range l.recs {
		if j != idx {
			if !emit("value-swapped", build(r, elems()), root) {
				return false
			}
			if !emit("path-of-other-record", l.genuinePath(j), root) { // genuine for that record
				return false
			}
		}
	}
	if vlen > 0 {
		v := clone(pp.value)
		v[0] ^= 1
		if !emit("value-flip", build(v, elems()), root) || !emit("value-shortened", build(pp.value[:vlen-1], elems()), root) {
			return false
		}
		// length prefix off by one without moving bytes
		if hdr == 1 {
			for _, d := range []int{-1, 1} {
				b := clone(base)
				b[0] = byte(int(b[0]) + d)
				if !emit("length-prefix-off-by-one", b, root) {
					return false
				}
			}
		}
	}
	if !emit("value-extended", build(append(clone(pp.value), 0), elems()), root) || !emit("value-is-leafhash", build(l.ref.lh[idx][:], elems()), root) {
		return false
	}
	// G. non-minimal length prefixes
	for kind := 0; kind < 3; kind++ {
		b := append(varPrefix(kind, vlen), base[hdr:]...)
		if !emit("nonminimal-length-prefix", b, root) {
			return false
		}
	}
	// H. interior node presented as leaf value
	anc := l.ref.ancestors(idx, l.ref.size())
	for j, a := range anc {
		lr := append(append([]byte{}, a[0][:]...), a[1][:]...)
		if !emit("interior-as-leaf-value", build(lr, elems()[j+1:]), root) || !emit("interior-preimage-as-leaf-value", build(append([]byte{1}, lr...), elems()[j+1:]), root) ||
			!emit("interior-hash-as-leaf-value", build(a[2][:], elems()[j+1:]), root) {
			return false
		}
	}
	// I. a 64-byte record that is the concatenation of two leaf hashes: pass its halves' preimages off
	// as its children (a leaf treated as an interior node)
	for x, r := range l.recs {
		if len(r) != 64 {
			continue
		}
		for j, o := range l.recs {
			var sib []byte
			if bytes.Equal(r[:32], l.ref.lh[j][:]) {
				sib = append([]byte{merkle.RIGHT}, r[32:]...)
			} else if bytes.Equal(r[32:], l.ref.lh[j][:]) {
				sib = append([]byte{merkle.LEFT}, r[:32]...)
			} else {
				continue
			}
			gx := l.genuinePath(x)
			px := parsePath(gx)
			tail := gx[len(gx)-33*len(px.hashes):]
			s := pcom.NewZeroCopySink(nil)
			s.WriteVarBytes(o)
			s.WriteBytes(sib)
			s.WriteBytes(tail)
			w.run.Probe("mp_leaf_as_interior_attack_built")
			if !emit("leaf-as-interior", s.Bytes(), root) {
				return false
			}
		}
	}
	// J. root
	for _, b := range []int{0, 77, 255} {
		r := l.root
		r = flipBit(r, b)
		if !emit("root-flip", base, r[:]) {
			return false
		}
	}
	for j, o := range w.lists {
		if j != li {
			if !emit("delay-root-of-other-block", base, o.root[:]) {
				return false
			}
		}
	}
	if !emit("root-short", base, root[:31]) || !emit("root-long", base, append(clone(root), 0)) || !emit("root-nil", base, nil) || !emit("root-is-leafhash", base, l.ref.lh[idx][:]) {
		return false
	}
	return true
}

func (w *c07World) randMP(rng *kernel.RNG, b []byte, root []byte) ([]byte, []byte) {
	switch rng.Intn(8) {
	case 0, 1:
		if len(b) > 0 {
			b[rng.Intn(len(b))] ^= 1 << uint(rng.Intn(8))
		}
	case 2:
		if len(b) > 0 {
			i := rng.Intn(len(b))
			n := min(len(b)-i, []int{1, 32, 33}[rng.Intn(3)])
			b = append(b[:i:i], b[i+n:]...)
		}
	case 3:
		i := rng.Intn(len(b) + 1)
		ins := rng.Bytes([]int{1, 32, 33}[rng.Intn(3)])
		b = append(b[:i:i], append(ins, b[i:]...)...)
	case 4:
		if len(b) >= 66 {
			i := len(b) - 33*(1+rng.Intn(len(b)/33))
			if i >= 0 && i+33 <= len(b) {
				j := len(b) - 33
				tmp := clone(b[i : i+33])
				copy(b[i:i+33], b[j:j+33])
				copy(b[j:], tmp)
			}
		}
	case 5:
		l := w.lists[rng.Intn(len(w.lists))]
		root = clone(l.root[:])
	case 6:
		l := w.lists[rng.Intn(len(w.lists))]
		b = l.genuinePath(rng.Intn(len(l.recs)))
	default:
		if len(b) > 0 {
			b = b[:rng.Intn(len(b))]
		}
	}
	return b, root
}

// ---- plan -----------------------------------------------------------------------------------------

func c07Generate(rng *kernel.RNG, idx int, tier string) *kernel.Plan {
	maxT := 24
	if tier == "thorough" {
		maxT = []int{24, 48, 90}[rng.Intn(3)]
	}
	T := 1 + rng.Intn(maxT)
	if rng.Chance(0.15) {
		T = 1 + rng.Intn(5)
	}
	cfg := map[string]int64{"T": int64(T), "leafseed": int64(rng.Intn(1 << 30)), "kinds": int64(rng.Intn(3)), "idspace": int64([]int{1 << 30, 1 << 30, 3}[rng.Intn(3)]),
		"nlists": int64(1 + rng.Intn(3)), "listseed": int64(rng.Intn(1 << 30))}
	var steps []kernel.Step
	ni, nc, nm := 2+rng.Intn(6), 2+rng.Intn(6), 1+rng.Intn(4)
	for i := 0; i < ni; i++ {
		steps = append(steps, kernel.Step{Op: "incl", A: []int64{int64(rng.Intn(1 << 20)), int64(rng.Intn(1 << 20))}})
	}
	for i := 0; i < nc; i++ {
		steps = append(steps, kernel.Step{Op: "cons", A: []int64{int64(rng.Intn(1 << 20)), int64(rng.Intn(1 << 20))}})
	}
	for i := 0; i < nm; i++ {
		steps = append(steps, kernel.Step{Op: "mp", A: []int64{int64(rng.Intn(3)), int64(rng.Intn(1 << 20))}})
	}
	for i, n := 0, 2+rng.Intn(4); i < n; i++ {
		op := []string{"multi-incl", "multi-cons", "multi-mp"}[rng.Intn(3)]
		steps = append(steps, kernel.Step{Op: op, A: []int64{int64(rng.Intn(1 << 20)), int64(rng.Intn(1 << 20)), int64(rng.Intn(1 << 30)), int64(20 + rng.Intn(60))}})
	}
	// shuffle so that shrinking does not depend on the grouping
	p := rng.Perm(len(steps))
	out := make([]kernel.Step, len(steps))
	for i, j := range p {
		out[i] = steps[j]
	}
	return &kernel.Plan{Cfg: cfg, Steps: out}
}

func c07Execute(run *kernel.Run) {
	p := run.Plan
	T := max(1, int(p.C("T", 8)))
	w := &c07World{run: run, T: T, ref: newRefTree(), ver: merkle.NewMerkleVerifier(), rootSize: map[hash32]int{}, interior: map[int]map[hash32]bool{}, kinds: map[string]bool{}}
	// ---- the proof server: block-root tree
	w.tree = merkle.NewTree(0, nil, merkle.NewMemHashStore())
	lrng := kernel.NewRNG(kernel.Derive(run.Plan.Seed, "c07leaves", uint64(p.C("leafseed", 1))))
	ids := max(1, int(p.C("idspace", 1<<30)))
	for i := 0; i < T; i++ {
		kind := int64(0)
		if k := p.C("kinds", 0); k == 1 || (k == 2 && lrng.Chance(0.25)) {
			kind = int64(lrng.Intn(nLeafKinds))
		}
		d := leafData(kind, int64(lrng.Intn(ids)))
		w.tree.Append(d)
		w.ref.add(d)
	}
	for s := 0; s <= T; s++ {
		if _, dup := w.rootSize[w.ref.root(s)]; !dup {
			w.rootSize[w.ref.root(s)] = s
		}
	}
	if hash32(w.tree.Root()) != w.ref.root(T) {
		run.Fail("C06", "root-differs-from-rfc6962", "proof server tree root %x differs from reference %x", w.tree.Root(), w.ref.root(T))
		return
	}
	// ---- cross-state record lists (path proofs)
	nl := max(1, int(p.C("nlists", 1)))
	rrng := kernel.NewRNG(kernel.Derive(run.Plan.Seed, "c07lists", uint64(p.C("listseed", 1))))
	for li := 0; li < nl; li++ {
		l := &recList{ref: newRefTree()}
		n := 1 + rrng.Intn(12)
		for i := 0; i < n; i++ {
			var r []byte
			switch c := rrng.Intn(10); {
			case c == 0 && i >= 2: // concatenation of two earlier records' leaf hashes
				a, b := rrng.Intn(i), rrng.Intn(i)
				r = append(append([]byte{}, l.ref.lh[a][:]...), l.ref.lh[b][:]...)
			case c == 1 && i >= 1: // duplicate record
				r = clone(l.recs[rrng.Intn(i)])
			case c == 2:
				r = []byte{}
			case c == 3:
				r = rrng.Bytes(253 + rrng.Intn(4)) // around the 0xFD length-prefix boundary
			default:
				r = rrng.Bytes(1 + rrng.Intn(90))
			}
			l.recs = append(l.recs, r)
			l.ref.add(r)
		}
		l.root = l.ref.root(n)
		var lhs []pcom.Uint256
		for _, h := range l.ref.lh {
			lhs = append(lhs, pcom.Uint256(h))
		}
		served := merkle.TreeHasher{}.HashFullTreeWithLeafHash(lhs)
		if hash32(served) != l.root {
			run.Fail("C06", "hash-full-tree-differs", "HashFullTreeWithLeafHash over %d records = %x, reference %x", n, served, l.root)
			return
		}
		for i := range l.recs {
			sp, err := merkle.MerkleLeafPath(l.recs[i], lhs)
			first := i
			for j := 0; j < i; j++ {
				if bytes.Equal(l.recs[j], l.recs[i]) {
					first = j
					break
				}
			}
			if err != nil || !bytes.Equal(sp, l.genuinePath(first)) {
				run.Fail("C06", "leaf-path-differs", "MerkleLeafPath(record %d of %d) = %x (%v), reference %x", i, n, sp, err, l.genuinePath(first))
				return
			}
		}
		w.lists = append(w.lists, l)
	}
	run.Logf("server: tree of %d leaves root %x; %d record lists", T, w.ref.root(T), len(w.lists))
	for i, st := range p.Steps {
		run.StepNo = i
		run.Steps++
		ok := true
		before := w.evals
		switch st.Op {
		case "incl":
			n := 1 + umod(st.Arg(1), T)
			m := umod(st.Arg(0), n)
			// the served proof itself
			sp, err := w.tree.InclusionProof(uint32(m), uint32(n))
			if rp, _ := w.ref.path(m, n); err != nil || !hashesEqual(fromU256(sp), rp) {
				run.Fail("C06", "inclusion-proof-differs", "served InclusionProof(%d,%d) differs from reference", m, n)
				return
			}
			ok = w.inclMutants(m, n, func(label string, tp inclTuple) bool {
				w.countFault("incl", label)
				return w.judgeIncl(fmt.Sprintf("incl(%d,%d)/%s", m, n, label), tp)
			})
			w.kinds["incl"] = true
		case "cons":
			n := 1 + umod(st.Arg(1), T)
			m := 1 + umod(st.Arg(0), n)
			sp := w.tree.ConsistencyProof(uint32(m), uint32(n))
			if !hashesEqual(fromU256(sp), w.ref.proof(m, n)) {
				run.Fail("C06", "consistency-proof-differs", "served ConsistencyProof(%d,%d) differs from reference", m, n)
				return
			}
			ok = w.consMutants(m, n, func(label string, tp consTuple) bool {
				w.countFault("cons", label)
				return w.judgeCons(fmt.Sprintf("cons(%d,%d)/%s", m, n, label), tp)
			})
			w.kinds["cons"] = true
		case "mp":
			li := umod(st.Arg(0), len(w.lists))
			ix := umod(st.Arg(1), len(w.lists[li].recs))
			ok = w.mpMutants(li, ix, func(label string, path, root []byte) bool {
				w.countFault("path", label)
				return w.judgeMP(fmt.Sprintf("path(list %d rec %d)/%s", li, ix, label), path, root)
			})
			w.kinds["mp"] = true
		case "multi-incl":
			n := 1 + umod(st.Arg(1), T)
			m := umod(st.Arg(0), n)
			rng := kernel.NewRNG(kernel.Derive(run.Plan.Seed, "c07multi", uint64(st.Arg(2))))
			for c := 0; c < umod(st.Arg(3), 100) && ok; c++ {
				tp := w.baseIncl(m, n)
				lab := ""
				for k := 2 + rng.Intn(3); k > 0; k-- {
					lab += "+" + w.randIncl(rng, &tp)
				}
				ok = w.judgeIncl(fmt.Sprintf("incl(%d,%d)/multi%s", m, n, lab), tp)
			}
			run.Fault("multi_mutation")
		case "multi-cons":
			n := 1 + umod(st.Arg(1), T)
			m := 1 + umod(st.Arg(0), n)
			rng := kernel.NewRNG(kernel.Derive(run.Plan.Seed, "c07multi", uint64(st.Arg(2))))
			for c := 0; c < umod(st.Arg(3), 100) && ok; c++ {
				tp := w.baseCons(m, n)
				lab := ""
				for k := 2 + rng.Intn(3); k > 0; k-- {
					lab += "+" + w.randCons(rng, &tp)
				}
				ok = w.judgeCons(fmt.Sprintf("cons(%d,%d)/multi%s", m, n, lab), tp)
			}
			run.Fault("multi_mutation")
		case "multi-mp":
			li := umod(st.Arg(0), len(w.lists))
			ix := umod(st.Arg(1), len(w.lists[li].recs))
			rng := kernel.NewRNG(kernel.Derive(run.Plan.Seed, "c07multi", uint64(st.Arg(2))))
			for c := 0; c < umod(st.Arg(3), 100) && ok; c++ {
				b, root := w.lists[li].genuinePath(ix), clone(w.lists[li].root[:])
				for k := 2 + rng.Intn(3); k > 0; k-- {
					b, root = w.randMP(rng, b, root)
				}
				ok = w.judgeMP(fmt.Sprintf("path(list %d rec %d)/multi", li, ix), b, root)
			}
			run.Fault("multi_mutation")
		}
		run.Logf("%s -> %d tuples judged, accepted so far %d, rejected %d, sig %x", st, w.evals-before, w.accepted, w.rejected, w.sig.h[:min(6, len(w.sig.h))])
		if !ok {
			return
		}
	}
	run.Probes["__evals"] = max(1, w.evals)
	run.Probes["tuples_rejected"] += w.rejected
	run.Probes["tuples_accepted"] += w.accepted
	if w.kinds["incl"] && w.kinds["cons"] && w.kinds["mp"] && T >= 3 {
		run.Nontrivial(w.sig.h)
	}
	run.State(w.sig.h)
	run.Sample = map[string]interface{}{"tree_leaves": T, "record_lists": len(w.lists), "tuples_judged": w.evals, "accepted": w.accepted, "rejected": w.rejected, "steps": fmt.Sprint(p.Steps[:min(6, len(p.Steps))])}
}

func init() {
	kernel.Register(&kernel.Check{
		ID: "C07", Level: "exploration", Engine: engineName,
		Rule: "case = a proof server (real CompactMerkleTree over 1-24 leaves, thorough up to 90, mixed leaf lengths and duplicate leaves; 1-3 cross-state record lists of 1-12 records incl. empty, duplicate, 253-256-byte and 64-byte 'two leaf hashes' records, root by HashFullTreeWithLeafHash, paths by MerkleLeafPath) " +
			"and a client; per case 2-7 inclusion proofs (m,n), 2-7 consistency proofs (m,n) and 1-4 path proofs are attacked with EVERY single mutation: hash bit flips, element drop/duplicate/swap/reverse/truncate/extend, index and size set to every neighbouring and every small value, leaf flipped/extended/swapped with every other leaf, " +
			"interior node (children, preimage, hash) presented as leaf at the original and at the shifted index/size, a leaf presented as interior node, root flipped / zero / leaf hash, and delay: proof cut for every other size or leaf, client root of every other size, client consistently at another size; path proofs additionally: truncation at every byte, trailing bytes, every flag value, non-minimal length prefixes, roots of wrong length; " +
			"plus 2-5 steps of 20-80 sampled 2-4-fold mutations. Each tuple goes through VerifyLeafInclusion and VerifyLeafHashInclusion / VerifyConsistency / MerkleProve and is judged against the naive RFC 6962 tree (completeness, root-level soundness) and the RFC 9162 verification algorithms (tightness). evaluations = tuples judged; non-trivial = all three proof kinds attacked on a tree of >= 3 leaves; distinct by the accept/reject vector",
		Real:        []string{"merkle.MerkleVerifier.VerifyLeafInclusion / VerifyLeafHashInclusion / VerifyConsistency", "merkle.MerkleProve", "proof server: merkle.CompactMerkleTree (memory hash store), merkle.MerkleLeafPath, TreeHasher.HashFullTreeWithLeafHash"},
		Stub:        []string{"the channel and the client are the harness; the file hash store is covered by C06; ledger-served proofs (GetMerkleProof, GetCrossStatesProof) are E1/C08"},
		Assumptions: []string{"SHA-256 collision resistance", "root-level reading of soundness: a claimed tree size that differs from the real one but induces the same left/right pattern is not detectable by any verifier of RFC 6962 audit paths (the RFC 9162 algorithms accept it too); such acceptances are counted, not alarmed", "VerifyLeafHashInclusion takes a hash: domain separation is the caller's duty, so an interior hash with an attacker-chosen size is counted, not alarmed; the data-taking APIs must reject every interior-as-leaf attempt", "consistency from size 0 and between identical heads ignores the proof (certificate-transparency reference behaviour): counted, not alarmed"},
		QuickRuns:   1200, ThoroughRuns: 80000, QuickCap: 40, ThoroughCap: 800,
		RequiredProbes: []string{"incl_genuine_accepted", "cons_genuine_accepted", "mp_genuine_accepted", "multi_mutation", "mp_leaf_as_interior_attack_built", "tuples_rejected"},
		Generate:       c07Generate,
		Execute:        c07Execute,
	})
}
