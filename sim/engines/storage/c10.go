package storage

import (
	"bytes"
	"errors"
	"fmt"
	"sort"

	scom "github.com/polynetwork/poly/core/store/common"
	"github.com/polynetwork/poly/core/store/leveldbstore"
	"github.com/polynetwork/poly/core/store/overlaydb"
	nstorage "github.com/polynetwork/poly/native/storage"

	"polysim/kernel"
)

// C10: layered views LevelDB <- OverlayDB (block layer) <- CacheDB (transaction layer).
//
// Reference model: three maps. backend: key -> value (what the LevelDB holds); block and tx: key ->
// value where an empty value is a tombstone. A read returns the newest layer's entry (tombstone =
// absent); a prefix scan lists the keys whose newest entry is a non-empty value, in byte order;
// commit copies a layer's entries (tombstones included) onto the layer below; reset empties a layer.
// The tx layer addresses keys below the one-byte contract-storage namespace (ST_STORAGE).

var errInjected = errors.New("polysim: injected backend read error")

// faultStore wraps the real LevelDB store behind the PersistStore interface that OverlayDB accepts.
// It lets the plan (a) swap the store underneath after a close/reopen and (b) make the n-th next
// Get or the k-th positioning call of the next iterator fail with an I/O error.
type faultStore struct {
	inner      scom.PersistStore
	failGetIn  int // 0 = off; 1 = the next Get fails
	failIterAt int // -1 = off; k = the next created iterator fails at its k-th First/Next call (0-based)
	getFired   int
	iterFired  int
	gets       int
}

func (f *faultStore) Put(k, v []byte) error       { return f.inner.Put(k, v) }
func (f *faultStore) Has(k []byte) (bool, error)  { return f.inner.Has(k) }
func (f *faultStore) Delete(k []byte) error       { return f.inner.Delete(k) }
func (f *faultStore) NewBatch()                   { f.inner.NewBatch() }
func (f *faultStore) BatchPut(k, v []byte)        { f.inner.BatchPut(k, v) }
func (f *faultStore) BatchDelete(k []byte)        { f.inner.BatchDelete(k) }
func (f *faultStore) BatchCommit() error          { return f.inner.BatchCommit() }
func (f *faultStore) Close() error                { return f.inner.Close() }
func (f *faultStore) Get(k []byte) ([]byte, error) {
	f.gets++
	if f.failGetIn > 0 {
		f.failGetIn--
		if f.failGetIn == 0 {
			f.getFired++
			return nil, errInjected
		}
	}
	return f.inner.Get(k)
}
func (f *faultStore) NewIterator(prefix []byte) scom.StoreIterator {
	it := f.inner.NewIterator(prefix)
	if f.failIterAt >= 0 {
		w := &faultIter{StoreIterator: it, failAt: f.failIterAt, owner: f}
		f.failIterAt = -1
		return w
	}
	return it
}

type faultIter struct {
	scom.StoreIterator
	failAt int
	calls  int
	failed bool
	owner  *faultStore
}

func (i *faultIter) step(f func() bool) bool {
	if i.failed {
		return false
	}
	if i.calls == i.failAt {
		i.failed = true
		i.owner.iterFired++
		return false
	}
	i.calls++
	return f()
}
func (i *faultIter) First() bool { return i.step(i.StoreIterator.First) }
func (i *faultIter) Next() bool  { return i.step(i.StoreIterator.Next) }
func (i *faultIter) Key() []byte {
	if i.failed {
		return nil
	}
	return i.StoreIterator.Key()
}
func (i *faultIter) Value() []byte {
	if i.failed {
		return nil
	}
	return i.StoreIterator.Value()
}
func (i *faultIter) Error() error {
	if i.failed {
		return errInjected
	}
	return i.StoreIterator.Error()
}

const stPrefix = byte(scom.ST_STORAGE)

// txKeys: keys as the transaction layer sees them (without namespace byte).
var txKeys = toBytes([]string{"", "\x00", "a", "a\x00", "a\x00\x00", "ab", "aba", "abb", "ac", "b", "b\xff", "\xff", "\xff\xff", longP, longP + "a", longP + "b"})

// blockKeys: keys as the block layer / backend see them: the tx keys inside the namespace plus
// neighbours just outside it (must never leak into tx-layer scans) and un-namespaced oddities.
var blockKeys = func() [][]byte {
	var out [][]byte
	for _, k := range txKeys {
		out = append(out, append([]byte{stPrefix}, k...))
	}
	out = append(out, toBytes([]string{"", "\x00", string([]byte{stPrefix - 1}), string([]byte{stPrefix - 1, 0xff}), string([]byte{stPrefix - 1, 0xff, 0xff}),
		string([]byte{stPrefix + 1}), string([]byte{stPrefix + 1, 0}), string([]byte{stPrefix + 1, 'a'}), "\xff", "\xff\xff", "z"})...)
	return out
}()

var txPrefixes = toBytes([]string{"", "a", "a\x00", "ab", "b", "\xff", "\xff\xff", longP, longP + "a", "zz"})
var blockPrefixes = func() [][]byte {
	var out [][]byte
	for _, k := range txPrefixes {
		out = append(out, append([]byte{stPrefix}, k...))
	}
	out = append(out, toBytes([]string{"", "\x00", string([]byte{stPrefix - 1}), string([]byte{stPrefix - 1, 0xff}), string([]byte{stPrefix + 1}), "\xff", "\xff\xff", "z"})...)
	return out
}()

type c10World struct {
	run     *kernel.Run
	dir     string
	ldb     *leveldbstore.LevelDBStore
	fs      *faultStore
	ov      *overlaydb.OverlayDB
	cache   *nstorage.CacheDB
	backend map[string][]byte // persisted
	block   map[string][]byte // overlay write set (empty = tombstone)
	tx      map[string][]byte // cache write set, namespaced keys
	sig     sigAcc
	// accounting for the non-triviality rule
	scansMixed, commits, faultsSeen int
	held                            []*heldSlice // slices returned by Get, kept without copying
}

func (w *c10World) heldIntact(when string) bool {
	for _, h := range w.held {
		if !bytes.Equal(h.slice, h.want) {
			w.run.Fail("C10", "returned-slice-changed", "%s: the slice returned by %s for %s held %s and now holds %s", when, h.what, short([]byte(h.key)), short(h.want), short(h.slice))
			return false
		}
	}
	return true
}

// hold reads a key through the given layer and keeps the returned slice itself (zero-copy read).
func (w *c10World) hold(txLayer bool, key []byte) bool {
	if w.fs.failGetIn > 0 {
		return true // an armed read fault belongs to the next checked read
	}
	var v, mv []byte
	var err error
	what := "OverlayDB.Get"
	if txLayer {
		what = "CacheDB.Get"
		v, err = w.cache.Get(key)
		mv = w.txView(string(append([]byte{stPrefix}, key...)))
	} else {
		v, err = w.ov.Get(key)
		mv = w.blockView(string(key))
	}
	if err != nil || !bytes.Equal(v, mv) {
		w.run.Fail("C10", "get-value", "%s(%s)=%s,%v model %s", what, short(key), short(v), err, short(mv))
		return false
	}
	if len(v) > 0 {
		if len(w.held) >= 8 {
			w.held = w.held[1:]
		}
		w.held = append(w.held, &heldSlice{slice: v, want: clone(v), what: what, key: string(key), isValue: true})
		w.run.Probe("held_slice")
	}
	w.run.Logf("hold %s(%s) -> %s", what, short(key), short(v))
	return true
}

func (w *c10World) open() error {
	db, err := leveldbstore.NewLevelDBStore(w.dir)
	if err != nil {
		return err
	}
	w.ldb = db
	if w.fs == nil {
		w.fs = &faultStore{failIterAt: -1}
	}
	w.fs.inner = db
	return nil
}

func (w *c10World) newLayers() {
	w.ov = overlaydb.NewOverlayDB(w.fs)
	w.cache = nstorage.NewCacheDB(w.ov)
	w.block = map[string][]byte{}
	w.tx = map[string][]byte{}
}

// model views
func (w *c10World) blockView(k string) []byte {
	if v, ok := w.block[k]; ok {
		return v
	}
	return w.backend[k]
}

func (w *c10World) txView(k string) []byte {
	if v, ok := w.tx[k]; ok {
		return v
	}
	return w.blockView(k)
}

func (w *c10World) allKeys() []string {
	seen := map[string]bool{}
	var ks []string
	for _, m := range []map[string][]byte{w.backend, w.block, w.tx} {
		for k := range m {
			if !seen[k] {
				seen[k] = true
				ks = append(ks, k)
			}
		}
	}
	sort.Strings(ks)
	return ks
}

func (w *c10World) modelScan(prefix []byte, txLayer bool) (list []kv, mixed bool) {
	var sawDel, sawOver, sawBackOnly bool
	for _, k := range w.allKeys() {
		if !hasPrefix(k, prefix) {
			continue
		}
		_, inB := w.backend[k]
		_, inO := w.block[k]
		_, inT := w.tx[k]
		var v []byte
		upper := inO
		if txLayer {
			v = w.txView(k)
			upper = inO || inT
		} else {
			if !inB && !inO {
				continue // exists only in the tx layer: invisible to the block layer
			}
			v = w.blockView(k)
		}
		if len(v) == 0 {
			if inB && upper {
				sawDel = true
			}
			continue
		}
		if inB && upper {
			sawOver = true
		}
		if inB && !upper {
			sawBackOnly = true
		}
		key := []byte(k)
		if txLayer {
			key = key[1:]
		}
		list = append(list, kv{key, v})
	}
	return list, sawDel && sawOver && sawBackOnly
}

func collect(it scom.StoreIterator) (list []kv, err error) {
	for ok := it.First(); ok; ok = it.Next() {
		list = append(list, kv{clone(it.Key()), clone(it.Value())})
		if len(list) > 10000 {
			break
		}
	}
	err = it.Error()
	it.Release()
	return
}

func isPrefixOf(a, b []kv) bool {
	if len(a) > len(b) {
		return false
	}
	return kvEqual(a, b[:len(a)])
}

func (w *c10World) backendListing() []kv {
	list, _ := collect(w.ldb.NewIterator(nil))
	return list
}

func (w *c10World) checkBackend(when string) bool {
	got := w.backendListing()
	var want []kv
	for _, k := range sortedKeys(w.backend) {
		want = append(want, kv{[]byte(k), w.backend[k]})
	}
	if !kvEqual(got, want) {
		w.run.Fail("C10", "backend-content", "%s: LevelDB holds %s, model %s", when, kvString(got), kvString(want))
		return false
	}
	w.run.State(kvDigest(got))
	return true
}

func (w *c10World) clearFaultState() {
	w.ov.SetError(nil)
	w.fs.failGetIn = 0
	w.fs.failIterAt = -1
}

// oget/cget with fault awareness. Returns false on violation.
func (w *c10World) get(txLayer bool, key []byte) bool {
	run := w.run
	firedBefore := w.fs.getFired
	var v []byte
	var err error
	var mv []byte
	name := "OverlayDB.Get"
	if txLayer {
		name = "CacheDB.Get"
		v, err = w.cache.Get(key)
		mv = w.txView(string(append([]byte{stPrefix}, key...)))
	} else {
		v, err = w.ov.Get(key)
		mv = w.blockView(string(key))
	}
	if w.fs.getFired > firedBefore {
		run.Fault("backend_get_error")
		w.faultsSeen++
		if err == nil {
			run.Fail("C10", "backend-error-read-as-value", "%s(%s): the backend read failed but the call returned value %s and no error (model value %s)", name, short(key), short(v), short(mv))
			return false
		}
		if w.ov.Error() == nil {
			run.Fail("C10", "backend-error-not-recorded", "%s(%s) failed with %v but OverlayDB.Error() is nil", name, short(key), err)
			return false
		}
		run.Logf("%s(%s) -> injected error surfaced (%v)", name, short(key), err)
		w.clearFaultState()
		return true
	}
	if err != nil {
		run.Fail("C10", "get-unexpected-error", "%s(%s) returned error %v without an injected fault", name, short(key), err)
		return false
	}
	if !bytes.Equal(v, mv) {
		run.Fail("C10", "get-value", "%s(%s)=%s, model %s", name, short(key), short(v), short(mv))
		return false
	}
	if w.ov.Error() != nil {
		run.Fail("C10", "spurious-db-error", "OverlayDB.Error()=%v without an injected fault", w.ov.Error())
		return false
	}
	run.Logf("%s(%s) -> %s", name, short(key), short(v))
	w.sig.add("get:%v:%s:%s", txLayer, key, v)
	return true
}

func (w *c10World) scan(txLayer bool, prefix []byte) bool {
	run := w.run
	firedBefore := w.fs.iterFired
	var it scom.StoreIterator
	name := "OverlayDB.NewIterator"
	if txLayer {
		name = "CacheDB.NewIterator"
		it = w.cache.NewIterator(clone(prefix))
	} else {
		it = w.ov.NewIterator(clone(prefix))
	}
	got, err := collect(it)
	mprefix := prefix
	if txLayer {
		mprefix = append([]byte{stPrefix}, prefix...)
	}
	want, mixed := w.modelScan(mprefix, txLayer)
	if w.fs.iterFired > firedBefore {
		run.Fault("backend_iter_error")
		w.faultsSeen++
		if err == nil {
			run.Fail("C10", "iterator-error-hidden", "%s(%s): the backend iterator failed but Error() is nil; listed %s, model %s", name, short(prefix), kvString(got), kvString(want))
			return false
		}
		if !isPrefixOf(got, want) {
			run.Fail("C10", "iterator-wrong-data-after-error", "%s(%s) with failing backend iterator listed %s which is not a prefix of the model listing %s", name, short(prefix), kvString(got), kvString(want))
			return false
		}
		run.Logf("%s(%s) -> injected iterator error surfaced after %d/%d", name, short(prefix), len(got), len(want))
		w.clearFaultState()
		return true
	}
	w.fs.failIterAt = -1
	if err != nil {
		run.Fail("C10", "scan-unexpected-error", "%s(%s) error %v without injected fault", name, short(prefix), err)
		return false
	}
	if !kvEqual(got, want) {
		run.Fail("C10", "prefix-scan", "%s(%s) listed %s, model %s", name, short(prefix), kvString(got), kvString(want))
		return false
	}
	if mixed {
		w.scansMixed++
		run.Probe("scan_mixing_deleted_overwritten_backendonly")
	}
	if len(got) == 0 && len(want) == 0 {
		run.Probe("scan_empty")
	}
	run.Logf("%s(%s) -> %d %x", name, short(prefix), len(got), kvDigest(got))
	w.sig.add("scan:%v:%s:%x", txLayer, prefix, kvDigest(got))
	return true
}

// sweep compares every key and every prefix at both layers plus the persisted content.
func (w *c10World) sweep(when string) bool {
	w.clearFaultState()
	for _, k := range blockKeys {
		if !w.get(false, clone(k)) {
			return false
		}
	}
	for _, k := range txKeys {
		if !w.get(true, clone(k)) {
			return false
		}
	}
	for _, p := range blockPrefixes {
		if !w.scan(false, p) {
			return false
		}
	}
	for _, p := range txPrefixes {
		if !w.scan(true, p) {
			return false
		}
	}
	return w.checkBackend(when)
}

func (w *c10World) restart(label string) bool {
	w.ldb.Close()
	if err := w.open(); err != nil {
		w.run.Fail("C10", "reopen-failed", "%s: reopening the LevelDB failed: %v", label, err)
		return false
	}
	return true
}

func c10Generate(rng *kernel.RNG, idx int, tier string) *kernel.Plan {
	nops := 80 + rng.Intn(120)
	if tier == "thorough" && rng.Chance(0.25) {
		nops = 200 + rng.Intn(300)
	}
	nbk, ntk := 4+rng.Intn(len(blockKeys)-3), 3+rng.Intn(len(txKeys)-2)
	ops := []string{"bput", "bdel", "oput", "odel", "oget", "oscan", "oreset", "ocommit", "cput", "cdel", "cget", "cscan", "ccommit", "creset", "cnew",
		"reopen", "restart", "crashbatch", "failget", "failiter", "sweep", "ohold", "chold"}
	// reopen/restart/crashbatch cost ~40 ms each (LevelDB journal recovery): not drawn by weight but
	// placed 0-1 times each per run (see below)
	wt := []int{3, 1, 14, 6, 10, 8, 1, 3, 14, 6, 10, 8, 4, 1, 2, 0, 0, 0, 3, 3, 1, 3, 3}
	for i := range wt {
		switch rng.Intn(7) {
		case 0:
			wt[i] = 0
		case 1:
			wt[i] *= 3
		}
	}
	wt[2] += 3
	wt[8] += 3
	faultsOff := rng.Chance(0.3) // fault-free sub-batch
	if faultsOff {
		wt[18], wt[19] = 0, 0
	}
	var steps []kernel.Step
	// seeded persisted content
	for i, n := 0, rng.Intn(12); i < n; i++ {
		vk := int64(2 + rng.Intn(nValKinds-2))
		if rng.Chance(0.05) {
			vk = 0 // an empty value persisted directly
		}
		steps = append(steps, kernel.Step{Op: "bput", A: []int64{int64(rng.Intn(nbk)), vk, int64(rng.Intn(50))}})
	}
	for i := 0; i < nops; i++ {
		op := ops[weighted(rng, wt)]
		switch op {
		case "bput":
			vk := int64(2 + rng.Intn(nValKinds-2))
			if rng.Chance(0.05) {
				vk = 0
			}
			steps = append(steps, kernel.Step{Op: op, A: []int64{int64(rng.Intn(nbk)), vk, int64(rng.Intn(50))}})
		case "oput":
			steps = append(steps, kernel.Step{Op: op, A: []int64{int64(rng.Intn(nbk)), int64(rng.Intn(nValKinds)), int64(rng.Intn(50))}})
		case "cput":
			steps = append(steps, kernel.Step{Op: op, A: []int64{int64(rng.Intn(ntk)), int64(rng.Intn(nValKinds)), int64(rng.Intn(50))}})
		case "bdel", "odel", "oget", "ohold":
			steps = append(steps, kernel.Step{Op: op, A: []int64{int64(rng.Intn(nbk))}})
		case "cdel", "cget", "chold":
			steps = append(steps, kernel.Step{Op: op, A: []int64{int64(rng.Intn(ntk))}})
		case "oscan":
			steps = append(steps, kernel.Step{Op: op, A: []int64{int64(rng.Intn(len(blockPrefixes)))}})
		case "cscan":
			steps = append(steps, kernel.Step{Op: op, A: []int64{int64(rng.Intn(len(txPrefixes)))}})
		case "ocommit":
			mode := int64(rng.Intn(2))
			if rng.Chance(0.1) {
				mode = 2
			}
			steps = append(steps, kernel.Step{Op: op, A: []int64{mode}})
		case "failget":
			// arm, then make sure a read follows while it is armed (faults inside operations, not while idle)
			steps = append(steps, kernel.Step{Op: op, A: []int64{int64(1 + rng.Intn(2))}})
			for j, n := 0, 1+rng.Intn(3); j < n; j++ {
				if rng.Chance(0.5) {
					steps = append(steps, kernel.Step{Op: "oget", A: []int64{int64(rng.Intn(nbk))}})
				} else {
					steps = append(steps, kernel.Step{Op: "cget", A: []int64{int64(rng.Intn(ntk))}})
				}
			}
		case "failiter":
			steps = append(steps, kernel.Step{Op: op, A: []int64{int64(rng.Intn(4))}})
			if rng.Chance(0.5) {
				steps = append(steps, kernel.Step{Op: "oscan", A: []int64{int64(rng.Intn(len(blockPrefixes)))}})
			} else {
				steps = append(steps, kernel.Step{Op: "cscan", A: []int64{int64(rng.Intn(len(txPrefixes)))}})
			}
		default:
			steps = append(steps, kernel.Step{Op: op})
		}
	}
	// process-level faults: each kind 0-1 times (thorough: 0-2), inserted at random positions after the seed phase
	maxEach := 1
	if tier == "thorough" {
		maxEach = 2
	}
	for _, op := range []string{"reopen", "restart", "crashbatch"} {
		for j, n := 0, rng.Intn(maxEach+1); j < n; j++ {
			pos := len(steps)/4 + rng.Intn(len(steps)-len(steps)/4)
			ins := []kernel.Step{{Op: op}}
			if op == "crashbatch" {
				// make sure the block layer holds something when the crash hits
				ins = []kernel.Step{{Op: "oput", A: []int64{int64(rng.Intn(nbk)), int64(2 + rng.Intn(nValKinds-2)), int64(rng.Intn(50))}}, {Op: op}}
			}
			steps = append(steps[:pos], append(ins, steps[pos:]...)...)
		}
	}
	return &kernel.Plan{Cfg: map[string]int64{"nbk": int64(nbk), "ntk": int64(ntk), "faults_off": b2i(faultsOff)}, Steps: steps}
}

func b2i(b bool) int64 {
	if b {
		return 1
	}
	return 0
}

func c10Execute(run *kernel.Run) {
	w := &c10World{run: run, dir: kernel.TempDir("c10"), backend: map[string][]byte{}}
	if err := w.open(); err != nil {
		panic(err)
	}
	defer func() { w.ldb.Close() }()
	w.newLayers()
	guard(run, "C10", "storage stack operation", func() { c10Steps(w) })
	if run.Failed() {
		return
	}
	if w.scansMixed > 0 && w.commits > 0 {
		run.Nontrivial(w.sig.h)
	}
	run.Sample = map[string]interface{}{"ops": len(run.Plan.Steps), "commits": w.commits, "mixed_scans": w.scansMixed, "faults_fired": w.faultsSeen,
		"first_ops": fmt.Sprint(run.Plan.Steps[:min(8, len(run.Plan.Steps))])}
}

func c10Steps(w *c10World) {
	run := w.run
	p := run.Plan
	bkeys := blockKeys[:min(len(blockKeys), max(1, int(p.C("nbk", 8))))]
	tkeys := txKeys[:min(len(txKeys), max(1, int(p.C("ntk", 6))))]
	for i, st := range p.Steps {
		run.StepNo = i
		run.Steps++
		switch st.Op {
		case "bput":
			k, v := pick(bkeys, st.Arg(0)), makeVal(st.Arg(1), st.Arg(2))
			if err := w.ldb.Put(k, v); err != nil {
				panic(err)
			}
			w.backend[string(k)] = clone(v)
			if len(v) == 0 {
				run.Probe("backend_empty_value")
			}
			run.Logf("bput %s=%s", short(k), short(v))
		case "bdel":
			k := pick(bkeys, st.Arg(0))
			if err := w.ldb.Delete(k); err != nil {
				panic(err)
			}
			delete(w.backend, string(k))
			run.Logf("bdel %s", short(k))
		case "oput":
			k, v := pick(bkeys, st.Arg(0)), makeVal(st.Arg(1), st.Arg(2))
			mk, mv := string(k), clone(v)
			w.ov.Put(k, v)
			scribble(k)
			scribble(v)
			w.block[mk] = mv
			run.Logf("oput %s=%s", short([]byte(mk)), short(mv))
		case "odel":
			k := pick(bkeys, st.Arg(0))
			mk := string(k)
			w.ov.Delete(k)
			scribble(k)
			w.block[mk] = nil
			run.Logf("odel %s", short([]byte(mk)))
		case "oget":
			if !w.get(false, pick(bkeys, st.Arg(0))) {
				return
			}
		case "ohold":
			if !w.hold(false, pick(bkeys, st.Arg(0))) {
				return
			}
		case "chold":
			if !w.hold(true, pick(tkeys, st.Arg(0))) {
				return
			}
		case "oscan":
			if !w.scan(false, pick(blockPrefixes, st.Arg(0))) {
				return
			}
		case "oreset":
			w.ov.Reset()
			w.block = map[string][]byte{}
			run.Fault("block_reset")
			run.Logf("oreset")
		case "ocommit":
			// the ledger's sequence: NewBatch, CommitTo, BatchCommit; mode 0: then Reset (next block),
			// mode 1: keep the overlay (views must not change), mode 2: new overlay and cache
			w.fs.NewBatch()
			w.ov.CommitTo()
			if err := w.fs.BatchCommit(); err != nil {
				run.Fail("C10", "batch-commit-error", "BatchCommit: %v", err)
				return
			}
			for _, k := range sortedKeys(w.block) {
				if v := w.block[k]; len(v) == 0 {
					delete(w.backend, k)
				} else {
					w.backend[k] = v
				}
			}
			w.commits++
			run.Probe("block_commit")
			switch umod(st.Arg(0), 3) {
			case 0:
				w.ov.Reset()
				w.block = map[string][]byte{}
			case 2:
				w.newLayers()
			}
			run.Logf("ocommit mode %d", umod(st.Arg(0), 3))
			if !w.checkBackend("after block commit") {
				return
			}
		case "cput":
			k, v := pick(tkeys, st.Arg(0)), makeVal(st.Arg(1), st.Arg(2))
			mk, mv := string(append([]byte{stPrefix}, k...)), clone(v)
			w.cache.Put(k, v)
			scribble(k)
			scribble(v)
			w.tx[mk] = mv
			run.Logf("cput %s=%s", short([]byte(mk)), short(mv))
		case "cdel":
			k := pick(tkeys, st.Arg(0))
			mk := string(append([]byte{stPrefix}, k...))
			w.cache.Delete(k)
			scribble(k)
			w.tx[mk] = nil
			run.Logf("cdel %s", short([]byte(mk)))
		case "cget":
			if !w.get(true, pick(tkeys, st.Arg(0))) {
				return
			}
		case "cscan":
			if !w.scan(true, pick(txPrefixes, st.Arg(0))) {
				return
			}
		case "ccommit":
			w.cache.Commit()
			for _, k := range sortedKeys(w.tx) {
				w.block[k] = w.tx[k]
			}
			w.commits++
			run.Probe("tx_commit")
			run.Logf("ccommit %d entries", len(w.tx))
		case "creset":
			w.cache.Reset()
			w.tx = map[string][]byte{}
			run.Fault("tx_reset")
			run.Logf("creset")
		case "cnew":
			w.cache = nstorage.NewCacheDB(w.ov)
			w.tx = map[string][]byte{}
			run.Logf("cnew")
		case "reopen":
			if !w.restart("reopen") {
				return
			}
			run.Fault("backend_close_reopen")
			run.Logf("reopen (layers kept)")
			if !w.checkBackend("after reopen") {
				return
			}
		case "restart":
			if !w.restart("restart") {
				return
			}
			w.newLayers()
			run.Fault("process_restart")
			run.Logf("restart (layers lost)")
			if !w.checkBackend("after restart") {
				return
			}
		case "crashbatch":
			// crash after CommitTo filled the batch but before BatchCommit: nothing may reach the disk
			w.fs.NewBatch()
			w.ov.CommitTo()
			if !w.restart("crashbatch") {
				return
			}
			w.newLayers()
			run.Fault("crash_before_batch_commit")
			run.Logf("crash before BatchCommit")
			if !w.checkBackend("after crash before BatchCommit") {
				return
			}
		case "failget":
			if p.C("faults_off", 0) == 0 {
				w.fs.failGetIn = 1 + umod(st.Arg(0), 3)
				run.Logf("arm: backend Get #%d fails", w.fs.failGetIn)
			}
		case "failiter":
			if p.C("faults_off", 0) == 0 {
				w.fs.failIterAt = umod(st.Arg(0), 6)
				run.Logf("arm: next backend iterator fails at call %d", w.fs.failIterAt)
			}
		case "sweep":
			if !w.sweep("sweep") {
				return
			}
		}
		switch st.Op {
		case "oput", "odel", "cput", "cdel", "ccommit":
			if !w.heldIntact("after " + st.Op) {
				return
			}
		case "oreset", "ocommit", "creset", "cnew", "reopen", "restart", "crashbatch":
			w.held = nil // the buffers the kept slices point into may be re-used or gone
		}
		if i%25 == 24 {
			h := []kv{}
			for _, k := range w.allKeys() {
				h = append(h, kv{[]byte(k), w.txView(k)})
			}
			run.State(kvDigest(h))
		}
	}
	w.sweep("final")
}

func init() {
	kernel.Register(&kernel.Check{
		ID: "C10", Level: "exploration", Engine: engineName,
		Rule: "case = 0-12 seeded persisted entries followed by 80-200 (thorough: up to 500) operations on the stack LevelDB(real files) <- OverlayDB <- CacheDB: direct backend put/delete (including persisted empty values), block-layer put/delete/get/prefix scan/reset, " +
			"tx-layer put/delete/get/prefix scan/commit/reset/new, zero-copy reads at both layers (the slice returned by Get is kept and must keep its bytes across later writes and tx commits until a layer is reset), block commit (NewBatch+CommitTo+BatchCommit, then Reset / keep / fresh layers), close+reopen of the LevelDB under live layers, process restart, crash between CommitTo and BatchCommit, " +
			"and injected backend read errors (n-th Get fails; backend iterator fails at its k-th positioning call) placed directly before reads; keys from namespaced alphabets with prefix relations, 0xff runs and neighbours just outside the storage namespace; " +
			"per-run key subset and op weights, 30% of runs fault-free. After every step the touched view is compared with the three-map model; full sweeps (every key, every prefix at both layers, exact LevelDB content) at sweep steps, after commits/reopens and at the end. " +
			"non-trivial = at least one scan that mixed a deleted, an overwritten and a backend-only key, and at least one commit; distinct by digest of all read results",
		Real:        []string{"core/store/leveldbstore on goleveldb files (tmpfs)", "core/store/overlaydb OverlayDB + JoinIter + MemDB", "native/storage CacheDB + Iter"},
		Stub:        []string{"backend read errors are injected by a PersistStore wrapper around the real LevelDB store (OverlayDB takes the interface); no /repo hook needed"},
		Assumptions: []string{"nil and empty values are not distinguished; an empty persisted value reads as empty and is not listed by scans (the stack itself never persists one)", "iterators are used by First/Next only (the StoreIterator interface) and not across writes", "torn LevelDB batches are excluded by LevelDB's journal", "after an injected read error the check asserts only: error returned, OverlayDB.Error() set (Get) / iterator Error() set and items listed so far are a correct prefix (scan); then the error state is cleared"},
		QuickRuns:   1000, ThoroughRuns: 40000, QuickCap: 40, ThoroughCap: 800,
		RequiredProbes: []string{"scan_mixing_deleted_overwritten_backendonly", "block_commit", "tx_commit", "backend_get_error", "backend_iter_error", "backend_close_reopen", "process_restart", "crash_before_batch_commit", "block_reset", "tx_reset", "held_slice"},
		Generate:       c10Generate,
		Execute:        c10Execute,
	})
}
