package storage

import (
	"bytes"
	"encoding/binary"
	"fmt"

	pcom "github.com/polynetwork/poly/common"
	"github.com/polynetwork/poly/core/store/leveldbstore"
	"github.com/polynetwork/poly/core/store/overlaydb"
	nstorage "github.com/polynetwork/poly/native/storage"

	"polysim/kernel"
)

// C11: the block's state-change digest (OverlayDB.ChangeHash) and write set depend only on the net
// write set.
//
// A case is a k-tuple of "variants". Every variant is a write history applied to its own fresh
// OverlayDB (alternating between two LevelDBs seeded with equal content): direct block-layer writes,
// writes routed through CacheDB transactions that commit or roll back, interleaved reads and scans.
// The model of a variant is the map key -> final value (empty = tombstone) of the writes that reached
// the block layer. Variants are compared pairwise:
//   - equal maps (tombstones included)            => ChangeHash and write set must be equal;
//   - maps differ only by tombstones              => nothing asserted (the property speaks of the
//     final values of *written* keys; a deleted-then-absent key vs. a never-written key is the
//     documented subtle case) - the direction the code takes is counted as a probe;
//   - live entries differ                         => digests must differ, unless the two write sets
//     flatten to the same byte stream (probe: ChangeHash concatenates keys and values without
//     length framing) - see the report.
// Every digest and every write-set listing is computed 8 times (Go map-order adversary).

const c11Repeat = 8

type c11Variant struct {
	idx     int
	ov      *overlaydb.OverlayDB
	cache   *nstorage.CacheDB
	net     map[string][]byte // block-layer writes
	tx      map[string][]byte // open transaction writes (namespaced keys)
	inTx    bool
	hash    pcom.Uint256
	ws      []kv
	routes  map[string]bool
	wrote   int
	kept    [c11Slots]*c11Kept
}

const c11Slots = 4

// c11Kept is a slice returned by Get or by an iterator's Value() that the "contract" keeps WITHOUT
// copying (zero-copy read), together with a copy of what it held at the time of the read.
type c11Kept struct {
	slice     []byte
	want      []byte
	origin    int // 0 backend (fresh copy from LevelDB), 1 block-layer buffer, 2 transaction-layer buffer
	key       string
	rewritten bool // the key was written again in the buffer the slice points into
	notLonger bool // ... and the first such write had a non-empty value not longer than the kept one
}

func (v *c11Variant) noteRewrite(origin int, mk string, newLen int) {
	for _, k := range v.kept {
		if k != nil && k.origin == origin && k.key == mk && !k.rewritten {
			k.rewritten = true
			k.notLonger = newLen > 0 && newLen <= len(k.slice)
		}
	}
}

func (v *c11Variant) dropKept(origin int) {
	for i, k := range v.kept {
		if k != nil && k.origin == origin {
			v.kept[i] = nil
		}
	}
}

// keptIntact: a slice handed out earlier must still hold what it held when it was read.
func (w *c11World) keptIntact(v *c11Variant, when string) bool {
	for i, k := range v.kept {
		if k != nil && !bytes.Equal(k.slice, k.want) {
			w.run.Fail("C11", "kept-slice-changed-after-rewrite", "variant %d %s: the slice returned for key %s (slot %d, origin layer %d) held %s when it was read and now holds %s (key rewritten since: %v, with a value not longer: %v)",
				v.idx, when, short([]byte(k.key)), i, k.origin, short(k.want), short(k.slice), k.rewritten, k.notLonger)
			return false
		}
	}
	return true
}

// c11Val: value kind 100 is "b"+"v<id>" (with key "a" it flattens like key "ab" with value "v<id>").
func c11Val(kind, id int64) []byte {
	if kind == 100 {
		return []byte(fmt.Sprintf("bv%d", id))
	}
	return makeVal(kind, id)
}

func txKeyIndex(k string) int {
	for i, x := range txKeys {
		if string(x) == k {
			return i
		}
	}
	return 0
}

func canonical(m map[string][]byte, withTombs bool) string {
	var b bytes.Buffer
	var l [4]byte
	for _, k := range sortedKeys(m) {
		v := m[k]
		if len(v) == 0 && !withTombs {
			continue
		}
		binary.BigEndian.PutUint32(l[:], uint32(len(k)))
		b.Write(l[:])
		b.WriteString(k)
		binary.BigEndian.PutUint32(l[:], uint32(len(v)))
		b.Write(l[:])
		b.Write(v)
	}
	return b.String()
}

func flat(m map[string][]byte) string {
	var b bytes.Buffer
	for _, k := range sortedKeys(m) {
		b.WriteString(k)
		b.Write(m[k])
	}
	return b.String()
}

func writeSetOf(ov *overlaydb.OverlayDB) []kv {
	var out []kv
	ov.GetWriteSet().ForEach(func(k, v []byte) { out = append(out, kv{clone(k), clone(v)}) })
	return out
}

type c11World struct {
	run      *kernel.Run
	stores   [2]*leveldbstore.LevelDBStore
	seeded   map[string][]byte
	variants []*c11Variant
	cur      *c11Variant
	bkeys    [][]byte
	tkeys    [][]byte
}

// finish closes the open variant: evaluates digest and write set 8 times.
func (w *c11World) finish() bool {
	v := w.cur
	if v == nil {
		return true
	}
	run := w.run
	w.cur = nil
	for i := 0; i < c11Repeat; i++ {
		h := v.ov.ChangeHash()
		ws := writeSetOf(v.ov)
		if i == 0 {
			v.hash, v.ws = h, ws
			continue
		}
		if h != v.hash {
			run.Fail("C11", "digest-unstable", "variant %d: ChangeHash differs between two evaluations of the same overlay: %x vs %x", v.idx, v.hash, h)
			return false
		}
		if !kvEqual(ws, v.ws) {
			run.Fail("C11", "writeset-unstable", "variant %d: write set listing differs between two evaluations", v.idx)
			return false
		}
	}
	// the write set must be exactly the net writes (sorted, tombstones as empty values)
	var want []kv
	for _, k := range sortedKeys(v.net) {
		want = append(want, kv{[]byte(k), v.net[k]})
	}
	if !kvEqual(v.ws, want) {
		run.Fail("C11", "writeset-not-net-effect", "variant %d: write set %s, net effect of its history %s", v.idx, kvString(v.ws), kvString(want))
		return false
	}
	if !w.keptIntact(v, "at the end of the block") {
		return false
	}
	run.Logf("variant %d done: %d net writes hash %x ws %x", v.idx, len(v.net), v.hash[:6], kvDigest(v.ws))
	w.variants = append(w.variants, v)
	return true
}

func c11Execute(run *kernel.Run) {
	w := &c11World{run: run, seeded: map[string][]byte{}}
	for i := range w.stores {
		db, err := leveldbstore.NewLevelDBStore(kernel.TempDir("c11"))
		if err != nil {
			panic(err)
		}
		w.stores[i] = db
		defer db.Close()
	}
	w.bkeys, w.tkeys = blockKeys, txKeys
	guard(run, "C11", "overlay/cache operation", func() { c11Steps(w) })
}

func c11Steps(w *c11World) {
	run := w.run
	sig := sigAcc{}
	for i, st := range run.Plan.Steps {
		run.StepNo = i
		run.Steps++
		v := w.cur
		switch st.Op {
		case "seed": // equal content in both backends; only before the first variant
			if len(w.variants) > 0 || w.cur != nil {
				continue
			}
			k, val := pick(w.bkeys, st.Arg(0)), makeVal(2+st.Arg(1)%(nValKinds-2), st.Arg(2))
			for _, db := range w.stores {
				if err := db.Put(k, val); err != nil {
					panic(err)
				}
			}
			w.seeded[string(k)] = val
			run.Logf("seed %s=%s", short(k), short(val))
		case "var":
			if !w.finish() {
				return
			}
			nv := &c11Variant{idx: len(w.variants), net: map[string][]byte{}, tx: map[string][]byte{}, routes: map[string]bool{}}
			nv.ov = overlaydb.NewOverlayDB(w.stores[umod(st.Arg(0), 2)])
			nv.cache = nstorage.NewCacheDB(nv.ov)
			w.cur = nv
			run.Logf("variant %d on backend %d", nv.idx, umod(st.Arg(0), 2))
		case "put", "del":
			if v == nil {
				continue
			}
			k := pick(w.bkeys, st.Arg(0))
			mk := string(k)
			if st.Op == "put" {
				val := c11Val(st.Arg(1), st.Arg(2))
				mv := clone(val)
				v.ov.Put(k, val)
				scribble(val)
				v.net[mk] = mv
				v.noteRewrite(1, mk, len(mv))
				run.Logf("v%d put %s=%s", v.idx, short([]byte(mk)), short(mv))
			} else {
				v.ov.Delete(k)
				v.net[mk] = nil
				v.noteRewrite(1, mk, 0)
				run.Logf("v%d del %s", v.idx, short([]byte(mk)))
			}
			scribble(k)
			v.routes["direct"] = true
			v.wrote++
		case "tx":
			if v == nil {
				continue
			}
			if st.Arg(0)%2 == 1 {
				v.cache = nstorage.NewCacheDB(v.ov) // a fresh CacheDB per transaction, as the native runtime does
			} else {
				v.cache.Reset()
			}
			v.tx = map[string][]byte{}
			v.inTx = true
			v.dropKept(2) // Reset re-uses the buffer: slices into it are dead (a fresh CacheDB: dropped as well)
			run.Logf("v%d tx begin", v.idx)
		case "tput", "tdel":
			if v == nil {
				continue
			}
			k := pick(w.tkeys, st.Arg(0))
			mk := string(append([]byte{stPrefix}, k...))
			if st.Op == "tput" {
				val := c11Val(st.Arg(1), st.Arg(2))
				v.tx[mk] = clone(val)
				v.cache.Put(k, val)
				scribble(val)
			} else {
				v.tx[mk] = nil
				v.cache.Delete(k)
			}
			scribble(k)
			v.noteRewrite(2, mk, len(v.tx[mk]))
			run.Logf("v%d %s %s=%s", v.idx, st.Op, short([]byte(mk)), short(v.tx[mk]))
		case "tcommit":
			if v == nil {
				continue
			}
			v.cache.Commit()
			for _, k := range sortedKeys(v.tx) {
				v.net[k] = v.tx[k]
				v.noteRewrite(1, k, len(v.tx[k]))
				v.wrote++
			}
			if len(v.tx) > 0 {
				v.routes["tx"] = true
			}
			// Commit does not empty the cache; a second Commit of the same cache would re-apply it: model the same
			run.Logf("v%d tx commit %d", v.idx, len(v.tx))
		case "trollback":
			if v == nil {
				continue
			}
			if len(v.tx) > 0 {
				v.routes["rollback"] = true
				run.Fault("tx_rollback")
			}
			v.cache.Reset()
			v.tx = map[string][]byte{}
			v.dropKept(2)
			run.Logf("v%d tx rollback", v.idx)
		case "get": // reads must not change the write set
			if v == nil {
				continue
			}
			k := pick(w.bkeys, st.Arg(0))
			val, err := v.ov.Get(k)
			want, ok := v.net[string(k)]
			if !ok {
				want = w.seeded[string(k)]
			}
			if err != nil || !bytes.Equal(val, want) {
				run.Fail("C11", "read-through-wrong", "variant %d Get(%s)=%s,%v want %s", v.idx, short(k), short(val), err, short(want))
				return
			}
			v.routes["reads"] = true
			run.Logf("v%d get %s -> %s", v.idx, short(k), short(val))
		case "tget":
			if v == nil {
				continue
			}
			k := pick(w.tkeys, st.Arg(0))
			val, err := v.cache.Get(k)
			if err != nil {
				run.Fail("C11", "read-through-wrong", "variant %d CacheDB.Get(%s) error %v", v.idx, short(k), err)
				return
			}
			v.routes["reads"] = true
			run.Logf("v%d tget %s -> %s", v.idx, short(k), short(val))
		case "keep": // zero-copy read: keep the returned slice itself
			if v == nil {
				continue
			}
			k := pick(w.tkeys, st.Arg(1))
			pk := append([]byte{stPrefix}, k...)
			mk := string(pk)
			slot := umod(st.Arg(2), c11Slots)
			route := umod(st.Arg(0), 4)
			want, origin := w.seeded[mk], 0
			if x, ok := v.net[mk]; ok {
				want, origin = x, 1
			}
			if x, ok := v.tx[mk]; ok && route%2 == 0 {
				want, origin = x, 2
			}
			var val []byte
			var err error
			switch route {
			case 0:
				val, err = v.cache.Get(k)
			case 1:
				val, err = v.ov.Get(pk)
			default:
				var it interface {
					First() bool
					Key() []byte
					Value() []byte
					Release()
					Error() error
				}
				wantKey := k
				if route == 2 {
					it = v.cache.NewIterator(clone(k))
				} else {
					it, wantKey = v.ov.NewIterator(clone(pk)), pk
				}
				if it.First() && bytes.Equal(it.Key(), wantKey) {
					val = it.Value()
				}
				err = it.Error()
				it.Release()
				if origin == 0 {
					val, want = nil, nil // a value served by the LevelDB iterator is only valid until the iterator moves
				}
			}
			if err != nil || !bytes.Equal(val, want) {
				run.Fail("C11", "read-through-wrong", "variant %d zero-copy read of %s via route %d = %s,%v want %s", v.idx, short(pk), route, short(val), err, short(want))
				return
			}
			v.routes["reads"] = true
			v.kept[slot] = nil
			if len(val) > 0 {
				v.kept[slot] = &c11Kept{slice: val, want: clone(want), origin: origin, key: mk}
				run.Probe(fmt.Sprintf("kept_slice_origin_%d", origin))
			}
			run.Logf("v%d keep[%d] %s via route %d -> %s (origin %d)", v.idx, slot, short(pk), route, short(val), origin)
		case "usekept": // "archive the previous record": write the kept slice under another key
			if v == nil {
				continue
			}
			kp := v.kept[umod(st.Arg(0), c11Slots)]
			if kp == nil {
				continue
			}
			if kp.rewritten && kp.notLonger {
				run.Probe("kept_slice_reused_after_rewrite_not_longer")
			} else if kp.rewritten {
				run.Probe("kept_slice_reused_after_rewrite_longer_or_empty")
			}
			d := pick(w.tkeys, st.Arg(1))
			mk := string(append([]byte{stPrefix}, d...))
			if st.Arg(2)%2 == 0 {
				v.cache.Put(d, kp.slice)
				v.tx[mk] = clone(kp.want)
				v.noteRewrite(2, mk, len(kp.want))
			} else {
				v.ov.Put([]byte(mk), kp.slice)
				v.net[mk] = clone(kp.want)
				v.noteRewrite(1, mk, len(kp.want))
				v.routes["direct"] = true
				v.wrote++
			}
			run.Logf("v%d usekept %s := value read from %s (%s)", v.idx, short([]byte(mk)), short([]byte(kp.key)), short(kp.want))
			if st.Arg(3)%2 == 1 && !w.keptIntact(v, "when the kept slice is re-used") {
				return
			}
		case "scan":
			if v == nil {
				continue
			}
			list, err := collect(v.cache.NewIterator(pick(txPrefixes, st.Arg(0))))
			v.routes["reads"] = true
			run.Logf("v%d scan -> %d %v", v.idx, len(list), err)
		}
	}
	if !w.finish() {
		return
	}
	// fresh overlay digest = digest of an overlay whose writes were all reset
	evals := 0
	var routes = map[string]bool{}
	for _, a := range w.variants {
		for r := range a.routes {
			routes[r] = true
		}
	}
	equalPairs, diffPairs := 0, 0
	for i := 0; i < len(w.variants); i++ {
		for j := i + 1; j < len(w.variants); j++ {
			a, b := w.variants[i], w.variants[j]
			evals++
			fullEq := canonical(a.net, true) == canonical(b.net, true)
			liveEq := canonical(a.net, false) == canonical(b.net, false)
			hashEq := a.hash == b.hash
			wsEq := kvEqual(a.ws, b.ws)
			switch {
			case fullEq:
				equalPairs++
				if !hashEq {
					run.Fail("C11", "equal-net-effect-different-digest", "variants %d and %d have the same net write set %s but ChangeHash %x vs %x", a.idx, b.idx, kvString(a.ws), a.hash, b.hash)
					return
				}
				if !wsEq {
					run.Fail("C11", "equal-net-effect-different-writeset", "variants %d and %d have the same net effect but write sets %s vs %s", a.idx, b.idx, kvString(a.ws), kvString(b.ws))
					return
				}
				if a.wrote != b.wrote || len(a.routes) != len(b.routes) {
					run.Probe("equal_pair_via_different_histories")
				}
			case liveEq:
				// differ only in tombstones: deleted-then-absent vs never written. Not asserted.
				if hashEq && flat(a.net) == flat(b.net) {
					run.Probe("tombstone_of_empty_key_flattens_to_nothing_digest_equal") // only the empty key: its tombstone adds no bytes
				} else if hashEq {
					run.Probe("tombstone_vs_never_written_digest_equal")
				} else {
					run.Probe("tombstone_vs_never_written_digest_differs")
				}
			default:
				diffPairs++
				if hashEq {
					if flat(a.net) == flat(b.net) {
						run.Probe("different_net_effect_same_flat_stream_digest_equal")
						run.Logf("NOTE variants %d/%d: different write sets %s vs %s flatten to the same key||value stream, ChangeHash equal", a.idx, b.idx, kvString(a.ws), kvString(b.ws))
					} else {
						run.Fail("C11", "different-net-effect-same-digest", "variants %d and %d have different net write sets %s vs %s but the same ChangeHash %x", a.idx, b.idx, kvString(a.ws), kvString(b.ws), a.hash)
						return
					}
				} else {
					run.Probe("different_pair_digest_differs")
				}
				if wsEq {
					run.Fail("C11", "different-net-effect-same-writeset", "variants %d and %d differ in net effect but list the same write set", a.idx, b.idx)
					return
				}
			}
			sig.add("%d:%d:%v:%v:%x", i, j, fullEq, liveEq, a.hash[:8])
		}
	}
	run.Probes["__evals"] = max(evals, 1)
	for _, r := range sortedKeys(boolKeys(routes)) {
		run.Probe("route_" + r)
	}
	if equalPairs > 0 && routes["tx"] && routes["direct"] {
		run.Nontrivial(sig.h)
	}
	if len(w.variants) > 0 {
		run.State(w.variants[0].hash[:])
	}
	run.Sample = map[string]interface{}{"variants": len(w.variants), "equal_pairs": equalPairs, "different_pairs": diffPairs, "net_writes_v0": func() int {
		if len(w.variants) > 0 {
			return len(w.variants[0].net)
		}
		return 0
	}()}
}

func boolKeys(m map[string]bool) map[string][]byte {
	out := map[string][]byte{}
	for k := range m {
		out[k] = nil
	}
	return out
}

// ---- generation --------------------------------------------------------------------------------

type c11Entry struct {
	tk   int   // index into txKeys (block key = namespace byte + tx key), or -1
	bk   int   // index into blockKeys when tk < 0 (direct only)
	tomb bool
	vk   int64
	id   int64
	pair int   // 1: key whose previous value (ovk, oid) is archived under the pair-2 key; 2: the archive key
	ovk  int64
	oid  int64
}

func (e c11Entry) blockIdx() int64 {
	if e.tk >= 0 {
		return int64(e.tk) // blockKeys starts with the namespaced txKeys in the same order
	}
	return int64(e.bk)
}

func c11Generate(rng *kernel.RNG, idx int, tier string) *kernel.Plan {
	var steps []kernel.Step
	for i, n := 0, rng.Intn(8); i < n; i++ {
		steps = append(steps, kernel.Step{Op: "seed", A: []int64{int64(rng.Intn(len(blockKeys))), int64(rng.Intn(6)), int64(rng.Intn(50))}})
	}
	// base net effect
	n := 1 + rng.Intn(9)
	if rng.Chance(0.1) {
		n = 0
	}
	permT := rng.Perm(len(txKeys))
	var base []c11Entry
	for i := 0; i < n && i < len(permT); i++ {
		e := c11Entry{tk: permT[i], tomb: rng.Chance(0.25), vk: int64(2 + rng.Intn(nValKinds-2)), id: int64(rng.Intn(50))}
		if rng.Chance(0.15) {
			e.tk, e.bk = -1, len(txKeys)+rng.Intn(len(blockKeys)-len(txKeys)) // outside the namespace: direct route only
		}
		base = append(base, e)
	}
	special := -1
	if rng.Chance(0.2) {
		// ("a" -> "bv1"): together with the variant that writes ("ab" -> "v1") instead, the two write sets
		// flatten to the same key||value stream
		special = len(base)
		for i := range base {
			if base[i].tk == txKeyIndex("a") || base[i].tk == txKeyIndex("ab") {
				special = i
			}
		}
		e := c11Entry{tk: txKeyIndex("a"), vk: 100, id: 1}
		if special == len(base) {
			base = append(base, e)
		} else {
			base[special] = e
		}
	}
	if rng.Chance(0.6) {
		// "store the new record, archive the previous one": K gets a new value, D gets K's previous value.
		// Rendered either as two plain writes or as read(K, slice kept) - rewrite K - write kept slice to D.
		k := c11Entry{tk: permT[len(permT)-2], pair: 1}
		switch weighted(rng, []int{35, 35, 15, 15}) {
		case 0: // equal length
			k.ovk, k.oid, k.vk, k.id = 4, int64(10+rng.Intn(40)), 4, int64(50+rng.Intn(40))
		case 1: // shorter
			k.ovk, k.oid, k.vk, k.id = 7, int64(rng.Intn(50)), 4, int64(rng.Intn(50))
		case 2: // longer
			k.ovk, k.oid, k.vk, k.id = 4, int64(rng.Intn(50)), 7, int64(rng.Intn(50))
		default: // deleted
			k.ovk, k.oid, k.tomb, k.vk = 7, int64(rng.Intn(50)), true, 4
		}
		base = append(base, k, c11Entry{tk: permT[len(permT)-3], pair: 2, vk: k.ovk, id: k.oid})
	}
	nvar := 2 + rng.Intn(5)
	if tier == "thorough" {
		nvar = 2 + rng.Intn(7)
	}
	for v := 0; v < nvar; v++ {
		ents := append([]c11Entry(nil), base...)
		if v > 0 && rng.Chance(0.35) {
			// a deliberately different net effect
			switch k := rng.Intn(6); {
			case k == 0 && len(ents) > 0: // one value changed
				j := rng.Intn(len(ents))
				ents[j].tomb, ents[j].id, ents[j].vk = false, ents[j].id+1, 4
			case k == 1 && len(ents) > 0: // one key dropped (tombstone dropped = the subtle case)
				j := rng.Intn(len(ents))
				ents = append(ents[:j:j], ents[j+1:]...)
			case k == 2: // an extra key, live or tombstone
				ents = append(ents, c11Entry{tk: permT[len(permT)-1], tomb: rng.Chance(0.5), vk: 4, id: 99})
			case k == 3 && len(ents) > 0: // live <-> tombstone
				j := rng.Intn(len(ents))
				ents[j].tomb = !ents[j].tomb
			case (k == 4 || k == 5) && special >= 0: // key/value boundary shift: ("a","b"+x) vs ("ab", x)
				ents[special] = c11Entry{tk: txKeyIndex("ab"), vk: 4, id: 1}
			default: // only tombstones for never-written keys added
				ents = append(ents, c11Entry{tk: permT[len(permT)-1], tomb: true})
			}
		}
		steps = append(steps, kernel.Step{Op: "var", A: []int64{int64(rng.Intn(2))}})
		steps = append(steps, c11History(rng, ents)...)
	}
	return &kernel.Plan{Cfg: map[string]int64{"nvar": int64(nvar), "nbase": int64(len(base))}, Steps: steps}
}

// c11History renders one write history whose net effect is exactly ents.
func c11History(rng *kernel.RNG, ents []c11Entry) []kernel.Step {
	var steps []kernel.Step
	order := rng.Perm(len(ents))
	mode := rng.Intn(4) // 0 direct, 1 all through transactions, 2/3 mixed
	read := func() {
		switch rng.Intn(3) {
		case 0:
			steps = append(steps, kernel.Step{Op: "get", A: []int64{int64(rng.Intn(len(blockKeys)))}})
		case 1:
			steps = append(steps, kernel.Step{Op: "tget", A: []int64{int64(rng.Intn(len(txKeys)))}})
		default:
			steps = append(steps, kernel.Step{Op: "scan", A: []int64{int64(rng.Intn(len(txPrefixes)))}})
		}
	}
	final := func(e c11Entry, viaTx bool) kernel.Step {
		if viaTx {
			if e.tomb {
				return kernel.Step{Op: "tdel", A: []int64{int64(e.tk)}}
			}
			return kernel.Step{Op: "tput", A: []int64{int64(e.tk), e.vk, e.id}}
		}
		if e.tomb {
			return kernel.Step{Op: "del", A: []int64{e.blockIdx()}}
		}
		return kernel.Step{Op: "put", A: []int64{e.blockIdx(), e.vk, e.id}}
	}
	noise := func(e c11Entry, viaTx bool) {
		// redundant earlier writes to the same key: overwrite, put-delete-put, delete-put
		for j, n := 0, rng.Intn(3); j < n; j++ {
			x := e
			x.tomb, x.id, x.vk = rng.Chance(0.4), int64(rng.Intn(50)), int64(2+rng.Intn(nValKinds-2))
			steps = append(steps, final(x, viaTx))
		}
	}
	// junk transaction that is rolled back: writes anything, including keys of the net set
	junk := func() {
		steps = append(steps, kernel.Step{Op: "tx", A: []int64{int64(rng.Intn(2))}})
		for j, n := 0, 1+rng.Intn(3); j < n; j++ {
			if rng.Chance(0.3) {
				steps = append(steps, kernel.Step{Op: "tdel", A: []int64{int64(rng.Intn(len(txKeys)))}})
			} else {
				steps = append(steps, kernel.Step{Op: "tput", A: []int64{int64(rng.Intn(len(txKeys))), int64(rng.Intn(nValKinds)), int64(rng.Intn(50))}})
			}
		}
		steps = append(steps, kernel.Step{Op: "trollback"})
	}
	// phase 1 (optional): early versions of some keys, through any route, later overwritten by phase 2
	if rng.Chance(0.5) {
		for _, oi := range rng.Perm(len(ents)) {
			e := ents[oi]
			if !rng.Chance(0.4) {
				continue
			}
			x := e
			x.tomb, x.id = rng.Chance(0.4), int64(rng.Intn(50))
			if e.tk >= 0 && rng.Chance(0.5) {
				steps = append(steps, kernel.Step{Op: "tx", A: []int64{int64(rng.Intn(2))}}, final(x, true), kernel.Step{Op: "tcommit"}, kernel.Step{Op: "tx", A: []int64{0}})
			} else {
				steps = append(steps, final(x, false))
			}
		}
	}
	// the archive pair, if this variant still has it intact
	pk, pd := -1, -1
	for i, e := range ents {
		if e.pair == 1 && e.tk >= 0 {
			pk = i
		}
	}
	for i, e := range ents {
		if pk >= 0 && e.pair == 2 && !e.tomb && e.tk >= 0 && e.vk == ents[pk].ovk && e.id == ents[pk].oid {
			pd = i
		}
	}
	archive := pk >= 0 && pd >= 0 && rng.Chance(0.7)
	done := map[int]bool{}
	// phase 2: the final write of every key, in a random order, grouped into transactions by mode
	inTx := false
	for n, oi := range order {
		e := ents[oi]
		if done[oi] {
			continue
		}
		if archive && (oi == pk || oi == pd) {
			K, D := ents[pk], ents[pd]
			done[pk], done[pd] = true, true
			old := c11Entry{tk: K.tk, vk: K.ovk, id: K.oid}
			slot := int64(rng.Intn(c11Slots))
			chk := int64(rng.Intn(2))
			begin := func() { steps = append(steps, kernel.Step{Op: "tx", A: []int64{int64(rng.Intn(2))}}); inTx = true }
			commit := func() { steps = append(steps, kernel.Step{Op: "tcommit"}); inTx = false }
			switch rng.Intn(4) {
			case 0: // all inside one transaction
				if !inTx {
					begin()
				}
				steps = append(steps, final(old, true), kernel.Step{Op: "keep", A: []int64{int64(rng.Intn(2) * 2), int64(K.tk), slot}})
				if rng.Chance(0.3) {
					read()
				}
				steps = append(steps, final(K, true), kernel.Step{Op: "usekept", A: []int64{slot, int64(D.tk), 0, chk}})
			case 1: // directly at the block layer
				if inTx {
					commit()
				}
				steps = append(steps, final(old, false), kernel.Step{Op: "keep", A: []int64{int64(1 + rng.Intn(2)*2), int64(K.tk), slot}},
					final(K, false), kernel.Step{Op: "usekept", A: []int64{slot, int64(D.tk), 1, chk}})
			case 2: // old value committed to the block layer, read there, rewritten by a later transaction's commit
				if inTx {
					commit()
				}
				begin()
				steps = append(steps, final(old, true))
				commit()
				steps = append(steps, kernel.Step{Op: "keep", A: []int64{int64(1 + rng.Intn(2)*2), int64(K.tk), slot}})
				begin()
				steps = append(steps, final(K, true))
				commit()
				if rng.Chance(0.5) {
					steps = append(steps, kernel.Step{Op: "usekept", A: []int64{slot, int64(D.tk), 1, chk}})
				} else {
					begin()
					steps = append(steps, kernel.Step{Op: "usekept", A: []int64{slot, int64(D.tk), 0, chk}})
					commit()
				}
			default: // read from the transaction buffer after its commit, rewritten in the same (un-reset) buffer
				if !inTx {
					begin()
				}
				steps = append(steps, final(old, true), kernel.Step{Op: "tcommit"}, kernel.Step{Op: "keep", A: []int64{int64(rng.Intn(2) * 2), int64(K.tk), slot}},
					final(K, true), kernel.Step{Op: "usekept", A: []int64{slot, int64(D.tk), 0, chk}})
			}
			continue
		}
		viaTx := e.tk >= 0 && (mode == 1 || (mode >= 2 && rng.Chance(0.5)))
		if rng.Chance(0.2) {
			if inTx {
				steps = append(steps, kernel.Step{Op: "tcommit"})
				inTx = false
			}
			junk()
		}
		if viaTx {
			if !inTx || rng.Chance(0.3) {
				if inTx {
					steps = append(steps, kernel.Step{Op: "tcommit"})
				}
				steps = append(steps, kernel.Step{Op: "tx", A: []int64{int64(rng.Intn(2))}})
				inTx = true
			}
			noise(e, true)
			steps = append(steps, final(e, true))
		} else {
			if inTx {
				// a direct write while a transaction is open would be overwritten by a later commit of
				// the same key; commit first so that the final write stays final
				steps = append(steps, kernel.Step{Op: "tcommit"})
				inTx = false
			}
			noise(e, false)
			steps = append(steps, final(e, false))
		}
		if rng.Chance(0.25) {
			read()
		}
		_ = n
	}
	if inTx {
		steps = append(steps, kernel.Step{Op: "tcommit"})
	}
	if rng.Chance(0.3) {
		junk()
	}
	return steps
}

func init() {
	kernel.Register(&kernel.Check{
		ID: "C11", Level: "exploration", Engine: engineName,
		Rule: "case = k-tuple (2-6, thorough 2-8) of write histories, each applied to its own fresh OverlayDB on one of two LevelDBs seeded with equal content; histories of a tuple are renderings of one base net write set (0-9 keys, 25% tombstones) " +
			"as: direct block-layer writes, writes through 1..n CacheDB transactions (fresh CacheDB or Reset per transaction), mixed routes, random order, redundant earlier overwrites / put-delete-put / delete-put, earlier committed versions, rolled-back junk transactions touching the same keys, interleaved reads and scans; " +
			"60% of the tuples contain an archive pair (key K gets a new value of equal / shorter / longer length or is deleted, key D gets K's previous value) which 70% of the variants render as a zero-copy read: write K, keep the slice returned by Get or by an iterator's Value() without copying, rewrite K, write the kept slice under D " +
			"(inside one transaction, directly at the block layer, across a commit to the block layer, or in an un-reset transaction buffer after its commit); kept slices must still hold what they held when read. " +
			"35% of the non-first variants get one deliberate difference (changed value, dropped key, extra key, live<->tombstone, extra tombstone for a never-written key). The model (map of block-layer writes) classifies every pair; ChangeHash and the write-set listing are evaluated 8 times per variant. " +
			"evaluations = pairs compared; non-trivial = at least one pair with equal net effect and both direct and transactional routes used; distinct by the classification and digests of all pairs",
		Real:        []string{"core/store/overlaydb OverlayDB.ChangeHash / GetWriteSet / MemDB", "native/storage CacheDB (Commit/Reset routing)", "core/store/leveldbstore (two equal backends)"},
		Stub:        []string{"StateStore.AddStateMerkleTreeRoot / replica state roots are observed by E1, not here"},
		Assumptions: []string{"SHA-256 collision resistance (different byte streams => different digests)", "Go's map iteration order cannot be seeded: each digest/listing is repeated 8 times in-process; a map-order dependence would replay with probability >= 1-2^-7, not exactly", "deleted-then-absent vs never-written is not asserted either way (property text); direction is reported as a probe"},
		QuickRuns:   2400, ThoroughRuns: 100000, QuickCap: 40, ThoroughCap: 700,
		RequiredProbes: []string{"equal_pair_via_different_histories", "different_pair_digest_differs", "route_tx", "route_direct", "route_rollback", "route_reads",
			"kept_slice_reused_after_rewrite_not_longer", "kept_slice_reused_after_rewrite_longer_or_empty", "kept_slice_origin_1", "kept_slice_origin_2"},
		Generate:       c11Generate,
		Execute:        c11Execute,
	})
}
