package storage

import (
	"bytes"
	"fmt"
	"sort"

	"github.com/polynetwork/poly/core/store/overlaydb"
	"github.com/syndtr/goleveldb/leveldb/iterator"
	"github.com/syndtr/goleveldb/leveldb/util"

	"polysim/kernel"
)

// C09: MemDB (the in-memory write buffer) answers like a byte-ordered map with tombstones.
//
// Reference model: map key -> value, where an entry with an empty value is a tombstone ("known
// absent"); a key that was never written since the last reset is "unknown". nil and empty slices
// are not distinguished anywhere (the property speaks of values, not of nil-ness). Iterator model:
// a cursor that is before-first (BOF), after-last (EOF) or at a key; a fresh iterator is at BOF;
// Next from BOF = First, Prev from EOF = Last, Next at EOF and Prev at BOF fail (goleveldb's
// documented iterator contract, which this code is a fork of). Movements are resolved against the
// *current* contents (cursor by key), so writes between iterator steps are legal steps.

const c09Slots = 4

const (
	curBOF = iota
	curEOF
	curAt
)

type c09Iter struct {
	it     iterator.Iterator
	start  []byte // nil = unbounded
	limit  []byte
	state  int
	key    string
	closed bool
}

type c09World struct {
	run    *kernel.Run
	db     *overlaydb.MemDB
	model  map[string][]byte // known keys; len(v)==0 => tombstone
	iters  [c09Slots]*c09Iter
	keys   [][]byte
	sig    sigAcc
	tombRd int
	revIt  int
	ovAfterDel int
	held   []*heldSlice
}

// heldSlice is a slice handed out by Get / Find / an iterator that the caller keeps without copying.
// The buffer is append-only: until the next Reset such a slice must keep the bytes it had when returned.
type heldSlice struct {
	slice, want []byte
	what        string
	key         string // key whose value the slice is ("" for key slices)
	isValue     bool
	rewritten   bool
	notLonger   bool
}

func (w *c09World) hold(b []byte, what, key string, isValue bool) {
	if len(b) == 0 {
		return
	}
	if len(w.held) >= 8 {
		w.held = w.held[1:]
	}
	w.held = append(w.held, &heldSlice{slice: b, want: clone(b), what: what, key: key, isValue: isValue})
}

func (w *c09World) noteRewrite(key string, n int) {
	for _, h := range w.held {
		if h.isValue && h.key == key && !h.rewritten {
			h.rewritten, h.notLonger = true, n > 0 && n <= len(h.slice)
		}
	}
}

func (w *c09World) heldIntact(when string) bool {
	for _, h := range w.held {
		if !bytes.Equal(h.slice, h.want) {
			w.run.Fail("C09", "returned-slice-changed", "%s: the slice returned by %s held %s and now holds %s (key rewritten since: %v, value not longer: %v)", when, h.what, short(h.want), short(h.slice), h.rewritten, h.notLonger)
			return false
		}
		if h.rewritten && h.notLonger {
			w.run.Probe("held_slice_checked_after_rewrite_not_longer")
			h.notLonger = false // count once
		}
	}
	return true
}

func (w *c09World) sorted() []string { return sortedKeys(w.model) }

func inRange(k string, start, limit []byte) bool {
	if start != nil && k < string(start) {
		return false
	}
	if limit != nil && k >= string(limit) {
		return false
	}
	return true
}

func (w *c09World) rangeKeys(start, limit []byte) []string {
	var out []string
	for _, k := range w.sorted() {
		if inRange(k, start, limit) {
			out = append(out, k)
		}
	}
	return out
}

// model cursor movements; return (valid, key)
func (w *c09World) mFirst(c *c09Iter) {
	ks := w.rangeKeys(c.start, c.limit)
	if len(ks) == 0 {
		c.state = curEOF
		return
	}
	c.state, c.key = curAt, ks[0]
}

func (w *c09World) mLast(c *c09Iter) {
	ks := w.rangeKeys(c.start, c.limit)
	if len(ks) == 0 {
		c.state = curBOF
		return
	}
	c.state, c.key = curAt, ks[len(ks)-1]
}

func (w *c09World) mSeek(c *c09Iter, key []byte) {
	eff := string(key)
	if c.start != nil && eff < string(c.start) {
		eff = string(c.start)
	}
	ks := w.rangeKeys(c.start, c.limit)
	i := sort.SearchStrings(ks, eff)
	if i >= len(ks) {
		c.state = curEOF
		return
	}
	c.state, c.key = curAt, ks[i]
}

func (w *c09World) mNext(c *c09Iter) {
	switch c.state {
	case curBOF:
		w.mFirst(c)
	case curEOF:
	case curAt:
		ks := w.rangeKeys(c.start, c.limit)
		i := sort.Search(len(ks), func(i int) bool { return ks[i] > c.key })
		if i >= len(ks) {
			c.state = curEOF
			return
		}
		c.key = ks[i]
	}
}

func (w *c09World) mPrev(c *c09Iter) {
	switch c.state {
	case curEOF:
		w.mLast(c)
	case curBOF:
	case curAt:
		ks := w.rangeKeys(c.start, c.limit)
		i := sort.Search(len(ks), func(i int) bool { return ks[i] >= c.key })
		if i == 0 {
			c.state = curBOF
			return
		}
		c.key = ks[i-1]
	}
}

func selBound(keys [][]byte, sel int64) []byte {
	if sel <= 0 {
		return nil
	}
	return pick(keys, sel-1)
}

func (w *c09World) closeIters() {
	for i, c := range w.iters {
		if c != nil && !c.closed {
			c.it.Release()
		}
		w.iters[i] = nil
	}
}

// checkPos compares the real iterator with the model cursor right after a movement.
func (w *c09World) checkPos(c *c09Iter, op string, got bool) bool {
	run := w.run
	want := c.state == curAt
	if got != want {
		run.Fail("C09", "iterator-move-result", "%s returned %v, model says %v (range [%s,%s), model keys %v)", op, got, want, short(c.start), short(c.limit), w.rangeKeysShort(c))
		return false
	}
	if c.it.Valid() != want {
		run.Fail("C09", "iterator-valid", "after %s Valid()=%v, model %v", op, c.it.Valid(), want)
		return false
	}
	if want {
		k, v := c.it.Key(), c.it.Value()
		if string(k) != c.key || !bytes.Equal(v, w.model[c.key]) {
			run.Fail("C09", "iterator-entry", "after %s at %s=%s, model %s=%s (range [%s,%s))", op, short(k), short(v), short([]byte(c.key)), short(w.model[c.key]), short(c.start), short(c.limit))
			return false
		}
		if len(v) == 0 {
			run.Probe("iter_on_tombstone")
		}
		run.Logf("%s -> %s=%s", op, short(k), short(v))
	} else {
		run.Logf("%s -> end(%d)", op, c.state)
	}
	w.sig.add("%s:%v:%s", op, got, c.key)
	return true
}

func (w *c09World) rangeKeysShort(c *c09Iter) string {
	ks := w.rangeKeys(c.start, c.limit)
	s := ""
	for i, k := range ks {
		if i > 8 {
			s += " ..."
			break
		}
		s += " " + short([]byte(k))
	}
	return s
}

func (w *c09World) listReal() []kv {
	var out []kv
	w.db.ForEach(func(k, v []byte) { out = append(out, kv{clone(k), clone(v)}) })
	return out
}

func (w *c09World) listModel(start, limit []byte) []kv {
	var out []kv
	for _, k := range w.rangeKeys(start, limit) {
		out = append(out, kv{[]byte(k), w.model[k]})
	}
	return out
}

func c09Generate(rng *kernel.RNG, idx int, tier string) *kernel.Plan {
	nops := 140 + rng.Intn(120)
	if tier == "thorough" && rng.Chance(0.3) {
		nops = 200 + rng.Intn(500)
	}
	// swarm: a per-run subset of the alphabet (small => collisions) and per-run op weights
	nk := 3 + rng.Intn(10)
	if rng.Chance(0.2) {
		nk = len(rawKeys)
	}
	perm := rng.Perm(len(rawKeys))
	cfg := map[string]int64{"nk": int64(nk), "cap": int64(rng.Intn(4)), "kvn": int64(rng.Intn(3))}
	for i := 0; i < nk; i++ {
		cfg[fmt.Sprintf("k%d", i)] = int64(perm[i])
	}
	ops := []string{"put", "del", "get", "find", "each", "scan", "iopen", "imove", "iseek", "irel", "reset", "new", "len", "hold"}
	w := []int{30, 12, 20, 8, 3, 10, 5, 30, 6, 2, 1, 0, 1, 6}
	// switch some kinds off / up per run
	for i := range w {
		switch rng.Intn(6) {
		case 0:
			w[i] = 0
		case 1:
			w[i] *= 3
		}
	}
	w[0] += 5 // always some puts
	if rng.Chance(0.3) {
		w[10] = 0 // no reset at all
	} else if rng.Chance(0.3) {
		w[10] = 4
	}
	if rng.Chance(0.15) {
		w[11] = 1
	}
	var steps []kernel.Step
	for i := 0; i < nops; i++ {
		op := ops[weighted(rng, w)]
		k := int64(rng.Intn(nk))
		switch op {
		case "put":
			steps = append(steps, kernel.Step{Op: "put", A: []int64{k, int64(rng.Intn(nValKinds)), int64(rng.Intn(50))}})
		case "del", "get", "find":
			steps = append(steps, kernel.Step{Op: op, A: []int64{k}})
		case "hold":
			steps = append(steps, kernel.Step{Op: op, A: []int64{k, int64(rng.Intn(3))}})
		case "each", "reset", "len":
			steps = append(steps, kernel.Step{Op: op})
		case "new":
			steps = append(steps, kernel.Step{Op: op, A: []int64{int64(rng.Intn(4)), int64(rng.Intn(3))}})
		case "scan":
			steps = append(steps, kernel.Step{Op: op, A: []int64{int64(rng.Intn(nk + 2)), int64(rng.Intn(nk + 2)), int64(rng.Intn(2)), int64(rng.Intn(4))}})
		case "iopen":
			steps = append(steps, kernel.Step{Op: op, A: []int64{int64(rng.Intn(c09Slots)), int64(rng.Intn(nk + 2)), int64(rng.Intn(nk + 2)), int64(rng.Intn(4))}})
		case "imove":
			mv := []string{"inext", "inext", "inext", "iprev", "iprev", "ifirst", "ilast"}[rng.Intn(7)]
			steps = append(steps, kernel.Step{Op: mv, A: []int64{int64(rng.Intn(c09Slots))}})
		case "iseek":
			steps = append(steps, kernel.Step{Op: op, A: []int64{int64(rng.Intn(c09Slots)), k}})
		case "irel":
			steps = append(steps, kernel.Step{Op: op, A: []int64{int64(rng.Intn(c09Slots))}})
		}
	}
	return &kernel.Plan{Cfg: cfg, Steps: steps}
}

func newMemDB(capKind, kvKind int64) *overlaydb.MemDB {
	caps := []int{0, 16, 1024, 64 * 1024}
	kvn := []int{0, 1, 16}
	return overlaydb.NewMemDB(caps[umod(capKind, len(caps))], kvn[umod(kvKind, len(kvn))])
}

func c09Execute(run *kernel.Run) {
	p := run.Plan
	w := &c09World{run: run, model: map[string][]byte{}}
	nk := int(p.C("nk", 6))
	if nk < 1 {
		nk = 1
	}
	for i := 0; i < nk; i++ {
		w.keys = append(w.keys, rawKeys[umod(p.C(fmt.Sprintf("k%d", i), int64(i)), len(rawKeys))])
	}
	w.db = newMemDB(p.C("cap", 0), p.C("kvn", 0))
	defer w.closeIters()
	ok := guard(run, "C09", "MemDB operation", func() { c09Steps(w) })
	if !ok || run.Failed() {
		return
	}
	if w.tombRd > 0 && w.revIt > 0 && w.ovAfterDel > 0 {
		run.Nontrivial(w.sig.h)
	}
	run.Sample = map[string]interface{}{"keys": nk, "ops": len(p.Steps), "tombstone_reads": w.tombRd, "reverse_moves": w.revIt, "first_ops": fmt.Sprint(p.Steps[:min(8, len(p.Steps))])}
}

func c09Steps(w *c09World) {
	run := w.run
	for i, st := range run.Plan.Steps {
		run.StepNo = i
		run.Steps++
		switch st.Op {
		case "put":
			k, v := pick(w.keys, st.Arg(0)), makeVal(st.Arg(1), st.Arg(2))
			mk, mv := string(k), clone(v)
			if old, known := w.model[mk]; known && len(old) == 0 && len(v) > 0 {
				w.ovAfterDel++
				run.Probe("overwrite_after_delete")
			}
			if len(v) == 0 {
				run.Probe("put_empty_value")
			}
			w.db.Put(k, v)
			scribble(k)
			scribble(v)
			w.model[mk] = mv
			w.noteRewrite(mk, len(mv))
			run.Logf("put %s=%s", short([]byte(mk)), short(mv))
			if !w.heldIntact("after put") {
				return
			}
		case "del":
			k := pick(w.keys, st.Arg(0))
			mk := string(k)
			if _, known := w.model[mk]; !known {
				run.Probe("delete_unknown_key")
			}
			w.db.Delete(k)
			scribble(k)
			w.model[mk] = nil
			w.noteRewrite(mk, 0)
			run.Logf("del %s", short([]byte(mk)))
			if !w.heldIntact("after delete") {
				return
			}
		case "get":
			k := pick(w.keys, st.Arg(0))
			v, unknown := w.db.Get(k)
			mv, known := w.model[string(k)]
			if unknown == known {
				run.Fail("C09", "get-unknown-flag", "Get(%s): unknown=%v but model known=%v (model value %s)", short(k), unknown, known, short(mv))
				return
			}
			if !bytes.Equal(v, mv) {
				run.Fail("C09", "get-value", "Get(%s)=%s, model %s (known=%v)", short(k), short(v), short(mv), known)
				return
			}
			if known && len(mv) == 0 {
				w.tombRd++
				run.Probe("tombstone_read")
			}
			if !known {
				run.Probe("unknown_read")
			}
			run.Logf("get %s -> %s unknown=%v", short(k), short(v), unknown)
			w.sig.add("get:%s:%v", v, unknown)
		case "find":
			k := pick(w.keys, st.Arg(0))
			rk, rv, err := w.db.Find(k)
			ks := w.sorted()
			j := sort.SearchStrings(ks, string(k))
			if j >= len(ks) {
				if err != overlaydb.ErrNotFound {
					run.Fail("C09", "find-result", "Find(%s) = %s,%s,%v; model: no key >= it", short(k), short(rk), short(rv), err)
					return
				}
				run.Logf("find %s -> notfound", short(k))
			} else {
				if err != nil || string(rk) != ks[j] || !bytes.Equal(rv, w.model[ks[j]]) {
					run.Fail("C09", "find-result", "Find(%s) = %s,%s,%v; model %s=%s", short(k), short(rk), short(rv), err, short([]byte(ks[j])), short(w.model[ks[j]]))
					return
				}
				run.Logf("find %s -> %s=%s", short(k), short(rk), short(rv))
			}
			w.sig.add("find:%s", rk)
		case "each":
			got, want := w.listReal(), w.listModel(nil, nil)
			if !kvEqual(got, want) {
				run.Fail("C09", "foreach-listing", "ForEach listed %s, model %s", kvString(got), kvString(want))
				return
			}
			run.Logf("each -> %d entries %x", len(got), kvDigest(got))
			run.State(kvDigest(got))
		case "len":
			run.Logf("len=%d model=%d", w.db.Len(), len(w.model))
		case "hold": // zero-copy read: keep the returned slices
			k := pick(w.keys, st.Arg(0))
			switch umod(st.Arg(1), 3) {
			case 0:
				v, _ := w.db.Get(k)
				if !bytes.Equal(v, w.model[string(k)]) {
					run.Fail("C09", "get-value", "Get(%s)=%s, model %s", short(k), short(v), short(w.model[string(k)]))
					return
				}
				w.hold(v, "Get", string(k), true)
			case 1:
				if rk, rv, err := w.db.Find(k); err == nil {
					w.hold(rk, "Find (key)", "", false)
					w.hold(rv, "Find (value)", string(rk), true)
				}
			default:
				it := w.db.NewIterator(nil)
				if it.Seek(k) {
					w.hold(it.Key(), "iterator Key()", "", false)
					w.hold(it.Value(), "iterator Value()", string(it.Key()), true)
				}
				it.Release()
			}
			run.Logf("hold %s via %d (%d held)", short(k), umod(st.Arg(1), 3), len(w.held))
		case "reset":
			w.held = nil // Reset re-uses the buffer
			w.closeIters()
			w.db.Reset()
			w.model = map[string][]byte{}
			run.Fault("reset")
			if w.db.Len() != 0 {
				run.Fail("C09", "reset-not-empty", "Len()=%d after Reset", w.db.Len())
				return
			}
			if got := w.listReal(); len(got) != 0 {
				run.Fail("C09", "reset-not-empty", "ForEach lists %s after Reset", kvString(got))
				return
			}
			run.Logf("reset")
		case "new":
			w.held = nil
			w.closeIters()
			w.db = newMemDB(st.Arg(0), st.Arg(1))
			w.model = map[string][]byte{}
			run.Logf("new memdb")
		case "scan":
			start, limit := selBound(w.keys, st.Arg(0)), selBound(w.keys, st.Arg(1))
			back := st.Arg(2)%2 == 1
			var rg *util.Range
			if start != nil || limit != nil || st.Arg(3) != 0 {
				rg = &util.Range{Start: start, Limit: limit}
			}
			it := w.db.NewIterator(rg)
			var got []kv
			if back {
				for ok := it.Last(); ok; ok = it.Prev() {
					got = append(got, kv{clone(it.Key()), clone(it.Value())})
				}
				w.revIt++
			} else {
				// alternate the two idioms: First/Next and bare Next on a fresh iterator
				if st.Arg(3)%2 == 0 {
					for ok := it.First(); ok; ok = it.Next() {
						got = append(got, kv{clone(it.Key()), clone(it.Value())})
					}
				} else {
					for it.Next() {
						got = append(got, kv{clone(it.Key()), clone(it.Value())})
					}
				}
			}
			err := it.Error()
			it.Release()
			want := w.listModel(start, limit)
			if back {
				for a, b := 0, len(want)-1; a < b; a, b = a+1, b-1 {
					want[a], want[b] = want[b], want[a]
				}
			}
			if err != nil || !kvEqual(got, want) {
				run.Fail("C09", "range-scan", "scan [%s,%s) back=%v listed %s err=%v, model %s", short(start), short(limit), back, kvString(got), err, kvString(want))
				return
			}
			if (start != nil || limit != nil) && len(got) > 0 {
				run.Probe("bounded_scan_nonempty")
			}
			if start != nil && limit != nil && bytes.Compare(start, limit) >= 0 {
				run.Probe("inverted_range_scan")
			}
			run.Logf("scan [%s,%s) back=%v -> %d %x", short(start), short(limit), back, len(got), kvDigest(got))
			w.sig.add("scan:%x", kvDigest(got))
		case "iopen":
			s := umod(st.Arg(0), c09Slots)
			if c := w.iters[s]; c != nil && !c.closed {
				c.it.Release()
			}
			start, limit := selBound(w.keys, st.Arg(1)), selBound(w.keys, st.Arg(2))
			var rg *util.Range
			if start != nil || limit != nil || st.Arg(3) != 0 {
				rg = &util.Range{Start: start, Limit: limit}
			}
			w.iters[s] = &c09Iter{it: w.db.NewIterator(rg), start: start, limit: limit, state: curBOF}
			run.Logf("iopen %d [%s,%s)", s, short(start), short(limit))
		case "ifirst", "ilast", "inext", "iprev", "iseek":
			s := umod(st.Arg(0), c09Slots)
			c := w.iters[s]
			if c == nil {
				run.Logf("%s %d: no iterator", st.Op, s)
				continue
			}
			if c.closed {
				// use after release: must fail cleanly
				var got bool
				switch st.Op {
				case "ifirst":
					got = c.it.First()
				case "ilast":
					got = c.it.Last()
				case "inext":
					got = c.it.Next()
				case "iprev":
					got = c.it.Prev()
				default:
					got = c.it.Seek(pick(w.keys, st.Arg(1)))
				}
				if got || c.it.Valid() {
					run.Fail("C09", "released-iterator-moves", "%s on a released iterator returned %v valid=%v", st.Op, got, c.it.Valid())
					return
				}
				run.Probe("use_after_release")
				run.Logf("%s on released -> false", st.Op)
				continue
			}
			var got bool
			op := fmt.Sprintf("%s[%d]", st.Op, s)
			switch st.Op {
			case "ifirst":
				got = c.it.First()
				w.mFirst(c)
			case "ilast":
				got = c.it.Last()
				w.mLast(c)
				w.revIt++
			case "inext":
				if c.state == curBOF {
					run.Probe("next_from_bof")
				}
				got = c.it.Next()
				w.mNext(c)
			case "iprev":
				if c.state == curEOF {
					run.Probe("prev_from_eof")
				}
				got = c.it.Prev()
				w.mPrev(c)
				w.revIt++
			case "iseek":
				k := pick(w.keys, st.Arg(1))
				op = fmt.Sprintf("iseek[%d](%s)", s, short(k))
				got = c.it.Seek(k)
				w.mSeek(c, k)
			}
			if !w.checkPos(c, op, got) {
				return
			}
		case "irel":
			s := umod(st.Arg(0), c09Slots)
			if c := w.iters[s]; c != nil && !c.closed {
				c.it.Release()
				c.closed = true
				run.Logf("irel %d", s)
			}
		}
		if i%16 == 15 {
			got, want := w.listReal(), w.listModel(nil, nil)
			if !kvEqual(got, want) {
				run.Fail("C09", "foreach-listing", "after step %d ForEach lists %s, model %s", i, kvString(got), kvString(want))
				return
			}
			run.State(kvDigest(got))
		}
	}
	if !w.heldIntact("at the end") {
		return
	}
	// final full comparison: every key of the run's alphabet plus the listing
	for _, k := range w.keys {
		v, unknown := w.db.Get(k)
		mv, known := w.model[string(k)]
		if unknown == known || !bytes.Equal(v, mv) {
			run.Fail("C09", "final-get", "final Get(%s)=%s unknown=%v, model %s known=%v", short(k), short(v), unknown, short(mv), known)
			return
		}
	}
	got, want := w.listReal(), w.listModel(nil, nil)
	if !kvEqual(got, want) {
		run.Fail("C09", "foreach-listing", "final ForEach lists %s, model %s", kvString(got), kvString(want))
		return
	}
	w.sig.add("final:%x", kvDigest(got))
}

func init() {
	kernel.Register(&kernel.Check{
		ID: "C09", Level: "exploration", Engine: engineName,
		Rule: "case = sequence of 140-260 (thorough: up to 700) operations put/delete/get/find/forEach/len/reset/new, full range scans (forward by First+Next and by bare Next, backward by Last+Prev; nil, bounded, empty-key and inverted ranges) " +
			"and step-wise iterator movements first/last/seek/next/prev/release on up to 4 concurrently open range iterators interleaved with writes, over a per-run subset (3-12 or all 28) of a key alphabet built to collide and nest " +
			"(\"\", NUL suffixes, prefixes of each other, 0xff runs, 40- and 300-byte shared prefixes) with values nil/empty/1 byte/long; buffers handed to Put/Delete are overwritten afterwards; slices returned by Get / Find / iterator Key()/Value() are kept without copying ('hold') and must keep their bytes across later writes (until the next reset). Every result is compared with an ordered map with tombstones; " +
			"a case is non-trivial if it read at least one tombstone, overwrote a deleted key and moved an iterator backwards; distinct by the digest of all returned results",
		Real:        []string{"core/store/overlaydb MemDB (skip list, dbIter)"},
		Stub:        []string{},
		Assumptions: []string{"nil and empty values are not distinguished (a Put of an empty value is a delete, as the code documents)", "iterators are not used across Reset (released before)", "iterator positions follow the goleveldb iterator contract: fresh iterator is before-first, Next from there is First, Prev after forward exhaustion is Last", "no fault dimension beyond reset/new: decided by history-vs-model"},
		QuickRuns:   20000, ThoroughRuns: 1500000, QuickCap: 40, ThoroughCap: 700,
		RequiredProbes: []string{"tombstone_read", "overwrite_after_delete", "iter_on_tombstone", "bounded_scan_nonempty", "prev_from_eof", "next_from_bof", "reset", "unknown_read", "held_slice_checked_after_rewrite_not_longer"},
		Generate:       c09Generate,
		Execute:        c09Execute,
	})
}
