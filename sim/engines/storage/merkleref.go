package storage

import (
	"crypto/sha256"
	"encoding/binary"
)

// Reference model of the RFC 6962 Merkle tree, written from the RFC text by naive recursion:
//   MTH({})       = SHA-256()
//   MTH({d0})     = SHA-256(0x00 || d0)
//   MTH(D[n])     = SHA-256(0x01 || MTH(D[0:k]) || MTH(D[k:n])),  k = largest power of two < n
//   PATH(m, D[n]) = PATH(m, D[0:k]) : MTH(D[k:n])        for m <  k
//                   PATH(m-k, D[k:n]) : MTH(D[0:k])      for m >= k          (PATH(0,{d0}) = {})
//   PROOF(m,D[n]) = SUBPROOF(m, D[n], true)
//   SUBPROOF(m, D[m], true) = {} ; SUBPROOF(m, D[m], false) = {MTH(D[m])}
//   SUBPROOF(m, D[n], b) = SUBPROOF(m, D[0:k], b) : MTH(D[k:n])            for m <= k
//                          SUBPROOF(m-k, D[k:n], false) : MTH(D[0:k])      for m >  k
// and the verification algorithms of RFC 9162 (2.1.3.2 and 2.1.4.2) as the tuple-level reference
// for the verifiers. Sub-tree hashes are memoised per (start, end).

type hash32 = [32]byte

func refLeafHash(d []byte) hash32 {
	h := sha256.New()
	h.Write([]byte{0})
	h.Write(d)
	var out hash32
	h.Sum(out[:0])
	return out
}

func refNodeHash(l, r hash32) hash32 {
	h := sha256.New()
	h.Write([]byte{1})
	h.Write(l[:])
	h.Write(r[:])
	var out hash32
	h.Sum(out[:0])
	return out
}

type refTree struct {
	leaves [][]byte
	lh     []hash32
	memo   map[[2]int]hash32
}

func newRefTree() *refTree { return &refTree{memo: map[[2]int]hash32{}} }

func (t *refTree) size() int { return len(t.leaves) }

// clone copies the tree (leaf byte slices are immutable and shared).
func (t *refTree) clone() *refTree {
	c := &refTree{leaves: append([][]byte(nil), t.leaves...), lh: append([]hash32(nil), t.lh...), memo: make(map[[2]int]hash32, len(t.memo))}
	for k, v := range t.memo {
		c.memo[k] = v
	}
	return c
}

func (t *refTree) add(d []byte) {
	t.leaves = append(t.leaves, clone(d))
	t.lh = append(t.lh, refLeafHash(d))
}

// truncate drops leaves [n:) (crash: the tree falls back to an older persisted size).
func (t *refTree) truncate(n int) {
	if n >= len(t.leaves) {
		return
	}
	t.leaves, t.lh = t.leaves[:n], t.lh[:n]
	t.memo = map[[2]int]hash32{}
}

func splitPoint(n int) int {
	k := 1
	for k*2 < n {
		k *= 2
	}
	return k
}

func (t *refTree) mth(a, b int) hash32 {
	n := b - a
	switch {
	case n <= 0:
		return sha256.Sum256(nil)
	case n == 1:
		return t.lh[a]
	}
	if n > 2 {
		if h, ok := t.memo[[2]int{a, b}]; ok {
			return h
		}
	}
	k := splitPoint(n)
	h := refNodeHash(t.mth(a, a+k), t.mth(a+k, b))
	if n > 2 {
		t.memo[[2]int{a, b}] = h
	}
	return h
}

func (t *refTree) root(n int) hash32 { return t.mth(0, n) }

// rootWith returns MTH(D ++ extra) without changing the tree (sub-trees inside D come from the memo).
func (t *refTree) rootWith(extra [][]byte) hash32 {
	n0 := len(t.lh)
	ex := make([]hash32, len(extra))
	for i, d := range extra {
		ex[i] = refLeafHash(d)
	}
	if n0+len(ex) == 0 {
		return sha256.Sum256(nil)
	}
	var rec func(a, b int) hash32
	rec = func(a, b int) hash32 {
		if b <= n0 {
			return t.mth(a, b)
		}
		if b-a == 1 {
			return ex[a-n0]
		}
		k := splitPoint(b - a)
		return refNodeHash(rec(a, a+k), rec(a+k, b))
	}
	return rec(0, n0+len(ex))
}

// path returns PATH(m, D[0:n]) (leaf level first) and for each element whether the sibling is the
// right-hand node.
func (t *refTree) path(m, n int) ([]hash32, []bool) { return t.subPath(m, 0, n) }

func (t *refTree) subPath(m, a, b int) ([]hash32, []bool) {
	n := b - a
	if n <= 1 {
		return nil, nil
	}
	k := splitPoint(n)
	if m < k {
		p, d := t.subPath(m, a, a+k)
		return append(p, t.mth(a+k, b)), append(d, true)
	}
	p, d := t.subPath(m-k, a+k, b)
	return append(p, t.mth(a, a+k)), append(d, false)
}

// proof returns PROOF(m, D[0:n]) for 0 < m <= n.
func (t *refTree) proof(m, n int) []hash32 { return t.subProof(m, 0, n, true) }

func (t *refTree) subProof(m, a, b int, whole bool) []hash32 {
	n := b - a
	if m == n {
		if whole {
			return nil
		}
		return []hash32{t.mth(a, b)}
	}
	k := splitPoint(n)
	if m <= k {
		return append(t.subProof(m, a, a+k, whole), t.mth(a+k, b))
	}
	return append(t.subProof(m-k, a+k, b, false), t.mth(a, a+k))
}

// interiorHashes returns the hashes of all interior (non-leaf) nodes of the tree over D[0:n].
func (t *refTree) interiorHashes(n int) map[hash32]bool {
	out := map[hash32]bool{}
	var walk func(a, b int)
	walk = func(a, b int) {
		if b-a <= 1 {
			return
		}
		out[t.mth(a, b)] = true
		k := splitPoint(b - a)
		walk(a, a+k)
		walk(a+k, b)
	}
	walk(0, n)
	return out
}

// ancestors returns, for leaf m of D[0:n], the chain of nodes from the leaf's parent up to the
// root as (left child hash, right child hash, node hash), leaf level first.
func (t *refTree) ancestors(m, n int) (out [][3]hash32) {
	var walk func(m, a, b int)
	walk = func(m, a, b int) {
		if b-a <= 1 {
			return
		}
		k := splitPoint(b - a)
		if m < k {
			walk(m, a, a+k)
		} else {
			walk(m-k, a+k, b)
		}
		out = append(out, [3]hash32{t.mth(a, a+k), t.mth(a+k, b), t.mth(a, b)})
	}
	walk(m, 0, n)
	return
}

// ---- RFC 9162 verification algorithms (independent tuple-level reference) -----------------------

// rfcVerifyInclusion: RFC 9162 section 2.1.3.2.
func rfcVerifyInclusion(leafHash hash32, index, size uint64, path []hash32, root hash32) bool {
	if index >= size {
		return false
	}
	fn, sn := index, size-1
	r := leafHash
	for _, p := range path {
		if sn == 0 {
			return false
		}
		if fn&1 == 1 || fn == sn {
			r = refNodeHash(p, r)
			if fn&1 == 0 {
				for fn&1 == 0 && fn != 0 {
					fn >>= 1
					sn >>= 1
				}
			}
		} else {
			r = refNodeHash(r, p)
		}
		fn >>= 1
		sn >>= 1
	}
	return sn == 0 && r == root
}

// rfcVerifyConsistency: RFC 9162 section 2.1.4.2 for 0 < first < second; first == second is the
// degenerate case "equal sizes: roots equal and empty proof". first == 0 is outside the RFC's domain
// (reported as !defined).
func rfcVerifyConsistency(first, second uint64, firstHash, secondHash hash32, proof []hash32) (accept, defined bool) {
	if first == 0 || first > second {
		return false, first != 0
	}
	if first == second {
		return firstHash == secondHash && len(proof) == 0, true
	}
	if len(proof) == 0 {
		return false, true
	}
	path := proof
	if first&(first-1) == 0 {
		path = append([]hash32{firstHash}, proof...)
	}
	fn, sn := first-1, second-1
	for fn&1 == 1 {
		fn >>= 1
		sn >>= 1
	}
	fr, sr := path[0], path[0]
	for _, c := range path[1:] {
		if sn == 0 {
			return false, true
		}
		if fn&1 == 1 || fn == sn {
			fr = refNodeHash(c, fr)
			sr = refNodeHash(c, sr)
			if fn&1 == 0 {
				for fn&1 == 0 && fn != 0 {
					fn >>= 1
					sn >>= 1
				}
			}
		} else {
			sr = refNodeHash(sr, c)
		}
		fn >>= 1
		sn >>= 1
	}
	return fr == firstHash && sr == secondHash && sn == 0, true
}

// ---- leaf material -----------------------------------------------------------------------------

const nLeafKinds = 9

// leafData renders leaf `id` of length kind `kind` (ids collide on purpose when taken mod small).
func leafData(kind, id int64) []byte {
	var seed [16]byte
	binary.LittleEndian.PutUint64(seed[:], uint64(id))
	copy(seed[8:], "polyleaf")
	expand := func(n int) []byte {
		out := make([]byte, 0, n+32)
		ctr := byte(0)
		for len(out) < n {
			h := sha256.Sum256(append(seed[:], ctr))
			out = append(out, h[:]...)
			ctr++
		}
		return out[:n]
	}
	switch umod(kind, nLeafKinds) {
	case 0, 1, 2:
		return expand(32) // a block hash
	case 3:
		return []byte{}
	case 4:
		return expand(1)
	case 5:
		return expand(31)
	case 6:
		return expand(33)
	case 7:
		return expand(64) // as long as two child hashes
	default:
		d := expand(65)
		d[0] = 1 // looks like the preimage of an interior node
		return d
	}
}

func hashesEqual(a, b []hash32) bool {
	if len(a) != len(b) {
		return false
	}
	for i := range a {
		if a[i] != b[i] {
			return false
		}
	}
	return true
}
